#!/bin/bash
# runs every check at the thorough tier once (unchanged tree); prints one line per check
cd "$(dirname "$0")"
[ -n "$VP_RUN_REPO" ] && export VERIF_REPO=$VP_RUN_REPO
[ -x lean/.lake/build/bin/pfdriver ] || (cd lean && lake build Pokerface pfdriver > /dev/null 2>&1)
for p in ${@:-C01 C02 C03 C04 C05 C06 C07 C08 C09 C10 C11 C12 C13 C14 C15 C16 C17 C18 C19 C20}; do
  out=$(./check $p --tier thorough 2>&1); rc=$?
  echo "$out" | grep -v KNOWN | tail -2
  echo "rc=$rc $p"
done
