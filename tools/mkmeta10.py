#!/usr/bin/env python3
"""mkmeta10.py <id> <property> <needs_to_manifest> : writes seeded/<id>/meta.json from the seedtest log of round 10"""
import sys, json, re
sid, prop, needs = sys.argv[1:4]
log = open(f'/tmp/seedtest-{sid}.log').read()
res = re.findall(r'^RESULT .*$', log, re.M)
chk = re.findall(r'^(VIOLATION .*|check C\d+ tier.*)$', log, re.M)
out = dict(id=sid, property=prop, needs_to_manifest=needs,
           outcome='; '.join(chk[-2:]) + ' | ' + (res[-1] if res else 'no result'),
           confirmed='scratch worktree of /repo HEAD: patch applies, go build ./... ok, stable suite (5 packages) green with the patch, demonstration fails with the patch and passes without it (seedtest.sh)',
           ran=f'tools/seedq.sh {sid} /tmp/seed10-{prop} {prop}: scratch worktree of /repo HEAD with patch.diff applied; VERIF_REPO=<worktree> ./check {prop}; worktree reverted and removed')
json.dump(out, open(f'/verif/seeded/{sid}/meta.json', 'w'), indent=1)
print(out['outcome'])
