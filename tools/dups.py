import re,glob,os,collections,sys
base='/verif/lean/Pokerface/'
groups={'combos':glob.glob(base+'Proofs/Combos*.lean')+[base+'Properties/C10.lean'],
 'evalp':glob.glob(base+'Proofs/Eval*.lean')+[base+'Properties/C03.lean',base+'Properties/C03Spec.lean'],
 'potsp':glob.glob(base+'Proofs/Pots*.lean')+glob.glob(base+'Proofs/Settle*.lean')+[base+'Proofs/Assoc.lean',base+'Properties/C16.lean',base+'Properties/C02.lean'],
 'smp':glob.glob(base+'Proofs/SM*.lean')+[base+'Properties/C08.lean',base+'Properties/C17.lean',base+'Properties/C18.lean'],
 'cardsp':[base+'Proofs/Cards.lean',base+'Proofs/CardsDefs.lean',base+'Proofs/CardsOps.lean',base+'Proofs/View.lean',base+'Properties/C14.lean',base+'Properties/C15.lean'],
 'betsp':[base+'Proofs/Bets.lean',base+'Proofs/BetsActs.lean',base+'Proofs/BetsMono.lean',base+'Proofs/BetsPhase.lean',base+'Proofs/Forced.lean',base+'Proofs/BetsExamples.lean',base+'Proofs/Seats.lean',base+'Properties/C11.lean',base+'Properties/C12.lean',base+'Properties/C13.lean'],
 'hop':[base+'Proofs/EngineHop.lean',base+'Properties/C07.lean'],
 'flow':glob.glob(base+'Proofs/Flow*.lean')+[base+'Properties/C05.lean',base+'Properties/C06.lean'],
 'rgp':glob.glob(base+'Proofs/Reg*.lean')+glob.glob(base+'Proofs/RG*.lean')+[base+'Properties/C09.lean',base+'Properties/C19.lean',base+'Properties/C20.lean'],
 'core':[base+'Proofs/ListLemmas.lean',base+'Proofs/EngineChips.lean',base+'Proofs/EnginePay.lean',base+'Proofs/EngineCtl.lean',base+'Proofs/EngineInv.lean',base+'Proofs/EngineReach.lean',base+'Proofs/EngineAct.lean',base+'Proofs/EngineFirst.lean',base+'Properties/C01.lean',base+'Properties/C04.lean']}
def names(path):
    src=open(path).read()
    src=re.sub(r'/-.*?-/','',src,flags=re.S); src=re.sub(r'--.*','',src)
    ns=[]; out=[]
    for line in src.split('\n'):
        m=re.match(r'\s*namespace\s+([\w.]+)',line)
        if m: ns.append(m.group(1))
        m=re.match(r'\s*end\s+([\w.]+)',line)
        if m and ns and ns[-1]==m.group(1): ns.pop()
        m=re.match(r'\s*(?:@\[[^\]]*\]\s*)?(?:private\s+|protected\s+)?(?:theorem|lemma|def|structure|inductive|abbrev|instance)\s+([\w.\']+)',line)
        if m: out.append(('.'.join(ns+[m.group(1)]), m.group(1)))
    return out
decl=collections.defaultdict(dict)
for g,files in groups.items():
    for f in files:
        if os.path.exists(f):
            for full,short in names(f): decl[full][g]=short
fix=sys.argv[1:] # group to rename
for full,gs in sorted(decl.items()):
    if len(gs)>1:
        print(full,sorted(gs))
        for g in fix:
            if g in gs:
                short=gs[g]
                for f in groups[g]:
                    if os.path.exists(f):
                        s=open(f).read(); o=s
                        s=re.sub(r'(?<![\w.])'+re.escape(short)+r'(?![\w\'])', g+'_'+short, s)
                        if s!=o: open(f,'w').write(s)
