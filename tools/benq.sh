#!/bin/bash
# benq.sh <id> <worktree> <props...>: bentest.sh under the same lock as seedq.sh (one scratch worktree /tmp/rut)
exec 9>/tmp/seedq.lock
flock 9
cd /verif && ./bentest.sh "$@" > /tmp/bentest-$1.log 2>&1
