#!/bin/bash
# seedq.sh <id> <worktree> <props...>: seedtest.sh under a lock, so that queued runs never share the scratch worktree
exec 9>/tmp/seedq.lock
flock 9
cd /verif && ./seedtest.sh "$@" > /tmp/seedtest-$1.log 2>&1
