#!/usr/bin/env python3
"""mkcorpus.py: builds corpus/<component>/<seed id>-<k>.txt from the failing inputs stored with the seeded changes
(seeded/<id>/*.json, seeded/<id>/after/*.json: histories on which a monitor or the correspondence exposed a seeded
defect).  The check replays them first, on the implementation (with the monitors) and on the model: on the unchanged
tree they must be quiet; a change that brings one of the seeded defects back is reported with its stored history."""
import glob, hashlib, json, os, shutil, sys
V = os.path.dirname(os.path.dirname(os.path.abspath(__file__)))
BASE = {'engx': 'engine', 'smx': 'sm', 'tbx': 'tb', 'rgx': 'rg', 'potsx': 'pots'}
out = V + '/corpus'
shutil.rmtree(out, ignore_errors=True)
seen = set()
n = {}
for f in sorted(glob.glob(V + '/seeded/*/*.json') + glob.glob(V + '/seeded/*/after/*.json')):
    if f.endswith('meta.json'):
        continue
    try:
        o = json.load(open(f))
    except Exception:
        continue
    h = o.get('history')
    if not isinstance(h, list) or not h or not all(isinstance(x, str) for x in h):
        continue
    comp = BASE.get(o.get('component', ''), o.get('component', ''))
    if comp not in ('engine', 'sm', 'rg', 'tb', 'pots', 'ev', 'best', 'drv'):
        continue
    key = hashlib.sha1(('\n'.join(h)).encode()).hexdigest()
    if (comp, key) in seen:
        continue
    seen.add((comp, key))
    sid = f.split('/seeded/')[1].split('/')[0]
    k = n.get((comp, sid), 0)
    n[(comp, sid)] = k + 1
    os.makedirs(f'{out}/{comp}', exist_ok=True)
    open(f'{out}/{comp}/{sid}-{k}.txt', 'w').write('\n'.join(h) + '\n')
for c in sorted(set(c for c, _ in n)):
    print(c, sum(v for (cc, _), v in n.items() if cc == c))
