import sys,json,collections
c=sys.argv[1]; d=sys.argv[2] if len(sys.argv)>2 else '/verif/work/t'
a=open(f'{d}/{c}.impl').read().split('\n'); b=open(f'{d}/{c}.model').read().split('\n'); inn=open(f'{d}/{c}.in').read().split('\n')
keys=collections.Counter(); first={}
for i,(x,y) in enumerate(zip(a,b)):
    if x!=y:
        xa=dict(t.split('=',1) for t in x.split()[1:] if '=' in t); ya=dict(t.split('=',1) for t in y.split()[1:] if '=' in t)
        for k in set(xa)|set(ya):
            if xa.get(k)!=ya.get(k):
                keys[k]+=1
                first.setdefault(k,(i,xa.get(k),ya.get(k)))
print(keys.most_common(40))
for k,(i,x,y) in list(first.items())[:int(sys.argv[3]) if len(sys.argv)>3 else 8]:
    j=i
    while j>0 and not inn[j].startswith(('cfg','sm new','rg new')): j-=1
    print('KEY',k,'line',i,'impl',x,'model',y); print('  hist:',inn[j][:200]); 
    for l in inn[max(j+1,i-6):i+1]: print('     ',l)
