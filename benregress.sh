#!/bin/bash
# benregress.sh [ids...]: re-runs the stored HARMLESS changes (benign/<id>/patch.diff) against the current machinery: scratch worktree
# with the patch, the check of the change's property (quick tier); one line "<id> <property> quiet | tie-only | FALSE-ALARM".
# A false alarm is a VIOLATION line with a failing input on a tree where the property holds.  Location-independent (vp run).
cd "$(dirname "$0")"
V=$(pwd)
export GOFLAGS=-mod=mod GOPROXY=off GOSUMDB=off GOTOOLCHAIN=local
SRC=${VP_RUN_REPO:-/repo}
RUT=${RUT:-/tmp/rut-benregress-$$}
[ -x lean/.lake/build/bin/pfdriver ] || ./setup.sh > /dev/null 2>&1
IDS=${@:-$(ls benign)}
n=0; fa=0; tie=0
for id in $IDS; do
  [ -f benign/$id/patch.diff ] || continue
  P=$(python3 -c "import json;print(json.load(open('benign/$id/meta.json'))['property'])" 2>/dev/null)
  [ -z "$P" ] && continue
  git -C $SRC worktree remove --force $RUT 2>/dev/null
  git -C $SRC worktree add -q --detach $RUT HEAD || { echo "$id worktree failed"; continue; }
  if ! git -C $RUT apply $V/benign/$id/patch.diff 2>/dev/null; then echo "$id $P patch-does-not-apply"; continue; fi
  OUT=$(VERIF_REPO=$RUT VERIF_EVIDENCE_DIR=$V/work/evidence-seeded ./check $P 2>&1 | grep -v "^KNOWN-FINDING"); 
  n=$((n+1))
  if echo "$OUT" | grep "^VIOLATION" | grep -qv "no-failing-input-found"; then echo "$id $P FALSE-ALARM"; echo "$OUT" | tail -3; fa=$((fa+1))
  elif echo "$OUT" | grep -q "^VIOLATION"; then echo "$id $P tie-only"; tie=$((tie+1))
  else echo "$id $P quiet"; fi
done
git -C $SRC worktree remove --force $RUT 2>/dev/null
echo "benregress done: $n changes, $tie tie-only, $fa false alarms"
