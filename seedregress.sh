#!/bin/bash
# seedregress.sh [ids...]: re-runs the stored seeded changes (seeded/<id>/patch.diff) against the CURRENT machinery:
# for each, a scratch worktree of the repository under test with the patch applied, the check of the seed's property
# (quick tier), one line "<id> <property> caught|tie-only|MISSED".  Location-independent (runs in a `vp run` snapshot).
# The stored-history corpus is switched off (it holds these very seeds' failing inputs): what is measured is what the
# generators and monitors find by themselves.  CORPUS=1 ./seedregress.sh … leaves it on.
cd "$(dirname "$0")"
V=$(pwd)
export GOFLAGS=-mod=mod GOPROXY=off GOSUMDB=off GOTOOLCHAIN=local
SRC=${VP_RUN_REPO:-/repo}
[ -z "$CORPUS" ] && export VERIF_NO_CORPUS=1
RUT=${RUT:-/tmp/rut-regress-$$}
[ -x lean/.lake/build/bin/pfdriver ] || ./setup.sh > /dev/null 2>&1
IDS=${@:-$(ls seeded)}
n=0; miss=0; tie=0
for id in $IDS; do
  [ -f seeded/$id/patch.diff ] || continue
  P=$(python3 -c "import json;print(json.load(open('seeded/$id/meta.json'))['property'])" 2>/dev/null)
  [ -z "$P" ] && P=${id:0:3}
  git -C $SRC worktree remove --force $RUT 2>/dev/null
  git -C $SRC worktree add -q --detach $RUT HEAD || { echo "$id worktree failed"; continue; }
  if ! git -C $RUT apply $V/seeded/$id/patch.diff 2>/dev/null; then echo "$id $P patch-does-not-apply"; continue; fi
  OUT=$(VERIF_REPO=$RUT VERIF_EVIDENCE_DIR=$V/work/evidence-seeded ./check $P 2>&1 | grep -v "^KNOWN-FINDING")
  n=$((n+1))
  if echo "$OUT" | grep "^VIOLATION property=$P" | grep -qv "no-failing-input-found"; then echo "$id $P caught"
  elif echo "$OUT" | grep -q "^VIOLATION property=$P"; then echo "$id $P tie-only"; tie=$((tie+1))
  else echo "$id $P MISSED"; echo "$OUT" | tail -2; miss=$((miss+1)); fi
done
git -C $SRC worktree remove --force $RUT 2>/dev/null
echo "seedregress done: $n seeds, $tie tie-only, $miss missed"
