#!/usr/bin/env python3
"""Regenerates MANIFEST.json from the table in `check` and the theorem modules present."""
import json, os, re, importlib.machinery, importlib.util
V = '/verif'
loader = importlib.machinery.SourceFileLoader('chk', V + '/check')
spec = importlib.util.spec_from_loader('chk', loader)
chk = importlib.util.module_from_spec(spec)
loader.exec_module(chk)
props = {json.loads(l)['id']: json.loads(l) for l in open(V + '/properties.jsonl')}

TEXT = {
 'C01': 'Every chip field of a reachable state is bounded by the chips in play (Int64Exact.fields_bounded). Chip invariant (bankroll = stack + wager + pot, non-negativity, round pot = wagers) proved as an inductive invariant of the Lean engine model over all configurations, operation sequences and Int amounts; pots/closing identities via the pot and settlement theorems; model tied to the Go code by differential runs on every check.',
 'C02': 'For real play the hypotheses of the layer theorems are discharged (in every reachable state a non-folded player covers every contribution: C02Play), a layer paid only by folded players is refunded. Settlement theorems over all contribution/fold/score vectors on the Lean model of pot.LevelList + settlement.Result (zero-sum, folded wins nothing, bounds, per-level winners, tie fairness after the round-robin repair), tied to the Go code by 10^5 random vectors per run plus every closed hand of the engine run.',
 'C03': 'score order = poker order for all valid five-card hands in any card order, both ranking tables: kernel-evaluated normal form over all 7462 rank/flush classes lifted by lemmas; constants regenerated from the Go source on every run; the finite domain is also compared exhaustively between Go and the model.',
 'C04': 'Every opening of a betting round and who is first to act there (C04Openings); at the wrappers of the table\'s driver of a hand (table/game.go, modelled, translated and run against the real code) a call that reaches the backend comes from the player to act (C06Driver.wrapper_acts_for_caller). one actor / first to act / clockwise / refusals without effect proved for every reachable state of the engine model, the first actor without the open-round hypothesis (C05Opens); malformed stream (every other seat x every action, out-of-phase operations) compared between Go and model.',
 'C05': 'round-closing theorems on the engine model with ghost history, and exactly when a betting round opens (preflop iff somebody keeps chips after the forced bets, later streets iff two stacks); differential runs with the acted/fold/stack fields masked in.',
 'C06': 'The driver the statement speaks of is modelled too (table/game.go: Model/TableDriver.lean): every table-level history is an engine history (refinement), the driver\'s own calls are never refused, progress and termination at table level (C06Driver); regenerated from game.go on every run (group Drv) and run against the real table.game on the real backend (component drv). wait points, expected step succeeds, street order, termination measure and closed-is-final on the engine model.',
 'C07': 'resume equivalence: every operation commutes with the JSON round trip of the state (model level, all states); game construction / LoadState / every method of table.NativeBackend translated from the source and proved to be clone-in, rebuild, the one operation, clone-out for all interpretations of the primitives; the real JSON backend is run as a twin on every history and its argument is byte-compared around every call.',
 'C08': 'newcomer timing from any arrival state, with other players\' operations in between and for Join(-1) (C08Arrival); seat layout theorems over all seat histories, newcomer timing with any number of hands between join and sit-in (partial where the unchanged tree violates the statement: known findings D4, D9, D10 with kernel-checked witnesses); the hand-off of those positions to the engine by table/ (setupPosition, startGame, bankroll write-back) is modelled too (Model/Table.lean), run against the real table code through verif hooks and monitored.',
 'C09': 'exactly one table, the re-entry forms of every theorem (C09One); conservation, hand-out once and counter agreement as invariants of regulator x environment on the wide domain (any setting with max >= 1, any status order) with totality, also with late release reports and with re-entries of eliminated names; refusals without effect for every state.',
 'C10': 'the published hand uses exactly the required number of hole cards (C10Published); enumeration = admissible selections (kernel table for Gosper\'s hack on the whole reachable domain), head of any sorted permutation is a maximum, reported category/cards/strength describe one hand, recomputed on every street, showdown uses the published strength — over all histories.',
 'C11': 'offered-action table and action effects proved for every reachable betting state.',
 'C12': 'every arithmetic expression of the player actions fits int64 for every int64 amount when chips and forced bets are below 2^62 (Int64Full.no_overflow); what a raise does on a pot-limit table, refusal exactly when raise is not offered (C12PotLimit); minimum-raise rule and amount safety for every Int amount on every reachable state.',
 'C13': 'forced bets characterised for every accepted configuration.',
 'C14': 'cards once dealt never change for any deck contents (C14AnyDeck); dealt cards = consumed top of the deck as an invariant over all histories; shuffle as arbitrary swap sequence is a permutation.',
 'C15': 'redaction theorems over all states; struct fields regenerated by reflection must all be classified.',
 'C16': 'eligible sets nested as sets, per-owner slices: no chip in a pot above what its owner paid (C16Nested); pot partition theorems over all contribution vectors and insertion orders.',
 'C17': 'button movement theorems over all seat histories; nextDealer and its loops translated from the source on every run and proved equal to the model; save / restore (ApplyStates) is the identity.',
 'C18': 'seat occupancy theorems and absence of panics over all sequential histories, also at the entry points of the wrappers table.Table and match.Table (sheet and seat map agree: C08T.reachable_invariant); concurrent Join decided by a stress run checked for linearisability.',
 'C19': 'callback / initial-minimum clauses without the forward-only hypothesis, top-up by returned players <= max (C09One); capacity, no table before start / before min, initial tables >= min as invariants of regulator x environment (phases moving forward; kernel-checked witness that capacity fails after a return to pending); the same theorems on the asynchronous system in which release reports arrive late (C19Async).',
 'C20': 'break returns all, directed moves, fixed point (also on the asynchronous system with late release reports: C20Async; there the sweep bound holds up to the cost of late reports, the unconditional form is stated and not proved), and the sweep bound itself: at most 2(e+1)max + 5T + 2e + 2(max+3)u + 1 asking syncs (two potentials over regulator x environment); kernel-checked witness that no T + C bound exists.',
}

checks = []
for pid in sorted(chk.PROPS):
    has = os.path.exists(f'{V}/lean/Pokerface/Properties/{pid}.lean')
    cat = 'proof' if has else 'exploration'
    text = TEXT[pid] if has else 'Theorem module not merged yet: this check currently decides the property by the differential correspondence (implementation vs executable Lean model) and the Go-side monitor of the statement on generated histories only. ' + TEXT[pid]
    checks.append(dict(
        property_id=pid, quick_cmd=f'./check {pid}', thorough_cmd=f'./check {pid} --tier thorough',
        evidence_file=f'/verif/evidence/{pid}.json', replay_cmd_template=f'./check {pid} --replay {{path}}',
        engine='lean4-model+go-harness',
        level_claimed=dict(category=cat, text=text, design_ref='DESIGN.md ' + chk.PROPS[pid]['design']),
        level_note='Trusted: Lean 4.33 kernel (axioms propext, Classical.choice, Quot.sound only; audited by #print axioms on every run); the hand-written Lean model, believed as far as the regenerated tables (K1) and the differential runs (K2) of this check support it; the Go harness (canonicalisation, comparer, monitors); no int64 overflow; sort.Slice / rand.Shuffle / encoding/json contracts; see DESIGN.md §8.',
        technique='Lean 4 theorem about an executable model of the code (induction / invariants), model tied to /repo on every run by (K1) Lean regenerated from the source - constant tables and struct fields by reflection, decision logic translated from the Go AST and proved equal to the model - and (K2) a differential line-protocol run of the real code against the compiled model under a per-property field mask; Go-side monitors with ghost state search for the failing input' if has else 'differential run against the Lean model + monitors (theorems pending)',
    ))
m = dict(
    version=1,
    setup_cmd='./setup.sh',
    hooks=dict(guard='verif', enable='go build -tags verif (the harness module in /verif/harness replaces github.com/weedbox/pokerface by /repo)',
               baseline_off_cmd='cd /repo && GOFLAGS=-mod=mod GOPROXY=off GOSUMDB=off go test -vet=off -count=1 ./combination/ ./pot/ ./regulator/ ./settlement/ ./testcases/',
               source_commits=['1240968', 'dbd1a42', '011be18'], add_only=True),
    engines=[dict(name='lean4-model+go-harness', path='/verif/lean, /verif/harness, /verif/check',
                  serves_properties=sorted(chk.PROPS), kind_free_text='machine-checked proof in Lean 4 over a hand-written model, correspondence check by differential line protocol')],
    checks=checks,
    notes='See DESIGN.md. fix: commits in /repo: D1 72ddc3c, D3 59e41ff, D6 dd564b5, D5 ec47077, D7 17c4d8e, D8 b1d336a, D2 1376ab9, D11 7eb8659, D12 fabedbc. Known findings: /verif/known_findings.json.',
    not_applicable=[],
)
json.dump(m, open(V + '/MANIFEST.json', 'w'), indent=1)
print('MANIFEST.json written:', sum(1 for c in checks if c['level_claimed']['category'] == 'proof'), 'proof-level checks')
