#!/bin/sh
# Build the framework from files on disk only (offline): Go harness against /repo (build tag
# verif), regenerated Lean tables, the Lean library (all models, proofs, property theorems)
# and the native model driver.
set -e
cd "$(dirname "$0")"
V=$(pwd)
export GOFLAGS=-mod=mod GOPROXY=off GOSUMDB=off GOTOOLCHAIN=local
mkdir -p bin work evidence replays
(cd harness && go build -tags verif -o ../bin/gentables ./cmd/gentables && go build -o ../bin/genlogic ./cmd/genlogic && go build -o ../bin/fingerprint ./cmd/fingerprint && go build -tags verif -o ../bin/trace ./cmd/trace)
./bin/gentables $V/lean/Pokerface/Generated
./bin/genlogic /repo $V/lean/Pokerface/Generated
(cd lean && lake build Pokerface pfdriver)
echo setup done
