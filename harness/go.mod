module verif/harness

go 1.19

require (
	github.com/weedbox/pokerface v0.0.0
	github.com/weedbox/syncsaga v0.0.0-20230821071725-a634f0872340
)

require (
	github.com/google/uuid v1.3.0 // indirect
	github.com/klauspost/compress v1.16.5 // indirect
	github.com/minio/highwayhash v1.0.2 // indirect
	github.com/nats-io/jwt/v2 v2.4.1 // indirect
	github.com/nats-io/nats-server/v2 v2.9.20 // indirect
	github.com/nats-io/nats.go v1.28.0 // indirect
	github.com/nats-io/nkeys v0.4.4 // indirect
	github.com/nats-io/nuid v1.0.1 // indirect
	github.com/weedbox/timebank v0.0.0-20230713013837-bd7a6f808e3e // indirect
	golang.org/x/crypto v0.9.0 // indirect
	golang.org/x/sys v0.8.0 // indirect
	golang.org/x/time v0.3.0 // indirect
)

replace github.com/weedbox/pokerface => /repo
