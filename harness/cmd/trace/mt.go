// mt: match.Table, the tournament side's thin wrapper around the seat manager (match/table.go: Join, ApplySeatChanges "left",
// GetPlayers, GetPlayerCount) — the third file C18's anchors name.  Model: the seat manager model (join / leave); a player of the
// match package is never "sat in", so seats stay reserved.  Runs inside the tb component (histories `mt new …`).
package main

import (
	"fmt"
	"strings"

	"github.com/weedbox/pokerface/match"
)

type mtRunner struct {
	o    *Out
	t    *match.Table
	max  int
	dead bool
	// callbacks of the operation under way
	joined, left []string
}

func (r *mtRunner) snap() *smSnap {
	s := &smSnap{dealer: -1, sb: -1, bb: -1}
	for _, st := range r.t.SeatManager().GetSeats() {
		ss := seatSnap{pid: -1, active: st.IsActive, reserved: st.IsReserved}
		if id, ok := st.Player.(string); ok {
			ss.pid = int(atoi(strings.TrimPrefix(id, "p")))
		}
		s.seats = append(s.seats, ss)
	}
	return s
}

func (r *mtRunner) obs(e string) string {
	s := r.snap()
	seats := make([]string, len(s.seats))
	for i, x := range s.seats {
		p := "-"
		if x.pid >= 0 {
			p = itoa(int64(x.pid))
		}
		seats[i] = fmt.Sprintf("%s/%s/%s", p, b01(x.active), b01(x.reserved))
	}
	ps, _ := r.t.GetPlayers()
	for i := range ps {
		ps[i] = strings.TrimPrefix(ps[i], "p")
	}
	return fmt.Sprintf("mt err=%s seats=%s count=%d players=%s", e, joinList(seats, ","), r.t.GetPlayerCount(), joinList(ps, ","))
}

func (r *mtRunner) start(max int, line string) {
	r.max = max
	r.t = match.NewTable(max)
	r.t.OnPlayerJoined(func(id string, seat int) { r.joined = append(r.joined, fmt.Sprintf("%s@%d", id, seat)) })
	r.t.OnPlayerLeft(func(id string, seat int) { r.left = append(r.left, fmt.Sprintf("%s@%d", id, seat)) })
	r.dead = false
	r.o.BeginHistory()
	r.o.Emit(line, r.obs("none"))
}

func (r *mtRunner) exec(f []string) {
	if r.dead || r.t == nil {
		return
	}
	pre := r.snap()
	r.joined, r.left = nil, nil
	var err error
	line := "mt " + strings.Join(f, " ")
	_, pan := safely(func() error {
		switch f[0] {
		case "join":
			err = r.t.Join(int(atoi(f[1])), "p"+f[2])
		case "left":
			sc := match.NewSeatChanges()
			sc.Seats[int(atoi(f[1]))] = "left"
			err = r.t.ApplySeatChanges(sc)
		}
		return nil
	})
	post := r.snap()
	if f[0] == "join" {
		got := "-"
		if err == nil && len(r.joined) == 1 {
			got = r.joined[0][strings.IndexByte(r.joined[0], '@')+1:]
		}
		line = fmt.Sprintf("mt join %s %s %s", f[1], f[2], got)
	}
	if pan {
		r.dead = true
		r.o.Emit(line, "mt err=panic")
		r.o.Violate("C18", "match.no_panic", "match.Table panicked on "+line)
		return
	}
	r.o.Emit(line, r.obs(smErrName(err)))
	r.o.Count("mt.ops." + f[0])
	V := func(mon, msg string) { r.o.Violate("C18", mon, msg) }
	changed := []int{}
	for i := range post.seats {
		if pre.seats[i].pid != post.seats[i].pid {
			changed = append(changed, i)
		}
	}
	cnt := func(s *smSnap) int {
		n := 0
		for _, x := range s.seats {
			if x.pid >= 0 {
				n++
			}
		}
		return n
	}
	want := cnt(pre)
	switch f[0] {
	case "join":
		seat, pid := int(atoi(f[1])), int(atoi(f[2]))
		if err != nil {
			if len(changed) > 0 || len(r.joined) > 0 {
				V("match.refused_no_effect", fmt.Sprintf("refused Join(%d) changed seats %v / reported %v", seat, changed, r.joined))
			}
			if seat == -1 {
				free := []int{}
				for i, x := range pre.seats {
					if x.pid < 0 && !x.reserved {
						free = append(free, i)
					}
				}
				if len(free) > 0 {
					V("match.join_any", fmt.Sprintf("Join(-1) reports %v although seat(s) %v are empty and not reserved", err, free))
				}
			} else if seat >= 0 && seat < len(pre.seats) && pre.seats[seat].pid < 0 {
				V("match.join_spec", fmt.Sprintf("Join(%d) on an empty seat refused: %v", seat, err))
			}
			break
		}
		want++
		if len(changed) != 1 || post.seats[changed[0]].pid != pid || pre.seats[changed[0]].pid >= 0 || (seat >= 0 && changed[0] != seat) ||
			(seat == -1 && pre.seats[changed[0]].reserved) {
			V("match.join_spec", fmt.Sprintf("Join(%d, p%d) accepted: occupants of seats %v changed", seat, pid, changed))
		} else if len(r.joined) != 1 || r.joined[0] != fmt.Sprintf("p%d@%d", pid, changed[0]) {
			V("match.join_spec", fmt.Sprintf("Join(%d, p%d) seated the player on seat %d and reported %v", seat, pid, changed[0], r.joined))
		}
	case "left":
		seat := int(atoi(f[1]))
		if pre.seats[seat].pid >= 0 {
			want--
			if len(changed) != 1 || changed[0] != seat || post.seats[seat].pid >= 0 {
				V("match.left_frees", fmt.Sprintf("seat %d reported as left: occupants of seats %v changed", seat, changed))
			}
		} else if len(changed) > 0 {
			V("match.left_frees", fmt.Sprintf("empty seat %d reported as left: occupants of seats %v changed", seat, changed))
		}
	}
	if got := r.t.GetPlayerCount(); got != want || cnt(post) != want {
		V("match.count", fmt.Sprintf("after %v (err=%v): %d players counted, %d seats occupied, joins minus leaves says %d", f, err, got, cnt(post), want))
	}
	ps, _ := r.t.GetPlayers()
	k := 0
	for _, x := range post.seats {
		if x.pid >= 0 {
			if k >= len(ps) || ps[k] != "p"+itoa(int64(x.pid)) {
				V("match.count", fmt.Sprintf("GetPlayers() = %v does not list the occupants of the seat map in seat order", ps))
				break
			}
			k++
		}
	}
	if k != len(ps) {
		V("match.count", fmt.Sprintf("GetPlayers() = %v lists %d players, %d seats are occupied", ps, len(ps), k))
	}
}

func (r *mtRunner) replay(lines []string) {
	for _, l := range lines {
		f := strings.Fields(l)
		if len(f) < 2 || f[0] != "mt" {
			continue
		}
		switch {
		case f[1] == "new" && len(f) == 3:
			r.start(int(atoi(f[2])), l)
		case f[1] == "join" && len(f) == 5:
			seat := f[2]
			if seat == "-1" && f[4] != "-" {
				seat = f[4] // the seat the recorded run got (Join(-1) draws from math/rand)
			}
			r.exec([]string{"join", seat, f[3]})
		default:
			r.exec(f[1:])
		}
	}
}

// genMT: one history of the match-table wrapper.
func genMT(o *Out, g *Rng) {
	r := &mtRunner{o: o}
	max := 2 + g.Intn(8)
	r.start(max, fmt.Sprintf("mt new %d", max))
	pid := 0
	steps := 5 + g.Intn(40)
	for s := 0; s < steps && !r.dead; s++ {
		if g.Chance(0.65) {
			seat := -1
			if g.Chance(0.5) {
				seat = g.Intn(max)
			}
			if g.Chance(0.05) {
				seat = []int{-2, max, max + 3, 1 << 20}[g.Intn(4)]
			}
			pid++
			r.exec([]string{"join", itoa(int64(seat)), itoa(int64(pid))})
		} else {
			r.exec([]string{"left", itoa(int64(g.Intn(max)))})
		}
	}
}
