package main

import "fmt"

// runRGExhaustive: small-scope exhaustive correspondence for the regulator (thorough tier): for
// small table sizes EVERY sequence of L operations over the alphabet
//
//	add 1 | add 2 | add max+1 | next status | sync(t, 0) and sync(t, 1) for every open table t |
//	sync(unknown table, 1) | settle (sweep all tables until quiet) |
//	the other forward status move (pending -> after directly, after -> normal) | sync(the table broken last, 1)
//
// (the alphabet depends on the state, so the enumeration is a replay-based depth-first search over
// choice indices).  Which members a sync eliminates / releases, and which table a Go map
// iteration picks, are NOT enumerated: they are drawn (seeded PRNG / Go runtime) and recorded on
// the input line, as in the random component.
type rgxOp struct {
	kind string
	a, b int
}

func (g *rgRunner) rgxOptions() []rgxOp {
	ops := []rgxOp{{"add", 1, 0}, {"add", 2, 0}, {"add", g.max + 1, 0}, {"status", 0, 0}}
	for _, t := range g.tableIDs() {
		ops = append(ops, rgxOp{"sync", t, 0}, rgxOp{"sync", t, 1})
	}
	ops = append(ops, rgxOp{"sync", 901, 1})
	if len(g.members) > 0 {
		ops = append(ops, rgxOp{"settle", 0, 0})
	}
	if g.status != "normal" {
		ops = append(ops, rgxOp{"status2", 0, 0})
	}
	if n := len(g.brokenIDs); n > 0 {
		ops = append(ops, rgxOp{"sync", g.brokenIDs[n-1], 1})
	}
	return ops
}

func runRGExhaustive(dir string, L, part, parts int) {
	o := NewOut(dir, "rgx")
	g := &rgRunner{o: o}
	rng := NewRng(uint64(part) + 77)
	slot := 0
	for cfgIdx, mm := range [][2]int{{2, 2}, {3, 2}, {3, 3}, {4, 2}, {4, 3}, {5, 3}} {
		choice := []int{}
		for {
			g.newRG(mm[0], mm[1])
			rng = NewRng(uint64(part) + 77) // the same draws for the same prefix
			depth := 0
			counts := []int{}
			skipped := false
			for depth < L && !g.dead {
				opts := g.rgxOptions()
				if depth >= len(choice) {
					choice = append(choice, 0)
				}
				counts = append(counts, len(opts))
				if depth == 1 {
					// split the enumeration over processes by (configuration, first two choices)
					slot = cfgIdx*10007 + choice[0]*101 + choice[1]
					if slot%parts != part {
						skipped = true
						depth++
						break
					}
				}
				// replays of one prefix can differ (the table a Go map iteration picked): keep the index in range
				if choice[depth] >= len(opts) {
					choice[depth] = len(opts) - 1
				}
				op := opts[choice[depth]]
				switch op.kind {
				case "add":
					ids := []int{}
					for j := 0; j < op.a; j++ {
						g.nextPid++
						ids = append(ids, g.nextPid)
					}
					g.add(ids)
				case "status":
					switch g.status {
					case "pending":
						g.setStatus("normal")
					default:
						g.setStatus("after")
					}
				case "status2":
					// forward moves RSys.ok allows besides pending -> normal -> after
					if g.status == "pending" {
						g.setStatus("after")
					} else {
						g.setStatus("normal")
					}
					o.Count("rgx.status2")
				case "sync":
					out := op.b
					if m, ok := g.members[op.a]; ok && out > len(m) {
						out = len(m)
					}
					g.sync(op.a, out, rng)
				case "settle":
					g.flushAll()
					limit := g.smallBound() // of the state the settle phase starts from
					sw := g.settle(rng, limit)
					o.Count(fmt.Sprintf("rg.settle_sweeps.%d", sw))
					if sw > limit {
						g.V("C20", "rebalancing_settles", fmt.Sprintf("%d sweeps without registrations or eliminations and tables are still asked to move players (%d tables)", sw, len(g.members)))
					}
				}
				depth++
			}
			if !skipped {
				o.Count("rgx.histories")
				o.Mark("C09", fmt.Sprintf("%d/%d/%d/%d", g.max, g.min, len(g.alive), len(g.members)))
				o.Mark("C19", fmt.Sprintf("%d/%d/%d/%d", g.max, g.min, g.registered, g.nextTbl))
				o.Mark("C20", fmt.Sprintf("%d/%d/%d/%d", g.max, g.min, len(g.alive), len(g.members)))
			}
			choice = choice[:depth]
			k := depth - 1
			for k >= 0 {
				choice[k]++
				if choice[k] < counts[k] {
					break
				}
				k--
			}
			if k < 0 {
				break
			}
			choice = choice[:k+1]
		}
	}
	o.Stats["rgx.length"] = L
	o.Sample(fmt.Sprintf("every sequence of %d regulator operations (incl. pending->after, after->normal, sync of the table broken last) for max/min in 2/2 3/2 3/3 4/2 4/3 5/3 (part %d/%d): %d histories", L, part, parts, o.Stats["rgx.histories"]))
	o.Close(dir, "rgx", uint64(part))
}
