package main

import (
	"fmt"
	"math"
	"strings"

	"github.com/weedbox/pokerface"
)

// from the int64 extremes (where a subtraction written before its guard wraps around) to small values
var amountsMalformed = []int64{math.MinInt64, math.MinInt64 + 1, math.MinInt64 + 3, -1 << 40, -1000, -5, -1, 0, 1, 2, 3, 1 << 40, 1 << 62, math.MaxInt64 - 1, math.MaxInt64}

func genStack(r *Rng, c *handCfg) int64 {
	switch r.Intn(12) {
	case 0, 1:
		return int64(1 + r.Intn(8))
	case 2:
		return int64(10 + r.Intn(31))
	case 3:
		// around a forced amount
		base := []int64{c.ante, c.sb, c.bb, c.bd, c.ante + c.bb, c.ante + c.sb}[r.Intn(6)]
		v := base + int64(r.Intn(3)) - 1
		if v < 1 {
			v = 1
		}
		return v
	case 4, 5, 6:
		return int64(100 + r.Intn(900))
	}
	return int64(40 + r.Intn(260))
}

func genCfg(r *Rng) *handCfg {
	c := &handCfg{limit: "no", hole: 2, req: 0, table: "std", burn: 1}
	if r.Chance(0.1) {
		c.burn = []int{0, 2, 3}[r.Intn(3)]
	}
	n := 2 + r.Intn(5)
	if r.Chance(0.15) {
		n = 7 + r.Intn(3)
	}
	if r.Chance(0.02) {
		n = 10
	}
	c.ante = []int64{0, 0, 0, 1, 2, 5}[r.Intn(6)]
	c.sb = []int64{0, 1, 2, 5, 5}[r.Intn(5)]
	c.bb = []int64{0, 2, 5, 10, 10, 10}[r.Intn(6)]
	c.bd = []int64{0, 0, 0, 0, 5, 15}[r.Intn(6)]
	if r.Chance(0.2) {
		c.limit = "pot"
	}
	deck := pokerface.NewStandardDeckCards()
	if r.Chance(0.25) {
		deck = pokerface.NewShortDeckCards()
		c.table = "short"
	} else if r.Chance(0.05) {
		c.table = "short"
	}
	if r.Chance(0.3) && n*4+8 <= len(deck) {
		c.hole, c.req = 4, 2
	} else if r.Chance(0.1) {
		// unusual hole-card rules the engine accepts as well
		// (a single-card hand can have strength 0 — a lone deuce — which the showdown cannot tell
		// from a folded hand; rules that evaluate fewer than two cards are left out)
		c.hole = 2 + r.Intn(3)
		c.req = []int{0, 2, c.hole}[r.Intn(3)]
		if n*c.hole+8 > len(deck) {
			c.hole, c.req = 2, 2
		}
	} else if r.Chance(0.04) {
		// more required hole cards than are dealt (accepted by the engine: no selection is admissible then, hands are
		// evaluated on what there is): C14 quantifies over all hole-card counts, and "the configured number of hole
		// cards" is HoleCardsCount, whatever RequiredHoleCardsCount says
		c.hole = 2 + r.Intn(2)
		c.req = c.hole + 1
		if n*c.hole+8 > len(deck) {
			c.hole, c.req = 2, 3
		}
	}
	c.deck = permute(r, deck)
	if r.Chance(0.12) && c.hole == 2 {
		// a board that plays for everybody (broadway straight in mixed suits): forces split pots
		want := []string{"ST", "HJ", "DQ", "CK", "SA"}
		if n*c.hole+8 <= len(c.deck) {
			pos := []int{n*c.hole + 1, n*c.hole + 2, n*c.hole + 3, n*c.hole + 5, n*c.hole + 7}
			for k, w := range want {
				for i, cd := range c.deck {
					if cd == w {
						c.deck[i], c.deck[pos[k]] = c.deck[pos[k]], c.deck[i]
					}
				}
			}
		}
	}
	d := r.Intn(n)
	c.bank = make([]int64, n)
	c.pos = make([]string, n)
	for i := range c.bank {
		c.bank[i] = genStack(r, c)
	}
	if r.Chance(0.15) {
		for i := range c.bank {
			c.bank[i] = c.bank[0]
		}
	}
	if r.Chance(0.04) {
		// odd layouts: any subset of positions per seat, at least one dealer
		for i := range c.pos {
			c.pos[i] = []string{"", "", "", "d", "s", "b", "ds", "sb", "db", "dsb"}[r.Intn(10)]
		}
		if !strings.Contains(strings.Join(c.pos, ""), "d") {
			c.pos[d] = "d" + c.pos[d]
		}
	} else if n == 2 {
		c.pos[d] = "ds"
		c.pos[1-d] = "b"
	} else {
		c.pos[d] = "d"
		if r.Chance(0.85) {
			c.pos[(d+1)%n] = "s"
		}
		c.pos[(d+2)%n] = "b"
		if c.bb >= 2 && r.Chance(0.12) {
			// short big blind: after the blinds the wager to match is BELOW the big blind (the situation in which `Call` completes to
			// the big blind and "what a call costs" and "the wager to match" part ways); the other seats hold stacks on the
			// boundaries that matter then: just above the wager to match, around the big blind, around wager + big blind
			bbSeat := (d + 2) % n
			c.bank[bbSeat] = 1 + int64(r.Intn(int(c.bb-1)))
			cw := c.bank[bbSeat]
			if c.pos[(d+1)%n] == "s" && c.sb > cw && c.sb < c.bb {
				cw = c.sb
			}
			cands := []int64{cw + 1, cw + 2, c.bb - 1, c.bb, c.bb + 1, cw + c.bb - 1, cw + c.bb, cw + c.bb + 1, cw + c.bb + 2, 2 * c.bb, 2*c.bb + 1, 2*cw + 1}
			for i := range c.bank {
				if i != bbSeat && r.Chance(0.75) {
					if v := cands[r.Intn(len(cands))] + c.ante; v >= 1 {
						c.bank[i] = v
					}
				}
			}
		}
	}
	if r.Chance(0.05) {
		// big chips: the same table with every amount multiplied by a large factor (above 2^31, above 2^53 for the total):
		// the engine's arithmetic is int64 throughout; a narrower or floating intermediate would show only here
		k := []int64{1000003, 1 << 31, 4294967311, 1099511627, 1<<47 + 1}[r.Intn(5)] // the last one: stacks beyond 2^53 (not every int64 is a float64)
		maxBank := int64(0)
		for _, b := range c.bank {
			if b > maxBank {
				maxBank = b
			}
		}
		if maxBank <= 300 && len(c.bank) <= 6 && r.Chance(0.6) {
			k = 1<<52 + 1 // small stacks only: even a SHORT stack is beyond 2^53 then (the total stays below 2^63)
		}
		c.ante, c.sb, c.bb, c.bd = c.ante*k, c.sb*k, c.bb*k, c.bd*k
		for i := range c.bank {
			c.bank[i] = c.bank[i]*k + int64(r.Intn(3))
		}
		c.big = true
	}
	return c
}

// chooseAction picks the next action of the player to act from what is offered.
// stalling: play style of the current hand (see chooseAction)
var stalling bool

func chooseAction(r *Rng, gs *pokerface.GameState, aggressive bool) opSpec {
	st := &gs.Status
	p := gs.Players[st.CurrentPlayer]
	a := p.AllowedActions
	if len(a) == 0 {
		return opSpec{kind: "act", seat: -1, act: "pass"}
	}
	seat := -1
	if r.Chance(0.5) {
		seat = st.CurrentPlayer
	}
	w := map[string]int{"pass": 20, "fold": 3, "check": 14, "call": 16, "allin": 1, "bet": 6, "raise": 5}
	if stalling {
		// stalling play: whatever moves no chips, over and over (hunts for plays that never close)
		for _, x := range a {
			if x == "bet" && r.Chance(0.7) {
				return opSpec{kind: "act", seat: seat, act: "bet", x: 0}
			}
		}
		w = map[string]int{"pass": 20, "fold": 0, "check": 30, "call": 10, "allin": 0, "bet": 0, "raise": 3}
		for _, x := range a {
			if x == "raise" && r.Chance(0.3) {
				return opSpec{kind: "act", seat: seat, act: "raise", x: st.CurrentWager}
			}
		}
	}
	if aggressive {
		w["allin"] = 12
		w["raise"] = 10
	}
	tot := 0
	for _, x := range a {
		tot += w[x]
	}
	k := r.Intn(tot)
	act := a[0]
	for _, x := range a {
		if k < w[x] {
			act = x
			break
		}
		k -= w[x]
	}
	op := opSpec{kind: "act", seat: seat, act: act}
	cw, prev := st.CurrentWager, st.PreviousRaiseSize
	switch act {
	case "bet":
		cands := []int64{st.MiniBet, st.MiniBet, st.MiniBet + 1, 1, 2, st.MiniBet * 2, st.MiniBet * 3, st.MiniBet + int64(r.Intn(10))}
		if aggressive || r.Chance(0.1) {
			cands = []int64{p.StackSize - 1, p.StackSize, p.StackSize + 1, p.StackSize / 2}
		}
		op.x = cands[r.Intn(len(cands))]
		if op.x <= 0 || r.Chance(0.03) {
			op.x = amountsMalformed[r.Intn(len(amountsMalformed))]
		}
		if r.Chance(0.04) {
			op.x = p.StackSize + int64(1+r.Intn(1000))
		}
	case "raise":
		cands := []int64{cw + prev, cw + prev, cw + prev + 1, cw + prev + int64(r.Intn(20)), cw + 2*prev, cw + prev + 2, 2 * cw, 2*cw + 1}
		if aggressive || r.Chance(0.15) {
			cands = []int64{cw + prev - 1, cw + 1, cw, p.InitialStackSize - 1, p.InitialStackSize, p.InitialStackSize + 1, (cw + p.InitialStackSize) / 2}
		}
		op.x = cands[r.Intn(len(cands))]
		if r.Chance(0.05) {
			op.x = amountsMalformed[r.Intn(len(amountsMalformed))]
		}
	}
	return op
}

func expectedOp(r *Rng, gs *pokerface.GameState, aggressive bool) opSpec {
	switch gs.Status.CurrentEvent {
	case "ReadyRequested":
		return opSpec{kind: "ready", seat: -1}
	case "AnteRequested":
		return opSpec{kind: "ante", seat: -1}
	case "BlindsRequested":
		return opSpec{kind: "blinds", seat: -1}
	case "RoundClosed":
		return opSpec{kind: "next", seat: -1}
	case "RoundStarted":
		return chooseAction(r, gs, aggressive)
	}
	return opSpec{kind: "next", seat: -1}
}

var allActs = []string{"pass", "fold", "check", "call", "allin", "bet", "raise", "pay"}

func malformedOp(r *Rng, gs *pokerface.GameState) opSpec {
	n := len(gs.Players)
	switch r.Intn(6) {
	case 0:
		return opSpec{kind: []string{"ready", "ante", "blinds", "next"}[r.Intn(4)], seat: -1}
	case 1, 2:
		// another seat
		return opSpec{kind: "act", seat: r.Intn(n), act: allActs[r.Intn(len(allActs))], x: []int64{0, 1, 5, 10, 20, 100, -3}[r.Intn(7)]}
	case 3:
		// current player, any action, odd amount
		return opSpec{kind: "act", seat: -1, act: allActs[r.Intn(len(allActs))], x: amountsMalformed[r.Intn(len(amountsMalformed))]}
	}
	return opSpec{kind: "act", seat: -1, act: allActs[r.Intn(len(allActs))], x: gs.Status.CurrentWager + int64(r.Intn(30)) - 5}
}

// probeAll: at the current state try every other seat x every action, every action the
// current player was not offered, and every out-of-phase table operation (C04).
func probeAll(h *hand) {
	gs := h.g.GetState()
	ev := gs.Status.CurrentEvent
	for _, k := range []string{"ready", "ante", "blinds", "next"} {
		ok := (k == "ready" && ev == "ReadyRequested") || (k == "ante" && ev == "AnteRequested") || (k == "blinds" && ev == "BlindsRequested") || (k == "next" && ev == "RoundClosed")
		if !ok {
			h.exec(opSpec{kind: k, seat: -1})
		}
	}
	for i := range gs.Players {
		for _, a := range allActs {
			if i == gs.Status.CurrentPlayer && ev == "RoundStarted" && has(gs.Players[i].AllowedActions, a) {
				continue
			}
			xs := []int64{gs.Status.CurrentWager + gs.Status.PreviousRaiseSize + 1}
			if a == "bet" || a == "raise" || a == "pay" {
				xs = append(xs, gs.Status.CurrentWager, 1, gs.Players[i].InitialStackSize, gs.Status.CurrentWager+gs.Status.PreviousRaiseSize)
			}
			for _, x := range xs {
				h.exec(opSpec{kind: "act", seat: i, act: a, x: x})
				if h.dead {
					return
				}
				// the game's own method (acts for the player to act) as well
				if i == gs.Status.CurrentPlayer {
					h.exec(opSpec{kind: "act", seat: -1, act: a, x: x})
					if h.dead {
						return
					}
				}
			}
		}
	}
	for i := range gs.Players {
		h.seatForced("seatante", i)
		h.seatForced("seatblinds", i)
	}
	h.o.Count("engine.probed_states")
}

func playHand(o *Out, r *Rng, cfgLine string, probeP, viewP, hopP, malP float64) {
	h := startHand(o, cfgLine, r.Chance(0.5))
	if h.dead {
		return
	}
	o.Count("engine.hands")
	if h.cfg.bb > 1<<20 || (len(h.cfg.bank) > 0 && h.cfg.bank[0] > 1<<30) {
		o.Count("engine.big_chip_hands")
	}
	o.Count(fmt.Sprintf("engine.seats.%d", len(h.cfg.bank)))
	if h.cfg.hole == 4 {
		o.Count("engine.omaha")
	}
	if h.cfg.limit == "pot" {
		o.Count("engine.potlimit")
	}
	steps := 0
	after := 0
	aggressive := r.Chance(0.2)
	stalling = !aggressive && r.Chance(0.12)
	if stalling {
		o.Count("engine.stalling_hands")
	}
	defer func() { stalling = false }()
	for !h.dead && steps < 500 {
		gs := h.g.GetState()
		if h.closed {
			if after >= 2 {
				break
			}
			after++
			if after == 1 {
				probeAll(h)
				h.views()
				if r.Chance(0.4) {
					for k := 0; k < 5; k++ {
						h.query(k) // a closed hand: the queries, and Resume(), find nothing to do
					}
				}
			} else {
				h.exec(malformedOp(r, gs))
			}
			continue
		}
		pp := probeP
		if st := &gs.Status; st.CurrentEvent == "RoundStarted" && st.CurrentWager > 0 && st.CurrentWager < gs.Meta.Blind.BB {
			// the wager to match is below the big blind (short big blind, or a bet below the minimum): rare, and the place
			// where "what a call costs" and "the wager to match" differ: look at every seat and action here far more often
			pp = 0.35
			o.Count("engine.wager_below_bb_states")
		}
		if r.Chance(pp) {
			probeAll(h)
		}
		if r.Chance(viewP) {
			h.views()
		}
		if r.Chance(0.04) {
			h.noise(r.Intn(5))
		}
		if r.Chance(0.05) {
			h.bystanderStep(r)
		}
		if r.Chance(0.05) {
			h.query(r.Intn(5))
		}
		if h.saved == nil && r.Chance(0.04) {
			h.hop("save")
		} else if h.saved != nil && r.Chance(0.05) {
			h.hop("rollback")
			h.saved = nil // one rollback per checkpoint
			continue
		}
		if r.Chance(hopP) {
			switch {
			case h.useTwin:
				h.hop("")
			case r.Chance(0.5):
				h.hop("json")
			default:
				h.hop("load")
			}
		}
		if r.Chance(malP) {
			h.exec(malformedOp(r, gs))
		} else {
			h.exec(expectedOp(r, gs, aggressive))
		}
		steps++
	}
	if !h.closed && !h.dead {
		o.Count("engine.unfinished")
	}
}

func runEngine(dir string, seed uint64, n int) {
	o := NewOut(dir, "engine")
	wdWatch(o, dir, "engine", seed)
	r := NewRng(seed)
	for _, l := range corpusEngine {
		replayLines(o, l)
	}
	for i := 0; i < n; i++ {
		c := genCfg(r)
		line := c.line()
		playHand(o, r, line, 0.04, 0.05, 0.3, 0.06)
		if i < 2 {
			o.Sample(line)
		}
		if r.Chance(0.08) && c.hole >= 2 {
			// the SAME table, deck order and stakes once more under the OTHER ranking table (games of both variants live in one process
			// and meet the same five cards: whatever the package remembers about a hand must not depend on who asked first)
			if c.table == "std" {
				c.table = "short"
			} else {
				c.table = "std"
			}
			playHand(o, r, c.line(), 0.02, 0.03, 0.2, 0.02)
			o.Count("engine.replayed_under_other_table")
		}
	}
	// malformed configurations: Start must refuse (C06)
	for i := 0; i < 40; i++ {
		c := genCfg(r)
		switch i % 4 {
		case 0:
			c.bank, c.pos = c.bank[:1], c.pos[:1]
		case 1:
			for j := range c.pos {
				c.pos[j] = ""
			}
		case 2:
			c.bank[r.Intn(len(c.bank))] = int64(-r.Intn(2))
		case 3:
			c.deck = nil
		}
		h := startHand(o, c.line(), false)
		if !h.dead {
			o.Violate("C06", "start_iff", "Start() accepted a configuration without two players / a dealer / positive bankrolls / a deck")
		}
		o.Count("engine.malformed_cfg")
	}
	// C14 "shuffling only reorders the deck - the same cards, each once", for all deck contents: decks the model has no
	// cards for (suits in lower case, a double pack told apart by the case of the suit, a deck of arbitrary tokens).
	// Start() only; judged by the monitor alone (the line is a no-op for the model).
	for i := 0; i < 12; i++ {
		var deck []string
		base := pokerface.NewStandardDeckCards()
		switch i % 3 {
		case 0:
			for _, c := range base {
				deck = append(deck, strings.ToLower(c[:1])+c[1:])
			}
		case 1:
			for _, c := range base {
				deck = append(deck, c, strings.ToLower(c[:1])+c[1:])
			}
		default:
			for k := range base {
				deck = append(deck, fmt.Sprintf("card-%d ", k))
			}
		}
		r.Shuffle(len(deck), func(a, b int) { deck[a], deck[b] = deck[b], deck[a] })
		opts := pokerface.NewStardardGameOptions()
		opts.Deck = append([]string{}, deck...)
		for j := 0; j < 3; j++ {
			pos := []string{}
			if j == 0 {
				pos = []string{"dealer"}
			} else if j == 1 {
				pos = []string{"sb"}
			} else {
				pos = []string{"bb"}
			}
			opts.Players = append(opts.Players, &pokerface.PlayerSetting{Bankroll: 1000, Positions: pos})
		}
		o.BeginHistory()
		var after []string
		err, pan := safely(func() error {
			g := pokerface.NewPokerFace().NewGame(opts)
			if e := g.Start(); e != nil {
				return e
			}
			after = g.GetState().Meta.Deck
			return nil
		})
		o.Emit(fmt.Sprintf("noise deckprobe %d", i%3), "ok")
		o.Count("engine.deck_probes")
		if !pan && err == nil && !sameCards(deck, after) {
			o.Violate("C14", "shuffle_perm", fmt.Sprintf("deck after Start() is not a permutation of the configured deck (variant %d): configured %v, after Start %v", i%3, deck[:6], after))
		}
	}
	o.Close(dir, "engine", seed)
}

// replayLines executes a recorded history (cfg line followed by op / view / hop lines).
func replayLines(o *Out, lines []string) {
	var h *hand
	for _, l := range lines {
		switch {
		case len(l) >= 3 && l[:3] == "cfg":
			h = startHand(o, l, true)
		case h == nil:
		case strings.HasPrefix(l, "op seatante ") || strings.HasPrefix(l, "op seatblinds "):
			f := strings.Fields(l)
			h.seatForced(f[1], int(atoi(f[2])))
		case len(l) >= 2 && l[:2] == "op":
			h.exec(parseOpLine(l))
		case len(l) >= 5 && l[:5] == "view ":
			h.view(l[5:])
		case strings.HasPrefix(l, "noise "):
			h.noise(int(atoi(l[6:])))
		case l == "hop" || strings.HasPrefix(l, "hop "):
			h.hop(strings.TrimSpace(l[3:]))
		}
	}
}

// corpus of histories that exposed defects on the unchanged tree (run first)
var corpusEngine = [][]string{
	// D1: Bet(negative)
	{"cfg ante=0 bd=0 sb=5 bb=10 limit=no hole=2 req=0 table=std deck=S2,S3,S4,S5,S6,S7,S8,S9,ST,SJ,SQ,SK,SA,H2,H3,H4,H5,H6,H7,H8 seats=100:d,100:s,100:b",
		"op ready", "op blinds", "op ready", "op act - call 0", "op act - call 0", "op act - check 0", "op next", "op ready", "op act - bet -5"},
	// D3: Pass() when not offered
	{"cfg ante=0 bd=0 sb=5 bb=10 limit=no hole=2 req=0 table=std deck=S2,S3,S4,S5,S6,S7,S8,S9,ST,SJ,SQ,SK,SA,H2,H3,H4,H5,H6,H7,H8 seats=100:d,100:s,100:b",
		"op act - pass 0", "op ready", "op act 1 pass 0"},
	// D11: Bet(x) above the stack records x as the minimum raise
	{"cfg ante=0 bd=0 sb=5 bb=10 limit=no hole=2 req=0 table=std deck=S2,S3,S4,S5,S6,S7,S8,S9,ST,SJ,SQ,SK,SA,H2,H3,H4,H5,H6,H7,H8 seats=3000000:d,1000:s,5000:b",
		"op ready", "op blinds", "op ready", "op act - call 0", "op act - call 0", "op act - check 0", "op next", "op ready",
		"op act - bet 1000000", "op act - call 0", "op act - raise 1980"},
	// D6: blinds (0,0,10) skipped
	{"cfg ante=0 bd=0 sb=0 bb=10 limit=no hole=2 req=0 table=std deck=S2,S3,S4,S5,S6,S7,S8,S9,ST,SJ,SQ,SK,SA,H2,H3,H4,H5,H6,H7,H8 seats=100:d,100:s,100:b",
		"op ready", "op blinds", "op ready"},
}
