package main

import (
	"fmt"
	"strings"
)

// runSMExhaustive: small-scope exhaustive correspondence for the seat manager (thorough tier).
// `part`/`parts` split the enumeration over processes by the index of the sequence / case.
//
// variant "fresh": EVERY operation sequence of length L over the whole alphabet — every seat argument from -2
// (join) / -1 to max, join-any, sit-in, reserve, leave, next — on a fresh table of `max` seats.
//
// variant "preseated": the same from every PRE-SEATED POST-NEXT state: for every set of two or more seats of the
// table, their players sit in and one hand is started; then every operation sequence of length L over the in-range
// alphabet (join-any, join / sit-in / reserve / leave on every seat of the table, next).  A first successful Next()
// needs five operations on a fresh table, so only this variant reaches second and third hands exhaustively.
//
// variant "waiting": the whole case space of the waiting-player stratum (sm.go: forEachWaitingCase) on `max` seats.
func runSMExhaustive(dir string, max, L, part, parts int, variant string) {
	o := NewOut(dir, "smx")
	r := &smRunner{o: o}
	switch variant {
	case "waiting":
		n := 0
		forEachWaitingCase(max, func(S []bool, newc, rem []int, remFirst bool) {
			if n%parts == part {
				r.waitingCase(max, S, newc, rem, remFirst)
				o.Count("smx.histories")
			}
			n++
		})
		o.Stats["smx.max"] = max
		o.Sample(fmt.Sprintf("all %d waiting-player cases on %d seats (part %d/%d); e.g. %s", n, max, part, parts, strings.Join(o.hist, " ; ")))
		o.Close(dir, "smx", uint64(part))
		return
	}
	pre := variant == "preseated"
	var alphabet [][]string
	lo := -2
	hi := max
	if pre {
		lo, hi = -1, max-1
	}
	for s := lo; s <= hi; s++ {
		alphabet = append(alphabet, []string{"join", itoa(int64(s)), "PID", "-"})
	}
	if pre {
		lo = 0
	} else {
		lo = -1
	}
	for _, k := range []string{"seat", "reserve", "leave"} {
		for s := lo; s <= hi; s++ {
			alphabet = append(alphabet, []string{k, itoa(int64(s))})
		}
	}
	alphabet = append(alphabet, []string{"next"})
	A := len(alphabet)
	total := 1
	for i := 0; i < L; i++ {
		total *= A
	}
	// starting states: the fresh table, or every set of >= 2 seated players after one hand
	starts := []int{0}
	if pre {
		starts = starts[:0]
		for mask := 0; mask < 1<<max; mask++ {
			c := 0
			for i := 0; i < max; i++ {
				c += mask >> i & 1
			}
			if c >= 2 {
				starts = append(starts, mask)
			}
		}
	}
	idx := make([]int, L)
	for si, mask := range starts {
		for n := (part + parts - si%parts) % parts; n < total; n += parts {
			x := n
			for i := 0; i < L; i++ {
				idx[i] = x % A
				x /= A
			}
			r.newSM(max)
			pid := 100
			if pre {
				for i := 0; i < max; i++ {
					if mask>>i&1 == 1 {
						r.sit(i, &pid)
					}
				}
				r.nexts(1)
			}
			for i := 0; i < L && !r.dead; i++ {
				op := append([]string{}, alphabet[idx[i]]...)
				if op[0] == "join" {
					pid++
					op[2] = itoa(int64(pid))
				}
				r.exec(op)
			}
			o.Count("smx.histories")
			if r.hands >= 2 {
				o.Count("smx.histories.2+hands")
			}
			if r.hands >= 3 {
				o.Count("smx.histories.3+hands")
			}
		}
	}
	o.Stats["smx.alphabet"] = A
	o.Stats["smx.length"] = L
	o.Stats["smx.max"] = max
	o.Stats["smx.starts"] = len(starts)
	o.Sample(fmt.Sprintf("all %d^%d operation sequences on %d seats from %d starting states (%s; part %d/%d); e.g. %s", A, L, max, len(starts), variant, part, parts, strings.Join(o.hist, " ; ")))
	o.Close(dir, "smx", uint64(part))
}
