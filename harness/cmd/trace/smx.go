package main

import (
	"fmt"
	"strings"
)

// runSMExhaustive: small-scope exhaustive correspondence for the seat manager (thorough tier):
// EVERY operation sequence of length L over the whole alphabet — every seat argument from -2
// (join) / -1 to max, join-any, sit-in, reserve, leave, next — on a table of `max` seats.
// `part`/`parts` split the enumeration over processes by the index of the sequence.
func runSMExhaustive(dir string, max, L, part, parts int) {
	o := NewOut(dir, "smx")
	r := &smRunner{o: o}
	var alphabet [][]string
	for s := -2; s <= max; s++ {
		alphabet = append(alphabet, []string{"join", itoa(int64(s)), "PID", "-"})
	}
	for _, k := range []string{"seat", "reserve", "leave"} {
		for s := -1; s <= max; s++ {
			alphabet = append(alphabet, []string{k, itoa(int64(s))})
		}
	}
	alphabet = append(alphabet, []string{"next"})
	A := len(alphabet)
	total := 1
	for i := 0; i < L; i++ {
		total *= A
	}
	idx := make([]int, L)
	for n := part; n < total; n += parts {
		x := n
		for i := 0; i < L; i++ {
			idx[i] = x % A
			x /= A
		}
		r.newSM(max)
		pid := 100
		for i := 0; i < L && !r.dead; i++ {
			op := append([]string{}, alphabet[idx[i]]...)
			if op[0] == "join" {
				pid++
				op[2] = itoa(int64(pid))
			}
			r.exec(op)
		}
		o.Count("smx.histories")
	}
	o.Stats["smx.alphabet"] = A
	o.Stats["smx.length"] = L
	o.Stats["smx.max"] = max
	o.Sample(fmt.Sprintf("all %d^%d operation sequences on %d seats (part %d/%d); e.g. %s", A, L, max, part, parts, strings.Join(o.hist, " ; ")))
	o.Close(dir, "smx", uint64(part))
}
