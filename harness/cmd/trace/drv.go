package main

// Component `drv` [hv-drv]: the table's DRIVER of a hand, table/game.go (`table.NewGame(backend, opts)`, `Start`,
// `handleState`, the ready groups, the wrappers `Ready/Pay/Pass/Fold/Check/Call/Allin/Bet/Raise(playerIdx[, chips])`),
// against Model/TableDriver.lean (namespace Drv).
//
// Input lines: `drv new <configuration as on the engine's cfg line, post-shuffle deck included>`,
// `drv call ready <i>`, `drv call <act> <i> <x>`.  One canonical observation per line:
// `drv err=<class> closed= updates= group= readyMarks= <the held state g.GetState() in the engine's format>`.
//
// The real driver is asynchronous (a goroutine drains incomingStates, the ready group has its own goroutine and
// fires its callback with `go`).  Quiescence is established by ACCOUNTING, never by sleeping (see settle).

import (
	"fmt"
	"sort"
	"strings"
	"sync"
	"time"

	"github.com/weedbox/pokerface"
	"github.com/weedbox/pokerface/table"
	"github.com/weedbox/syncsaga"
)

var drvTimeout = 10 * time.Second

// ---- the counting backend: wraps the REAL table.NativeBackend ----

type drvBackend struct {
	nb *table.NativeBackend
	r  *drvRunner
}

// own-initiative calls of the driver: Next inside handleState, the three shortcuts fired by a ready group
var drvOwn = map[string]bool{"Next": true, "ReadyForAll": true, "PayAnte": true, "PayBlinds": true}

func (b *drvBackend) do(name string, in *pokerface.GameState, f func() (*pokerface.GameState, error)) (gs *pokerface.GameState, err error) {
	r := b.r
	r.mu.Lock()
	r.entries++
	r.methEntries[name]++
	if name == "ReadyForAll" || name == "PayAnte" || name == "PayBlinds" {
		r.fired = true
		r.firedBy = name
		r.shortcutEntries++
	}
	if !drvOwn[name] && name != "CreateGame" && in != nil {
		// C04 drv.acts_for_caller: the wrapper call of player i reached backend method X: i must be the engine's current player
		r.reached = name
		if r.caller != in.Status.CurrentPlayer {
			r.pendingViol = append(r.pendingViol, [3]string{"C04", "drv.acts_for_caller",
				fmt.Sprintf("wrapper %s(playerIdx=%d) reached backend.%s, which acts for the engine's current player %d", name, r.caller, name, in.Status.CurrentPlayer)})
		}
	}
	r.mu.Unlock()
	r.wake()
	defer func() {
		if p := recover(); p != nil {
			gs, err = nil, fmt.Errorf("panic: %v", p)
		}
		r.mu.Lock()
		if err != nil {
			r.errors++
			r.methErr[name]++
			if name == "Next" {
				r.handled++ // handleState returns without a callback
			}
			if drvOwn[name] {
				r.pendingViol = append(r.pendingViol, [3]string{"C06", "drv.never_refused",
					fmt.Sprintf("backend.%s, called by the driver on its own initiative at %s, was refused: %v", name, evOf(in), err)})
			}
		} else {
			r.returns++
			r.methOK[name]++
			if name == "CreateGame" || !table.VerifGameClosed(r.g) {
				r.enq++ // updateState will queue this state
			}
		}
		r.mu.Unlock()
		r.wake()
	}()
	return f()
}

func evOf(gs *pokerface.GameState) string {
	if gs == nil {
		return "-"
	}
	return gs.Status.CurrentEvent
}

func (b *drvBackend) CreateGame(opts *pokerface.GameOptions) (*pokerface.GameState, error) {
	return b.do("CreateGame", nil, func() (*pokerface.GameState, error) {
		gs, err := b.nb.CreateGame(opts)
		if err == nil && gs != nil {
			// the deck order of the run is the one on the input line (replayable), exactly as the engine component does
			b.r.shuffleOK = sameCards(b.r.cfg.deck, gs.Meta.Deck)
			copy(gs.Meta.Deck, b.r.cfg.deck)
		}
		return gs, err
	})
}
func (b *drvBackend) Next(gs *pokerface.GameState) (*pokerface.GameState, error) {
	return b.do("Next", gs, func() (*pokerface.GameState, error) { return b.nb.Next(gs) })
}
func (b *drvBackend) ReadyForAll(gs *pokerface.GameState) (*pokerface.GameState, error) {
	return b.do("ReadyForAll", gs, func() (*pokerface.GameState, error) { return b.nb.ReadyForAll(gs) })
}
func (b *drvBackend) PayAnte(gs *pokerface.GameState) (*pokerface.GameState, error) {
	return b.do("PayAnte", gs, func() (*pokerface.GameState, error) { return b.nb.PayAnte(gs) })
}
func (b *drvBackend) PayBlinds(gs *pokerface.GameState) (*pokerface.GameState, error) {
	return b.do("PayBlinds", gs, func() (*pokerface.GameState, error) { return b.nb.PayBlinds(gs) })
}
func (b *drvBackend) Call(gs *pokerface.GameState) (*pokerface.GameState, error) {
	return b.do("Call", gs, func() (*pokerface.GameState, error) { return b.nb.Call(gs) })
}
func (b *drvBackend) Pass(gs *pokerface.GameState) (*pokerface.GameState, error) {
	return b.do("Pass", gs, func() (*pokerface.GameState, error) { return b.nb.Pass(gs) })
}
func (b *drvBackend) Fold(gs *pokerface.GameState) (*pokerface.GameState, error) {
	return b.do("Fold", gs, func() (*pokerface.GameState, error) { return b.nb.Fold(gs) })
}
func (b *drvBackend) Check(gs *pokerface.GameState) (*pokerface.GameState, error) {
	return b.do("Check", gs, func() (*pokerface.GameState, error) { return b.nb.Check(gs) })
}
func (b *drvBackend) Allin(gs *pokerface.GameState) (*pokerface.GameState, error) {
	return b.do("Allin", gs, func() (*pokerface.GameState, error) { return b.nb.Allin(gs) })
}
func (b *drvBackend) Bet(gs *pokerface.GameState, chips int64) (*pokerface.GameState, error) {
	return b.do("Bet", gs, func() (*pokerface.GameState, error) { return b.nb.Bet(gs, chips) })
}
func (b *drvBackend) Raise(gs *pokerface.GameState, chipLevel int64) (*pokerface.GameState, error) {
	return b.do("Raise", gs, func() (*pokerface.GameState, error) { return b.nb.Raise(gs, chipLevel) })
}
func (b *drvBackend) Pay(gs *pokerface.GameState, chips int64) (*pokerface.GameState, error) {
	return b.do("Pay", gs, func() (*pokerface.GameState, error) { return b.nb.Pay(gs, chips) })
}

// ---- the runner: an interpreter of `drv` lines on the real driver ----

type drvRunner struct {
	o   *Out
	cfg *handCfg
	g   table.Game
	rg  *syncsaga.ReadyGroup

	mu     sync.Mutex
	notify chan struct{}
	// accounting (all under mu)
	entries, returns, errors int // backend calls entered / returned a state / returned an error
	enq, handled             int // states queued for handleState / handled (callbacks + Next errors)
	updates                  int // OnStateUpdated callbacks
	caused, processed        int // rg.Ready caused by our calls / ready-group actions processed (OnUpdated)
	shortcutEntries          int
	// the group armed by handleState (ghost: from the event of the state delivered to the callback)
	armed       bool
	kind        string // readyForAll payAnte payBlinds
	fired       bool   // a shortcut entered the backend since the group was armed
	firedBy     string
	epochCaused int // rg.Ready caused since the group was armed
	epoch       int // number of groups armed so far
	caller      int // playerIdx of the wrapper call under way
	reached     string
	pendingViol [][3]string
	shuffleOK   bool
	methEntries map[string]int
	methOK      map[string]int
	methErr     map[string]int

	dead   bool // hang: the history is over
	closed bool
}

func newDrvRunner(o *Out) *drvRunner { return &drvRunner{o: o} }

func (r *drvRunner) wake() {
	select {
	case r.notify <- struct{}{}:
	default:
	}
}

// waitUntil blocks until cond (evaluated under mu) holds; false after drvTimeout.  It is woken by every change of a counter.
func (r *drvRunner) waitUntil(cond func() bool) bool {
	deadline := time.NewTimer(drvTimeout)
	defer deadline.Stop()
	for {
		r.mu.Lock()
		ok := cond()
		r.mu.Unlock()
		if ok {
			return true
		}
		select {
		case <-r.notify:
		case <-deadline.C:
			r.mu.Lock()
			ok := cond()
			r.mu.Unlock()
			return ok
		}
	}
}

func (r *drvRunner) allReady() bool {
	for _, v := range r.rg.GetParticipantStates() {
		if !v {
			return false
		}
	}
	return true
}

type drvSnap struct{ entries, returns, errors, enq, handled, caused, processed, shortcuts int }

func (r *drvRunner) snap() drvSnap {
	r.mu.Lock()
	defer r.mu.Unlock()
	return drvSnap{r.entries, r.returns, r.errors, r.enq, r.handled, r.caused, r.processed, r.shortcutEntries}
}

// settle waits until the driver's goroutines have come to rest.  Deterministic accounting:
// (a) every state the backend handed to the driver while it was open has been handled (callback, or the refused Next);
// (b) every rg.Ready our calls caused has been processed by the group (OnUpdated is called, with `go`, after validate());
// then, if the group was touched, everybody in it is ready (or nobody is in it) and it has not fired yet, exactly one shortcut
// must enter the backend; then (a) again.  Repeated until a full pass changes nothing.  false = a wait timed out (hang).
func (r *drvRunner) settle() bool {
	for pass := 0; pass < 64; pass++ {
		s0 := r.snap()
		if !r.waitUntil(func() bool { return r.entries == r.returns+r.errors }) {
			return false
		}
		if !r.waitUntil(func() bool { return r.handled == r.enq }) {
			return false
		}
		if !r.waitUntil(func() bool { return r.processed == r.caused }) {
			return false
		}
		r.mu.Lock()
		expectFire := r.armed && r.epochCaused > 0 && !r.fired
		ep := r.epoch
		r.mu.Unlock()
		if expectFire && r.allReady() {
			// (the shortcut may already have come back and its state may have armed the next group: a new epoch)
			if !r.waitUntil(func() bool { return r.fired || r.epoch != ep }) {
				return false
			}
		}
		if !r.waitUntil(func() bool { return r.entries == r.returns+r.errors }) {
			return false
		}
		if !r.waitUntil(func() bool { return r.handled == r.enq }) {
			return false
		}
		if r.snap() == s0 {
			return true
		}
	}
	return false
}

func drvErrClass(err error) string {
	switch err {
	case nil:
		return "ok"
	case table.ErrPlayerNotInGame:
		return "playerNotInGame"
	case table.ErrInvalidAction:
		return "invalidAction"
	case table.ErrNoRunningGame:
		return "noRunningGame"
	}
	if strings.HasPrefix(err.Error(), "panic: ") {
		return "engine:panic"
	}
	return "engine:" + errName(err)
}

// obs: the canonical observation of the driver at rest.
func (r *drvRunner) obs(e string) string {
	gs := cloneJSON(r.g.GetState())
	marks := []string{}
	for _, p := range gs.Players {
		keep := p.AllowedActions[:0]
		for _, a := range p.AllowedActions {
			if a == "ready" {
				marks = append(marks, itoa(int64(p.Idx)))
			} else {
				keep = append(keep, a)
			}
		}
		p.AllowedActions = keep
	}
	r.mu.Lock()
	group := "none"
	if r.armed {
		st := r.rg.GetParticipantStates()
		ids := make([]int, 0, len(st))
		for k := range st {
			ids = append(ids, int(k))
		}
		sort.Ints(ids)
		ps := []string{}
		for _, k := range ids {
			ps = append(ps, fmt.Sprintf("%d:%s", k, b01(st[int64(k)])))
		}
		kind := r.kind
		if r.fired {
			kind = strings.ToLower(r.firedBy[:1]) + r.firedBy[1:] // what the group really called
		}
		group = fmt.Sprintf("%s/%s/%s", kind, b01(r.fired), joinList(ps, "+"))
	}
	updates := r.updates
	r.mu.Unlock()
	s := gameStr("drv", gs, e)
	prefix := "drv err=" + e + " "
	return prefix + fmt.Sprintf("closed=%s updates=%d group=%s readyMarks=%s ", b01(table.VerifGameClosed(r.g)), updates, group, joinList(marks, ",")) + s[len(prefix):]
}

func (r *drvRunner) flushViolations() {
	r.mu.Lock()
	pv := r.pendingViol
	r.pendingViol = nil
	r.mu.Unlock()
	for _, v := range pv {
		r.o.Violate(v[0], v[1], v[2])
	}
}

func (r *drvRunner) hang(line string) {
	r.dead = true
	r.o.Emit(line, "drv err=hang")
	r.flushViolations()
	s := r.snap()
	r.o.Violate("C06", "drv.no_hang", fmt.Sprintf("%s: the driver did not come to rest within %v (backend calls entered %d, returned %d, refused %d; states queued %d, handled %d; group actions caused %d, processed %d; shortcuts entered %d)",
		line, drvTimeout, s.entries, s.returns, s.errors, s.enq, s.handled, s.caused, s.processed, s.shortcuts))
	r.o.Count("drv.hangs")
}

// start executes a `drv new` line.  false: the configuration was refused (nothing emitted).
func (r *drvRunner) start(line string) bool {
	r.finish()
	o := r.o
	*r = drvRunner{o: o, notify: make(chan struct{}, 1), methEntries: map[string]int{}, methOK: map[string]int{}, methErr: map[string]int{}}
	r.cfg = parseCfgLine(strings.TrimPrefix(line, "drv new "))
	be := &drvBackend{nb: table.NewNativeBackend(), r: r}
	g := table.NewGame(be, r.cfg.options())
	r.g = g
	r.rg = table.VerifGameReadyGroup(g)
	r.rg.OnUpdated(func(*syncsaga.ReadyGroup) { // survives Stop()/Start(): handleState only replaces OnCompleted
		r.mu.Lock()
		r.processed++
		r.mu.Unlock()
		r.wake()
	})
	g.OnStateUpdated(func(gs *pokerface.GameState) {
		r.mu.Lock()
		r.updates++
		r.handled++
		switch gs.Status.CurrentEvent {
		case "ReadyRequested":
			r.armed, r.kind, r.fired, r.epochCaused, r.epoch = true, "readyForAll", false, 0, r.epoch+1
		case "AnteRequested":
			if gs.Meta.Ante != 0 {
				r.armed, r.kind, r.fired, r.epochCaused, r.epoch = true, "payAnte", false, 0, r.epoch+1
			}
		case "BlindsRequested":
			r.armed, r.kind, r.fired, r.epochCaused, r.epoch = true, "payBlinds", false, 0, r.epoch+1
		}
		r.mu.Unlock()
		r.wake()
	})
	o.BeginHistory()
	wdArm(line)
	err, pan := safely(func() error { return g.Start() })
	wdDisarm()
	if err != nil || pan {
		o.Count("drv.start_refused")
		r.g = nil
		return false
	}
	if !r.settle() {
		r.hang(line)
		return true
	}
	o.Emit(line, r.obs("ok"))
	r.flushViolations()
	r.afterLine()
	return true
}

// finish releases the goroutine of the previous game's ready group.
func (r *drvRunner) finish() {
	if r.rg != nil {
		r.rg.Stop()
		r.rg = nil
	}
}

func (r *drvRunner) afterLine() {
	if !r.closed && table.VerifGameClosed(r.g) {
		r.closed = true
		r.o.Count("drv.closed_hands")
	}
}

// exec executes `drv call ready <i>` / `drv call <act> <i> <x>`.
func (r *drvRunner) exec(line string) {
	f := strings.Fields(line)
	if r.g == nil || r.dead || len(f) < 4 {
		return
	}
	act := f[2]
	i := int(atoi(f[3]))
	var x int64
	if len(f) > 4 {
		x = atoi(f[4])
	}
	gs := r.g.GetState()
	ev := gs.Status.CurrentEvent
	r.mu.Lock()
	r.caller, r.reached = i, ""
	sc0 := [3]int{r.methEntries["ReadyForAll"], r.methEntries["PayAnte"], r.methEntries["PayBlinds"]}
	armed0 := r.armed
	epoch0 := r.epoch
	r.mu.Unlock()
	var err error
	wdArm(line)
	_, pan := safely(func() error {
		switch act {
		case "ready":
			err = r.g.Ready(i)
		case "pay":
			err = r.g.Pay(i, x)
		case "pass":
			err = r.g.Pass(i)
		case "fold":
			err = r.g.Fold(i)
		case "check":
			err = r.g.Check(i)
		case "call":
			err = r.g.Call(i)
		case "allin":
			err = r.g.Allin(i)
		case "bet":
			err = r.g.Bet(i, x)
		case "raise":
			err = r.g.Raise(i, x)
		default:
			err = fmt.Errorf("bad op")
		}
		return nil
	})
	wdDisarm()
	if pan {
		r.dead = true
		r.o.Emit(line, "drv err=panic")
		r.o.Count("drv.panics")
		return
	}
	// a wrapper Ready / Pay that returned nil at a request event with a started group caused one rg.Ready
	if err == nil && armed0 && (act == "ready" || (act == "pay" && (ev == "AnteRequested" || ev == "BlindsRequested"))) {
		r.mu.Lock()
		r.caused++
		if r.epoch == epoch0 { // otherwise the action has already been processed, the group has fired and the next one is armed
			r.epochCaused++
		}
		r.mu.Unlock()
	}
	if !r.settle() {
		r.hang(line)
		return
	}
	cls := drvErrClass(err)
	r.o.Emit(line, r.obs(cls))
	r.flushViolations()
	r.o.Count("drv.calls")
	r.o.Count("drv.err." + cls)
	r.mu.Lock()
	for k, m := range []string{"ReadyForAll", "PayAnte", "PayBlinds"} {
		if d := r.methEntries[m] - sc0[k]; d > 0 {
			r.o.CountN("drv.groups_completed."+m, d)
		}
	}
	if r.reached != "" {
		r.o.Count("drv.reached_backend." + r.reached)
	}
	r.mu.Unlock()
	if r.closed {
		r.o.Count("drv.calls_after_close")
	}
	r.afterLine()
}

func (r *drvRunner) replay(lines []string) {
	for _, l := range lines {
		switch {
		case strings.HasPrefix(l, "drv new "):
			r.start(l)
		case strings.HasPrefix(l, "drv call "):
			r.exec(l)
		}
	}
}

// ---- generator ----

// drvCfg: the engine's configuration generator, with the odd layouts (any subset of positions per seat; nobody on the big blind) visited far more often.
func drvCfg(r *Rng, o *Out) *handCfg {
	c := genCfg(r)
	n := len(c.bank)
	if r.Chance(0.12) {
		for i := range c.pos {
			c.pos[i] = []string{"", "", "", "d", "s", "b", "ds", "sb", "db", "dsb"}[r.Intn(10)]
		}
		if !strings.Contains(strings.Join(c.pos, ""), "d") {
			d := r.Intn(n)
			c.pos[d] = "d" + c.pos[d]
		}
		o.Count("drv.cfg.odd_layout")
	}
	if r.Chance(0.06) {
		for i := range c.pos {
			c.pos[i] = strings.ReplaceAll(c.pos[i], "b", "")
		}
		o.Count("drv.cfg.no_big_blind_seat")
	}
	if r.Chance(0.04) {
		for i := range c.pos {
			c.pos[i] = strings.ReplaceAll(c.pos[i], "s", "")
		}
		o.Count("drv.cfg.dead_small_blind")
	}
	return c
}

var drvActs = []string{"pass", "fold", "check", "call", "allin", "bet", "raise", "pay", "ready"}

func drvLine(act string, i int, x int64) string {
	if act == "ready" {
		return fmt.Sprintf("drv call ready %d", i)
	}
	return fmt.Sprintf("drv call %s %d %d", act, i, x)
}

// validCall: the call the protocol expects now ("" when there is none: closed, or a group nobody is in).
func (r *drvRunner) validCall(rng *Rng, aggressive bool) string {
	gs := r.g.GetState()
	n := len(gs.Players)
	switch gs.Status.CurrentEvent {
	case "ReadyRequested":
		st := r.rg.GetParticipantStates()
		cands := []int{}
		for i := 0; i < n; i++ {
			if !st[int64(i)] && gs.HasAction(i, "ready") {
				cands = append(cands, i)
			}
		}
		if len(cands) == 0 || rng.Chance(0.05) {
			return drvLine("ready", rng.Intn(n), 0) // once more by somebody (valid as long as the mark is there)
		}
		return drvLine("ready", cands[rng.Intn(len(cands))], 0)
	case "AnteRequested", "BlindsRequested":
		st := r.rg.GetParticipantStates()
		cands, marked := []int{}, []int{}
		for i := 0; i < n; i++ {
			if gs.HasAction(i, "pay") {
				marked = append(marked, i)
				if !st[int64(i)] {
					cands = append(cands, i)
				}
			}
		}
		x := []int64{0, 1, gs.Meta.Ante, gs.Meta.Blind.BB, gs.Meta.Blind.SB, 1000}[rng.Intn(6)]
		if len(cands) > 0 && !rng.Chance(0.05) {
			return drvLine("pay", cands[rng.Intn(len(cands))], x)
		}
		if len(marked) > 0 {
			return drvLine("pay", marked[rng.Intn(len(marked))], x)
		}
		return ""
	case "RoundStarted":
		op := chooseAction(rng, gs, aggressive)
		return drvLine(op.act, gs.Status.CurrentPlayer, op.x)
	}
	return ""
}

// malformedCall: the malformed stream.
func (r *drvRunner) malformedCall(rng *Rng) string {
	gs := r.g.GetState()
	n := len(gs.Players)
	cur := gs.Status.CurrentPlayer
	ev := gs.Status.CurrentEvent
	x := amountsMalformed[rng.Intn(len(amountsMalformed))]
	if rng.Chance(0.5) {
		x = []int64{0, 1, 5, 10, 20, 100, gs.Status.CurrentWager, gs.Status.CurrentWager + gs.Status.PreviousRaiseSize}[rng.Intn(8)]
	}
	act := drvActs[rng.Intn(len(drvActs))]
	switch rng.Intn(7) {
	case 0: // index out of range or negative
		r.o.Count("drv.mal.index_out_of_range")
		return drvLine(act, []int{n, n + 1, n + 7, -1, -2, -9, 1 << 30, -(1 << 30)}[rng.Intn(8)], x)
	case 1: // another player than the one to act, an action the player to act is offered
		r.o.Count("drv.mal.wrong_player")
		i := rng.Intn(n)
		if cur >= 0 && cur < n && len(gs.Players[cur].AllowedActions) > 0 {
			a := gs.Players[cur].AllowedActions
			act = a[rng.Intn(len(a))]
		}
		return drvLine(act, i, x)
	case 2: // the player to act, an action not allowed
		r.o.Count("drv.mal.action_not_allowed")
		i := cur
		if i < 0 || i >= n {
			i = rng.Intn(n)
		}
		for k := 0; k < 8 && gs.HasAction(i, act); k++ {
			act = drvActs[rng.Intn(len(drvActs))]
		}
		return drvLine(act, i, x)
	case 3: // Pay of somebody who does not owe
		r.o.Count("drv.mal.pay_non_participant")
		cands := []int{}
		for i := 0; i < n; i++ {
			if !gs.HasAction(i, "pay") {
				cands = append(cands, i)
			}
		}
		if len(cands) == 0 {
			return drvLine("pay", n, x)
		}
		return drvLine("pay", cands[rng.Intn(len(cands))], x)
	case 4: // Ready at another event (or of anybody)
		r.o.Count("drv.mal.ready_any_time")
		if ev != "ReadyRequested" {
			r.o.Count("drv.mal.ready_at_other_event")
		}
		return drvLine("ready", rng.Intn(n), 0)
	case 5: // the right player and an allowed action, amount at an extreme
		r.o.Count("drv.mal.amount_extreme")
		if cur >= 0 && cur < n {
			for _, a := range []string{"bet", "raise"} {
				if gs.HasAction(cur, a) {
					return drvLine(a, cur, amountsMalformed[rng.Intn(len(amountsMalformed))])
				}
			}
		}
		return drvLine([]string{"bet", "raise", "pay"}[rng.Intn(3)], rng.Intn(n), amountsMalformed[rng.Intn(len(amountsMalformed))])
	}
	r.o.Count("drv.mal.any")
	return drvLine(act, rng.Intn(n), x)
}

func runDrv(dir string, seed uint64, n int) {
	o := NewOut(dir, "drv")
	wdWatch(o, dir, "drv", seed)
	rng := NewRng(seed)
	r := newDrvRunner(o)
	for _, l := range corpusDrv {
		r.replay(l)
	}
	hangs := 0
	for h := 0; h < n && hangs < 4; h++ {
		c := drvCfg(rng, o)
		line := "drv new " + strings.TrimPrefix(c.line(), "cfg ")
		if !r.start(line) {
			continue
		}
		if h < 2 {
			o.Sample(line)
		}
		o.Count("drv.hands")
		o.Count(fmt.Sprintf("drv.seats.%d", len(c.bank)))
		aggressive := rng.Chance(0.25)
		malP := 0.12
		if rng.Chance(0.15) {
			malP = 0.4
		}
		limit := 40 + 10*len(c.bank)
		after := 0
		stuck := 0
		for calls := 0; calls < limit && !r.dead; calls++ {
			if r.closed {
				if after >= 3 {
					break
				}
				after++
			}
			l := ""
			if !r.closed && !rng.Chance(malP) {
				l = r.validCall(rng, aggressive)
				if l != "" {
					o.Count("drv.calls_valid")
				}
			}
			if l == "" {
				l = r.malformedCall(rng)
				o.Count("drv.calls_malformed")
				if !r.closed {
					stuck++
				}
			}
			r.exec(l)
			if !r.closed && !r.dead {
				r.countState()
				if r.validCall(NewRng(1), false) == "" && stuck > 12 {
					break // a group nobody is in: nothing can move the hand any more
				}
			}
		}
		if r.dead {
			hangs++
		}
		if !r.closed && !r.dead {
			o.Count("drv.unfinished")
		}
	}
	r.finish()
	o.Close(dir, "drv", seed)
}

// countState: strata of the driver's states reached.
func (r *drvRunner) countState() {
	gs := r.g.GetState()
	r.mu.Lock()
	armed, kind, fired := r.armed, r.kind, r.fired
	r.mu.Unlock()
	if armed && !fired && kind == "payBlinds" && gs.Status.CurrentEvent == "BlindsRequested" && len(r.rg.GetParticipantStates()) == 0 {
		r.o.Count("drv.empty_blinds_group_states")
		r.o.Mark("C06", "drv.emptyblinds."+r.cfg.line())
	}
}

// corpus: histories kept because they exposed something on the unchanged tree (run first)
var corpusDrv = [][]string{}
