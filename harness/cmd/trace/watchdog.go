// Watchdog: an operation of the code under test that never returns (an unbounded loop in an expected step) must not
// hang the check.  Every call into the engine is armed with the input line it belongs to; a background goroutine
// looks once a second; when one call has been running for more than `wdLimit` it records the line with the
// observation `st err=hang`, reports a violation of C06 ("that step always succeeds … after a bounded number of
// steps"), writes the run's files and ends the process normally — the verdict is a failing input, not a timeout.
package main

import (
	"fmt"
	"os"
	"sync/atomic"
	"time"
)

const wdLimit = 12 * time.Second

var (
	wdStart atomic.Int64 // unix nanos of the call under way, 0 = none
	wdLine  atomic.Value // string: the input line of that call
	wdOut   *Out
	wdDir   string
	wdComp  string
	wdSeed  uint64
	wdOnce  atomic.Bool
)

func wdArm(line string) {
	wdLine.Store(line)
	wdStart.Store(time.Now().UnixNano())
}

func wdDisarm() { wdStart.Store(0) }

// wdWatch starts the watchdog for a run writing to (dir, comp).
func wdWatch(o *Out, dir, comp string, seed uint64) {
	wdOut, wdDir, wdComp, wdSeed = o, dir, comp, seed
	if wdOnce.Swap(true) {
		return
	}
	go func() {
		for {
			time.Sleep(time.Second)
			t0 := wdStart.Load()
			if t0 == 0 || time.Since(time.Unix(0, t0)) < wdLimit {
				continue
			}
			line, _ := wdLine.Load().(string)
			o := wdOut
			// the main goroutine is inside the call that hangs and does not touch `o`
			o.Emit(line, "st err=hang")
			o.Violate("C06", "expected_step_returns", fmt.Sprintf("%s did not return within %v: the hand is stranded inside an operation", line, wdLimit))
			o.Count("engine.hung_operations")
			o.Close(wdDir, wdComp, wdSeed)
			os.Exit(0)
		}
	}()
}
