package main

import (
	"bufio"
	"flag"
	"fmt"
	"os"
	"runtime/pprof"
	"strings"
)

func main() {
	comp := flag.String("comp", "engine", "component: ev best pots engine sm rg")
	seed := flag.Uint64("seed", 1, "PRNG seed")
	n := flag.Int("n", 100, "number of histories / vectors")
	out := flag.String("out", "/verif/work", "output directory")
	tier := flag.String("tier", "quick", "quick | thorough")
	replay := flag.String("replay", "", "file of input lines to re-execute on the implementation")
	prof := flag.String("cpuprofile", "", "write a CPU profile")
	smMax := flag.Int("max", 3, "smx: table size")
	smLen := flag.Int("len", 4, "smx: sequence length")
	part := flag.Int("part", 0, "smx: this process's share")
	parts := flag.Int("parts", 1, "smx: number of shares")
	smVariant := flag.String("variant", "fresh", "smx: fresh | preseated | waiting") // [hv-sm]
	flag.Parse()
	if *prof != "" {
		f, _ := os.Create(*prof)
		pprof.StartCPUProfile(f)
		defer pprof.StopCPUProfile()
	}

	if *replay != "" {
		f, err := os.Open(*replay)
		if err != nil {
			fmt.Fprintln(os.Stderr, err)
			os.Exit(2)
		}
		defer f.Close()
		var lines []string
		sc := bufio.NewScanner(f)
		sc.Buffer(make([]byte, 1<<20), 1<<26)
		for sc.Scan() {
			if l := strings.TrimSpace(sc.Text()); l != "" {
				lines = append(lines, l)
			}
		}
		o := NewOut(*out, "replay")
		wdWatch(o, *out, "replay", *seed)
		replayAny(o, lines)
		o.Close(*out, "replay", *seed)
		return
	}

	switch *comp {
	case "ev":
		runEv(*out, *seed, *tier, *n)
	case "best":
		runBest(*out, *seed, *n)
	case "pots":
		runPots(*out, *seed, *n)
	case "engine":
		runEngine(*out, *seed, *n)
	case "sm":
		runSM(*out, *seed, *n)
	case "rgx":
		runRGExhaustive(*out, *smLen, *part, *parts)
	case "potsx":
		runPotsExhaustive(*out, *part, *parts)
	case "engx":
		runEngineExhaustive(*out, *part, *parts)
	case "smx":
		runSMExhaustive(*out, *smMax, *smLen, *part, *parts, *smVariant)
	case "rg":
		runRG(*out, *seed, *n)
	case "tb":
		runTB(*out, *seed, *n)
	case "drv": // [hv-drv]
		runDrv(*out, *seed, *n)
	case "tbx":
		runTBExhaustive(*out, *smMax, *smLen, *part, *parts, *smVariant)
	default:
		fmt.Fprintln(os.Stderr, "unknown component")
		os.Exit(2)
	}
}

// replayAny re-executes recorded input lines of any component.
func replayAny(o *Out, lines []string) {
	var h *hand
	smr := &smRunner{o: o}
	var rgLines []string
	tbr := &tbRunner{o: o}
	mtr := &mtRunner{o: o}
	drvr := newDrvRunner(o) // [hv-drv]
	defer drvr.finish()
	e := &evRunner{o: o, prev: map[string]*evPrev{}, res: map[string][]*evPrev{}, rng: NewRng(1)}
	for _, l := range lines {
		f := strings.Fields(l)
		if len(f) == 0 {
			continue
		}
		switch f[0] {
		case "cfg":
			h = startHand(o, l, true)
		case "op":
			if h != nil && len(f) == 3 && (f[1] == "seatante" || f[1] == "seatblinds") {
				h.seatForced(f[1], int(atoi(f[2])))
			} else if h != nil {
				h.exec(parseOpLine(l))
			}
		case "noise":
			if len(f) > 1 && f[1] == "sm" { // [hv-sm] probes of the seat-manager histories (scratch instance, no effect on the table under test)
				smr.replay([]string{l})
			} else if len(f) > 1 && f[1] == "rg" { // [hv-rg] `noise rg late <t>`: a late release report follows (rg.go)
				rgLines = append(rgLines, l)
			} else if h != nil && len(f) > 1 {
				h.noise(int(atoi(f[1])))
			}
		case "query":
			if h != nil && len(f) > 1 && f[1] == "9" {
				h.bystanderStep(NewRng(uint64(len(lines)))) // another hand in the same process takes a few steps
			} else if h != nil && len(f) > 1 {
				h.query(int(atoi(f[1])))
			}
		case "view":
			if h != nil && len(f) > 1 {
				h.view(f[1])
			}
		case "hop":
			if h != nil {
				k := ""
				if len(f) > 1 {
					k = f[1]
				}
				h.hop(k)
			}
		case "sm":
			smr.replay([]string{l})
		case "tb":
			tbr.replay([]string{l})
		case "mt":
			mtr.replay([]string{l})
		case "drv": // [hv-drv]
			drvr.replay([]string{l})
		case "rg":
			rgLines = append(rgLines, l)
		case "ev":
			if len(f) == 7 {
				e.exec(f[1], f[2:])
			}
		case "pots":
			if len(f) == 2 {
				es := []entry{}
				for _, x := range splitList(f[1], ",") {
					p := strings.Split(x, ":")
					if len(p) == 4 {
						es = append(es, entry{idx: int(atoi(p[0])), contrib: atoi(p[1]), fold: p[2] == "1", score: atoi(p[3])})
					}
				}
				execPots(o, es)
			}
		}
	}
	if len(rgLines) > 0 {
		(&rgRunner{o: o}).replay(rgLines)
	}
}
