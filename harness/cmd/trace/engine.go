package main

import (
	"encoding/json"
	"fmt"
	"os"
	"reflect"
	"strings"

	"github.com/weedbox/pokerface"
	"github.com/weedbox/pokerface/pot"
	"github.com/weedbox/pokerface/table"
)

// ---- observation of a GameState in the driver's format ----

func combStr(k string, c *pokerface.CombinationInfo) string {
	if c == nil {
		return fmt.Sprintf("%s.comb.type=nil %s.comb.power=nil %s.comb.cards=nil", k, k, k)
	}
	t := c.Type
	if t == "" {
		t = "-"
	}
	return fmt.Sprintf("%s.comb.type=%s %s.comb.power=%d %s.comb.cards=%s", k, t, k, c.Power, k, joinList(c.Cards, ","))
}

func posStr(ps []string) string {
	s := ""
	for _, want := range []string{"dealer", "sb", "bb"} {
		for _, p := range ps {
			if p == want {
				s += want[:1]
				break
			}
		}
	}
	if s == "" {
		return "-"
	}
	return s
}

func playerStr(p *pokerface.PlayerState) string {
	k := fmt.Sprintf("p%d", p.Idx)
	return fmt.Sprintf("%s.pos=%s %s.acted=%s %s.fold=%s %s.allowed=%s %s.bank=%d %s.init=%d %s.stack=%d %s.pot=%d %s.wager=%d %s.hole=%s %s",
		k, posStr(p.Positions), k, b01(p.Acted), k, b01(p.Fold), k, joinList(p.AllowedActions, "|"), k, p.Bankroll, k, p.InitialStackSize,
		k, p.StackSize, k, p.Pot, k, p.Wager, k, joinList(p.HoleCards, ","), combStr(k, p.Combination))
}

func dash(s string) string {
	if s == "" {
		return "-"
	}
	return s
}

func gameStr(tag string, gs *pokerface.GameState, e string) string {
	ps := []string{}
	for _, p := range gs.Players {
		ps = append(ps, playerStr(p))
	}
	res := "res=- winners=-"
	if gs.Result != nil {
		res = fmt.Sprintf("res=%s winners=%s", resultStr(gs.Result), winnersStr(gs.Result))
	}
	st := &gs.Status
	return fmt.Sprintf("%s err=%s ev=%s round=%s n=%d minibet=%d cw=%d prev=%d roundpot=%d raiser=%d cur=%d pos=%d board=%s burned=%s decklen=%d pots=%s %s %s",
		tag, e, dash(st.CurrentEvent), dash(st.Round), len(gs.Players), st.MiniBet, st.CurrentWager, st.PreviousRaiseSize, st.CurrentRoundPot,
		st.CurrentRaiser, st.CurrentPlayer, st.CurrentDeckPosition, joinList(st.Board, ","), joinList(st.Burned, ","), len(gs.Meta.Deck),
		potsStr(st.Pots), strings.Join(ps, " "), res)
}

func errName(err error) string {
	switch err {
	case nil:
		return "none"
	case pokerface.ErrInvalidAction:
		return "invalid"
	case pokerface.ErrIllegalRaise:
		return "illegalraise"
	case pokerface.ErrNotClosedRound:
		return "notclosed"
	case pokerface.ErrInsufficientNumberOfPlayers:
		return "insufficient"
	case pokerface.ErrNoDealer:
		return "nodealer"
	case pokerface.ErrNotEnoughBackroll:
		return "bankroll"
	case pokerface.ErrNoDeck:
		return "nodeck"
	case pokerface.ErrNotFoundDealer:
		return "notfounddealer"
	case pokerface.ErrUnknownRound:
		return "unknownround"
	}
	return "other"
}

// ---- a hand: the in-memory game plus its twin threaded through the JSON backend ----

type handCfg struct {
	ante, bd, sb, bb int64
	limit            string
	hole, req        int
	burn             int // Meta.BurnCount (an option the engine never reads: any value must behave like 1)
	table            string
	deck             []string
	bank             []int64
	pos              []string // per seat: subset of "dsb"
	big              bool     // generator stratum: amounts scaled by a large factor
}

func (c *handCfg) line() string {
	seats := []string{}
	for i := range c.bank {
		p := c.pos[i]
		if p == "" {
			p = "-"
		}
		seats = append(seats, fmt.Sprintf("%d:%s", c.bank[i], p))
	}
	return fmt.Sprintf("cfg ante=%d bd=%d sb=%d bb=%d limit=%s hole=%d req=%d burn=%d table=%s deck=%s seats=%s",
		c.ante, c.bd, c.sb, c.bb, c.limit, c.hole, c.req, c.burn, c.table, joinList(c.deck, ","), joinList(seats, ","))
}

func parseCfgLine(line string) *handCfg {
	m := kvs(strings.Fields(line))
	c := &handCfg{ante: atoi(m["ante"]), bd: atoi(m["bd"]), sb: atoi(m["sb"]), bb: atoi(m["bb"]), limit: m["limit"],
		hole: int(atoi(m["hole"])), req: int(atoi(m["req"])), table: m["table"], deck: splitList(m["deck"], ","), burn: 1}
	if v, ok := m["burn"]; ok {
		c.burn = int(atoi(v))
	}
	for _, s := range splitList(m["seats"], ",") {
		ps := strings.SplitN(s, ":", 2)
		c.bank = append(c.bank, atoi(ps[0]))
		p := ""
		if len(ps) > 1 && ps[1] != "-" {
			p = ps[1]
		}
		c.pos = append(c.pos, p)
	}
	return c
}

func (c *handCfg) options() *pokerface.GameOptions {
	o := pokerface.NewStardardGameOptions()
	o.Ante = c.ante
	o.Blind = pokerface.BlindSetting{Dealer: c.bd, SB: c.sb, BB: c.bb}
	o.Limit = c.limit
	o.HoleCardsCount = c.hole
	o.RequiredHoleCardsCount = c.req
	o.BurnCount = c.burn
	o.CombinationPowers = tableByName(c.table)
	o.Deck = append([]string{}, c.deck...)
	for i := range c.bank {
		ps := []string{}
		for _, ch := range c.pos[i] {
			switch ch {
			case 'd':
				ps = append(ps, "dealer")
			case 's':
				ps = append(ps, "sb")
			case 'b':
				ps = append(ps, "bb")
			}
		}
		o.Players = append(o.Players, &pokerface.PlayerSetting{Bankroll: c.bank[i], Positions: ps})
	}
	return o
}

type hand struct {
	hops    int // save / restore points so far
	o       *Out
	cfg     *handCfg
	g       pokerface.Game
	twin    *pokerface.GameState // state threaded through table.NativeBackend (a JSON hop at every call)
	nb      *table.NativeBackend
	mon     *engineMon
	useTwin bool
	rawTwin *pokerface.GameState // the twin's own state after the last op (before any resynchronisation)
	dead    bool                 // a panic ended the history
	closed  bool
	opts    *pokerface.GameOptions // the options value the game was built from
	// a checkpoint (`hop save`) the hand can be rolled back to (`hop rollback`: LoadState of the OLDER state into the live game object)
	saved       *pokerface.GameState
	savedTwin   *pokerface.GameState
	savedMon    *engineMon
	savedClosed bool
}

func cloneJSON(gs *pokerface.GameState) *pokerface.GameState {
	b, err := json.Marshal(gs)
	if err != nil {
		return nil
	}
	var s pokerface.GameState
	if json.Unmarshal(b, &s) != nil {
		return nil
	}
	return &s
}

// canonJSON: the JSON of a state with timestamps and ids removed.
func canonJSON(gs *pokerface.GameState) string {
	c := *gs
	c.GameID, c.CreatedAt, c.UpdatedAt = "", 0, 0
	b, _ := json.Marshal(&c)
	return string(b)
}

// copyState: a deep copy that keeps nil-ness of slices and pointers (for before/after comparison).
func copyState(gs *pokerface.GameState) *pokerface.GameState {
	c := *gs
	cs := func(x []string) []string {
		if x == nil {
			return nil
		}
		return append(make([]string, 0, len(x)), x...)
	}
	c.Meta.Deck = cs(gs.Meta.Deck)
	if gs.Meta.CombinationPowers != nil {
		c.Meta.CombinationPowers = append(gs.Meta.CombinationPowers[:0:0], gs.Meta.CombinationPowers...)
	}
	c.Status.Burned = cs(gs.Status.Burned)
	c.Status.Board = cs(gs.Status.Board)
	if gs.Status.LastAction != nil {
		la := *gs.Status.LastAction
		c.Status.LastAction = &la
	}
	if gs.Status.Pots != nil {
		c.Status.Pots = make([]*pot.Pot, len(gs.Status.Pots))
		for i, p := range gs.Status.Pots {
			q := *p
			q.Contributors = map[int]int64{}
			for k, v := range p.Contributors {
				q.Contributors[k] = v
			}
			if p.Levels != nil {
				q.Levels = make([]*pot.Level, len(p.Levels))
				for j, l := range p.Levels {
					m := *l
					m.Contributors = append([]int{}, l.Contributors...)
					q.Levels[j] = &m
				}
			}
			c.Status.Pots[i] = &q
		}
	}
	if gs.Players != nil {
		c.Players = make([]*pokerface.PlayerState, len(gs.Players))
		for i, p := range gs.Players {
			q := *p
			q.Positions = cs(p.Positions)
			q.AllowedActions = cs(p.AllowedActions)
			q.HoleCards = cs(p.HoleCards)
			if p.Combination != nil {
				ci := *p.Combination
				ci.Cards = cs(p.Combination.Cards)
				q.Combination = &ci
			}
			c.Players[i] = &q
		}
	}
	// the settlement result is immutable once set
	return &c
}

func sameState(a, b *pokerface.GameState) bool {
	x, y := *a, *b
	x.UpdatedAt, y.UpdatedAt = 0, 0
	return reflect.DeepEqual(&x, &y)
}

func safely(f func() error) (err error, panicked bool) {
	defer func() {
		if r := recover(); r != nil {
			panicked = true
		}
	}()
	return f(), false
}

// startHand executes a cfg line.
func startHand(o *Out, line string, twin bool) *hand {
	h := &hand{o: o, cfg: parseCfgLine(line), nb: table.NewNativeBackend(), useTwin: twin}
	o.BeginHistory()
	opts := h.cfg.options()
	before := append([]string{}, opts.Deck...)
	var g pokerface.Game
	err, pan := safely(func() error {
		g = pokerface.NewPokerFace().NewGame(opts)
		return g.Start()
	})
	h.g = g
	h.opts = opts
	if pan {
		h.dead = true
		o.Emit(line, "st err=panic")
		return h
	}
	gs := g.GetState()
	if err == nil {
		// C14: the shuffle only reorders the deck
		if !sameCards(before, gs.Meta.Deck) {
			o.hist = append(o.hist, line)
			o.Violate("C14", "shuffle_perm", fmt.Sprintf("deck after Start() is not a permutation of the configured deck: %v -> %v", before, gs.Meta.Deck))
			o.hist = o.hist[:0]
		}
		// the deck order of the run is the one on the cfg line (replayable): overwrite in place
		copy(gs.Meta.Deck, h.cfg.deck)
	}
	h.mon = newEngineMon(h)
	o.Emit(line, gameStr("st", gs, errName(err)))
	if err != nil {
		h.dead = true
		h.mon.afterStartError(err)
		return h
	}
	if h.useTwin {
		h.twin = cloneJSON(gs)
	}
	h.mon.afterOp("cfg", nil, nil)
	return h
}

type opSpec struct {
	kind string // ready ante blinds next act
	seat int    // -1 = the game's own method (current player)
	act  string
	x    int64
}

func (op opSpec) line() string {
	if op.kind != "act" {
		return "op " + op.kind
	}
	s := "-"
	if op.seat >= 0 {
		s = itoa(int64(op.seat))
	}
	return fmt.Sprintf("op act %s %s %d", s, op.act, op.x)
}

func parseOpLine(line string) opSpec {
	f := strings.Fields(line)
	if len(f) >= 5 && f[1] == "act" {
		seat := -1
		if f[2] != "-" {
			seat = int(atoi(f[2]))
		}
		return opSpec{kind: "act", seat: seat, act: f[3], x: atoi(f[4])}
	}
	if len(f) >= 2 {
		return opSpec{kind: f[1], seat: -1}
	}
	return opSpec{kind: "?"}
}

func applyOp(g pokerface.Game, op opSpec) error {
	wdArm(op.line())
	defer wdDisarm()
	switch op.kind {
	case "ready":
		return g.ReadyForAll()
	case "ante":
		return g.PayAnte()
	case "blinds":
		return g.PayBlinds()
	case "next":
		return g.Next()
	}
	if op.seat < 0 {
		switch op.act {
		case "pass":
			return g.Pass()
		case "fold":
			return g.Fold()
		case "check":
			return g.Check()
		case "call":
			return g.Call()
		case "allin":
			return g.Allin()
		case "bet":
			return g.Bet(op.x)
		case "raise":
			return g.Raise(op.x)
		case "pay":
			return g.Pay(op.x)
		}
		return fmt.Errorf("bad op")
	}
	p := g.Player(op.seat)
	switch op.act {
	case "pass":
		return p.Pass()
	case "fold":
		return p.Fold()
	case "check":
		return p.Check()
	case "call":
		return p.Call()
	case "allin":
		return p.Allin()
	case "bet":
		return p.Bet(op.x)
	case "raise":
		return p.Raise(op.x)
	case "pay":
		return p.Pay(op.x)
	}
	return fmt.Errorf("bad op")
}

// twinOp applies the same operation to the twin state through table.NativeBackend (or,
// for a seat-addressed action the backend has no method for, through the same
// clone / NewGameFromState / clone steps the backend performs).
func (h *hand) twinOp(op opSpec) (*pokerface.GameState, error) {
	gs := h.twin
	nb := h.nb
	if op.kind == "act" && op.seat >= 0 {
		g := pokerface.NewPokerFace().NewGameFromState(cloneJSON(gs))
		err := applyOp(g, op)
		if err != nil {
			return nil, err
		}
		return cloneJSON(g.GetState()), nil
	}
	switch op.kind {
	case "ready":
		return nb.ReadyForAll(gs)
	case "ante":
		return nb.PayAnte(gs)
	case "blinds":
		return nb.PayBlinds(gs)
	case "next":
		return nb.Next(gs)
	}
	switch op.act {
	case "pass":
		return nb.Pass(gs)
	case "fold":
		return nb.Fold(gs)
	case "check":
		return nb.Check(gs)
	case "call":
		return nb.Call(gs)
	case "allin":
		return nb.Allin(gs)
	case "bet":
		return nb.Bet(gs, op.x)
	case "raise":
		return nb.Raise(gs, op.x)
	case "pay":
		return nb.Pay(gs, op.x)
	}
	return nil, fmt.Errorf("bad op")
}

// exec executes one op line on the implementation (and on the twin), emits the
// observation and runs the monitors.
func (h *hand) exec(op opSpec) (err error) {
	if h.dead {
		return nil
	}
	gs := h.g.GetState()
	pre := copyState(gs)
	var pan bool
	err, pan = safely(func() error { return applyOp(h.g, op) })
	if pan {
		h.dead = true
		h.o.Emit(op.line(), "st err=panic")
		h.o.Violate("C06", "panic", "operation panicked: "+op.line())
		return nil
	}
	h.o.Emit(op.line(), gameStr("st", gs, errName(err)))
	h.o.Count("engine.ops")
	h.o.Count("engine.err." + errName(err))
	if err != nil && !sameState(pre, gs) {
		h.o.Violate("C04", "refused_no_effect", fmt.Sprintf("%s returned %q but changed the state", op.line(), err.Error()))
	}
	// twin: the same operation through the JSON backend
	if h.twin != nil {
		argBefore := copyState(h.twin)
		var ns *pokerface.GameState
		var terr error
		_, tpan := safely(func() error { ns, terr = h.twinOp(op); return nil })
		h.o.Count("engine.twin_ops")
		h.o.Mark("C07", fmt.Sprintf("%s/%s/%s/%s/%d/%d", gs.Status.CurrentEvent, gs.Status.Round, op.kind, op.act, len(gs.Players), len(gs.Status.Pots)))
		if tpan {
			h.o.Violate("C07", "backend_panic", "backend panicked on "+op.line())
			h.twin = nil
		} else {
			if !reflect.DeepEqual(argBefore, h.twin) {
				h.o.Violate("C07", "argument_modified", "the backend modified the state handed to it: "+op.line())
			}
			if errName(terr) != errName(err) {
				h.o.Violate("C07", "resume_error", fmt.Sprintf("%s: in-memory game returned %s, game rebuilt from JSON returned %s", op.line(), errName(err), errName(terr)))
			}
			if terr == nil && ns != nil {
				h.twin = ns
			}
			h.rawTwin = h.twin
			if h.twin != nil && (err == nil || terr == nil) && canonJSON(h.twin) != canonJSON(gs) {
				h.o.Violate("C07", "resume_state", fmt.Sprintf("after %s the game rebuilt from JSON differs from the in-memory game:\n mem=%s\n twin=%s", op.line(), canonJSON(gs), canonJSON(h.twin)))
				h.twin = cloneJSON(gs) // resynchronise to report later divergences separately
			}
		}
	}
	h.mon.afterOp(op.line(), pre, err)
	if gs.Status.CurrentEvent == "GameClosed" {
		h.closed = true
	}
	return err
}

// seatForced: Player(i).PayAnte() / Player(i).PayBlinds() called OUTSIDE the ante / blinds phase (the per-seat entry
// points of the forced bets carry their own phase check; inside the phase they are plumbing of Game.PayAnte / PayBlinds
// and stay outside the alphabet, DESIGN §5).  Must be refused and change nothing (C04), also after the hand is closed (C06).
func (h *hand) seatForced(kind string, i int) {
	if h.dead {
		return
	}
	gs := h.g.GetState()
	ev := gs.Status.CurrentEvent
	if i < 0 || i >= len(gs.Players) || (kind == "seatante" && ev == "AnteRequested" && gs.Meta.Ante != 0) || (kind == "seatblinds" && ev == "BlindsRequested") {
		return
	}
	pre := copyState(gs)
	line := fmt.Sprintf("op %s %d", kind, i)
	err, pan := safely(func() error {
		if kind == "seatante" {
			return h.g.Player(i).PayAnte()
		}
		return h.g.Player(i).PayBlinds()
	})
	if pan {
		h.dead = true
		h.o.Emit(line, "st err=panic")
		h.o.Violate("C06", "panic", "operation panicked: "+line)
		return
	}
	h.o.Emit(line, gameStr("st", gs, errName(err)))
	h.o.Count("engine.seat_forced_probes")
	if err == nil {
		h.o.Violate("C04", "wrong_phase_refused", fmt.Sprintf("%s was accepted at event %s", line, ev))
		if ev == "GameClosed" {
			h.o.Violate("C06", "closed_final", "a closed hand accepted "+line)
		}
	}
	if !sameState(pre, gs) {
		h.o.Violate("C04", "refused_no_effect", fmt.Sprintf("%s at event %s (returned %s) changed the state", line, ev, errName(err)))
		if ev == "GameClosed" {
			h.o.Violate("C06", "closed_final", "a closed hand was changed by "+line)
		}
	}
}

// noise: a call of one of the package's constructors of options / decks while the hand is running; the result is
// thrown away.  It has no effect on the hand (C07: the same deck and the same operations lead to the same state) unless
// the package keeps shared mutable state behind them.
func (h *hand) noise(k int) {
	if h.dead {
		return
	}
	safely(func() error {
		switch k % 5 {
		case 0:
			_ = pokerface.NewStardardGameOptions()
		case 1:
			_ = pokerface.NewShortDeckGameOptions()
		case 2:
			_ = pokerface.NewStandardDeckCards()
		case 3:
			_ = pokerface.NewShortDeckCards()
		default:
			// a second game built (and started: Start() shuffles) from the SAME options value as the hand under test
			if h.opts != nil {
				g2 := pokerface.NewPokerFace().NewGame(h.opts)
				_ = g2.Start()
			}
		}
		return nil
	})
	h.o.Emit(fmt.Sprintf("noise %d", k%5), "ok")
	h.o.Count("engine.noise_calls")
}

// bystander: ANOTHER hand, at other stakes, alive in the same process and played a step at a time in between the operations of the
// hand under test.  Two games share nothing: whatever the bystander does — publishing its pots, ranking its hands, closing — the
// state of the hand under test is what it was (a pooled buffer, a memo keyed too coarsely or a package-level scratch value would
// couple them).  Model: nothing changes.
var bystander pokerface.Game

func (h *hand) bystanderStep(r *Rng) {
	if h.dead {
		return
	}
	gs := h.g.GetState()
	pre := copyState(gs)
	_, pan := safely(func() error {
		if bystander == nil || bystander.GetState().Status.CurrentEvent == "GameClosed" {
			opts := pokerface.NewStardardGameOptions()
			if r.Chance(0.5) {
				opts = pokerface.NewShortDeckGameOptions()
				opts.Deck = pokerface.NewShortDeckCards()
			} else {
				opts.Deck = pokerface.NewStandardDeckCards()
			}
			opts.Blind.SB, opts.Blind.BB = 100, 200
			n := 2 + r.Intn(4)
			for i := 0; i < n; i++ {
				pos := []string{}
				switch {
				case i == 0 && n == 2:
					pos = []string{"dealer", "sb"}
				case i == 0:
					pos = []string{"dealer"}
				case i == 1 && n == 2:
					pos = []string{"bb"}
				case i == 1:
					pos = []string{"sb"}
				case i == 2:
					pos = []string{"bb"}
				}
				opts.Players = append(opts.Players, &pokerface.PlayerSetting{Bankroll: int64(300 + r.Intn(3000)), Positions: pos})
			}
			bystander = pokerface.NewPokerFace().NewGame(opts)
			if err := bystander.Start(); err != nil {
				bystander = nil
				return nil
			}
		}
		for k := 0; k < 1+r.Intn(6) && bystander.GetState().Status.CurrentEvent != "GameClosed"; k++ {
			op := expectedOp(r, bystander.GetState(), r.Chance(0.3))
			op.seat = -1
			wdLine.Store("bystander " + op.line())
			applyOp(bystander, op)
		}
		return nil
	})
	if pan {
		bystander = nil
	}
	h.o.Emit("query 9", gameStr("st", gs, "none"))
	h.o.Count("engine.bystander_steps")
	if !sameState(pre, gs) {
		h.o.Violate("C01", "pots_total", "another hand played in the same process changed the state of this hand")
		h.o.Violate("C07", "resume_state", "another hand played in the same process changed the state of this hand (same deck, same operations, another state)")
		h.o.Violate("C16", "totals_sum", "another hand played in the same process changed the published pots / state of this hand")
		h.o.Violate("C14", "cards_stable", "another hand played in the same process changed the state of this hand")
	}
}

// query: the read-only queries of the Game interface (and of its players) called on the game under test: GetEvent, GetStateJSON,
// Dealer / SmallBlind / BigBlind, GetPlayerCount, GetPlayers, GetCurrentPlayer, the two counters, the offered-action queries,
// PrintState, PrintPots.  A query is not an operation of the hand: the state must be exactly what it was (the model's answer is
// its unchanged state), whatever the properties say about that state must still hold, and nothing may panic.
func (h *hand) query(k int) {
	if h.dead {
		return
	}
	gs := h.g.GetState()
	pre := copyState(gs)
	stdout := os.Stdout
	if f, err := os.OpenFile(os.DevNull, os.O_WRONLY, 0); err == nil {
		os.Stdout = f
		defer func() { f.Close() }()
	}
	_, pan := safely(func() error {
		g := h.g
		switch k % 5 {
		case 4:
			// Resume() re-enters the event chain from the recorded event: exported plumbing (the tail of every action; called directly at
			// RoundStarted it passes the turn on, at RoundClosed it recomputes, O3) and outside the alphabet — except on a CLOSED hand,
			// which "from then on accepts nothing": there it must find nothing to do and change nothing.
			if gs.Status.CurrentEvent == "GameClosed" {
				if err := g.Resume(); err != nil {
					h.o.Violate("C06", "closed_final", "Resume() on a closed hand returned "+err.Error())
				}
				h.o.Count("engine.resume_on_closed_hand")
			}
			for _, p := range g.GetPlayers() {
				_ = p.CheckAction("call")
			}
			_ = gs.GetPlayer(0)
			_ = gs.HasAction(0, "fold")
			_ = gs.HasPosition(0, "dealer")
		case 0:
			_ = g.GetEvent()
			_, _ = g.GetStateJSON()
			_ = g.GetPlayerCount()
			_ = g.GetAlivePlayerCount()
			_ = g.GetMovablePlayerCount()
		case 1:
			_ = g.Dealer()
			_ = g.SmallBlind()
			_ = g.BigBlind()
			_ = g.GetCurrentPlayer()
			for _, p := range g.GetPlayers() {
				_ = p.State()
			}
		case 2:
			for i := range gs.Players {
				if p := g.Player(i); p != nil {
					_ = g.GetAvailableActions(p)
					_ = g.GetAllowedActions(p)
					_ = p.CheckPosition("dealer")
					_ = p.SeatIndex()
				}
			}
		default:
			_ = g.PrintState()
			g.PrintPots()
		}
		return nil
	})
	os.Stdout = stdout
	line := fmt.Sprintf("query %d", k%5)
	if pan {
		h.dead = true
		h.o.Emit(line, "st err=panic")
		h.o.Violate("C06", "panic", "a query of the game panicked: "+line)
		return
	}
	h.o.Emit(line, gameStr("st", gs, "none"))
	h.o.Count("engine.queries")
	if !sameState(pre, gs) {
		h.o.Violate("C04", "refused_no_effect", line+": a read-only query changed the state of the hand")
		h.o.Violate("C14", "cards_stable", line+": a read-only query changed the state of the hand (cards once dealt never change)")
		h.o.Violate("C07", "resume_state", line+": a read-only query changed the in-memory state (same deck, same operations, another state)")
	}
}

// view: the redacted state for one seat ("obs" = the observer) (C15).
func (h *hand) view(who string) {
	if h.dead {
		return
	}
	gs := h.g.GetState()
	c := cloneJSON(gs)
	i := -1
	if who != "obs" {
		i = int(atoi(who))
		c.AsPlayer(i)
	} else {
		c.AsObserver()
	}
	h.o.Emit("view "+who, gameStr("view", c, "none"))
	h.o.Count("engine.views")
	checkView(h.o, gs, c, i)
}

func (h *hand) views() {
	if h.dead {
		return
	}
	h.view("obs")
	for i := range h.g.GetState().Players {
		h.view(itoa(int64(i)))
	}
}

// hop tells the model to pass its state through the JSON round trip as well.
// hop: a state save / restore point.  kind "" = model only (the implementation keeps its long-lived
// in-memory game; hands run with the backend twin use this, so that the twin is compared with a game
// that was never rebuilt); "json" = the in-memory game is REPLACED by a game rebuilt from the JSON of
// its state (NewGameFromState); "load" = the JSON of the state is loaded back into the SAME game
// object (Game.LoadState).  In all three the model applies `Game.hop`; every monitor and the
// correspondence then judge the rebuilt game like the original.
func (h *hand) hop(kind string) {
	if h.dead {
		return
	}
	line := "hop"
	if kind != "" {
		line = "hop " + kind
	}
	if kind == "save" {
		// a checkpoint: the JSON of the state now, and the ghosts of the monitors as they are now
		h.saved = cloneJSON(h.g.GetState())
		if h.twin != nil {
			h.savedTwin = copyState(h.twin)
		} else {
			h.savedTwin = nil
		}
		mc := *h.mon
		mc.turnSince = append([]bool{}, h.mon.turnSince...)
		mc.seen = map[[20]byte]int{}
		for k, v := range h.mon.seen {
			mc.seen[k] = v
		}
		h.savedMon = &mc
		h.savedClosed = h.closed
		h.o.Emit(line, "ok")
		h.o.Count("engine.hop_save")
		return
	}
	if kind == "rollback" {
		if h.saved == nil {
			return
		}
		// the game object that has moved on is given the older state back (a host undoing a hand to a checkpoint); from here on it must
		// behave like a game that never went further: every cache keyed to the abandoned line of play has to be dropped
		var lerr error
		_, pan := safely(func() error { lerr = h.g.LoadState(cloneJSON(h.saved)); return nil })
		if pan || lerr != nil {
			h.dead = true
			h.o.Emit(line, "st err=panic")
			h.o.Violate("C07", "resume_accepts", "LoadState of an earlier state of the same hand failed")
			return
		}
		if h.savedTwin != nil {
			h.twin = copyState(h.savedTwin)
			h.rawTwin = h.twin
		}
		mc := *h.savedMon
		mc.turnSince = append([]bool{}, h.savedMon.turnSince...)
		mc.seen = map[[20]byte]int{}
		for k, v := range h.savedMon.seen {
			mc.seen[k] = v
		}
		h.mon = &mc
		h.closed = h.savedClosed
		h.o.Emit(line, gameStr("st", h.g.GetState(), "none"))
		h.o.Count("engine.hop_rollback")
		return
	}
	obs := "ok"
	if kind == "json" || kind == "load" {
		_, pan := safely(func() error {
			var c *pokerface.GameState
			h.hops++
			if h.hops%2 == 0 {
				// the engine's own snapshot call (what a host that stores hands would use), every second time
				if b, err := h.g.GetStateJSON(); err == nil {
					var s pokerface.GameState
					if json.Unmarshal(b, &s) == nil {
						c = &s
					}
				}
			} else {
				c = cloneJSON(h.g.GetState())
			}
			if c == nil {
				obs = "err"
				return nil
			}
			if kind == "json" {
				h.g = pokerface.NewPokerFace().NewGameFromState(c)
				return nil
			}
			if err := h.g.LoadState(c); err != nil {
				obs = "err"
			}
			return nil
		})
		if pan {
			obs = "panic"
		}
		h.o.Count("engine.hop_" + kind)
	}
	h.o.Emit(line, obs)
	if obs != "ok" {
		h.o.Violate("C07", "resume_accepts", "restoring the game from the JSON of its own state failed ("+obs+")")
		h.dead = true
	}
}
