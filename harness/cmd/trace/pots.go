package main

import (
	"fmt"
	"sort"
	"strings"

	"github.com/weedbox/pokerface/pot"
	"github.com/weedbox/pokerface/settlement"
)

type entry struct {
	idx     int
	contrib int64
	fold    bool
	score   int64
}

func potStr(p *pot.Pot) string {
	cs := []string{}
	for _, k := range sortedKeys(p.Contributors) {
		cs = append(cs, fmt.Sprintf("%d/%d", k, p.Contributors[k]))
	}
	return fmt.Sprintf("%d:%d:%d:%s", p.Level, p.Wager, p.Total, joinList(cs, "+"))
}

func potsStr(ps []*pot.Pot) string {
	xs := []string{}
	for _, p := range ps {
		xs = append(xs, potStr(p))
	}
	return joinList(xs, ";")
}

func resultStr(r *settlement.Result) string {
	xs := []string{}
	for _, p := range r.Players {
		xs = append(xs, fmt.Sprintf("%d/%d/%d", p.Idx, p.Final, p.Changed))
	}
	return joinList(xs, ";")
}

func winnersStr(r *settlement.Result) string {
	xs := []string{}
	for _, p := range r.Pots {
		ws := []string{}
		for _, w := range p.Winners {
			ws = append(ws, fmt.Sprintf("%d/%d", w.Idx, w.Withdraw))
		}
		xs = append(xs, joinList(ws, "+"))
	}
	return joinList(xs, ";")
}

// ---- C16 monitor: published pots against the partition rule ----

func min64(a, b int64) int64 {
	if a < b {
		return a
	}
	return b
}

func checkPots(o *Out, es []entry, pots []*pot.Pot) {
	var sum int64
	for _, e := range es {
		sum += e.contrib
	}
	var prevLevel int64
	prevElig := -1
	var totals int64
	desc := func() string { return fmt.Sprintf("entries=%v pots=%s", es, potsStr(pots)) }
	for k, p := range pots {
		if k > 0 && p.Level <= prevLevel {
			o.Violate("C16", "levels_increasing", desc())
		}
		var want int64
		elig := map[int]bool{}
		for _, e := range es {
			want += min64(e.contrib, p.Level) - min64(e.contrib, prevLevel)
			if !e.fold && e.contrib >= p.Level {
				elig[e.idx] = true
			}
		}
		if p.Total != want {
			o.Violate("C16", "pot_total", fmt.Sprintf("pot %d total %d, expected %d: %s", k, p.Total, want, desc()))
		}
		// non-folded keys listed
		listed := 0
		for _, e := range es {
			amt, ok := p.Contributors[e.idx]
			if e.fold {
				continue
			}
			if ok != elig[e.idx] {
				o.Violate("C16", "eligible_exact", fmt.Sprintf("pot %d, player %d listed=%v eligible=%v: %s", k, e.idx, ok, elig[e.idx], desc()))
			}
			if ok {
				listed++
				if amt != p.Level-prevLevel {
					o.Violate("C16", "eligible_amount", fmt.Sprintf("pot %d, player %d listed with %d, per-pot amount is %d: %s", k, e.idx, amt, p.Level-prevLevel, desc()))
				}
			}
		}
		for idx := range p.Contributors {
			found := false
			for _, e := range es {
				if e.idx == idx {
					found = true
				}
			}
			if !found {
				o.Violate("C16", "eligible_exact", fmt.Sprintf("pot %d lists unknown player %d: %s", k, idx, desc()))
			}
		}
		if prevElig >= 0 && listed >= prevElig {
			o.Violate("C16", "eligible_shrink", fmt.Sprintf("pot %d has %d eligible players, previous pot %d: %s", k, listed, prevElig, desc()))
		}
		prevElig = listed
		prevLevel = p.Level
		totals += p.Total
	}
	if totals != sum {
		o.Violate("C16", "totals_sum", fmt.Sprintf("pots add up to %d, players put in %d: %s", totals, sum, desc()))
	}
	o.Count("pots.checked")
	if len(pots) >= 2 {
		o.Count("pots.with_side_pots")
	}
}

// ---- C02 monitor: net changes against the rules of the showdown ----

func checkSettlement(o *Out, es []entry, changed map[int]int64) {
	checkSettlementAs(o, "", es, changed)
}

// checkSettlementAs: pfx is put in front of the monitor names (which ranking the entries carry)
func checkSettlementAs(o *Out, pfx string, es []entry, changed map[int]int64) {
	desc := func() string { return fmt.Sprintf("entries(idx contrib fold score)=%v changed=%v", es, changed) }
	var zs int64
	for _, e := range es {
		zs += changed[e.idx]
	}
	if zs != 0 {
		o.Violate("C02", pfx+"zero_sum", desc())
	}
	// layers
	lv := map[int64]bool{}
	for _, e := range es {
		if e.contrib > 0 {
			lv[e.contrib] = true
		}
	}
	levels := []int64{}
	for l := range lv {
		levels = append(levels, l)
	}
	sort.Slice(levels, func(i, j int) bool { return levels[i] < levels[j] })
	// spec pots: merge adjacent layers with the same non-folded set
	type spot struct {
		total int64
		elig  []int
		back  map[int]int64 // layers nobody is eligible for go back to their contributors
	}
	var pots []*spot
	var prev int64
	for _, l := range levels {
		var total int64
		elig := []int{}
		back := map[int]int64{}
		for _, e := range es {
			d := min64(e.contrib, l) - min64(e.contrib, prev)
			total += d
			if e.contrib >= l {
				if !e.fold {
					elig = append(elig, e.idx)
				}
				back[e.idx] = d
			}
		}
		if n := len(pots); n > 0 && len(elig) > 0 && fmt.Sprint(pots[n-1].elig) == fmt.Sprint(elig) {
			pots[n-1].total += total
		} else {
			pots = append(pots, &spot{total: total, elig: elig, back: back})
		}
		prev = l
	}
	score := map[int]int64{}
	contrib := map[int]int64{}
	folded := map[int]bool{}
	for _, e := range es {
		score[e.idx] = e.score
		contrib[e.idx] = e.contrib
		folded[e.idx] = e.fold
	}
	lo := map[int]int64{}
	hi := map[int]int64{}
	ties := 0
	for _, p := range pots {
		if len(p.elig) == 0 {
			for i, d := range p.back {
				lo[i] += d
				hi[i] += d
			}
			continue
		}
		var best int64 = -1
		for _, i := range p.elig {
			if score[i] > best {
				best = score[i]
			}
		}
		w := []int{}
		for _, i := range p.elig {
			if score[i] == best {
				w = append(w, i)
			}
		}
		if len(w) > 1 {
			ties++
		}
		k := int64(len(w))
		for _, i := range w {
			lo[i] += p.total / k
			hi[i] += (p.total + k - 1) / k
		}
	}
	for _, e := range es {
		pay := changed[e.idx] + e.contrib
		if pay < lo[e.idx] || pay > hi[e.idx] {
			mon := "right_players"
			if lo[e.idx] > 0 && len(es) > 0 {
				mon = "tie_fair_or_amount"
			}
			o.Violate("C02", pfx+mon, fmt.Sprintf("player %d collects %d, the rules give between %d and %d: %s", e.idx, pay, lo[e.idx], hi[e.idx], desc()))
		}
		if e.fold && changed[e.idx] > 0 {
			o.Violate("C02", pfx+"folded_wins_nothing", desc())
		}
		if changed[e.idx] < -e.contrib {
			o.Violate("C02", pfx+"loses_more_than_put_in", desc())
		}
		var cap, maxOther int64
		for _, f := range es {
			if f.idx != e.idx {
				cap += min64(f.contrib, e.contrib)
				if f.contrib > maxOther {
					maxOther = f.contrib
				}
			}
		}
		if changed[e.idx] > cap {
			o.Violate("C02", pfx+"no_gain_from_unpaid_layer", fmt.Sprintf("player %d wins %d, can win at most %d: %s", e.idx, changed[e.idx], cap, desc()))
		}
		if e.contrib > maxOther && changed[e.idx] < -maxOther {
			o.Violate("C02", pfx+"excess_returned", desc())
		}
	}
	o.Count("settle.checked")
	if ties > 0 {
		o.Count("settle.with_ties")
	}
	if len(pots) > 1 {
		o.Count("settle.multi_pot")
	}
}

// ---- direct use of pot.LevelList + settlement.Result ----

func execPots(o *Out, es []entry) {
	parts := []string{}
	for _, e := range es {
		parts = append(parts, fmt.Sprintf("%d:%d:%s:%d", e.idx, e.contrib, b01(e.fold), e.score))
	}
	in := "pots " + strings.Join(parts, ",")
	ll := pot.NewLevelList()
	for _, e := range es {
		ll.AddContributor(e.contrib, e.idx, e.fold)
	}
	// another level list — and another settlement — are built in between, as a second hand of the same process would: two lists
	// share nothing (a pooled buffer or a package-level scratch value would couple them)
	other := pot.NewLevelList()
	for i, c := range []int64{10, 20, 30, 20} {
		other.AddContributor(c, i, i == 3)
	}
	otherPots := other.GetPots()
	or := settlement.NewResult()
	for _, p := range otherPots {
		or.AddPot(p.Total, p.Levels)
	}
	for i, c := range []int64{10, 20, 30, 20} {
		or.AddPlayer(i, c)
		or.UpdateScore(i, []int{3, 3, 1, 0}[i])
	}
	or.Calculate()
	pots := ll.GetPots()
	r := settlement.NewResult()
	for _, p := range pots {
		r.AddPot(p.Total, p.Levels)
	}
	for _, e := range es {
		r.AddPlayer(e.idx, e.contrib)
		if e.fold {
			r.UpdateScore(e.idx, 0)
		} else {
			r.UpdateScore(e.idx, int(e.score))
		}
	}
	r.Calculate()
	o.BeginHistory()
	o.Emit(in, fmt.Sprintf("pots pots=%s res=%s winners=%s", potsStr(pots), resultStr(r), winnersStr(r)))
	checkPots(o, es, pots)
	changed := map[int]int64{}
	for _, p := range r.Players {
		changed[p.Idx] = p.Changed
		if p.Final != contribOf(es, p.Idx)+p.Changed {
			o.Violate("C01", "final_eq_bankroll_plus_changed", in)
		}
	}
	checkSettlement(o, es, changed)
	// order independence of the published pots (C16): same entries, another insertion order
	ll2 := pot.NewLevelList()
	for i := len(es) - 1; i >= 0; i-- {
		ll2.AddContributor(es[i].contrib, es[i].idx, es[i].fold)
	}
	if potsStr(ll2.GetPots()) != potsStr(pots) {
		o.Violate("C16", "order_independent", in)
	}
	key := ""
	sorted := append([]entry{}, es...)
	sort.Slice(sorted, func(i, j int) bool { return sorted[i].idx < sorted[j].idx })
	for _, e := range sorted {
		key += fmt.Sprintf("%d%s%d,", e.contrib, b01(e.fold), e.score)
	}
	if len(pots) >= 2 {
		o.Mark("C16", key)
		o.Mark("C02", key)
	}
}

func contribOf(es []entry, idx int) int64 {
	for _, e := range es {
		if e.idx == idx {
			return e.contrib
		}
	}
	return 0
}

func genEntries(r *Rng) []entry {
	n := 2 + r.Intn(8)
	if r.Chance(0.05) {
		n = 10 + r.Intn(6)
	}
	nl := 1 + r.Intn(4)
	levels := make([]int64, nl)
	for i := range levels {
		levels[i] = int64(1 + r.Intn(12))
		if r.Chance(0.3) {
			levels[i] = int64(25 * (1 + r.Intn(8)))
		}
	}
	es := make([]entry, n)
	var maxC int64
	for i := range es {
		c := levels[r.Intn(nl)]
		if r.Chance(0.25) {
			c += int64(r.Intn(4))
		}
		if r.Chance(0.07) {
			c = 0
		}
		es[i] = entry{idx: i, contrib: c, fold: r.Chance(0.35), score: int64(1 + r.Intn(3))}
		if r.Chance(0.1) {
			es[i].score = int64(1 + r.Intn(1000000))
		}
		if c > maxC {
			maxC = c
		}
	}
	// mostly keep the engine's invariant: somebody with the largest contribution has not folded
	if !r.Chance(0.1) {
		for i := range es {
			if es[i].contrib == maxC {
				es[i].fold = false
				break
			}
		}
	}
	// the five-seat layout of the property's rationale: two tied winners over folded partial stakes
	if r.Chance(0.1) && n >= 5 {
		es[0].contrib, es[1].contrib = maxC+int64(1+r.Intn(50)), maxC+int64(1+r.Intn(50))
		if r.Chance(0.7) {
			es[1].contrib = es[0].contrib
		}
		es[0].fold, es[1].fold = false, false
		es[0].score, es[1].score = 5, 5
		for i := 2; i < n; i++ {
			es[i].fold = r.Chance(0.8)
			if !es[i].fold {
				es[i].score = int64(1 + r.Intn(4))
			}
		}
	}
	if r.Chance(0.05) {
		// big chips: every contribution multiplied by a large factor (a narrower or floating intermediate would show only here)
		k := []int64{1000003, 1 << 31, 4294967311, 1099511627}[r.Intn(4)]
		for i := range es {
			es[i].contrib *= k
		}
		for i := range levels {
			levels[i] *= k
		}
	}
	// "all numbers of players", any player indices: now and then a crowd, and indices that are sparse and large
	if r.Chance(0.04) {
		extra := 50 + r.Intn(30)
		for k := 0; k < extra; k++ {
			c := levels[r.Intn(nl)]
			es = append(es, entry{idx: n + k, contrib: c, fold: r.Chance(0.5), score: int64(1 + r.Intn(3))})
		}
		n = len(es)
	}
	if r.Chance(0.08) {
		used := map[int]bool{}
		for i := range es {
			for {
				x := r.Intn(400)
				if !used[x] {
					used[x] = true
					es[i].idx = x
					break
				}
			}
		}
	}
	r.Shuffle(n, func(i, j int) { es[i], es[j] = es[j], es[i] })
	return es
}

func runPots(dir string, seed uint64, n int) {
	o := NewOut(dir, "pots")
	r := NewRng(seed)
	// corpus first: the layouts that exposed defects
	execPots(o, []entry{{0, 100, false, 5}, {1, 100, false, 5}, {2, 25, true, 0}, {3, 50, true, 0}, {4, 75, true, 0}})
	execPots(o, []entry{{0, 10, false, 2}, {1, 10, true, 1}, {2, 20, false, 1}, {3, 20, false, 3}})
	for i := 0; i < n; i++ {
		es := genEntries(r)
		execPots(o, es)
		o.Count(fmt.Sprintf("pots.n%d", len(es)))
		if i < 4 {
			o.Sample(o.hist[len(o.hist)-1])
		}
	}
	o.Close(dir, "pots", seed)
}
