package main

import (
	"crypto/sha1"
	"fmt"
	"strings"

	"github.com/weedbox/pokerface"
)

// engineMon evaluates the statements of the engine properties directly on the
// implementation's observations (no model involved).
type engineMon struct {
	h         *hand
	n         int
	accepted  int
	bound     int
	turnSince []bool
	quiet     int
	forcedOK  bool  // C13 evaluated
	aloneAt   int   // deck position when only one player was left (-1 = n/a)
	lastRaise int64 // ghost: size of the last bet or full raise of the round (the big blind before any)
	lastBoard int
	seen      map[[20]byte]int // C06: states of this hand after each accepted operation -> index of that operation
}

var roundIdx = map[string]int{"": 0, "preflop": 1, "flop": 2, "turn": 3, "river": 4}

var waitPoints = map[string]bool{"ReadyRequested": true, "AnteRequested": true, "BlindsRequested": true, "RoundStarted": true, "RoundClosed": true, "GameClosed": true}

func newEngineMon(h *hand) *engineMon {
	n := len(h.cfg.bank)
	var sum int64
	for _, b := range h.cfg.bank {
		sum += b
	}
	m := &engineMon{h: h, n: n, turnSince: make([]bool, n), aloneAt: -1}
	m.bound = n*(int(sum)+4) + 16
	if sum > (1<<58)/int64(n+1) { // the bound itself would not fit: chips beyond 2^53 are played with far fewer operations than that
		m.bound = 1 << 62
	}
	return m
}

func (m *engineMon) afterStartError(err error) {
	// C06 start_iff: Start refuses exactly when a precondition is missing
	c := m.h.cfg
	dealer := false
	okBank := true
	for i := range c.bank {
		if strings.Contains(c.pos[i], "d") {
			dealer = true
		}
		if c.bank[i] <= 0 {
			okBank = false
		}
	}
	if len(c.bank) >= 2 && dealer && okBank && len(c.deck) > 0 {
		m.h.o.Violate("C06", "start_iff", "Start() refused a configuration with two players, positive bankrolls, a dealer and a deck: "+err.Error())
	}
}

// muOf: the termination measure of theorem C06.measure_decreases (Proofs/FlowMeasure.lean, Game.mu)
func muOf(gs *pokerface.GameState) int64 {
	n := int64(len(gs.Players))
	var stacks, unacted int64
	for _, p := range gs.Players {
		stacks += p.StackSize
		if !p.Acted {
			unacted++
		}
	}
	left := int64(4 - roundIdx[gs.Status.Round])
	var phase int64
	switch gs.Status.CurrentEvent {
	case "GameClosed":
		phase = 0
	case "RoundClosed":
		phase = 1 + left*(n+2)
	case "RoundStarted":
		phase = 1 + left*(n+2) + unacted
	case "ReadyRequested":
		if gs.Status.Round == "" {
			phase = 4*(n+2) + 4
		} else {
			phase = left*(n+2) + n + 2
		}
	case "BlindsRequested":
		phase = 4*(n+2) + 2
	case "AnteRequested":
		phase = 4*(n+2) + 3
	}
	return n*stacks + phase
}

func has(xs []string, a string) bool {
	for _, x := range xs {
		if x == a {
			return true
		}
	}
	return false
}

func alive(gs *pokerface.GameState) int {
	k := 0
	for _, p := range gs.Players {
		if !p.Fold {
			k++
		}
	}
	return k
}

func movable(gs *pokerface.GameState) int {
	k := 0
	for _, p := range gs.Players {
		if !p.Fold && p.StackSize > 0 {
			k++
		}
	}
	return k
}

func (m *engineMon) V(prop, mon, msg string) { m.h.o.Violate(prop, mon, msg) }

// afterOp: pre is a clone of the state before the operation (nil for the cfg line).
func (m *engineMon) afterOp(opLine string, pre *pokerface.GameState, err error) {
	o := m.h.o
	gs := m.h.g.GetState()
	st := &gs.Status
	c := m.h.cfg
	n := len(gs.Players)
	op := parseOpLine(opLine)

	// ---------- C01 chip invariant ----------
	var sumW, sumP, sumPots int64
	for _, p := range gs.Players {
		if p.Bankroll != p.StackSize+p.Wager+p.Pot {
			m.V("C01", "bankroll_split", fmt.Sprintf("seat %d: bankroll %d != stack %d + wager %d + pot %d", p.Idx, p.Bankroll, p.StackSize, p.Wager, p.Pot))
		}
		if p.StackSize < 0 || p.Wager < 0 || p.Pot < 0 {
			prop := "C01"
			m.V(prop, "non_negative", fmt.Sprintf("seat %d: stack %d wager %d pot %d", p.Idx, p.StackSize, p.Wager, p.Pot))
			if op.kind == "act" {
				m.V("C12", "amounts_safe", fmt.Sprintf("%s made seat %d: stack %d wager %d pot %d", opLine, p.Idx, p.StackSize, p.Wager, p.Pot))
			}
		}
		if p.StackSize > p.Bankroll {
			m.V("C12", "amounts_safe", fmt.Sprintf("%s lifted the stack of seat %d to %d above the bankroll %d", opLine, p.Idx, p.StackSize, p.Bankroll))
		}
		if p.StackSize != p.InitialStackSize-p.Wager {
			m.V("C01", "stack_rebase", fmt.Sprintf("seat %d: stack %d != initial %d - wager %d", p.Idx, p.StackSize, p.InitialStackSize, p.Wager))
		}
		sumW += p.Wager
		sumP += p.Pot
	}
	if st.CurrentRoundPot != sumW {
		m.V("C01", "round_pot", fmt.Sprintf("round pot %d != wagers on the table %d", st.CurrentRoundPot, sumW))
	}
	for _, p := range st.Pots {
		sumPots += p.Total
	}
	wantPots := sumP
	if st.CurrentEvent == "RoundClosed" {
		wantPots += sumW
	}
	if sumPots != wantPots {
		m.V("C01", "pots_total", fmt.Sprintf("published pots add up to %d, players have put in %d (event %s)", sumPots, wantPots, st.CurrentEvent))
	}
	if (gs.Result != nil) != (st.CurrentEvent == "GameClosed") {
		m.V("C06", "result_iff_closed", fmt.Sprintf("result present=%v at event %s", gs.Result != nil, st.CurrentEvent))
	}
	justClosed := st.CurrentEvent == "GameClosed" && (pre == nil || pre.Status.CurrentEvent != "GameClosed")
	if justClosed && gs.Result != nil {
		var z int64
		changed := map[int]int64{}
		for _, r := range gs.Result.Players {
			z += r.Changed
			changed[r.Idx] = r.Changed
			p := gs.Players[r.Idx]
			if r.Final != p.Bankroll+r.Changed || r.Final < 0 || r.Changed < -p.Pot {
				m.V("C01", "closing_identities", fmt.Sprintf("seat %d: final %d bankroll %d changed %d put in %d", r.Idx, r.Final, p.Bankroll, r.Changed, p.Pot))
			}
		}
		if z != 0 || len(gs.Result.Players) != n {
			m.V("C01", "zero_sum", fmt.Sprintf("changes sum to %d over %d results", z, len(gs.Result.Players)))
		}
		// ---------- C02 on the real showdown ----------
		es := []entry{}
		for _, p := range gs.Players {
			sc := int64(0)
			if p.Combination != nil {
				sc = int64(p.Combination.Power)
			}
			if !p.Fold && sc <= 0 {
				m.V("C02", "score_pos", fmt.Sprintf("seat %d reaches the showdown with strength %d", p.Idx, sc))
			}
			es = append(es, entry{idx: p.Idx, contrib: p.Pot + p.Wager, fold: p.Fold, score: sc})
		}
		checkSettlement(o, es, changed)
		// the same hand as settled by a game rebuilt from JSON at every step (the backend twin):
		// the showdown rules hold for real play through the stateless backend as well
		if tw := m.h.rawTwin; tw != nil && tw.Status.CurrentEvent == "GameClosed" && tw.Result != nil {
			tchanged := map[int]int64{}
			var tz int64
			for _, r := range tw.Result.Players {
				tchanged[r.Idx] = r.Changed
				tz += r.Changed
			}
			if tz != 0 {
				m.V("C01", "zero_sum", fmt.Sprintf("hand played through the JSON backend: changes sum to %d", tz))
			}
			checkSettlement(o, es, tchanged)
			o.Count("engine.closed_twin")
		}
		// the same showdown with the hands ranked from the cards (hole cards + board, rules of poker,
		// spec oracle of eval.go) instead of the strengths the engine stored: theorems Links.showdown_winners_by_poker, showdown_winners_by_poker_shortDeck
		if alive(gs) >= 2 && len(st.Board) == 5 {
			keys := map[int]specKey{}
			okAll := true
			for _, p := range gs.Players {
				if p.Fold {
					continue
				}
				k, ok := bestSpec(c.table, c.req, p.HoleCards, st.Board)
				if !ok {
					okAll = false
					break
				}
				keys[p.Idx] = k
			}
			if okAll {
				tbl := specTable(c.table) // the order the property states, not the package table under test
				es2 := []entry{}
				for _, p := range gs.Players {
					sc := int64(0)
					if !p.Fold {
						sc = 1
						for _, q := range gs.Players {
							if !q.Fold && specCompare(tbl, keys[q.Idx], keys[p.Idx]) < 0 {
								sc++
							}
						}
					}
					es2 = append(es2, entry{idx: p.Idx, contrib: p.Pot + p.Wager, fold: p.Fold, score: sc})
				}
				checkSettlementAs(o, "by_cards.", es2, changed)
				o.Count("engine.showdowns_by_cards")
			}
		}
		o.Count("engine.closed")
		if alive(gs) >= 2 {
			o.Count("engine.showdowns")
			if len(st.Board) != 5 {
				m.V("C05", "full_board_at_showdown", fmt.Sprintf("showdown among %d players on a board of %d cards", alive(gs), len(st.Board)))
			}
		}
		if len(st.Pots) >= 2 {
			o.Count("engine.closed_with_side_pots")
		}
		key := ""
		for _, e := range es {
			key += fmt.Sprintf("%d%s,", e.contrib, b01(e.fold))
		}
		o.Mark("C01", key)
		if len(st.Pots) >= 2 || alive(gs) >= 2 {
			o.Mark("C02", key+fmt.Sprint(changed))
		}
	}

	// ---------- C16 on published pots ----------
	published := st.CurrentEvent == "RoundClosed" || justClosed || (pre != nil && pre.Status.CurrentEvent == "AnteRequested" && err == nil)
	if published {
		es := []entry{}
		for _, p := range gs.Players {
			es = append(es, entry{idx: p.Idx, contrib: p.Pot + p.Wager, fold: p.Fold})
		}
		checkPots(o, es, st.Pots)
		if len(st.Pots) >= 2 {
			o.Mark("C16", potsStr(st.Pots))
		}
	}

	// ---------- C06 wait points, street order, step bound ----------
	if !waitPoints[st.CurrentEvent] {
		m.V("C06", "wait_points", "the engine stopped at event "+st.CurrentEvent)
	}
	if pre != nil {
		d := roundIdx[st.Round] - roundIdx[pre.Status.Round]
		if d != 0 && d != 1 {
			m.V("C06", "streets_in_order", fmt.Sprintf("round went from %q to %q", pre.Status.Round, st.Round))
		}
		if d == 1 && op.kind == "act" {
			m.V("C06", "streets_in_order", "a player action moved the hand to the next street: "+opLine)
		}
		if err == nil {
			m.accepted++
			// a state that comes back after an accepted operation is a cycle of the state graph:
			// repeating the operations in between is a play that never closes (theorem measure_decreases
			// excludes it for the model: every accepted operation strictly lowers Game.mu)
			if m.seen == nil {
				m.seen = map[[20]byte]int{}
			}
			key := sha1.Sum([]byte(canonJSON(gs)))
			if k, dup := m.seen[key]; dup {
				m.V("C06", "terminates_no_cycle", fmt.Sprintf("after %s (accepted operation %d) the hand is in exactly the state it was in after accepted operation %d: repeating the operations in between never reaches the closed state", opLine, m.accepted, k))
			} else {
				m.seen[key] = m.accepted
			}
			if mu0, mu1 := muOf(pre), muOf(gs); mu1 >= mu0 {
				o.Count("engine.mu_not_decreasing")
			}
			if m.accepted > m.bound {
				m.V("C06", "terminates", fmt.Sprintf("%d accepted operations, bound for this hand is %d", m.accepted, m.bound))
			}
		}
		if pre.Status.CurrentEvent == "GameClosed" && err == nil {
			m.V("C06", "closed_final", "a closed hand accepted "+opLine)
		}
	}

	// ---------- expected refusals (C04) and expected successes (C06) ----------
	if pre != nil {
		pst := &pre.Status
		mustRefuse, mustAccept := false, false
		switch op.kind {
		case "ready":
			mustRefuse = pst.CurrentEvent != "ReadyRequested"
			mustAccept = !mustRefuse
		case "ante":
			mustRefuse = pst.CurrentEvent != "AnteRequested"
			mustAccept = !mustRefuse
		case "blinds":
			mustRefuse = pst.CurrentEvent != "BlindsRequested"
			mustAccept = !mustRefuse
		case "next":
			mustRefuse = pst.CurrentEvent != "RoundClosed"
			mustAccept = !mustRefuse
		case "act":
			seat := op.seat
			if seat < 0 {
				seat = pst.CurrentPlayer
			}
			offered := seat >= 0 && seat < len(pre.Players) && has(pre.Players[seat].AllowedActions, op.act)
			mustRefuse = pst.CurrentEvent != "RoundStarted" || seat != pst.CurrentPlayer || !offered
			if !mustRefuse {
				switch op.act {
				case "pass", "fold", "check", "call", "allin":
					mustAccept = true
				case "bet":
					mustAccept = op.x > 0
				case "raise":
					mustAccept = op.x > pst.CurrentWager
				}
			}
		}
		rel := 0
		if op.kind == "act" && op.seat >= 0 && n > 0 {
			rel = ((op.seat-pst.CurrentPlayer)%n + n) % n
		}
		o.Mark("C04", fmt.Sprintf("%s/%s/%s/%s/%d/%v/%s", pst.CurrentEvent, pst.Round, op.kind, op.act, rel, mustRefuse, errName(err)))
		o.Mark("C06", fmt.Sprintf("%s/%s/%s/%s/%s/%d", pst.CurrentEvent, pst.Round, op.kind, op.act, errName(err), n))
		if mustRefuse && err == nil {
			m.V("C04", "refused_when", fmt.Sprintf("%s was accepted at event %s with player to act %d (offered: %v)", opLine, pst.CurrentEvent, pst.CurrentPlayer, allowedOf(pre)))
		}
		if mustAccept && err != nil {
			m.V("C06", "expected_step_succeeds", fmt.Sprintf("%s is what the hand was waiting for (event %s) but returned %q", opLine, pst.CurrentEvent, err.Error()))
		}
	}

	// ---------- C04 one actor, first to act, clockwise ----------
	for _, p := range gs.Players {
		want := st.CurrentEvent == "RoundStarted" && p.Idx == st.CurrentPlayer
		if want != (len(p.AllowedActions) > 0) {
			m.V("C04", "one_actor", fmt.Sprintf("event %s, player to act %d, seat %d is offered %v", st.CurrentEvent, st.CurrentPlayer, p.Idx, p.AllowedActions))
		}
	}
	if pre != nil && err == nil && st.CurrentEvent == "RoundStarted" {
		if pre.Status.CurrentEvent != "RoundStarted" {
			// the round has just been opened
			first := -1
			dealer := -1
			for i := range c.pos {
				if strings.Contains(c.pos[i], "d") {
					dealer = i // the engine keeps the last seat holding the position
				}
			}
			if dealer >= 0 {
				if st.Round == "preflop" {
					// left of the big blind: the first seat holding that position clockwise from the dealer
					for k := 1; k <= n; k++ {
						if strings.Contains(c.pos[(dealer+k)%n], "b") {
							first = (dealer + k + 1) % n
							break
						}
					}
				} else {
					first = (dealer + 1) % n
				}
			}
			if first >= 0 && st.CurrentPlayer != first {
				m.V("C04", "first_to_act", fmt.Sprintf("%s round opens with seat %d, expected seat %d", st.Round, st.CurrentPlayer, first))
			}
			for i := range m.turnSince {
				m.turnSince[i] = false
			}
			m.quiet = 0
			m.lastRaise = 0
			if st.Round == "preflop" {
				m.lastRaise = c.bb
				if c.bb == 0 {
					m.lastRaise = c.bd
				}
			}
			if roundIdx[st.Round] >= 2 && movable(gs) < 2 {
				m.V("C05", "no_betting_without_two_stacks", fmt.Sprintf("%s betting round opened with %d players holding chips", st.Round, movable(gs)))
			}
			o.Count("engine.rounds." + st.Round)
		} else if op.kind == "act" {
			if st.CurrentPlayer != (pre.Status.CurrentPlayer+1)%n {
				m.V("C04", "clockwise", fmt.Sprintf("after %s by seat %d the turn went to seat %d", opLine, pre.Status.CurrentPlayer, st.CurrentPlayer))
			}
		}
	}

	// C05, first sentence, as a property of the STATE (C05.every_close_level): whenever the hand sits in RoundClosed with two or more
	// players alive, every non-folded player with chips is level with the wager to match — however the state came about (an action
	// accepted after the round had closed lifts the wager and leaves the others behind)
	if st.CurrentEvent == "RoundClosed" && alive(gs) >= 2 {
		// "the wager to match" is what the players have actually put in — the largest wager on the table — not only the field the
		// engine keeps for it (a defect may leave that field behind)
		toMatch := st.CurrentWager
		for _, p := range gs.Players {
			if !p.Fold && p.Wager > toMatch {
				toMatch = p.Wager
			}
		}
		for _, p := range gs.Players {
			if !p.Fold && p.StackSize > 0 && p.Wager != toMatch {
				m.V("C05", "no_premature_close", fmt.Sprintf("after %s the %s round is closed while seat %d (stack %d) has put in %d of the %d to match (recorded wager to match %d)", opLine, st.Round, p.Idx, p.StackSize, p.Wager, toMatch, st.CurrentWager))
				break
			}
		}
	}
	// ---------- C05 ghost history ----------
	if pre != nil && err == nil && op.kind == "act" && pre.Status.CurrentEvent == "RoundStarted" {
		actor := pre.Status.CurrentPlayer
		rose := st.CurrentWager > pre.Status.CurrentWager
		wentAllin := pre.Players[actor].StackSize > 0 && gs.Players[actor].StackSize == 0
		if rose {
			for i := range m.turnSince {
				m.turnSince[i] = false
			}
		}
		m.turnSince[actor] = true
		if rose || wentAllin {
			m.quiet = 0
		} else {
			m.quiet++
		}
		closedNow := st.CurrentEvent != "RoundStarted"
		if closedNow && alive(gs) >= 2 {
			for _, p := range gs.Players {
				if !p.Fold && p.StackSize > 0 && (p.Wager != st.CurrentWager || !m.turnSince[p.Idx]) {
					m.V("C05", "no_premature_close", fmt.Sprintf("round closed after %s while seat %d (stack %d, wager %d, wager to match %d, had a turn since the last rise: %v) still owes an action",
						opLine, p.Idx, p.StackSize, p.Wager, st.CurrentWager, m.turnSince[p.Idx]))
				}
			}
		}
		if !closedNow && m.quiet >= n {
			m.V("C05", "one_lap", fmt.Sprintf("%d turns since the last wager increase or all-in and the round is still open (%d seats)", m.quiet, n))
		}
		if alive(gs) == 1 {
			if st.CurrentEvent != "RoundClosed" {
				m.V("C05", "last_player_ends", "one player left but the round is not closed: event "+st.CurrentEvent)
			}
			m.aloneAt = st.CurrentDeckPosition
		}
		if closedNow {
			o.Count("engine.round_closed_by_action")
			o.Mark("C05", fmt.Sprintf("%s/%d/%d/%d/%d/%s/%v", st.Round, n, alive(gs), movable(gs), m.quiet, op.act, wentAllin))
		}
	}
	// a round closed without any action (skipped): nobody with chips may still owe a call
	if pre != nil && err == nil && op.kind != "act" && st.CurrentEvent == "RoundClosed" && pre.Status.CurrentEvent != "RoundClosed" && alive(gs) >= 2 {
		for _, p := range gs.Players {
			if !p.Fold && p.StackSize > 0 && p.Wager < st.CurrentWager {
				m.V("C05", "no_premature_close", fmt.Sprintf("%s closed the %s round without a turn for seat %d (stack %d) who has put in %d of the %d to match", opLine, st.Round, p.Idx, p.StackSize, p.Wager, st.CurrentWager))
			}
		}
		o.Mark("C05", fmt.Sprintf("skip/%s/%d/%d/%d", st.Round, n, alive(gs), movable(gs)))
	}
	if pre != nil && err == nil && op.kind == "next" && m.aloneAt >= 0 {
		if st.CurrentEvent != "GameClosed" || st.CurrentDeckPosition != m.aloneAt || len(st.Board) != len(pre.Status.Board) {
			m.V("C05", "last_player_ends", fmt.Sprintf("one player left: Next() led to %s, deck position %d -> %d", st.CurrentEvent, m.aloneAt, st.CurrentDeckPosition))
		}
	}

	// ---------- C11 effects / C12 raise rule ----------
	if pre != nil && err == nil && op.kind == "act" && pre.Status.CurrentEvent == "RoundStarted" {
		actor := pre.Status.CurrentPlayer
		pp, qp := pre.Players[actor], gs.Players[actor]
		pcw, pprev := pre.Status.CurrentWager, pre.Status.PreviousRaiseSize
		switch op.act {
		case "check", "fold", "pass":
			same := st.CurrentRoundPot == pre.Status.CurrentRoundPot && st.CurrentWager == pcw
			for i := range gs.Players {
				a, b := gs.Players[i], pre.Players[i]
				if a.StackSize != b.StackSize || a.Wager != b.Wager || a.Pot != b.Pot {
					same = false
				}
			}
			if !same {
				m.V("C11", "effects", opLine+" moved chips")
			}
		case "call":
			if qp.Wager != st.CurrentWager {
				m.V("C11", "effects", fmt.Sprintf("after the call seat %d has wagered %d, wager to match is %d", actor, qp.Wager, st.CurrentWager))
			}
			// reading I2: a call lifts the wager to match only when it completes a wager below the big blind
			if pcw >= c.bb && st.CurrentWager != pcw {
				m.V("C11", "effects", fmt.Sprintf("a call lifted the wager to match from %d to %d (big blind %d)", pcw, st.CurrentWager, c.bb))
			}
		case "bet":
			if op.x > 0 && op.x < pp.StackSize && (st.CurrentWager != op.x || qp.Wager != op.x) {
				m.V("C11", "effects", fmt.Sprintf("bet %d: wager to match %d, bettor's wager %d", op.x, st.CurrentWager, qp.Wager))
			}
		case "allin":
			if qp.StackSize != 0 || qp.Wager != pp.InitialStackSize {
				m.V("C11", "effects", fmt.Sprintf("all-in left stack %d wager %d (started the round with %d)", qp.StackSize, qp.Wager, pp.InitialStackSize))
			}
		case "raise":
			if c.limit != "pot" && op.x > pcw {
				inc := op.x - pcw
				allin := qp.StackSize == 0 && qp.Wager == pp.InitialStackSize
				_ = pprev
				if op.x < pp.InitialStackSize && inc >= m.lastRaise {
					if st.CurrentWager != op.x || st.CurrentRaiser != actor || st.PreviousRaiseSize != inc || qp.Wager != op.x {
						m.V("C12", "raise_exact", fmt.Sprintf("%s (wager to match %d, previous bet or raise %d, stack at round start %d): wager to match %d, raiser %d, minimum raise %d, wager %d",
							opLine, pcw, m.lastRaise, pp.InitialStackSize, st.CurrentWager, st.CurrentRaiser, st.PreviousRaiseSize, qp.Wager))
					}
					o.Mark("C12", fmt.Sprintf("exact/%d/%d/%d", pcw, pprev, inc))
				}
				if inc < m.lastRaise && !allin {
					m.V("C12", "raise_undersized", fmt.Sprintf("%s lifts the wager to match %d by %d, less than the previous bet or raise %d, and was carried out", opLine, pcw, inc, m.lastRaise))
				}
			}
		}
		// (Raise(x) with x equal to the wager to match is carried out as a Call, reading I8)
		isCall := op.act == "call" || (op.act == "raise" && op.x == pcw)
		// rule proved equal to the recorded minimum raise on all histories (Proofs/RaiseGhost.lean,
		// RaiseRule.i8): a bet sets the size; any other non-call action sets it when it lifts the
		// wager to match by at least the previous size
		if d := st.CurrentWager - pcw; !isCall && (op.act == "bet" || (d > 0 && d >= m.lastRaise)) {
			m.lastRaise = d
		}
		if st.Round == pre.Status.Round && st.CurrentWager < pcw {
			m.V("C12", "cw_monotone", fmt.Sprintf("%s lowered the wager to match from %d to %d", opLine, pcw, st.CurrentWager))
		}
	}
	// ---------- C11 offered actions (after the ghost update above: "the minimum raise" is the size of the last bet or
	// full raise of the round as it was carried out, not the field the engine keeps; the two are proved equal on the
	// unchanged tree, C12.recorded_is_last_raise + monitor_rule_agrees) ----------
	if st.CurrentEvent == "RoundStarted" && st.CurrentPlayer >= 0 && st.CurrentPlayer < n {
		p := gs.Players[st.CurrentPlayer]
		a := p.AllowedActions
		cw, prev, mb := st.CurrentWager, m.lastRaise, st.MiniBet
		if prev != st.PreviousRaiseSize {
			o.Count("engine.recorded_min_raise_differs_from_ghost")
		}
		bad := func(what string) {
			m.V("C11", "offered_spec", fmt.Sprintf("%s: seat %d fold=%v stack=%d initial=%d wager=%d, wager to match %d, previous raise %d, minimum bet %d, offered %v",
				what, p.Idx, p.Fold, p.StackSize, p.InitialStackSize, p.Wager, cw, prev, mb, a))
		}
		if p.Fold || p.StackSize == 0 {
			if len(a) != 1 || a[0] != "pass" {
				bad("a folded or all-in seat must only be asked to pass")
			}
		} else {
			facing := p.Wager < cw
			if has(a, "pass") {
				bad("pass offered to a player who can act")
			}
			if !has(a, "allin") {
				bad("all-in not offered")
			}
			if has(a, "fold") != facing {
				bad("fold must be offered exactly when facing a higher wager")
			}
			if has(a, "check") != !facing {
				bad("check must be offered exactly when not facing a higher wager")
			}
			if facing && p.InitialStackSize > cw && !has(a, "call") {
				bad("call not offered although the wager can be covered with chips to spare")
			}
			if has(a, "call") && !facing {
				bad("call offered without a wager to face")
			}
			if cw == 0 && p.InitialStackSize >= mb && !has(a, "bet") {
				bad("bet not offered")
			}
			if has(a, "bet") && cw != 0 {
				bad("bet offered although a wager stands")
			}
			if cw > 0 && p.InitialStackSize > cw+prev && p.InitialStackSize >= mb && !has(a, "raise") {
				bad("raise not offered")
			}
			if has(a, "raise") && cw == 0 {
				bad("raise offered although nobody has wagered")
			}
			// the converse half ("call, bet and raise are never offered in the opposite situations"), as the iff C11.offered_iff proves, with the
			// ghost size of the last bet or raise as carried out
			if has(a, "call") && !(facing && p.InitialStackSize > cw) {
				bad("call offered to a player who cannot cover the wager with chips to spare")
			}
			if has(a, "bet") && !(!facing && cw == 0 && p.InitialStackSize >= mb) {
				bad("bet offered to a player who faces a wager or holds less than the minimum bet")
			}
			if has(a, "raise") && !((facing && p.InitialStackSize > cw+prev) || (!facing && cw != 0 && p.InitialStackSize >= mb)) {
				bad("raise offered to a player who does not hold more than the minimum raise (or, level with the wager, the minimum bet)")
			}
			o.Mark("C11", fmt.Sprintf("%v|%v|%v|%v|%s", facing, p.InitialStackSize > cw, p.InitialStackSize > cw+prev, p.InitialStackSize >= mb, strings.Join(a, ",")))
		}
	}
	if pre != nil && err == nil && op.kind == "act" && op.act == "raise" && pre.Status.CurrentEvent == "RoundStarted" {
		if op.x == 0 || op.x < pre.Status.CurrentWager {
			m.V("C12", "raise_below_refused", opLine+" was accepted")
		}
	}
	// the other half of "is carried out exactly": such a request must not be REFUSED either.  By C12.raise_exact_unconditional and
	// raise_offered_iff the only legitimate refusals of a request cw < x < stack at round start, x - cw >= previous size, from the
	// player to act are: nobody has wagered (a bet situation), or the player is level with the wager and holds less than the minimum bet.
	if pre != nil && err != nil && op.kind == "act" && op.act == "raise" && pre.Status.CurrentEvent == "RoundStarted" && c.limit != "pot" {
		ps := &pre.Status
		actor := op.seat
		if actor < 0 {
			actor = ps.CurrentPlayer
		}
		if actor == ps.CurrentPlayer && actor >= 0 && actor < len(pre.Players) {
			pp := pre.Players[actor]
			if !pp.Fold && pp.StackSize != 0 && op.x > ps.CurrentWager && op.x < pp.InitialStackSize && op.x-ps.CurrentWager >= m.lastRaise &&
				(pp.Wager < ps.CurrentWager || (ps.CurrentWager != 0 && pp.InitialStackSize >= ps.MiniBet)) {
				m.V("C12", "raise_exact", fmt.Sprintf("%s was refused (%v): wager to match %d, previous bet or raise %d, the player's wager %d, stack at round start %d, minimum bet %d",
					opLine, err, ps.CurrentWager, m.lastRaise, pp.Wager, pp.InitialStackSize, ps.MiniBet))
			}
			o.Count("engine.c12.refused_raise_checked")
		}
	}

	// C12, last sentence: no amount argument can make a POT negative either — the round pot shown and the published pots included
	if op.kind == "act" {
		if st.CurrentRoundPot < 0 {
			m.V("C12", "amounts_safe", fmt.Sprintf("%s made the round pot %d", opLine, st.CurrentRoundPot))
		}
		for _, pt := range st.Pots {
			if pt.Total < 0 || pt.Wager < 0 {
				m.V("C12", "amounts_safe", fmt.Sprintf("%s made a published pot negative: level %d wager %d total %d", opLine, pt.Level, pt.Wager, pt.Total))
			}
		}
	}

	// ---------- C13 forced bets ----------
	if !m.forcedOK && st.Round == "preflop" && (st.CurrentEvent == "ReadyRequested" || st.CurrentEvent == "RoundStarted" || st.CurrentEvent == "RoundClosed") {
		m.forcedOK = true
		var maxPosted int64
		for _, p := range gs.Players {
			wantPot := min64(c.ante, p.Bankroll)
			var blind int64
			switch {
			case c.bb > 0 && strings.Contains(c.pos[p.Idx], "b"):
				blind = c.bb
			case c.sb > 0 && strings.Contains(c.pos[p.Idx], "s"):
				blind = c.sb
			case c.bd > 0 && strings.Contains(c.pos[p.Idx], "d"):
				blind = c.bd
			}
			wantW := min64(blind, p.Bankroll-wantPot)
			if p.Pot != wantPot {
				m.V("C13", "ante_paid", fmt.Sprintf("seat %d has %d in the pot after the forced bets, expected ante %d", p.Idx, p.Pot, wantPot))
			}
			if p.Wager != wantW {
				m.V("C13", "blinds_posted", fmt.Sprintf("seat %d (%s) has posted %d, expected %d (blinds d/s/b %d/%d/%d, bankroll %d, ante %d)", p.Idx, c.pos[p.Idx], p.Wager, wantW, c.bd, c.sb, c.bb, p.Bankroll, c.ante))
			}
			if p.Wager > maxPosted {
				maxPosted = p.Wager
			}
		}
		if st.CurrentWager != maxPosted {
			m.V("C13", "cw_is_max_posted", fmt.Sprintf("wager to match %d, largest blind posted %d", st.CurrentWager, maxPosted))
		}
		wantPrev := c.bb
		if c.bb == 0 {
			wantPrev = c.bd
		}
		if st.PreviousRaiseSize != wantPrev {
			m.V("C13", "prev_is_bb", fmt.Sprintf("minimum raise %d, expected %d", st.PreviousRaiseSize, wantPrev))
		}
		o.Mark("C13", fmt.Sprintf("%d/%d/%d/%d/%v/%v", c.ante, c.bd, c.sb, c.bb, c.bank, c.pos))
	}

	// ---------- C14 cards ----------
	{
		var dealt []string
		for _, p := range gs.Players {
			dealt = append(dealt, p.HoleCards...)
			wantHole := 0
			if roundIdx[st.Round] >= 1 {
				wantHole = c.hole
			}
			if len(p.HoleCards) != wantHole {
				m.V("C14", "counts", fmt.Sprintf("seat %d holds %d hole cards in round %q", p.Idx, len(p.HoleCards), st.Round))
			}
		}
		bi := 0
		for k, card := range st.Burned {
			dealt = append(dealt, card)
			cnt := 1
			if k == 0 {
				cnt = 3
			}
			for j := 0; j < cnt && bi < len(st.Board); j++ {
				dealt = append(dealt, st.Board[bi])
				bi++
			}
		}
		dealt = append(dealt, st.Board[bi:]...)
		wantBoard := []int{0, 0, 3, 4, 5}[roundIdx[st.Round]]
		wantBurn := []int{0, 0, 1, 2, 3}[roundIdx[st.Round]]
		if len(st.Board) != wantBoard || len(st.Burned) != wantBurn {
			m.V("C14", "counts", fmt.Sprintf("round %q: board %d cards, burned %d", st.Round, len(st.Board), len(st.Burned)))
		}
		okPrefix := len(dealt) == st.CurrentDeckPosition && st.CurrentDeckPosition <= len(gs.Meta.Deck)
		if okPrefix {
			for i, card := range dealt {
				if gs.Meta.Deck[i] != card {
					okPrefix = false
				}
			}
		}
		if !okPrefix {
			m.V("C14", "dealt_is_prefix", fmt.Sprintf("hole+burn/board %v is not the consumed top %d of the deck %v", dealt, st.CurrentDeckPosition, gs.Meta.Deck))
		}
		seen := map[string]bool{}
		for _, card := range dealt {
			if seen[card] {
				m.V("C14", "no_duplicates", "card dealt twice: "+card)
			}
			seen[card] = true
		}
		if pre != nil {
			stable := len(pre.Meta.Deck) == len(gs.Meta.Deck)
			for i := 0; stable && i < len(pre.Meta.Deck); i++ {
				stable = pre.Meta.Deck[i] == gs.Meta.Deck[i]
			}
			for i, p := range pre.Players {
				if len(p.HoleCards) > 0 && strings.Join(p.HoleCards, ",") != strings.Join(gs.Players[i].HoleCards, ",") {
					stable = false
				}
			}
			if len(st.Board) < len(pre.Status.Board) || strings.Join(st.Board[:len(pre.Status.Board)], ",") != strings.Join(pre.Status.Board, ",") {
				stable = false
			}
			if len(st.Burned) < len(pre.Status.Burned) || strings.Join(st.Burned[:len(pre.Status.Burned)], ",") != strings.Join(pre.Status.Burned, ",") {
				stable = false
			}
			if !stable {
				m.V("C14", "cards_stable", "cards already dealt (or the deck) changed during "+opLine)
			}
		}
		if len(st.Board) != m.lastBoard {
			o.Mark("C14", fmt.Sprintf("%d/%d/%d/%s", n, c.hole, len(st.Board), strings.Join(dealt, "")))
		}
	}

	// ---------- C10 reported hands, whenever the board changed ----------
	if len(st.Board) != m.lastBoard {
		m.lastBoard = len(st.Board)
		if len(st.Board) >= 3 {
			for _, p := range gs.Players {
				if p.Combination != nil {
					checkBest(o, c.table, c.req, p.HoleCards, st.Board, p.Combination)
				}
			}
		}
	}
}

func allowedOf(gs *pokerface.GameState) string {
	xs := []string{}
	for _, p := range gs.Players {
		xs = append(xs, fmt.Sprintf("%d:%s", p.Idx, joinList(p.AllowedActions, "|")))
	}
	return strings.Join(xs, " ")
}

// ---------- C15: a redacted view against the unredacted state ----------

func checkView(o *Out, full, v *pokerface.GameState, viewer int) {
	who := "observer"
	if viewer >= 0 {
		who = fmt.Sprintf("seat %d", viewer)
	}
	if len(v.Meta.Deck) != 0 {
		o.Violate("C15", "deck_hidden", who+" sees the deck")
	}
	if len(v.Status.Burned) != 0 {
		o.Violate("C15", "burned_hidden", who+" sees burned cards")
	}
	closed := full.Status.CurrentEvent == "GameClosed"
	// every card string in the JSON of the view must be public or the viewer's own
	for i, p := range v.Players {
		fp := full.Players[i]
		own := fp.Idx == viewer
		mustHide := !own && (!closed || fp.Fold)
		if mustHide {
			if len(p.HoleCards) != 0 || p.Combination != nil {
				o.Violate("C15", "others_hidden", fmt.Sprintf("%s sees hole cards / evaluation of seat %d (closed=%v fold=%v)", who, fp.Idx, closed, fp.Fold))
			}
		} else if own || closed {
			if strings.Join(p.HoleCards, ",") != strings.Join(fp.HoleCards, ",") {
				o.Violate("C15", "own_kept", fmt.Sprintf("%s: hole cards of seat %d changed", who, fp.Idx))
			}
			if (p.Combination == nil) != (fp.Combination == nil) || (p.Combination != nil && (p.Combination.Type != fp.Combination.Type || p.Combination.Power != fp.Combination.Power || strings.Join(p.Combination.Cards, ",") != strings.Join(fp.Combination.Cards, ","))) {
				o.Violate("C15", "own_kept", fmt.Sprintf("%s: evaluation of seat %d changed", who, fp.Idx))
			}
		}
	}
	// public information unchanged: compare the JSON with the secret parts blanked on both sides
	a, b := copyState(full), copyState(v)
	for _, s := range []*pokerface.GameState{a, b} {
		s.Meta.Deck = nil
		s.Status.Burned = nil
		for _, p := range s.Players {
			p.HoleCards = nil
			p.Combination = nil
		}
	}
	if canonJSON(a) != canonJSON(b) {
		o.Violate("C15", "public_kept", who+": public information differs from the unredacted state")
	}
	// generic leak scan: no hidden card may appear anywhere in the view's JSON
	js := canonJSON(v)
	hidden := map[string]bool{}
	for i := full.Status.CurrentDeckPosition; i < len(full.Meta.Deck); i++ {
		hidden[full.Meta.Deck[i]] = true
	}
	for _, cd := range full.Status.Burned {
		hidden[cd] = true
	}
	for _, p := range full.Players {
		if p.Idx != viewer && (!closed || p.Fold) {
			for _, cd := range p.HoleCards {
				hidden[cd] = true
			}
		}
	}
	for cd := range hidden {
		if strings.Contains(js, "\""+cd+"\"") {
			o.Violate("C15", "leak_scan", fmt.Sprintf("%s: hidden card %s appears in the view", who, cd))
			break
		}
	}
	o.Mark("C15", fmt.Sprintf("%s/%d/%v/%d", full.Status.CurrentEvent, viewer, closed, len(full.Status.Board)))
}
