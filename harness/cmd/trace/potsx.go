package main

import "fmt"

// potsx: small-scope exhaustive pot / settlement vectors for the thorough tier: every vector of
// (contribution, folded | strength) over a small alphabet for 2..6 players, given directly to the
// pot and settlement packages (same execPots as the random component: correspondence line,
// C16 / C02 / C01 monitors, insertion-order independence).
func runPotsExhaustive(dir string, part, parts int) {
	o := NewOut(dir, "potsx")
	type scope struct {
		n       int
		contrib []int64
		scores  []int64
	}
	scopes := []scope{
		{2, []int64{0, 1, 2, 3, 4, 5, 7}, []int64{1, 2, 3}},
		{3, []int64{0, 1, 2, 3, 4, 5, 7}, []int64{1, 2, 3}},
		{4, []int64{0, 1, 2, 3, 5}, []int64{1, 2, 3}},
		{5, []int64{0, 1, 2, 3, 5}, []int64{1, 2, 3}},
		{6, []int64{0, 1, 2, 3}, []int64{1, 2}},
		{7, []int64{1, 2}, []int64{1, 2}},
	}
	cnt := 0
	for _, sc := range scopes {
		per := len(sc.contrib) * (1 + len(sc.scores))
		total := 1
		for i := 0; i < sc.n; i++ {
			total *= per
		}
		for code := 0; code < total; code++ {
			cnt++
			if cnt%parts != part {
				continue
			}
			es := make([]entry, sc.n)
			c := code
			for i := 0; i < sc.n; i++ {
				d := c % per
				c /= per
				ci, si := d%len(sc.contrib), d/len(sc.contrib)
				e := entry{idx: i, contrib: sc.contrib[ci]}
				if si == 0 {
					e.fold = true
				} else {
					e.score = sc.scores[si-1]
				}
				es[i] = e
			}
			execPots(o, es)
			o.Count(fmt.Sprintf("potsx.n%d", sc.n))
			o.Count("potsx.vectors")
		}
	}
	o.Close(dir, "potsx", 0)
}
