package main

import (
	"crypto/sha1"
	"fmt"

	"github.com/weedbox/pokerface"
)

// runEngineExhaustive: small-scope exhaustive correspondence for the hand engine (thorough
// tier).  For every tiny configuration (2-3 seats, stacks 1..6, blinds 1/2 (also dead small blind and a dealer blind), ante 0/1, a normal
// and an everybody-ties deck) EVERY play is enumerated: at each wait point the expected table
// operation, at each decision every offered action with every amount of a small set around the
// thresholds (1, 2, minimum raise, minimum raise + 1, one more than the wager, the stack).  The
// enumeration is a replay-based depth-first search over choice indices (no state cloning).  At
// every state seen for the first time all illegal operations are probed as well.
func engxOptions(gs *pokerface.GameState) []opSpec {
	st := &gs.Status
	switch st.CurrentEvent {
	case "ReadyRequested":
		return []opSpec{{kind: "ready", seat: -1}}
	case "AnteRequested":
		return []opSpec{{kind: "ante", seat: -1}}
	case "BlindsRequested":
		return []opSpec{{kind: "blinds", seat: -1}}
	case "RoundClosed":
		return []opSpec{{kind: "next", seat: -1}}
	case "RoundStarted":
		p := gs.Players[st.CurrentPlayer]
		var ops []opSpec
		for _, a := range p.AllowedActions {
			switch a {
			case "bet":
				seen := map[int64]bool{}
				for _, x := range []int64{1, 2, p.StackSize} {
					if !seen[x] {
						seen[x] = true
						ops = append(ops, opSpec{kind: "act", seat: -1, act: "bet", x: x})
					}
				}
			case "raise":
				seen := map[int64]bool{}
				for _, x := range []int64{st.CurrentWager + st.PreviousRaiseSize, st.CurrentWager + st.PreviousRaiseSize + 1, st.CurrentWager + 1, p.InitialStackSize} {
					if !seen[x] {
						seen[x] = true
						ops = append(ops, opSpec{kind: "act", seat: -1, act: "raise", x: x})
					}
				}
			default:
				ops = append(ops, opSpec{kind: "act", seat: -1, act: a})
			}
		}
		return ops
	}
	return nil
}

func runEngineExhaustive(dir string, part, parts int) {
	o := NewOut(dir, "engx")
	wdWatch(o, dir, "engx", uint64(part))
	seenState := map[[20]byte]bool{}
	tieBoard := []string{"ST", "HJ", "DQ", "CK", "SA"}
	base := pokerface.NewStandardDeckCards()
	cfgIdx := 0
	for _, n := range []int{2, 3, 4} {
		stackSets := [][]int64{}
		vals := []int64{1, 2, 3, 4, 5, 6}
		if n == 3 {
			vals = []int64{1, 2, 3, 5}
		}
		if n == 4 {
			vals = []int64{1, 2, 4}
		}
		var rec func(cur []int64)
		rec = func(cur []int64) {
			if len(cur) == n {
				stackSets = append(stackSets, append([]int64{}, cur...))
				return
			}
			for _, v := range vals {
				rec(append(cur, v))
			}
		}
		rec(nil)
		for _, stacks := range stackSets {
			for _, ante := range []int64{0, 1} {
				for _, blinds := range [][3]int64{{1, 2, 0}, {0, 2, 0}, {1, 2, 3}} {
					for _, tie := range []bool{false, true} {
						cfgIdx++
						if cfgIdx%parts != part {
							continue
						}
						c := &handCfg{ante: ante, sb: blinds[0], bb: blinds[1], bd: blinds[2], limit: "no", hole: 2, req: 0, burn: 1, table: "std", bank: stacks, pos: make([]string, n)}
						if n == 2 {
							c.pos[0], c.pos[1] = "ds", "b"
						} else {
							c.pos[0], c.pos[1], c.pos[2] = "d", "s", "b"
						}
						for i := 3; i < n; i++ {
							c.pos[i] = ""
						}
						c.deck = append([]string{}, base...)
						if tie {
							pos := []int{n*2 + 1, n*2 + 2, n*2 + 3, n*2 + 5, n*2 + 7}
							for k, w := range tieBoard {
								for i, cd := range c.deck {
									if cd == w {
										c.deck[i], c.deck[pos[k]] = c.deck[pos[k]], c.deck[i]
									}
								}
							}
						}
						line := c.line()
						// replay-based DFS over choice indices
						choice := []int{}
						paths := 0
						for {
							h := startHand(o, line, false)
							depth := 0
							counts := []int{}
							for !h.dead && depth < 60 {
								gs := h.g.GetState()
								key := sha1.Sum([]byte(canonJSON(gs)))
								if !seenState[key] {
									seenState[key] = true
									probeAll(h)
									o.Count("engx.states")
								}
								opts := engxOptions(gs)
								if len(opts) == 0 {
									break
								}
								if depth >= len(choice) {
									choice = append(choice, 0)
								}
								counts = append(counts, len(opts))
								h.exec(opts[choice[depth]])
								depth++
							}
							paths++
							o.Count("engx.paths")
							// next choice vector
							choice = choice[:depth]
							k := depth - 1
							for k >= 0 {
								choice[k]++
								if choice[k] < counts[k] {
									break
								}
								k--
							}
							if k < 0 || paths >= 30000 {
								if paths >= 30000 {
									o.Count("engx.budget_exhausted")
								}
								break
							}
							choice = choice[:k+1]
						}
						o.Count("engx.configs")
					}
				}
			}
		}
	}
	o.Sample(fmt.Sprintf("every play of every configuration with 2-3 seats, stacks 1..6, blinds 1/2 (also dead small blind and a dealer blind), ante 0/1 (part %d/%d): %d configs, %d plays, %d distinct states probed",
		part, parts, o.Stats["engx.configs"], o.Stats["engx.paths"], o.Stats["engx.states"]))
	o.Close(dir, "engx", uint64(part))
}
