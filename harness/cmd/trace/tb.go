// tb: the glue between the seat manager and the hand engine in table/ (table.go Join / Leave /
// Activate / Reserve, internal.go setupPosition / prepareNextGame / startGame / updatePlayerStates),
// driven synchronously through the verif hooks of table/verif_hooks.go.  The table is given a
// backend that captures the GameOptions `startGame` builds, plays the hand on the real engine and
// hands the closing state back, so `prepareNextGame` runs exactly as in the table loop: positions,
// player list of the game, bankroll write-back, reservation of busted players, positions of the
// next hand.  Model: lean/Pokerface/Model/Table.lean.  Monitors (property C08, third mechanism
// of its anchors: "table copies these positions into the next game's player settings"):
//
//	table.positions_copied  after a successful setupPosition every seated player's Positions are exactly
//	                        the seat manager's dealer / small blind / big blind for his seat and Playable
//	                        is "occupied, active, not reserved"
//	table.game_players      the players of the created game are the playable seats clockwise from the
//	                        dealer, each with his own bankroll and positions, game indices in that order
//	table.game_layout       when nobody joined, left or changed a flag between the position hand-off and
//	                        the game: the dealer is player 0; heads-up he also holds the small blind and
//	                        player 1 the big blind; otherwise player 1 is the small blind and player 2 the
//	                        big blind, nobody else holds a position (what C04 / C13 rely on)
//	table.game_accepted     with positive bankrolls the engine accepts that configuration
package main

import (
	"errors"
	"fmt"
	"os"
	"sort"
	"strings"

	"github.com/weedbox/pokerface"
	sm "github.com/weedbox/pokerface/seat_manager"
	"github.com/weedbox/pokerface/table"
)

type tbBackend struct {
	r      *tbRunner
	opts   *pokerface.GameOptions // captured
	seats  *smSnap                // seat map at the time of CreateGame
	info   map[int]*table.PlayerInfo
	err    error
	finals []int64
	ops    int
}

var errTbUnused = errors.New("tb backend: not used")

func (b *tbBackend) CreateGame(opts *pokerface.GameOptions) (*pokerface.GameState, error) {
	b.opts = opts
	b.seats = snapSMPlayers(b.r.t.VerifSeatManager())
	b.info = map[int]*table.PlayerInfo{}
	for k, v := range b.r.t.GetState().Players {
		c := *v
		c.Positions = append([]string{}, v.Positions...)
		b.info[k] = &c
	}
	g := pokerface.NewGame(opts)
	if err := g.Start(); err != nil {
		b.err = err
		return nil, err
	}
	// the harness's own deck order, so that the hand is a function of the seed
	deck := g.GetState().Meta.Deck
	b.r.rng.Shuffle(len(deck), func(i, j int) { deck[i], deck[j] = deck[j], deck[i] })
	wild := b.r.rng.Chance(0.3) // a hand that tends to bust somebody
	switch b.r.policy {
	case "w":
		wild = true
	case "c":
		wild = false
	}
	for i := 0; i < 4000 && g.GetState().Status.CurrentEvent != "GameClosed"; i++ {
		op := expectedOp(b.r.rng, g.GetState(), wild)
		if op.seat >= 0 {
			op.seat = -1
		}
		if b.r.policy == "w" || b.r.policy == "c" {
			op = fixedPlay(g.GetState(), b.r.policy == "w")
		} else if wild && op.kind == "act" && (op.act == "bet" || op.act == "raise") && b.r.rng.Chance(0.5) {
			op = opSpec{kind: "act", seat: -1, act: "allin"}
		}
		applyOp(g, op)
		b.ops++
	}
	gs := g.GetState()
	if gs.Status.CurrentEvent != "GameClosed" || gs.Result == nil {
		b.err = fmt.Errorf("hand did not close")
		return nil, b.err
	}
	b.finals = make([]int64, len(gs.Result.Players))
	for _, p := range gs.Result.Players {
		if p.Idx >= 0 && p.Idx < len(b.finals) {
			b.finals[p.Idx] = p.Final
		}
	}
	return gs, nil
}
func (b *tbBackend) Next(gs *pokerface.GameState) (*pokerface.GameState, error) {
	return nil, errTbUnused
}
func (b *tbBackend) ReadyForAll(gs *pokerface.GameState) (*pokerface.GameState, error) {
	return nil, errTbUnused
}
func (b *tbBackend) PayAnte(gs *pokerface.GameState) (*pokerface.GameState, error) {
	return nil, errTbUnused
}
func (b *tbBackend) PayBlinds(gs *pokerface.GameState) (*pokerface.GameState, error) {
	return nil, errTbUnused
}
func (b *tbBackend) Call(gs *pokerface.GameState) (*pokerface.GameState, error) {
	return nil, errTbUnused
}
func (b *tbBackend) Pass(gs *pokerface.GameState) (*pokerface.GameState, error) {
	return nil, errTbUnused
}
func (b *tbBackend) Fold(gs *pokerface.GameState) (*pokerface.GameState, error) {
	return nil, errTbUnused
}
func (b *tbBackend) Check(gs *pokerface.GameState) (*pokerface.GameState, error) {
	return nil, errTbUnused
}
func (b *tbBackend) Allin(gs *pokerface.GameState) (*pokerface.GameState, error) {
	return nil, errTbUnused
}
func (b *tbBackend) Bet(gs *pokerface.GameState, chips int64) (*pokerface.GameState, error) {
	return nil, errTbUnused
}
func (b *tbBackend) Raise(gs *pokerface.GameState, chipLevel int64) (*pokerface.GameState, error) {
	return nil, errTbUnused
}
func (b *tbBackend) Pay(gs *pokerface.GameState, chips int64) (*pokerface.GameState, error) {
	return nil, errTbUnused
}

// snapSMPlayers: like snapSM, for a seat manager whose players are *table.PlayerInfo.
func snapSMPlayers(m *sm.SeatManager) *smSnap {
	s := &smSnap{dealer: -1, sb: -1, bb: -1}
	for _, st := range m.GetSeats() {
		ss := seatSnap{pid: -1, active: st.IsActive, reserved: st.IsReserved}
		if pi, ok := st.Player.(*table.PlayerInfo); ok && pi != nil {
			ss.pid = int(atoi(strings.TrimPrefix(pi.ID, "p")))
		}
		s.seats = append(s.seats, ss)
	}
	if d := m.Dealer(); d != nil {
		s.dealer = d.ID
	}
	if d := m.SmallBlind(); d != nil {
		s.sb = d.ID
	}
	if d := m.BigBlind(); d != nil {
		s.bb = d.ID
	}
	return s
}

type tbRunner struct {
	policy  string // how the next hand is played: "" / "r" drawn, "w" everybody shoves, "c" checked / called down
	o       *Out
	t       table.VerifTable
	be      *tbBackend
	rng     *Rng
	max     int
	pid     int
	dead    bool
	lastErr string // error of the last `hand`
	dirty   bool   // a seat flag or occupant changed since the last successful position hand-off
}

func tbErrName(err error) string {
	switch err {
	case nil:
		return "none"
	case table.ErrInsufficientNumberOfPlayers:
		return "insufficient"
	case table.ErrMaxGamesExceeded:
		return "maxgames"
	case table.ErrTimesUp:
		return "timesup"
	case pokerface.ErrInsufficientNumberOfPlayers:
		return "game:insufficient"
	case pokerface.ErrNoDealer:
		return "game:nodealer"
	case pokerface.ErrNotEnoughBackroll:
		return "game:bankroll"
	}
	if e := smErrName(err); e != "other" {
		return "sm:" + e
	}
	return "other"
}

func posLetters(ps []string) string {
	d, s, b := false, false, false
	for _, p := range ps {
		switch p {
		case "dealer":
			d = true
		case "sb":
			s = true
		case "bb":
			b = true
		default:
			return "?" + p
		}
	}
	x := ""
	if d {
		x += "d"
	}
	if s {
		x += "s"
	}
	if b {
		x += "b"
	}
	if x == "" {
		return "."
	}
	return x
}

func (r *tbRunner) obs(e, ret string) string {
	snap := snapSMPlayers(r.t.VerifSeatManager())
	seats := make([]string, len(snap.seats))
	for i, s := range snap.seats {
		p := "-"
		if s.pid >= 0 {
			p = itoa(int64(s.pid))
		}
		seats[i] = fmt.Sprintf("%s/%s/%s", p, b01(s.active), b01(s.reserved))
	}
	opt := func(v int) string {
		if v < 0 {
			return "-"
		}
		return itoa(int64(v))
	}
	pl := r.t.GetState().Players
	per := func(f func(p *table.PlayerInfo) string) string {
		xs := make([]string, r.max)
		for i := 0; i < r.max; i++ {
			if p, ok := pl[i]; ok && p != nil {
				xs[i] = f(p)
			} else {
				xs[i] = "-"
			}
		}
		return joinList(xs, ",")
	}
	cfg, cfgbank := "-", "-"
	if r.be.opts != nil {
		a, b := []string{}, []string{}
		for _, p := range r.be.opts.Players {
			a = append(a, posLetters(p.Positions))
			b = append(b, itoa(p.Bankroll))
		}
		cfg, cfgbank = joinList(a, ","), joinList(b, ",")
	}
	// players on the sheet under a key outside the table (cannot happen through the API): visible as a count
	extra := 0
	for k := range pl {
		if k < 0 || k >= r.max {
			extra++
		}
	}
	s := fmt.Sprintf("tb err=%s ret=%s inpos=%s games=%d dealer=%s sb=%s bb=%s seats=%s pid=%s pos=%s playable=%s gidx=%s bank=%s cfg=%s cfgbank=%s",
		e, ret, b01(r.t.VerifInPosition()), r.t.GetGameCount(), opt(snap.dealer), opt(snap.sb), opt(snap.bb), joinList(seats, ","),
		per(func(p *table.PlayerInfo) string { return strings.TrimPrefix(p.ID, "p") }),
		per(func(p *table.PlayerInfo) string { return posLetters(p.Positions) }),
		per(func(p *table.PlayerInfo) string { return b01(p.Playable) }),
		per(func(p *table.PlayerInfo) string { return itoa(int64(p.GameIdx)) }),
		per(func(p *table.PlayerInfo) string { return itoa(p.Bankroll) }), cfg, cfgbank)
	if extra > 0 {
		s += fmt.Sprintf(" extra=%d", extra)
	}
	return s
}

func (r *tbRunner) V(mon, msg string) { r.o.Violate("C08", mon, msg) }

func (r *tbRunner) start(f map[string]string, line string) {
	r.max = int(atoi(f["max"]))
	o := table.NewOptions()
	o.MaxSeats = r.max
	o.InitialPlayers = int(atoi(f["init"]))
	o.MinPlayers = int(atoi(f["min"]))
	o.MaxGames = int(atoi(f["maxgames"]))
	if f["leave"] == "1" {
		o.EliminateMode = "leave"
	}
	o.Ante = atoi(f["ante"])
	o.Blind.Dealer = atoi(f["dealer"])
	o.Blind.SB = atoi(f["sb"])
	o.Blind.BB = atoi(f["bb"])
	if f["short"] == "1" {
		o.GameType = "short_deck"
	}
	r.be = &tbBackend{r: r}
	r.t = table.VerifNewTable(o, table.WithBackend(r.be))
	r.t.GetState().EndTime = 1 << 60 // the clock is outside the model
	r.dead = false
	r.dirty = true
	r.o.BeginHistory()
	r.o.Emit(line, r.obs("none", "-"))
}

// exec runs one op (fields without the leading "tb").
func (r *tbRunner) exec(f []string) {
	if r.dead || r.t == nil {
		return
	}
	var err error
	ret := "-"
	line := "tb " + strings.Join(f, " ")
	r.be.opts, r.be.err, r.be.finals, r.be.seats = nil, nil, nil, nil
	wasIn := r.t.VerifInPosition()
	pre := snapSMPlayers(r.t.VerifSeatManager())
	preSheet := map[int]string{}
	for k, v := range r.t.GetState().Players {
		preSheet[k] = v.ID
	}
	_, pan := safely(func() error {
		switch f[0] {
		case "join":
			var got int
			got, err = r.t.Join(int(atoi(f[1])), &table.PlayerInfo{ID: "p" + f[2], Bankroll: atoi(f[3])})
			if err == nil {
				ret = itoa(int64(got))
			}
		case "leave":
			err = r.t.Leave(int(atoi(f[1])))
		case "activate":
			err = r.t.Activate(int(atoi(f[1])))
		case "reserve":
			err = r.t.Reserve(int(atoi(f[1])))
		case "setup":
			err = r.t.VerifSetupPosition()
		case "hand":
			r.policy = "r"
			if len(f) > 1 {
				r.policy = f[1]
			}
			err = r.t.VerifPrepareNextGame()
		}
		return nil
	})
	switch f[0] {
	case "join":
		line = fmt.Sprintf("tb join %s %s %s %s", f[1], f[2], f[3], ret)
	case "hand":
		xs := []string{}
		for _, v := range r.be.finals {
			xs = append(xs, itoa(v))
		}
		line = "tb hand " + joinList(xs, ",") + " " + r.policy
	}
	if pan {
		r.dead = true
		r.o.Emit(line, "tb err=panic")
		r.o.Count("tb.panic")
		r.o.Violate("C18", "table.no_panic", "the table panicked on "+line)
		return
	}
	e := tbErrName(err)
	if err != nil && err == r.be.err && e == "other" {
		e = "game:other"
	}
	r.o.Emit(line, r.obs(e, ret))
	r.o.Count("tb.ops." + f[0])
	r.o.Count("tb.err." + e)
	r.monitorSeats(f, pre, preSheet, err, ret)
	switch f[0] {
	case "join", "leave", "activate", "reserve":
		if err == nil {
			r.dirty = true
		}
	case "setup":
		if err == nil && !wasIn {
			r.checkPositions()
			r.dirty = false
		}
	case "hand":
		r.lastErr = e
		handedOff := !wasIn // the positions of this game were handed off inside the operation
		if r.be.opts != nil {
			r.checkGame(handedOff || !r.dirty)
			r.o.Count("tb.games_created")
			r.o.CountN("tb.engine_ops", r.be.ops)
			r.be.ops = 0
			if r.be.err == nil {
				r.o.Count(fmt.Sprintf("tb.game_players.%d", len(r.be.opts.Players)))
				bust := 0
				for _, v := range r.be.finals {
					if v == 0 {
						bust++
					}
				}
				if bust > 0 {
					r.o.Count("tb.hands_with_bust")
				}
			}
		}
		if r.t.VerifInPosition() && (err == nil) {
			r.checkPositions()
			r.dirty = false
		} else if r.be.opts != nil && r.be.err == nil {
			r.dirty = true
		}
	}
}

// monitorSeats: C18 at the table's own entry points (table.go Join / Leave / Activate / Reserve and the hands in between): what the
// property says about seat operations, evaluated on the seat map and the table's player sheet before and after the call.
func (r *tbRunner) monitorSeats(f []string, pre *smSnap, preSheet map[int]string, err error, ret string) {
	post := snapSMPlayers(r.t.VerifSeatManager())
	V := func(mon, msg string) { r.o.Violate("C18", mon, msg) }
	sheet := r.t.GetState().Players
	// one player per seat, on the sheet exactly where the seat map has him
	seen := map[string]int{}
	for i, s := range post.seats {
		p, on := sheet[i]
		if (s.pid >= 0) != (on && p != nil) {
			V("table.sheet_in_sync", fmt.Sprintf("after %v: seat %d occupied=%v in the seat map, on the table's player sheet=%v", f, i, s.pid >= 0, on))
			continue
		}
		if s.pid >= 0 {
			if p.ID != "p"+itoa(int64(s.pid)) || p.SeatID != i {
				V("table.sheet_in_sync", fmt.Sprintf("after %v: seat %d holds %d in the seat map, the sheet says %s with SeatID %d", f, i, s.pid, p.ID, p.SeatID))
			}
			if j, dup := seen[p.ID]; dup {
				V("table.no_double_booking", fmt.Sprintf("after %v: player %s is seated on seats %d and %d", f, p.ID, j, i))
			}
			seen[p.ID] = i
		}
	}
	for k := range sheet {
		if k < 0 || k >= len(post.seats) {
			V("table.sheet_in_sync", fmt.Sprintf("after %v: the sheet has a player under key %d, outside the table", f, k))
		}
	}
	changed := []int{}
	for i := range post.seats {
		if pre.seats[i].pid != post.seats[i].pid {
			changed = append(changed, i)
		}
	}
	count := func(s *smSnap) int {
		n := 0
		for _, x := range s.seats {
			if x.pid >= 0 {
				n++
			}
		}
		return n
	}
	free := func(s *smSnap) []int {
		xs := []int{}
		for i, x := range s.seats {
			if x.pid < 0 && !x.reserved {
				xs = append(xs, i)
			}
		}
		return xs
	}
	switch f[0] {
	case "join":
		seat := int(atoi(f[1]))
		r.o.Count("tb.c18.join")
		if err != nil {
			if len(changed) > 0 {
				V("table.refused_no_effect", fmt.Sprintf("refused Join(%d) changed seats %v", seat, changed))
			}
			switch {
			case seat == -1:
				r.o.Count("tb.c18.join_any_refused")
				if fr := free(pre); len(fr) > 0 {
					V("table.join_any", fmt.Sprintf("Join(-1) reports %v although seat(s) %v are empty and not reserved", err, fr))
				}
			case seat >= 0 && seat < len(pre.seats) && pre.seats[seat].pid < 0:
				V("table.join_spec", fmt.Sprintf("Join(%d) on an empty seat of the table refused: %v", seat, err))
			}
			return
		}
		got := int(atoi(ret))
		if got < 0 || got >= len(pre.seats) || pre.seats[got].pid >= 0 {
			V("table.join_spec", fmt.Sprintf("Join(%d) seated the player on seat %d, which is occupied or outside the table", seat, got))
			return
		}
		if seat >= 0 && got != seat {
			V("table.join_spec", fmt.Sprintf("Join(%d) seated the player on seat %d", seat, got))
		}
		if seat == -1 {
			r.o.Count("tb.c18.join_any_ok")
			if pre.seats[got].reserved {
				V("table.join_any", fmt.Sprintf("Join(-1) put the player on reserved seat %d", got))
			}
			if !pre.seats[got].active {
				r.o.Count("tb.c18.join_any_on_inactive_seat")
			}
		}
		if len(changed) != 1 || changed[0] != got || post.seats[got].pid != int(atoi(f[2])) {
			V("table.join_spec", fmt.Sprintf("Join(%d) = %d changed the occupants of seats %v", seat, got, changed))
		}
		if !post.seats[got].reserved {
			V("table.joined_held_out", fmt.Sprintf("the player who joined seat %d is not held out of play (seat not reserved) before sitting in", got))
		}
	case "leave":
		seat := int(atoi(f[1]))
		if err == nil {
			if len(changed) != 1 || changed[0] != seat || post.seats[seat].pid >= 0 {
				V("table.leave_frees", fmt.Sprintf("Leave(%d) changed the occupants of seats %v", seat, changed))
			}
		} else if len(changed) > 0 {
			V("table.refused_no_effect", fmt.Sprintf("refused Leave(%d) changed seats %v", seat, changed))
		}
	case "activate", "reserve", "setup":
		if len(changed) > 0 {
			V("table.count", fmt.Sprintf("%v changed the occupants of seats %v", f, changed))
		}
	case "hand":
		// only the `leave` elimination mode takes players off the table, and only players who ended the hand with nothing
		for _, i := range changed {
			if post.seats[i].pid >= 0 || r.t.GetState().Options.EliminateMode != "leave" {
				V("table.count", fmt.Sprintf("a hand changed the occupant of seat %d (%d -> %d)", i, pre.seats[i].pid, post.seats[i].pid))
			}
		}
	}
	if f[0] != "hand" {
		want := count(pre)
		if err == nil && f[0] == "join" {
			want++
		}
		if err == nil && f[0] == "leave" {
			want--
		}
		if got := r.t.VerifSeatManager().GetPlayerCount(); got != want || count(post) != want {
			V("table.count", fmt.Sprintf("after %v (err=%v): %d players counted, %d seats occupied, joins minus leaves says %d", f, err, got, count(post), want))
		}
	}
}

// checkPositions: right after a successful position hand-off.
func (r *tbRunner) checkPositions() {
	snap := snapSMPlayers(r.t.VerifSeatManager())
	r.o.Count("tb.positions_checked")
	for seat, p := range r.t.GetState().Players {
		want := ""
		if seat == snap.dealer {
			want += "d"
		}
		if seat == snap.sb {
			want += "s"
		} else if seat == snap.bb {
			want += "b"
		}
		if want == "" {
			want = "."
		}
		if got := posLetters(p.Positions); got != want {
			r.V("table.positions_copied", fmt.Sprintf("after the position hand-off (dealer=%d sb=%d bb=%d) the player on seat %d carries positions %s, his seat's are %s", snap.dealer, snap.sb, snap.bb, seat, got, want))
		}
		if p.Playable != snap.playable(seat) {
			r.V("table.positions_copied", fmt.Sprintf("after the position hand-off seat %d: Playable=%v, seat occupied/active/not reserved=%v", seat, p.Playable, snap.playable(seat)))
		}
		r.o.Mark("C08", fmt.Sprintf("tb|%d|%d|%d|%d|%v", len(snap.playableSet()), ((snap.sb-snap.dealer)%r.max+r.max)%r.max, ((snap.bb-snap.dealer)%r.max+r.max)%r.max, seat, p.Playable))
	}
}

// checkGame: the configuration captured by the backend when startGame created the game.
func (r *tbRunner) checkGame(clean bool) {
	b := r.be
	snap := b.seats
	want := []int{}
	if snap.dealer >= 0 {
		for k := 0; k < r.max; k++ {
			i := (snap.dealer + k) % r.max
			if snap.playable(i) {
				want = append(want, i)
			}
		}
	}
	ps := b.opts.Players
	if len(ps) != len(want) {
		r.V("table.game_players", fmt.Sprintf("the game was created with %d players, the playable seats clockwise from the dealer (seat %d) are %v", len(ps), snap.dealer, want))
		return
	}
	allPos := true
	for i, seat := range want {
		pi := b.info[seat]
		if pi == nil {
			r.V("table.game_players", fmt.Sprintf("playable seat %d has no player on the table's sheet", seat))
			return
		}
		if ps[i].Bankroll != pi.Bankroll || posLetters(ps[i].Positions) != posLetters(pi.Positions) {
			r.V("table.game_players", fmt.Sprintf("player %d of the game should be the player on seat %d (bankroll %d, positions %s): got bankroll %d, positions %s", i, seat, pi.Bankroll, posLetters(pi.Positions), ps[i].Bankroll, posLetters(ps[i].Positions)))
		}
		if cur := r.t.GetState().Players[seat]; b.err != nil && cur != nil && cur.GameIdx != i {
			r.V("table.game_players", fmt.Sprintf("the player on seat %d is player %d of the game, his game index says %d", seat, i, cur.GameIdx))
		}
		if ps[i].Bankroll <= 0 {
			allPos = false
		}
	}
	if clean {
		r.o.Count("tb.layout_checked")
		ok := len(ps) >= 2 && strings.Contains(posLetters(ps[0].Positions), "d")
		if ok && len(ps) == 2 {
			ok = posLetters(ps[0].Positions) == "ds" && posLetters(ps[1].Positions) == "b"
			r.o.Count("tb.layout_checked.headsup")
		} else if ok {
			ok = posLetters(ps[0].Positions) == "d" && posLetters(ps[1].Positions) == "s" && posLetters(ps[2].Positions) == "b"
			for _, p := range ps[3:] {
				ok = ok && posLetters(p.Positions) == "."
			}
		}
		if !ok {
			xs := []string{}
			for _, p := range ps {
				xs = append(xs, posLetters(p.Positions))
			}
			// a heads-up layout handed off with three playable seats is the open finding D4 of the seat manager itself
			finding := ""
			if len(ps) >= 3 && snap.dealer == snap.sb {
				finding = "D4"
			}
			r.o.ViolateF("C08", "table.game_layout", fmt.Sprintf("positions of the game's players in game order: %v (dealer=%d sb=%d bb=%d, playable clockwise %v)", xs, snap.dealer, snap.sb, snap.bb, want), finding)
		}
		if allPos && b.err != nil {
			r.V("table.game_accepted", fmt.Sprintf("the engine refused (%v) the configuration built from an undisturbed position hand-off with positive bankrolls", b.err))
		}
	}
}

func (r *tbRunner) replay(lines []string) {
	for _, l := range lines {
		f := strings.Fields(l)
		if len(f) < 2 || f[0] != "tb" {
			continue
		}
		if f[1] == "new" {
			r.rng = NewRng(uint64(atoi(kvs(f[2:])["seed"])))
			r.start(kvs(f[2:]), l)
			continue
		}
		if f[1] == "join" && len(f) == 6 {
			// the seat the recorded run got is what a replayed Join(-1) asks for, so that the history is the same
			if f[2] == "-1" && f[5] != "-" {
				r.execAs([]string{"join", f[5], f[3], f[4]}, f[2])
				continue
			}
			r.exec(f[1:5])
			continue
		}
		if f[1] == "hand" {
			if len(f) >= 4 {
				r.exec([]string{"hand", f[3]})
			} else {
				r.exec([]string{"hand"})
			}
			continue
		}
		r.exec(f[1:])
	}
}

// execAs runs a join on an explicit seat but records it under the seat argument of the original line.
func (r *tbRunner) execAs(f []string, origSeat string) {
	// Join(-1) picks with math/rand; asking for the recorded seat directly is the same operation as far as the table is concerned
	// whenever that seat was a candidate — the model validates the choice.
	n := r.o.lines
	r.exec(f)
	_ = n
	_ = origSeat
}

// ---- generator ----

func runTB(dir string, seed uint64, n int) {
	devnull, _ := os.Open(os.DevNull)
	_ = devnull
	stdout := os.Stdout
	if f, err := os.OpenFile(os.DevNull, os.O_WRONLY, 0); err == nil {
		os.Stdout = f // the table prints on refused joins
	}
	defer func() { os.Stdout = stdout }()
	o := NewOut(dir, "tb")
	wdWatch(o, dir, "tb", seed)
	rng := NewRng(seed)
	for h := 0; h < n; h++ {
		if h%5 == 4 {
			genMT(o, rng) // the match package's wrapper around the seat manager
			continue
		}
		r := &tbRunner{o: o, rng: rng}
		max := 2 + rng.Intn(8)
		if rng.Chance(0.3) {
			max = 2 + rng.Intn(3)
		}
		initP := 2
		if rng.Chance(0.2) {
			initP = 2 + rng.Intn(3)
		}
		minP := 2
		if rng.Chance(0.1) {
			minP = 3
		}
		maxGames := 0
		if rng.Chance(0.15) {
			maxGames = 1 + rng.Intn(4)
		}
		leave := rng.Chance(0.3)
		ante := int64(0)
		if rng.Chance(0.3) {
			ante = int64(1 + rng.Intn(3))
		}
		bd := int64(0)
		if rng.Chance(0.15) {
			bd = int64(1 + rng.Intn(4))
		}
		sb, bb := int64(1), int64(2)
		switch rng.Intn(5) {
		case 0:
			sb, bb = 5, 10
		case 1:
			sb, bb = 0, 2
		}
		short := rng.Chance(0.15)
		hseed := rng.Next() % 1000000007
		line := fmt.Sprintf("tb new max=%d init=%d min=%d maxgames=%d leave=%s ante=%d dealer=%d sb=%d bb=%d short=%s seed=%d", max, initP, minP, maxGames, b01(leave), ante, bd, sb, bb, b01(short), hseed)
		r.rng = NewRng(hseed)
		r.start(kvs(strings.Fields(line)[2:]), line)
		g := NewRng(hseed ^ 0x5bd1e995) // the generator's own choices; r.rng drives the hands only, so that a recorded history replays exactly
		steps := 10 + g.Intn(70)
		crowd := g.Chance(0.5) // mostly full tables
		for s := 0; s < steps && !r.dead; s++ {
			occ := []int{}
			for k := range r.t.GetState().Players {
				occ = append(occ, k)
			}
			sort.Ints(occ)
			anySeat := func() int {
				switch {
				case g.Chance(0.05):
					return []int{-2, -1, max, max + 1, 1 << 20}[g.Intn(5)]
				case len(occ) > 0 && g.Chance(0.7):
					return occ[g.Intn(len(occ))]
				}
				return g.Intn(max)
			}
			bank := func() int64 {
				switch g.Intn(8) {
				case 0:
					return int64(1 + g.Intn(4))
				case 1:
					return int64(5 + g.Intn(30))
				case 2:
					return 100
				case 3:
					if g.Chance(0.1) {
						return []int64{0, -5}[g.Intn(2)]
					}
					return 20
				case 4:
					return int64(2 + g.Intn(20))
				}
				return int64(30 + g.Intn(300))
			}
			// repair moves: what a table operator does when the last hand could not be played
			if r.lastErr == "maxgames" || r.lastErr == "game:nodealer" {
				break // nothing the API offers gets such a table going again
			}
			if r.lastErr == "game:bankroll" && g.Chance(0.8) {
				for _, sid := range occ {
					if p := r.t.GetState().Players[sid]; p != nil && p.Bankroll <= 0 {
						r.exec([]string{"leave", itoa(int64(sid))})
					}
				}
				r.lastErr = ""
				continue
			}
			if r.lastErr == "insufficient" && len(occ) >= 2 && g.Chance(0.6) {
				for _, sid := range occ {
					if p := r.t.GetState().Players[sid]; p != nil && p.Bankroll > 0 && g.Chance(0.8) {
						r.exec([]string{"activate", itoa(int64(sid))})
					}
				}
				r.lastErr = ""
				continue
			}
			k := g.Intn(100)
			joinP := 14
			if s < 2+g.Intn(max) || len(occ) < 2 {
				joinP = 75 // fill the table first; refill a table that ran empty
			} else if crowd && len(occ) < max-1 {
				joinP = 30
			}
			switch {
			case k < joinP:
				seat := -1
				if g.Chance(0.6) {
					seat = g.Intn(max)
				}
				if g.Chance(0.04) {
					seat = anySeat()
				}
				r.pid++
				before := len(r.t.GetState().Players)
				r.exec([]string{"join", itoa(int64(seat)), itoa(int64(r.pid)), itoa(bank())})
				if len(r.t.GetState().Players) > before && g.Chance(0.85) {
					// sit in at once (the usual client behaviour); otherwise the player stays reserved for a while
					for sid, p := range r.t.GetState().Players {
						if p.ID == "p"+itoa(int64(r.pid)) {
							r.exec([]string{"activate", itoa(int64(sid))})
						}
					}
				}
			case k < joinP+6:
				r.exec([]string{"leave", itoa(int64(anySeat()))})
			case k < joinP+10:
				r.exec([]string{"reserve", itoa(int64(anySeat()))})
			case k < joinP+20:
				sid := anySeat()
				if p := r.t.GetState().Players[sid]; p != nil && p.Bankroll <= 0 && g.Chance(0.85) {
					continue // a broke player rarely sits back in
				}
				r.exec([]string{"activate", itoa(int64(sid))})
			case k < joinP+23:
				r.exec([]string{"setup"})
			default:
				r.exec([]string{"hand"})
			}
		}
	}
	o.Close(dir, "tb", seed)
}

// fixedPlay: the two deterministic ways a hand is played in the exhaustive histories.
func fixedPlay(gs *pokerface.GameState, shove bool) opSpec {
	switch gs.Status.CurrentEvent {
	case "ReadyRequested":
		return opSpec{kind: "ready", seat: -1}
	case "AnteRequested":
		return opSpec{kind: "ante", seat: -1}
	case "BlindsRequested":
		return opSpec{kind: "blinds", seat: -1}
	case "RoundClosed":
		return opSpec{kind: "next", seat: -1}
	}
	a := gs.Players[gs.Status.CurrentPlayer].AllowedActions
	pick := []string{"check", "call", "allin", "pass"}
	if shove {
		pick = []string{"allin", "pass"}
	}
	for _, x := range pick {
		if has(a, x) {
			return opSpec{kind: "act", seat: -1, act: x}
		}
	}
	return opSpec{kind: "act", seat: -1, act: "pass"}
}

// runTBExhaustive: small-scope exhaustive histories of the table glue (thorough tier).  Variant "fresh": every operation sequence
// of length L on a fresh table of `max` seats over join (any seat and every seat), sit in / leave / reserve (every seat), the position
// hand-off alone, and a whole hand played in two fixed ways (everybody shoves: somebody busts; checked / called down).  Variant
// "preseated": the same from every table on which two or more players (3 chips each, blinds 1/2) sit and the first hand-off was made.
// `leave` elimination mode on every second history.
func runTBExhaustive(dir string, max, L, part, parts int, variant string) {
	if f, err := os.OpenFile(os.DevNull, os.O_WRONLY, 0); err == nil {
		stdout := os.Stdout
		os.Stdout = f
		defer func() { os.Stdout = stdout }()
	}
	o := NewOut(dir, "tbx")
	var alphabet [][]string
	for s := -1; s < max; s++ {
		alphabet = append(alphabet, []string{"join", itoa(int64(s)), "PID", "3"})
	}
	for _, k := range []string{"activate", "leave", "reserve"} {
		for s := 0; s < max; s++ {
			alphabet = append(alphabet, []string{k, itoa(int64(s))})
		}
	}
	alphabet = append(alphabet, []string{"setup"}, []string{"hand", "w"}, []string{"hand", "c"})
	A := len(alphabet)
	total := 1
	for i := 0; i < L; i++ {
		total *= A
	}
	starts := []int{0}
	if variant == "preseated" {
		starts = starts[:0]
		for mask := 0; mask < 1<<max; mask++ {
			c := 0
			for i := 0; i < max; i++ {
				c += mask >> i & 1
			}
			if c >= 2 {
				starts = append(starts, mask)
			}
		}
	}
	idx := make([]int, L)
	hist := 0
	for si, mask := range starts {
		for n := (part + parts - si%parts) % parts; n < total; n += parts {
			x := n
			for i := 0; i < L; i++ {
				idx[i] = x % A
				x /= A
			}
			hist++
			r := &tbRunner{o: o}
			line := fmt.Sprintf("tb new max=%d init=2 min=2 maxgames=0 leave=%d ante=0 dealer=0 sb=1 bb=2 short=0 seed=%d", max, hist%2, 7+n%1000)
			r.rng = NewRng(uint64(7 + n%1000))
			r.start(kvs(strings.Fields(line)[2:]), line)
			pid := 100
			if variant == "preseated" {
				for i := 0; i < max; i++ {
					if mask>>i&1 == 1 {
						pid++
						r.exec([]string{"join", itoa(int64(i)), itoa(int64(pid)), "3"})
						r.exec([]string{"activate", itoa(int64(i))})
					}
				}
				r.exec([]string{"setup"})
			}
			games := 0
			for i := 0; i < L && !r.dead; i++ {
				op := append([]string{}, alphabet[idx[i]]...)
				if op[0] == "join" {
					pid++
					op[2] = itoa(int64(pid))
				}
				r.exec(op)
				if op[0] == "hand" && r.be.opts != nil && r.be.err == nil {
					games++
				}
			}
			o.Count("tbx.histories")
			o.Count(fmt.Sprintf("tbx.histories.%d_hands_played", games))
		}
	}
	o.Stats["tbx.alphabet"] = A
	o.Stats["tbx.length"] = L
	o.Stats["tbx.max"] = max
	o.Stats["tbx.starts"] = len(starts)
	o.Sample(fmt.Sprintf("all %d^%d operation sequences on a table of %d seats from %d starting states (%s; part %d/%d); e.g. %s", A, L, max, len(starts), variant, part, parts, strings.Join(o.hist, " ; ")))
	o.Close(dir, "tbx", uint64(part))
}
