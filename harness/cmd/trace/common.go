// trace: generators, implementation runner and monitors (K2 + S of DESIGN §2).
//
// Every component is an interpreter of input lines (the same lines the Lean
// driver replays) running the real code in-process, with a seeded generator on
// top that decides the next line from the implementation's current state.
package main

import (
	"encoding/json"
	"fmt"
	"os"
	"sort"
	"strings"
)

// ---- PRNG (splitmix64): every random choice of a run derives from VERIF_SEED ----

type Rng struct{ s uint64 }

func NewRng(seed uint64) *Rng { return &Rng{s: seed*0x9E3779B97F4A7C15 + 0x1234567} }

func (r *Rng) Next() uint64 {
	r.s += 0x9E3779B97F4A7C15
	z := r.s
	z = (z ^ (z >> 30)) * 0xBF58476D1CE4E5B9
	z = (z ^ (z >> 27)) * 0x94D049BB133111EB
	return z ^ (z >> 31)
}
func (r *Rng) Intn(n int) int {
	if n <= 0 {
		return 0
	}
	return int(r.Next() % uint64(n))
}
func (r *Rng) Chance(p float64) bool { return float64(r.Next()%1000000)/1000000.0 < p }
func (r *Rng) Pick(xs []int64) int64 { return xs[r.Intn(len(xs))] }
func (r *Rng) Shuffle(n int, swap func(i, j int)) {
	for i := n - 1; i > 0; i-- {
		j := r.Intn(i + 1)
		swap(i, j)
	}
}

// ---- output ----

type Violation struct {
	Property string   `json:"property"`
	Monitor  string   `json:"monitor"`
	Msg      string   `json:"msg"`
	Line     int      `json:"line"`              // 0-based index into the component's .in file
	History  []string `json:"history"`           // input lines from the start of the history to the failing line
	Finding  string   `json:"finding,omitempty"` // id of a known-findings predicate that recognises it
}

type Out struct {
	in, impl   *os.File
	lines      int
	histStart  int
	hist       []string
	Violations []Violation
	Stats      map[string]int
	Samples    []string
	Distinct   map[string]map[string]bool
	maxViol    int
}

func NewOut(dir, comp string) *Out {
	os.MkdirAll(dir, 0o755)
	fi, err := os.Create(dir + "/" + comp + ".in")
	if err != nil {
		panic(err)
	}
	fo, err := os.Create(dir + "/" + comp + ".impl")
	if err != nil {
		panic(err)
	}
	return &Out{in: fi, impl: fo, Stats: map[string]int{}, Distinct: map[string]map[string]bool{}, maxViol: 200}
}

// BeginHistory marks the start of a new history (a cfg / new line follows).
func (o *Out) BeginHistory() { o.hist = o.hist[:0]; o.histStart = o.lines }

// Emit writes one input line and the implementation's observation of it.
func (o *Out) Emit(in, obs string) {
	fmt.Fprintln(o.in, in)
	fmt.Fprintln(o.impl, obs)
	o.hist = append(o.hist, in)
	o.lines++
}

func (o *Out) Violate(prop, monitor, msg string) { o.ViolateF(prop, monitor, msg, "") }

func (o *Out) ViolateF(prop, monitor, msg, finding string) {
	o.Stats["violations."+prop]++
	if len(o.Violations) >= o.maxViol {
		return
	}
	// keep at most 5 per (property, monitor, finding)
	cnt := 0
	for _, v := range o.Violations {
		if v.Property == prop && v.Monitor == monitor && v.Finding == finding {
			cnt++
		}
	}
	if cnt >= 5 {
		return
	}
	h := make([]string, len(o.hist))
	copy(h, o.hist)
	o.Violations = append(o.Violations, Violation{Property: prop, Monitor: monitor, Msg: msg, Line: o.lines - 1, History: h, Finding: finding})
}

func (o *Out) Count(k string)         { o.Stats[k]++ }
func (o *Out) CountN(k string, n int) { o.Stats[k] += n }

// Mark records a distinct non-trivial case for a property (key = canonical form).
func (o *Out) Mark(prop, key string) {
	m := o.Distinct[prop]
	if m == nil {
		m = map[string]bool{}
		o.Distinct[prop] = m
	}
	if len(m) < 2000000 {
		m[key] = true
	}
}

func (o *Out) Sample(s string) {
	if len(o.Samples) < 12 {
		o.Samples = append(o.Samples, s)
	}
}

type Meta struct {
	Component  string         `json:"component"`
	Seed       uint64         `json:"seed"`
	Lines      int            `json:"lines"`
	Stats      map[string]int `json:"stats"`
	Distinct   map[string]int `json:"distinct"`
	Samples    []string       `json:"samples"`
	Violations []Violation    `json:"violations"`
}

func (o *Out) Close(dir, comp string, seed uint64) {
	o.in.Close()
	o.impl.Close()
	d := map[string]int{}
	for k, v := range o.Distinct {
		d[k] = len(v)
	}
	m := Meta{Component: comp, Seed: seed, Lines: o.lines, Stats: o.Stats, Distinct: d, Samples: o.Samples, Violations: o.Violations}
	b, _ := json.MarshalIndent(m, "", " ")
	os.WriteFile(dir+"/"+comp+".meta.json", b, 0o644)
}

// ---- formatting helpers shared with the Lean driver's format ----

func joinList(xs []string, sep string) string {
	if len(xs) == 0 {
		return "-"
	}
	return strings.Join(xs, sep)
}

func b01(b bool) string {
	if b {
		return "1"
	}
	return "0"
}

func splitList(s, sep string) []string {
	if s == "-" || s == "" {
		return nil
	}
	return strings.Split(s, sep)
}

func sortedKeys(m map[int]int64) []int {
	ks := make([]int, 0, len(m))
	for k := range m {
		ks = append(ks, k)
	}
	sort.Ints(ks)
	return ks
}

func kvs(toks []string) map[string]string {
	m := map[string]string{}
	for _, t := range toks {
		if i := strings.IndexByte(t, '='); i > 0 {
			m[t[:i]] = t[i+1:]
		}
	}
	return m
}

func atoi(s string) int64 {
	var v int64
	fmt.Sscanf(s, "%d", &v)
	return v
}

func itoa(v int64) string { return fmt.Sprintf("%d", v) }
