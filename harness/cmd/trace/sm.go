package main

import (
	"fmt"
	"strings"
	"sync"

	sm "github.com/weedbox/pokerface/seat_manager"
)

func smErrName(err error) string {
	switch err {
	case nil:
		return "none"
	case sm.ErrNotFoundSeat:
		return "notfoundseat"
	case sm.ErrNoAvailableSeat:
		return "noavailableseat"
	case sm.ErrNotAvailable:
		return "notavailable"
	case sm.ErrInvalidSeat:
		return "invalidseat"
	case sm.ErrInsufficientNumberOfPlayers:
		return "insufficient"
	case sm.ErrEmptySeat:
		return "emptyseat"
	}
	return "other"
}

func seatID(s *sm.Seat) string {
	if s == nil {
		return "-"
	}
	return itoa(int64(s.ID))
}

type seatSnap struct {
	pid              int // -1 = empty
	active, reserved bool
}

type smSnap struct {
	seats          []seatSnap
	dealer, sb, bb int // -1 = none
}

func (s *smSnap) playable(i int) bool {
	return i >= 0 && i < len(s.seats) && s.seats[i].pid >= 0 && s.seats[i].active && !s.seats[i].reserved
}

func (s *smSnap) playableSet() []int {
	xs := []int{}
	for i := range s.seats {
		if s.playable(i) {
			xs = append(xs, i)
		}
	}
	return xs
}

func snapSM(m *sm.SeatManager) *smSnap {
	s := &smSnap{dealer: -1, sb: -1, bb: -1}
	for _, st := range m.GetSeats() {
		pid := -1
		if st.Player != nil {
			pid = st.Player.(int)
		}
		s.seats = append(s.seats, seatSnap{pid, st.IsActive, st.IsReserved})
	}
	if d := m.Dealer(); d != nil {
		s.dealer = d.ID
	}
	if d := m.SmallBlind(); d != nil {
		s.sb = d.ID
	}
	if d := m.BigBlind(); d != nil {
		s.bb = d.ID
	}
	return s
}

func smObs(m *sm.SeatManager, e string, ret string) string {
	seats := []string{}
	for _, s := range m.GetSeats() {
		p := "-"
		if s.Player != nil {
			p = fmt.Sprint(s.Player)
		}
		seats = append(seats, fmt.Sprintf("%s/%s/%s", p, b01(s.IsActive), b01(s.IsReserved)))
	}
	return fmt.Sprintf("sm err=%s ret=%s dealer=%s sb=%s bb=%s count=%d playable=%d seats=%s", e, ret,
		seatID(m.Dealer()), seatID(m.SmallBlind()), seatID(m.BigBlind()), m.GetPlayerCount(), m.GetPlayableSeatCount(), joinList(seats, ","))
}

type smRunner struct {
	o     *Out
	m     *sm.SeatManager
	max   int
	dead  bool
	joins int
	leave int
	// newcomer tracking for C08 (second sentence)
	nx         int // seat of the tracked newcomer, -1 none
	nxSeated   bool
	nxPassed   bool
	nxActive   bool   // the seat was still active when the newcomer joined AND it was occupied at the last successful Next (vacated since)
	occAtNext  []bool // occupancy at the last successful Next
	lastDealer int    // ghost: the dealer's seat after the last successful Next (-1: none, or a Next has failed since)
}

func (r *smRunner) newSM(max int) {
	r.o.BeginHistory()
	r.m = sm.NewSeatManager(max)
	r.max = max
	r.dead = false
	r.joins, r.leave = 0, 0
	r.nx = -1
	r.occAtNext = nil
	r.lastDealer = -1
	r.o.Emit(fmt.Sprintf("sm new %d", max), smObs(r.m, "none", "-"))
}

// between: x strictly between a and b going clockwise from a (cyclic on max seats).
func between(a, x, b, max int) bool {
	if a < 0 || b < 0 || max <= 0 {
		return false
	}
	dx := ((x-a)%max + max) % max
	db := ((b-a)%max + max) % max
	if db == 0 {
		db = max
	}
	return dx > 0 && dx < db
}

func (r *smRunner) V(prop, mon, msg string) { r.o.Violate(prop, mon, msg) }

// exec runs one op (fields as in the sm lines, without the leading "sm").
func (r *smRunner) exec(f []string) {
	if r.dead || r.m == nil {
		return
	}
	pre := snapSM(r.m)
	var err error
	ret := "-"
	line := "sm " + strings.Join(f, " ")
	_, pan := safely(func() error {
		switch f[0] {
		case "join":
			var got int
			got, err = r.m.Join(int(atoi(f[1])), int(atoi(f[2])))
			if err == nil {
				ret = itoa(int64(got))
			}
		case "seat":
			err = r.m.Seat(int(atoi(f[1])))
		case "reserve":
			err = r.m.Reserve(int(atoi(f[1])))
		case "leave":
			err = r.m.Leave(int(atoi(f[1])))
		case "next":
			err = r.m.Next()
		}
		return nil
	})
	if f[0] == "join" {
		// the seat the real run chose is the model's choice input
		line = fmt.Sprintf("sm join %s %s %s", f[1], f[2], ret)
	}
	if pan {
		r.dead = true
		r.o.Emit(line, "sm err=panic")
		r.V("C18", "no_panic", "seat manager panicked on "+line)
		if f[0] == "next" {
			r.V("C17", "insufficient_refused", "Next() panicked instead of refusing or succeeding")
		}
		return
	}
	r.o.Emit(line, smObs(r.m, smErrName(err), ret))
	r.o.Count("sm.ops." + f[0])
	r.o.Count("sm.err." + smErrName(err))
	post := snapSM(r.m)
	r.monitor(f, pre, post, err, ret)
}

func (r *smRunner) monitor(f []string, pre, post *smSnap, err error, ret string) {
	max := r.max
	arg := 0
	if len(f) > 1 {
		arg = int(atoi(f[1]))
	}
	// ---------- C18 ----------
	changedSeats := []int{}
	for i := range post.seats {
		if pre.seats[i].pid != post.seats[i].pid {
			changedSeats = append(changedSeats, i)
		}
	}
	switch f[0] {
	case "join":
		pid := int(atoi(f[2]))
		if arg >= 0 {
			mustRefuse := arg >= max || pre.seats[arg].pid >= 0
			if mustRefuse && err == nil {
				r.V("C18", "join_spec", fmt.Sprintf("join on occupied / out-of-range seat %d accepted", arg))
			}
			if !mustRefuse && arg < max && err != nil {
				r.V("C18", "join_spec", fmt.Sprintf("join on empty seat %d refused: %v", arg, err))
			}
		} else if arg < -1 {
			if err == nil {
				r.V("C18", "join_spec", "join on a negative seat accepted")
			}
		} else {
			free := 0
			for _, s := range pre.seats {
				if s.pid < 0 && !s.reserved {
					free++
				}
			}
			if err == nil {
				got := int(atoi(ret))
				if got < 0 || got >= max || pre.seats[got].pid >= 0 || pre.seats[got].reserved {
					r.V("C18", "join_spec", fmt.Sprintf("join-any put the player on seat %d which was not an empty non-reserved seat", got))
				}
			} else if err == sm.ErrNoAvailableSeat && free > 0 {
				r.V("C18", "join_spec", fmt.Sprintf("join-any reports no seat although %d empty non-reserved seats exist", free))
			} else if err != sm.ErrNoAvailableSeat {
				r.V("C18", "join_spec", fmt.Sprintf("join-any failed with %v", err))
			}
		}
		if err == nil {
			r.joins++
			got := int(atoi(ret))
			if len(changedSeats) != 1 || changedSeats[0] != got || post.seats[got].pid != pid {
				r.V("C18", "join_spec", fmt.Sprintf("join changed seats %v, returned seat %d", changedSeats, got))
			} else if post.playable(got) {
				r.V("C18", "joined_held_out", fmt.Sprintf("seat %d is playable right after joining", got))
			}
		} else if len(changedSeats) != 0 {
			r.V("C18", "join_spec", "refused join changed the seat map")
		}
	case "leave":
		if err == nil {
			r.leave++
			if len(changedSeats) != 1 || changedSeats[0] != arg || post.seats[arg].pid != -1 {
				r.V("C18", "leave_frees", fmt.Sprintf("leave %d changed seats %v", arg, changedSeats))
			}
		} else if len(changedSeats) != 0 {
			r.V("C18", "leave_frees", "refused leave changed the seat map")
		}
		if err == nil && (arg < 0 || arg >= max || pre.seats[arg].pid < 0) {
			r.V("C18", "leave_frees", "leave on an empty / unknown seat accepted")
		}
	default:
		if len(changedSeats) != 0 {
			r.V("C18", "occupancy", fmt.Sprintf("%s changed who sits where: %v", f[0], changedSeats))
		}
	}
	cnt := 0
	seen := map[int]bool{}
	for _, s := range post.seats {
		if s.pid >= 0 {
			cnt++
			if seen[s.pid] {
				r.V("C18", "no_double_booking", fmt.Sprintf("player %d is seated twice", s.pid))
			}
			seen[s.pid] = true
		}
	}
	occ := ""
	for _, s := range post.seats {
		occ += b01(s.pid >= 0) + b01(s.active) + b01(s.reserved)
	}
	r.o.Mark("C18", f[0]+"/"+smErrName(err)+"/"+occ)
	if cnt != r.joins-r.leave || r.m.GetPlayerCount() != cnt {
		r.V("C18", "count_eq_joins_minus_leaves", fmt.Sprintf("%d seated (GetPlayerCount %d), %d joins - %d leaves", cnt, r.m.GetPlayerCount(), r.joins, r.leave))
	}

	// ---------- C17 / C08 on Next ----------
	if f[0] == "next" {
		P := pre.playableSet()
		waiting := 0
		for _, s := range pre.seats {
			if s.pid >= 0 && !s.reserved {
				waiting++
			}
		}
		if len(P) >= 2 {
			if err != nil {
				r.V("C17", "button_next", fmt.Sprintf("%d players could play but Next() failed: %v", len(P), err))
			} else {
				want := -1
				prevDealer := pre.dealer
				if r.lastDealer >= 0 {
					prevDealer = r.lastDealer // "the previous dealer" is a seat, whoever sits there now
				}
				start := prevDealer + 1
				if prevDealer < 0 {
					start = 0
				}
				for k := 0; k < max; k++ {
					i := (start + k) % max
					if pre.playable(i) {
						want = i
						break
					}
				}
				if post.dealer != want {
					r.V("C17", "button_next", fmt.Sprintf("dealer was %d, playable %v: button went to %d, expected %d", pre.dealer, P, post.dealer, want))
				}
				r.o.Mark("C17", fmt.Sprintf("%d/%v/%d", pre.dealer, P, max))
			}
		}
		if waiting < 2 && err != sm.ErrInsufficientNumberOfPlayers {
			r.V("C17", "insufficient_refused", fmt.Sprintf("only %d occupied non-reserved seats but Next() returned %v", waiting, err))
		}
		// the refusal is for that case only ("even after waiting players have been let in"): with two or more
		// sat-in players, playing or waiting, the move is carried out (theorem C17.next_refused_iff)
		if waiting >= 2 && err != nil {
			r.V("C17", "next_refused_iff", fmt.Sprintf("%d players have sat in (occupied, non-reserved seats; %d of them playable now) but Next() was refused: %v", waiting, len(P), err))
		}
		if err == nil {
			Q := post.playableSet()
			desc := fmt.Sprintf("dealer=%d sb=%d bb=%d playable=%v", post.dealer, post.sb, post.bb, Q)
			if !post.playable(post.dealer) || !post.playable(post.sb) || !post.playable(post.bb) {
				r.V("C08", "positions_playable", desc)
			} else if len(Q) == 2 {
				other := Q[0]
				if other == post.dealer {
					other = Q[1]
				}
				if post.sb != post.dealer || post.bb != other {
					r.V("C08", "heads_up_layout", desc)
				}
			} else if len(Q) >= 3 {
				nextPlayable := func(from int) int {
					for k := 1; k <= max; k++ {
						if post.playable((from + k) % max) {
							return (from + k) % max
						}
					}
					return -1
				}
				ws := nextPlayable(post.dealer)
				wb := nextPlayable(ws)
				if post.sb != ws || post.bb != wb {
					finding := ""
					if post.sb == post.dealer {
						// D4: the late-activated third seat is a waiting player the button has NOT passed in
						// this move (one it did pass must have been let in by nextDealer before the layout
						// was chosen: that would be a different defect)
						finding = "D4"
						for i, ps := range pre.seats {
							if ps.pid >= 0 && !ps.reserved && !ps.active && pre.dealer >= 0 && between(pre.dealer, i, post.dealer, max) {
								finding = ""
							}
						}
					}
					r.o.ViolateF("C08", "ring_layout", desc+fmt.Sprintf(" expected sb=%d bb=%d", ws, wb), finding)
				}
			} else {
				r.V("C08", "positions_playable", "Next() succeeded with fewer than two playable seats: "+desc)
			}
			r.o.Mark("C08", fmt.Sprintf("%d/%v/%d", post.dealer, Q, max))
		}
	}

	if f[0] == "next" {
		if err == nil {
			r.lastDealer = post.dealer
		} else {
			r.lastDealer = -1
		}
	}
	if f[0] == "next" && err == nil {
		r.occAtNext = make([]bool, len(post.seats))
		for i, s := range post.seats {
			r.occAtNext[i] = s.pid >= 0
		}
	}
	// ---------- C08 newcomer timing ----------
	switch {
	case f[0] == "join" && err == nil:
		got := int(atoi(ret))
		if pre.dealer >= 0 && pre.bb >= 0 && between(pre.dealer, got, pre.bb, max) {
			r.nx, r.nxSeated, r.nxPassed, r.nxActive = got, false, false, pre.seats[got].active && got < len(r.occAtNext) && r.occAtNext[got]
		} else {
			r.nx = -1
		}
	case f[0] == "seat" && err == nil && arg == r.nx && !r.nxSeated:
		r.nxSeated = true
	case f[0] == "next":
		if r.nx >= 0 && err == nil {
			if between(pre.dealer, r.nx, post.dealer, max) {
				r.nxPassed = true
			}
			if r.nxSeated {
				if post.playable(r.nx) != r.nxPassed {
					finding := ""
					if r.nxActive {
						finding = "D9"
					} else if len(pre.playableSet()) < 2 {
						finding = "D10"
					} else if post.playable(r.nx) && !between(post.dealer, r.nx, post.bb, max) {
						// the big blind landed in front of the newcomer's seat, which renewSeatStatus then activated
						finding = "D4"
					}
					r.o.ViolateF("C08", "newcomer_timing", fmt.Sprintf("newcomer on seat %d (joined between dealer and big blind): playable=%v although the button has passed the seat=%v (dealer %d -> %d)",
						r.nx, post.playable(r.nx), r.nxPassed, pre.dealer, post.dealer), finding)
					r.nxPassed = true // reported once per newcomer
				}
				r.o.Count("sm.newcomer_checked")
				if r.nxPassed {
					r.nx = -1
				}
			}
		} else if err != nil {
			r.nx = -1
		}
	default:
		r.nx = -1
	}
}

func genSMOp(r *Rng, max int, nextPid *int) []string {
	seat := func() string {
		if r.Chance(0.06) {
			return itoa([]int64{-2, -1, int64(max), int64(max) + 3, 99, -7}[r.Intn(6)])
		}
		return itoa(int64(r.Intn(max)))
	}
	k := r.Intn(100)
	switch {
	case k < 24:
		*nextPid++
		return []string{"join", seat(), itoa(int64(*nextPid)), "-"}
	case k < 34:
		*nextPid++
		return []string{"join", "-1", itoa(int64(*nextPid)), "-"}
	case k < 56:
		return []string{"seat", seat()}
	case k < 61:
		return []string{"reserve", seat()}
	case k < 73:
		return []string{"leave", seat()}
	}
	return []string{"next"}
}

func runSM(dir string, seed uint64, n int) {
	o := NewOut(dir, "sm")
	rg := NewRng(seed)
	r := &smRunner{o: o}
	for _, h := range corpusSM {
		r.replay(h)
	}
	for i := 0; i < n; i++ {
		max := 2 + rg.Intn(5)
		if rg.Chance(0.15) {
			max = 7 + rg.Intn(3)
		}
		r.newSM(max)
		pid := 100
		steps := 6 + rg.Intn(30)
		if rg.Chance(0.3) {
			// life-cycle scenario: a table fills, plays some hands, newcomers arrive (some on seats the button
			// has not passed, some only joined), then the players who were playing leave or sit out — all of them,
			// or all but one — and the table moves on with whoever is left
			o.Count("sm.scenarios")
			k := 2 + rg.Intn(max-1)
			for j := 0; j < k && !r.dead; j++ {
				pid++
				st := itoa(int64(rg.Intn(max)))
				r.exec([]string{"join", st, itoa(int64(pid)), "-"})
				r.exec([]string{"seat", st})
			}
			for j := 1 + rg.Intn(3); j > 0 && !r.dead; j-- {
				r.exec([]string{"next"})
			}
			playing := []int{}
			for i, sn := range r.m.GetSeats() {
				if sn.Player != nil && sn.IsActive && !sn.IsReserved {
					playing = append(playing, i)
				}
			}
			for j := rg.Intn(4); j > 0 && !r.dead; j-- {
				pid++
				st := itoa(int64(rg.Intn(max)))
				if rg.Chance(0.3) {
					st = "-1"
				}
				r.exec([]string{"join", st, itoa(int64(pid)), "-"})
				if rg.Chance(0.75) && st != "-1" {
					r.exec([]string{"seat", st})
				}
				if rg.Chance(0.2) {
					r.exec([]string{"next"})
				}
			}
			keep := -1
			if len(playing) > 0 && rg.Chance(0.5) {
				keep = playing[rg.Intn(len(playing))]
			}
			for _, i := range playing {
				if i == keep || r.dead {
					continue
				}
				if rg.Chance(0.25) {
					r.exec([]string{"reserve", itoa(int64(i))}) // sits out
				} else {
					r.exec([]string{"leave", itoa(int64(i))})
				}
			}
			for j := 1 + rg.Intn(3); j > 0 && !r.dead; j-- {
				r.exec([]string{"next"})
			}
			steps = rg.Intn(10)
		}
		for s := 0; s < steps && !r.dead; s++ {
			op := genSMOp(rg, max, &pid)
			r.exec(op)
			// a newcomer scenario: after a join between dealer and bb, sit in and only move the button
			if r.nx >= 0 && !r.nxSeated && rg.Chance(0.6) {
				r.exec([]string{"seat", itoa(int64(r.nx))})
				for k := 0; k < max+1 && !r.dead; k++ {
					r.exec([]string{"next"})
				}
			}
		}
		o.Count(fmt.Sprintf("sm.max.%d", max))
		if i < 2 {
			o.Sample(strings.Join(o.hist, " ; "))
		}
	}
	runSMRace(o, rg, n/50+4)
	o.Close(dir, "sm", seed)
}

func (r *smRunner) replay(lines []string) {
	for _, l := range lines {
		f := strings.Fields(l)
		if len(f) < 2 || f[0] != "sm" {
			continue
		}
		if f[1] == "new" {
			r.newSM(int(atoi(f[2])))
		} else {
			r.exec(f[1:])
		}
	}
}

var corpusSM = [][]string{
	// D7: Next() panics when exactly one player becomes playable in the last fallback
	{"sm new 3", "sm join 0 1 -", "sm seat 0", "sm join 2 2 -", "sm seat 2", "sm next", "sm join 1 3 -", "sm seat 1", "sm leave 0", "sm leave 2", "sm next"},
	// D8: Leave on an unknown seat
	{"sm new 3", "sm leave 99"},
	// D4: heads-up layout with three playable seats
	{"sm new 6", "sm join 0 1 -", "sm seat 0", "sm join 1 2 -", "sm seat 1", "sm join 4 3 -", "sm seat 4", "sm join 2 4 -", "sm next", "sm join 3 5 -", "sm seat 3", "sm leave 0", "sm leave 4", "sm seat 2", "sm next"},
}

// runSMRace: racing Join calls on different goroutines (C18, schedules).  The outcome must
// be the outcome of some sequential order of the calls.
func runSMRace(o *Out, rg *Rng, rounds int) {
	for it := 0; it < rounds; it++ {
		max := 2 + rg.Intn(8)
		m := sm.NewSeatManager(max)
		pre := 0
		for i := 0; i < max; i++ {
			if rg.Chance(0.3) {
				m.Join(i, 1000+i)
				pre++
			}
		}
		k := 8
		type res struct {
			seat, got int
			err       error
		}
		results := make([]res, k)
		var wg sync.WaitGroup
		start := make(chan struct{})
		for g := 0; g < k; g++ {
			seat := -1
			if rg.Chance(0.5) {
				seat = rg.Intn(max)
			}
			results[g].seat = seat
			wg.Add(1)
			go func(g, seat int) {
				defer wg.Done()
				defer func() {
					if recover() != nil {
						results[g].err = fmt.Errorf("panic")
					}
				}()
				<-start
				got, err := m.Join(seat, g)
				results[g].got, results[g].err = got, err
			}(g, seat)
		}
		close(start)
		wg.Wait()
		o.Count("sm.race_rounds")
		succ := 0
		seatOf := map[int]int{}
		for g, rs := range results {
			if rs.err == nil {
				succ++
				if prev, dup := seatOf[rs.got]; dup {
					o.hist = []string{fmt.Sprintf("race max=%d", max)}
					o.Violate("C18", "race_double_booking", fmt.Sprintf("goroutines %d and %d both got seat %d", prev, g, rs.got))
				}
				seatOf[rs.got] = g
				if rs.seat >= 0 && rs.got != rs.seat {
					o.hist = []string{fmt.Sprintf("race max=%d", max)}
					o.Violate("C18", "race_wrong_seat", fmt.Sprintf("asked for seat %d, got %d", rs.seat, rs.got))
				}
			} else if rs.err.Error() == "panic" {
				o.hist = []string{fmt.Sprintf("race max=%d", max)}
				o.Violate("C18", "race_panic", "Join panicked under concurrency")
			}
		}
		if m.GetPlayerCount() != pre+succ {
			o.hist = []string{fmt.Sprintf("race max=%d", max)}
			o.Violate("C18", "race_count", fmt.Sprintf("%d seated, %d before + %d successful joins", m.GetPlayerCount(), pre, succ))
		}
		for _, s := range m.GetSeats() {
			if s.Player != nil {
				if g, ok := s.Player.(int); ok && g < 1000 {
					if seatOf[s.ID] != g {
						o.hist = []string{fmt.Sprintf("race max=%d", max)}
						o.Violate("C18", "race_seat_map", fmt.Sprintf("seat %d holds goroutine %d's player but %d was told it got the seat", s.ID, g, seatOf[s.ID]))
					}
				}
			}
		}
		// every failure must be explainable: a specific seat that is occupied at the end, or no seat left
		for g, rs := range results {
			if rs.err != nil && rs.err.Error() != "panic" {
				if rs.seat >= 0 {
					if st := m.GetSeat(rs.seat); st == nil || st.Player == nil {
						o.hist = []string{fmt.Sprintf("race max=%d", max)}
						o.Violate("C18", "race_refused_free_seat", fmt.Sprintf("goroutine %d was refused seat %d which is empty at the end", g, rs.seat))
					}
				} else if m.GetPlayerCount() < max {
					free := false
					for _, st := range m.GetSeats() {
						if st.Player == nil && !st.IsReserved {
							free = true
						}
					}
					if free {
						o.hist = []string{fmt.Sprintf("race max=%d", max)}
						o.Violate("C18", "race_refused_free_seat", fmt.Sprintf("goroutine %d was told no seat is available but one is free at the end", g))
					}
				}
			}
		}
	}
}
