package main

import (
	"fmt"
	"sort"
	"strings"
	"sync"

	sm "github.com/weedbox/pokerface/seat_manager"
)

func smErrName(err error) string {
	switch err {
	case nil:
		return "none"
	case sm.ErrNotFoundSeat:
		return "notfoundseat"
	case sm.ErrNoAvailableSeat:
		return "noavailableseat"
	case sm.ErrNotAvailable:
		return "notavailable"
	case sm.ErrInvalidSeat:
		return "invalidseat"
	case sm.ErrInsufficientNumberOfPlayers:
		return "insufficient"
	case sm.ErrEmptySeat:
		return "emptyseat"
	}
	return "other"
}

func seatID(s *sm.Seat) string {
	if s == nil {
		return "-"
	}
	return itoa(int64(s.ID))
}

type seatSnap struct {
	pid              int // -1 = empty
	active, reserved bool
}

type smSnap struct {
	seats          []seatSnap
	dealer, sb, bb int // -1 = none
}

func (s *smSnap) playable(i int) bool {
	return i >= 0 && i < len(s.seats) && s.seats[i].pid >= 0 && s.seats[i].active && !s.seats[i].reserved
}

func (s *smSnap) playableSet() []int {
	xs := []int{}
	for i := range s.seats {
		if s.playable(i) {
			xs = append(xs, i)
		}
	}
	return xs
}

func snapSM(m *sm.SeatManager) *smSnap {
	s := &smSnap{dealer: -1, sb: -1, bb: -1}
	for _, st := range m.GetSeats() {
		pid := -1
		if st.Player != nil {
			pid = st.Player.(int)
		}
		s.seats = append(s.seats, seatSnap{pid, st.IsActive, st.IsReserved})
	}
	if d := m.Dealer(); d != nil {
		s.dealer = d.ID
	}
	if d := m.SmallBlind(); d != nil {
		s.sb = d.ID
	}
	if d := m.BigBlind(); d != nil {
		s.bb = d.ID
	}
	return s
}

func smObs(m *sm.SeatManager, e string, ret string) string {
	seats := []string{}
	for _, s := range m.GetSeats() {
		p := "-"
		if s.Player != nil {
			p = fmt.Sprint(s.Player)
		}
		seats = append(seats, fmt.Sprintf("%s/%s/%s", p, b01(s.IsActive), b01(s.IsReserved)))
	}
	return fmt.Sprintf("sm err=%s ret=%s dealer=%s sb=%s bb=%s count=%d playable=%d seats=%s", e, ret,
		seatID(m.Dealer()), seatID(m.SmallBlind()), seatID(m.BigBlind()), m.GetPlayerCount(), m.GetPlayableSeatCount(), joinList(seats, ","))
}

type smRunner struct {
	o     *Out
	m     *sm.SeatManager
	max   int
	dead  bool
	joins int
	leave int
	// newcomer tracking for C08 (second sentence)
	nx         int // seat of the tracked newcomer, -1 none
	nxSeated   bool
	nxPassed   bool
	nxActive   bool   // the seat was still active when the newcomer joined AND it was occupied at the last successful Next (vacated since)
	occAtNext  []bool // occupancy at the last successful Next
	lastDealer int    // ghost: the dealer's seat after the last successful Next (-1: none, or a Next has failed since)
	lastBB     int    // ghost: the big blind's seat after the last successful Next (-1 as for lastDealer)
	nxHands    int    // hands started while the tracked newcomer had only joined (the k of C08.newcomer_timing_interleaved)
	nxEarly    string // "" or the known finding (D4 / D10) whose mechanism activated the newcomer's seat in one of those hands although the button had not passed it
	// C18 ghosts
	held     map[int]int // seat -> pid of a player who joined that seat and for whom no Seat(seat) has been issued since
	undisc   bool        // the history contains a join of a player id that was seated at that moment (outside no_double_booking_disciplined)
	freePids []int       // ids of players who left and are seated nowhere (the generator re-uses them: disciplined re-joins)
	hands    int         // hands started (successful Next) in this history
	hopRng   *Rng        // generator runs: now and then the seat manager is saved and restored (ApplyStates) before an operation
	hops     int
	shadow   *sm.SeatManager // a second seat manager restored from the SAME snapshot as the one under test at the last hop; nobody operates on it
	shadowAt *smSnap         // what it looked like then
}

func (r *smRunner) newSM(max int) {
	r.o.BeginHistory()
	r.m = sm.NewSeatManager(max)
	r.max = max
	r.dead = false
	r.joins, r.leave = 0, 0
	r.nx = -1
	r.occAtNext = nil
	r.lastDealer, r.lastBB = -1, -1
	r.held = map[int]int{}
	r.undisc = false
	r.freePids = r.freePids[:0]
	r.hands = 0
	r.shadow = nil
	r.o.Emit(fmt.Sprintf("sm new %d", max), smObs(r.m, "none", "-"))
	r.o.Count(fmt.Sprintf("sm.max.%d", max))
	// O13 (DESIGN §11): the query GetPlayableSeats() on a table without a button — outside the alphabet (I12), counted only
	r.playableList(nil, false)
}

// sameSnap: the two snapshots describe the same seat-manager state (seat map, flags and the three position pointers).
func sameSnap(a, b *smSnap) bool {
	if a.dealer != b.dealer || a.sb != b.sb || a.bb != b.bb || len(a.seats) != len(b.seats) {
		return false
	}
	for i := range a.seats {
		if a.seats[i] != b.seats[i] {
			return false
		}
	}
	return true
}

// onlySeatChanged: apart from seat `only` (-1: none) the seat map is unchanged, and so are the three position pointers.
func onlySeatChanged(a, b *smSnap, only int) bool {
	if a.dealer != b.dealer || a.sb != b.sb || a.bb != b.bb || len(a.seats) != len(b.seats) {
		return false
	}
	for i := range a.seats {
		if i != only && a.seats[i] != b.seats[i] {
			return false
		}
	}
	return true
}

// clockwisePlayable: the playable seats of s in table order starting at seat `from` (inclusive).
func (s *smSnap) clockwisePlayable(from int) []int {
	xs := []int{}
	n := len(s.seats)
	for k := 0; k < n; k++ {
		if i := (from + k) % n; s.playable(i) {
			xs = append(xs, i)
		}
	}
	return xs
}

// playableList reads the exported query GetPlayableSeats() — the list table/internal.go builds the next game's players
// and their order from, named by C08's observe_at.  After a SUCCESSFUL Next() (post != nil, ok) it must be the playable
// seats in clockwise order starting with the dealer (C08.positions_playable: the dealer is playable, so the list starts
// with the button; the blinds are its next members by heads_up_layout / ring_layout).  On a table without a button
// (fresh, or the last Next() was refused) the query dereferences a nil dealer: observation O13, counted, no alarm (I12).
func (r *smRunner) playableList(post *smSnap, ok bool) {
	if r.m == nil {
		return
	}
	got := []int{}
	_, pan := safely(func() error {
		for _, s := range r.m.GetPlayableSeats() {
			got = append(got, s.ID)
		}
		return nil
	})
	if !ok {
		if pan {
			r.o.Count("sm.obs.O13_playable_seats_query_panics")
		} else {
			r.o.Count("sm.obs.playable_seats_query_without_hand")
		}
		return
	}
	r.o.Count("sm.playable_list_checked")
	if pan {
		r.V("C08", "playable_seats_list", "GetPlayableSeats() panicked after a successful Next()")
		return
	}
	want := post.clockwisePlayable(post.dealer)
	same := len(got) == len(want)
	for i := 0; same && i < len(got); i++ {
		same = got[i] == want[i]
	}
	if !same {
		r.V("C08", "playable_seats_list", fmt.Sprintf("after a successful Next() (dealer=%d sb=%d bb=%d) GetPlayableSeats() lists seats %v, the playable seats clockwise from the dealer are %v",
			post.dealer, post.sb, post.bb, got, want))
	}
	if len(want) >= 3 {
		r.o.Count("sm.playable_list_checked.ring")
	}
}

// between: x strictly between a and b going clockwise from a (cyclic on max seats).
func between(a, x, b, max int) bool {
	if a < 0 || b < 0 || max <= 0 {
		return false
	}
	dx := ((x-a)%max + max) % max
	db := ((b-a)%max + max) % max
	if db == 0 {
		db = max
	}
	return dx > 0 && dx < db
}

func (r *smRunner) V(prop, mon, msg string) { r.o.Violate(prop, mon, msg) }

// exec runs one op (fields as in the sm lines, without the leading "sm").
// hop: a save / restore point of the seat manager (a restart): its state is written into a SeatManagerState and applied
// (`ApplyStates`) to a fresh seat manager of the same size, or back onto the same object, which from then on is the one
// under test.  The model's answer is fixed: nothing changes.  Everything the properties speak about — seats, flags,
// button and blinds — must survive; the ghosts of the monitors (previous dealer, newcomer tracking) carry on.
func (r *smRunner) hop() {
	if r.dead || r.m == nil {
		return
	}
	pre := snapSM(r.m)
	st := &sm.SeatManagerState{Max: r.m.GetSeatCount(), Seats: map[int]*sm.Seat{}, Dealer: pre.dealer, SB: pre.sb, BB: pre.bb}
	for _, s := range r.m.GetSeats() {
		c := *s
		st.Seats[s.ID] = &c
	}
	target := r.m
	if r.hops%2 == 0 {
		target = sm.NewSeatManager(r.max)
	}
	r.hops++
	_, pan := safely(func() error { return target.ApplyStates(st) })
	if pan {
		r.dead = true
		r.o.Emit("sm hop", "sm err=panic")
		r.V("C18", "no_panic", "ApplyStates panicked on a snapshot of the seat manager's own state")
		return
	}
	// the same snapshot restored into a second manager that nobody touches afterwards: whatever happens to the one under test,
	// this one has seen no join and no leave (a restore that keeps the snapshot's seat objects would couple the two)
	r.shadow = sm.NewSeatManager(r.max)
	if _, p2 := safely(func() error { return r.shadow.ApplyStates(st) }); p2 {
		r.shadow = nil
	} else {
		r.shadowAt = snapSM(r.shadow)
	}
	r.m = target
	post := snapSM(r.m)
	r.o.Emit("sm hop", smObs(r.m, "none", "-"))
	r.o.Count("sm.ops.hop")
	if post.dealer != pre.dealer {
		r.V("C17", "restore_keeps_button", fmt.Sprintf("after a save / restore of the seat manager the button is on seat %d, it was on seat %d", post.dealer, pre.dealer))
	}
	if post.dealer != pre.dealer || post.sb != pre.sb || post.bb != pre.bb {
		r.V("C08", "restore_keeps_positions", fmt.Sprintf("after a save / restore dealer/sb/bb = %d/%d/%d, they were %d/%d/%d", post.dealer, post.sb, post.bb, pre.dealer, pre.sb, pre.bb))
	}
	for i := range pre.seats {
		if i >= len(post.seats) || pre.seats[i] != post.seats[i] {
			r.V("C18", "restore_keeps_seats", fmt.Sprintf("after a save / restore seat %d differs: %+v, it was %+v", i, post.seats, pre.seats))
			r.V("C08", "restore_keeps_positions", fmt.Sprintf("after a save / restore seat %d differs", i))
			break
		}
	}
}

// query: the read-only queries of the seat manager (GetSeat, GetSeats, GetActiveSeats, GetAvailableSeats, GetAvailableSeatCount,
// GetNormalizeSeats, the counters, Dealer / SmallBlind / BigBlind, GetPlayableSeats once a button is set): no seat, flag or position
// may change, nothing may panic; and the two that have a specification are checked against it: the available seats are exactly the
// empty non-reserved ones (active ones first), the count is the number of active ones.
func (r *smRunner) query() {
	if r.dead || r.m == nil {
		return
	}
	pre := snapSM(r.m)
	var act, alt []int
	var cnt int
	_, pan := safely(func() error {
		for i := 0; i < r.max; i++ {
			_ = r.m.GetSeat(i)
		}
		_ = r.m.GetSeat(-1)
		_ = r.m.GetSeat(r.max)
		_ = r.m.GetSeats()
		_ = r.m.GetActiveSeats()
		act, alt = r.m.GetAvailableSeats()
		cnt = r.m.GetAvailableSeatCount()
		if r.max > 0 {
			_ = r.m.GetNormalizeSeats(r.hops % r.max)
		}
		_ = r.m.GetPlayableSeatCount()
		_ = r.m.GetPlayerCount()
		_ = r.m.GetSeatCount()
		if r.m.Dealer() != nil {
			_ = r.m.GetPlayableSeats()
		}
		_, _ = r.m.SmallBlind(), r.m.BigBlind()
		return nil
	})
	if pan {
		r.dead = true
		r.o.Emit("sm query", "sm err=panic")
		r.V("C18", "no_panic", "a read-only query of the seat manager panicked")
		return
	}
	post := snapSM(r.m)
	r.o.Emit("sm query", smObs(r.m, "none", "-"))
	r.o.Count("sm.ops.query")
	same := post.dealer == pre.dealer && post.sb == pre.sb && post.bb == pre.bb && len(post.seats) == len(pre.seats)
	for i := 0; same && i < len(pre.seats); i++ {
		same = pre.seats[i] == post.seats[i]
	}
	if !same {
		r.V("C18", "query_no_effect", fmt.Sprintf("read-only queries changed the seat manager: %+v -> %+v", pre, post))
		r.V("C08", "query_no_effect", "read-only queries changed seats or positions")
		r.V("C17", "query_no_effect", "read-only queries changed seats or the button")
	}
	wantAct, wantAlt := []int{}, []int{}
	for i, s := range pre.seats {
		if s.pid < 0 && !s.reserved {
			if s.active {
				wantAct = append(wantAct, i)
			} else {
				wantAlt = append(wantAlt, i)
			}
		}
	}
	sort.Ints(act) // the lists come out in the order of a Go map iteration
	sort.Ints(alt)
	if fmt.Sprint(act) != fmt.Sprint(wantAct) || fmt.Sprint(alt) != fmt.Sprint(wantAlt) || cnt != len(wantAct) {
		r.V("C18", "available_seats", fmt.Sprintf("GetAvailableSeats() = %v / %v, GetAvailableSeatCount() = %d; the empty non-reserved seats are %v (active) and %v (inactive)", act, alt, cnt, wantAct, wantAlt))
	}
}

func (r *smRunner) exec(f []string) {
	if r.dead || r.m == nil {
		return
	}
	if f[0] == "hop" {
		r.hop()
		return
	}
	if f[0] == "query" {
		r.query()
		return
	}
	if r.hopRng != nil && r.hopRng.Chance(0.03) {
		r.query()
	}
	if r.hopRng != nil && ((f[0] == "next" && r.hopRng.Chance(0.12)) || r.hopRng.Chance(0.01)) {
		r.hop()
	}
	pre := snapSM(r.m)
	var err error
	ret := "-"
	line := "sm " + strings.Join(f, " ")
	_, pan := safely(func() error {
		switch f[0] {
		case "join":
			var got int
			got, err = r.m.Join(int(atoi(f[1])), int(atoi(f[2])))
			if err == nil {
				ret = itoa(int64(got))
			}
		case "seat":
			err = r.m.Seat(int(atoi(f[1])))
		case "reserve":
			err = r.m.Reserve(int(atoi(f[1])))
		case "leave":
			err = r.m.Leave(int(atoi(f[1])))
		case "next":
			err = r.m.Next()
		}
		return nil
	})
	if f[0] == "join" {
		// the seat the real run chose is the model's choice input
		line = fmt.Sprintf("sm join %s %s %s", f[1], f[2], ret)
	}
	if pan {
		r.dead = true
		r.o.Emit(line, "sm err=panic")
		r.V("C18", "no_panic", "seat manager panicked on "+line)
		if f[0] == "next" {
			r.V("C17", "insufficient_refused", "Next() panicked instead of refusing or succeeding")
		}
		return
	}
	r.o.Emit(line, smObs(r.m, smErrName(err), ret))
	r.o.Count("sm.ops." + f[0])
	r.o.Count("sm.err." + smErrName(err))
	post := snapSM(r.m)
	r.monitor(f, pre, post, err, ret)
	if r.shadow != nil {
		now := snapSM(r.shadow)
		same := len(now.seats) == len(r.shadowAt.seats) && now.dealer == r.shadowAt.dealer && now.sb == r.shadowAt.sb && now.bb == r.shadowAt.bb
		for i := 0; same && i < len(now.seats); i++ {
			same = now.seats[i] == r.shadowAt.seats[i]
		}
		if !same {
			r.V("C18", "count_eq_joins_minus_leaves", fmt.Sprintf("a seat manager restored from the same snapshot, on which no operation was made, changed after %v on the other one: %+v -> %+v (the restore shares the snapshot's seats)", f, r.shadowAt, now))
			r.V("C08", "restore_keeps_positions", "a seat manager restored from the same snapshot changed although nobody operated on it")
			r.shadow = nil
		}
	}
	if f[0] == "next" {
		r.playableList(post, err == nil)
	}
}

// nilPlayerProbe: Join(seat, nil) on a SCRATCH seat manager of the same size (the table under test is not touched; the
// model has no nil player).  Players are non-nil by the reading of C18 (identity is the caller's); what the code does
// with a nil player is recorded as an observation, never an alarm.
func (r *smRunner) nilPlayerProbe(max, seat int) {
	r.o.Emit(fmt.Sprintf("noise sm nilplayer %d %d", max, seat), "ok")
	m := sm.NewSeatManager(max)
	var got int
	var err error
	_, pan := safely(func() error { got, err = m.Join(seat, nil); return nil })
	r.o.Count("sm.obs.nil_player_probe")
	switch {
	case pan:
		r.o.Count("sm.obs.nil_player_join_panics")
	case err != nil:
		r.o.Count("sm.obs.nil_player_join_refused")
	default:
		r.o.Count("sm.obs.nil_player_join_accepted")
		if m.GetPlayerCount() == 0 {
			r.o.Count("sm.obs.nil_player_not_counted")
		}
		if st := m.GetSeat(got); st != nil && st.IsReserved && st.Player == nil {
			r.o.Count("sm.obs.nil_player_leaves_seat_reserved")
		}
	}
}

func (r *smRunner) monitor(f []string, pre, post *smSnap, err error, ret string) {
	max := r.max
	arg := 0
	if len(f) > 1 {
		arg = int(atoi(f[1]))
	}
	// ---------- C18 ----------
	changedSeats := []int{}
	for i := range post.seats {
		if pre.seats[i].pid != post.seats[i].pid {
			changedSeats = append(changedSeats, i)
		}
	}
	switch f[0] {
	case "join":
		pid := int(atoi(f[2]))
		for _, ps := range pre.seats {
			if ps.pid == pid {
				// the same player joins while seated: outside `Disciplined` (C18.no_double_booking_disciplined assumes a player
				// joins only while not seated; the seat manager does not compare identities) — observation, counted only
				if !r.undisc {
					r.o.Count("sm.obs.undisciplined_histories")
				}
				r.undisc = true
				r.o.Count("sm.obs.join_while_seated." + smErrName(err))
				break
			}
		}
		if arg >= 0 {
			mustRefuse := arg >= max || pre.seats[arg].pid >= 0
			if mustRefuse && err == nil {
				r.V("C18", "join_spec", fmt.Sprintf("join on occupied / out-of-range seat %d accepted", arg))
			}
			if !mustRefuse && arg < max && err != nil {
				r.V("C18", "join_spec", fmt.Sprintf("join on empty seat %d refused: %v", arg, err))
			}
		} else if arg < -1 {
			if err == nil {
				r.V("C18", "join_spec", "join on a negative seat accepted")
			}
		} else {
			free := 0
			for _, s := range pre.seats {
				if s.pid < 0 && !s.reserved {
					free++
				}
			}
			if err == nil {
				got := int(atoi(ret))
				if got < 0 || got >= max || pre.seats[got].pid >= 0 || pre.seats[got].reserved {
					r.V("C18", "join_spec", fmt.Sprintf("join-any put the player on seat %d which was not an empty non-reserved seat", got))
				} else if !pre.seats[got].active {
					// active seats are preferred (theorem C18.join_any_lands; C18's wording only asks for SOME empty non-reserved
					// seat): counted, compared through the correspondence only
					r.o.Count("sm.join_any_on_inactive_seat")
					for _, ps := range pre.seats {
						if ps.pid < 0 && !ps.reserved && ps.active {
							r.o.Count("sm.obs.join_any_on_inactive_seat_while_active_free")
							break
						}
					}
				}
			} else if err == sm.ErrNoAvailableSeat && free > 0 {
				r.V("C18", "join_spec", fmt.Sprintf("join-any reports no seat although %d empty non-reserved seats exist", free))
			} else if err != sm.ErrNoAvailableSeat {
				r.V("C18", "join_spec", fmt.Sprintf("join-any failed with %v", err))
			}
		}
		if err == nil {
			r.joins++
			got := int(atoi(ret))
			if len(changedSeats) != 1 || changedSeats[0] != got || post.seats[got].pid != pid {
				r.V("C18", "join_spec", fmt.Sprintf("join changed seats %v, returned seat %d", changedSeats, got))
			} else if post.playable(got) {
				r.V("C18", "joined_held_out", fmt.Sprintf("seat %d is playable right after joining", got))
			} else if !onlySeatChanged(pre, post, got) || post.seats[got].active != pre.seats[got].active {
				// theorem C18.join_empty: the seat now holds the player and is reserved, its active flag is untouched,
				// every other seat and the positions are unchanged
				r.V("C18", "join_spec", fmt.Sprintf("join on seat %d changed the flags of another seat, the seat's own active flag or a position", got))
			}
			if got >= 0 && got < max {
				r.held[got] = pid
			}
			for k, p := range r.freePids {
				if p == pid {
					r.freePids = append(r.freePids[:k], r.freePids[k+1:]...)
					r.o.Count("sm.rejoin_after_leave")
					break
				}
			}
		} else if len(changedSeats) != 0 {
			r.V("C18", "join_spec", "refused join changed the seat map")
		} else if !sameSnap(pre, post) {
			// theorems C18.join_out_of_range / join_occupied / join_any_none_iff: a refused join changes nothing
			r.V("C18", "join_spec", "refused join changed seat flags or positions")
		}
	case "leave":
		if err == nil {
			r.leave++
			if len(changedSeats) != 1 || changedSeats[0] != arg || post.seats[arg].pid != -1 {
				r.V("C18", "leave_frees", fmt.Sprintf("leave %d changed seats %v", arg, changedSeats))
			} else if post.seats[arg].reserved {
				// "leaving frees exactly that seat": free = empty AND not reserved (theorem C18.leave_frees, third clause)
				r.V("C18", "leave_frees", fmt.Sprintf("seat %d is still reserved after its player left: nobody can be put there by join-any", arg))
			} else if !onlySeatChanged(pre, post, arg) || post.seats[arg].active != pre.seats[arg].active {
				// same clause: the active flag is untouched, every other seat and the positions are unchanged
				r.V("C18", "leave_frees", fmt.Sprintf("leave %d changed the flags of another seat, the seat's own active flag or a position", arg))
			}
			if arg >= 0 && arg < max && pre.seats[arg].pid >= 0 {
				still := false
				for _, ps := range post.seats {
					still = still || ps.pid == pre.seats[arg].pid
				}
				if !still {
					r.freePids = append(r.freePids, pre.seats[arg].pid)
				}
			}
		} else if len(changedSeats) != 0 {
			r.V("C18", "leave_frees", "refused leave changed the seat map")
		} else if !sameSnap(pre, post) {
			// theorem C18.leave_frees, first two clauses: unknown or empty seat -> refused, nothing changes
			r.V("C18", "leave_frees", "refused leave changed seat flags or positions")
		}
		if err == nil && (arg < 0 || arg >= max || pre.seats[arg].pid < 0) {
			r.V("C18", "leave_frees", "leave on an empty / unknown seat accepted")
		}
	case "seat", "reserve":
		if len(changedSeats) != 0 {
			r.V("C18", "occupancy", fmt.Sprintf("%s changed who sits where: %v", f[0], changedSeats))
		}
		// Seat / Reserve (lemmas step_seat_cases / step_reserve_cases, Proofs/SMJoin.lean): refused with not-found-seat exactly
		// for a seat outside the table, and then nothing changes; otherwise the seat's reserved flag is cleared / set and
		// nothing else changes.  ("until they sit in" of C18 and the sit-in / reserve operations of C08's quantifier rest on it.)
		inRange := arg >= 0 && arg < max
		switch {
		case inRange && err != nil:
			r.V("C18", "seat_reserve_spec", fmt.Sprintf("%s %d on an existing seat refused: %v", f[0], arg, err))
		case !inRange && err != sm.ErrNotFoundSeat:
			r.V("C18", "seat_reserve_spec", fmt.Sprintf("%s %d outside the table returned %v", f[0], arg, err))
		case !inRange && !sameSnap(pre, post):
			r.V("C18", "seat_reserve_spec", fmt.Sprintf("refused %s %d changed the state", f[0], arg))
		case inRange:
			want := pre.seats[arg]
			want.reserved = f[0] == "reserve"
			if post.seats[arg] != want || !onlySeatChanged(pre, post, arg) {
				r.V("C18", "seat_reserve_spec", fmt.Sprintf("%s %d: seat is %+v (expected %+v), or another seat / a position changed", f[0], arg, post.seats[arg], want))
			}
			r.o.Count("sm.seat_reserve_checked")
		}
		if f[0] == "seat" && err == nil && inRange {
			delete(r.held, arg) // the player on this seat (if any) has sat in
		}
	default:
		if len(changedSeats) != 0 {
			r.V("C18", "occupancy", fmt.Sprintf("%s changed who sits where: %v", f[0], changedSeats))
		}
	}
	// "a player who has merely joined is held out of play until they sit in" — at EVERY later instant, not only right after
	// the join (theorem C18.joined_held_out: not playable through every operation sequence without Seat(i)); and since the
	// positions of a hand are playable seats (C08.positions_playable) such a seat holds no position when a hand starts
	for i, pid := range r.held {
		bad := ""
		if post.playable(i) {
			bad = "is playable"
		} else if f[0] == "next" && err == nil && post.seats[i].pid >= 0 && (post.dealer == i || post.sb == i || post.bb == i) {
			bad = "holds a position of the new hand"
		}
		if bad != "" {
			r.V("C18", "joined_held_out", fmt.Sprintf("seat %d (player %d joined, nobody has sat in on that seat since) %s after %s", i, pid, bad, strings.Join(f, " ")))
			delete(r.held, i)
		}
	}
	if len(r.held) > 0 {
		r.o.Count("sm.held_out_checked")
		if f[0] == "next" && err == nil {
			r.o.Count("sm.held_out_checked.at_hand_start")
		}
	}
	cnt := 0
	seen := map[int]bool{}
	for _, s := range post.seats {
		if s.pid >= 0 {
			cnt++
			if seen[s.pid] && !r.undisc {
				// theorem C18.no_double_booking_disciplined: players who join only while not seated (re-joins after a leave
				// and retries after a refusal included) are never seated twice
				r.V("C18", "no_double_booking", fmt.Sprintf("player %d is seated twice", s.pid))
			} else if seen[s.pid] {
				r.o.Count("sm.obs.same_player_on_two_seats")
			}
			seen[s.pid] = true
		}
	}
	occ := ""
	for _, s := range post.seats {
		occ += b01(s.pid >= 0) + b01(s.active) + b01(s.reserved)
	}
	r.o.Mark("C18", f[0]+"/"+smErrName(err)+"/"+occ)
	if cnt != r.joins-r.leave || r.m.GetPlayerCount() != cnt {
		r.V("C18", "count_eq_joins_minus_leaves", fmt.Sprintf("%d seated (GetPlayerCount %d), %d joins - %d leaves", cnt, r.m.GetPlayerCount(), r.joins, r.leave))
	}

	// ---------- C17 / C08 on Next ----------
	if f[0] == "next" {
		P := pre.playableSet()
		waiting := 0
		for _, s := range pre.seats {
			if s.pid >= 0 && !s.reserved {
				waiting++
			}
		}
		if len(P) >= 2 {
			if err != nil {
				r.V("C17", "button_next", fmt.Sprintf("%d players could play but Next() failed: %v", len(P), err))
			} else {
				want := -1
				prevDealer := pre.dealer
				if r.lastDealer >= 0 {
					prevDealer = r.lastDealer // "the previous dealer" is a seat, whoever sits there now
				}
				start := prevDealer + 1
				if prevDealer < 0 {
					start = 0
				}
				for k := 0; k < max; k++ {
					i := (start + k) % max
					if pre.playable(i) {
						want = i
						break
					}
				}
				if post.dealer != want {
					r.V("C17", "button_next", fmt.Sprintf("dealer was %d, playable %v: button went to %d, expected %d", pre.dealer, P, post.dealer, want))
				}
				r.o.Mark("C17", fmt.Sprintf("%d/%v/%d", pre.dealer, P, max))
			}
		}
		if waiting < 2 && err != sm.ErrInsufficientNumberOfPlayers {
			r.V("C17", "insufficient_refused", fmt.Sprintf("only %d occupied non-reserved seats but Next() returned %v", waiting, err))
		}
		// the refusal is for that case only ("even after waiting players have been let in"): with two or more
		// sat-in players, playing or waiting, the move is carried out (theorem C17.next_refused_iff)
		if waiting >= 2 && err != nil {
			r.V("C17", "next_refused_iff", fmt.Sprintf("%d players have sat in (occupied, non-reserved seats; %d of them playable now) but Next() was refused: %v", waiting, len(P), err))
		}
		if err == nil {
			Q := post.playableSet()
			desc := fmt.Sprintf("dealer=%d sb=%d bb=%d playable=%v", post.dealer, post.sb, post.bb, Q)
			if !post.playable(post.dealer) || !post.playable(post.sb) || !post.playable(post.bb) {
				r.V("C08", "positions_playable", desc)
			} else if len(Q) == 2 {
				other := Q[0]
				if other == post.dealer {
					other = Q[1]
				}
				if post.sb != post.dealer || post.bb != other {
					r.V("C08", "heads_up_layout", desc)
				}
			} else if len(Q) >= 3 {
				nextPlayable := func(from int) int {
					for k := 1; k <= max; k++ {
						if post.playable((from + k) % max) {
							return (from + k) % max
						}
					}
					return -1
				}
				ws := nextPlayable(post.dealer)
				wb := nextPlayable(ws)
				if post.sb != ws || post.bb != wb {
					finding := ""
					prev := pre.dealer
					if r.lastDealer >= 0 {
						prev = r.lastDealer
					}
					if post.sb == post.dealer && post.bb == ws && d4History(pre, post, prev, max) {
						finding = "D4"
					}
					r.o.ViolateF("C08", "ring_layout", desc+fmt.Sprintf(" expected sb=%d bb=%d", ws, wb), finding)
					r.o.Count("sm.ring_layout_violations.tag" + finding)
				}
			} else {
				r.V("C08", "positions_playable", "Next() succeeded with fewer than two playable seats: "+desc)
			}
			r.o.Mark("C08", fmt.Sprintf("%d/%v/%d", post.dealer, Q, max))
		}
	}

	// ---------- C08 newcomer timing ----------
	// Ghost state only: "dealer" and "big blind" of the sentence are the seats of the last hand that was started
	// (lastDealer / lastBB, set by a successful Next, void after a refused one), never the live pointers, which an operation
	// in between may have corrupted.  The newcomer's history is `Join(x); next^k; Seat(x); next...` with the other players
	// staying put: an operation that was refused or had no effect does not end it (the state is the same as without it);
	// one that changed anything else does.  C08.newcomer_timing_interleaved: dealt in at a hand iff he has sat in before it
	// AND the button has passed the seat in an earlier Next (also one that ran while he had only joined).
	prevLast := r.lastDealer
	switch {
	case f[0] == "join" && err == nil:
		got := int(atoi(ret))
		if r.lastDealer >= 0 && r.lastBB >= 0 && between(r.lastDealer, got, r.lastBB, max) {
			r.nx, r.nxSeated, r.nxPassed, r.nxActive = got, false, false, pre.seats[got].active && got < len(r.occAtNext) && r.occAtNext[got]
			r.nxHands, r.nxEarly = 0, ""
			r.o.Count("sm.newcomer_tracked")
		} else {
			r.nx = -1
		}
	case f[0] == "seat" && err == nil && arg == r.nx && !r.nxSeated:
		r.nxSeated = true
	case f[0] == "next":
		if r.nx >= 0 && err == nil && prevLast >= 0 {
			if between(prevLast, r.nx, post.dealer, max) {
				r.nxPassed = true
			}
			if r.nxSeated {
				if post.playable(r.nx) != r.nxPassed {
					finding := ""
					// the three known findings all deal the newcomer in TOO EARLY (playable, not passed); a newcomer who is
					// passed and then not dealt in matches none of them
					early := post.playable(r.nx) && !r.nxPassed
					// ... and in D10 and D4 it is THIS Next() that lets him in: he was waiting (sat in, seat inactive) before it
					waiting := !pre.seats[r.nx].active
					if r.nxActive && early {
						finding = "D9"
					} else if len(pre.playableSet()) < 2 && early && waiting {
						finding = "D10"
					} else if r.nxEarly != "" && early {
						// interleaved form of D10 / D4: the seat was activated, unpassed, by a Next() that ran while the newcomer
						// had only joined (see below); he is playable as soon as he sits in
						finding = r.nxEarly
					} else if early && waiting && !between(post.dealer, r.nx, post.bb, max) {
						// the big blind landed in front of the newcomer's seat, which renewSeatStatus then activated
						finding = "D4"
					}
					r.o.ViolateF("C08", "newcomer_timing", fmt.Sprintf("newcomer on seat %d (joined between dealer and big blind, %d hands started before the sit-in): playable=%v although the button has passed the seat=%v (dealer %d -> %d)",
						r.nx, r.nxHands, post.playable(r.nx), r.nxPassed, prevLast, post.dealer), finding)
					r.o.Count("sm.newcomer_violations.tag" + finding)
					if !early && r.nxActive {
						r.o.Count("sm.newcomer_violations.late_on_vacated_seat") // matched the D9 arm before it looked at the direction
					} else if !early && len(pre.playableSet()) < 2 {
						r.o.Count("sm.newcomer_violations.late_with_few_playable") // matched the D10 arm before it looked at the direction
					}
					r.nxPassed = true // reported once per newcomer
				}
				r.o.Count("sm.newcomer_checked")
				if r.nxHands > 0 {
					r.o.Count("sm.newcomer_checked.interleaved")
				}
				if r.nxPassed {
					r.nx = -1
				}
			} else {
				r.nxHands++
				if !r.nxPassed && !pre.seats[r.nx].active && post.seats[r.nx].active && r.nxEarly == "" {
					// a hand started while the newcomer had only joined has ACTIVATED his seat although the button has not passed
					// it.  Two mechanisms of the unchanged code do that, both known findings: with no playable seat at all the last
					// fallback of nextDealer activates every seat (D10); and renewSeatStatus activates every seat behind the new big
					// blind, a reserved one too, when the big blind has landed in front of the newcomer's seat (D4 b).  Anything
					// else stays unexplained (a violation that follows from it is reported).
					if len(pre.playableSet()) == 0 {
						r.nxEarly = "D10"
					} else if !between(post.dealer, r.nx, post.bb, max) && r.nx != post.dealer && r.nx != post.bb {
						r.nxEarly = "D4"
					}
					r.o.Count("sm.newcomer_activated_while_only_joined.tag" + r.nxEarly)
				}
			}
		} else {
			r.nx = -1
		}
	default:
		if !sameSnap(pre, post) {
			r.nx = -1
		} else if r.nx >= 0 {
			r.o.Count("sm.newcomer_kept_over_noop")
		}
	}
	if f[0] == "next" {
		if err == nil {
			r.hands++
			r.lastDealer, r.lastBB = post.dealer, post.bb
			r.occAtNext = make([]bool, len(post.seats))
			for i, s := range post.seats {
				r.occAtNext[i] = s.pid >= 0
			}
		} else {
			r.lastDealer, r.lastBB = -1, -1
		}
	}
}

// d4History recognises the HISTORY of known finding D4 (not its symptom): renewSeatStatus counted exactly two playable
// seats — the two that were playable before Next(), the button having passed no waiting (occupied, non-reserved,
// inactive) seat in this move, so nextDealer let nobody in — chose the heads-up layout, and then activated a waiting
// seat behind the new big blind, which is the third playable seat of the hand.  With one or no playable seat nextDealer
// lets every waiting player in before the layout is chosen, with three or more (or two plus a passed waiting seat) the
// ring branch is taken (theorem C08.ring_layout_exact: the layout is wrong iff the count after nextDealer was two): a
// heads-up layout in any of those cases is NOT D4.  prev: the seat the button's walk starts behind (-1: from seat 0).
func d4History(pre, post *smSnap, prev, max int) bool {
	P := pre.playableSet()
	if len(P) != 2 || !post.playable(P[0]) || !post.playable(P[1]) {
		return false
	}
	late := false
	for i, ps := range pre.seats {
		if !(ps.pid >= 0 && !ps.reserved && !ps.active) {
			continue
		}
		passed := false
		if prev < 0 {
			passed = i < post.dealer
		} else {
			passed = between(prev, i, post.dealer, max)
		}
		if passed {
			return false // let in by nextDealer before the layout was chosen: three playable seats were counted
		}
		if post.playable(i) {
			late = true
		}
	}
	if !late {
		return false
	}
	// every playable seat of the new hand is one of the two, or a waiting seat activated late
	for _, q := range post.playableSet() {
		ps := pre.seats[q]
		if q != P[0] && q != P[1] && !(ps.pid >= 0 && !ps.reserved && !ps.active) {
			return false
		}
	}
	return true
}

// smExtremeSeats: seat arguments at the edges of the integer domain (the model is unbounded; the code indexes a map).
var smExtremeSeats = []int64{-1 << 63, 1<<63 - 1, 1 << 31, 1<<31 - 1, -1 << 31, 1<<32 + 1}

func (r *smRunner) genOp(g *Rng, nextPid *int) []string {
	max := r.max
	seat := func() string {
		if g.Chance(0.06) {
			if g.Chance(0.25) {
				r.o.Count("sm.args.extreme")
				return itoa(smExtremeSeats[g.Intn(len(smExtremeSeats))])
			}
			return itoa([]int64{-2, -1, int64(max), int64(max) + 3, 99, -7}[g.Intn(6)])
		}
		return itoa(int64(g.Intn(max)))
	}
	// player identity: mostly fresh; a player who has left may come back (disciplined: C18.no_double_booking_disciplined);
	// rarely a player who is seated right now joins again (outside the discipline: observation only)
	player := func() string {
		if len(r.freePids) > 0 && g.Chance(0.3) {
			return itoa(int64(r.freePids[g.Intn(len(r.freePids))]))
		}
		if g.Chance(0.004) {
			seated := []int{}
			for _, st := range r.m.GetSeats() {
				if p, ok := st.Player.(int); ok {
					seated = append(seated, p)
				}
			}
			if len(seated) > 0 {
				return itoa(int64(seated[g.Intn(len(seated))]))
			}
		}
		*nextPid++
		return itoa(int64(*nextPid))
	}
	k := g.Intn(100)
	switch {
	case k < 24:
		return []string{"join", seat(), player(), "-"}
	case k < 34:
		return []string{"join", "-1", player(), "-"}
	case k < 56:
		return []string{"seat", seat()}
	case k < 61:
		return []string{"reserve", seat()}
	case k < 73:
		return []string{"leave", seat()}
	}
	return []string{"next"}
}

func (r *smRunner) ops(lines ...[]string) {
	for _, l := range lines {
		if r.dead {
			return
		}
		r.exec(l)
	}
}

func (r *smRunner) sit(seat int, pid *int) {
	*pid++
	st := itoa(int64(seat))
	r.ops([]string{"join", st, itoa(int64(*pid)), "-"}, []string{"seat", st})
}

func (r *smRunner) nexts(n int) {
	for ; n > 0 && !r.dead; n-- {
		r.exec([]string{"next"})
	}
}

// classifyNext counts the state class in which a Next() is about to run (reachability evidence for the waiting-player class).
func (r *smRunner) classifyNext() {
	p, w := 0, 0
	for _, st := range r.m.GetSeats() {
		if st.Player != nil && !st.IsReserved {
			if st.IsActive {
				p++
			} else {
				w++
			}
		}
	}
	switch {
	case w >= 2 && p == 0:
		r.o.Count("sm.nextclass.none_playable_2+waiting")
	case w >= 2 && p == 1:
		r.o.Count("sm.nextclass.one_playable_2+waiting")
	case w >= 1 && p >= 2:
		r.o.Count("sm.nextclass.2+playable_waiting")
	case p == 0 && w == 0:
		r.o.Count("sm.nextclass.nobody_sat_in")
	}
	if p >= 9 {
		r.o.Count("sm.nextclass.9+playable")
	}
}

// Waiting-player case (constructive stratum): the members of S sit in and a hand is started; newcomers take empty seats
// (mode 1: only joined, 2: sat in at once, 3: sat in after one more hand, 4: joined BEFORE the first hand — so the seat
// was occupied, reserved, and not deactivated by it — and sits in after the removals: the shape of the D4 witness; 5 (sampled
// only, not enumerated): joined, left again, taken by another player who sits in at once); then
// every member of S stays (0), leaves (1) or sits out (2); three hands follow.  newc[i] / rem[i] are indexed by seat;
// seats outside S resp. inside S only.
func (r *smRunner) waitingCase(max int, S []bool, newc, rem []int, remFirst bool) {
	r.newSM(max)
	pid := 100
	for i := 0; i < max; i++ {
		if S[i] {
			r.sit(i, &pid)
		} else if newc[i] == 4 {
			pid++
			r.ops([]string{"join", itoa(int64(i)), itoa(int64(pid)), "-"})
		}
	}
	r.nexts(1)
	removals := func() {
		for i := 0; i < max; i++ {
			if S[i] && rem[i] == 1 {
				r.ops([]string{"leave", itoa(int64(i))})
			} else if S[i] && rem[i] == 2 {
				r.ops([]string{"reserve", itoa(int64(i))})
			}
		}
	}
	if remFirst {
		// the members go first: the newcomers then arrive with "the other players staying put" (the newcomer tracker keeps them)
		removals()
	}
	late := false
	for i := 0; i < max; i++ {
		if !S[i] && newc[i] > 0 && newc[i] != 4 {
			pid++
			r.ops([]string{"join", itoa(int64(i)), itoa(int64(pid)), "-"})
			if newc[i] == 5 {
				// the seat is given up again and taken by somebody else, who sits in (a leave must hand the seat back as it was)
				pid++
				r.ops([]string{"leave", itoa(int64(i))}, []string{"join", itoa(int64(i)), itoa(int64(pid)), "-"})
				r.o.Count("sm.strata.waiting_case.retaken_seat")
			}
			if newc[i] == 2 || newc[i] == 5 {
				r.ops([]string{"seat", itoa(int64(i))})
			}
			late = late || newc[i] == 3
		}
	}
	if late {
		r.classifyNext()
		r.nexts(1)
		for i := 0; i < max; i++ {
			if !S[i] && newc[i] == 3 {
				r.ops([]string{"seat", itoa(int64(i))})
			}
		}
	}
	if !remFirst {
		removals()
	}
	for i := 0; i < max; i++ {
		if !S[i] && newc[i] == 4 {
			r.ops([]string{"seat", itoa(int64(i))})
		}
	}
	for k := 0; k < 3 && !r.dead; k++ {
		r.classifyNext()
		r.nexts(1)
	}
	r.o.Count("sm.strata.waiting_case")
}

// forEachWaitingCase enumerates the whole case space of waitingCase for a table of `max` seats: every set S of 2..max-1
// members, every assignment of 1..3 newcomers (four modes each) to the empty seats, every stay/leave/sit-out vector, both orders.
func forEachWaitingCase(max int, f func(S []bool, newc, rem []int, remFirst bool)) {
	for mask := 0; mask < 1<<max; mask++ {
		S := make([]bool, max)
		members, empty := []int{}, []int{}
		for i := 0; i < max; i++ {
			S[i] = mask>>i&1 == 1
			if S[i] {
				members = append(members, i)
			} else {
				empty = append(empty, i)
			}
		}
		if len(members) < 2 || len(empty) < 1 {
			continue
		}
		nn := 1
		for range empty {
			nn *= 5
		}
		nr := 1
		for range members {
			nr *= 3
		}
		for a := 1; a < nn; a++ {
			newc := make([]int, max)
			cnt := 0
			for x, j := a, 0; j < len(empty); x, j = x/5, j+1 {
				newc[empty[j]] = x % 5
				if x%5 > 0 {
					cnt++
				}
			}
			if cnt > 3 {
				continue
			}
			for b := 0; b < nr; b++ {
				rem := make([]int, max)
				for x, j := b, 0; j < len(members); x, j = x/3, j+1 {
					rem[members[j]] = x % 3
				}
				f(S, newc, rem, false)
				if b > 0 {
					f(S, newc, rem, true)
				}
			}
		}
	}
}

// randomWaitingCase draws one case of that space (max 4..8) from the harness PRNG, biased towards the cases that
// produce waiting players: newcomers who sit in on the seats the first hand deactivated (the empty seats between its
// dealer and its big blind), and removal of all, or all but one, of the playing members.
func (r *smRunner) randomWaitingCase(g *Rng) {
	max := 4 + g.Intn(3)
	if g.Chance(0.15) {
		max = 7 + g.Intn(2)
	}
	for {
		S := make([]bool, max)
		newc, rem := make([]int, max), make([]int, max)
		members := []int{}
		for i := 0; i < max; i++ {
			S[i] = g.Chance(0.45)
			if S[i] {
				members = append(members, i)
			}
		}
		if len(members) < 2 || len(members) == max {
			continue
		}
		// the first hand on a fresh table: dealer = lowest member, big blind = the second (heads-up) or third member
		bb := members[1]
		if len(members) > 2 {
			bb = members[2]
		}
		wantGap := g.Chance(0.85)
		nn, gaps := 0, 0
		for i := 0; i < max && nn < 3; i++ {
			if S[i] {
				continue
			}
			gap := i > members[0] && i < bb
			if gap {
				gaps++
			}
			if (gap && g.Chance(0.85)) || (!gap && g.Chance(0.25)) {
				switch u := g.Intn(100); {
				case u < 8:
					newc[i] = 5
				case u < 50:
					newc[i] = 2
				case u < 70:
					newc[i] = 3
				case u < 88:
					newc[i] = 4
				default:
					newc[i] = 1
				}
				nn++
			}
		}
		if nn == 0 || (wantGap && gaps == 0) {
			continue
		}
		keep := -1
		u := g.Intn(100)
		if u >= 35 && u < 65 {
			keep = members[g.Intn(len(members))]
		}
		for _, i := range members {
			switch {
			case u >= 65:
				rem[i] = g.Intn(3)
			case i != keep:
				rem[i] = 1 + g.Intn(2)
			}
		}
		r.waitingCase(max, S, newc, rem, g.Chance(0.4))
		return
	}
}

// fullRing: a large table (7..12 seats) completely seated; 2*max+1 hands; once per lap one playing member leaves or
// sits out (and sometimes a new player takes a free seat and sits in).
func (r *smRunner) fullRing(g *Rng) {
	max := 7 + g.Intn(6)
	r.newSM(max)
	pid := 100
	order := make([]int, max)
	for i := range order {
		order[i] = i
	}
	g.Shuffle(max, func(i, j int) { order[i], order[j] = order[j], order[i] })
	for _, i := range order {
		r.sit(i, &pid)
	}
	lap := 2 + g.Intn(max-1)
	for h := 0; h < 2*max+1 && !r.dead; h++ {
		r.classifyNext()
		r.nexts(1)
		if h%lap == lap-1 {
			playing := snapSM(r.m).playableSet()
			if len(playing) > 0 {
				st := itoa(int64(playing[g.Intn(len(playing))]))
				if g.Chance(0.5) {
					r.ops([]string{"leave", st})
				} else {
					r.ops([]string{"reserve", st})
				}
			}
			if g.Chance(0.3) {
				pid++
				r.ops([]string{"join", "-1", itoa(int64(pid)), "-"})
				if n := len(r.o.hist); n > 0 {
					if f := strings.Fields(r.o.hist[n-1]); len(f) == 5 && f[4] != "-" {
						r.ops([]string{"seat", f[4]})
					}
				}
			}
		}
	}
	r.o.Count("sm.strata.full_ring")
}

// roleRemovals: a ring of n = 3..8 playing members (with gaps when the table is larger); after a successful Next()
// exactly the dealer, the small blind, the big blind or the seat after the big blind leaves or sits out, then Next();
// repeated while the ring stays a ring.
func (r *smRunner) roleRemovals(g *Rng) {
	n := 3 + g.Intn(6)
	max := n + g.Intn(3)
	if max > 12 {
		max = 12
	}
	r.newSM(max)
	pid := 100
	order := make([]int, max)
	for i := range order {
		order[i] = i
	}
	g.Shuffle(max, func(i, j int) { order[i], order[j] = order[j], order[i] })
	for _, i := range order[:n] {
		r.sit(i, &pid)
	}
	r.nexts(1 + g.Intn(2))
	for round := 0; round < 4 && !r.dead; round++ {
		s := snapSM(r.m)
		Q := s.clockwisePlayable(s.dealer)
		if s.dealer < 0 || len(Q) < 3 || r.lastDealer < 0 {
			break
		}
		roles := []string{"dealer", "sb", "bb", "afterbb"}
		role := g.Intn(4)
		target := Q[0]
		switch role {
		case 1:
			target = s.sb
		case 2:
			target = s.bb
		case 3:
			for k, q := range Q {
				if q == s.bb {
					target = Q[(k+1)%len(Q)]
				}
			}
		}
		st := itoa(int64(target))
		kind := "leave"
		if g.Chance(0.4) {
			kind = "reserve"
		}
		r.ops([]string{kind, st})
		r.o.Count(fmt.Sprintf("sm.role_removal.%s.%s", roles[role], kind))
		r.o.Count(fmt.Sprintf("sm.role_removal.ring%d", len(Q)))
		if g.Chance(0.25) {
			// somebody takes a seat (possibly the one just vacated) and sits in before the next hand
			pid++
			t := itoa(int64(g.Intn(max)))
			r.ops([]string{"join", t, itoa(int64(pid)), "-"}, []string{"seat", t})
		}
		r.nexts(1 + g.Intn(2))
		if kind == "reserve" && g.Chance(0.5) {
			r.ops([]string{"seat", st}) // sits back in
			r.nexts(1)
		}
	}
	r.o.Count("sm.strata.role_removals")
}

func runSM(dir string, seed uint64, n int) {
	o := NewOut(dir, "sm")
	rg := NewRng(seed)
	r := &smRunner{o: o}
	for _, h := range corpusSM {
		r.replay(h)
	}
	r.hopRng = NewRng(seed ^ 0x9e3779b9)
	for i := 0; i < n; i++ {
		u := rg.Intn(1000)
		switch {
		case u < 140:
			r.randomWaitingCase(rg)
			continue
		case u < 165:
			r.fullRing(rg)
			continue
		case u < 240:
			r.roleRemovals(rg)
			continue
		}
		max := 2 + rg.Intn(5)
		if rg.Chance(0.15) {
			max = 7 + rg.Intn(3)
			if rg.Chance(0.25) {
				max = 10 + rg.Intn(3)
			}
		}
		if u < 252 {
			max = rg.Intn(2) // probes: a table without seats, a table with one seat
			o.Count("sm.strata.tiny_table")
		}
		if u >= 252 && u < 262 {
			max = 60 + rg.Intn(80) // "for all table sizes": a hall-sized table (beyond 64 seats: a bit set in a machine word ends here)
			o.Count("sm.strata.huge_table")
		}
		r.newSM(max)
		pid := 100
		steps := 6 + rg.Intn(30)
		if rg.Chance(0.3) && max >= 2 {
			// life-cycle scenario: a table fills, plays some hands, newcomers arrive (some on seats the button
			// has not passed, some only joined), then the players who were playing leave or sit out — all of them,
			// or all but one — and the table moves on with whoever is left
			o.Count("sm.scenarios")
			k := 2 + rg.Intn(max-1)
			for j := 0; j < k && !r.dead; j++ {
				pid++
				st := itoa(int64(rg.Intn(max)))
				r.exec([]string{"join", st, itoa(int64(pid)), "-"})
				r.exec([]string{"seat", st})
			}
			for j := 1 + rg.Intn(3); j > 0 && !r.dead; j-- {
				r.exec([]string{"next"})
			}
			playing := []int{}
			for i, sn := range r.m.GetSeats() {
				if sn.Player != nil && sn.IsActive && !sn.IsReserved {
					playing = append(playing, i)
				}
			}
			for j := rg.Intn(4); j > 0 && !r.dead; j-- {
				pid++
				st := itoa(int64(rg.Intn(max)))
				if rg.Chance(0.3) {
					st = "-1"
				}
				r.exec([]string{"join", st, itoa(int64(pid)), "-"})
				if rg.Chance(0.75) && st != "-1" {
					r.exec([]string{"seat", st})
				}
				if rg.Chance(0.2) {
					r.exec([]string{"next"})
				}
			}
			keep := -1
			if len(playing) > 0 && rg.Chance(0.5) {
				keep = playing[rg.Intn(len(playing))]
			}
			for _, i := range playing {
				if i == keep || r.dead {
					continue
				}
				if rg.Chance(0.25) {
					r.exec([]string{"reserve", itoa(int64(i))}) // sits out
				} else {
					r.exec([]string{"leave", itoa(int64(i))})
				}
			}
			for j := 1 + rg.Intn(3); j > 0 && !r.dead; j-- {
				r.classifyNext()
				r.exec([]string{"next"})
			}
			steps = rg.Intn(10)
		}
		for s := 0; s < steps && !r.dead; s++ {
			op := r.genOp(rg, &pid)
			if op[0] == "next" {
				r.classifyNext()
			}
			r.exec(op)
			// a newcomer scenario: after a join between dealer and bb, sit in — at once, or after one or two more hands
			// have been started (C08.newcomer_timing_interleaved) — and only move the button
			if r.nx >= 0 && !r.nxSeated && rg.Chance(0.6) {
				if rg.Chance(0.15) {
					// the newcomer gives the seat up again and another player takes it
					st := itoa(int64(r.nx))
					pid++
					r.ops([]string{"leave", st}, []string{"join", st, itoa(int64(pid)), "-"})
					o.Count("sm.newcomer_seat_retaken")
				}
				if r.nx >= 0 && rg.Chance(0.35) {
					r.nexts(1 + rg.Intn(2))
				}
				if r.nx >= 0 {
					r.exec([]string{"seat", itoa(int64(r.nx))})
				}
				for k := 0; k < max+1 && !r.dead; k++ {
					r.exec([]string{"next"})
				}
			}
		}
		if rg.Chance(0.01) {
			r.nilPlayerProbe(max, rg.Intn(max+1)-1)
		}
		if i < 2 {
			o.Sample(strings.Join(o.hist, " ; "))
		}
	}
	runSMRace(o, rg, n/50+4)
	o.Close(dir, "sm", seed)
}

func (r *smRunner) replay(lines []string) {
	for _, l := range lines {
		f := strings.Fields(l)
		if len(f) == 5 && f[0] == "noise" && f[1] == "sm" && f[2] == "nilplayer" {
			r.nilPlayerProbe(int(atoi(f[3])), int(atoi(f[4])))
			continue
		}
		if len(f) < 2 || f[0] != "sm" {
			continue
		}
		if f[1] == "new" {
			r.newSM(int(atoi(f[2])))
		} else {
			r.exec(f[1:])
		}
	}
}

var corpusSM = [][]string{
	// D7: Next() panics when exactly one player becomes playable in the last fallback
	{"sm new 3", "sm join 0 1 -", "sm seat 0", "sm join 2 2 -", "sm seat 2", "sm next", "sm join 1 3 -", "sm seat 1", "sm leave 0", "sm leave 2", "sm next"},
	// D8: Leave on an unknown seat
	{"sm new 3", "sm leave 99"},
	// D4: heads-up layout with three playable seats
	{"sm new 6", "sm join 0 1 -", "sm seat 0", "sm join 1 2 -", "sm seat 1", "sm join 4 3 -", "sm seat 4", "sm join 2 4 -", "sm next", "sm join 3 5 -", "sm seat 3", "sm leave 0", "sm leave 4", "sm seat 2", "sm next"},
}

// runSMRace: racing Join calls on different goroutines (C18, schedules).  The outcome must
// be the outcome of some sequential order of the calls.  Three kinds of table: a fresh one with some players seated;
// one that has played a hand (so empty seats between dealer and big blind are inactive: join-any takes its alternate
// path once the active free seats are used up); and such a table with some empty seats reserved (join-any must skip
// them, a specific join may take them).
func runSMRace(o *Out, rg *Rng, rounds int) {
	for it := 0; it < rounds; it++ {
		max := 2 + rg.Intn(8)
		m := sm.NewSeatManager(max)
		pre := 0
		kind := it % 3
		setup := fmt.Sprintf("race max=%d kind=%d", max, kind)
		if kind == 0 {
			for i := 0; i < max; i++ {
				if rg.Chance(0.3) {
					m.Join(i, 1000+i)
					pre++
				}
			}
		} else {
			for i := 0; i < max; i++ {
				if rg.Chance(0.45) {
					m.Join(i, 1000+i)
					m.Seat(i)
					pre++
					setup += fmt.Sprintf(" sit%d", i)
				}
			}
			if m.Next() == nil {
				o.Count("sm.race_rounds.after_next")
				setup += " next"
			}
			if kind == 2 {
				for i := 0; i < max; i++ {
					if st := m.GetSeat(i); st.Player == nil && rg.Chance(0.4) {
						m.Reserve(i)
						setup += fmt.Sprintf(" reserve%d", i)
						o.Count("sm.race_reserved_empty_seats")
					}
				}
			}
		}
		reservedEmpty := map[int]bool{}
		inactiveFree, activeFree := 0, 0
		for _, st := range m.GetSeats() {
			if st.Player == nil && st.IsReserved {
				reservedEmpty[st.ID] = true
			} else if st.Player == nil && st.IsActive {
				activeFree++
			} else if st.Player == nil {
				inactiveFree++
			}
		}
		if inactiveFree > 0 {
			o.Count("sm.race_rounds.with_inactive_free_seats")
		}
		k := 8
		type res struct {
			seat, got int
			err       error
		}
		results := make([]res, k)
		var wg sync.WaitGroup
		start := make(chan struct{})
		for g := 0; g < k; g++ {
			seat := -1
			if rg.Chance(0.5) {
				seat = rg.Intn(max)
			}
			results[g].seat = seat
			wg.Add(1)
			go func(g, seat int) {
				defer wg.Done()
				defer func() {
					if recover() != nil {
						results[g].err = fmt.Errorf("panic")
					}
				}()
				<-start
				got, err := m.Join(seat, g)
				results[g].got, results[g].err = got, err
			}(g, seat)
		}
		close(start)
		wg.Wait()
		o.Count("sm.race_rounds")
		viol := func(mon, msg string) {
			o.hist = []string{setup}
			o.Violate("C18", mon, msg)
		}
		succ := 0
		seatOf := map[int]int{}
		for g, rs := range results {
			if rs.err == nil {
				succ++
				if prev, dup := seatOf[rs.got]; dup {
					viol("race_double_booking", fmt.Sprintf("goroutines %d and %d both got seat %d", prev, g, rs.got))
				}
				seatOf[rs.got] = g
				if rs.seat >= 0 && rs.got != rs.seat {
					viol("race_wrong_seat", fmt.Sprintf("asked for seat %d, got %d", rs.seat, rs.got))
				}
				if rs.seat < 0 && reservedEmpty[rs.got] {
					// join_spec under schedules: join-any puts the player on an empty NON-RESERVED seat
					viol("race_reserved_seat", fmt.Sprintf("join-any of goroutine %d landed on the reserved empty seat %d", g, rs.got))
				}
				if rs.seat < 0 && inactiveFree > 0 {
					o.Count("sm.race_join_any_with_inactive_free")
				}
			} else if rs.err.Error() == "panic" {
				viol("race_panic", "Join panicked under concurrency")
			}
		}
		if m.GetPlayerCount() != pre+succ {
			viol("race_count", fmt.Sprintf("%d seated, %d before + %d successful joins", m.GetPlayerCount(), pre, succ))
		}
		for _, s := range m.GetSeats() {
			if s.Player != nil {
				if g, ok := s.Player.(int); ok && g < 1000 {
					if got, ok := seatOf[s.ID]; !ok || got != g {
						viol("race_seat_map", fmt.Sprintf("seat %d holds goroutine %d's player but %d was told it got the seat", s.ID, g, seatOf[s.ID]))
					}
					if !s.IsReserved {
						// joined_held_out under schedules: a racing join leaves its player reserved
						viol("race_held_out", fmt.Sprintf("seat %d taken by a racing join is not reserved", s.ID))
					}
				}
			}
		}
		// every failure must be explainable: a specific seat that is occupied at the end, or no seat left
		for g, rs := range results {
			if rs.err != nil && rs.err.Error() != "panic" {
				if rs.seat >= 0 {
					if st := m.GetSeat(rs.seat); st == nil || st.Player == nil {
						viol("race_refused_free_seat", fmt.Sprintf("goroutine %d was refused seat %d which is empty at the end", g, rs.seat))
					}
				} else if m.GetPlayerCount() < max {
					free := false
					for _, st := range m.GetSeats() {
						if st.Player == nil && !st.IsReserved {
							free = true
						}
					}
					if free {
						viol("race_refused_free_seat", fmt.Sprintf("goroutine %d was told no seat is available but one is free at the end", g))
					}
				}
			}
		}
	}
}
