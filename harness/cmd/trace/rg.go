package main

import (
	"fmt"
	"sort"
	"strings"

	"github.com/weedbox/pokerface/regulator"
)

// The environment of DESIGN §5: tables that follow the regulator's instructions.
type rgRunner struct {
	o          *Out
	r          regulator.Regulator
	max, min   int
	status     string
	members    map[int][]int // table id -> player ids at the table
	alive      map[int]bool  // registered and not eliminated
	nextTbl    int
	nextPid    int
	calls      []string // callbacks of the current operation
	choices    []string // table ids picked by getAvailableTable during the current operation
	handed     []int    // ids handed out (callbacks / SyncState result) during the current operation
	preQueue   []int
	dead       bool
	started    bool
	everMin    bool
	initial    bool // the operation at hand started with no table open
	registered int
	forceElim  []int // replay: the members to eliminate in the next sync (nil = choose at random)
	forceRel   []int // replay: the members to release after the next sync (nil = choose at random)
	forced     bool
	backward   bool          // the status went back to pending after the start (outside the histories of C19 / C20)
	async      bool          // this history delays the ReleasePlayers reports of its tables (other operations come in between)
	inflight   map[int][]int // table id -> players who have left that table and whose release has not been reported yet
	delayNext  bool          // replay: the release of the sync at hand is reported later
}

func pidStr(ids []int) string {
	xs := []string{}
	for _, i := range ids {
		xs = append(xs, itoa(int64(i)))
	}
	return joinList(xs, ",")
}

func parseIDs(s string) []int {
	out := []int{}
	for _, x := range splitList(s, ",") {
		out = append(out, int(atoi(x)))
	}
	return out
}

func toNames(ids []int) []string {
	xs := make([]string, len(ids))
	for i, v := range ids {
		xs[i] = itoa(int64(v))
	}
	return xs
}

func fromNames(xs []string) []int {
	out := make([]int, len(xs))
	for i, v := range xs {
		out[i] = int(atoi(v))
	}
	return out
}

func (g *rgRunner) queue() []int { return fromNames(regulator.WaitingQueueSnapshot(g.r)) }

func (g *rgRunner) newRG(max, min int) {
	g.o.BeginHistory()
	g.max, g.min = max, min
	g.members = map[int][]int{}
	g.alive = map[int]bool{}
	g.nextTbl, g.nextPid = 0, 0
	g.status = "pending"
	g.dead, g.started, g.everMin, g.backward = false, false, false, false
	g.async, g.inflight, g.delayNext = false, map[int][]int{}, false
	g.registered = 0
	g.calls, g.choices, g.handed = nil, nil, nil
	// the two settings in either order (it depends on the settings themselves, so that a history replays the same way)
	first, second := regulator.MaxPlayersPerTable(max), regulator.MinInitialPlayers(min)
	if (max+min)%2 == 1 {
		first, second = second, first
	}
	g.r = regulator.NewRegulator(
		first,
		second,
		regulator.WithRequestTableFn(func(players []string) (string, error) {
			g.nextTbl++
			ids := fromNames(players)
			g.members[g.nextTbl] = append([]int{}, ids...)
			g.calls = append(g.calls, fmt.Sprintf("R:%d:%s", g.nextTbl, pidStr(ids)))
			g.handed = append(g.handed, ids...)
			g.onRequestTable(ids)
			return itoa(int64(g.nextTbl)), nil
		}),
		regulator.WithAssignPlayersFn(func(tableID string, players []string) error {
			t := int(atoi(tableID))
			ids := fromNames(players)
			g.calls = append(g.calls, fmt.Sprintf("A:%d:%s", t, pidStr(ids)))
			g.choices = append(g.choices, tableID)
			g.handed = append(g.handed, ids...)
			if _, ok := g.members[t]; !ok {
				g.o.Violate("C09", "assign_unknown_table", fmt.Sprintf("players %v assigned to table %d which does not exist", ids, t))
			}
			g.members[t] = append(g.members[t], ids...)
			g.checkCapacity(t, "assignPlayersFn")
			return nil
		}),
	)
	g.o.Emit(fmt.Sprintf("rg new %d %d", max, min), g.obs("none", 0, nil))
}

func (g *rgRunner) obs(e string, rel int, nw []int) string {
	tbls := []string{}
	ids := []int{}
	for id := range g.members {
		ids = append(ids, id)
	}
	sort.Ints(ids)
	for _, id := range ids {
		if t := g.r.GetTable(itoa(int64(id))); t != nil {
			tbls = append(tbls, fmt.Sprintf("%d/%d/%d", id, t.PlayerCount, t.Required))
		}
	}
	return fmt.Sprintf("rg err=%s players=%d tables=%d queue=%s tbl=%s calls=%s rel=%d new=%s", e, g.r.GetPlayerCount(), g.r.GetTableCount(),
		pidStr(g.queue()), joinList(tbls, ";"), joinList(g.calls, ";"), rel, pidStr(nw))
}

func (g *rgRunner) begin() {
	g.calls, g.choices, g.handed = nil, nil, nil
	g.preQueue = g.queue()
	g.initial = g.r.GetTableCount() == 0
}

// V reports a monitor violation inside the domain of the property: C19 is stated for 2 <= min <= max and, like
// C20's settling sentence, for phases that only move forward (DESIGN I13; C19.capacity_fails_after_return_to_pending
// is the kernel-checked witness that capacity fails otherwise); C09 and break_returns_all hold on the wide domain.
func (g *rgRunner) V(prop, mon, msg string) {
	if prop == "C19" && (g.backward || g.min < 2 || g.min > g.max) {
		g.o.Count("rg.outside_domain.C19")
		return
	}
	if prop == "C20" && g.backward && mon != "break_returns_all" {
		g.o.Count("rg.outside_domain.C20")
		return
	}
	g.o.Violate(prop, mon, msg)
}

// ---------- C19 ----------

func (g *rgRunner) checkCapacity(t int, where string) {
	if len(g.members[t]) > g.max {
		g.V("C19", "capacity", fmt.Sprintf("%s: table %d is asked to hold %d players, capacity %d", where, t, len(g.members[t]), g.max))
	}
}

func (g *rgRunner) onRequestTable(ids []int) {
	if len(ids) > g.max {
		g.V("C19", "capacity", fmt.Sprintf("a table was opened for %d players, capacity %d", len(ids), g.max))
	}
	if g.status == "pending" {
		g.V("C19", "no_table_before_start", "a table was opened before the competition started")
	}
	if g.registered < g.min {
		g.V("C19", "no_table_before_min", fmt.Sprintf("a table was opened with %d registrants, minimum %d", g.registered, g.min))
	}
	if g.initial && len(ids) < g.min {
		g.V("C19", "initial_tables_have_min", fmt.Sprintf("the initial allocation opened a table for %d players, minimum %d", len(ids), g.min))
	}
}

// ---------- C09: conservation and counts at a quiescent point ----------

func (g *rgRunner) checkConservation(where string) {
	place := map[int]string{}
	put := func(id int, w string) {
		if p, dup := place[id]; dup {
			g.V("C09", "conservation", fmt.Sprintf("%s: player %d is in two places: %s and %s", where, id, p, w))
		}
		place[id] = w
	}
	for _, id := range g.queue() {
		put(id, "queue")
	}
	for t, ms := range g.members {
		for _, id := range ms {
			put(id, fmt.Sprintf("table %d", t))
		}
	}
	for t, ms := range g.inflight {
		for _, id := range ms {
			put(id, fmt.Sprintf("on the way back from table %d", t))
		}
	}
	for id := range g.alive {
		if _, ok := place[id]; !ok {
			g.V("C09", "conservation", fmt.Sprintf("%s: player %d is neither queued nor at a table (dropped)", where, id))
		}
	}
	for id, w := range place {
		if !g.alive[id] {
			g.V("C09", "conservation", fmt.Sprintf("%s: eliminated / unknown player %d is in %s", where, id, w))
		}
	}
	if g.r.GetPlayerCount() != len(g.alive) {
		g.V("C09", "counts_agree", fmt.Sprintf("%s: GetPlayerCount %d, real %d", where, g.r.GetPlayerCount(), len(g.alive)))
	}
	if g.r.GetTableCount() != len(g.members) {
		g.V("C09", "counts_agree", fmt.Sprintf("%s: GetTableCount %d, real %d", where, g.r.GetTableCount(), len(g.members)))
	}
	for t, ms := range g.members {
		rt := g.r.GetTable(itoa(int64(t)))
		if rt == nil {
			g.V("C09", "counts_agree", fmt.Sprintf("%s: table %d exists but the regulator does not know it", where, t))
			continue
		}
		if rt.PlayerCount != len(ms) {
			g.V("C09", "counts_agree", fmt.Sprintf("%s: table %d: regulator counts %d players, real %d", where, t, rt.PlayerCount, len(ms)))
		}
		if rt.PlayerCount+rt.Required > g.max && rt.Required > 0 {
			g.V("C19", "capacity", fmt.Sprintf("%s: table %d holds %d and is asked for %d more, capacity %d", where, t, rt.PlayerCount, rt.Required, g.max))
		}
		g.checkCapacity(t, where)
	}
}

func (g *rgRunner) checkHandout(where string) {
	inPre := map[int]int{}
	for _, id := range g.preQueue {
		inPre[id]++
	}
	seen := map[int]bool{}
	post := map[int]bool{}
	for _, id := range g.queue() {
		post[id] = true
	}
	for _, id := range g.handed {
		if seen[id] {
			g.V("C09", "handout_once", fmt.Sprintf("%s: player %d handed out twice", where, id))
		}
		seen[id] = true
		if post[id] {
			g.V("C09", "handout_once", fmt.Sprintf("%s: player %d handed out but still queued", where, id))
		}
	}
}

func (g *rgRunner) fail(line string) {
	g.dead = true
	g.o.Emit(line, "rg err=panic")
	g.V("C09", "panic", "regulator panicked on "+line)
}

// ---------- operations ----------

func (g *rgRunner) add(ids []int) {
	if g.dead {
		return
	}
	g.begin()
	var err error
	if g.status != "after" {
		g.registered += len(ids)
	}
	_, pan := safely(func() error { err = g.r.AddPlayers(toNames(ids)); return nil })
	line := fmt.Sprintf("rg add %s %s", pidStr(ids), joinList(g.choices, ","))
	if pan {
		g.fail(line)
		return
	}
	e := "none"
	if err != nil {
		e = "afterregdeadline"
		if err != regulator.ErrAfterRegDealline {
			e = "other"
		}
	}
	if g.status == "after" {
		if err == nil {
			g.V("C09", "late_registration_refused", "registration after the deadline accepted")
		}
	} else if err != nil {
		g.V("C09", "late_registration_refused", "registration before the deadline refused: "+err.Error())
	}
	if err == nil {
		for _, id := range ids {
			g.alive[id] = true
		}
		g.preQueue = append(g.preQueue, ids...)
	} else if len(g.calls) > 0 || fmt.Sprint(g.queue()) != fmt.Sprint(g.preQueue) {
		g.V("C09", "late_registration_refused", "refused registration changed the regulator")
	}
	g.o.Emit(line, g.obs(e, 0, nil))
	g.o.Count("rg.ops.add")
	g.checkHandout(line)
	g.checkConservation(line)
}

func (g *rgRunner) setStatus(s string) {
	if g.dead {
		return
	}
	g.begin()
	if s == "pending" && g.status != "pending" {
		g.backward = true
		g.o.Count("rg.status_back_to_pending")
	}
	g.status = s
	v := regulator.CompetitionStatus(regulator.CompetitionStatus_Pending)
	switch s {
	case "normal":
		v = regulator.CompetitionStatus_Normal
	case "after":
		v = regulator.CompetitionStatus_AfterRegDeadline
	}
	_, pan := safely(func() error { g.r.SetStatus(v); return nil })
	line := fmt.Sprintf("rg status %s %s", s, joinList(g.choices, ","))
	if pan {
		g.fail(line)
		return
	}
	g.o.Emit(line, g.obs("none", 0, nil))
	g.o.Count("rg.ops.status")
	g.checkHandout(line)
	g.checkConservation(line)
}

func (g *rgRunner) release(t int, ids []int) {
	if g.dead {
		return
	}
	g.begin()
	var err error
	_, pan := safely(func() error { err = g.r.ReleasePlayers(itoa(int64(t)), toNames(ids)); return nil })
	line := fmt.Sprintf("rg release %d %s %s", t, pidStr(ids), joinList(g.choices, ","))
	if pan {
		g.fail(line)
		return
	}
	_ = err
	g.preQueue = append(g.preQueue, ids...)
	g.o.Emit(line, g.obs("none", 0, nil))
	g.o.Count("rg.ops.release")
	g.checkHandout(line)
	g.checkConservation(line)
}

// flush: a delayed release report of table t arrives.
func (g *rgRunner) flush(t int) {
	ids := g.inflight[t]
	delete(g.inflight, t)
	if len(ids) > 0 {
		g.release(t, ids)
	}
}

func (g *rgRunner) flushAll() {
	ts := []int{}
	for t := range g.inflight {
		ts = append(ts, t)
	}
	sort.Ints(ts)
	for _, t := range ts {
		g.flush(t)
	}
}

// sync: the table reports `out` eliminations, then carries out what it is told.
// Returns whether the regulator asked for anything (release, new players or break).
func (g *rgRunner) sync(t int, out int, rng *Rng) bool {
	if g.dead {
		return false
	}
	_, known0 := g.members[t]
	if out == 0 && known0 && g.status != "pending" && len(g.inflight) == 0 && !g.async {
		pre := g.measure()
		asked := g.sync1(t, out, rng)
		post := g.measure()
		c := lexCmp(post, pre)
		if asked && c >= 0 {
			g.V("C20", "measure_decreases", fmt.Sprintf("elimination-free sync of table %d asked for a move but the termination measure went from %v to %v", t, pre, post))
		} else if !asked && c > 0 {
			g.V("C20", "measure_decreases", fmt.Sprintf("elimination-free sync of table %d asked for nothing but the termination measure rose from %v to %v", t, pre, post))
		}
		g.o.Count("rg.measure_checked")
		return asked
	}
	return g.sync1(t, out, rng)
}

func (g *rgRunner) sync1(t int, out int, rng *Rng) bool {
	if g.dead {
		return false
	}
	g.begin()
	ms, known := g.members[t]
	var elim []int
	if known {
		// eliminate `out` members first
		for k := 0; k < out && len(ms) > 0; k++ {
			i := rng.Intn(len(ms))
			if g.forced && k < len(g.forceElim) {
				for j, id := range ms {
					if id == g.forceElim[k] {
						i = j
					}
				}
			}
			elim = append(elim, ms[i])
			delete(g.alive, ms[i])
			ms = append(ms[:i], ms[i+1:]...)
		}
		g.members[t] = ms
	}
	var rel int
	var nw []string
	var err error
	prePlayers, preTables := g.r.GetPlayerCount(), g.r.GetTableCount()
	_, pan := safely(func() error { rel, nw, err = g.r.SyncState(itoa(int64(t)), out); return nil })
	line := fmt.Sprintf("rg sync %d %d %s", t, out, pidStr(elim))
	if pan {
		g.fail(line)
		return false
	}
	e := "none"
	if err != nil {
		e = "notfoundtable"
		if err != regulator.ErrNotFoundTable {
			e = "other"
		}
	}
	if !known {
		if err == nil {
			g.V("C09", "unknown_table_refused", fmt.Sprintf("SyncState on unknown table %d accepted", t))
		} else if g.r.GetPlayerCount() != prePlayers || g.r.GetTableCount() != preTables || fmt.Sprint(g.queue()) != fmt.Sprint(g.preQueue) {
			g.V("C09", "unknown_table_refused", "refused SyncState changed the regulator")
		}
		g.o.Emit(line, g.obs(e, rel, fromNames(nw)))
		g.o.Count("rg.ops.sync_unknown")
		return false
	}
	if err != nil {
		g.V("C09", "unknown_table_refused", fmt.Sprintf("SyncState on existing table %d refused: %v", t, err))
	}
	nwIDs := fromNames(nw)
	g.handed = append(g.handed, nwIDs...)
	g.o.Emit(line, g.obs(e, rel, nwIDs))
	g.o.Count("rg.ops.sync")
	g.checkHandout(line)
	// carry out the instructions
	g.members[t] = append(g.members[t], nwIDs...)
	g.checkCapacity(t, line)
	broken := g.r.GetTable(itoa(int64(t))) == nil
	asked := rel > 0 || len(nwIDs) > 0 || broken
	if broken && rel != len(g.members[t]) {
		g.V("C20", "break_returns_all", fmt.Sprintf("table %d was broken with %d players but told to release %d", t, len(g.members[t]), rel))
	}
	if rel > len(g.members[t]) {
		g.V("C09", "counts_agree", fmt.Sprintf("%s asks to release %d players, the table has %d", line, rel, len(g.members[t])))
		rel = len(g.members[t])
	}
	var released []int
	if broken {
		released = g.members[t]
		delete(g.members, t)
		g.o.Count("rg.breaks")
	} else {
		ms := g.members[t]
		for k := 0; k < rel; k++ {
			i := rng.Intn(len(ms))
			if g.forced && k < len(g.forceRel) {
				for j, id := range ms {
					if id == g.forceRel[k] {
						i = j
					}
				}
			}
			released = append(released, ms[i])
			ms = append(ms[:i], ms[i+1:]...)
		}
		g.members[t] = ms
	}
	if (len(released) > 0 || broken) && (g.delayNext || (g.async && !g.forced && rng.Chance(0.6))) {
		// the players leave the table now; the table reports the release later (flush), other operations come first
		g.inflight[t] = append(g.inflight[t], released...)
		g.o.Count("rg.release_delayed")
		g.checkConservation(line)
		return asked
	}
	if len(released) > 0 || broken {
		g.release(t, released)
		if broken {
			q := map[int]bool{}
			for _, id := range g.queue() {
				q[id] = true
			}
			for _, id := range released {
				at := false
				for _, ms := range g.members {
					for _, m := range ms {
						if m == id {
							at = true
						}
					}
				}
				if !q[id] && !at {
					g.V("C20", "break_returns_all", fmt.Sprintf("player %d of broken table %d is neither queued nor seated elsewhere", id, t))
				}
			}
		}
	} else {
		g.checkConservation(line)
	}
	return asked
}

// measure: the termination measure of Proofs/RegMeasure.lean (theorem RSys.quiet_step: every
// elimination-free sync that asks its table for something strictly lowers it, every other one
// never raises it), evaluated on the implementation's own counters.
func (g *rgRunner) measure() [6]int {
	pc := g.r.GetPlayerCount()
	T := g.r.GetTableCount()
	R := 0
	if g.max > 0 {
		R = (pc + g.max - 1) / g.max
	}
	F := 0
	if R > 0 {
		F = pc / R
	}
	var v [6]int
	pos := func(x int) int {
		if x < 0 {
			return 0
		}
		return x
	}
	min1 := func(x int) int {
		if x > 1 {
			return 1
		}
		return x
	}
	for id := range g.members {
		t := g.r.GetTable(itoa(int64(id)))
		if t == nil {
			continue
		}
		c, q := t.PlayerCount, t.Required
		d := min1(pos(F - c))
		v[1] += d
		if c+q < F {
			v[2] += pos(q)
		}
		a := min1(pos(1 - q))
		if d < a {
			a = d
		}
		v[3] += a
		m := c
		if F > m {
			m = F
		}
		v[4] += pos(c + q - m)
		if c > F {
			v[5] += c - F
		} else {
			v[5] += F - c
		}
	}
	if v[1] == 0 && T == R {
		return [6]int{}
	}
	if T > R {
		v[0] = T - R
	} else {
		v[0] = R - T
	}
	return v
}

func lexCmp(a, b [6]int) int {
	for i := range a {
		if a[i] != b[i] {
			if a[i] < b[i] {
				return -1
			}
			return 1
		}
	}
	return 0
}

func (g *rgRunner) tableIDs() []int {
	ids := []int{}
	for id := range g.members {
		ids = append(ids, id)
	}
	sort.Ints(ids)
	return ids
}

// smallBound: the bound of theorem C20.rebalancing_settles_small on the number of sweeps that ask for something
// (2(e+1)max + 5T + 2e + 2(max+3)u + 1 with T tables, e spare and u missing tables), on the regulator's own counters.
// No bound of the form T + C holds (C20.sweeps_exceed_tables_plus_ten).
func (g *rgRunner) smallBound() int {
	n, t := g.r.GetPlayerCount(), g.r.GetTableCount()
	r := 0
	if g.max > 0 {
		r = (n + g.max - 1) / g.max
	}
	e, u := t-r, r-t
	if e < 0 {
		e = 0
	}
	if u < 0 {
		u = 0
	}
	return 2*(e+1)*g.max + 5*t + 2*e + 2*(g.max+3)*u + 1
}

// settle: with no registrations and no eliminations, sweep all tables until a whole sweep
// asks for nothing (C20).  Returns the number of sweeps that asked for something.
func (g *rgRunner) settle(rng *Rng, limit int) int {
	g.flushAll() // "carrying out the moves the regulator asks for": nothing is left under way in a settle phase
	was := g.async
	g.async = false
	defer func() { g.async = was }()
	sweeps := 0
	for sweeps <= limit && !g.dead {
		ids := g.tableIDs()
		rng.Shuffle(len(ids), func(i, j int) { ids[i], ids[j] = ids[j], ids[i] })
		asked := false
		for _, t := range ids {
			if _, ok := g.members[t]; !ok {
				continue
			}
			if g.sync(t, 0, rng) {
				asked = true
			}
		}
		if !asked {
			return sweeps
		}
		sweeps++
	}
	return sweeps
}

// replay re-executes recorded regulator lines.  The members eliminated and released are taken
// from the recorded lines; which table getAvailableTable picks is a Go map iteration and may
// differ from the recorded run.
func (g *rgRunner) replay(lines []string) {
	rng := NewRng(1)
	for k, l := range lines {
		f := strings.Fields(l)
		if len(f) < 2 || f[0] != "rg" {
			continue
		}
		switch f[1] {
		case "new":
			g.newRG(int(atoi(f[2])), int(atoi(f[3])))
		case "add":
			ids := parseIDs(f[2])
			for _, id := range ids {
				if id > g.nextPid {
					g.nextPid = id
				}
			}
			g.add(ids)
		case "status":
			g.setStatus(f[2])
		case "sync":
			g.forced, g.forceElim, g.forceRel, g.delayNext = true, nil, nil, false
			if len(f) > 4 {
				g.forceElim = parseIDs(f[4])
			}
			// the release that belongs to this sync: the next line when it was reported at once, a later
			// `release` line of the same table (before its next sync) when it was delayed
			for j := k + 1; j < len(lines); j++ {
				nf := strings.Fields(lines[j])
				if len(nf) > 3 && nf[1] == "release" && nf[2] == f[2] {
					g.forceRel = parseIDs(nf[3])
					g.delayNext = j > k+1
					break
				}
				if len(nf) > 2 && (nf[1] == "new" || (nf[1] == "sync" && nf[2] == f[2])) {
					break
				}
			}
			g.sync(int(atoi(f[2])), int(atoi(f[3])), rng)
			g.forced, g.delayNext = false, false
		case "release":
			// reported at once: carried out by the sync that precedes it; delayed: arrives now
			if _, ok := g.inflight[int(atoi(f[2]))]; ok {
				g.flush(int(atoi(f[2])))
			}
		}
	}
}

func runRG(dir string, seed uint64, n int) {
	o := NewOut(dir, "rg")
	rng := NewRng(seed)
	g := &rgRunner{o: o}
	maxSweeps := 0
	for it := 0; it < n; it++ {
		max := 2 + rng.Intn(9)
		min := 2 + rng.Intn(max-1)
		if rng.Chance(0.3) {
			max, min = 9, 6
		} else if rng.Chance(0.1) {
			// bigger tables, minimum above the default table size
			max = 10 + rng.Intn(5)
			min = 2 + rng.Intn(max-1)
			if rng.Chance(0.6) {
				min = 10 + rng.Intn(max-9)
			}
		} else if rng.Chance(0.12) {
			// settings outside 2 <= min <= max (C09 and C20 say "all settings"): one-seat tables, min above max, min 0 or 1
			max = 1 + rng.Intn(3)
			min = rng.Intn(6)
			o.Count("rg.odd_settings")
		}
		asyncH := rng.Chance(0.25) // tables of this history report their releases late: syncs of other tables, registrations and status changes come in between
		backP := 0.0
		if rng.Chance(0.1) {
			backP = 0.25 // a history in which the status may go back to pending (C09 only)
		}
		g.newRG(max, min)
		if asyncH {
			g.async = true
			o.Count("rg.async_histories")
		}
		steps := 5 + rng.Intn(40)
		for s := 0; s < steps && !g.dead; s++ {
			k := rng.Intn(100)
			if len(g.inflight) > 0 && rng.Chance(0.35) {
				ts := []int{}
				for t := range g.inflight {
					ts = append(ts, t)
				}
				sort.Ints(ts)
				g.flush(ts[rng.Intn(len(ts))])
				continue
			}
			switch {
			case k < 30:
				cnt := 1 + rng.Intn(4)
				if rng.Chance(0.25) {
					cnt = 1 + rng.Intn(3*max)
				}
				if rng.Chance(0.03) {
					cnt = 0 // an empty batch
					o.Count("rg.empty_batches")
				}
				ids := []int{}
				for j := 0; j < cnt; j++ {
					g.nextPid++
					ids = append(ids, g.nextPid)
				}
				g.add(ids)
			case k < 38 && g.status != "pending" && rng.Chance(backP):
				g.setStatus("pending")
			case k < 38:
				switch g.status {
				case "pending":
					g.setStatus("normal")
				case "normal":
					if rng.Chance(0.5) {
						g.setStatus("after")
					} else {
						g.setStatus("normal")
					}
				default:
					g.setStatus("after")
				}
			case k < 80:
				ids := g.tableIDs()
				if len(ids) == 0 {
					continue
				}
				t := ids[rng.Intn(len(ids))]
				out := 0
				if rng.Chance(0.6) {
					out = rng.Intn(len(g.members[t]) + 1)
					if rng.Chance(0.7) && out > 2 {
						out = 1 + rng.Intn(2)
					}
				}
				g.sync(t, out, rng)
			case k < 84:
				g.sync(900+rng.Intn(5), rng.Intn(3), rng)
			default:
				if len(g.members) > 0 {
					g.flushAll()
					limit := g.smallBound() // of the state the settle phase starts from
					sw := g.settle(rng, limit)
					o.Count(fmt.Sprintf("rg.settle_sweeps.%d", sw))
					if sw > maxSweeps {
						maxSweeps = sw
					}
					if sw > limit {
						g.V("C20", "rebalancing_settles", fmt.Sprintf("%d sweeps without registrations or eliminations and tables are still asked to move players (%d tables)", sw, len(g.members)))
					}
					o.Mark("C20", fmt.Sprintf("%d/%d/%d/%v", max, min, len(g.alive), sw))
				}
			}
		}
		g.flushAll()
		o.Count(fmt.Sprintf("rg.max.%d", max))
		o.Mark("C09", fmt.Sprintf("%d/%d/%d/%d", max, min, len(g.alive), len(g.members)))
		o.Mark("C19", fmt.Sprintf("%d/%d/%d/%d", max, min, g.registered, g.nextTbl))
		if it < 2 {
			o.Sample(strings.Join(o.hist, " ; "))
		}
	}
	o.Stats["rg.max_sweeps"] = maxSweeps
	o.Close(dir, "rg", seed)
}
