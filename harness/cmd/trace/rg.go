package main

import (
	"fmt"
	"sort"
	"strings"

	"github.com/weedbox/pokerface/regulator"
)

// The environment of DESIGN §5: tables that follow the regulator's instructions.
type rgRunner struct {
	o          *Out
	r          regulator.Regulator
	max, min   int
	status     string
	members    map[int][]int // table id -> player ids at the table
	alive      map[int]bool  // registered and not eliminated
	nextTbl    int
	nextPid    int
	reentry    *Rng     // generator runs only
	busted     []int    // players eliminated in this history: candidates for a re-entry (the regulator knows names, not identities)
	calls      []string // callbacks of the current operation
	choices    []string // table ids picked by getAvailableTable during the current operation
	handed     []int    // ids handed out (callbacks / SyncState result) during the current operation
	preQueue   []int
	dead       bool
	started    bool
	everMin    bool
	initial    bool // the operation at hand started with no table open
	registered int
	forceElim  []int // replay: the members to eliminate in the next sync (nil = choose at random)
	forceRel   []int // replay: the members to release after the next sync (nil = choose at random)
	forced     bool
	forceNil   bool          // replay: the empty release of the next sync is a nil slice
	backward   bool          // the status went back to pending after the start (outside the histories of C19 / C20)
	async      bool          // this history delays the ReleasePlayers reports of its tables (other operations come in between)
	inflight   map[int][]int // table id -> players who have left that table and whose release has not been reported yet
	delayNext  bool          // replay: the release of the sync at hand is reported later
	delayed    bool          // the release of the last sync was not reported at once
	syncNow    bool          // the release of the sync at hand is reported at once, also in an asynchronous history (measure check)
	brokenIDs  []int         // tables broken so far in this history: the realistic unknown tables of C09
	brokenWay  map[int]bool  // table id -> the players on the way back from it left because the table was broken
	nilBatch   bool          // the empty batch of the operation at hand is passed as a nil slice
	tourney    bool          // the history at hand is a full tournament
	inOp       bool          // an operation is running and its input line has not been written yet
	pending    [][3]string   // violations found meanwhile (property, monitor, message)
}

func pidStr(ids []int) string {
	xs := []string{}
	for _, i := range ids {
		xs = append(xs, itoa(int64(i)))
	}
	return joinList(xs, ",")
}

// batchStr: an empty batch that was passed as a nil slice is written `nil` (the model reads it as the empty list).
func batchStr(ids []int, isNil bool) string {
	if isNil && len(ids) == 0 {
		return "nil"
	}
	return pidStr(ids)
}

func parseIDs(s string) []int {
	out := []int{}
	if s == "nil" {
		return out
	}
	for _, x := range splitList(s, ",") {
		out = append(out, int(atoi(x)))
	}
	return out
}

func toNames(ids []int) []string {
	xs := make([]string, len(ids))
	for i, v := range ids {
		xs[i] = itoa(int64(v))
	}
	return xs
}

func fromNames(xs []string) []int {
	out := make([]int, len(xs))
	for i, v := range xs {
		out[i] = int(atoi(v))
	}
	return out
}

func (g *rgRunner) queue() []int { return fromNames(regulator.WaitingQueueSnapshot(g.r)) }

func (g *rgRunner) newRG(max, min int) {
	g.o.BeginHistory()
	g.max, g.min = max, min
	g.members = map[int][]int{}
	g.alive = map[int]bool{}
	g.nextTbl, g.nextPid = 0, 0
	g.status = "pending"
	g.dead, g.started, g.everMin, g.backward = false, false, false, false
	g.async, g.inflight, g.delayNext = false, map[int][]int{}, false
	g.syncNow, g.brokenIDs, g.brokenWay, g.nilBatch, g.tourney, g.inOp, g.pending = false, nil, map[int]bool{}, false, false, false, nil
	g.registered = 0
	g.busted = nil
	g.calls, g.choices, g.handed = nil, nil, nil
	// the two settings in either order (it depends on the settings themselves, so that a history replays the same way)
	first, second := regulator.MaxPlayersPerTable(max), regulator.MinInitialPlayers(min)
	if (max+min)%2 == 1 {
		first, second = second, first
	}
	g.r = regulator.NewRegulator(
		first,
		second,
		regulator.WithRequestTableFn(func(players []string) (string, error) {
			g.nextTbl++
			ids := fromNames(players)
			g.members[g.nextTbl] = append([]int{}, ids...)
			g.calls = append(g.calls, fmt.Sprintf("R:%d:%s", g.nextTbl, pidStr(ids)))
			g.handed = append(g.handed, ids...)
			g.onRequestTable(ids)
			return itoa(int64(g.nextTbl)), nil
		}),
		regulator.WithAssignPlayersFn(func(tableID string, players []string) error {
			t := int(atoi(tableID))
			ids := fromNames(players)
			g.calls = append(g.calls, fmt.Sprintf("A:%d:%s", t, pidStr(ids)))
			g.choices = append(g.choices, tableID)
			g.handed = append(g.handed, ids...)
			if _, ok := g.members[t]; !ok {
				g.V("C09", "assign_unknown_table", fmt.Sprintf("players %v assigned to table %d which does not exist", ids, t))
			}
			g.members[t] = append(g.members[t], ids...)
			g.checkCapacity(t, "assignPlayersFn")
			return nil
		}),
	)
	g.o.Emit(fmt.Sprintf("rg new %d %d", max, min), g.obs("none", 0, nil))
}

func (g *rgRunner) obs(e string, rel int, nw []int) string {
	tbls := []string{}
	ids := []int{}
	for id := range g.members {
		ids = append(ids, id)
	}
	sort.Ints(ids)
	for _, id := range ids {
		if t := g.r.GetTable(itoa(int64(id))); t != nil {
			tbls = append(tbls, fmt.Sprintf("%d/%d/%d", id, t.PlayerCount, t.Required))
		}
	}
	return fmt.Sprintf("rg err=%s players=%d tables=%d queue=%s tbl=%s calls=%s rel=%d new=%s", e, g.r.GetPlayerCount(), g.r.GetTableCount(),
		pidStr(g.queue()), joinList(tbls, ";"), joinList(g.calls, ";"), rel, pidStr(nw))
}

func (g *rgRunner) begin() {
	g.calls, g.choices, g.handed = nil, nil, nil
	g.preQueue = g.queue()
	g.initial = g.r.GetTableCount() == 0
	g.inOp = true
}

// sheet: the regulator's table sheet id/PlayerCount/Required of every table the environment knows.
func (g *rgRunner) sheet() string {
	xs := []string{}
	for _, id := range g.tableIDs() {
		if t := g.r.GetTable(itoa(int64(id))); t != nil {
			xs = append(xs, fmt.Sprintf("%d/%d/%d", id, t.PlayerCount, t.Required))
		} else {
			xs = append(xs, fmt.Sprintf("%d/nil", id))
		}
	}
	return joinList(xs, ";")
}

// V reports a monitor violation inside the domain of the property: C19 is stated for 2 <= min <= max and, like
// C20's settling sentence, for phases that only move forward (DESIGN I13; C19.capacity_fails_after_return_to_pending
// is the kernel-checked witness that capacity fails otherwise); C09 and break_returns_all hold on the wide domain.
// "Forward" is what RSys.ok (Model/RegulatorEnv.lean) allows: every status change except a return to pending once
// the competition has left it.  So pending -> after directly and after -> normal (registration re-opened) are INSIDE
// the domain of the C19 / C20 theorems and are not gated; only g.backward (a return to pending) is.
func (g *rgRunner) V(prop, mon, msg string) {
	if prop == "C19" && (g.backward || g.min < 2 || g.min > g.max) {
		g.o.Count("rg.outside_domain.C19")
		// by cause (a history can have both) and by monitor
		if g.backward {
			g.o.Count("rg.outside_domain.C19.backward")
			g.o.Count("rg.outside_domain.C19.backward." + mon)
		}
		if g.min < 2 || g.min > g.max {
			g.o.Count("rg.outside_domain.C19.settings")
			g.o.Count("rg.outside_domain.C19.settings." + mon)
		}
		return
	}
	if prop == "C20" && g.backward && mon != "break_returns_all" {
		g.o.Count("rg.outside_domain.C20")
		return
	}
	if g.inOp {
		// found while the operation is running (in a callback, or before its input line is complete): reported once the
		// line has been written, so that the recorded history ends with the failing line
		g.pending = append(g.pending, [3]string{prop, mon, msg})
		return
	}
	g.o.Violate(prop, mon, msg)
}

// emit writes the input line and the observation of the operation at hand, then reports what the monitors found during it.
func (g *rgRunner) emit(line, obs string) {
	g.o.Emit(line, obs)
	g.inOp = false
	for _, v := range g.pending {
		g.o.Violate(v[0], v[1], v[2])
	}
	g.pending = nil
}

// ---------- C19 ----------

func (g *rgRunner) checkCapacity(t int, where string) {
	if len(g.members[t]) > g.max {
		g.V("C19", "capacity", fmt.Sprintf("%s: table %d is asked to hold %d players, capacity %d", where, t, len(g.members[t]), g.max))
	}
}

func (g *rgRunner) onRequestTable(ids []int) {
	if len(ids) > g.max {
		g.V("C19", "capacity", fmt.Sprintf("a table was opened for %d players, capacity %d", len(ids), g.max))
	}
	if g.status == "pending" {
		g.V("C19", "no_table_before_start", "a table was opened before the competition started")
	}
	if g.registered < g.min {
		g.V("C19", "no_table_before_min", fmt.Sprintf("a table was opened with %d registrants, minimum %d", g.registered, g.min))
	}
	if g.initial && len(ids) < g.min {
		g.V("C19", "initial_tables_have_min", fmt.Sprintf("the initial allocation opened a table for %d players, minimum %d", len(ids), g.min))
	}
}

// ---------- C09: conservation and counts at a quiescent point ----------

func (g *rgRunner) checkConservation(where string) {
	place := map[int]string{}
	put := func(id int, w string) {
		if p, dup := place[id]; dup {
			g.V("C09", "conservation", fmt.Sprintf("%s: player %d is in two places: %s and %s", where, id, p, w))
		}
		place[id] = w
	}
	for _, id := range g.queue() {
		put(id, "queue")
	}
	for t, ms := range g.members {
		for _, id := range ms {
			put(id, fmt.Sprintf("table %d", t))
		}
	}
	for t, ms := range g.inflight {
		for _, id := range ms {
			put(id, fmt.Sprintf("on the way back from table %d", t))
		}
	}
	for id := range g.alive {
		if _, ok := place[id]; !ok {
			g.V("C09", "conservation", fmt.Sprintf("%s: player %d is neither queued nor at a table (dropped)", where, id))
		}
	}
	for id, w := range place {
		if !g.alive[id] {
			g.V("C09", "conservation", fmt.Sprintf("%s: eliminated / unknown player %d is in %s", where, id, w))
		}
	}
	if g.r.GetPlayerCount() != len(g.alive) {
		g.V("C09", "counts_agree", fmt.Sprintf("%s: GetPlayerCount %d, real %d", where, g.r.GetPlayerCount(), len(g.alive)))
	}
	if g.r.GetTableCount() != len(g.members) {
		g.V("C09", "counts_agree", fmt.Sprintf("%s: GetTableCount %d, real %d", where, g.r.GetTableCount(), len(g.members)))
	}
	for t, ms := range g.members {
		rt := g.r.GetTable(itoa(int64(t)))
		if rt == nil {
			g.V("C09", "counts_agree", fmt.Sprintf("%s: table %d exists but the regulator does not know it", where, t))
			continue
		}
		if rt.PlayerCount != len(ms) {
			g.V("C09", "counts_agree", fmt.Sprintf("%s: table %d: regulator counts %d players, real %d", where, t, rt.PlayerCount, len(ms)))
		}
		if rt.PlayerCount+rt.Required > g.max && rt.Required > 0 {
			g.V("C19", "capacity", fmt.Sprintf("%s: table %d holds %d and is asked for %d more, capacity %d", where, t, rt.PlayerCount, rt.Required, g.max))
		}
		g.checkCapacity(t, where)
	}
}

// checkHandout: theorems C09.handout_once / handout_once_async — the queue before the operation followed by the
// players entering it (the registrants / the players whose release is reported; g.preQueue holds both) is, IN ORDER,
// the players returned by SyncState, then the players passed to the callbacks, then the queue after the operation,
// and no id occurs twice in that list.  So everybody handed out came from the waiting queue or was released /
// registered in this very operation, nobody is handed out twice or handed out and still queued, nobody leaves the
// queue in another way, and the queue is served first in, first out.
func (g *rgRunner) checkHandout(where string) {
	inPre := map[int]int{}
	for _, id := range g.preQueue {
		inPre[id]++
	}
	seen := map[int]bool{}
	post := map[int]bool{}
	after := g.queue()
	for _, id := range after {
		post[id] = true
	}
	clean := true
	for _, id := range g.handed {
		if seen[id] {
			g.V("C09", "handout_once", fmt.Sprintf("%s: player %d handed out twice", where, id))
			clean = false
		}
		seen[id] = true
		if post[id] {
			g.V("C09", "handout_once", fmt.Sprintf("%s: player %d handed out but still queued", where, id))
			clean = false
		}
		if inPre[id] == 0 {
			g.V("C09", "handout_from_queue", fmt.Sprintf("%s: player %d was handed out but was neither in the waiting queue nor registered / released in this operation", where, id))
			clean = false
		}
	}
	for _, id := range g.preQueue {
		if !seen[id] && !post[id] {
			g.V("C09", "handout_from_queue", fmt.Sprintf("%s: player %d left the waiting queue without being handed out", where, id))
			clean = false
		}
	}
	for _, id := range after {
		if inPre[id] == 0 {
			g.V("C09", "handout_from_queue", fmt.Sprintf("%s: player %d is queued but was neither queued before nor registered / released in this operation", where, id))
			clean = false
		}
	}
	if clean {
		// as sets everything agrees: compare the order (first in, first out)
		got := append(append([]int{}, g.handed...), after...)
		if fmt.Sprint(got) != fmt.Sprint(g.preQueue) {
			g.V("C09", "handout_in_order", fmt.Sprintf("%s: the queue %v was not served in order: handed out %v, left queued %v", where, g.preQueue, g.handed, after))
		}
		g.o.Count("rg.handout_order_checked")
	}
}

func (g *rgRunner) fail(line string) {
	g.dead = true
	g.emit(line, "rg err=panic")
	g.V("C09", "panic", "regulator panicked on "+line)
}

// ---------- operations ----------

func (g *rgRunner) add(ids []int) {
	if g.dead {
		return
	}
	g.begin()
	var err error
	if g.status != "after" {
		g.registered += len(ids)
	}
	names, isNil := toNames(ids), g.nilBatch && len(ids) == 0
	g.nilBatch = false
	if isNil {
		names = nil // AddPlayers(nil): an empty batch like any other
		g.o.Count("rg.nil_batches.add")
	}
	_, pan := safely(func() error { err = g.r.AddPlayers(names); return nil })
	for i := range names { // the caller re-uses its buffer: the regulator must not have kept the slice it was handed
		names[i] = "reused-buffer"
	}
	line := fmt.Sprintf("rg add %s %s", batchStr(ids, isNil), joinList(g.choices, ","))
	if pan {
		g.fail(line)
		return
	}
	e := "none"
	if err != nil {
		e = "afterregdeadline"
		if err != regulator.ErrAfterRegDealline {
			e = "other"
		}
	}
	if g.status == "after" {
		if err == nil {
			g.V("C09", "late_registration_refused", "registration after the deadline accepted")
		}
	} else if err != nil {
		g.V("C09", "late_registration_refused", "registration before the deadline refused: "+err.Error())
	}
	if err == nil {
		for _, id := range ids {
			g.alive[id] = true
		}
		g.preQueue = append(g.preQueue, ids...)
	} else if len(g.calls) > 0 || fmt.Sprint(g.queue()) != fmt.Sprint(g.preQueue) {
		g.V("C09", "late_registration_refused", "refused registration changed the regulator")
	}
	g.emit(line, g.obs(e, 0, nil))
	g.o.Count("rg.ops.add")
	g.checkHandout(line)
	g.checkConservation(line)
}

func (g *rgRunner) setStatus(s string) {
	if g.dead {
		return
	}
	g.begin()
	if s == "pending" && g.status != "pending" {
		g.backward = true
		g.o.Count("rg.status_back_to_pending")
	}
	g.status = s
	v := regulator.CompetitionStatus(regulator.CompetitionStatus_Pending)
	switch s {
	case "normal":
		v = regulator.CompetitionStatus_Normal
	case "after":
		v = regulator.CompetitionStatus_AfterRegDeadline
	}
	_, pan := safely(func() error { g.r.SetStatus(v); return nil })
	line := fmt.Sprintf("rg status %s %s", s, joinList(g.choices, ","))
	if pan {
		g.fail(line)
		return
	}
	g.emit(line, g.obs("none", 0, nil))
	g.o.Count("rg.ops.status")
	g.checkHandout(line)
	g.checkConservation(line)
}

func (g *rgRunner) release(t int, ids []int) {
	if g.dead {
		return
	}
	g.begin()
	var err error
	names, isNil := toNames(ids), g.nilBatch && len(ids) == 0
	g.nilBatch = false
	if isNil {
		names = nil // the report of a table that was broken with nobody left
		g.o.Count("rg.nil_batches.release")
	}
	_, pan := safely(func() error { err = g.r.ReleasePlayers(itoa(int64(t)), names); return nil })
	for i := range names { // the caller re-uses its buffer: the regulator must not have kept the slice it was handed
		names[i] = "reused-buffer"
	}
	line := fmt.Sprintf("rg release %d %s %s", t, batchStr(ids, isNil), joinList(g.choices, ","))
	if pan {
		g.fail(line)
		return
	}
	_ = err
	g.preQueue = append(g.preQueue, ids...)
	g.emit(line, g.obs("none", 0, nil))
	g.o.Count("rg.ops.release")
	g.checkHandout(line)
	g.checkConservation(line)
}

// flush: a delayed release report of table t arrives (all the players on the way back from t).
func (g *rgRunner) flush(t int) { g.flushN(t, 0) }

// flushN: the table reports the first n of the players on the way back from it (n <= 0: all of them; ASys.report
// allows a report in several parts).  A late report is announced by a line `noise rg late <t>` (no meaning for the
// model), so that a recorded history tells a late report from one made at once.
func (g *rgRunner) flushN(t int, n int) {
	ids := g.inflight[t]
	if n > 0 && n < len(ids) {
		g.inflight[t] = append([]int{}, ids[n:]...)
		ids = ids[:n]
		g.o.Count("rg.late_reports_partial")
	} else {
		delete(g.inflight, t)
	}
	wasBroken := g.brokenWay[t]
	if _, more := g.inflight[t]; !more {
		delete(g.brokenWay, t)
	}
	if len(ids) > 0 && !g.dead {
		g.o.Emit(fmt.Sprintf("noise rg late %d", t), "ok")
		g.release(t, ids)
		g.o.Count("rg.late_reports")
		if _, open := g.members[t]; !open {
			g.o.Count("rg.late_reports_table_gone")
		}
		if wasBroken {
			g.checkReturned(t, ids, true)
		}
	}
}

// checkReturned: second half of C20.break_returns_all(_any) — every player of a table that was told to break is,
// once the table's ReleasePlayers report has been made, in the waiting queue or seated at ANOTHER table.  When the
// report arrives late (other operations came in between) the same follows from C09.handout_once_async (the reported
// players are, in order, part of what the report hands out or leaves queued) and C09.conservation_async.
func (g *rgRunner) checkReturned(t int, released []int, late bool) {
	if g.dead {
		return
	}
	q := map[int]bool{}
	for _, id := range g.queue() {
		q[id] = true
	}
	at := map[int]int{}
	for tb, ms := range g.members {
		for _, m := range ms {
			at[m] = tb
		}
	}
	how := ""
	if late {
		how = " (late report)"
		g.o.Count("rg.break_returns_all_late_checked")
	}
	for _, id := range released {
		tb, seated := at[id]
		if !q[id] && !seated {
			g.V("C20", "break_returns_all", fmt.Sprintf("player %d of broken table %d is neither queued nor seated elsewhere%s", id, t, how))
		} else if seated && tb == t {
			g.V("C20", "break_returns_all", fmt.Sprintf("player %d of broken table %d was sent back to that table%s", id, t, how))
		}
	}
}

func (g *rgRunner) flushAll() {
	ts := []int{}
	for t := range g.inflight {
		ts = append(ts, t)
	}
	sort.Ints(ts)
	for _, t := range ts {
		g.flush(t)
	}
}

// sync: the table reports `out` eliminations, then carries out what it is told.
// Returns whether the regulator asked for anything (release, new players or break).
func (g *rgRunner) sync(t int, out int, rng *Rng) bool {
	if g.dead {
		return false
	}
	_, known0 := g.members[t]
	// theorem RSys.quiet_step is about one step of the synchronous system: nobody on the way back, and the report of
	// this sync follows at once
	measurable := out == 0 && known0 && g.status != "pending" && len(g.inflight) == 0
	if measurable && g.async && !g.forced {
		// an asynchronous history at a moment when nobody is on the way back: half of the time this one report is made
		// to arrive at once, so that the step is a synchronous one and the measure can be checked (as in the settle phases)
		g.syncNow = rng.Chance(0.5)
		measurable = g.syncNow
	}
	if measurable {
		pre := g.measure()
		asked := g.sync1(t, out, rng)
		g.syncNow = false
		if g.delayed || g.dead {
			return asked // (replay) the report of this sync is late
		}
		post := g.measure()
		c := lexCmp(post, pre)
		if asked && c >= 0 {
			g.V("C20", "measure_decreases", fmt.Sprintf("elimination-free sync of table %d asked for a move but the termination measure went from %v to %v", t, pre, post))
		} else if !asked && c > 0 {
			g.V("C20", "measure_decreases", fmt.Sprintf("elimination-free sync of table %d asked for nothing but the termination measure rose from %v to %v", t, pre, post))
		}
		g.o.Count("rg.measure_checked")
		if g.async {
			g.o.Count("rg.measure_checked_async")
		}
		return asked
	}
	return g.sync1(t, out, rng)
}

func (g *rgRunner) sync1(t int, out int, rng *Rng) bool {
	if g.dead {
		return false
	}
	g.begin()
	g.delayed = false
	ms, known := g.members[t]
	var elim []int
	if known {
		// eliminate `out` members first
		for k := 0; k < out && len(ms) > 0; k++ {
			i := rng.Intn(len(ms))
			if g.forced && k < len(g.forceElim) {
				for j, id := range ms {
					if id == g.forceElim[k] {
						i = j
					}
				}
			}
			elim = append(elim, ms[i])
			delete(g.alive, ms[i])
			g.busted = append(g.busted, ms[i])
			ms = append(ms[:i], ms[i+1:]...)
		}
		g.members[t] = ms
	}
	var rel int
	var nw []string
	var err error
	prePlayers, preTables, preSheet := g.r.GetPlayerCount(), g.r.GetTableCount(), g.sheet()
	if known && len(g.inflight[t]) > 0 {
		g.o.Count("rg.sync_with_release_in_flight")
	}
	_, pan := safely(func() error { rel, nw, err = g.r.SyncState(itoa(int64(t)), out); return nil })
	line := fmt.Sprintf("rg sync %d %d %s", t, out, pidStr(elim))
	if pan {
		g.fail(line)
		return false
	}
	e := "none"
	if err != nil {
		e = "notfoundtable"
		if err != regulator.ErrNotFoundTable {
			e = "other"
		}
	}
	if !known {
		// C09.unknown_table_refused(_sys/_async): ErrNotFoundTable, asks for nothing, no callback, nothing changes
		// (totals, queue and every table's PlayerCount / Required); C09.unknown_iff: the regulator has no sheet for it
		if err == nil {
			g.V("C09", "unknown_table_refused", fmt.Sprintf("SyncState on unknown table %d accepted", t))
		} else if g.r.GetPlayerCount() != prePlayers || g.r.GetTableCount() != preTables || fmt.Sprint(g.queue()) != fmt.Sprint(g.preQueue) {
			g.V("C09", "unknown_table_refused", "refused SyncState changed the regulator")
		} else if post := g.sheet(); post != preSheet {
			g.V("C09", "unknown_table_refused", fmt.Sprintf("refused SyncState on table %d changed the table sheet from %s to %s", t, preSheet, post))
		} else if rel != 0 || len(nw) != 0 || len(g.calls) != 0 {
			g.V("C09", "unknown_table_refused", fmt.Sprintf("refused SyncState on table %d asks for something: release %d, new players %v, callbacks %v", t, rel, nw, g.calls))
		}
		if g.r.GetTable(itoa(int64(t))) != nil {
			g.V("C09", "unknown_table_refused", fmt.Sprintf("GetTable(%d) returns a sheet for a table that does not exist", t))
		}
		g.emit(line, g.obs(e, rel, fromNames(nw)))
		g.o.Count("rg.ops.sync_unknown")
		for _, b := range g.brokenIDs {
			if b == t {
				g.o.Count("rg.ops.sync_broken_table")
				if len(g.inflight[t]) > 0 {
					g.o.Count("rg.ops.sync_broken_table_release_in_flight")
				}
				break
			}
		}
		return false
	}
	if err != nil {
		g.V("C09", "unknown_table_refused", fmt.Sprintf("SyncState on existing table %d refused: %v", t, err))
	}
	nwIDs := fromNames(nw)
	g.handed = append(g.handed, nwIDs...)
	g.emit(line, g.obs(e, rel, nwIDs))
	g.o.Count("rg.ops.sync")
	if g.tourney {
		g.o.Count("rg.tournament_syncs")
	}
	g.checkHandout(line)
	// carry out the instructions
	g.members[t] = append(g.members[t], nwIDs...)
	g.checkCapacity(t, line)
	broken := g.r.GetTable(itoa(int64(t))) == nil
	asked := rel > 0 || len(nwIDs) > 0 || broken
	if broken && rel != len(g.members[t]) {
		g.V("C20", "break_returns_all", fmt.Sprintf("table %d was broken with %d players but told to release %d", t, len(g.members[t]), rel))
	}
	if rel > len(g.members[t]) {
		g.V("C09", "counts_agree", fmt.Sprintf("%s asks to release %d players, the table has %d", line, rel, len(g.members[t])))
		rel = len(g.members[t])
	}
	var released []int
	if broken {
		released = g.members[t]
		delete(g.members, t)
		g.brokenIDs = append(g.brokenIDs, t)
		g.o.Count("rg.breaks")
		if len(g.inflight[t]) > 0 {
			g.o.Count("rg.break_while_release_in_flight")
		}
	} else {
		ms := g.members[t]
		for k := 0; k < rel; k++ {
			i := rng.Intn(len(ms))
			if g.forced && k < len(g.forceRel) {
				for j, id := range ms {
					if id == g.forceRel[k] {
						i = j
					}
				}
			}
			released = append(released, ms[i])
			ms = append(ms[:i], ms[i+1:]...)
		}
		g.members[t] = ms
	}
	if (len(released) > 0 || broken) && (g.delayNext || (g.async && !g.forced && !g.syncNow && rng.Chance(0.6))) {
		// the players leave the table now; the table reports the release later (flush), other operations come first
		// (a table broken with nobody left has nothing to report)
		g.delayed = true
		if len(released) > 0 {
			g.inflight[t] = append(g.inflight[t], released...)
			g.o.Count("rg.release_delayed")
			if broken {
				g.brokenWay[t] = true
				g.o.Count("rg.release_delayed_broken")
			}
		}
		g.checkConservation(line)
		return asked
	}
	if len(released) > 0 || broken {
		if len(released) == 0 {
			g.nilBatch = g.forceNil || (!g.forced && rng.Chance(0.5))
		}
		g.release(t, released)
		if broken {
			g.checkReturned(t, released, false)
		}
	} else {
		g.checkConservation(line)
	}
	return asked
}

// measure: the termination measure of Proofs/RegMeasure.lean (theorem RSys.quiet_step: every
// elimination-free sync that asks its table for something strictly lowers it, every other one
// never raises it), evaluated on the implementation's own counters.
func (g *rgRunner) measure() [6]int {
	pc := g.r.GetPlayerCount()
	T := g.r.GetTableCount()
	R := 0
	if g.max > 0 {
		R = (pc + g.max - 1) / g.max
	}
	F := 0
	if R > 0 {
		F = pc / R
	}
	var v [6]int
	pos := func(x int) int {
		if x < 0 {
			return 0
		}
		return x
	}
	min1 := func(x int) int {
		if x > 1 {
			return 1
		}
		return x
	}
	for id := range g.members {
		t := g.r.GetTable(itoa(int64(id)))
		if t == nil {
			continue
		}
		c, q := t.PlayerCount, t.Required
		d := min1(pos(F - c))
		v[1] += d
		if c+q < F {
			v[2] += pos(q)
		}
		a := min1(pos(1 - q))
		if d < a {
			a = d
		}
		v[3] += a
		m := c
		if F > m {
			m = F
		}
		v[4] += pos(c + q - m)
		if c > F {
			v[5] += c - F
		} else {
			v[5] += F - c
		}
	}
	if v[1] == 0 && T == R {
		return [6]int{}
	}
	if T > R {
		v[0] = T - R
	} else {
		v[0] = R - T
	}
	return v
}

func lexCmp(a, b [6]int) int {
	for i := range a {
		if a[i] != b[i] {
			if a[i] < b[i] {
				return -1
			}
			return 1
		}
	}
	return 0
}

func (g *rgRunner) tableIDs() []int {
	ids := []int{}
	for id := range g.members {
		ids = append(ids, id)
	}
	sort.Ints(ids)
	return ids
}

// smallBound: the bound of theorem C20.rebalancing_settles_small on the number of sweeps that ask for something
// (2(e+1)max + 5T + 2e + 2(max+3)u + 1 with T tables, e spare and u missing tables), on the regulator's own counters.
// No bound of the form T + C holds (C20.sweeps_exceed_tables_plus_ten).
func (g *rgRunner) smallBound() int {
	n, t := g.r.GetPlayerCount(), g.r.GetTableCount()
	r := 0
	if g.max > 0 {
		r = (n + g.max - 1) / g.max
	}
	e, u := t-r, r-t
	if e < 0 {
		e = 0
	}
	if u < 0 {
		u = 0
	}
	return 2*(e+1)*g.max + 5*t + 2*e + 2*(g.max+3)*u + 1
}

// settle: with no registrations and no eliminations, sweep all tables until a whole sweep
// asks for nothing (C20).  Returns the number of sweeps that asked for something.
func (g *rgRunner) settle(rng *Rng, limit int) int {
	g.flushAll() // "carrying out the moves the regulator asks for": nothing is left under way in a settle phase
	was := g.async
	g.async = false
	defer func() { g.async = was }()
	sweeps := 0
	for sweeps <= limit && !g.dead {
		ids := g.tableIDs()
		rng.Shuffle(len(ids), func(i, j int) { ids[i], ids[j] = ids[j], ids[i] })
		asked := false
		for _, t := range ids {
			if _, ok := g.members[t]; !ok {
				continue
			}
			if g.sync(t, 0, rng) {
				asked = true
			}
		}
		if !asked {
			return sweeps
		}
		sweeps++
	}
	return sweeps
}

// replay re-executes recorded regulator lines.  The members eliminated and released are taken
// from the recorded lines; which table getAvailableTable picks is a Go map iteration and may
// differ from the recorded run.
func (g *rgRunner) replay(lines []string) {
	rng := NewRng(1)
	marked := false // late reports are announced by `noise rg late <t>` lines
	for _, l := range lines {
		if strings.HasPrefix(l, "noise rg late ") {
			marked = true
		}
	}
	for k, l := range lines {
		f := strings.Fields(l)
		if len(f) == 4 && f[0] == "noise" && f[1] == "rg" {
			f = []string{"rg", f[2], f[3]} // noise rg late <t>
		}
		if len(f) < 2 || f[0] != "rg" {
			continue
		}
		switch f[1] {
		case "new":
			g.newRG(int(atoi(f[2])), int(atoi(f[3])))
		case "add":
			ids := parseIDs(f[2])
			for _, id := range ids {
				if id > g.nextPid {
					g.nextPid = id
				}
			}
			g.nilBatch = f[2] == "nil"
			g.add(ids)
		case "status":
			g.setStatus(f[2])
		case "sync":
			g.forced, g.forceElim, g.forceRel, g.delayNext, g.forceNil = true, nil, nil, false, false
			if len(f) > 4 {
				g.forceElim = parseIDs(f[4])
			}
			if marked {
				g.lookahead(lines, k, f[2])
			} else {
				// histories recorded before late reports were announced: the release that belongs to this sync is the
				// next line when it was reported at once, a later `release` line of the same table (before its next
				// sync) when it was delayed
				for j := k + 1; j < len(lines); j++ {
					nf := strings.Fields(lines[j])
					if len(nf) > 3 && nf[1] == "release" && nf[2] == f[2] {
						g.forceRel = parseIDs(nf[3])
						g.forceNil = nf[3] == "nil"
						g.delayNext = j > k+1
						break
					}
					if len(nf) > 2 && (nf[1] == "new" || (nf[1] == "sync" && nf[2] == f[2])) {
						break
					}
				}
			}
			g.sync(int(atoi(f[2])), int(atoi(f[3])), rng)
			g.forced, g.delayNext, g.forceNil = false, false, false
		case "release":
			// reported at once: carried out by the sync that precedes it; delayed: arrives now
			if _, ok := g.inflight[int(atoi(f[2]))]; ok && !marked {
				g.flush(int(atoi(f[2])))
			}
		case "late":
			// `noise rg late <t>`: the release line that follows is a late report of (the first) players on the way back from t
			if k+1 < len(lines) {
				nf := strings.Fields(lines[k+1])
				if len(nf) > 3 && nf[0] == "rg" && nf[1] == "release" && nf[2] == f[2] {
					if n := len(parseIDs(nf[3])); n > 0 {
						g.flushN(int(atoi(f[2])), n)
					}
				}
			}
		}
	}
}

// lookahead (replay): which members the sync at line k of table t releases, and whether its report is late.  The
// release line right after the sync is its own report, made at once.  Otherwise its players, if any, are reported
// late: the late reports of t that follow (announced by `noise rg late t`) list, in order, the players on the way back
// from t now and then those released by this and by later syncs of t.
func (g *rgRunner) lookahead(lines []string, k int, t string) {
	if k+1 < len(lines) {
		nf := strings.Fields(lines[k+1])
		if len(nf) > 3 && nf[0] == "rg" && nf[1] == "release" && nf[2] == t {
			g.forceRel = parseIDs(nf[3])
			g.forceNil = nf[3] == "nil"
			return
		}
	}
	g.delayNext = true
	later := []int{}
	for j := k + 1; j+1 < len(lines); j++ {
		nf := strings.Fields(lines[j])
		if len(nf) > 1 && nf[0] == "rg" && nf[1] == "new" {
			break
		}
		if len(nf) == 4 && nf[0] == "noise" && nf[1] == "rg" && nf[2] == "late" && nf[3] == t {
			rf := strings.Fields(lines[j+1])
			if len(rf) > 3 && rf[1] == "release" {
				later = append(later, parseIDs(rf[3])...)
			}
		}
	}
	if skip := len(g.inflight[int(atoi(t))]); skip <= len(later) {
		g.forceRel = later[skip:]
	}
}

// batch: register cnt fresh players.
func (g *rgRunner) batch(cnt int) {
	ids := []int{}
	for j := 0; j < cnt; j++ {
		if n := len(g.busted); n > 0 && g.reentry != nil && g.reentry.Chance(0.12) {
			// a RE-ENTRY: a player who was eliminated registers again under the same name; to the regulator he is a registrant like
			// any other (C09: "every registered player who has not been eliminated …" — he is one again)
			k := g.reentry.Intn(n)
			ids = append(ids, g.busted[k])
			g.busted = append(g.busted[:k], g.busted[k+1:]...)
			g.o.Count("rg.reentries")
			continue
		}
		g.nextPid++
		ids = append(ids, g.nextPid)
	}
	g.add(ids)
}

// settlePhase: no registrations, no eliminations, every report made: sweep until quiet, within the bound of
// C20.rebalancing_settles_small.
func (g *rgRunner) settlePhase(rng *Rng, maxSweeps *int) {
	if len(g.members) == 0 || g.dead {
		return
	}
	g.flushAll()
	limit := g.smallBound() // of the state the settle phase starts from
	sw := g.settle(rng, limit)
	g.o.Count(fmt.Sprintf("rg.settle_sweeps.%d", sw))
	if sw > *maxSweeps {
		*maxSweeps = sw
	}
	if sw > limit {
		g.V("C20", "rebalancing_settles", fmt.Sprintf("%d sweeps without registrations or eliminations and tables are still asked to move players (%d tables)", sw, len(g.members)))
	}
	g.o.Mark("C20", fmt.Sprintf("%d/%d/%d/%v", g.max, g.min, len(g.alive), sw))
}

// lateReport: one of the tables with players on the way back reports (a quarter of the time only the first few of them).
func (g *rgRunner) lateReport(rng *Rng) {
	ts := []int{}
	for t := range g.inflight {
		ts = append(ts, t)
	}
	sort.Ints(ts)
	t := ts[rng.Intn(len(ts))]
	if k := len(g.inflight[t]); k > 1 && rng.Chance(0.25) {
		g.flushN(t, 1+rng.Intn(k-1))
		return
	}
	g.flush(t)
}

// pickTable: the table that syncs next; in a history with late reports a third of the time one whose players are
// still on the way back (it may have been broken meanwhile: then the sync names an unknown table).  -1: no table.
func (g *rgRunner) pickTable(rng *Rng) int {
	if g.async && len(g.inflight) > 0 && rng.Chance(0.35) {
		ts := []int{}
		for t := range g.inflight {
			ts = append(ts, t)
		}
		sort.Ints(ts)
		return ts[rng.Intn(len(ts))]
	}
	ids := g.tableIDs()
	if len(ids) == 0 {
		return -1
	}
	return ids[rng.Intn(len(ids))]
}

// syncUnknown: SyncState naming a table that does not exist: most of the time one that was broken earlier in this
// history (the realistic unknown table), else the id the next table will get, 0, or an id far away.
func (g *rgRunner) syncUnknown(rng *Rng) {
	t := 900 + rng.Intn(5)
	switch {
	case len(g.brokenIDs) > 0 && rng.Chance(0.6):
		t = g.brokenIDs[rng.Intn(len(g.brokenIDs))]
		if rng.Chance(0.5) {
			t = g.brokenIDs[len(g.brokenIDs)-1] // the table broken last
		}
	case rng.Chance(0.2):
		t = g.nextTbl + 1
		g.o.Count("rg.ops.sync_next_table_id")
	case rng.Chance(0.1):
		t = 0
	}
	if _, open := g.members[t]; open {
		return
	}
	g.sync(t, rng.Intn(3), rng)
}

// tourneyStep: one step of a running tournament: a late report, a settle phase, a sync of a broken table, or (mostly)
// the sync of a table, with eliminations with probability pElim, never leaving fewer than `target` players alive.
func (g *rgRunner) tourneyStep(rng *Rng, pElim float64, target int, maxSweeps *int) {
	if len(g.inflight) > 0 && rng.Chance(0.2) {
		g.lateReport(rng)
		return
	}
	k := rng.Intn(100)
	switch {
	case k < 4:
		g.settlePhase(rng, maxSweeps)
	case k < 8:
		g.syncUnknown(rng)
	default:
		t := g.pickTable(rng)
		if t < 0 {
			return
		}
		ms, open := g.members[t]
		if !open {
			g.sync(t, rng.Intn(3), rng)
			return
		}
		out := 0
		if rng.Chance(pElim) {
			out = 1
			if rng.Chance(0.25) {
				out = 1 + rng.Intn(3)
			}
			if rng.Chance(0.04) {
				out = (len(ms) + 1) / 2 // a big hand
			}
		}
		if out > len(ms) {
			out = len(ms)
		}
		if out > len(g.alive)-target {
			out = len(g.alive) - target
		}
		if out < 0 {
			out = 0
		}
		g.sync(t, out, rng)
	}
}

// tournament: a whole competition (C09 / C19 / C20 over a long history and a large field): max 2..14, N from 3 max
// to 15 max players; part of them register while the competition is pending, start, late batches with the first
// syncs in between, registration deadline, then eliminations through syncs of randomly chosen tables down to one
// player (a tenth of the time: to nobody), with settle phases, syncs of broken tables and, in half of the
// tournaments, late release reports in between.
func (g *rgRunner) tournament(rng *Rng, maxSweeps *int) {
	o := g.o
	max := 2 + rng.Intn(13)
	min := 2 + rng.Intn(max-1)
	if rng.Chance(0.2) {
		max, min = 9, 6
	}
	n := 3*max + rng.Intn(12*max+1)
	g.newRG(max, min)
	g.tourney = true
	o.Count("rg.tournaments")
	if rng.Chance(0.5) {
		g.async = true
		o.Count("rg.tournaments_async")
	}
	pre := n * (40 + rng.Intn(61)) / 100
	for left := pre; left > 0; {
		c := 1 + rng.Intn(2*max)
		if c > left {
			c = left
		}
		g.batch(c)
		left -= c
	}
	g.setStatus("normal")
	for left := n - pre; left > 0 && !g.dead; {
		c := 1 + rng.Intn(max+2)
		if c > left {
			c = left
		}
		g.batch(c)
		left -= c
		for j := rng.Intn(3); j > 0; j-- {
			g.tourneyStep(rng, 0.3, 1, maxSweeps)
		}
	}
	g.setStatus("after")
	atDeadline, top := len(g.members), len(g.alive)
	if rng.Chance(0.3) {
		g.batch(1 + rng.Intn(3)) // too late: refused
	}
	target := 1
	if rng.Chance(0.1) {
		target = 0
	}
	for steps := 0; len(g.alive) > target && steps < 60*n+200 && !g.dead; steps++ {
		g.tourneyStep(rng, 0.85, target, maxSweeps)
	}
	g.flushAll()
	g.settlePhase(rng, maxSweeps)
	if len(g.alive) <= target {
		o.Count("rg.tournaments_played_out")
	}
	if atDeadline >= 5 && len(g.members) <= 1 {
		o.Count("rg.tournaments_from_5_tables_to_1")
	}
	if atDeadline >= 10 && max >= 9 {
		o.Count("rg.tournaments_10_tables_of_9")
	}
	if top >= 100 {
		o.Count("rg.tournaments_100_players")
	}
	o.Count(fmt.Sprintf("rg.tournament_end_tables.%d", len(g.members)))
	o.Mark("C20", fmt.Sprintf("T/%d/%d/%d/%d", max, min, n, atDeadline))
}

// grid: the initial allocation for EVERY setting 2 <= min <= max <= 14 and EVERY number of registrants N in
// 0..6 max+1, three ways: all register and the competition starts; it starts and all register in one batch; it
// starts and they register in two batches (the first one short of the minimum when N is odd, half of them when N is
// even: then the second batch tops up / opens further tables).  Deterministic; the processes of a run share it.
func (g *rgRunner) grid(part, parts int) {
	idx := 0
	for max := 2; max <= 14; max++ {
		for min := 2; min <= max; min++ {
			for n := 0; n <= 6*max+1; n++ {
				for way := 0; way < 3; way++ {
					idx++
					if idx%parts != part {
						continue
					}
					g.newRG(max, min)
					switch way {
					case 0:
						g.batch(n)
						g.setStatus("normal")
					case 1:
						g.setStatus("normal")
						g.batch(n)
					default:
						a := n / 2
						if n%2 == 1 && n >= min {
							a = min - 1
						}
						g.setStatus("normal")
						g.batch(a)
						if g.nextTbl > 0 {
							g.o.Count("rg.grid.second_batch_meets_tables")
						}
						g.batch(n - a)
					}
					g.o.Count("rg.grid.histories")
					if g.nextTbl > 0 {
						g.o.Count("rg.grid.tables_opened")
					}
					if len(g.queue()) > 0 && g.nextTbl > 0 {
						g.o.Count("rg.grid.somebody_left_waiting")
					}
					g.o.Mark("C19", fmt.Sprintf("G/%d/%d/%d/%d/%d", max, min, n, way, g.nextTbl))
					g.o.Mark("C09", fmt.Sprintf("G/%d/%d/%d/%d", max, min, n, way))
				}
			}
		}
	}
}

func runRG(dir string, seed uint64, n int) {
	o := NewOut(dir, "rg")
	rng := NewRng(seed)
	g := &rgRunner{o: o}
	maxSweeps := 0
	// the deterministic C19 grid, shared by the processes of a run (their seeds are VERIF_SEED*1000 + k)
	g.grid(int(seed%1000)%4, 4)
	for it := 0; it < n; it++ {
		if it%40 == 39 {
			g.tournament(rng, &maxSweeps)
			o.Count(fmt.Sprintf("rg.max.%d", g.max))
			o.Mark("C09", fmt.Sprintf("%d/%d/%d/%d", g.max, g.min, len(g.alive), len(g.members)))
			o.Mark("C19", fmt.Sprintf("%d/%d/%d/%d", g.max, g.min, g.registered, g.nextTbl))
			continue
		}
		max := 2 + rng.Intn(9)
		min := 2 + rng.Intn(max-1)
		if rng.Chance(0.3) {
			max, min = 9, 6
		} else if rng.Chance(0.1) {
			// bigger tables, minimum above the default table size
			max = 10 + rng.Intn(5)
			min = 2 + rng.Intn(max-1)
			if rng.Chance(0.6) {
				min = 10 + rng.Intn(max-9)
			}
		} else if rng.Chance(0.12) {
			// settings outside 2 <= min <= max (C09 and C20 say "all settings"): one-seat tables, min above max, min 0 or 1
			max = 1 + rng.Intn(3)
			min = rng.Intn(6)
			o.Count("rg.odd_settings")
		}
		asyncH := rng.Chance(0.25) // tables of this history report their releases late: syncs of other tables, registrations and status changes come in between
		backP := 0.0
		if rng.Chance(0.1) {
			backP = 0.25 // a history in which the status may go back to pending (C09 only)
		}
		g.newRG(max, min)
		g.reentry = NewRng(uint64(it)*7919 + seed)
		if asyncH {
			g.async = true
			o.Count("rg.async_histories")
		}
		steps := 5 + rng.Intn(40)
		for s := 0; s < steps && !g.dead; s++ {
			k := rng.Intn(100)
			if len(g.inflight) > 0 && rng.Chance(0.2) {
				g.lateReport(rng)
				continue
			}
			switch {
			case k < 30:
				cnt := 1 + rng.Intn(4)
				if rng.Chance(0.25) {
					cnt = 1 + rng.Intn(3*max)
				}
				if rng.Chance(0.03) {
					cnt = 0 // an empty batch, half of the time a nil slice
					g.nilBatch = rng.Chance(0.5)
					o.Count("rg.empty_batches")
				}
				g.batch(cnt)
			case k < 38 && g.status != "pending" && rng.Chance(backP):
				g.setStatus("pending")
			case k < 38:
				// forward moves (the domain of C19 / C20: RSys.ok forbids only a return to pending): mostly
				// pending -> normal -> after, sometimes pending -> after directly and after -> normal (registration re-opened)
				switch g.status {
				case "pending":
					if rng.Chance(0.06) {
						g.setStatus("after")
						o.Count("rg.status_pending_to_after")
					} else {
						g.setStatus("normal")
					}
				case "normal":
					if rng.Chance(0.5) {
						g.setStatus("after")
					} else {
						g.setStatus("normal")
					}
				default:
					if rng.Chance(0.2) {
						g.setStatus("normal")
						o.Count("rg.status_after_to_normal")
					} else {
						g.setStatus("after")
					}
				}
			case k < 80:
				t := g.pickTable(rng)
				if t < 0 {
					continue
				}
				if _, open := g.members[t]; !open {
					g.sync(t, rng.Intn(3), rng) // broken while its players are on the way back
					continue
				}
				out := 0
				if rng.Chance(0.6) {
					out = rng.Intn(len(g.members[t]) + 1)
					if rng.Chance(0.7) && out > 2 {
						out = 1 + rng.Intn(2)
					}
				}
				if len(g.inflight[t]) > 0 && rng.Chance(0.4) {
					// its release is under way and it loses (almost) everybody: a candidate for being broken meanwhile
					if out = len(g.members[t]) - rng.Intn(3); out < 0 {
						out = 0
					}
				}
				g.sync(t, out, rng)
				if _, open := g.members[t]; open && g.delayed && rng.Chance(0.4) {
					// the same table syncs again before its release has been reported
					g.sync(t, rng.Intn(3)%(len(g.members[t])+1), rng)
				}
			case k < 84:
				g.syncUnknown(rng)
			case k < 87:
				// a release report of NOBODY (`ReleasePlayers(t, [])`): what a table broken with no player left sends, and what
				// `ASys.ok` allows for every table id at every time — also before the start, also for a table nobody knows;
				// it moves nobody and must not open, fill or count anything the other operations would not
				t := g.pickTable(rng)
				if t < 0 || rng.Chance(0.3) {
					t = 900 + rng.Intn(5)
				}
				g.nilBatch = rng.Chance(0.3)
				g.release(t, nil)
				o.Count("rg.empty_release_reports")
				if g.status == "pending" {
					o.Count("rg.empty_release_reports.pending")
				}
			default:
				g.settlePhase(rng, &maxSweeps)
			}
		}
		g.flushAll()
		o.Count(fmt.Sprintf("rg.max.%d", max))
		o.Mark("C09", fmt.Sprintf("%d/%d/%d/%d", max, min, len(g.alive), len(g.members)))
		o.Mark("C19", fmt.Sprintf("%d/%d/%d/%d", max, min, g.registered, g.nextTbl))
		if it < 2 {
			o.Sample(strings.Join(o.hist, " ; "))
		}
	}
	o.Stats["rg.max_sweeps"] = maxSweeps
	o.Close(dir, "rg", seed)
}
