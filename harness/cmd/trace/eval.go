package main

import (
	"encoding/json"
	"fmt"
	"sort"
	"strings"

	"github.com/weedbox/pokerface"
	"github.com/weedbox/pokerface/combination"
)

// ---- independent specification of the poker order (used by monitors only) ----

var catSymbols = []string{"HighCard", "Pair", "TwoPair", "ThreeOfAKind", "Straight", "Flush", "FullHouse", "FourOfAKind", "StraightFlush"}

const (
	cHigh = iota
	cPair
	cTwoPair
	cTrips
	cStraight
	cFlush
	cFull
	cQuads
	cSF
)

var rankOf = map[byte]int{'2': 2, '3': 3, '4': 4, '5': 5, '6': 6, '7': 7, '8': 8, '9': 9, 'T': 10, 'J': 11, 'Q': 12, 'K': 13, 'A': 14}

type specKey struct {
	cat int
	tb  []int
}

// specOf classifies a five-card hand by the rules of poker.
func specOf(cards []string) specKey {
	cnt := map[int]int{}
	flush := true
	for _, c := range cards {
		cnt[rankOf[c[1]]]++
		if c[0] != cards[0][0] {
			flush = false
		}
	}
	type g struct{ r, n int }
	gs := []g{}
	for r, n := range cnt {
		gs = append(gs, g{r, n})
	}
	sort.Slice(gs, func(i, j int) bool {
		if gs[i].n != gs[j].n {
			return gs[i].n > gs[j].n
		}
		return gs[i].r > gs[j].r
	})
	tb := []int{}
	for _, x := range gs {
		tb = append(tb, x.r)
	}
	straightTop := 0
	if len(gs) == 5 {
		hi, lo := gs[0].r, gs[4].r
		if hi-lo == 4 {
			straightTop = hi
		} else if hi == 14 && gs[1].r == 5 && lo == 2 {
			straightTop = 5
		}
	}
	switch {
	case straightTop > 0 && flush:
		return specKey{cSF, []int{straightTop}}
	case gs[0].n == 4:
		return specKey{cQuads, tb}
	case gs[0].n == 3 && len(gs) == 2:
		return specKey{cFull, tb}
	case flush:
		return specKey{cFlush, tb}
	case straightTop > 0:
		return specKey{cStraight, []int{straightTop}}
	case gs[0].n == 3:
		return specKey{cTrips, tb}
	case gs[0].n == 2 && gs[1].n == 2:
		return specKey{cTwoPair, tb}
	case gs[0].n == 2:
		return specKey{cPair, tb}
	}
	return specKey{cHigh, tb}
}

func catIndex(table []combination.Combination, cat int) int {
	for i, c := range table {
		if int(c) == cat {
			return i
		}
	}
	return -1
}

// specCompare: -1 / 0 / +1 as hand a loses to / ties / beats hand b under the table.
func specCompare(table []combination.Combination, a, b specKey) int {
	ia, ib := catIndex(table, a.cat), catIndex(table, b.cat)
	if ia != ib {
		if ia < ib {
			return -1
		}
		return 1
	}
	for i := range a.tb {
		if i >= len(b.tb) { // only when a "hand" holds the same card twice (a defect elsewhere): stay total
			return 1
		}
		if a.tb[i] != b.tb[i] {
			if a.tb[i] < b.tb[i] {
				return -1
			}
			return 1
		}
	}
	return 0
}

func isShortAce9876(cards []string) bool {
	have := map[int]bool{}
	for _, c := range cards {
		have[rankOf[c[1]]] = true
	}
	return len(have) == 5 && have[14] && have[9] && have[8] && have[7] && have[6]
}

// specTable: the order of the categories the PROPERTY states for the variant (C03: the poker order; flush above full house in short
// deck), written out here — not read from the package's tables, which are the thing under test (a defect that overwrites the shipped
// table in place would otherwise be judged by its own result).  Category numbers: 0 high card, 1 pair, 2 two pair, 3 three of a kind,
// 4 straight, 5 flush, 6 full house, 7 four of a kind, 8 straight flush.
func specTable(n string) []combination.Combination {
	if n == "short" {
		return []combination.Combination{0, 1, 2, 3, 4, 6, 5, 7, 8}
	}
	return []combination.Combination{0, 1, 2, 3, 4, 5, 6, 7, 8}
}

func tableByName(n string) []combination.Combination {
	if n == "short" {
		return combination.CombinationPowerShortDeck
	}
	return combination.CombinationPowerStandard
}

// ---- ev stream ----

type evPrev struct {
	cards []string
	key   specKey
	score uint64
}

type evRunner struct {
	o    *Out
	prev map[string]*evPrev // per table: previous hand
	res  map[string][]*evPrev
	rng  *Rng
}

func (e *evRunner) exec(table string, cards []string) {
	ps := combination.CalculatePower(tableByName(table), cards)
	in := "ev " + table + " " + strings.Join(cards, " ")
	e.o.Emit(in, fmt.Sprintf("ev cat=%d score=%d", int(ps.Combination), ps.Score))
	e.o.Count("ev.hands")
	skip := table == "short" && isShortAce9876(cards)
	if skip {
		e.o.Count("ev.skipped_short_A9876")
		return
	}
	k := specOf(cards)
	e.o.Count("ev.cat." + catSymbols[k.cat])
	e.o.Mark("C03", fmt.Sprint(table, k.cat, k.tb))
	if int(ps.Combination) != k.cat {
		e.o.BeginHistory()
		e.o.hist = []string{in}
		e.o.Violate("C03", "category", fmt.Sprintf("hand %v: evaluator says %s, poker rules say %s", cards, catSymbols[int(ps.Combination)%9], catSymbols[k.cat]))
	}
	cur := &evPrev{cards: append([]string{}, cards...), key: k, score: ps.Score}
	cmp := func(p *evPrev) {
		want := specCompare(specTable(table), p.key, cur.key)
		got := 0
		if p.score < cur.score {
			got = -1
		} else if p.score > cur.score {
			got = 1
		}
		e.o.Count("ev.pairs")
		if want != got {
			e.o.hist = []string{"ev " + table + " " + strings.Join(p.cards, " "), in}
			e.o.Violate("C03", "order", fmt.Sprintf("table %s: %v (score %d) vs %v (score %d): scores order them %d, poker rules %d", table, p.cards, p.score, cur.cards, cur.score, got, want))
		}
	}
	if p := e.prev[table]; p != nil {
		cmp(p)
	}
	rs := e.res[table]
	if len(rs) > 0 {
		cmp(rs[e.rng.Intn(len(rs))])
		cmp(rs[e.rng.Intn(len(rs))])
	}
	e.prev[table] = cur
	// reservoir of earlier hands, biased to keep every category represented
	if len(rs) < 4096 {
		e.res[table] = append(rs, cur)
	} else if e.rng.Intn(64) == 0 || k.cat >= cStraight && e.rng.Intn(4) == 0 {
		rs[e.rng.Intn(len(rs))] = cur
	}
}

func permute(r *Rng, cards []string) []string {
	c := append([]string{}, cards...)
	r.Shuffle(len(c), func(i, j int) { c[i], c[j] = c[j], c[i] })
	return c
}

func forEach5(deck []string, f func(h []string)) {
	n := len(deck)
	h := make([]string, 5)
	for a := 0; a < n; a++ {
		for b := a + 1; b < n; b++ {
			for c := b + 1; c < n; c++ {
				for d := c + 1; d < n; d++ {
					for e := d + 1; e < n; e++ {
						h[0], h[1], h[2], h[3], h[4] = deck[a], deck[b], deck[c], deck[d], deck[e]
						f(h)
					}
				}
			}
		}
	}
}

// runEv: tier quick = every hand of the 52-card deck under the standard table and every
// hand of the 36-card deck under the short-deck table (one random card order each) plus a
// sample under the crossed tables; thorough = every hand of both decks under both tables.
func runEv(dir string, seed uint64, tier string, scale int) {
	o := NewOut(dir, "ev")
	e := &evRunner{o: o, prev: map[string]*evPrev{}, res: map[string][]*evPrev{}, rng: NewRng(seed)}
	std := pokerface.NewStandardDeckCards()
	short := pokerface.NewShortDeckCards()
	i := 0
	forEach5(std, func(h []string) {
		i++
		if i%50000 == 1 {
			evNoise(i / 50000) // the rest of the package at work in the same process: games of both variants built, started, saved and restored
			o.Count("ev.noise_rounds")
		}
		e.exec("std", permute(e.rng, h))
		if tier == "thorough" || i%7 == 0 {
			e.exec("short", permute(e.rng, h))
		}
	})
	forEach5(short, func(h []string) {
		e.exec("short", permute(e.rng, h))
		if tier == "thorough" {
			e.exec("std", permute(e.rng, h))
		}
	})
	o.Sample("ev std SA SK SQ SJ ST")
	o.Close(dir, "ev", seed)
}

// evNoise: while the evaluator is being judged, the package does what it does in a running service: games of both variants
// are built from the shipped option constructors, started, their state saved (the engine's own GetStateJSON and encoding/json),
// decoded and restored.  None of this may change how a five-card hand is ranked (the ranking tables and the rank map are
// package-level values every game points at).
func evNoise(k int) {
	safely(func() error {
		for _, mk := range []func() *pokerface.GameOptions{pokerface.NewShortDeckGameOptions, pokerface.NewStardardGameOptions} {
			opts := mk()
			if k%2 == 1 {
				opts.Deck = pokerface.NewShortDeckCards()
			} else if len(opts.Deck) == 0 {
				opts.Deck = pokerface.NewStandardDeckCards()
			}
			opts.Players = []*pokerface.PlayerSetting{{Bankroll: 100, Positions: []string{"dealer", "sb"}}, {Bankroll: 100, Positions: []string{"bb"}}}
			g := pokerface.NewPokerFace().NewGame(opts)
			if g.Start() != nil {
				continue
			}
			g.ReadyForAll()
			g.PayBlinds()
			g.ReadyForAll()
			if b, err := g.GetStateJSON(); err == nil {
				var st pokerface.GameState
				if json.Unmarshal(b, &st) == nil {
					g2 := pokerface.NewPokerFace().NewGameFromState(&st)
					g2.Call()
					g2.Check()
					g2.Next()
					_ = g2.GetState().AsObserver
				}
			}
			if c := cloneJSON(g.GetState()); c != nil {
				_ = g.LoadState(c)
			}
		}
		return nil
	})
}

// ---- best stream (C10) ----

func subsets(xs []string, k int) [][]string {
	var out [][]string
	var rec func(start int, cur []string)
	rec = func(start int, cur []string) {
		if len(cur) == k {
			out = append(out, append([]string{}, cur...))
			return
		}
		for i := start; i < len(xs); i++ {
			rec(i+1, append(cur, xs[i]))
		}
	}
	rec(0, nil)
	return out
}

// admissible selections by the rules of the variant (independent of the repo's enumeration).
func admissible(hole, board []string, required int) [][]string {
	if required == 0 {
		all := append(append([]string{}, hole...), board...)
		return subsets(all, 5)
	}
	var out [][]string
	for _, hs := range subsets(hole, required) {
		for _, bs := range subsets(board, 5-required) {
			out = append(out, append(append([]string{}, hs...), bs...))
		}
	}
	return out
}

func sameCards(a, b []string) bool {
	if len(a) != len(b) {
		return false
	}
	x := append([]string{}, a...)
	y := append([]string{}, b...)
	sort.Strings(x)
	sort.Strings(y)
	for i := range x {
		if x[i] != y[i] {
			return false
		}
	}
	return true
}

// bestSpec: the best admissible selection of a player by the rules of poker; ok=false when there is
// none or when the short deck's A-9-8-7-6 makes the rules themselves ambiguous.
func bestSpec(table string, required int, hole, board []string) (specKey, bool) {
	sels := admissible(hole, board, required)
	if len(sels) == 0 {
		return specKey{}, false
	}
	tbl := specTable(table) // the order the property states, not the package table under test
	var best specKey
	for i, s := range sels {
		if table == "short" && isShortAce9876(s) {
			return specKey{}, false
		}
		k := specOf(s)
		if i == 0 || specCompare(tbl, best, k) < 0 {
			best = k
		}
	}
	return best, true
}

// checkBest is the C10 monitor: the reported combination of one player against the rules.
func checkBest(o *Out, table string, required int, hole, board []string, ci *pokerface.CombinationInfo) {
	if len(board) < 3 || ci == nil {
		return
	}
	sels := admissible(hole, board, required)
	if len(sels) == 0 {
		return
	}
	tbl := specTable(table) // the order the property states, not the package table under test
	var best specKey
	hasShortAmbiguity := false
	for i, s := range sels {
		if table == "short" && isShortAce9876(s) {
			hasShortAmbiguity = true
		}
		k := specOf(s)
		if i == 0 || specCompare(tbl, best, k) < 0 {
			best = k
		}
	}
	o.Count("best.checked")
	if hasShortAmbiguity {
		o.Count("best.skipped_short_A9876")
		return
	}
	ok := false
	for _, s := range sels {
		if sameCards(s, ci.Cards) {
			ok = true
		}
	}
	desc := fmt.Sprintf("table=%s required=%d hole=%v board=%v reported=%v/%s/%d", table, required, hole, board, ci.Cards, ci.Type, ci.Power)
	if !ok {
		o.Violate("C10", "admissible", "reported cards are not an admissible selection: "+desc)
		return
	}
	rk := specOf(ci.Cards)
	if specCompare(tbl, rk, best) != 0 {
		o.Violate("C10", "best", fmt.Sprintf("an admissible selection beats the reported hand (best category %s %v): %s", catSymbols[best.cat], best.tb, desc))
	}
	if ci.Type != catSymbols[rk.cat] {
		o.Violate("C10", "type", "reported type is not the category of the reported cards: "+desc)
	}
	ps := combination.CalculatePower(tbl, ci.Cards)
	if int(ps.Score) != ci.Power {
		o.Violate("C10", "power", fmt.Sprintf("reported power is not the score of the reported cards (%d): %s", ps.Score, desc))
	}
	o.Mark("C10", fmt.Sprintf("%s/%d/%d/%s%v", table, required, len(board), catSymbols[best.cat], best.tb))
}

func bestLine(table string, required int, hole, board []string, ci *pokerface.CombinationInfo) (string, string) {
	in := fmt.Sprintf("best %s %d %s %s %s", table, required, joinList(hole, ","), joinList(board, ","), joinList(ci.Cards, ","))
	obs := fmt.Sprintf("best type=%s power=%d ok=1", ci.Type, ci.Power)
	return in, obs
}

// runBest: random (hole, board) pairs per rule and deck through the engine's own
// UpdateCombinationOfAllPlayers, biased towards near-ties.
func runBest(dir string, seed uint64, n int) {
	o := NewOut(dir, "best")
	r := NewRng(seed)
	for it := 0; it < n; it++ {
		table := "std"
		deck := pokerface.NewStandardDeckCards()
		if r.Chance(0.35) {
			table = "short"
			deck = pokerface.NewShortDeckCards()
		}
		holeN, req := 2, 0
		if r.Chance(0.4) {
			holeN, req = 4, 2
		}
		d := permute(r, deck)
		if r.Chance(0.5) {
			// near-ties: draw from few ranks / one suit so that many selections share a category
			sort.Slice(d, func(i, j int) bool {
				ki := int(d[i][1])*7%5 + int(d[i][0])%2
				kj := int(d[j][1])*7%5 + int(d[j][0])%2
				return ki < kj
			})
			k := 14 + r.Intn(8)
			sub := permute(r, d[:k])
			copy(d, sub)
		}
		if r.Chance(0.12) {
			// several straight flushes at once (seed C10j: a scan that stops at the FIRST straight flush): a run of
			// 6..9 consecutive ranks of one suit in front of the deck, in random order, so that hole and board are drawn from it
			const ranks = "23456789TJQKA"
			suit := "SHDC"[r.Intn(4)]
			lo := 0
			if table == "short" {
				lo = 4
			}
			l := 6 + r.Intn(4)
			st := lo + r.Intn(len(ranks)-lo-l+1)
			in := map[string]bool{}
			run := []string{}
			for k := st; k < st+l; k++ {
				c := string(suit) + string(ranks[k])
				in[c] = true
				run = append(run, c)
			}
			rest := []string{}
			for _, c := range d {
				if !in[c] {
					rest = append(rest, c)
				}
			}
			if len(rest)+len(run) == len(d) {
				run = permute(r, run)
				if r.Chance(0.3) { // one stranger among them
					run = append(run, rest[0])
					rest = rest[1:]
					run = permute(r, run)
				}
				d = append(run, rest...)
				o.Count("best.straight_flush_run")
			}
		}
		boardN := 3 + r.Intn(3)
		hole := d[:holeN]
		board := d[holeN : holeN+boardN]
		opts := pokerface.NewStardardGameOptions()
		opts.CombinationPowers = tableByName(table)
		opts.HoleCardsCount = holeN
		opts.RequiredHoleCardsCount = req
		opts.Players = []*pokerface.PlayerSetting{{Bankroll: 10, Positions: []string{"dealer"}}, {Bankroll: 10, Positions: []string{"bb"}}}
		g := pokerface.NewGame(opts)
		gs := g.GetState()
		gs.Status.Board = append([]string{}, board...)
		gs.Players[0].HoleCards = append([]string{}, hole...)
		gs.Players[1].HoleCards = append([]string{}, hole...)
		g.UpdateCombinationOfAllPlayers()
		ci := gs.Players[0].Combination
		o.BeginHistory()
		in, obs := bestLine(table, req, hole, board, ci)
		o.Emit(in, obs)
		checkBest(o, table, req, hole, board, ci)
		o.Count(fmt.Sprintf("best.rule%d.board%d.%s", req, boardN, table))
		if it < 3 {
			o.Sample(in)
		}
	}
	o.Close(dir, "best", seed)
}
