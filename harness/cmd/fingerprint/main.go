// fingerprint prints one line per function of the modelled Go files of /repo:
//   <file>:<receiver.>name <sha256 of the function's source without comments>
// `check` compares it with the fingerprints recorded when the model was last validated
// (/verif/fingerprints.json).  A changed function proves nothing by itself — a harmless rewrite
// changes it too — but it tells the check where the code moved, and the check answers by
// running the correspondence for the affected components at a multiple of the usual volume.
package main

import (
	"bytes"
	"crypto/sha256"
	"fmt"
	"go/ast"
	"go/parser"
	"go/printer"
	"go/token"
	"os"
	"path/filepath"
	"sort"
	"strings"
)

func main() {
	root := "/repo"
	if len(os.Args) > 1 {
		root = os.Args[1]
	}
	dirs := []string{".", "combination", "pot", "settlement", "seat_manager", "regulator", "table"}
	var lines []string
	for _, d := range dirs {
		files, _ := filepath.Glob(filepath.Join(root, d, "*.go"))
		for _, f := range files {
			if strings.HasSuffix(f, "_test.go") {
				continue
			}
			if b := filepath.Base(f); d == "table" && b != "native_backend.go" && b != "internal.go" && b != "table.go" && b != "game.go" {
				continue
			}
			fset := token.NewFileSet()
			af, err := parser.ParseFile(fset, f, nil, 0) // comments dropped
			if err != nil {
				fmt.Fprintln(os.Stderr, err)
				os.Exit(2)
			}
			rel, _ := filepath.Rel(root, f)
			for _, decl := range af.Decls {
				var name string
				switch x := decl.(type) {
				case *ast.FuncDecl:
					name = x.Name.Name
					if x.Recv != nil && len(x.Recv.List) > 0 {
						var b bytes.Buffer
						printer.Fprint(&b, fset, x.Recv.List[0].Type)
						name = strings.TrimPrefix(b.String(), "*") + "." + name
					}
				case *ast.GenDecl:
					if x.Tok != token.VAR && x.Tok != token.CONST && x.Tok != token.TYPE {
						continue
					}
					name = x.Tok.String() + "@" + fmt.Sprint(fset.Position(x.Pos()).Line)
					// name generic declarations by their first identifier instead of a line number
					if len(x.Specs) > 0 {
						switch s := x.Specs[0].(type) {
						case *ast.ValueSpec:
							name = x.Tok.String() + ":" + s.Names[0].Name
						case *ast.TypeSpec:
							name = "type:" + s.Name.Name
						}
					}
				default:
					continue
				}
				var b bytes.Buffer
				printer.Fprint(&b, token.NewFileSet(), decl)
				lines = append(lines, fmt.Sprintf("%s:%s %x", rel, name, sha256.Sum256(b.Bytes())))
			}
		}
	}
	sort.Strings(lines)
	for _, l := range lines {
		fmt.Println(l)
	}
}
