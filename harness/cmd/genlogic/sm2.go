// Group "SM2": the core of seat_manager/seat_manager.go that group "SM" leaves untranslated — `nextDealer`, `renewSeatStatus`,
// `findActivePlayer`, `getNormalizeSeats`, `getPlayableSeat`, the counters, `getAvailableSeats`, `getSeat`, `resetSeat` / `Reset`,
// `ApplyStates`, the position getters and the locked wrappers of the queries — translated into Generated/LogicSM2.lean;
// obligations in Proofs/GeneratedLogicSM2.lean (`sm2NextDealer_eq`, `sm2Renew_eq`, `sm2FindActive_eq`, … against
// Model/SeatManager.lean).  Negative test: negtest_sm2.py.  (`getPlayableSeats` is the subject of `tbPlayableSeatsStep`, group "Tb".)
//
// Readings used by the specs of this group (all in the per-function tables below):
//   - the seat map is an abstract state `st : ST`, a seat (`*Seat`) an abstract `S`, a nil pointer `none : Option S`; a call that
//     reads the seats takes the state it sees as an argument (`sm.getPlayableSeatCount()` ↦ `playableCount v_st`), a loop that
//     writes seat fields is a function of the state and of the values it reads (`loopPass v_st v_seats v_dealer`), so that moving
//     an update across such a call changes the definition; the functions are parameters of the generated definition, the theorem
//     instantiates them with the model's functions resp. with the fold of the translated iteration;
//   - a loop is translated as a function of one iteration: (go on?, the seat fields afterwards) resp. the accumulator afterwards;
//     the function around it lists the loop by its header (position pinned, body not);
//   - a Go slice expression `x[lo:]` can panic: `x = y[lo:]` is read as `sm2OrPanic (sm2SliceFrom y' lo') <panic> (fun x => …)`
//     (`match … with | none => <panic> | some x => …`) with `sm2SliceFrom` (head of LogicSM2.lean) the Go rule `0 ≤ lo ≤ len(y)`;
//     the generated `nextDealer` and `renewSeatStatus` return `none` for a panic, as the model's `renewSeatStatus` does.
//
// The group adds these constructs (all syntactic; the hooks in main.go are delimited by `[group SM2]`; the options live in the side
// table `sm2Opts`, `spec` itself is unchanged; the constructs `retExpr`, `funcs`, `if init; cond`, loop entries of `guards` of group
// "Pots" are reused through `potsExpr` / `potsStmt`):
//   - `nth(spec, k)`: the translated loop is the k-th loop with the header `spec.loop` of the function, in source order, at any
//     depth; nothing is pinned around it (the statements around it are translated by the spec of the whole function, which lists
//     the loop as `<header> { … }#k`, or, where the header is unique in the function, as `<header> { … }`);
//   - `x = y[lo:]`, `x := y[lo:]` with `x` tracked (see above; a slice expression with an upper bound is not translated);
//   - `a, b := f(x)` / `a, b = f(x)` with `f` listed in `funcs` and `a`, `b` tracked or `_`: `a := (f' x').1`, `b := (f' x').2`;
//   - `return a, b` (with `retExpr`, not listed in `returns`): the tuple of the translations;
//   - `m[k]` with `m` listed in `index(spec, …)`: `(m' k')`;
//   - `<lhs> = &T{F: a, G: b}` with every `<lhs>.F` tracked: the assignments `<lhs>.F := a'`, `<lhs>.G := b'`, in order.
package main

import (
	"go/ast"
	"go/token"
	"strconv"
	"strings"
)

type sm2Opt struct {
	nth   int               // with `loop`: which loop with that header (1-based, source order, any depth); 0: `loop` / `around` as usual
	panic string            // the result when a slice expression is out of range
	index map[string]string // printed indexed expression -> Lean function applied to the translated index
}

var sm2Opts = map[*spec]*sm2Opt{}

func sm2o(s *spec) *sm2Opt {
	o := sm2Opts[s]
	if o == nil {
		o = &sm2Opt{}
		sm2Opts[s] = o
	}
	return o
}

func nth(s *spec, k int) *spec {
	sm2o(s).nth = k
	return s
}

func panics(s *spec, v string) *spec {
	sm2o(s).panic = v
	return s
}

func index(s *spec, m map[string]string) *spec {
	sm2o(s).index = m
	return s
}

// the ordinal of every loop of the function at hand among the loops with the same header (source order, any depth)
var sm2Ord = map[ast.Stmt]int{}

func loopHeader(s ast.Stmt) (string, bool) {
	var b *ast.BlockStmt
	switch x := s.(type) {
	case *ast.RangeStmt:
		b = x.Body
	case *ast.ForStmt:
		b = x.Body
	}
	if b == nil {
		return "", false
	}
	return strings.TrimSuffix(pr(s), " "+pr(b)), true
}

// sm2Select numbers the loops of the function and, for a spec with `nth`, returns the one loop the spec translates
// (`loopBody` then takes its body; `around` is empty).
func (t *tr) sm2Select(stmts []ast.Stmt) []ast.Stmt {
	sm2Ord = map[ast.Stmt]int{}
	seen := map[string]int{}
	var picked []ast.Stmt
	o := sm2Opts[t.s]
	ast.Inspect(&ast.BlockStmt{List: stmts}, func(n ast.Node) bool {
		if st, ok := n.(ast.Stmt); ok {
			if h, ok := loopHeader(st); ok {
				seen[h]++
				sm2Ord[st] = seen[h]
				if o != nil && o.nth > 0 && h == t.s.loop && seen[h] == o.nth {
					picked = append(picked, st)
				}
			}
		}
		return true
	})
	if o == nil || o.nth == 0 {
		return stmts
	}
	if len(picked) != 1 {
		t.fail = append(t.fail, "loop not found: "+t.s.loop+" #"+strconv.Itoa(o.nth))
		return []ast.Stmt{&ast.BadStmt{}}
	}
	return picked
}

func (t *tr) sm2Expr(e ast.Expr) (string, bool) {
	if x, ok := e.(*ast.IndexExpr); ok {
		if o := sm2Opts[t.s]; o != nil {
			if f, ok := o.index[pr(x.X)]; ok {
				return "(" + f + " " + t.expr(x.Index) + ")", true
			}
		}
	}
	return t.potsExpr(e) // `funcs`, `a * b`, …
}

// callOf returns the Lean form of a call `f(a, b)` with `f` listed in `funcs`.
func (t *tr) callOf(e ast.Expr) (string, bool) {
	c, ok := e.(*ast.CallExpr)
	if !ok || c.Ellipsis.IsValid() {
		return "", false
	}
	o := potsOpts[t.s]
	if o == nil {
		return "", false
	}
	f, ok := o.funcs[pr(c.Fun)]
	if !ok {
		return "", false
	}
	out := "(" + f
	for _, a := range c.Args {
		out += " " + t.expr(a)
	}
	return out + ")", true
}

func (t *tr) sm2Stmt(s ast.Stmt, rest []ast.Stmt, k string, own, outer scope, nested func() scope) (string, bool) {
	lets := func(as [][2]string) string {
		out := t.block(rest, k, own, outer)
		for i := len(as) - 1; i >= 0; i-- {
			out = "(let " + leanVar(as[i][0]) + " := " + as[i][1] + "\n " + out + ")"
		}
		return out
	}
	// declare checks a `:=` of the tracked variable `l` against the enclosing scopes (as `block` does)
	declare := func(l string, x ast.Stmt) bool {
		if outer[l] {
			t.fail = append(t.fail, "shadowing declaration: "+pr(x))
			return false
		}
		own[l] = true
		return true
	}
	// a loop listed as `<header> { … }#k`
	if h, ok := loopHeader(s); ok {
		if as, ok := t.s.multi[h+" { … }#"+strconv.Itoa(sm2Ord[s])]; ok {
			return lets(as), true
		}
	}
	switch x := s.(type) {
	case *ast.ReturnStmt:
		if o := potsOpts[t.s]; o != nil && o.retExpr && len(x.Results) >= 2 {
			var ps, ls []string
			for _, r := range x.Results {
				ps = append(ps, pr(r))
			}
			if _, ok := t.s.returns[strings.Join(ps, ", ")]; ok {
				return "", false
			}
			for _, r := range x.Results {
				ls = append(ls, t.expr(r))
			}
			return "(" + strings.Join(ls, ", ") + ")", true
		}
	case *ast.AssignStmt:
		if x.Tok != token.ASSIGN && x.Tok != token.DEFINE {
			break
		}
		// a, b := f(x)
		if len(x.Lhs) == 2 && len(x.Rhs) == 1 {
			call, ok := t.callOf(x.Rhs[0])
			if !ok {
				break
			}
			var as [][2]string
			for i, l := range x.Lhs {
				p := pr(l)
				if p == "_" {
					continue
				}
				if _, ok := t.s.tracked[p]; !ok {
					return "", false
				}
				if x.Tok == token.DEFINE && !declare(p, x) {
					return "UNTRANSLATED", true
				}
				as = append(as, [2]string{p, call + "." + strconv.Itoa(i+1)})
			}
			return lets(as), true
		}
		if len(x.Lhs) != 1 || len(x.Rhs) != 1 {
			break
		}
		l := pr(x.Lhs[0])
		// x = y[lo:]
		if sl, ok := x.Rhs[0].(*ast.SliceExpr); ok {
			o := sm2Opts[t.s]
			if _, tracked := t.s.tracked[l]; !tracked || o == nil || o.panic == "" || sl.Low == nil || sl.High != nil || sl.Max != nil || sl.Slice3 {
				break
			}
			if x.Tok == token.DEFINE && !declare(l, x) {
				return "UNTRANSLATED", true
			}
			return "(sm2OrPanic (sm2SliceFrom " + t.expr(sl.X) + " " + t.expr(sl.Low) + ") " + o.panic + " (fun " + leanVar(l) + " =>\n " +
				t.block(rest, k, own, outer) + "))", true
		}
		// <lhs> = &T{F: a, G: b}
		if x.Tok == token.ASSIGN {
			rhs := x.Rhs[0]
			if u, ok := rhs.(*ast.UnaryExpr); ok && u.Op == token.AND {
				rhs = u.X
			}
			cl, ok := rhs.(*ast.CompositeLit)
			if !ok || len(cl.Elts) == 0 {
				break
			}
			var as [][2]string
			for _, el := range cl.Elts {
				kv, ok := el.(*ast.KeyValueExpr)
				if !ok {
					return "", false
				}
				f := l + "." + pr(kv.Key)
				if _, ok := t.s.tracked[f]; !ok {
					return "", false
				}
				as = append(as, [2]string{f, t.expr(kv.Value)})
			}
			return lets(as), true
		}
	}
	return t.potsStmt(s, rest, k, own, outer, nested) // `if init; cond`, `retExpr`, loop entries of `guards`, …
}

const sm2Preamble = `/-- Go ` + "`l[lo:]`" + ` (the upper bound defaults to ` + "`len(l)`" + `): a run-time panic, ` + "`none`" + `, unless ` + "`0 ≤ lo ≤ len(l)`" + ` -/
def sm2SliceFrom {α : Type} (l : List α) (lo : Int) : Option (List α) :=
  if lo < 0 ∨ lo > (l.length : Int) then none else some (l.drop lo.toNat)

/-- a statement with a slice expression: the panic, or the rest of the function with the slice -/
def sm2OrPanic {α β : Type} (slice : Option α) (panic : β) (rest : α → β) : β :=
  match slice with
  | none => panic
  | some x => rest x

`

// ---- seat_manager/seat_manager.go ----

const sm2File = "seat_manager/seat_manager.go"

var sm2Lock = []string{"sm.mu.Lock()", "defer sm.mu.Unlock()", "sm.mu.RLock()", "defer sm.mu.RUnlock()"}

const (
	sm2MaxLoop     = "for i := 0; i < sm.max; i++"
	sm2SeatsLoop   = "for _, s := range seats"
	sm2OrigLoop    = "for _, s := range origSeats"
	sm2FindLoop    = "for i, s := range seats"
	sm2MapLoop     = "for _, s := range sm.seats"
	sm2SeatLookup  = "s := sm.seats[i]"
	sm2NormLookup  = "s, ok := sm.seats[cur]; ok"
	sm2SeatLookup2 = "s, ok := sm.seats[id]; ok"
)

// the three fields of the seat `s` an iteration may read: all of them are parameters of the translated iteration, so that
// reading another field than the model does changes the definition (rather than making it unknown)
const sm2FieldParams = "(active reserved hasPlayer : Bool)"

var sm2Fields = map[string]string{"s.IsActive": "active", "s.IsReserved": "reserved", "s.Player != nil": "hasPlayer", "s.Player == nil": "(!hasPlayer)"}

// the same for an iteration that writes `s.IsActive`: the flag is a tracked variable (initial value `active`), so that a read
// after the write sees the new value
var sm2FieldsW = map[string]string{"s.IsReserved": "reserved", "s.Player != nil": "hasPlayer", "s.Player == nil": "(!hasPlayer)"}

// the result of the translated `nextDealer` / `renewSeatStatus`: `none` = panic (a slice expression out of range)
const sm2NextT = "Option (ST × Option S × Option S)"

// what the translated `nextDealer` / `renewSeatStatus` read of the seat manager: the state-reading calls and the loops, as functions
const sm2StateFns = "(playableCount nonEmptyCount playerCount availableCount : ST → Int) (firstPlayable : ST → Option S) (normalize : ST → Int → List S) (idOf : Option S → Int)" +
	" (findActive : ST → List S → Option S × Int)"

var sm2Calls = map[string]string{"sm.getPlayableSeatCount": "playableCount v_st", "sm.getNonEmptySeatCount": "nonEmptyCount v_st",
	"sm.getPlayerCount": "playerCount v_st", "sm.getAvailableSeatCount": "availableCount v_st", "sm.getPlayableSeat": "firstPlayable v_st", "sm.getNormalizeSeats": "normalize v_st",
	"sm.findActivePlayer": "findActive v_st"}

var sm2NilTests = map[string]string{"nil": "(none : Option S)", "sm.dealer == nil": "(!v_sm_dealer.isSome)", "sm.dealer != nil": "v_sm_dealer.isSome",
	"dealer == nil": "(!v_dealer.isSome)", "dealer != nil": "v_dealer.isSome", "sm.dealer.ID": "(idOf v_sm_dealer)"}

// one iteration of a counting loop over the seats 0 … max-1
func sm2CountSpec(name, lean string) *spec {
	return &spec{
		file: sm2File, recv: "SeatManager", name: name, leanName: lean,
		params: sm2FieldParams + " (count0 : Int)", resultType: "Int",
		loop: sm2MaxLoop, around: []string{"count := 0", "return count"},
		tracked: map[string]string{"count": "count0"},
		exprs:   sm2Fields,
		multi:   map[string][][2]string{sm2SeatLookup: {}},
		result:  "v_count",
	}
}

// a query under the read lock: which internal function answers it
func sm2Wrapper(name, call string) *spec {
	return &spec{
		file: sm2File, recv: "SeatManager", name: name, leanName: "sm2Q" + name,
		params: "", resultType: stepsT,
		tracked: map[string]string{"eff": stepsInit}, skip: sm2Lock,
		returns: stepReturns(map[string]string{call: call}), result: "v_eff",
	}
}

// a position getter: which of the three pointers it returns
func sm2Getter(name string) *spec {
	return retExpr(&spec{
		file: sm2File, recv: "SeatManager", name: name, leanName: "sm2" + name,
		params: "{S : Type} (dealer sb bb : S)", resultType: "S",
		tracked: map[string]string{},
		exprs:   map[string]string{"sm.dealer": "dealer", "sm.sb": "sb", "sm.bb": "bb"},
		result:  "dealer",
	})
}

func init() {
	zero := "(0 : Int)"
	add("SM2",
		// getSeat
		&spec{
			file: sm2File, recv: "SeatManager", name: "getSeat", leanName: "sm2SeatLookup",
			params: "{S : Type} (present : Bool) (s : S)", resultType: "Option S",
			tracked: map[string]string{},
			exprs:   map[string]string{sm2SeatLookup2: "present"},
			returns: map[string]string{"s": "(some s)", "nil": "none"},
			result:  "none",
		},
		// getNormalizeSeats: the function around the loop; one iteration: (seats, cur)
		&spec{
			file: sm2File, recv: "SeatManager", name: "getNormalizeSeats", leanName: "sm2Normalize",
			params: "{S : Type} (loop : Int → List S → List S) (startID : Int)", resultType: "List S",
			tracked: map[string]string{"cur": zero, "seats": "([] : List S)"},
			exprs:   map[string]string{"startID": "startID", "make([]*Seat, 0)": "([] : List S)"},
			multi:   map[string][][2]string{sm2MaxLoop + " { … }": {{"seats", "(loop v_cur v_seats)"}}},
			result:  "v_seats",
		},
		nth(&spec{
			file: sm2File, recv: "SeatManager", name: "getNormalizeSeats", leanName: "sm2NormalizeStep",
			// the lookup `sm.seats[cur]` reads the tracked `cur`: moving `cur++` across it changes the definition
			params: "{S : Type} (present : Int → Bool) (seat : Int → S) (max cur0 : Int) (seats0 : List S)", resultType: "List S × Int",
			loop:    sm2MaxLoop,
			tracked: map[string]string{"seats": "seats0", "cur": "cur0"},
			exprs:   map[string]string{sm2NormLookup: "(present v_cur)", "s": "(seat v_cur)", "sm.max": "max"},
			result:  "(v_seats, v_cur)",
		}, 1),
		// findActivePlayer: one iteration (`some` = the function returns); the function around the loop
		nth(&spec{
			file: sm2File, recv: "SeatManager", name: "findActivePlayer", leanName: "sm2FindActiveStep",
			params: "{S : Type} (s : S) (i : Int) " + sm2FieldParams, resultType: "Option (Option S × Int)",
			loop:    sm2FindLoop,
			tracked: map[string]string{},
			exprs:   sm2Fields,
			returns: map[string]string{"s, i": "(some (some s, i))"},
			result:  "none",
		}, 1),
		retExpr(&spec{
			file: sm2File, recv: "SeatManager", name: "findActivePlayer", leanName: "sm2FindActive",
			params: "{S : Type} (loop : Option (Option S × Int))", resultType: "Option S × Int",
			tracked: map[string]string{},
			exprs:   map[string]string{"nil": "(none : Option S)"},
			// the loop returns from the function when an iteration does
			guards: map[string][]string{sm2FindLoop + " { … }": {"loop.isSome", "(loop.getD (none, (0 : Int)))"}},
			result: "(none, (0 : Int))",
		}),
		// the counters, getPlayableSeat: one iteration each
		sm2CountSpec("getPlayableSeatCount", "sm2PlayableCountStep"),
		sm2CountSpec("getNonEmptySeatCount", "sm2NonEmptyCountStep"),
		sm2CountSpec("getPlayerCount", "sm2PlayerCountStep"),
		sm2CountSpec("getAvailableSeatCount", "sm2AvailableCountStep"),
		&spec{
			file: sm2File, recv: "SeatManager", name: "getPlayableSeat", leanName: "sm2PlayableSeatStep",
			params: "{S : Type} (s : S) " + sm2FieldParams, resultType: "Option S",
			loop: sm2MaxLoop, around: []string{"return nil"},
			tracked: map[string]string{},
			exprs:   sm2Fields,
			multi:   map[string][][2]string{sm2SeatLookup: {}},
			returns: map[string]string{"s": "(some s)"},
			result:  "none",
		},
		// getAvailableSeats, one seat of the map: (seats, alternateSeats)
		&spec{
			file: sm2File, recv: "SeatManager", name: "getAvailableSeats", leanName: "sm2AvailableSeatsStep",
			params: "{I : Type} (id : I) " + sm2FieldParams + " (seats0 alt0 : List I)", resultType: "List I × List I",
			loop: sm2MapLoop, around: []string{"seats := make([]int, 0)", "alternateSeats := make([]int, 0)", "return seats, alternateSeats"},
			tracked: map[string]string{"seats": "seats0", "alternateSeats": "alt0"},
			exprs:   merge(sm2Fields, map[string]string{"s.ID": "id"}),
			result:  "(v_seats, v_alternateSeats)",
		},
		// nextDealer: (the seats, sm.dealer, the returned pointer)
		panics(funcs(&spec{
			file: sm2File, recv: "SeatManager", name: "nextDealer", leanName: "sm2NextDealer",
			params: "{ST S : Type} " + sm2StateFns + " (loopOcc : ST → List S → ST) (loopPass : ST → List S → Option S → Option S → ST) (loopAll : ST → List S → ST)" +
				" (st0 : ST) (dealer0 : Option S)",
			resultType: sm2NextT,
			tracked:    map[string]string{"st": "st0", "sm.dealer": "dealer0", "seats": "([] : List S)", "dealer": "(none : Option S)"},
			exprs:      sm2NilTests,
			multi: map[string][][2]string{"var seats []*Seat": {{"seats", "([] : List S)"}},
				sm2SeatsLoop + " { … }#1": {{"st", "(loopOcc v_st v_seats)"}},
				sm2SeatsLoop + " { … }#2": {{"st", "(loopPass v_st v_seats v_dealer v_sm_dealer)"}},
				sm2SeatsLoop + " { … }#3": {{"st", "(loopAll v_st v_seats)"}}},
			returns: map[string]string{"nil": "(some (v_st, v_sm_dealer, none))", "sm.dealer": "(some (v_st, v_sm_dealer, v_sm_dealer))",
				"dealer": "(some (v_st, v_sm_dealer, v_dealer))"},
			result: "(some (v_st, v_sm_dealer, none))",
		}, sm2Calls), "none"),
		// nextDealer, the three loops, one seat each: the flag IsActive afterwards; for the second loop also whether the loop goes on
		nth(&spec{
			file: sm2File, recv: "SeatManager", name: "nextDealer", leanName: "sm2NextDealerOccStep",
			params: sm2FieldParams, resultType: "Bool",
			loop:    sm2SeatsLoop,
			tracked: map[string]string{"s.IsActive": "active"},
			exprs:   sm2FieldsW,
			result:  "v_s_IsActive",
		}, 1),
		nth(&spec{
			file: sm2File, recv: "SeatManager", name: "nextDealer", leanName: "sm2NextDealerPassStep",
			params: "{S : Type} [BEq S] (s : S) (dealer smDealer : Option S) " + sm2FieldParams, resultType: "Bool × Bool",
			loop:    sm2SeatsLoop,
			tracked: map[string]string{"s.IsActive": "active"},
			exprs:   merge(sm2FieldsW, map[string]string{"s": "(some s)", "dealer": "dealer", "sm.dealer": "smDealer", "nil": "(none : Option S)"}),
			returns: map[string]string{"break": "(false, v_s_IsActive)"},
			result:  "(true, v_s_IsActive)",
		}, 2),
		nth(&spec{
			file: sm2File, recv: "SeatManager", name: "nextDealer", leanName: "sm2NextDealerAllStep",
			params: sm2FieldParams, resultType: "Bool",
			loop:    sm2SeatsLoop,
			tracked: map[string]string{"s.IsActive": "active"},
			exprs:   sm2FieldsW,
			result:  "v_s_IsActive",
		}, 3),
		// renewSeatStatus: (the seats, sm.sb, sm.bb)
		panics(funcs(&spec{
			file: sm2File, recv: "SeatManager", name: "renewSeatStatus", leanName: "sm2Renew",
			params: "{ST S : Type} " + sm2StateFns + " (loopDeact : ST → List S → Option S → Option S → Option S → ST) (loopAct : ST → List S → ST)" +
				" (st0 : ST) (dealer0 sb0 bb0 : Option S)",
			resultType: sm2NextT,
			tracked: map[string]string{"st": "st0", "sm.dealer": "dealer0", "sm.sb": "sb0", "sm.bb": "bb0", "origSeats": "([] : List S)",
				"seats": "([] : List S)", "sb": "(none : Option S)", "bb": "(none : Option S)", "idx": zero},
			exprs: sm2NilTests,
			multi: map[string][][2]string{sm2OrigLoop + " { … }": {{"st", "(loopDeact v_st v_origSeats v_sm_dealer v_sm_sb v_sm_bb)"}},
				sm2SeatsLoop + " { … }": {{"st", "(loopAct v_st v_seats)"}}},
			returns: map[string]string{"nil": "(some (v_st, v_sm_sb, v_sm_bb))"},
			result:  "(some (v_st, v_sm_sb, v_sm_bb))",
		}, sm2Calls), "none"),
		nth(&spec{
			file: sm2File, recv: "SeatManager", name: "renewSeatStatus", leanName: "sm2RenewDeactStep",
			params: "{S : Type} [BEq S] (s : S) (dealer sb bb : Option S) " + sm2FieldParams, resultType: "Bool × Bool",
			loop:    sm2OrigLoop,
			tracked: map[string]string{"s.IsActive": "active"},
			exprs:   merge(sm2FieldsW, map[string]string{"s": "(some s)", "sm.dealer": "dealer", "sm.sb": "sb", "sm.bb": "bb"}),
			returns: map[string]string{"break": "(false, v_s_IsActive)"},
			result:  "(true, v_s_IsActive)",
		}, 1),
		nth(&spec{
			file: sm2File, recv: "SeatManager", name: "renewSeatStatus", leanName: "sm2RenewActStep",
			params: sm2FieldParams, resultType: "Bool",
			loop:    sm2SeatsLoop,
			tracked: map[string]string{"s.IsActive": "active"},
			exprs:   sm2FieldsW,
			result:  "v_s_IsActive",
		}, 1),
		// resetSeat: (key, ID, Player, IsActive, IsReserved) of the seat written; Reset, one iteration
		&spec{
			file: sm2File, recv: "SeatManager", name: "resetSeat", leanName: "sm2ResetSeat",
			params: "{I P : Type} (seatID id0 : I) (noPlayer player0 : P)", resultType: "I × P × Bool × Bool",
			tracked: map[string]string{"sm.seats[seatID].ID": "id0", "sm.seats[seatID].Player": "player0", "sm.seats[seatID].IsActive": "false",
				"sm.seats[seatID].IsReserved": "true"},
			exprs:  map[string]string{"seatID": "seatID", "nil": "noPlayer"},
			result: "(v_sm_seatsseatID_ID, v_sm_seatsseatID_Player, v_sm_seatsseatID_IsActive, v_sm_seatsseatID_IsReserved)",
		},
		&spec{
			file: sm2File, recv: "SeatManager", name: "Reset", leanName: "sm2ResetStep",
			params: "(i : Int)", resultType: "List (String × Int)",
			loop: sm2MaxLoop, around: []string{"sm.mu.Lock()", "defer sm.mu.Unlock()"},
			tracked:  map[string]string{"eff": "[]"},
			exprs:    map[string]string{"i": "i"},
			effcalls: map[string]string{"sm.resetSeat": "resetSeat"},
			result:   "v_eff",
		},
		// ApplyStates: (the seats, sm.max, sm.dealer, sm.sb, sm.bb); one seat of the restore loop: (Player, IsActive, IsReserved)
		index(&spec{
			file: sm2File, recv: "SeatManager", name: "ApplyStates", leanName: "sm2ApplyStates",
			params: "{ST S : Type} (seatAt : ST → Int → Option S) (restore : ST → Int → ST) (stMax stDealer stSB stBB : Int) (st0 : ST) (max0 : Int)" +
				" (dealer0 sb0 bb0 : Option S)",
			resultType: "ST × Int × Option S × Option S × Option S",
			tracked:    map[string]string{"st": "st0", "sm.max": "max0", "sm.dealer": "dealer0", "sm.sb": "sb0", "sm.bb": "bb0"},
			exprs: map[string]string{"nil": "(none : Option S)", "state.Max": "stMax", "state.Dealer": "stDealer", "state.SB": "stSB",
				"state.BB": "stBB"},
			skip:    sm2Lock,
			multi:   map[string][][2]string{sm2MaxLoop + " { … }": {{"st", "(restore v_st v_sm_max)"}}},
			returns: map[string]string{"nil": "(v_st, v_sm_max, v_sm_dealer, v_sm_sb, v_sm_bb)"},
			result:  "(v_st, v_sm_max, v_sm_dealer, v_sm_sb, v_sm_bb)",
		}, map[string]string{"sm.seats": "seatAt v_st"}),
		nth(&spec{
			file: sm2File, recv: "SeatManager", name: "ApplyStates", leanName: "sm2ApplyStep",
			params: "{P : Type} (player0 : P) (active0 reserved0 : Bool) (newPlayer : P) (newActive newReserved : Bool)", resultType: "P × Bool × Bool",
			loop:    sm2MaxLoop,
			tracked: map[string]string{"s.Player": "player0", "s.IsActive": "active0", "s.IsReserved": "reserved0"},
			exprs:   map[string]string{"newState.Player": "newPlayer", "newState.IsActive": "newActive", "newState.IsReserved": "newReserved"},
			multi:   map[string][][2]string{"newState := state.Seats[i]": {}, sm2SeatLookup: {}},
			result:  "(v_s_Player, v_s_IsActive, v_s_IsReserved)",
		}, 1),
		// the position getters and the queries under the read lock
		sm2Getter("Dealer"), sm2Getter("SmallBlind"), sm2Getter("BigBlind"),
		sm2Wrapper("GetSeat", "sm.getSeat(id)"), sm2Wrapper("GetNormalizeSeats", "sm.getNormalizeSeats(startID)"),
		sm2Wrapper("GetAvailableSeats", "sm.getAvailableSeats()"), sm2Wrapper("GetAvailableSeatCount", "sm.getAvailableSeatCount()"),
		sm2Wrapper("GetPlayableSeats", "sm.getPlayableSeats()"), sm2Wrapper("GetPlayableSeatCount", "sm.getPlayableSeatCount()"),
		sm2Wrapper("GetPlayerCount", "sm.getPlayerCount()"),
	)
}
