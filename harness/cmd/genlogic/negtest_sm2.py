#!/usr/bin/env python3
# negative tests of the K1 translated-logic obligations of group "SM2" (seat_manager/seat_manager.go: nextDealer, renewSeatStatus,
# findActivePlayer, getNormalizeSeats, getPlayableSeat, the counters, getAvailableSeats, ApplyStates, resetSeat / Reset, the getters):
# apply one edit to a scratch copy of the repo, regenerate with genlogic, rebuild Proofs/GeneratedLogicSM2, report which theorems
# break (same mechanism as negtest_tb.py / negtest_pots.py).
# usage: (copy /repo without .git to $SCR); cp -r <lean project> $LW; GENLOGIC=<binary> negtest_sm2.py [name-prefix ...]
# An edit is a list of (old, new) replacements in one file (a moved statement is one deletion and one insertion).
import subprocess, re, sys, os
REPO=os.environ.get('REPO','/repo'); SCR=os.environ.get('SCR','/tmp/gsm2neg'); LW=os.environ.get('LW','/tmp/lw-gsm2-neg')
GENLOGIC=os.environ.get('GENLOGIC','/tmp/hw-gsm2/genlogic')
MODS=['Pokerface.Proofs.GeneratedLogicSM2']
ENV=dict(os.environ, GOFLAGS='-mod=mod', GOPROXY='off', GOSUMDB='off', GOTOOLCHAIN='local')
SM='seat_manager/seat_manager.go'
results=[]
def run(name, f, *reps):
    src=open(f'{REPO}/{f}').read()
    new=src
    for (old,rep) in reps:
        if new.count(old)!=1:
            print(f'{name}: PATTERN NOT FOUND OR NOT UNIQUE ({new.count(old)}): {old[:50]!r}'); results.append((name,'PATTERN',[],'')); return
        new=new.replace(old,rep)
    open(f'{SCR}/{f}','w').write(new)
    c=subprocess.run(['go','build','./seat_manager'],cwd=SCR,env=ENV,capture_output=True,text=True)
    compiles = 'compiles' if c.returncode==0 else 'DOES NOT COMPILE: '+c.stderr.strip().splitlines()[-1]
    subprocess.run([GENLOGIC,SCR,f'{LW}/Pokerface/Generated'],check=True)
    untr=sorted(set(re.findall(r'^-- UNTRANSLATED (.*)$',open(f'{LW}/Pokerface/Generated/LogicSM2.lean').read(),re.M)))
    r=subprocess.run(['lake','build']+MODS,cwd=LW,capture_output=True,text=True)
    out=r.stdout+r.stderr
    broken=set()
    for m in re.finditer(r'error: Pokerface/Proofs/(GeneratedLogic\w*).lean:(\d+):',out):
        proof=open(f'{LW}/Pokerface/Proofs/{m.group(1)}.lean').read().splitlines()
        ln=int(m.group(2))
        while ln-1 < len(proof) and (proof[ln-1].startswith('/--') or (not re.match(r'\s*(theorem|def|example)\b',proof[ln-1]) and not proof[ln-1].startswith(' '))): ln+=1   # an error at a doc comment belongs to the declaration below
        for k in range(min(ln,len(proof))-1,-1,-1):
            mm=re.match(r'(theorem|def|example)\s*(\S*)',proof[k])
            if mm: broken.add(mm.group(2) if mm.group(1)!='example' else 'example'); break
    gen=sorted(set(re.findall(r'error: Pokerface/Generated/(Logic\w*).lean',out)))
    gen_err = 'LogicSM2.lean untranslatable (does not compile): '+'; '.join(u[:100] for u in untr) if gen else ''
    status='CAUGHT' if r.returncode!=0 else 'NOT CAUGHT'
    print(f'{name}: {status} [{compiles}] {gen_err} broken={sorted(broken)}', flush=True)
    results.append((name,status,sorted(broken),gen_err))
    open(f'{SCR}/{f}','w').write(src)

# ---- fragments of seat_manager.go ----
ONE_SLICE='\t\tseats = seats[1:]\n\n\t\tfor _, s := range seats {\n\t\t\tif !s.IsReserved && s.Player != nil {'
ONE_LOOP='\t\tfor _, s := range seats {\n\t\t\tif !s.IsReserved && s.Player != nil {\n\t\t\t\ts.IsActive = true\n\t\t\t}\n\t\t}\n'
WALK='\t\tseats = sm.getNormalizeSeats(sm.dealer.ID)\n\t\tseats = seats[1:]\n\t}\n\n\t// Find the next dealer'
PASS_BREAK='\t\t\tif s == dealer {\n\t\t\t\tbreak\n\t\t\t}\n\n'
PASS_LOOP='\t\tfor _, s := range seats {\n'+PASS_BREAK+'\t\t\ts.IsActive = true\n\t\t}\n'
FB_LOOP='\tfor _, s := range seats {\n\t\ts.IsActive = true\n\t}\n\n\t// Try again'
FB_SEARCH='\tsm.dealer, _ = sm.findActivePlayer(seats)\n\n\treturn sm.dealer'
SB_FIND='\t\tseats = seats[1:]\n\t\tsb, idx := sm.findActivePlayer(seats)\n\t\tsm.sb = sb\n\t\tseats = seats[idx:]\n'
BB_SLICE='\t// Find BB based on current SB\n\tseats = seats[1:]\n'
BB_FIND='\tbb, idx := sm.findActivePlayer(seats)\n\tsm.bb = bb\n\tseats = seats[idx:]\n'
DEACT_BREAK='\t\tif s == sm.bb {\n\t\t\tbreak\n\t\t}\n\n'
DEACT_BODY='\t\tif s.Player == nil {\n\t\t\ts.IsActive = false\n\t\t}\n'
DEACT_LOOP='\tfor _, s := range origSeats {\n'+DEACT_BREAK+DEACT_BODY+'\t}\n'
ACT_SLICE='\t// Activate the rest of seats\n\tseats = seats[1:]\n'
ACT_LOOP='\tfor _, s := range seats {\n\t\ts.IsActive = true\n\t}\n\n\treturn nil'
FA_COND='if !s.IsActive || s.IsReserved || s.Player == nil {'
NORM_WRAP='\t\tif cur == sm.max {\n\t\t\tcur = 0\n\t\t}\n'
PS_COND='if s.IsActive && !s.IsReserved && s.Player != nil {\n\t\t\treturn s'
PC_COND='if s.IsActive && !s.IsReserved && s.Player != nil {\n\t\t\tcount++'
NE_COND='if !s.IsReserved && s.Player != nil {\n\t\t\tcount++'
PL_COND='\t\tif s.Player != nil {\n\t\t\tcount++'
AC_COND='if s.IsActive && !s.IsReserved && s.Player == nil {\n\t\t\tcount++'
AV_SKIP='\t\tif s.IsReserved || s.Player != nil {\n\t\t\tcontinue\n\t\t}\n'
AV_SPLIT='\t\tif s.IsActive {\n\t\t\tseats = append(seats, s.ID)\n\t\t} else {\n\t\t\talternateSeats = append(alternateSeats, s.ID)\n\t\t}\n'
tests=[
 # ---- nextDealer: exactly one playable seat ----
 ('nd-one-eq-to-le',SM,('if sm.getPlayableSeatCount() == 1 {','if sm.getPlayableSeatCount() <= 1 {')),
 ('nd-one-eq-to-two',SM,('if sm.getPlayableSeatCount() == 1 {','if sm.getPlayableSeatCount() == 2 {')),
 ('nd-one-counts-nonempty',SM,('if sm.getPlayableSeatCount() == 1 {','if sm.getNonEmptySeatCount() == 1 {')),
 ('nd-one-nonempty-le-to-lt',SM,('if sm.getNonEmptySeatCount() <= 1 {','if sm.getNonEmptySeatCount() < 1 {')),
 ('nd-one-nonempty-le-two',SM,('if sm.getNonEmptySeatCount() <= 1 {','if sm.getNonEmptySeatCount() <= 2 {')),
 ('nd-one-nonempty-counts-players',SM,('if sm.getNonEmptySeatCount() <= 1 {','if sm.getPlayerCount() <= 1 {')),
 ('nd-one-nonempty-test-removed',SM,('\t\tif sm.getNonEmptySeatCount() <= 1 {\n\t\t\treturn nil\n\t\t}\n','')),
 ('nd-one-walk-includes-dealer',SM,(ONE_SLICE,ONE_SLICE.replace('\t\tseats = seats[1:]\n\n',''))),
 ('nd-one-walk-from-seat-zero',SM,('\t\tsm.dealer = sm.getPlayableSeat()\n\t\tseats = sm.getNormalizeSeats(sm.dealer.ID)','\t\tsm.dealer = sm.getPlayableSeat()\n\t\tseats = sm.getNormalizeSeats(0)')),
 ('nd-one-activates-reserved-too',SM,(ONE_LOOP,ONE_LOOP.replace('!s.IsReserved && s.Player != nil','s.Player != nil'))),
 ('nd-one-activates-empty-too',SM,(ONE_LOOP,ONE_LOOP.replace('!s.IsReserved && s.Player != nil','!s.IsReserved'))),
 ('nd-one-activates-all',SM,(ONE_LOOP,'\t\tfor _, s := range seats {\n\t\t\ts.IsActive = true\n\t\t}\n')),
 ('nd-one-no-activation',SM,(ONE_LOOP,'')),
 ('nd-one-deactivates',SM,(ONE_LOOP,ONE_LOOP.replace('s.IsActive = true','s.IsActive = false'))),
 ('nd-one-returns-nil',SM,('\t\treturn sm.dealer\n\t}\n\n\tif sm.dealer == nil {','\t\treturn nil\n\t}\n\n\tif sm.dealer == nil {')),
 ('nd-one-activation-before-dealer-set',SM,('\t\tsm.dealer = sm.getPlayableSeat()\n',''),(ONE_LOOP,ONE_LOOP+'\t\tsm.dealer = sm.getPlayableSeat()\n')),
 # ---- nextDealer: the normal walk ----
 ('nd-nodealer-test-flipped',SM,('\tif sm.dealer == nil {\n\t\t// from the first seat','\tif sm.dealer != nil {\n\t\t// from the first seat')),
 ('nd-nodealer-walk-from-seat-one',SM,('seats = sm.getNormalizeSeats(0)','seats = sm.getNormalizeSeats(1)')),
 ('nd-nodealer-walk-skips-first',SM,('\t\tseats = sm.getNormalizeSeats(0)\n','\t\tseats = sm.getNormalizeSeats(0)\n\t\tseats = seats[1:]\n')),
 ('nd-walk-starts-at-dealer',SM,(WALK,WALK.replace('\t\tseats = seats[1:]\n',''))),
 ('nd-walk-skips-two',SM,(WALK,WALK.replace('seats[1:]','seats[2:]'))),
 ('nd-walk-from-id-plus-one',SM,(WALK,WALK.replace('sm.getNormalizeSeats(sm.dealer.ID)\n\t\tseats = seats[1:]\n','sm.getNormalizeSeats(sm.dealer.ID + 1)\n'))),
 ('nd-found-test-flipped',SM,('\tif dealer != nil {\n','\tif dealer == nil {\n')),
 ('nd-pass-stops-on-old-dealer',SM,(PASS_BREAK,PASS_BREAK.replace('s == dealer','s == sm.dealer'))),
 ('nd-pass-one-late',SM,(PASS_LOOP,'\t\tfor _, s := range seats {\n\t\t\ts.IsActive = true\n\n'+PASS_BREAK.rstrip('\n')+'\n\t\t}\n')),
 ('nd-pass-no-break',SM,(PASS_BREAK,'')),
 ('nd-pass-break-to-continue',SM,(PASS_BREAK,PASS_BREAK.replace('break','continue'))),
 ('nd-pass-loop-removed',SM,(PASS_LOOP,'')),
 ('nd-pass-occupied-only',SM,(PASS_LOOP,PASS_LOOP.replace('\t\t\ts.IsActive = true\n','\t\t\tif s.Player != nil {\n\t\t\t\ts.IsActive = true\n\t\t\t}\n'))),
 ('nd-pass-one-early',SM,(PASS_LOOP,'\t\tfor i, s := range seats {\n\t\t\tif seats[i+1] == dealer {\n\t\t\t\tbreak\n\t\t\t}\n\n\t\t\ts.IsActive = true\n\t\t}\n')),
 ('nd-pass-toggles',SM,(PASS_LOOP,PASS_LOOP.replace('s.IsActive = true','s.IsActive = !s.IsActive'))),
 ('nd-pass-only-inactive-reserved',SM,(PASS_LOOP,PASS_LOOP.replace('\t\t\ts.IsActive = true\n','\t\t\tif !s.IsReserved {\n\t\t\t\ts.IsActive = true\n\t\t\t}\n'))),
 ('nd-offers-button-to-small-blind',SM,('\t// Find the next dealer\n','\tif sm.sb != nil && sm.sb.IsActive && !sm.sb.IsReserved && sm.sb.Player != nil {\n\t\tsm.dealer = sm.sb\n\t\treturn sm.sb\n\t}\n\n\t// Find the next dealer\n')),
 ('nd-dealer-not-updated',SM,('\t\tsm.dealer = dealer\n\t\treturn dealer','\t\treturn dealer')),
 ('nd-found-returns-nil',SM,('\t\tsm.dealer = dealer\n\t\treturn dealer','\t\tsm.dealer = dealer\n\t\treturn nil')),
 # ---- nextDealer: the fallback ----
 ('nd-fallback-no-activation',SM,(FB_LOOP,'\t// Try again')),
 ('nd-fallback-occupied-only',SM,(FB_LOOP,FB_LOOP.replace('\t\ts.IsActive = true\n','\t\tif s.Player != nil {\n\t\t\ts.IsActive = true\n\t\t}\n'))),
 ('nd-fallback-stops-at-first-waiting',SM,(FB_LOOP,FB_LOOP.replace('\t\ts.IsActive = true\n','\t\ts.IsActive = true\n\t\tif s.Player != nil {\n\t\t\tbreak\n\t\t}\n'))),
 ('nd-fallback-not-searching-again',SM,(FB_SEARCH,'\tsm.dealer = dealer\n\n\treturn sm.dealer')),
 ('nd-fallback-dealer-not-cleared',SM,(FB_SEARCH,'\td, _ := sm.findActivePlayer(seats)\n\tif d != nil {\n\t\tsm.dealer = d\n\t}\n\n\treturn d')),
 ('nd-fallback-dealer-kept',SM,(FB_SEARCH,'\tdealer, _ = sm.findActivePlayer(seats)\n\n\treturn dealer')),
 ('nd-fallback-returns-nil',SM,(FB_SEARCH,'\tsm.dealer, _ = sm.findActivePlayer(seats)\n\n\treturn nil')),
 ('nd-fallback-search-before-activation',SM,(FB_LOOP+'. It should get a new dealer as long as more than one players out there\n'+FB_SEARCH,
     '\tsm.dealer, _ = sm.findActivePlayer(seats)\n\tfor _, s := range seats {\n\t\ts.IsActive = true\n\t}\n\n\treturn sm.dealer')),
 # ---- renewSeatStatus ----
 ('rn-headsup-eq-to-ge',SM,('if sm.getPlayableSeatCount() == 2 {','if sm.getPlayableSeatCount() >= 2 {')),
 ('rn-headsup-eq-to-le',SM,('if sm.getPlayableSeatCount() == 2 {','if sm.getPlayableSeatCount() <= 2 {')),
 ('rn-headsup-counts-nonempty',SM,('if sm.getPlayableSeatCount() == 2 {','if sm.getNonEmptySeatCount() == 2 {')),
 ('rn-headsup-counts-players',SM,('if sm.getPlayableSeatCount() == 2 {','if sm.getPlayerCount() == 2 {')),
 ('rn-headsup-sb-is-bb',SM,('\t\tsm.sb = sm.dealer\n','\t\tsm.sb = sm.bb\n')),
 ('rn-headsup-sb-not-set',SM,('\t\tsm.sb = sm.dealer\n','')),
 ('rn-orig-from-seat-zero',SM,('origSeats := sm.getNormalizeSeats(sm.dealer.ID)\n\tseats := origSeats','origSeats := sm.getNormalizeSeats(0)\n\tseats := origSeats')),
 ('rn-sb-search-includes-dealer',SM,(SB_FIND,SB_FIND.replace('\t\tseats = seats[1:]\n',''))),
 ('rn-sb-from-orig-list',SM,(SB_FIND,SB_FIND.replace('findActivePlayer(seats)','findActivePlayer(origSeats)'))),
 ('rn-sb-not-stored',SM,(SB_FIND,SB_FIND.replace('\t\tsm.sb = sb\n',''))),
 ('rn-sb-stored-as-bb',SM,(SB_FIND,SB_FIND.replace('sm.sb = sb','sm.bb = sb'))),
 ('rn-sb-slice-dropped',SM,(SB_FIND,SB_FIND.replace('\t\tseats = seats[idx:]\n',''))),
 ('rn-sb-slice-idx-plus-one',SM,(SB_FIND,SB_FIND.replace('seats[idx:]','seats[idx+1:]'))),
 ('rn-bb-search-not-skipping-sb',SM,(BB_SLICE,'\t// Find BB based on current SB\n')),
 ('rn-bb-search-skips-two',SM,(BB_SLICE,BB_SLICE.replace('seats[1:]','seats[2:]'))),
 ('rn-bb-from-orig-list',SM,(BB_FIND,BB_FIND.replace('findActivePlayer(seats)','findActivePlayer(origSeats)'))),
 ('rn-bb-stored-as-sb',SM,(BB_FIND,BB_FIND.replace('sm.bb = bb','sm.sb = bb'))),
 ('rn-bb-not-stored',SM,(BB_FIND,BB_FIND.replace('\tsm.bb = bb\n',''))),
 ('rn-bb-slice-dropped',SM,(BB_FIND,BB_FIND.replace('\tseats = seats[idx:]\n',''))),
 ('rn-bb-slice-guarded',SM,(BB_FIND,BB_FIND.replace('\tseats = seats[idx:]\n','\tif idx >= 0 {\n\t\tseats = seats[idx:]\n\t}\n'))),
 ('rn-deact-occupied-too',SM,(DEACT_BODY,'\t\ts.IsActive = false\n')),
 ('rn-deact-occupied-only',SM,(DEACT_BODY,DEACT_BODY.replace('s.Player == nil','s.Player != nil'))),
 ('rn-deact-reserved-only',SM,(DEACT_BODY,DEACT_BODY.replace('s.Player == nil','s.Player == nil && s.IsReserved'))),
 ('rn-deact-not-reserved-only',SM,(DEACT_BODY,DEACT_BODY.replace('s.Player == nil','s.Player == nil && !s.IsReserved'))),
 ('rn-deact-including-bb',SM,(DEACT_LOOP,'\tfor _, s := range origSeats {\n'+DEACT_BODY+'\n'+DEACT_BREAK.rstrip('\n')+'\n\t}\n')),
 ('rn-deact-stops-at-sb',SM,(DEACT_BREAK,DEACT_BREAK.replace('sm.bb','sm.sb'))),
 ('rn-deact-stops-at-dealer',SM,(DEACT_BREAK,DEACT_BREAK.replace('sm.bb','sm.dealer'))),
 ('rn-deact-no-break',SM,(DEACT_BREAK,'')),
 ('rn-deact-loop-removed',SM,(DEACT_LOOP,'')),
 ('rn-deact-activates',SM,(DEACT_BODY,DEACT_BODY.replace('s.IsActive = false','s.IsActive = true'))),
 ('rn-deact-over-rest-list',SM,(DEACT_LOOP,DEACT_LOOP.replace('range origSeats','range seats'))),
 ('rn-deact-before-bb-search',SM,(DEACT_LOOP,''),(BB_SLICE,DEACT_LOOP+'\n'+BB_SLICE)),
 ('rn-deact-reads-own-write',SM,(DEACT_BODY,'\t\tif s.Player == nil {\n\t\t\ts.IsActive = false\n\t\t}\n\t\tif !s.IsActive {\n\t\t\ts.IsActive = s.Player != nil\n\t\t}\n')),
 ('rn-act-including-bb',SM,(ACT_SLICE,'\t// Activate the rest of seats\n')),
 ('rn-act-skips-one-more',SM,(ACT_SLICE,ACT_SLICE.replace('seats[1:]','seats[2:]'))),
 ('rn-act-loop-removed',SM,(ACT_LOOP,'\treturn nil')),
 ('rn-act-occupied-only',SM,(ACT_LOOP,ACT_LOOP.replace('\t\ts.IsActive = true\n','\t\tif s.Player != nil {\n\t\t\ts.IsActive = true\n\t\t}\n'))),
 ('rn-act-empty-only',SM,(ACT_LOOP,ACT_LOOP.replace('\t\ts.IsActive = true\n','\t\tif s.Player == nil {\n\t\t\ts.IsActive = true\n\t\t}\n'))),
 ('rn-act-over-orig-list',SM,(ACT_LOOP,ACT_LOOP.replace('range seats','range origSeats'))),
 # ---- findActivePlayer ----
 ('fa-active-dropped',SM,(FA_COND,'if s.IsReserved || s.Player == nil {')),
 ('fa-reserved-dropped',SM,(FA_COND,'if !s.IsActive || s.Player == nil {')),
 ('fa-player-dropped',SM,(FA_COND,'if !s.IsActive || s.IsReserved {')),
 ('fa-reserved-negated',SM,(FA_COND,'if !s.IsActive || !s.IsReserved || s.Player == nil {')),
 ('fa-or-to-and',SM,(FA_COND,'if !s.IsActive && s.IsReserved || s.Player == nil {')),
 ('fa-index-plus-one',SM,('\t\treturn s, i\n','\t\treturn s, i + 1\n')),
 ('fa-not-found-zero',SM,('\treturn nil, -1\n','\treturn nil, 0\n')),
 ('fa-continue-to-break',SM,(FA_COND+'\n\t\t\tcontinue',FA_COND+'\n\t\t\tbreak')),
 # ---- getNormalizeSeats ----
 ('norm-no-wrap',SM,(NORM_WRAP,'')),
 ('norm-wrap-one-early',SM,(NORM_WRAP,NORM_WRAP.replace('cur == sm.max','cur == sm.max-1'))),
 ('norm-wrap-to-one',SM,(NORM_WRAP,NORM_WRAP.replace('cur = 0','cur = 1'))),
 ('norm-start-plus-one',SM,('\tcur := startID\n','\tcur := startID + 1\n')),
 ('norm-start-zero',SM,('\tcur := startID\n','\tcur := 0\n')),
 ('norm-increment-before-lookup',SM,('\t\t// next player\n\t\tcur++\n',''),('\t\tif s, ok := sm.seats[cur]; ok {\n\t\t\tseats = append(seats, s)','\t\tcur++\n\t\tif s, ok := sm.seats[cur]; ok {\n\t\t\tseats = append(seats, s)')),
 ('norm-one-seat-short',SM,('\tfor i := 0; i < sm.max; i++ {\n\n\t\tif s, ok := sm.seats[cur]; ok {','\tfor i := 0; i < sm.max-1; i++ {\n\n\t\tif s, ok := sm.seats[cur]; ok {')),
 ('norm-prepend',SM,('\t\t\tseats = append(seats, s)\n\t\t}\n\n\t\t// next player','\t\t\tseats = append([]*Seat{s}, seats...)\n\t\t}\n\n\t\t// next player')),
 ('norm-lookup-by-index',SM,('if s, ok := sm.seats[cur]; ok {','if s, ok := sm.seats[i]; ok {')),
 # ---- getPlayableSeat, the counters ----
 ('ps-reserved-dropped',SM,(PS_COND,'if s.IsActive && s.Player != nil {\n\t\t\treturn s')),
 ('ps-active-dropped',SM,(PS_COND,'if !s.IsReserved && s.Player != nil {\n\t\t\treturn s')),
 ('ps-player-dropped',SM,(PS_COND,'if s.IsActive && !s.IsReserved {\n\t\t\treturn s')),
 ('ps-last-instead-of-first',SM,('\tfor i := 0; i < sm.max; i++ {\n\t\ts := sm.seats[i]\n\t\t'+PS_COND,'\tfor i := sm.max - 1; i >= 0; i-- {\n\t\ts := sm.seats[i]\n\t\t'+PS_COND)),
 ('ps-rewritten-on-active-seats',SM,('\tfor i := 0; i < sm.max; i++ {\n\t\ts := sm.seats[i]\n\t\t'+PS_COND,'\tfor _, s := range sm.getActiveSeats() {\n\t\tif s.Player != nil {\n\t\t\treturn s')),
 ('pc-reserved-dropped',SM,(PC_COND,'if s.IsActive && s.Player != nil {\n\t\t\tcount++')),
 ('pc-active-dropped',SM,(PC_COND,'if !s.IsReserved && s.Player != nil {\n\t\t\tcount++')),
 ('pc-player-dropped',SM,(PC_COND,'if s.IsActive && !s.IsReserved {\n\t\t\tcount++')),
 ('pc-counts-double',SM,(PC_COND,PC_COND.replace('count++','count += 2'))),
 ('pc-starts-at-one',SM,('\tcount := 0\n\tfor i := 0; i < sm.max; i++ {\n\t\ts := sm.seats[i]\n\t\t'+PC_COND,'\tcount := 1\n\tfor i := 0; i < sm.max; i++ {\n\t\ts := sm.seats[i]\n\t\t'+PC_COND)),
 ('pc-skips-seat-zero',SM,('\tcount := 0\n\tfor i := 0; i < sm.max; i++ {\n\t\ts := sm.seats[i]\n\t\t'+PC_COND,'\tcount := 0\n\tfor i := 1; i < sm.max; i++ {\n\t\ts := sm.seats[i]\n\t\t'+PC_COND)),
 ('ne-reserved-dropped',SM,(NE_COND,'if s.Player != nil {\n\t\t\tcount++')),
 ('ne-player-dropped',SM,(NE_COND,'if !s.IsReserved {\n\t\t\tcount++')),
 ('ne-active-only',SM,(NE_COND,'if s.IsActive && !s.IsReserved && s.Player != nil {\n\t\t\tcount++')),
 ('plc-counts-empty-seats',SM,(PL_COND,PL_COND.replace('s.Player != nil','s.Player == nil'))),
 ('plc-not-reserved-only',SM,(PL_COND,PL_COND.replace('s.Player != nil','s.Player != nil && !s.IsReserved'))),
 ('ac-reserved-dropped',SM,(AC_COND,'if s.IsActive && s.Player == nil {\n\t\t\tcount++')),
 ('ac-active-dropped',SM,(AC_COND,'if !s.IsReserved && s.Player == nil {\n\t\t\tcount++')),
 # ---- getAvailableSeats ----
 ('av-ignores-reserved',SM,(AV_SKIP,AV_SKIP.replace('s.IsReserved || s.Player != nil','s.Player != nil'))),
 ('av-ignores-player',SM,(AV_SKIP,AV_SKIP.replace('s.IsReserved || s.Player != nil','s.IsReserved'))),
 ('av-or-to-and',SM,(AV_SKIP,AV_SKIP.replace('||','&&'))),
 ('av-reserved-checked-for-active-only',SM,(AV_SKIP,AV_SKIP.replace('s.IsReserved || s.Player != nil','s.IsActive && s.IsReserved || s.Player != nil'))),
 ('av-lists-swapped',SM,(AV_SPLIT,AV_SPLIT.replace('seats = append(seats, s.ID)','XX').replace('alternateSeats = append(alternateSeats, s.ID)','seats = append(seats, s.ID)').replace('XX','alternateSeats = append(alternateSeats, s.ID)'))),
 ('av-active-negated',SM,(AV_SPLIT,AV_SPLIT.replace('if s.IsActive {','if !s.IsActive {'))),
 ('av-inactive-dropped',SM,(AV_SPLIT,'\t\tif s.IsActive {\n\t\t\tseats = append(seats, s.ID)\n\t\t}\n')),
 ('av-inactive-into-both',SM,(AV_SPLIT,AV_SPLIT.replace('\t\t} else {\n','\t\t}\n\t\tif !s.IsActive || true {\n'))),
 ('av-return-swapped',SM,('\treturn seats, alternateSeats\n','\treturn alternateSeats, seats\n')),
 # ---- ApplyStates ----
 ('as-dealer-ge-to-gt',SM,('if state.Dealer >= 0 {','if state.Dealer > 0 {')),
 ('as-sb-ge-to-gt',SM,('if state.SB >= 0 {','if state.SB > 0 {')),
 ('as-bb-ge-to-gt',SM,('if state.BB >= 0 {','if state.BB > 0 {')),
 ('as-dealer-from-sb',SM,('sm.dealer = sm.seats[state.Dealer]','sm.dealer = sm.seats[state.SB]')),
 ('as-bb-into-sb',SM,('sm.bb = sm.seats[state.BB]','sm.sb = sm.seats[state.BB]')),
 ('as-sb-tested-on-bb',SM,('if state.SB >= 0 {','if state.BB >= 0 {')),
 ('as-max-not-restored',SM,('\tsm.max = state.Max\n','')),
 ('as-dealer-not-cleared',SM,('\tsm.dealer = nil\n\tsm.sb = nil','\tsm.sb = nil')),
 ('as-bb-not-cleared',SM,('\tsm.sb = nil\n\tsm.bb = nil\n','\tsm.sb = nil\n')),
 ('as-active-not-restored',SM,('\t\ts.IsActive = newState.IsActive\n','')),
 ('as-player-not-restored',SM,('\t\ts.Player = newState.Player\n','')),
 ('as-reserved-from-active',SM,('s.IsReserved = newState.IsReserved','s.IsReserved = newState.IsActive')),
 ('as-active-forced',SM,('s.IsActive = newState.IsActive','s.IsActive = true')),
 ('as-seats-shifted',SM,('newState := state.Seats[i]','newState := state.Seats[i+1]')),
 ('as-max-restored-last',SM,('\tsm.max = state.Max\n',''),('\treturn nil\n}\n\nfunc (sm *SeatManager) Dealer()','\tsm.max = state.Max\n\treturn nil\n}\n\nfunc (sm *SeatManager) Dealer()')),
 # ---- resetSeat / Reset, getSeat, the getters, the queries ----
 ('reset-inactive',SM,('\t\tIsActive:   true,\n','\t\tIsActive:   false,\n')),
 ('reset-reserved',SM,('\t\tIsReserved: false,\n','\t\tIsReserved: true,\n')),
 ('reset-id-zero',SM,('\t\tID:         seatID,\n','\t\tID:         0,\n')),
 ('reset-active-left-out',SM,('\t\tIsActive:   true,\n','')),
 ('reset-next-seat',SM,('\t\tsm.resetSeat(i)\n','\t\tsm.resetSeat(i + 1)\n')),
 ('reset-skips-seat-zero',SM,('\tfor i := 0; i < sm.max; i++ {\n\t\tsm.resetSeat(i)','\tfor i := 1; i < sm.max; i++ {\n\t\tsm.resetSeat(i)')),
 ('getseat-test-inverted',SM,('if s, ok := sm.seats[id]; ok {','if s, ok := sm.seats[id]; !ok {')),
 ('getseat-next-seat',SM,('if s, ok := sm.seats[id]; ok {','if s, ok := sm.seats[id+1]; ok {')),
 ('getter-dealer-returns-sb',SM,('func (sm *SeatManager) Dealer() *Seat {\n\treturn sm.dealer','func (sm *SeatManager) Dealer() *Seat {\n\treturn sm.sb')),
 ('getter-bb-returns-sb',SM,('func (sm *SeatManager) BigBlind() *Seat {\n\treturn sm.bb','func (sm *SeatManager) BigBlind() *Seat {\n\treturn sm.sb')),
 ('getter-sb-returns-dealer',SM,('func (sm *SeatManager) SmallBlind() *Seat {\n\treturn sm.sb','func (sm *SeatManager) SmallBlind() *Seat {\n\treturn sm.dealer')),
 ('query-playable-count-counts-nonempty',SM,('\treturn sm.getPlayableSeatCount()\n}','\treturn sm.getNonEmptySeatCount()\n}')),
 ('query-available-count-is-player-count',SM,('\treturn sm.getAvailableSeatCount()\n}','\treturn sm.getPlayerCount()\n}')),
 ('query-normalize-from-next',SM,('\treturn sm.getNormalizeSeats(startID)\n}','\treturn sm.getNormalizeSeats(startID + 1)\n}')),
 # ---- controls: behaviour-preserving edits (comments, formatting, an unused function, lock plumbing); must NOT break anything ----
 ('CONTROL-nd-comments-format',SM,('\t\t// Only one player left\n\t\tif sm.getNonEmptySeatCount() <= 1 {\n\t\t\treturn nil\n\t\t}\n','\t\t// nobody to play with\n\t\tif sm.getNonEmptySeatCount() <=\n\t\t\t1 {\n\n\t\t\treturn nil // Next() reports it\n\t\t}\n')),
 ('CONTROL-rn-comments-removed',SM,('\t\t// dealer is SB as well\n',''),('\t// Deactivate seats between dealer and BB\n','')),
 ('CONTROL-unused-function-edited',SM,('\t\tif !s.IsActive && !s.IsReserved && s.Player != nil {\n\t\t\ts.IsActive = true','\t\tif !s.IsReserved && s.Player != nil {\n\t\t\ts.IsActive = true')),
 ('CONTROL-fa-parentheses',SM,(FA_COND,'if (!s.IsActive || s.IsReserved) || s.Player == nil {')),
]
sel=sys.argv[1:]
for t in tests:
    if not sel or t[0] in sel or any(t[0].startswith(x) for x in sel): run(*t)
subprocess.run([GENLOGIC,REPO,f'{LW}/Pokerface/Generated'],check=True)
r=subprocess.run(['lake','build']+MODS,cwd=LW,capture_output=True,text=True)
print('unchanged tree rebuilt:', 'ok' if r.returncode==0 else 'FAILED')
bad=[n for (n,s,_,_) in results if (s!='CAUGHT') != n.startswith('CONTROL')]
print(f'{len(results)} edits; unexpected outcomes: {bad}')
