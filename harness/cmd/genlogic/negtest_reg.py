#!/usr/bin/env python3
# negative tests of the K1 translated-logic obligations of group "Reg" (regulator/regulator.go): apply one edit to a
# scratch copy of the repo, regenerate with genlogic, rebuild Proofs/GeneratedLogicReg, report which theorems break
# (same mechanism as negtest.py).
# usage: cp -r /repo $SCR; cp -r <lean project> $LW; GENLOGIC=<binary> negtest_reg.py [name-prefix ...]
import subprocess, re, sys, os
REPO=os.environ.get('REPO','/repo'); SCR=os.environ.get('SCR','/tmp/regneg'); LW=os.environ.get('LW','/tmp/lw-reg-neg')
GENLOGIC=os.environ.get('GENLOGIC','/tmp/hw-reg/genlogic')
MODS=['Pokerface.Proofs.GeneratedLogicReg']
ENV=dict(os.environ, GOFLAGS='-mod=mod', GOPROXY='off', GOSUMDB='off', GOTOOLCHAIN='local')
F='regulator/regulator.go'
results=[]
def run(name, old, new):
    src=open(f'{REPO}/{F}').read()
    if src.count(old)!=1:
        print(f'{name}: PATTERN NOT FOUND OR NOT UNIQUE ({src.count(old)})'); results.append((name,'PATTERN',[],'')); return
    open(f'{SCR}/{F}','w').write(src.replace(old,new))
    c=subprocess.run(['go','build','./regulator'],cwd=SCR,env=ENV,capture_output=True,text=True)
    compiles = 'compiles' if c.returncode==0 else 'DOES NOT COMPILE: '+c.stderr.strip().splitlines()[-1]
    subprocess.run([GENLOGIC,SCR,f'{LW}/Pokerface/Generated'],check=True)
    untr=sorted(set(re.findall(r'^-- UNTRANSLATED (.*)$',open(f'{LW}/Pokerface/Generated/LogicReg.lean').read(),re.M)))
    r=subprocess.run(['lake','build']+MODS,cwd=LW,capture_output=True,text=True)
    out=r.stdout+r.stderr
    broken=set()
    for m in re.finditer(r'error: Pokerface/Proofs/(GeneratedLogic\w*).lean:(\d+):',out):
        proof=open(f'{LW}/Pokerface/Proofs/{m.group(1)}.lean').read().splitlines()
        ln=int(m.group(2))
        while ln-1 < len(proof) and (proof[ln-1].startswith('/--') or (not re.match(r'\s*(theorem|def|example)\b',proof[ln-1]) and not proof[ln-1].startswith(' '))): ln+=1   # an error at a doc comment belongs to the declaration below
        for k in range(min(ln,len(proof))-1,-1,-1):
            mm=re.match(r'(theorem|def|example)\s*(\S*)',proof[k])
            if mm: broken.add(mm.group(2) if mm.group(1)!='example' else 'example'); break
    gen=sorted(set(re.findall(r'error: Pokerface/Generated/(Logic\w*).lean',out)))
    gen_err = 'LogicReg.lean untranslatable (does not compile): '+'; '.join(u[:90] for u in untr) if gen else ''
    status='CAUGHT' if r.returncode!=0 else 'NOT CAUGHT'
    print(f'{name}: {status} [{compiles}] {gen_err} broken={sorted(broken)}', flush=True)
    results.append((name,status,sorted(broken),gen_err))
    open(f'{SCR}/{F}','w').write(src)
CEILREQ='requiredTables := int(math.Ceil(float64(r.playerCount) / float64(r.maxPlayersPerTable)))'
FLOORREQ='requiredTables := int(math.Floor(float64(r.playerCount) / float64(r.maxPlayersPerTable)))'
tests=[
 # ---- SyncState ----
 ('sync-unknown-guard-flipped','\tif !ok {\n\t\treturn 0, []string{}, ErrNotFoundTable','\tif ok {\n\t\treturn 0, []string{}, ErrNotFoundTable'),
 ('sync-total-decrement-after-required','\tr.playerCount -= out\n\n\t// Update table information\n\tt.PlayerCount -= out\n\n\t//fmt.Println(tableID, r.playerCount, -playerChanges, playerCount)\n\n\t// Figure out how many tables we need\n\t'+CEILREQ+'\n',
    '\tt.PlayerCount -= out\n\n\t'+CEILREQ+'\n\tr.playerCount -= out\n'),
 ('sync-table-count-not-decremented','\t// Update table information\n\tt.PlayerCount -= out\n',''),
 ('sync-total-not-decremented','\t// update total player\n\tr.playerCount -= out\n',''),
 ('sync-required-floor','\t// Figure out how many tables we need\n\t'+CEILREQ,'\t// Figure out how many tables we need\n\t'+FLOORREQ),
 ('sync-deadline-break-le-lt','if r.playerCount <= r.maxPlayersPerTable && requiredTables < r.tableCount {','if r.playerCount < r.maxPlayersPerTable && requiredTables < r.tableCount {'),
 ('sync-deadline-break-tables-le','if r.playerCount <= r.maxPlayersPerTable && requiredTables < r.tableCount {','if r.playerCount <= r.maxPlayersPerTable && requiredTables <= r.tableCount {'),
 ('sync-deadline-break-status','\tif r.status == CompetitionStatus_AfterRegDeadline {\n\t\t// We can\'t add more tables','\tif r.status == CompetitionStatus_Normal {\n\t\t// We can\'t add more tables'),
 ('sync-deadline-break-guard-removed','\tif r.status == CompetitionStatus_AfterRegDeadline {\n\t\t// We can\'t add more tables','\tif true {\n\t\t// We can\'t add more tables'),
 ('sync-break-returns-zero','\t\t\treturn t.PlayerCount, []string{}, nil\n\t\t}\n\t}\n\n\twaterLevel','\t\t\treturn 0, []string{}, nil\n\t\t}\n\t}\n\n\twaterLevel'),
 ('sync-break-not-performed','\t\t\t// Break table\n\t\t\terr := r.breakTable(tableID)\n\t\t\tif err != nil {\n\t\t\t\treturn 0, []string{}, err\n\t\t\t}\n\n\t\t\treturn t.PlayerCount, []string{}, nil\n\t\t}\n\n\t\t// We need more players','\t\t\treturn t.PlayerCount, []string{}, nil\n\t\t}\n\n\t\t// We need more players'),
 ('sync-low-count-threshold','if r.getLowWaterLevelTableCount() >= 2 && requiredTables < r.tableCount {','if r.getLowWaterLevelTableCount() >= 1 && requiredTables < r.tableCount {'),
 ('sync-low-break-or','if r.getLowWaterLevelTableCount() >= 2 && requiredTables < r.tableCount {','if r.getLowWaterLevelTableCount() >= 2 || requiredTables < r.tableCount {'),
 ('sync-water-level-denominator','waterLevel := float64(r.playerCount) / float64(requiredTables)','waterLevel := float64(r.playerCount) / float64(r.tableCount)'),
 ('sync-below-lt-le','if float64(t.PlayerCount) < waterLevel {','if float64(t.PlayerCount) <= waterLevel {'),
 ('sync-branches-swapped','if float64(t.PlayerCount) < waterLevel {\n\n\t\t// more than one','if float64(t.PlayerCount) > waterLevel {\n\n\t\t// more than one'),
 ('sync-topup-ceil','count := int(math.Floor(waterLevel)) - t.PlayerCount','count := int(math.Ceil(waterLevel)) - t.PlayerCount'),
 ('sync-topup-plus-one','count := int(math.Floor(waterLevel)) - t.PlayerCount','count := int(math.Floor(waterLevel)) - t.PlayerCount + 1'),
 ('sync-still-required-guard','if stillRequired > 0 {','if stillRequired >= 0 {'),
 ('sync-required-not-recorded','\t\tif stillRequired > 0 {\n\t\t\tr.tables[tableID].Required = stillRequired\n\t\t}\n',''),
 ('sync-required-records-count','r.tables[tableID].Required = stillRequired','r.tables[tableID].Required = count'),
 ('sync-still-required-plus','stillRequired := count - len(players)','stillRequired := count + len(players)'),
 ('sync-count-not-raised','\t\tt.PlayerCount += len(players)\n\n\t\treturn 0, players, nil','\t\treturn 0, players, nil'),
 ('sync-count-raised-before-still','\t\tstillRequired := count - len(players)\n\t\tif stillRequired > 0 {\n\t\t\tr.tables[tableID].Required = stillRequired\n\t\t}\n\n\t\tt.PlayerCount += len(players)\n','\t\tt.PlayerCount += len(players)\n\t\tstillRequired := count - t.PlayerCount\n\t\tif stillRequired > 0 {\n\t\t\tr.tables[tableID].Required = stillRequired\n\t\t}\n'),
 ('sync-release-count-swapped','count := t.PlayerCount - int(math.Floor(waterLevel))','count := int(math.Floor(waterLevel)) - t.PlayerCount'),
 ('sync-release-cond-ge-gt','if lwl >= math.Floor(waterLevel) {','if lwl > math.Floor(waterLevel) {'),
 ('sync-release-cond-ceil','if lwl >= math.Floor(waterLevel) {','if lwl >= math.Ceil(waterLevel) {'),
 ('sync-release-no-decrement','\t\t\tpicked++\n\t\t\tt.PlayerCount--\n','\t\t\tpicked++\n'),
 ('sync-release-picked-before-check','\t\t\tlwl := r.calculateLowerWaterLevel()\n','\t\t\tpicked++\n\t\t\tlwl := r.calculateLowerWaterLevel()\n'),
 ('sync-release-returns-count','\t\treturn picked, []string{}, nil','\t\treturn count, []string{}, nil'),
 ('sync-release-loop-bound','\t\tfor i := 0; i < count; i++ {\n\t\t\tlwl','\t\tfor i := 0; i <= count; i++ {\n\t\t\tlwl'),
 # ---- AddPlayers, SetStatus, enterWaitingQueue, ReleasePlayers ----
 ('add-deadline-guard-status','\tif r.status == CompetitionStatus_AfterRegDeadline {\n\t\treturn ErrAfterRegDealline','\tif r.status == CompetitionStatus_Pending {\n\t\treturn ErrAfterRegDealline'),
 ('add-deadline-guard-removed','\tif r.status == CompetitionStatus_AfterRegDeadline {\n\t\treturn ErrAfterRegDealline\n\t}\n',''),
 ('add-count-after-update','\tr.playerCount += len(players)\n\n\tr.updateTableRequirements()\n','\tr.updateTableRequirements()\n\n\tr.playerCount += len(players)\n'),
 ('add-count-before-guard','\tif r.status == CompetitionStatus_AfterRegDeadline {\n\t\treturn ErrAfterRegDealline\n\t}\n\n\tr.playerCount += len(players)\n','\tr.playerCount += len(players)\n\n\tif r.status == CompetitionStatus_AfterRegDeadline {\n\t\treturn ErrAfterRegDealline\n\t}\n'),
 ('add-no-requirements-update','\tr.updateTableRequirements()\n\n\treturn r.enterWaitingQueue(players)','\treturn r.enterWaitingQueue(players)'),
 ('add-count-minus','r.playerCount += len(players)','r.playerCount -= len(players)'),
 ('setstatus-drain-or','oldStatus == CompetitionStatus_Pending && r.status == CompetitionStatus_Normal','oldStatus == CompetitionStatus_Pending || r.status == CompetitionStatus_Normal'),
 ('setstatus-drain-from-normal','oldStatus == CompetitionStatus_Pending && r.status == CompetitionStatus_Normal','oldStatus == CompetitionStatus_Normal && r.status == CompetitionStatus_AfterRegDeadline'),
 ('setstatus-old-after-store','\toldStatus := r.status\n\n\tr.status = status\n','\tr.status = status\n\n\toldStatus := r.status\n'),
 ('setstatus-not-stored','\toldStatus := r.status\n\n\tr.status = status\n','\toldStatus := r.status\n'),
 ('enter-pending-flipped','\tif r.status == CompetitionStatus_Pending {\n\t\treturn nil','\tif r.status != CompetitionStatus_Pending {\n\t\treturn nil'),
 ('enter-pending-guard-after-deadline','\tif r.status == CompetitionStatus_Pending {\n\t\treturn nil','\tif r.status == CompetitionStatus_AfterRegDeadline {\n\t\treturn nil'),
 ('enter-prepend','r.waitingQueue = append(r.waitingQueue, players...)','r.waitingQueue = append(players, r.waitingQueue...)'),
 ('enter-append-after-guard','\tr.waitingQueue = append(r.waitingQueue, players...)\n\n\t// TODO: test only: remove this later on\n\t//fmt.Println("[MTT#DEBUG#regulator#enterWaitingQueue] waitingQueue:", r.waitingQueue)\n\n\tif r.status == CompetitionStatus_Pending {\n\t\treturn nil\n\t}\n','\tif r.status == CompetitionStatus_Pending {\n\t\treturn nil\n\t}\n\n\tr.waitingQueue = append(r.waitingQueue, players...)\n'),
 ('release-drains-directly','\tdefer r.mu.Unlock()\n\n\treturn r.enterWaitingQueue(players)\n}','\tdefer r.mu.Unlock()\n\n\treturn r.drainWaitingQueue()\n}'),
 # ---- drainWaitingQueue ----
 ('drain-first-cond-ge-gt','if r.tableCount == 0 && len(r.waitingQueue) >= r.minInitialPlayers {','if r.tableCount == 0 && len(r.waitingQueue) > r.minInitialPlayers {'),
 ('drain-first-cond-or','if r.tableCount == 0 && len(r.waitingQueue) >= r.minInitialPlayers {','if r.tableCount == 0 || len(r.waitingQueue) >= r.minInitialPlayers {'),
 ('drain-tables-guard','\tif r.tableCount > 0 {\n\n\t\tvar err error','\tif r.tableCount >= 0 {\n\n\t\tvar err error'),
 ('drain-no-requirements-update','\t\tif len(candidates) > 0 {\n\t\t\tr.updateTableRequirements()\n\t\t}\n',''),
 ('drain-requirements-update-always','\t\tif len(candidates) > 0 {\n\t\t\tr.updateTableRequirements()\n\t\t}\n','\t\tr.updateTableRequirements()\n'),
 ('drain-queue-not-stored','\t\tr.waitingQueue = candidates\n',''),
 ('drain-loop-break-flipped','\t\tfor len(candidates) > 0 {\n\t\t\tcandidates, err = r.dispatchPlayer(candidates)\n\t\t\tif err == ErrNoAvailableTable {','\t\tfor len(candidates) > 0 {\n\t\t\tcandidates, err = r.dispatchPlayer(candidates)\n\t\t\tif err != ErrNoAvailableTable {'),
 ('drain-second-loop-removed','\t\t// still have players available in the queue\n\t\tfor len(candidates) > 0 {\n\t\t\t// re-calculate the water level for the tables that need more players\n\t\t\tcandidates, err = r.dispatchPlayer(candidates)\n\t\t\tif err == ErrNoAvailableTable {\n\t\t\t\tbreak\n\t\t\t}\n\t\t}\n',''),
 ('drain-alloc-guard','\t\t// still have players\n\t\tif len(candidates) > 0 {','\t\t// still have players\n\t\tif len(candidates) >= 0 {'),
 ('drain-alloc-before-store','\t\tr.waitingQueue = candidates\n\t\t//fmt.Println("[MTT#DEBUG#regulator#drainWaitingQueue] waitingQueue:", r.waitingQueue)\n\n\t\t// still have players\n\t\tif len(candidates) > 0 {\n\t\t\treturn r.allocateTables()\n\t\t}\n','\t\tif len(candidates) > 0 {\n\t\t\treturn r.allocateTables()\n\t\t}\n\t\tr.waitingQueue = candidates\n'),
 # ---- allocateTables ----
 ('alloc-required-floor','func (r *regulator) allocateTables() error {\n\n\t'+CEILREQ,'func (r *regulator) allocateTables() error {\n\n\t'+FLOORREQ),
 ('alloc-min-guard-lt-le','\t\tif r.playerCount < r.minInitialPlayers {','\t\tif r.playerCount <= r.minInitialPlayers {'),
 ('alloc-min-guard-removed','\t\tif r.playerCount < r.minInitialPlayers {\n\t\t\treturn nil\n\t\t}\n',''),
 ('alloc-first-wl-ceil','wl := int(math.Floor(float64(r.playerCount) / float64(requiredTables)))','wl := int(math.Ceil(float64(r.playerCount) / float64(requiredTables)))'),
 ('alloc-first-wl-cond','if wl >= r.minInitialPlayers {','if wl > r.minInitialPlayers {'),
 ('alloc-first-wl-branches-swapped','\t\tif wl >= r.minInitialPlayers {\n\t\t\twaterLevel = wl\n\t\t} else {','\t\tif wl < r.minInitialPlayers {\n\t\t\twaterLevel = wl\n\t\t} else {'),
 ('alloc-corrected-tables-ceil','requiredTables = int(math.Floor(float64(r.playerCount) / float64(r.maxPlayersPerTable)))','requiredTables = int(math.Ceil(float64(r.playerCount) / float64(r.maxPlayersPerTable)))'),
 ('alloc-later-wl-ceil','\t} else if r.tableCount > 0 {\n\t\twaterLevel = int(math.Floor(','\t} else if r.tableCount > 0 {\n\t\twaterLevel = int(math.Ceil('),
 ('alloc-initial-wl-min','\twaterLevel := r.maxPlayersPerTable\n','\twaterLevel := r.minInitialPlayers\n'),
 ('alloc-loop-header-le','for waterLevel >= r.minInitialPlayers && r.tableCount < requiredTables {','for waterLevel >= r.minInitialPlayers && r.tableCount <= requiredTables {'),
 ('alloc-cap-removed','\t\tif waterLevel > r.maxPlayersPerTable {\n\t\t\twaterLevel = r.maxPlayersPerTable\n\t\t}\n',''),
 ('alloc-cap-on-wrong-variable','\t\tif waterLevel > r.maxPlayersPerTable {\n\t\t\twaterLevel = r.maxPlayersPerTable\n\t\t}\n\n\t\trequiredPlayers := waterLevel\n','\t\trequiredPlayers := waterLevel\n\t\tif requiredPlayers > r.maxPlayersPerTable {\n\t\t\trequiredPlayers = r.maxPlayersPerTable\n\t\t}\n'),
 ('alloc-cap-ge','\t\tif waterLevel > r.maxPlayersPerTable {\n\t\t\twaterLevel = r.maxPlayersPerTable','\t\tif waterLevel > r.maxPlayersPerTable {\n\t\t\twaterLevel = r.maxPlayersPerTable - 1'),
 ('alloc-last-table-lt-le','len(r.waitingQueue) > waterLevel && len(r.waitingQueue) < r.maxPlayersPerTable {','len(r.waitingQueue) > waterLevel && len(r.waitingQueue) <= r.maxPlayersPerTable {'),
 ('alloc-last-table-guard-removed','\t\tif len(r.waitingQueue) > waterLevel && len(r.waitingQueue) < r.maxPlayersPerTable {\n\t\t\trequiredPlayers = len(r.waitingQueue)\n\t\t}\n',''),
 ('alloc-empty-guard','\t\tif len(players) == 0 {\n\t\t\treturn nil\n\t\t}\n',''),
 ('alloc-required-value','t.Required = waterLevel - len(players)','t.Required = waterLevel'),
 ('alloc-required-reset-dropped','\t\t\tRequired:    0,\n','\t\t\tRequired:    waterLevel,\n'),
 ('alloc-table-count-field','PlayerCount: len(players),','PlayerCount: requiredPlayers,'),
 ('alloc-tablecount-after-expected','\t\tr.tableCount++\n\n\t\tif len(players) < waterLevel {\n\t\t\t// update table sheet\n\t\t\tt.Required = waterLevel - len(players)\n\t\t}\n\n\t\tr.tables[tableID] = t\n\n\t\t// Calculate water level with players in the waiting queue\n\t\texpectedTables := requiredTables - r.tableCount\n',
    '\t\tif len(players) < waterLevel {\n\t\t\tt.Required = waterLevel - len(players)\n\t\t}\n\n\t\tr.tables[tableID] = t\n\n\t\texpectedTables := requiredTables - r.tableCount\n\t\tr.tableCount++\n'),
 ('alloc-table-not-stored','\t\tr.tables[tableID] = t\n',''),
 ('alloc-next-wl-ceil','waterLevel = int(math.Floor(float64(len(r.waitingQueue)) / float64(expectedTables)))','waterLevel = int(math.Ceil(float64(len(r.waitingQueue)) / float64(expectedTables)))'),
 ('alloc-next-wl-total','waterLevel = int(math.Floor(float64(len(r.waitingQueue)) / float64(expectedTables)))','waterLevel = int(math.Floor(float64(r.playerCount) / float64(expectedTables)))'),
 # ---- dispatchPlayer, getAvailableTable ----
 ('dispatch-required-zero-guard','if t == nil || t.Required == 0 {','if t == nil {'),
 ('dispatch-ge-gt','if t.Required >= len(candidates) {','if t.Required > len(candidates) {'),
 ('dispatch-branches-swapped','\t\tpicked = candidates[:t.Required]\n\t\tcandidates = candidates[t.Required:]','\t\tpicked = candidates[t.Required:]\n\t\tcandidates = candidates[:t.Required]'),
 ('dispatch-rest-before-pick','\t\tpicked = candidates[:t.Required]\n\t\tcandidates = candidates[t.Required:]','\t\tcandidates = candidates[t.Required:]\n\t\tpicked = candidates[:t.Required]'),
 ('dispatch-required-decrement-dropped','\tt.Required -= len(picked)\n',''),
 ('dispatch-count-wrong-operand','t.PlayerCount += len(picked)','t.PlayerCount += len(candidates)'),
 ('dispatch-required-reset','t.Required -= len(picked)','t.Required = 0'),
 ('dispatch-assign-all','err = r.assignPlayersFn(t.ID, picked)','err = r.assignPlayersFn(t.ID, players)'),
 ('dispatch-no-table-returns-nil','\t\treturn players, ErrNoAvailableTable','\t\treturn players, nil'),
 ('available-gt-ge','\t\tif t.Required > 0 {\n\t\t\treturn t, nil','\t\tif t.Required >= 0 {\n\t\t\treturn t, nil'),
 # ---- updateTableRequirements ----
 ('utr-required-floor','\t// the number of tables is not changed\n\t'+CEILREQ,'\t// the number of tables is not changed\n\t'+FLOORREQ),
 ('utr-cond-flipped','if requiredTables == len(r.tables) {','if requiredTables != len(r.tables) {'),
 ('utr-wl-floor','waterLevel := int(math.Ceil(float64(playerRemains) / float64(remains)))','waterLevel := int(math.Floor(float64(playerRemains) / float64(remains)))'),
 ('utr-lt-le','\t\t\tif t.PlayerCount < waterLevel {\n\t\t\t\tt.Required','\t\t\tif t.PlayerCount <= waterLevel {\n\t\t\t\tt.Required'),
 ('utr-required-value','t.Required = waterLevel - t.PlayerCount','t.Required = waterLevel'),
 ('utr-required-accumulates','t.Required = waterLevel - t.PlayerCount','t.Required += waterLevel - t.PlayerCount'),
 ('utr-guard-removed','\t\t\tif t.PlayerCount < waterLevel {\n\t\t\t\tt.Required = waterLevel - t.PlayerCount\n\t\t\t}\n','\t\t\tt.Required = waterLevel - t.PlayerCount\n'),
 # ---- getLowWaterLevelTableCount, calculateLowerWaterLevel, breakTable, requestPlayers ----
 ('lowcount-lt-le','\t\tif t.PlayerCount < waterLevel {\n\t\t\ttableCount++','\t\tif t.PlayerCount <= waterLevel {\n\t\t\ttableCount++'),
 ('lowcount-required-floor','func (r *regulator) getLowWaterLevelTableCount() int {\n\n\t'+CEILREQ,'func (r *regulator) getLowWaterLevelTableCount() int {\n\n\t'+FLOORREQ),
 ('lowcount-wl-ceil','requiredTables)))\n\n\ttableCount := 0\n\tfor _, t := range r.tables {','requiredTables)) + 1)\n\n\ttableCount := 0\n\tfor _, t := range r.tables {'),
 ('lower-le-lt','\t\tif t.PlayerCount <= waterLevel {','\t\tif t.PlayerCount < waterLevel {'),
 ('lower-no-continue','\t\t\ttableCount++\n\t\t\tcontinue\n\t\t}\n\n\t\tplayerCount -= t.PlayerCount','\t\t\ttableCount++\n\t\t}\n\n\t\tplayerCount -= t.PlayerCount'),
 ('lower-required-floor','func (r *regulator) calculateLowerWaterLevel() float64 {\n\n\t'+CEILREQ,'func (r *regulator) calculateLowerWaterLevel() float64 {\n\n\t'+FLOORREQ),
 ('lower-players-plus','playerCount -= t.PlayerCount','playerCount += t.PlayerCount'),
 ('lower-quotient-swapped','return float64(playerCount) / float64(tableCount)','return float64(tableCount) / float64(playerCount)'),
 ('break-decrement-before-lookup','\t_, ok := r.tables[tableID]\n\tif !ok {\n\t\treturn ErrNotFoundTable\n\t}\n\n\tdelete(r.tables, tableID)\n\n\tr.tableCount--\n','\tr.tableCount--\n\n\t_, ok := r.tables[tableID]\n\tif !ok {\n\t\treturn ErrNotFoundTable\n\t}\n\n\tdelete(r.tables, tableID)\n'),
 ('break-no-decrement','\tdelete(r.tables, tableID)\n\n\tr.tableCount--\n','\tdelete(r.tables, tableID)\n'),
 ('break-no-delete','\tdelete(r.tables, tableID)\n\n\tr.tableCount--\n','\tr.tableCount--\n'),
 ('request-players-guard','func (r *regulator) requestPlayers(count int) []string {\n\n\tplayers := make([]string, 0)\n\n\tfor i := 0; i < count; i++ {\n\n\t\tif len(r.waitingQueue) == 0 {','func (r *regulator) requestPlayers(count int) []string {\n\n\tplayers := make([]string, 0)\n\n\tfor i := 0; i < count; i++ {\n\n\t\tif len(r.waitingQueue) == 1 {'),
 ('request-players-bound','func (r *regulator) requestPlayers(count int) []string {\n\n\tplayers := make([]string, 0)\n\n\tfor i := 0; i < count; i++ {','func (r *regulator) requestPlayers(count int) []string {\n\n\tplayers := make([]string, 0)\n\n\tfor i := 0; i <= count; i++ {'),
 ('get-players-early-return','\tif len(r.waitingQueue) == 0 {\n\t\treturn []string{}\n\t}\n','\tif len(r.waitingQueue) <= 1 {\n\t\treturn []string{}\n\t}\n'),
 ('sync-release-decrement-before-check','\t\t\tlwl := r.calculateLowerWaterLevel()\n','\t\t\tt.PlayerCount--\n\t\t\tlwl := r.calculateLowerWaterLevel()\n\t\t\tt.PlayerCount++\n'),
 ('sync-release-no-break','\t\t\t\t//fmt.Println("========= No need to move more players")\n\t\t\t\tbreak\n','\t\t\t\tcontinue\n'),
 ('setstatus-drain-before-store','\toldStatus := r.status\n\n\tr.status = status\n\n\tif oldStatus == CompetitionStatus_Pending && r.status == CompetitionStatus_Normal {\n\t\tr.drainWaitingQueue()\n\t}\n','\toldStatus := r.status\n\n\tif oldStatus == CompetitionStatus_Pending && status == CompetitionStatus_Normal {\n\t\tr.drainWaitingQueue()\n\t}\n\n\tr.status = status\n'),
 # ---- controls: behaviour-preserving edits (formatting, comments, a redundant guard); must NOT break anything ----
 # (`if r.status == status { return }` is redundant: with old = new the drain condition `old == Pending && new == Normal` is false)
 ('CONTROL-setstatus-same-guard-removed','\tif r.status == status {\n\t\treturn\n\t}\n',''),
 ('CONTROL-sync-comments','\t// update total player\n\tr.playerCount -= out\n','\t// the players the table reports as eliminated\n\n\n\tr.playerCount -=\n\t\tout // leave the tournament\n'),
 ('CONTROL-alloc-format','\t\tif waterLevel > r.maxPlayersPerTable {\n\t\t\twaterLevel = r.maxPlayersPerTable\n\t\t}\n','\t\t// cap\n\t\tif waterLevel >\n\t\t\tr.maxPlayersPerTable {\n\n\t\t\twaterLevel = r.maxPlayersPerTable // never more than a full table\n\t\t}\n'),
]
sel=sys.argv[1:]
for t in tests:
    if not sel or t[0] in sel or any(t[0].startswith(x) for x in sel): run(*t)
subprocess.run([GENLOGIC,REPO,f'{LW}/Pokerface/Generated'],check=True)
r=subprocess.run(['lake','build']+MODS,cwd=LW,capture_output=True,text=True)
print('unchanged tree rebuilt:', 'ok' if r.returncode==0 else 'FAILED')
bad=[n for (n,s,_,_) in results if (s!='CAUGHT') != n.startswith('CONTROL')]
print(f'{len(results)} edits; unexpected outcomes: {bad}')
