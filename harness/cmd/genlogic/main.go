// genlogic translates the decision logic of a few Go functions of /repo into Lean definitions
// (lean/Pokerface/Generated/Logic.lean) on every run.  The translation is purely syntactic
// (go/ast): structured `if` / `else`, assignments to the tracked variables, `append` of a
// constant, early `return`; Go sub-expressions are mapped to Lean terms by a per-function table.
// Theorems in Proofs/GeneratedLogic.lean state that each generated definition equals the
// corresponding definition of the hand-written model, so a change of the Go decision logic
// changes the generated definition and breaks that proof obligation (K1, DESIGN §2).
//
// A function body the translator cannot handle (an unknown statement or expression) is a
// translation failure: genlogic then emits a definition that cannot type-check, so the obligation
// breaks instead of being silently skipped.
package main

import (
	"bytes"
	"fmt"
	"go/ast"
	"go/parser"
	"go/printer"
	"go/token"
	"os"
	"path/filepath"
	"strings"
)

type spec struct {
	file, recv, name string
	leanName         string
	params           string            // Lean binder list
	resultType       string            // Lean type of the result
	tracked          map[string]string // Go variable (printed form) -> initial Lean term
	exprs            map[string]string // printed Go expression -> Lean term
	skip             []string          // statements (printed, prefix match) to ignore
	stopAt           string            // statement (prefix) at which translation stops and `result` is returned
	result           string            // Lean term for the result at stop / at the end (may mention tracked variables)
	returns          map[string]string // printed return expression -> Lean term
	calls            map[string][2]string // printed call statement -> (tracked variable, Lean term assigned to it)
}

var fset = token.NewFileSet()

func pr(n ast.Node) string {
	var b bytes.Buffer
	printer.Fprint(&b, fset, n)
	return strings.Join(strings.Fields(b.String()), " ")
}

type tr struct {
	s    *spec
	fail []string
}

func leanVar(goName string) string {
	r := strings.NewReplacer(".", "_", "(", "", ")", "", "\"", "", " ", "")
	return "v_" + r.Replace(goName)
}

func (t *tr) expr(e ast.Expr) string {
	p := pr(e)
	if v, ok := t.s.exprs[p]; ok {
		return v
	}
	if _, ok := t.s.tracked[p]; ok {
		return leanVar(p)
	}
	switch x := e.(type) {
	case *ast.ParenExpr:
		return "(" + t.expr(x.X) + ")"
	case *ast.BasicLit:
		if x.Kind == token.INT {
			return "(" + x.Value + " : Int)"
		}
		if x.Kind == token.STRING {
			return x.Value
		}
	case *ast.UnaryExpr:
		if x.Op == token.NOT {
			return "(!" + t.expr(x.X) + ")"
		}
	case *ast.CallExpr:
		// int64(0) and friends
		if id, ok := x.Fun.(*ast.Ident); ok && (id.Name == "int64" || id.Name == "int") && len(x.Args) == 1 {
			return t.expr(x.Args[0])
		}
		// append(v, "const")
		if id, ok := x.Fun.(*ast.Ident); ok && id.Name == "append" && len(x.Args) == 2 {
			return "(" + t.expr(x.Args[0]) + " ++ [" + t.expr(x.Args[1]) + "])"
		}
		// make([]string, 0)
		if id, ok := x.Fun.(*ast.Ident); ok && id.Name == "make" {
			return "([] : List String)"
		}
	case *ast.BinaryExpr:
		l, r := t.expr(x.X), t.expr(x.Y)
		switch x.Op {
		case token.LAND:
			return "(" + l + " && " + r + ")"
		case token.LOR:
			return "(" + l + " || " + r + ")"
		case token.EQL:
			return "(" + l + " == " + r + ")"
		case token.NEQ:
			return "(" + l + " != " + r + ")"
		case token.LSS:
			return "(decide (" + l + " < " + r + "))"
		case token.GTR:
			return "(decide (" + l + " > " + r + "))"
		case token.LEQ:
			return "(decide (" + l + " ≤ " + r + "))"
		case token.GEQ:
			return "(decide (" + l + " ≥ " + r + "))"
		case token.ADD:
			return "(" + l + " + " + r + ")"
		case token.SUB:
			return "(" + l + " - " + r + ")"
		}
	}
	t.fail = append(t.fail, "expression: "+p)
	return "UNTRANSLATED"
}

func (t *tr) skipped(s ast.Stmt) bool {
	p := pr(s)
	for _, k := range t.s.skip {
		if strings.HasPrefix(p, k) {
			return true
		}
	}
	return false
}

// block translates a statement list followed by the continuation `k` (a Lean term).
func (t *tr) block(stmts []ast.Stmt, k string) string {
	if len(stmts) == 0 {
		return k
	}
	s, rest := stmts[0], stmts[1:]
	if t.s.stopAt != "" && strings.HasPrefix(pr(s), t.s.stopAt) {
		return t.s.result
	}
	if t.skipped(s) {
		return t.block(rest, k)
	}
	switch x := s.(type) {
	case *ast.ReturnStmt:
		if len(x.Results) == 1 {
			p := pr(x.Results[0])
			if v, ok := t.s.returns[p]; ok {
				return v
			}
			if _, ok := t.s.tracked[p]; ok {
				return leanVar(p)
			}
		}
		t.fail = append(t.fail, "return: "+pr(x))
		return "UNTRANSLATED"
	case *ast.ExprStmt:
		if c, ok := t.s.calls[pr(x.X)]; ok {
			return "(let " + leanVar(c[0]) + " := " + c[1] + "\n " + t.block(rest, k) + ")"
		}
		t.fail = append(t.fail, "call: "+pr(x))
		return "UNTRANSLATED"
	case *ast.AssignStmt:
		if len(x.Lhs) == 1 && len(x.Rhs) == 1 {
			l := pr(x.Lhs[0])
			if _, ok := t.s.tracked[l]; ok {
				rhs := t.expr(x.Rhs[0])
				switch x.Tok {
				case token.ADD_ASSIGN:
					rhs = "(" + leanVar(l) + " + " + rhs + ")"
				case token.SUB_ASSIGN:
					rhs = "(" + leanVar(l) + " - " + rhs + ")"
				}
				return "(let " + leanVar(l) + " := " + rhs + "\n " + t.block(rest, k) + ")"
			}
		}
		t.fail = append(t.fail, "assignment: "+pr(x))
		return "UNTRANSLATED"
	case *ast.IfStmt:
		if x.Init != nil {
			t.fail = append(t.fail, "if with init: "+pr(x.Init))
			return "UNTRANSLATED"
		}
		cont := t.block(rest, k)
		thenB := t.block(x.Body.List, cont)
		elseB := cont
		switch e := x.Else.(type) {
		case nil:
		case *ast.BlockStmt:
			elseB = t.block(e.List, cont)
		case *ast.IfStmt:
			elseB = t.block([]ast.Stmt{e}, cont)
		}
		return "(if " + t.expr(x.Cond) + " then\n " + thenB + "\n else\n " + elseB + ")"
	case *ast.BlockStmt:
		return t.block(append(append([]ast.Stmt{}, x.List...), rest...), k)
	}
	t.fail = append(t.fail, "statement: "+pr(s))
	return "UNTRANSLATED"
}

func findFunc(root string, s *spec) *ast.FuncDecl {
	af, err := parser.ParseFile(fset, filepath.Join(root, s.file), nil, 0)
	if err != nil {
		return nil
	}
	for _, d := range af.Decls {
		fd, ok := d.(*ast.FuncDecl)
		if !ok || fd.Name.Name != s.name {
			continue
		}
		recv := ""
		if fd.Recv != nil && len(fd.Recv.List) > 0 {
			recv = strings.TrimPrefix(pr(fd.Recv.List[0].Type), "*")
		}
		if recv == s.recv {
			return fd
		}
	}
	return nil
}

var specs = []*spec{
	{
		file: "player.go", recv: "player", name: "pay", leanName: "pay",
		params: "(stack initial wager roundPot cw prev chips : Int) (isWager : Bool)", resultType: "Int × Int × Int × Int × String",
		tracked: map[string]string{"p.state.StackSize": "stack", "p.state.Wager": "wager", "gs.Status.CurrentRoundPot": "roundPot",
			"gs.Status.CurrentWager": "cw", "mark": "\"\"", "raised": "(0 : Int)", "minRaise": "(0 : Int)"},
		exprs: map[string]string{"p.state.InitialStackSize": "initial", "gs.Status.PreviousRaiseSize": "prev", "chips": "chips", "isWager": "isWager"},
		skip:  []string{"gs := p.game.GetState()", "if gs.Meta.Limit == \"pot\"", "p.state.DidAction ="},
		calls: map[string][2]string{"p.game.BecomeRaiser(p)": {"mark", "\"raiser\""}, "p.game.ResetActedPlayers()": {"mark", "\"reset\""}},
		returns: map[string]string{"nil": "(v_p_state_StackSize, v_p_state_Wager, v_gs_Status_CurrentRoundPot, v_gs_Status_CurrentWager, v_mark)"},
		result:  "(v_p_state_StackSize, v_p_state_Wager, v_gs_Status_CurrentRoundPot, v_gs_Status_CurrentWager, v_mark)",
	},
	{
		file: "game.go", recv: "game", name: "GetAvailableActions", leanName: "availableActions",
		params: "(fold : Bool) (stack wager initial cw prev miniBet : Int)", resultType: "List String",
		tracked: map[string]string{"actions": "([] : List String)"},
		exprs: map[string]string{"p == nil": "false", "ps.Fold": "fold", "ps.StackSize": "stack", "ps.Wager": "wager",
			"ps.InitialStackSize": "initial", "g.gs.Status.CurrentWager": "cw", "g.gs.Status.PreviousRaiseSize": "prev",
			"g.gs.Status.MiniBet": "miniBet"},
		skip:   []string{"ps := p.State()"},
		result: "v_actions",
	},
	{
		file: "player.go", recv: "player", name: "PayBlinds", leanName: "blindChips",
		params: "(bb sb dealer : Int) (posBB posSB posDealer : Bool) (stack : Int)", resultType: "Int",
		tracked: map[string]string{"chips": "(0 : Int)"},
		exprs: map[string]string{"gs.Meta.Blind.BB": "bb", "gs.Meta.Blind.SB": "sb", "gs.Meta.Blind.Dealer": "dealer",
			"p.CheckPosition(\"bb\")": "posBB", "p.CheckPosition(\"sb\")": "posSB", "p.CheckPosition(\"dealer\")": "posDealer",
			"p.State().StackSize": "stack"},
		skip:   []string{"gs := p.game.GetState()", "if gs.Status.CurrentEvent != \"BlindsRequested\"", "action :=", "action ="},
		stopAt: "err := p.pay(chips, true)", result: "v_chips",
	},
	{
		file: "game.go", recv: "game", name: "RequestBlinds", leanName: "skipBlinds",
		params: "(dealer sb bb : Int)", resultType: "Bool",
		tracked: map[string]string{},
		exprs:   map[string]string{"g.gs.Meta.Blind.Dealer": "dealer", "g.gs.Meta.Blind.SB": "sb", "g.gs.Meta.Blind.BB": "bb"},
		returns: map[string]string{"g.EmitEvent(GameEvent_BlindsPaid)": "true", "g.EmitEvent(GameEvent_BlindsRequested)": "false"},
		result:  "false",
	},
	{
		file: "combination/power.go", recv: "", name: "CalculatePower", leanName: "categoryChain",
		params: "(flush straight four full trips twoPair pair : Bool)", resultType: "Cat",
		tracked: map[string]string{"ps.Combination": "Cat.highCard"},
		exprs: map[string]string{"isFlush(cards)": "flush", "isStraight(cards)": "straight", "isFourOfAKind(ps.Elements)": "four",
			"isFullHouse(ps.Elements)": "full", "isThreeOfAKind(ps.Elements)": "trips", "isTwoPair(ps.Elements)": "twoPair",
			"isPair(ps.Elements)": "pair", "CombinationFlush": "Cat.flush", "CombinationStraightFlush": "Cat.straightFlush",
			"CombinationStraight": "Cat.straight", "CombinationFourOfAKind": "Cat.quads", "CombinationFullHouse": "Cat.fullHouse",
			"CombinationThreeOfAKind": "Cat.trips", "CombinationTwoPair": "Cat.twoPair", "CombinationPair": "Cat.pair",
			"CombinationHighCard": "Cat.highCard"},
		skip:   []string{"cards := GetCardStates(cardSymbols)", "sort.Slice(cards", "ps := &PowerState{"},
		stopAt: "powerBaseline := CalculatePowerLevels(pr, ps)", result: "v_ps_Combination",
	},
}

func main() {
	root := "/repo"
	out := "/verif/lean/Pokerface/Generated"
	if len(os.Args) > 1 {
		root = os.Args[1]
	}
	if len(os.Args) > 2 {
		out = os.Args[2]
	}
	var b strings.Builder
	b.WriteString("import Pokerface.Model.Cards\n/- GENERATED by /verif/harness/cmd/genlogic from the Go AST of the repository under test. Do not edit. -/\n")
	b.WriteString("namespace Pokerface.Generated.Logic\nopen Pokerface\n\n")
	for _, s := range specs {
		fd := findFunc(root, s)
		fmt.Fprintf(&b, "/-- %s: `%s%s`, translated from the source. -/\n", s.file, map[bool]string{true: "(" + s.recv + ") ", false: ""}[s.recv != ""], s.name)
		if fd == nil || fd.Body == nil {
			fmt.Fprintf(&b, "def %s %s : %s := FUNCTION_NOT_FOUND\n\n", s.leanName, s.params, s.resultType)
			continue
		}
		t := &tr{s: s}
		body := t.block(fd.Body.List, s.result)
		for v, init := range s.tracked {
			body = "(let " + leanVar(v) + " := " + init + "\n " + body + ")"
		}
		for _, f := range t.fail {
			fmt.Fprintf(&b, "-- UNTRANSLATED %s\n", f)
		}
		fmt.Fprintf(&b, "def %s %s : %s :=\n %s\n\n", s.leanName, s.params, s.resultType, body)
	}
	b.WriteString("end Pokerface.Generated.Logic\n")
	path := filepath.Join(out, "Logic.lean")
	old, err := os.ReadFile(path)
	if err == nil && string(old) == b.String() {
		return
	}
	if err := os.WriteFile(path, []byte(b.String()), 0o644); err != nil {
		fmt.Fprintln(os.Stderr, err)
		os.Exit(2)
	}
}
