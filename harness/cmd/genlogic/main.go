// genlogic translates the decision logic of the Go functions of /repo listed in `specs` into Lean
// definitions on every run: lean/Pokerface/Generated/Logic.lean (hand evaluation, betting, player
// actions), LogicFlow.lean (flow of the hand: game.go, event.go, action.go) and LogicSM.lean (seat
// manager), one file per group so that the obligations of one area do not depend on the others.  The translation is purely syntactic
// (go/ast): structured `if` / `else`, assignments to the tracked variables, `append` of a
// constant, early `return`; Go sub-expressions are mapped to Lean terms by a per-function table.
// Theorems in Proofs/GeneratedLogic.lean, GeneratedLogicFlow.lean and GeneratedLogicSM.lean state that each generated definition equals the
// corresponding definition of the hand-written model, so a change of the Go decision logic
// changes the generated definition and breaks that proof obligation (K1, DESIGN §2).
//
// A function body the translator cannot handle (an unknown statement or expression) is a
// translation failure: genlogic then emits a definition that cannot type-check, so the obligation
// breaks instead of being silently skipped.
//
// Further constructs (all syntactic):
//   - `stmts`: a whole statement, matched by its printed form, is read as an assignment to a tracked
//     variable (used to record effects in order: `p.pay(delta, true)` becomes
//     `eff := eff ++ [("pay", delta)]`, `p.state.Acted = true` becomes `eff := eff ++ [("acted", 0)]`);
//   - `guards`: a whole statement, matched by its printed form, is read as `if cond then result`
//     (used for the `for … range` bankroll loop of `Start`: any edit inside the loop changes the
//     printed form, the statement is then unknown and the translation fails);
//   - tag `switch` with constant cases, `fallthrough` and `default`, and tagless `switch` over conditions, read as an if-chain;
//   - `loop`/`around`: the body of the one top-level loop of a function is translated as a function of
//     one iteration; the statements around the loop are pinned by their printed form;
//   - `x++`, `x--` on tracked variables;
//   - a `:=` that would shadow a tracked variable of an enclosing scope is a translation failure
//     (the let-chain would leak the inner value).
//
// Group "Glue" (LogicGlue.lean; obligations in Proofs/GeneratedLogicGlue.lean) adds three constructs:
//   - `effcalls`: a call statement `recv.F(a, b, …)` whose printed callee is listed becomes the effect
//     `eff := eff ++ [("F", a', b', …)]` with every argument translated by the expression table (so that
//     `p.Pot+p.Wager` → `p.Pot` changes the generated definition rather than making it unknown);
//   - `continue` in the body of the `loop` ends the iteration: the `result` at that point;
//   - an entry `<header> { … }` of `around` stands for another top-level loop with that header whose
//     body is the subject of another spec (position and header pinned, body not).
//
// Group "Reg" (LogicReg.lean; obligations in Proofs/GeneratedLogicReg.lean; regulator/regulator.go) adds:
//   - `multi`: like `stmts`, but the pinned statement assigns several tracked variables, in order (a call that
//     returns a value and has an effect: `players := r.requestPlayers(count)`); a loop may be listed by its
//     header as `<header> { … }` (position and header pinned, the body is the subject of another spec);
//   - `within`: with `loop`, the loop is looked for in the body of the top-level `if` with this printed header
//     (`around` then lists the other statements of that body);
//   - a first entry `…` of `around` stands for all the statements before the loop: they are the subject of another
//     spec (one with `stopAt` at this loop, which translates them);
//   - a bare `return` is looked up in `returns` as "", a `break` directly in the translated loop as "break";
//   - float quotients (only in this group): `int(math.Ceil(float64(a) / float64(b)))` → `(regCeilDiv a' b')`,
//     `int(math.Floor(float64(a) / float64(b)))` → `(regFloorDiv a' b')` with `a'`, `b'` the translations of
//     `a`, `b`; the two functions are defined at the head of LogicReg.lean as `(a + b - 1) / b` and `a / b`
//     on `Int` (DESIGN §4).  A tracked "variable" may be any printed expression (`len(r.waitingQueue)`).
package main

import (
	"bytes"
	"fmt"
	"go/ast"
	"go/parser"
	"go/printer"
	"go/token"
	"os"
	"path/filepath"
	"sort"
	"strings"
)

type spec struct {
	file, recv, name string
	leanName         string
	params           string                 // Lean binder list
	resultType       string                 // Lean type of the result
	tracked          map[string]string      // Go variable (printed form) -> initial Lean term
	exprs            map[string]string      // printed Go expression -> Lean term
	skip             []string               // statements (printed, prefix match) to ignore
	stopAt           string                 // statement (prefix) at which translation stops and `result` is returned
	result           string                 // Lean term for the result at stop / at the end (may mention tracked variables)
	returns          map[string]string      // printed return expression -> Lean term
	calls            map[string][2]string   // printed call statement -> (tracked variable, Lean term assigned to it)
	stmts            map[string][2]string   // printed statement (any kind) -> (tracked variable, Lean term assigned to it)
	guards           map[string][]string    // printed statement -> (Lean condition, Lean result when it holds[, tracked variable, Lean term assigned otherwise])
	group            string                 // output file: "" -> Logic.lean (hand evaluation, betting), "Flow" -> LogicFlow.lean, "SM" -> LogicSM.lean, "Glue" -> LogicGlue.lean
	loop             string                 // if set: translate the BODY of the top-level loop with this printed header (one iteration)
	around           []string               // with `loop`: the other top-level statements of the function, printed, in order
	effcalls         map[string]string      // [Glue] printed callee of a call statement -> effect name; the arguments are translated by `expr`
	multi            map[string][][2]string // [Reg] printed statement (or `<loop header> { … }`) -> assignments (tracked variable, Lean term), in order
	within           string                 // [Reg] with `loop`: printed header of the top-level `if` whose body holds the loop
}

var fset = token.NewFileSet()

func pr(n ast.Node) string {
	var b bytes.Buffer
	printer.Fprint(&b, fset, n)
	return strings.Join(strings.Fields(b.String()), " ")
}

type tr struct {
	s    *spec
	fail []string
}

func leanVar(goName string) string {
	r := strings.NewReplacer(".", "_", "(", "", ")", "", "\"", "", " ", "", "[", "", "]", "")
	return "v_" + r.Replace(goName)
}

func (t *tr) expr(e ast.Expr) string {
	p := pr(e)
	if v, ok := t.s.exprs[p]; ok {
		return v
	}
	if _, ok := t.s.tracked[p]; ok {
		return leanVar(p)
	}
	// [group Pots] begin
	if t.s.group == "Pots" {
		if v, ok := t.potsExpr(e); ok {
			return v
		}
	}
	// [group Pots] end
	// [group Hop] begin
	if t.s.group == "Hop" {
		if v, ok := t.hopExpr(e); ok {
			return v
		}
	}
	// [group Hop] end
	// [group SM2] begin
	if t.s.group == "SM2" {
		if v, ok := t.sm2Expr(e); ok {
			return v
		}
	}
	// [group SM2] end
	// [group Drv] begin
	if t.s.group == "Drv" {
		if v, ok := t.drvExpr(e); ok {
			return v
		}
	}
	// [group Drv] end
	switch x := e.(type) {
	case *ast.Ident:
		if x.Name == "true" || x.Name == "false" {
			return x.Name
		}
	case *ast.ParenExpr:
		return "(" + t.expr(x.X) + ")"
	case *ast.BasicLit:
		if x.Kind == token.INT {
			return "(" + x.Value + " : Int)"
		}
		if x.Kind == token.STRING {
			return x.Value
		}
	case *ast.UnaryExpr:
		if x.Op == token.NOT {
			return "(!" + t.expr(x.X) + ")"
		}
		if x.Op == token.SUB {
			return "(-" + t.expr(x.X) + ")"
		}
	case *ast.CallExpr:
		// [Reg] int(math.Ceil(float64(a) / float64(b))), int(math.Floor(float64(a) / float64(b)))
		if q := t.floatQuotient(x); q != "" {
			return q
		}
		// int64(0) and friends
		if id, ok := x.Fun.(*ast.Ident); ok && (id.Name == "int64" || id.Name == "int") && len(x.Args) == 1 {
			return t.expr(x.Args[0])
		}
		// append(v, "const")
		if id, ok := x.Fun.(*ast.Ident); ok && id.Name == "append" && len(x.Args) == 2 {
			return "(" + t.expr(x.Args[0]) + " ++ [" + t.expr(x.Args[1]) + "])"
		}
		// make([]string, 0)
		if id, ok := x.Fun.(*ast.Ident); ok && id.Name == "make" {
			return "([] : List String)"
		}
	case *ast.BinaryExpr:
		l, r := t.expr(x.X), t.expr(x.Y)
		switch x.Op {
		case token.LAND:
			return "(" + l + " && " + r + ")"
		case token.LOR:
			return "(" + l + " || " + r + ")"
		case token.EQL:
			return "(" + l + " == " + r + ")"
		case token.NEQ:
			return "(" + l + " != " + r + ")"
		case token.LSS:
			return "(decide (" + l + " < " + r + "))"
		case token.GTR:
			return "(decide (" + l + " > " + r + "))"
		case token.LEQ:
			return "(decide (" + l + " ≤ " + r + "))"
		case token.GEQ:
			return "(decide (" + l + " ≥ " + r + "))"
		case token.ADD:
			return "(" + l + " + " + r + ")"
		case token.SUB:
			return "(" + l + " - " + r + ")"
		}
	}
	t.fail = append(t.fail, "expression: "+p)
	return "UNTRANSLATED"
}

// floatQuotient reads `int(math.Ceil(float64(a) / float64(b)))` and `int(math.Floor(float64(a) / float64(b)))`
// (group Reg only) as the integer forms `regCeilDiv a b` and `regFloorDiv a b`.
func (t *tr) floatQuotient(x *ast.CallExpr) string {
	if t.s.group != "Reg" {
		return ""
	}
	arg := func(e ast.Expr, fn string) ast.Expr { // e = fn(arg)
		c, ok := e.(*ast.CallExpr)
		if !ok || pr(c.Fun) != fn || len(c.Args) != 1 || c.Ellipsis.IsValid() {
			return nil
		}
		return c.Args[0]
	}
	in := arg(x, "int")
	if in == nil {
		return ""
	}
	for fn, lean := range map[string]string{"math.Ceil": "regCeilDiv", "math.Floor": "regFloorDiv"} {
		q := arg(in, fn)
		if q == nil {
			continue
		}
		b, ok := q.(*ast.BinaryExpr)
		if !ok || b.Op != token.QUO {
			return ""
		}
		n, d := arg(b.X, "float64"), arg(b.Y, "float64")
		if n == nil || d == nil {
			return ""
		}
		return "(" + lean + " " + t.expr(n) + " " + t.expr(d) + ")"
	}
	return ""
}

// pinned returns the printed form under which a statement may be listed in `multi`: its full text, or for a
// loop `<header> { … }`.
func pinnedForms(s ast.Stmt) []string {
	forms := []string{pr(s)}
	var b *ast.BlockStmt
	switch x := s.(type) {
	case *ast.RangeStmt:
		b = x.Body
	case *ast.ForStmt:
		b = x.Body
	}
	if b != nil {
		forms = append(forms, strings.TrimSuffix(pr(s), pr(b))+"{ … }")
	}
	return forms
}

func (t *tr) skipped(s ast.Stmt) bool {
	p := pr(s)
	for _, k := range t.s.skip {
		if strings.HasPrefix(p, k) {
			return true
		}
	}
	return false
}

type scope map[string]bool // tracked locals declared (by `:=`) in this or an enclosing scope

func (d scope) inner() scope {
	c := scope{}
	for k := range d {
		c[k] = true
	}
	return c
}

// block translates a statement list followed by the continuation `k` (a Lean term).
// `own` holds the locals declared in the current Go block, `outer` those of the enclosing blocks.
func (t *tr) block(stmts []ast.Stmt, k string, own, outer scope) string {
	if len(stmts) == 0 {
		return k
	}
	s, rest := stmts[0], stmts[1:]
	if t.s.stopAt != "" && strings.HasPrefix(pr(s), t.s.stopAt) {
		return t.s.result
	}
	if t.skipped(s) {
		return t.block(rest, k, own, outer)
	}
	if c, ok := t.s.stmts[pr(s)]; ok {
		return "(let " + leanVar(c[0]) + " := " + c[1] + "\n " + t.block(rest, k, own, outer) + ")"
	}
	if t.s.multi != nil { // [Reg]
		for _, f := range pinnedForms(s) {
			if as, ok := t.s.multi[f]; ok {
				out := t.block(rest, k, own, outer)
				for i := len(as) - 1; i >= 0; i-- {
					out = "(let " + leanVar(as[i][0]) + " := " + as[i][1] + "\n " + out + ")"
				}
				return out
			}
		}
	}
	if c, ok := t.s.guards[pr(s)]; ok {
		cont := t.block(rest, k, own, outer)
		if len(c) == 4 { // the statement also has an effect when the guard does not fire
			cont = "(let " + leanVar(c[2]) + " := " + c[3] + "\n " + cont + ")"
		}
		return "(if " + c[0] + " then\n " + c[1] + "\n else\n " + cont + ")"
	}
	nested := func() scope { // the scope seen from a block nested in the current one
		o := outer.inner()
		for v := range own {
			o[v] = true
		}
		return o
	}
	// [group Hop] begin
	if t.s.group == "Hop" {
		if out, ok := t.hopStmt(s, rest, k, own, outer, nested); ok {
			return out
		}
	}
	// [group Hop] end
	// [group Pots] begin
	if t.s.group == "Pots" {
		if out, ok := t.potsStmt(s, rest, k, own, outer, nested); ok {
			return out
		}
	}
	// [group Pots] end
	// [group SM2] begin
	if t.s.group == "SM2" {
		if out, ok := t.sm2Stmt(s, rest, k, own, outer, nested); ok {
			return out
		}
	}
	// [group SM2] end
	// [group Drv] begin
	if t.s.group == "Drv" {
		if out, ok := t.drvStmt(s, rest, k, own, outer, nested); ok {
			return out
		}
	}
	// [group Drv] end
	switch x := s.(type) {
	case *ast.ReturnStmt:
		if len(x.Results) >= 1 {
			// several results are looked up as "a, b"
			var rs []string
			for _, r := range x.Results {
				rs = append(rs, pr(r))
			}
			p := strings.Join(rs, ", ")
			if v, ok := t.s.returns[p]; ok {
				return v
			}
			if _, ok := t.s.tracked[p]; ok {
				return leanVar(p)
			}
		} else if v, ok := t.s.returns[""]; ok { // [Reg] bare `return`
			return v
		}
		t.fail = append(t.fail, "return: "+pr(x))
		return "UNTRANSLATED"
	case *ast.ExprStmt:
		if c, ok := t.s.calls[pr(x.X)]; ok {
			return "(let " + leanVar(c[0]) + " := " + c[1] + "\n " + t.block(rest, k, own, outer) + ")"
		}
		// [Glue] effcalls: the call with translated arguments is appended to the effect list `eff`
		if ce, ok := x.X.(*ast.CallExpr); ok {
			if name, ok := t.s.effcalls[pr(ce.Fun)]; ok && !ce.Ellipsis.IsValid() {
				term := "\"" + name + "\""
				for _, a := range ce.Args {
					term += ", " + t.expr(a)
				}
				return "(let v_eff := (v_eff ++ [(" + term + ")])\n " + t.block(rest, k, own, outer) + ")"
			}
		}
		t.fail = append(t.fail, "call: "+pr(x))
		return "UNTRANSLATED"
	case *ast.BranchStmt:
		// [Glue] `continue` directly in the body of the translated loop: the iteration ends here
		// (nested loops are never entered by `block`, so an unlabelled `continue` belongs to that loop)
		if x.Tok == token.CONTINUE && x.Label == nil && t.s.loop != "" {
			return t.s.result
		}
		// [Reg] `break` directly in the body of the translated loop (not inside a nested switch: `block` would
		// read that `break` the same way, so a spec that lists "break" must not translate a switch)
		if v, ok := t.s.returns["break"]; ok && x.Tok == token.BREAK && x.Label == nil && t.s.loop != "" {
			return v
		}
	case *ast.AssignStmt:
		if len(x.Lhs) == 1 && len(x.Rhs) == 1 {
			l := pr(x.Lhs[0])
			if _, ok := t.s.tracked[l]; ok {
				if x.Tok == token.DEFINE {
					if outer[l] {
						t.fail = append(t.fail, "shadowing declaration: "+pr(x))
						return "UNTRANSLATED"
					}
					own[l] = true
				}
				rhs := t.expr(x.Rhs[0])
				switch x.Tok {
				case token.ADD_ASSIGN:
					rhs = "(" + leanVar(l) + " + " + rhs + ")"
				case token.SUB_ASSIGN:
					rhs = "(" + leanVar(l) + " - " + rhs + ")"
				}
				return "(let " + leanVar(l) + " := " + rhs + "\n " + t.block(rest, k, own, outer) + ")"
			}
		}
		t.fail = append(t.fail, "assignment: "+pr(x))
		return "UNTRANSLATED"
	case *ast.IncDecStmt:
		l := pr(x.X)
		if _, ok := t.s.tracked[l]; ok {
			op := " + "
			if x.Tok == token.DEC {
				op = " - "
			}
			return "(let " + leanVar(l) + " := (" + leanVar(l) + op + "(1 : Int))\n " + t.block(rest, k, own, outer) + ")"
		}
		t.fail = append(t.fail, "inc/dec: "+pr(x))
		return "UNTRANSLATED"
	case *ast.IfStmt:
		if x.Init != nil {
			t.fail = append(t.fail, "if with init: "+pr(x.Init))
			return "UNTRANSLATED"
		}
		cond := t.expr(x.Cond)
		in := nested() // before `rest` is translated: declarations that follow are not visible in the body
		cont := t.block(rest, k, own, outer)
		thenB := t.block(x.Body.List, cont, scope{}, in)
		elseB := cont
		switch e := x.Else.(type) {
		case nil:
		case *ast.BlockStmt:
			elseB = t.block(e.List, cont, scope{}, in)
		case *ast.IfStmt:
			elseB = t.block([]ast.Stmt{e}, cont, scope{}, in)
		}
		return "(if " + cond + " then\n " + thenB + "\n else\n " + elseB + ")"
	case *ast.BlockStmt:
		in := nested()
		return t.block(x.List, t.block(rest, k, own, outer), scope{}, in)
	case *ast.SwitchStmt:
		// switch tag { case c1, c2: … [fallthrough] … default: … }  read as an if-chain
		if x.Init != nil {
			break
		}
		tag := ""
		if x.Tag != nil {
			tag = t.expr(x.Tag)
		}
		in := nested()
		cont := t.block(rest, k, own, outer)
		clauses := x.Body.List
		bodyOf := func(i int) ([]ast.Stmt, bool) { // the statements run when clause i is entered
			var body []ast.Stmt
			for ; i < len(clauses); i++ {
				b := clauses[i].(*ast.CaseClause).Body
				if n := len(b); n > 0 {
					if br, ok := b[n-1].(*ast.BranchStmt); ok && br.Tok == token.FALLTHROUGH {
						body = append(body, b[:n-1]...)
						continue
					}
				}
				return append(body, b...), true
			}
			return nil, false
		}
		out, closing := "", ""
		deflt := cont
		for i, c := range clauses {
			cc := c.(*ast.CaseClause)
			body, ok := bodyOf(i)
			if !ok {
				t.fail = append(t.fail, "fallthrough out of the switch: "+tag)
				return "UNTRANSLATED"
			}
			b := t.block(body, cont, scope{}, in.inner())
			if cc.List == nil {
				deflt = b
				continue
			}
			var alts []string
			for _, e := range cc.List {
				if x.Tag == nil { // tagless switch: the cases are conditions
					alts = append(alts, "("+t.expr(e)+")")
				} else {
					alts = append(alts, "("+tag+" == "+t.expr(e)+")")
				}
			}
			out += "(if " + strings.Join(alts, " || ") + " then\n " + b + "\n else\n "
			closing += ")"
		}
		return out + deflt + closing
	}
	t.fail = append(t.fail, "statement: "+pr(s))
	return "UNTRANSLATED"
}

// loopBody returns the body of the top-level loop whose header is `s.loop`, after checking that the
// other top-level statements are exactly `s.around`.
func (t *tr) loopBody(stmts []ast.Stmt) []ast.Stmt {
	if t.s.within != "" { // [Reg] the loop lives in the body of a top-level `if`
		var in []ast.Stmt
		n := 0
		for _, st := range stmts {
			if x, ok := st.(*ast.IfStmt); ok && x.Init == nil && "if "+pr(x.Cond) == t.s.within {
				in = x.Body.List
				n++
			}
		}
		if n != 1 {
			t.fail = append(t.fail, "enclosing if not found (or not unique): "+t.s.within)
			return []ast.Stmt{&ast.BadStmt{}}
		}
		stmts = in
	}
	var body []ast.Stmt
	var others []string
	found := 0
	// [group Tb] begin
	tail := false // a last entry `…` of `around` (after at least one other entry) stands for all the statements after the loop
	// [group Tb] end
	for _, st := range stmts {
		// [group Tb] begin
		if n := len(t.s.around); found == 1 && n > 1 && t.s.around[n-1] == "…" {
			if !tail {
				others = append(others, "…")
				tail = true
			}
			continue
		}
		// [group Tb] end
		var b *ast.BlockStmt
		switch x := st.(type) {
		case *ast.RangeStmt:
			b = x.Body
		case *ast.ForStmt:
			b = x.Body
		}
		if b != nil && strings.HasPrefix(pr(st), t.s.loop+" {") {
			body = b.List
			found++
			if len(t.s.around) > 0 && t.s.around[0] == "…" { // [Reg] what precedes the loop is translated by another spec
				others = []string{"…"}
			}
			continue
		}
		if b != nil { // [Glue] another top-level loop, listed in `around` as `<header> { … }`: body left to its own spec
			if h := strings.TrimSuffix(pr(st), pr(b)) + "{ … }"; contains(t.s.around, h) {
				others = append(others, h)
				continue
			}
		}
		others = append(others, pr(st))
	}
	if found != 1 {
		t.fail = append(t.fail, "loop not found (or not unique): "+t.s.loop)
		return []ast.Stmt{&ast.BadStmt{}}
	}
	if strings.Join(others, " ;; ") != strings.Join(t.s.around, " ;; ") {
		t.fail = append(t.fail, "statements around the loop changed: "+strings.Join(others, " ;; "))
		return []ast.Stmt{&ast.BadStmt{}}
	}
	return body
}

func contains(l []string, s string) bool {
	for _, x := range l {
		if x == s {
			return true
		}
	}
	return false
}

// add registers specs under an output group (one generated file, one proof file per group, so that a
// change of the seat manager does not break the obligations about betting, and so on).
func add(group string, ss ...*spec) {
	for _, s := range ss {
		s.group = group
	}
	specs = append(specs, ss...)
}

func findFunc(root string, s *spec) *ast.FuncDecl {
	af, err := parser.ParseFile(fset, filepath.Join(root, s.file), nil, 0)
	if err != nil {
		return nil
	}
	stripNewFieldWrites(af, root, s.file) // [newfields] writes to fields that did not exist when the model was validated
	for _, d := range af.Decls {
		fd, ok := d.(*ast.FuncDecl)
		if !ok || fd.Name.Name != s.name {
			continue
		}
		recv := ""
		if fd.Recv != nil && len(fd.Recv.List) > 0 {
			recv = strings.TrimPrefix(pr(fd.Recv.List[0].Type), "*")
		}
		if recv == s.recv {
			return fd
		}
	}
	return nil
}

var specs = []*spec{
	{
		file: "player.go", recv: "player", name: "pay", leanName: "pay",
		params: "(stack initial wager roundPot cw prev chips : Int) (isWager : Bool)", resultType: "Int × Int × Int × Int × String",
		tracked: map[string]string{"p.state.StackSize": "stack", "p.state.Wager": "wager", "gs.Status.CurrentRoundPot": "roundPot",
			"gs.Status.CurrentWager": "cw", "mark": "\"\"", "raised": "(0 : Int)", "minRaise": "(0 : Int)"},
		exprs:   map[string]string{"p.state.InitialStackSize": "initial", "gs.Status.PreviousRaiseSize": "prev", "chips": "chips", "isWager": "isWager"},
		skip:    []string{"gs := p.game.GetState()", "if gs.Meta.Limit == \"pot\"", "p.state.DidAction ="},
		calls:   map[string][2]string{"p.game.BecomeRaiser(p)": {"mark", "\"raiser\""}, "p.game.ResetActedPlayers()": {"mark", "\"reset\""}},
		returns: map[string]string{"nil": "(v_p_state_StackSize, v_p_state_Wager, v_gs_Status_CurrentRoundPot, v_gs_Status_CurrentWager, v_mark)"},
		result:  "(v_p_state_StackSize, v_p_state_Wager, v_gs_Status_CurrentRoundPot, v_gs_Status_CurrentWager, v_mark)",
	},
	{
		file: "game.go", recv: "game", name: "GetAvailableActions", leanName: "availableActions",
		params: "(fold : Bool) (stack wager initial cw prev miniBet : Int)", resultType: "List String",
		tracked: map[string]string{"actions": "([] : List String)"},
		exprs: map[string]string{"p == nil": "false", "ps.Fold": "fold", "ps.StackSize": "stack", "ps.Wager": "wager",
			"ps.InitialStackSize": "initial", "g.gs.Status.CurrentWager": "cw", "g.gs.Status.PreviousRaiseSize": "prev",
			"g.gs.Status.MiniBet": "miniBet"},
		skip:   []string{"ps := p.State()"},
		result: "v_actions",
	},
	{
		file: "player.go", recv: "player", name: "PayBlinds", leanName: "blindChips",
		params: "(bb sb dealer : Int) (posBB posSB posDealer : Bool) (stack : Int)", resultType: "Int",
		tracked: map[string]string{"chips": "(0 : Int)"},
		exprs: map[string]string{"gs.Meta.Blind.BB": "bb", "gs.Meta.Blind.SB": "sb", "gs.Meta.Blind.Dealer": "dealer",
			"p.CheckPosition(\"bb\")": "posBB", "p.CheckPosition(\"sb\")": "posSB", "p.CheckPosition(\"dealer\")": "posDealer",
			"p.State().StackSize": "stack"},
		skip:   []string{"gs := p.game.GetState()", "if gs.Status.CurrentEvent != \"BlindsRequested\"", "action :=", "action ="},
		stopAt: "err := p.pay(chips, true)", result: "v_chips",
	},
	{
		file: "game.go", recv: "game", name: "RequestBlinds", leanName: "skipBlinds",
		params: "(dealer sb bb : Int)", resultType: "Bool",
		tracked: map[string]string{},
		exprs:   map[string]string{"g.gs.Meta.Blind.Dealer": "dealer", "g.gs.Meta.Blind.SB": "sb", "g.gs.Meta.Blind.BB": "bb"},
		returns: map[string]string{"g.EmitEvent(GameEvent_BlindsPaid)": "true", "g.EmitEvent(GameEvent_BlindsRequested)": "false"},
		result:  "false",
	},
	{
		file: "combination/power.go", recv: "", name: "CalculatePower", leanName: "categoryChain",
		params: "(flush straight four full trips twoPair pair : Bool)", resultType: "Cat",
		tracked: map[string]string{"ps.Combination": "Cat.highCard"},
		exprs: map[string]string{"isFlush(cards)": "flush", "isStraight(cards)": "straight", "isFourOfAKind(ps.Elements)": "four",
			"isFullHouse(ps.Elements)": "full", "isThreeOfAKind(ps.Elements)": "trips", "isTwoPair(ps.Elements)": "twoPair",
			"isPair(ps.Elements)": "pair", "CombinationFlush": "Cat.flush", "CombinationStraightFlush": "Cat.straightFlush",
			"CombinationStraight": "Cat.straight", "CombinationFourOfAKind": "Cat.quads", "CombinationFullHouse": "Cat.fullHouse",
			"CombinationThreeOfAKind": "Cat.trips", "CombinationTwoPair": "Cat.twoPair", "CombinationPair": "Cat.pair",
			"CombinationHighCard": "Cat.highCard"},
		skip:   []string{"cards := GetCardStates(cardSymbols)", "sort.Slice(cards", "ps := &PowerState{"},
		stopAt: "powerBaseline := CalculatePowerLevels(pr, ps)", result: "v_ps_Combination",
	},
}

// ---- player.go: the player actions, read as (error, effects in order) ----

const effT = "Option String × List (String × Int)"
const effInit = "([] : List (String × Int))"

// eff appends one effect to the effect list of an action.
func eff(name, val string) string { return "(v_eff ++ [(\"" + name + "\", " + val + ")])" }

func merge(ms ...map[string]string) map[string]string {
	out := map[string]string{}
	for _, m := range ms {
		for k, v := range m {
			out[k] = v
		}
	}
	return out
}

var actionReturns = map[string]string{
	"ErrInvalidAction": "(some \"ErrInvalidAction\", v_eff)",
	"ErrIllegalRaise":  "(some \"ErrIllegalRaise\", v_eff)",
	"p.game.Resume()":  "(none, " + eff("resume", "(0 : Int)") + ")",
	"p.Call()":         "(none, " + eff("Call", "(0 : Int)") + ")",
	"p.Allin()":        "(none, " + eff("Allin", "(0 : Int)") + ")",
}

// statements of player.go that are not modelled (DidAction, LastAction) or only fetch the state
// (`pay` always returns nil, so the check of its error in `Pay` is dead code; matched in full)
var actionSkip = []string{"gs := p.game.GetState()", "p.state.DidAction =", "p.game.UpdateLastAction(", "if err != nil { return err }"}

func actionSpec(name, lean, params string, tracked, exprs map[string]string, stmts map[string][2]string) *spec {
	st := map[string][2]string{"p.state.Acted = true": {"eff", eff("acted", "(0 : Int)")}}
	for k, v := range stmts {
		st[k] = v
	}
	return &spec{
		file: "player.go", recv: "player", name: name, leanName: lean,
		params: params, resultType: effT,
		tracked: merge(map[string]string{"eff": effInit}, tracked),
		exprs:   merge(map[string]string{"p.CheckAction(\"" + lean + "\")": "allowed"}, exprs),
		skip:    actionSkip, stmts: st, returns: actionReturns, result: "(none, v_eff)",
	}
}

var actionSpecs = []*spec{
	actionSpec("Pass", "pass", "(allowed : Bool)", nil, nil, nil),
	actionSpec("Check", "check", "(allowed : Bool)", nil, nil, nil),
	actionSpec("Fold", "fold", "(allowed : Bool)", nil, nil,
		map[string][2]string{"p.state.Fold = true": {"eff", eff("fold", "(0 : Int)")}}),
	actionSpec("Pay", "pay", "(allowed : Bool) (chips : Int) (roundInitialized posBB posSB : Bool)", nil,
		map[string]string{"chips": "chips", "gs.Status.CurrentEvent == \"RoundInitialized\"": "roundInitialized",
			"p.CheckPosition(\"bb\")": "posBB", "p.CheckPosition(\"sb\")": "posSB"},
		map[string][2]string{"err := p.pay(chips, true)": {"eff", eff("pay", "chips")}}),
	actionSpec("Call", "call", "(allowed : Bool) (cw wager bb : Int)",
		map[string]string{"delta": "(0 : Int)"},
		map[string]string{"gs.Status.CurrentWager": "cw", "p.state.Wager": "wager", "gs.Meta.Blind.BB": "bb"},
		map[string][2]string{"p.pay(delta, true)": {"eff", eff("pay", "v_delta")}}),
	actionSpec("Allin", "allin", "(allowed : Bool) (stack initial cw prev : Int)",
		map[string]string{"raised": "(0 : Int)"},
		map[string]string{"gs.Status.CurrentWager": "cw", "gs.Status.PreviousRaiseSize": "prev",
			"p.state.InitialStackSize": "initial"},
		map[string][2]string{"gs.Status.PreviousRaiseSize = raised": {"eff", eff("prev", "v_raised")},
			"p.pay(p.state.StackSize, true)": {"eff", eff("pay", "stack")}}),
	actionSpec("Bet", "bet", "(allowed : Bool) (chips : Int)", nil,
		map[string]string{"chips": "chips"},
		map[string][2]string{"p.pay(chips, true)": {"eff", eff("pay", "chips")},
			"p.game.GetState().Status.PreviousRaiseSize = p.state.Wager": {"eff", eff("recordBet", "(0 : Int)")}}),
	actionSpec("Raise", "raise", "(allowed : Bool) (chipLevel cw wager initial prev : Int) (potLimit : Bool)",
		map[string]string{"raised": "(0 : Int)", "required": "(0 : Int)", "maxRaise": "(0 : Int)"},
		map[string]string{"chipLevel": "chipLevel", "gs.Status.CurrentWager": "cw", "gs.Status.PreviousRaiseSize": "prev",
			"p.state.Wager": "wager", "p.state.InitialStackSize": "initial", "gs.Meta.Limit == \"pot\"": "potLimit"},
		map[string][2]string{"gs.Status.PreviousRaiseSize = raised": {"eff", eff("prev", "v_raised")},
			"p.pay(required, true)": {"eff", eff("pay", "v_required")}}),
}

func init() {
	for _, s := range actionSpecs {
		s.leanName = "act" + strings.ToUpper(s.leanName[:1]) + s.leanName[1:]
	}
	add("", actionSpecs...)
}

// ---- game.go / event.go: the flow decisions, read as the list of steps taken ----

const stepsT = "List String"
const stepsInit = "([] : List String)"

func step(name string) string { return "(v_eff ++ [\"" + name + "\"])" }

// stepReturns maps `return <call>` to "append the step and stop".
func stepReturns(m map[string]string) map[string]string {
	out := map[string]string{}
	for k, v := range m {
		out[k] = step(v)
	}
	return out
}

func stepStmts(m map[string]string) map[string][2]string {
	out := map[string][2]string{}
	for k, v := range m {
		out[k] = [2]string{"eff", step(v)}
	}
	return out
}

const seekBBLoop = `for i := 0; i < g.GetPlayerCount(); i++ { p := g.NextPlayer() if p.CheckPosition("bb") { g.SetCurrentPlayer(g.NextPlayer()) break } g.SetCurrentPlayer(p) }`
const dealHolesLoop = `for _, p := range g.gs.Players { p.HoleCards = g.Deal(g.gs.Meta.HoleCardsCount) }`
const bankrollLoop = `for _, p := range g.gs.Players { if p.Bankroll <= 0 { return ErrNotEnoughBackroll } }`

var flowSpecs = []*spec{
	{
		file: "game.go", recv: "game", name: "RequestPlayerAction", leanName: "requestPlayerAction",
		params: "(alive movable : Int) (nextActed : Bool)", resultType: stepsT,
		tracked: map[string]string{"eff": stepsInit},
		exprs:   map[string]string{"g.GetAlivePlayerCount()": "alive", "g.GetMovablePlayerCount()": "movable", "p.State().Acted": "nextActed"},
		skip:    []string{"p := g.NextPlayer()"},
		returns: stepReturns(map[string]string{"g.EmitEvent(GameEvent_RoundClosed)": "RoundClosed", "g.SetCurrentPlayer(p)": "SetCurrentPlayer(NextPlayer)"}),
		result:  "v_eff",
	},
	{
		file: "game.go", recv: "game", name: "PrepareRound", leanName: "prepareRound",
		params: "(round : String) (movable : Int)", resultType: stepsT,
		tracked: map[string]string{"eff": stepsInit},
		exprs:   map[string]string{"g.gs.Status.Round": "round", "g.GetMovablePlayerCount()": "movable"},
		returns: stepReturns(map[string]string{"g.EmitEvent(GameEvent_RoundClosed)": "RoundClosed", "g.RequestReady()": "RequestReady"}),
		result:  "v_eff",
	},
	{
		file: "game.go", recv: "game", name: "nextRound", leanName: "nextRound",
		params: "(alive : Int) (round : String)", resultType: stepsT,
		tracked: map[string]string{"eff": stepsInit},
		exprs:   map[string]string{"g.gs.Status.Round": "round", "g.GetAlivePlayerCount()": "alive"},
		stmts:   stepStmts(map[string]string{"g.ResetRoundStatus()": "ResetRoundStatus", "g.ResetAllPlayerStatus()": "ResetAllPlayerStatus"}),
		returns: stepReturns(map[string]string{"g.EmitEvent(GameEvent_GameCompleted)": "GameCompleted", "g.EnterFlopRound()": "EnterFlopRound",
			"g.EnterTurnRound()": "EnterTurnRound", "g.EnterRiverRound()": "EnterRiverRound", "ErrUnknownRound": "ErrUnknownRound"}),
		result: "v_eff",
	},
	{
		file: "game.go", recv: "game", name: "Next", leanName: "next",
		params: "(event round : String)", resultType: stepsT,
		tracked: map[string]string{"eff": stepsInit},
		exprs:   map[string]string{"g.gs.Status.Round": "round", "g.gs.Status.CurrentEvent": "event"},
		skip:    []string{"g.UpdateLastAction("},
		returns: stepReturns(map[string]string{"ErrNotClosedRound": "ErrNotClosedRound", "g.nextRound()": "nextRound", "nil": "nil"}),
		result:  "v_eff",
	},
	{
		file: "game.go", recv: "game", name: "StartRound", leanName: "startRound",
		params: "(round : String) (movable : Int)", resultType: stepsT,
		tracked: map[string]string{"eff": stepsInit},
		exprs:   map[string]string{"g.gs.Status.Round": "round", "g.GetMovablePlayerCount()": "movable"},
		skip:    []string{"if err != nil { return err }"},
		stmts: stepStmts(map[string]string{"g.ResetAllPlayerAllowedActions()": "ResetAllPlayerAllowedActions",
			"g.SetCurrentPlayer(g.Dealer())": "SetCurrentPlayer(Dealer)", seekBBLoop: "SeekBB", "_, err := g.StartAtDealer()": "StartAtDealer"}),
		returns: stepReturns(map[string]string{"g.EmitEvent(GameEvent_RoundClosed)": "RoundClosed", "g.EmitEvent(GameEvent_RoundStarted)": "RoundStarted"}),
		result:  "v_eff",
	},
	{
		file: "game.go", recv: "game", name: "InitializeRound", leanName: "initializeRound",
		params: "(round : String)", resultType: stepsT,
		tracked: map[string]string{"eff": stepsInit},
		exprs:   map[string]string{"g.gs.Status.Round": "round"},
		skip:    []string{"if err != nil { return err }"},
		stmts: stepStmts(map[string]string{dealHolesLoop: "DealHoles", "g.Burn(1)": "Burn(1)",
			"g.gs.Status.Board = append(g.gs.Status.Board, g.Deal(3)...)": "Board(3)",
			"g.gs.Status.Board = append(g.gs.Status.Board, g.Deal(1)...)": "Board(1)",
			"_, err := g.StartAtDealer()":                                 "StartAtDealer", "err := g.UpdateCombinationOfAllPlayers()": "UpdateCombinationOfAllPlayers"}),
		returns: stepReturns(map[string]string{"g.EmitEvent(GameEvent_RoundInitialized)": "RoundInitialized"}),
		result:  "v_eff",
	},
	{
		file: "event.go", recv: "game", name: "onReadiness", leanName: "onReadiness",
		params: "(round : String)", resultType: stepsT,
		tracked: map[string]string{"eff": stepsInit},
		exprs:   map[string]string{"len(g.gs.Status.Round)": "(round.length : Int)"},
		returns: stepReturns(map[string]string{"g.EmitEvent(GameEvent_Prepared)": "Prepared", "g.EmitEvent(GameEvent_RoundPrepared)": "RoundPrepared"}),
		result:  "v_eff",
	},
	{
		file: "event.go", recv: "game", name: "onPrepared", leanName: "onPrepared",
		params: "(ante : Int)", resultType: stepsT,
		tracked: map[string]string{"eff": stepsInit},
		exprs:   map[string]string{"g.gs.Meta.Ante": "ante"},
		returns: stepReturns(map[string]string{"g.RequestAnte()": "RequestAnte", "g.EnterPreflopRound()": "EnterPreflopRound"}),
		result:  "v_eff",
	},
	{
		file: "event.go", recv: "game", name: "onRoundPrepared", leanName: "onRoundPrepared",
		params: "", resultType: stepsT,
		tracked: map[string]string{"eff": stepsInit},
		returns: stepReturns(map[string]string{"g.StartRound()": "StartRound"}),
		result:  "v_eff",
	},
	{
		file: "event.go", recv: "game", name: "onRoundInitialized", leanName: "onRoundInitialized",
		params: "(round : String)", resultType: stepsT,
		tracked: map[string]string{"eff": stepsInit},
		exprs:   map[string]string{"g.gs.Status.Round": "round"},
		returns: stepReturns(map[string]string{"g.RequestBlinds()": "RequestBlinds", "g.PrepareRound()": "PrepareRound"}),
		result:  "v_eff",
	},
	{
		file: "event.go", recv: "game", name: "onRoundClosed", leanName: "onRoundClosed",
		params: "", resultType: stepsT,
		tracked: map[string]string{"eff": stepsInit},
		skip:    []string{"if err != nil { return err }"},
		stmts:   stepStmts(map[string]string{"g.ResetAllPlayerAllowedActions()": "ResetAllPlayerAllowedActions", "err := g.updatePots()": "updatePots"}),
		returns: map[string]string{"nil": "v_eff"},
		result:  "v_eff",
	},
	{
		file: "game.go", recv: "game", name: "Start", leanName: "start",
		params: "(playerCount : Int) (noDealer anyBankrollLE0 : Bool) (deckLen : Int)", resultType: stepsT,
		tracked: map[string]string{"eff": stepsInit},
		exprs:   map[string]string{"g.GetPlayerCount()": "playerCount", "g.dealer == nil": "noDealer", "len(g.gs.Meta.Deck)": "deckLen"},
		guards:  map[string][]string{bankrollLoop: {"anyBankrollLE0", step("ErrNotEnoughBackroll")}},
		skip: []string{"g.gs.Status.Pots = make([]*pot.Pot, 0)", "g.gs.Status.Board = make([]string, 0)", "g.gs.Status.Burned = make([]string, 0)",
			"g.gs.Status.CurrentEvent = \"\""},
		returns: stepReturns(map[string]string{"ErrInsufficientNumberOfPlayers": "ErrInsufficientNumberOfPlayers", "ErrNoDealer": "ErrNoDealer",
			"ErrNoDeck": "ErrNoDeck", "g.EmitEvent(GameEvent_Started)": "Started"}),
		result: "v_eff",
	},
	{
		file: "game.go", recv: "game", name: "Initialize", leanName: "initializeGame",
		params: "(dealer bb : Int)", resultType: "Int × List String",
		tracked: map[string]string{"eff": stepsInit, "g.gs.Status.MiniBet": "(0 : Int)"},
		exprs:   map[string]string{"g.gs.Meta.Blind.Dealer": "dealer", "g.gs.Meta.Blind.BB": "bb"},
		skip:    []string{"g.gs.Meta.Deck = ShuffleCards(g.gs.Meta.Deck)"},
		stmts:   stepStmts(map[string]string{"g.ResetRoundStatus()": "ResetRoundStatus"}),
		returns: map[string]string{"g.EmitEvent(GameEvent_Initialized)": "(v_g_gs_Status_MiniBet, " + step("Initialized") + ")"},
		result:  "(v_g_gs_Status_MiniBet, v_eff)",
	},
}

// one-line handlers of event.go / game.go: which function the event chain calls next
func chainSpec(file, name, call, stepName string) *spec {
	return &spec{file: file, recv: "game", name: name, leanName: strings.ToLower(name[:1]) + name[1:], params: "", resultType: stepsT,
		tracked: map[string]string{"eff": stepsInit}, returns: stepReturns(map[string]string{call: stepName}), result: "v_eff"}
}

// ---- seat_manager/seat_manager.go ----

var smSkip = []string{"sm.mu.Lock()", "defer sm.mu.Unlock()"}

var smSpecs = []*spec{
	{
		file: "seat_manager/seat_manager.go", recv: "SeatManager", name: "Join", leanName: "smJoin",
		params: "(seatID max sLen asLen : Int)", resultType: stepsT,
		tracked: map[string]string{"eff": stepsInit},
		exprs:   map[string]string{"seatID": "seatID", "sm.max": "max", "len(s)": "sLen", "len(as)": "asLen"},
		skip:    append([]string{"s, as := sm.getAvailableSeats()"}, smSkip...),
		returns: stepReturns(map[string]string{"-1, ErrInvalidSeat": "ErrInvalidSeat", "-1, ErrNoAvailableSeat": "ErrNoAvailableSeat",
			"sm.join(seatID, p)": "join(seatID)", "sm.join(s[0], p)": "join(s[0])", "sm.join(as[0], p)": "join(as[0])",
			"sm.join(s[rand.Intn(len(s)-1)], p)":   "join(s[rand.Intn(len(s)-1)])",
			"sm.join(as[rand.Intn(len(as)-1)], p)": "join(as[rand.Intn(len(as)-1)])"}),
		result: "v_eff",
	},
	{
		file: "seat_manager/seat_manager.go", recv: "SeatManager", name: "join", leanName: "smJoinAt",
		params: "(occupied : Bool)", resultType: stepsT,
		tracked: map[string]string{"eff": stepsInit},
		exprs:   map[string]string{"s.Player != nil": "occupied"},
		skip:    []string{"s := sm.getSeat(seatID)"},
		stmts:   stepStmts(map[string]string{"s.IsReserved = true": "reserve", "s.Player = p": "setPlayer"}),
		returns: stepReturns(map[string]string{"-1, ErrNotAvailable": "ErrNotAvailable", "s.ID, nil": "return s.ID"}),
		result:  "v_eff",
	},
	{
		file: "seat_manager/seat_manager.go", recv: "SeatManager", name: "leave", leanName: "smLeave",
		params: "(missing empty : Bool)", resultType: stepsT,
		tracked: map[string]string{"eff": stepsInit},
		exprs:   map[string]string{"s == nil": "missing", "s.Player == nil": "empty"},
		skip:    []string{"s := sm.getSeat(seatID)"},
		stmts:   stepStmts(map[string]string{"s.IsReserved = false": "unreserve", "s.Player = nil": "clearPlayer"}),
		returns: stepReturns(map[string]string{"ErrNotFoundSeat": "ErrNotFoundSeat", "ErrEmptySeat": "ErrEmptySeat", "nil": "nil"}),
		result:  "v_eff",
	},
	{
		file: "seat_manager/seat_manager.go", recv: "SeatManager", name: "Leave", leanName: "smLeaveOp",
		params: "", resultType: stepsT,
		tracked: map[string]string{"eff": stepsInit}, skip: smSkip,
		returns: stepReturns(map[string]string{"sm.leave(seatID)": "leave(seatID)"}),
		result:  "v_eff",
	},
	{
		file: "seat_manager/seat_manager.go", recv: "SeatManager", name: "Seat", leanName: "smSeat",
		params: "(missing : Bool)", resultType: stepsT,
		tracked: map[string]string{"eff": stepsInit},
		exprs:   map[string]string{"seat == nil": "missing"},
		skip:    append([]string{"seat := sm.getSeat(seatID)"}, smSkip...),
		stmts:   stepStmts(map[string]string{"seat.IsReserved = false": "unreserve"}),
		returns: stepReturns(map[string]string{"ErrNotFoundSeat": "ErrNotFoundSeat", "nil": "nil"}),
		result:  "v_eff",
	},
	{
		file: "seat_manager/seat_manager.go", recv: "SeatManager", name: "Reserve", leanName: "smReserve",
		params: "(missing : Bool)", resultType: stepsT,
		tracked: map[string]string{"eff": stepsInit},
		exprs:   map[string]string{"seat == nil": "missing"},
		skip:    append([]string{"seat := sm.getSeat(seatID)"}, smSkip...),
		stmts:   stepStmts(map[string]string{"seat.IsReserved = true": "reserve"}),
		returns: stepReturns(map[string]string{"ErrNotFoundSeat": "ErrNotFoundSeat", "nil": "nil"}),
		result:  "v_eff",
	},
	{
		file: "seat_manager/seat_manager.go", recv: "SeatManager", name: "Next", leanName: "smNext",
		params: "(dealerFound : Bool) (playable : Int)", resultType: stepsT,
		tracked: map[string]string{"eff": stepsInit},
		exprs:   map[string]string{"sm.nextDealer() == nil": "(!dealerFound)", "sm.getPlayableSeatCount()": "playable"},
		skip:    smSkip,
		returns: stepReturns(map[string]string{"ErrInsufficientNumberOfPlayers": "ErrInsufficientNumberOfPlayers", "sm.renewSeatStatus()": "renewSeatStatus"}),
		result:  "v_eff",
	},
}

func init() {
	add("SM", smSpecs...)
	add("Flow", flowSpecs...)
	add("Flow",
		chainSpec("event.go", "onStarted", "g.Initialize()", "Initialize"),
		chainSpec("event.go", "onInitialized", "g.Prepare()", "Prepare"),
		chainSpec("game.go", "Prepare", "g.RequestReady()", "RequestReady"),
		chainSpec("event.go", "onBlindsPaid", "g.PrepareRound()", "PrepareRound"),
		chainSpec("event.go", "onRoundStarted", "g.RequestPlayerAction()", "RequestPlayerAction"),
		chainSpec("event.go", "onPreflopRoundEntered", "g.InitializeRound()", "InitializeRound"),
		chainSpec("event.go", "onFlopRoundEntered", "g.InitializeRound()", "InitializeRound"),
		chainSpec("event.go", "onTurnRoundEntered", "g.InitializeRound()", "InitializeRound"),
		chainSpec("event.go", "onRiverRoundEntered", "g.InitializeRound()", "InitializeRound"),
		chainSpec("event.go", "onGameCompleted", "g.EmitEvent(GameEvent_SettlementRequested)", "SettlementRequested"),
		chainSpec("event.go", "onSettlementCompleted", "g.EmitEvent(GameEvent_GameClosed)", "GameClosed"),
	)
}

// ---- action.go and the remaining small functions of game.go / event.go / player.go ----

const payAnteLoop = `for _, p := range g.GetPlayers() { err := p.PayAnte() if err != nil { return err } }`
const payBlindsLoop = `for _, p := range g.GetPlayers() { err := p.PayBlinds() if err != nil { return err } }`

var moreSpecs = []*spec{
	{
		file: "action.go", recv: "game", name: "ReadyForAll", leanName: "readyForAll",
		params: "(event : String)", resultType: stepsT,
		tracked: map[string]string{"eff": stepsInit},
		exprs:   map[string]string{"g.gs.Status.CurrentEvent": "event"},
		stmts:   stepStmts(map[string]string{"g.ResetAllPlayerAllowedActions()": "ResetAllPlayerAllowedActions"}),
		returns: stepReturns(map[string]string{"ErrInvalidAction": "ErrInvalidAction", "g.EmitEvent(GameEvent_Readiness)": "Readiness"}),
		result:  "v_eff",
	},
	{
		file: "action.go", recv: "game", name: "PayAnte", leanName: "gamePayAnte",
		params: "(ante : Int) (event : String) (loopFailed : Bool)", resultType: stepsT,
		tracked: map[string]string{"eff": stepsInit},
		exprs:   map[string]string{"g.gs.Status.CurrentEvent": "event", "g.gs.Meta.Ante": "ante"},
		guards:  map[string][]string{payAnteLoop: {"loopFailed", step("PayAnteLoop: return err"), "eff", step("PayAnteLoop")}},
		stmts:   stepStmts(map[string]string{"g.ResetAllPlayerAllowedActions()": "ResetAllPlayerAllowedActions"}),
		returns: stepReturns(map[string]string{"ErrInvalidAction": "ErrInvalidAction", "g.EmitEvent(GameEvent_AntePaid)": "AntePaid"}),
		result:  "v_eff",
	},
	{
		file: "action.go", recv: "game", name: "PayBlinds", leanName: "gamePayBlinds",
		params: "(event : String) (bb : Int)", resultType: stepsT,
		tracked: map[string]string{"eff": stepsInit},
		exprs:   map[string]string{"g.gs.Status.CurrentEvent": "event", "g.gs.Meta.Blind.BB": "bb"},
		stmts: stepStmts(map[string]string{payBlindsLoop: "PayBlindsLoop", "g.ResetAllPlayerAllowedActions()": "ResetAllPlayerAllowedActions",
			"g.gs.Status.PreviousRaiseSize = g.gs.Meta.Blind.BB":     "PreviousRaiseSize = Blind.BB",
			"g.gs.Status.PreviousRaiseSize = g.gs.Meta.Blind.Dealer": "PreviousRaiseSize = Blind.Dealer"}),
		returns: stepReturns(map[string]string{"ErrInvalidAction": "ErrInvalidAction", "g.EmitEvent(GameEvent_BlindsPaid)": "BlindsPaid"}),
		result:  "v_eff",
	},
	{
		file: "event.go", recv: "game", name: "onAntePaid", leanName: "onAntePaid",
		params: "", resultType: stepsT,
		tracked: map[string]string{"eff": stepsInit},
		skip:    []string{"if err != nil { return err }"},
		stmts: stepStmts(map[string]string{"err := g.updatePots()": "updatePots", "g.ResetAllPlayerStatus()": "ResetAllPlayerStatus",
			"g.ResetRoundStatus()": "ResetRoundStatus"}),
		returns: stepReturns(map[string]string{"g.EnterPreflopRound()": "EnterPreflopRound"}),
		result:  "v_eff",
	},
	{
		file: "event.go", recv: "game", name: "onSettlementRequested", leanName: "onSettlementRequested",
		params: "", resultType: stepsT,
		tracked: map[string]string{"eff": stepsInit},
		skip:    []string{"if err != nil { return err }"},
		stmts:   stepStmts(map[string]string{"err := g.updatePots()": "updatePots", "err = g.CalculateGameResults()": "CalculateGameResults"}),
		returns: stepReturns(map[string]string{"g.EmitEvent(GameEvent_SettlementCompleted)": "SettlementCompleted"}),
		result:  "v_eff",
	},
	{
		file: "game.go", recv: "game", name: "ResetRoundStatus", leanName: "resetRoundStatus",
		params: "(dealer : Int)", resultType: "Int × Int × Int × Int × Int",
		tracked: map[string]string{"g.gs.Status.PreviousRaiseSize": "(1 : Int)", "g.gs.Status.CurrentRoundPot": "(1 : Int)",
			"g.gs.Status.CurrentWager": "(1 : Int)", "g.gs.Status.CurrentRaiser": "(-1 : Int)", "g.gs.Status.CurrentPlayer": "(-1 : Int)"},
		exprs:   map[string]string{"g.Dealer().State().Idx": "dealer"},
		skip:    []string{"g.gs.Status.MaxWager = 0"},
		returns: map[string]string{"nil": "(v_g_gs_Status_PreviousRaiseSize, v_g_gs_Status_CurrentRoundPot, v_g_gs_Status_CurrentWager, v_g_gs_Status_CurrentRaiser, v_g_gs_Status_CurrentPlayer)"},
		result:  "(v_g_gs_Status_PreviousRaiseSize, v_g_gs_Status_CurrentRoundPot, v_g_gs_Status_CurrentWager, v_g_gs_Status_CurrentRaiser, v_g_gs_Status_CurrentPlayer)",
	},
	{
		file: "game.go", recv: "game", name: "BecomeRaiser", leanName: "becomeRaiser",
		params: "(wager : Int)", resultType: effT,
		tracked: map[string]string{"eff": effInit},
		exprs:   map[string]string{"p.State().Wager": "wager"},
		skip:    []string{"p.State().VPIP = true"},
		stmts: map[string][2]string{"g.gs.Status.CurrentRaiser = p.SeatIndex()": {"eff", eff("setRaiser", "(0 : Int)")},
			"g.ResetActedPlayers()": {"eff", eff("resetActed", "(0 : Int)")}, "p.State().Acted = true": {"eff", eff("acted", "(0 : Int)")}},
		returns: map[string]string{"nil": "(none, v_eff)"},
		result:  "(none, v_eff)",
	},
	{
		file: "player.go", recv: "player", name: "PayAnte", leanName: "playerPayAnte",
		params: "(ante : Int) (event : String) (wager : Int)", resultType: effT,
		tracked: map[string]string{"eff": effInit},
		exprs:   map[string]string{"gs.Meta.Ante": "ante", "gs.Status.CurrentEvent": "event", "p.State().Wager": "wager"},
		skip:    actionSkip,
		stmts:   map[string][2]string{"err := p.pay(gs.Meta.Ante, false)": {"eff", eff("payNoWager", "ante")}},
		returns: merge(actionReturns, map[string]string{"nil": "(none, v_eff)"}),
		result:  "(none, v_eff)",
	},
	{
		file: "player.go", recv: "player", name: "PayBlinds", leanName: "playerPayBlinds",
		params: "(event : String) (bb sb dealer : Int) (posBB posSB posDealer : Bool) (stack : Int)", resultType: effT,
		tracked: map[string]string{"eff": effInit, "chips": "(0 : Int)"},
		exprs: map[string]string{"gs.Status.CurrentEvent": "event", "gs.Meta.Blind.BB": "bb", "gs.Meta.Blind.SB": "sb", "gs.Meta.Blind.Dealer": "dealer",
			"p.CheckPosition(\"bb\")": "posBB", "p.CheckPosition(\"sb\")": "posSB", "p.CheckPosition(\"dealer\")": "posDealer",
			"p.State().StackSize": "stack"},
		skip:    append([]string{"action :=", "action ="}, actionSkip...),
		stmts:   map[string][2]string{"err := p.pay(chips, true)": {"eff", eff("pay", "v_chips")}},
		returns: merge(actionReturns, map[string]string{"nil": "(none, v_eff)"}),
		result:  "(none, v_eff)",
	},
	// loop bodies: one iteration as a function
	{
		file: "game.go", recv: "game", name: "GetAlivePlayerCount", leanName: "aliveCountStep",
		params: "(count : Int) (fold : Bool)", resultType: "Int",
		loop: "for _, p := range g.gs.Players", around: []string{"aliveCount := g.GetPlayerCount()", "return aliveCount"},
		tracked: map[string]string{"aliveCount": "count"},
		exprs:   map[string]string{"p.Fold": "fold"},
		result:  "v_aliveCount",
	},
	{
		file: "game.go", recv: "game", name: "GetMovablePlayerCount", leanName: "movableCountStep",
		params: "(count : Int) (fold : Bool) (stack : Int)", resultType: "Int",
		loop: "for _, p := range g.gs.Players", around: []string{"mCount := g.GetPlayerCount()", "return mCount"},
		tracked: map[string]string{"mCount": "count"},
		exprs:   map[string]string{"p.Fold": "fold", "p.StackSize": "stack"},
		result:  "v_mCount",
	},
	{
		file: "game.go", recv: "game", name: "ResetActedPlayers", leanName: "resetActedStep",
		params: "(acted : Bool)", resultType: "Bool",
		loop: "for _, ps := range g.gs.Players", around: []string{"return nil"},
		tracked: map[string]string{"ps.Acted": "acted"},
		result:  "v_ps_Acted",
	},
	{
		file: "game.go", recv: "game", name: "ResetAllPlayerStatus", leanName: "resetPlayerStatusStep",
		params: "(fold : Bool) (pot wager initial stack : Int)", resultType: "Bool × Int × Int × Int",
		loop: "for _, p := range g.GetPlayers()", around: []string{"return nil"},
		tracked: map[string]string{"ps.Pot": "pot", "ps.Wager": "wager", "ps.InitialStackSize": "initial", "allowedCleared": "false"},
		exprs:   map[string]string{"ps.Fold": "fold", "ps.StackSize": "stack"},
		skip:    []string{"ps := p.State()", "ps.DidAction ="},
		stmts:   map[string][2]string{"ps.AllowedActions = make([]string, 0)": {"allowedCleared", "true"}},
		result:  "(v_allowedCleared, v_ps_Pot, v_ps_Wager, v_ps_InitialStackSize)",
	},
	{
		file: "game.go", recv: "game", name: "ResetAllPlayerAllowedActions", leanName: "resetAllowedLoopStep",
		params: "", resultType: stepsT,
		loop: "for _, p := range g.GetPlayers()", around: []string{"return nil"},
		tracked: map[string]string{"eff": stepsInit},
		stmts:   stepStmts(map[string]string{"p.Reset()": "p.Reset()"}),
		result:  "v_eff",
	},
	{
		file: "player.go", recv: "player", name: "Reset", leanName: "playerReset",
		params: "", resultType: stepsT,
		tracked: map[string]string{"eff": stepsInit},
		stmts:   stepStmts(map[string]string{"p.state.Acted = false": "Acted = false"}),
		returns: stepReturns(map[string]string{"p.ResetAllowedActions()": "ResetAllowedActions"}),
		result:  "v_eff",
	},
	{
		file: "game.go", recv: "game", name: "NextPlayer", leanName: "nextPlayerStep",
		params: "(cur playerCount : Int)", resultType: "Int",
		loop: "for i := 1; i < playerCount; i++", around: []string{"cur := g.gs.Status.CurrentPlayer", "playerCount := g.GetPlayerCount()", "return nil"},
		tracked: map[string]string{"cur": "cur"},
		exprs:   map[string]string{"playerCount": "playerCount"},
		skip:    []string{"p := g.gs.Players[cur]"},
		returns: map[string]string{"g.Player(p.Idx)": "v_cur"},
		result:  "v_cur",
	},
}

func init() {
	betting := map[string]bool{"becomeRaiser": true, "playerPayAnte": true, "playerPayBlinds": true}
	for _, s := range moreSpecs {
		if betting[s.leanName] {
			add("", s)
		} else {
			add("Flow", s)
		}
	}
}

// ---- the current player, the event dispatch, Resume ----

var events = []string{"Started", "Initialized", "Prepared", "AnteRequested", "AntePaid", "BlindsRequested", "BlindsPaid", "ReadyRequested",
	"Readiness", "PreflopRoundEntered", "FlopRoundEntered", "TurnRoundEntered", "RiverRoundEntered", "RoundInitialized", "RoundPrepared",
	"RoundStarted", "RoundClosed", "GameCompleted", "SettlementRequested", "SettlementCompleted", "GameClosed"}

func init() {
	evExprs := map[string]string{"event": "event"}
	evReturns := map[string]string{"nil": "nil"}
	for _, e := range events {
		evExprs["GameEvent_"+e] = "\"" + e + "\""
		evReturns["g.on"+e+"()"] = "on" + e
	}
	add("Flow",
		&spec{
			file: "game.go", recv: "game", name: "SetCurrentPlayer", leanName: "setCurrentPlayer",
			params: "(hasCurrent pNotNil : Bool)", resultType: stepsT,
			tracked: map[string]string{"eff": stepsInit},
			exprs:   map[string]string{"g.gs.Status.CurrentPlayer != -1": "hasCurrent", "p != nil": "pNotNil"},
			skip:    []string{"if err != nil { return err }", "actions := g.GetAllowedActions(p)"},
			stmts: stepStmts(map[string]string{"g.GetCurrentPlayer().ResetAllowedActions()": "GetCurrentPlayer().ResetAllowedActions()",
				"err := g.setCurrentPlayer(p)": "setCurrentPlayer(p)", "p.AllowActions(actions)": "p.AllowActions(GetAllowedActions(p))"}),
			returns: map[string]string{"nil": "v_eff"},
			result:  "v_eff",
		},
		&spec{
			file: "game.go", recv: "game", name: "setCurrentPlayer", leanName: "setCurrentPlayerField",
			params: "(pIsNil : Bool) (seat current : Int)", resultType: "Int",
			tracked: map[string]string{"g.gs.Status.CurrentPlayer": "current"},
			exprs:   map[string]string{"p == nil": "pIsNil", "p.SeatIndex()": "seat"},
			returns: map[string]string{"nil": "v_g_gs_Status_CurrentPlayer"},
			result:  "v_g_gs_Status_CurrentPlayer",
		},
		&spec{
			file: "game.go", recv: "game", name: "GetAllowedActions", leanName: "getAllowedActions",
			params: "(current seat : Int)", resultType: stepsT,
			tracked: map[string]string{"eff": stepsInit},
			exprs:   map[string]string{"g.gs.Status.CurrentPlayer": "current", "p.SeatIndex()": "seat"},
			returns: stepReturns(map[string]string{"g.GetAvailableActions(p)": "GetAvailableActions(p)", "make([]string, 0)": "[]"}),
			result:  "v_eff",
		},
		&spec{
			file: "event.go", recv: "game", name: "triggerEvent", leanName: "triggerEvent",
			params: "(event : String)", resultType: stepsT,
			tracked: map[string]string{"eff": stepsInit},
			exprs:   evExprs, skip: []string{"defer g.onBreakPoint()"},
			returns: stepReturns(evReturns), result: "v_eff",
		},
		&spec{
			file: "event.go", recv: "game", name: "EmitEvent", leanName: "emitEvent",
			params: "", resultType: stepsT,
			tracked: map[string]string{"eff": stepsInit},
			stmts:   stepStmts(map[string]string{"g.gs.Status.CurrentEvent = GameEventSymbols[event]": "CurrentEvent = GameEventSymbols[event]"}),
			returns: stepReturns(map[string]string{"g.triggerEvent(event)": "triggerEvent(event)"}), result: "v_eff",
		},
		&spec{
			file: "game.go", recv: "game", name: "Resume", leanName: "resume",
			params: "(event : String)", resultType: stepsT,
			tracked: map[string]string{"eff": stepsInit},
			exprs:   map[string]string{"len(g.gs.Status.CurrentEvent)": "(event.length : Int)"},
			skip:    []string{"event := GameEventBySymbol[g.gs.Status.CurrentEvent]"},
			returns: stepReturns(map[string]string{"g.EmitEvent(event)": "EmitEvent(CurrentEvent)", "nil": "nil"}), result: "v_eff",
		},
		chainSpec("event.go", "onReadyRequested", "nil", "nil"),
		chainSpec("event.go", "onAnteRequested", "nil", "nil"),
		chainSpec("event.go", "onBlindsRequested", "nil", "nil"),
		chainSpec("game.go", "RequestAnte", "g.EmitEvent(GameEvent_AnteRequested)", "AnteRequested"),
	)
	add("Flow", &spec{
		file: "game.go", recv: "game", name: "StartAtDealer", leanName: "startAtDealer",
		params: "(noDealer : Bool)", resultType: stepsT,
		tracked: map[string]string{"eff": stepsInit},
		exprs:   map[string]string{"dealer == nil": "noDealer"},
		skip:    []string{"dealer := g.Dealer()", "if err != nil { return nil, err }"},
		stmts:   stepStmts(map[string]string{"err := g.SetCurrentPlayer(dealer)": "SetCurrentPlayer(Dealer)"}),
		returns: stepReturns(map[string]string{"nil, ErrNotFoundDealer": "ErrNotFoundDealer", "dealer, nil": "nil"}), result: "v_eff",
	})
	// action.go: the game-level actions address the current player
	for _, a := range []string{"Pass()", "Pay(chips)", "Fold()", "Check()", "Call()", "Allin()", "Bet(chips)", "Raise(chipLevel)"} {
		name := a[:strings.Index(a, "(")]
		c := chainSpec("action.go", name, "g.GetCurrentPlayer()."+a, "GetCurrentPlayer()."+a)
		c.leanName = "game" + name
		add("Flow", c)
	}
	for _, r := range []string{"Preflop", "Flop", "Turn", "River"} {
		add("Flow", &spec{
			file: "game.go", recv: "game", name: "Enter" + r + "Round", leanName: "enter" + r + "Round",
			params: "", resultType: stepsT, tracked: map[string]string{"eff": stepsInit},
			stmts:   stepStmts(map[string]string{"g.gs.Status.Round = \"" + strings.ToLower(r) + "\"": "Round = " + strings.ToLower(r)}),
			returns: stepReturns(map[string]string{"g.EmitEvent(GameEvent_" + r + "RoundEntered)": r + "RoundEntered"}), result: "v_eff",
		})
	}
}

// ---- [Glue] settlement.go, pot.go, power.go: what feeds the settlement, the pots and the reported hands ----

// the fields of `PlayerState` an iteration may read: all of them are parameters of the translated iteration, so
// that reading another field than the model does changes the definition (rather than making it unknown)
const playerFieldParams = "(idx : Nat) (bankroll initial stack pot wager : Int) (fold acted : Bool)"

var playerFields = map[string]string{"p.Idx": "idx", "p.Bankroll": "bankroll", "p.InitialStackSize": "initial", "p.StackSize": "stack",
	"p.Pot": "pot", "p.Wager": "wager", "p.Fold": "fold", "p.Acted": "acted"}

const combCardsLoop = `for _, c := range ps.Cards { p.Combination.Cards = append(p.Combination.Cards, c.ToString()) }`

func init() {
	add("Glue",
		// settlement.go `CalculateGameResults`: two loops, one spec each; the other loop is pinned by its header
		&spec{
			file: "settlement.go", recv: "game", name: "CalculateGameResults", leanName: "calcResultsPotStep",
			params: "{L : Type} (level wager total : Int) (levels : L)", resultType: "List (String × Int × L)",
			loop: "for _, pot := range g.gs.Status.Pots",
			around: []string{"r := settlement.NewResult()", "for _, p := range g.gs.Players { … }", "r.Calculate()",
				"g.gs.Result = r", "return nil"},
			tracked:  map[string]string{"eff": "[]"},
			exprs:    map[string]string{"pot.Level": "level", "pot.Wager": "wager", "pot.Total": "total", "pot.Levels": "levels"},
			effcalls: map[string]string{"r.AddPot": "AddPot"},
			result:   "v_eff",
		},
		&spec{
			file: "settlement.go", recv: "game", name: "CalculateGameResults", leanName: "calcResultsStep",
			params: playerFieldParams + " (power : Int)", resultType: "List (String × Nat × Int)",
			loop: "for _, p := range g.gs.Players",
			around: []string{"r := settlement.NewResult()", "for _, pot := range g.gs.Status.Pots { … }", "r.Calculate()",
				"g.gs.Result = r", "return nil"},
			tracked:  map[string]string{"eff": "[]"},
			exprs:    merge(playerFields, map[string]string{"p.Combination.Power": "power"}),
			effcalls: map[string]string{"r.AddPlayer": "AddPlayer", "r.UpdateScore": "UpdateScore"},
			result:   "v_eff",
		},
		// pot.go `updatePots`
		&spec{
			file: "pot.go", recv: "game", name: "updatePots", leanName: "updatePotsStep",
			params: playerFieldParams, resultType: "List (String × Int × Nat × Bool)",
			loop:     "for _, p := range g.gs.Players",
			around:   []string{"ll := pot.NewLevelList()", "g.gs.Status.Pots = ll.GetPots()", "return nil"},
			tracked:  map[string]string{"eff": "[]"},
			exprs:    playerFields,
			effcalls: map[string]string{"ll.AddContributor": "AddContributor"},
			result:   "v_eff",
		},
		// power.go `UpdateCombinationOfAllPlayers`: the three fields of `p.Combination` after one iteration, as a
		// function of their old values and of the power state `ps` (category symbol, cards, score, category as a
		// number); `src` records where `ps` comes from.  Parametric in the types of the symbol, the cards and the score.
		&spec{
			file: "power.go", recv: "game", name: "UpdateCombinationOfAllPlayers", leanName: "updateCombStep",
			params:     "{T C W : Type} (hasComb : Bool) (type0 : T) (cards0 : List C) (power0 : W) (psType : T) (psCards : List C) (psScore psCat : W)",
			resultType: "String × T × List C × W",
			loop:       "for _, p := range g.gs.Players", around: []string{"return nil"},
			tracked: map[string]string{"src": "\"\"", "p.Combination.Type": "type0", "p.Combination.Cards": "cards0",
				"p.Combination.Power": "power0"},
			exprs: map[string]string{"p.Combination == nil": "(!hasComb)", "p.Combination != nil": "hasComb", "ps.Combination": "psCat", "combination.CombinationSymbol[ps.Combination]": "psType",
				"make([]string, 0)": "([] : List C)", "ps.Score": "psScore"},
			stmts: map[string][2]string{"ps := g.CalculatePlayerPower(p)": {"src", "\"CalculatePlayerPower(p)\""},
				combCardsLoop: {"p.Combination.Cards", "(v_p_Combination_Cards ++ psCards)"}},
			result: "(v_src, v_p_Combination_Type, v_p_Combination_Cards, v_p_Combination_Power)",
		},
	)
}

func main() {
	root := "/repo"
	out := "/verif/lean/Pokerface/Generated"
	if len(os.Args) > 1 {
		root = os.Args[1]
	}
	if len(os.Args) > 2 {
		out = os.Args[2]
	}
	if len(os.Args) > 2 && os.Args[1] == "-fields" { // [newfields] record the struct fields of the modelled packages
		printFields(os.Args[2])
		return
	}
	for _, group := range []string{"", "Flow", "SM", "Glue", "Reg"} {
		writeGroup(root, out, group)
	}
	// [group Tb] begin
	writeGroup(root, out, "Tb")
	// [group Tb] end
	// [group Pots] begin
	writeGroup(root, out, "Pots")
	// [group Pots] end
	// [group SM2] begin
	writeGroup(root, out, "SM2")
	// [group SM2] end
	writeGroup(root, out, "Hop") // [group Hop]
	// [group Drv] begin
	writeGroup(root, out, "Drv")
	// [group Drv] end
	reportIgnored(out)           // [newfields]
}

func writeGroup(root, out, group string) {
	var b strings.Builder
	b.WriteString("import Pokerface.Model.Cards\n/- GENERATED by /verif/harness/cmd/genlogic from the Go AST of the repository under test. Do not edit. -/\n")
	b.WriteString("set_option linter.unusedVariables false\nnamespace Pokerface.Generated.Logic\nopen Pokerface\n\n")
	if group == "Reg" {
		b.WriteString(regPreamble)
	}
	// [group SM2] begin
	if group == "SM2" {
		b.WriteString(sm2Preamble)
	}
	// [group SM2] end
	for _, s := range specs {
		if s.group != group {
			continue
		}
		fd := findFunc(root, s)
		fmt.Fprintf(&b, "/-- %s: `%s%s`, translated from the source. -/\n", s.file, map[bool]string{true: "(" + s.recv + ") ", false: ""}[s.recv != ""], s.name)
		if fd == nil || fd.Body == nil {
			fmt.Fprintf(&b, "def %s %s : %s := FUNCTION_NOT_FOUND\n\n", s.leanName, s.params, s.resultType)
			continue
		}
		t := &tr{s: s}
		stmts := fd.Body.List
		// [group Pots] begin
		if s.group == "Pots" {
			stmts = t.potsDescend(stmts)
		}
		// [group Pots] end
		// [group SM2] begin
		if s.group == "SM2" {
			stmts = t.sm2Select(stmts)
		}
		// [group SM2] end
		// [group Drv] begin
		if s.group == "Drv" {
			stmts = t.drvSelect(stmts)
		}
		// [group Drv] end
		if s.loop != "" {
			stmts = t.loopBody(stmts)
		}
		body := t.block(stmts, s.result, scope{}, scope{})
		var vars []string
		for v := range s.tracked {
			vars = append(vars, v)
		}
		sort.Strings(vars)
		for _, v := range vars {
			body = "(let " + leanVar(v) + " := " + s.tracked[v] + "\n " + body + ")"
		}
		for _, f := range t.fail {
			fmt.Fprintf(&b, "-- UNTRANSLATED %s\n", f)
		}
		fmt.Fprintf(&b, "def %s %s : %s :=\n %s\n\n", s.leanName, s.params, s.resultType, body)
	}
	b.WriteString("end Pokerface.Generated.Logic\n")
	path := filepath.Join(out, "Logic"+group+".lean")
	old, err := os.ReadFile(path)
	if err == nil && string(old) == b.String() {
		return
	}
	if err := os.WriteFile(path, []byte(b.String()), 0o644); err != nil {
		fmt.Fprintln(os.Stderr, err)
		os.Exit(2)
	}
}
