// Group "Reg": regulator/regulator.go (tournament regulator), translated into Generated/LogicReg.lean;
// obligations in Proofs/GeneratedLogicReg.lean (`regSetStatus_eq` … `regSyncState_eq`).
//
// Readings used by the specs of this group (all in the per-function tables below):
//   - the competition status is an abstract type `S` with three given values (the model's `RStatus`);
//   - player lists are `List P` for an abstract `P`; `len(x)` → `(x.length : Int)`, `x[:k]` / `x[k:]` →
//     `x.take k.toNat` / `x.drop k.toNat`, `append(x, ys...)` → `x ++ ys`;
//   - a call that returns a count the decision then reads is a function parameter applied to the translated
//     argument (`len(players)` after `players := r.requestPlayers(count)` is `got v_count`; the number of
//     players released by the release loop of `SyncState` is `released … v_count floor(waterLevel)`); a call that reads
//     the state takes the tracked values it reads as arguments (`lowCount r.playerCount t.PlayerCount`) or records
//     them (`pcAtUpdate`, `statusAtDrain`, `tcAtLwl`), so that moving an update across the call changes the definition;
//   - float arithmetic, DESIGN §4 (`regFloatReadings` below is printed at the head of LogicReg.lean).
package main

const regFile = "regulator/regulator.go"

const regStatusParams = "{S : Type} [BEq S] (pending normal afterRegDeadline : S)"

var regStatusExprs = map[string]string{"CompetitionStatus_Pending": "pending", "CompetitionStatus_Normal": "normal",
	"CompetitionStatus_AfterRegDeadline": "afterRegDeadline"}

var regSkip = []string{"r.mu.Lock()", "defer r.mu.Unlock()"}

// float expressions of regulator.go that are not of the two generic shapes (`int(math.Ceil(float64(a) / float64(b)))`,
// `int(math.Floor(float64(a) / float64(b)))`): the float variable `waterLevel` of `SyncState` is read as the pair
// numerator / denominator (`wlNum`, `wlDen`), comparisons are cross-multiplied, the `x/0` cases are spelled out.
const (
	regWaterLevelDecl = "waterLevel := float64(r.playerCount) / float64(requiredTables)"
	regBelowWL        = "float64(t.PlayerCount) < waterLevel"
	regAboveWL        = "float64(t.PlayerCount) > waterLevel"
	regFloorWL        = "int(math.Floor(waterLevel))"
	regLwlReached     = "lwl >= math.Floor(waterLevel)"

	regBelowWLLean    = "(decide (v_wlDen > 0) && decide (v_t_PlayerCount * v_wlDen < v_wlNum))"
	regAboveWLLean    = "(decide (v_wlDen > 0) && decide (v_t_PlayerCount * v_wlDen > v_wlNum))"
	regFloorWLLean    = "(v_wlNum / v_wlDen)"
	regLwlReachedLean = "(if lwlDen == 0 then decide (lwlNum > 0) else decide (lwlNum ≥ floorWl * lwlDen))"
)

const regPreamble = `/-
  Float arithmetic of regulator.go as integer arithmetic (DESIGN §4; exact for counts < 2^20):
    int(math.Ceil(float64(a) / float64(b)))    ↦  regCeilDiv a b  = (a + b - 1) / b       (generic rule of the translator)
    int(math.Floor(float64(a) / float64(b)))   ↦  regFloorDiv a b = a / b                 (generic rule of the translator)
  and, in SyncState, with the float variable waterLevel read as the pair (wlNum, wlDen):
    ` + regWaterLevelDecl + `   ↦  wlNum := r.playerCount, wlDen := requiredTables
    ` + regBelowWL + `   ↦  wlDen > 0 ∧ t.PlayerCount * wlDen < wlNum     (wlDen ≤ 0: NaN, never below)
    ` + regAboveWL + `   ↦  wlDen > 0 ∧ t.PlayerCount * wlDen > wlNum     (wlDen ≤ 0: NaN, never above)
    ` + regFloorWL + `           ↦  wlNum / wlDen
    ` + regLwlReached + `         ↦  with lwl = float64(lwlNum) / float64(lwlDen) (the return value of calculateLowerWaterLevel):
                                              if lwlDen = 0 then lwlNum > 0 (+Inf ≥ x; NaN ≥ x and -Inf ≥ x are false) else lwlNum ≥ floorWl * lwlDen
-/
/-- ` + "`int(math.Ceil(float64(a) / float64(b)))`" + ` -/
def regCeilDiv (a b : Int) : Int := (a + b - 1) / b

/-- ` + "`int(math.Floor(float64(a) / float64(b)))`" + ` -/
def regFloorDiv (a b : Int) : Int := a / b

`

func steps(m map[string]string) map[string][][2]string { // `multi` entries that record one step each
	out := map[string][][2]string{}
	for k, v := range m {
		out[k] = [][2]string{{"eff", step(v)}}
	}
	return out
}

func mergeMulti(ms ...map[string][][2]string) map[string][][2]string {
	out := map[string][][2]string{}
	for _, m := range ms {
		for k, v := range m {
			out[k] = v
		}
	}
	return out
}

const regTablesLoop = "for _, t := range r.tables"
const regCountLoop = "for i := 0; i < count; i++"
const regDispatchLoop = "for len(candidates) > 0 { candidates, err = r.dispatchPlayer(candidates) if err == ErrNoAvailableTable { break } }"
const regAllocLoop = "for waterLevel >= r.minInitialPlayers && r.tableCount < requiredTables"

// the result of the translated SyncState: (kind, returned count, players asked from the queue, r.playerCount,
// t.PlayerCount, r.tables[tableID].Required, steps)
const regSyncT = "String × Int × Int × Int × Int × Int × List String"

func regSyncRes(kind, ret string) string {
	return "(\"" + kind + "\", " + ret + ", v_asked, v_r_playerCount, v_t_PlayerCount, v_r_tablestableID_Required, v_eff)"
}

// the result of one translated iteration of the loop of allocateTables: (go on, waterLevel, r.tableCount,
// players asked from the queue, t.Required, t.PlayerCount, steps)
const regAllocStepT = "Bool × Int × Int × Int × Int × Int × List String"

func regAllocRes(goOn string) string {
	return "(" + goOn + ", v_waterLevel, v_r_tableCount, v_asked, v_t_Required, v_t_PlayerCount, v_eff)"
}

func regTakeStep(name, lean string, around []string) *spec {
	return &spec{
		file: regFile, recv: "regulator", name: name, leanName: lean,
		params: "{P : Type} (queue players0 : List P)", resultType: "Bool × List P × List P",
		loop: regCountLoop, around: around,
		tracked: map[string]string{"r.waitingQueue": "queue", "players": "players0", "player": "([] : List P)"},
		exprs: map[string]string{"len(r.waitingQueue)": "(v_r_waitingQueue.length : Int)", "r.waitingQueue[0]": "(v_r_waitingQueue.take 1)",
			"r.waitingQueue[1:]": "(v_r_waitingQueue.drop 1)", "append(players, player)": "(v_players ++ v_player)"},
		returns: map[string]string{"break": "(false, v_r_waitingQueue, v_players)"},
		result:  "(true, v_r_waitingQueue, v_players)",
	}
}

func init() {
	zero := "(0 : Int)"
	add("Reg",
		&spec{
			file: regFile, recv: "regulator", name: "SetStatus", leanName: "regSetStatus",
			params: regStatusParams + " (cur new : S)", resultType: "S × S × List String",
			tracked: map[string]string{"r.status": "cur", "oldStatus": "cur", "statusAtDrain": "cur", "eff": stepsInit},
			exprs:   merge(regStatusExprs, map[string]string{"status": "new"}),
			skip:    regSkip,
			// the status in force when the queue is drained is recorded
			multi:   map[string][][2]string{"r.drainWaitingQueue()": {{"statusAtDrain", "v_r_status"}, {"eff", step("drainWaitingQueue")}}},
			returns: map[string]string{"": "(v_r_status, v_statusAtDrain, v_eff)"},
			result:  "(v_r_status, v_statusAtDrain, v_eff)",
		},
		&spec{
			file: regFile, recv: "regulator", name: "AddPlayers", leanName: "regAddPlayers",
			params: regStatusParams + " (status : S) (playerCount n : Int)", resultType: "Int × Int × List String",
			tracked: map[string]string{"r.playerCount": "playerCount", "pcAtUpdate": "playerCount", "eff": stepsInit},
			exprs:   merge(regStatusExprs, map[string]string{"r.status": "status", "len(players)": "n"}),
			skip:    regSkip,
			// `updateTableRequirements` reads `r.playerCount`: the value it sees is recorded
			multi: map[string][][2]string{"r.updateTableRequirements()": {{"pcAtUpdate", "v_r_playerCount"}, {"eff", step("updateTableRequirements")}}},
			returns: map[string]string{"ErrAfterRegDealline": "(v_r_playerCount, v_pcAtUpdate, " + step("ErrAfterRegDealline") + ")",
				"r.enterWaitingQueue(players)": "(v_r_playerCount, v_pcAtUpdate, " + step("enterWaitingQueue(players)") + ")"},
			result: "(v_r_playerCount, v_pcAtUpdate, v_eff)",
		},
		&spec{
			file: regFile, recv: "regulator", name: "ReleasePlayers", leanName: "regReleasePlayers",
			params: "", resultType: stepsT,
			tracked: map[string]string{"eff": stepsInit}, skip: regSkip,
			returns: stepReturns(map[string]string{"r.enterWaitingQueue(players)": "enterWaitingQueue(players)"}),
			result:  "v_eff",
		},
		&spec{
			file: regFile, recv: "regulator", name: "enterWaitingQueue", leanName: "regEnterWaitingQueue",
			params: regStatusParams + " {P : Type} (status : S) (queue players : List P)", resultType: "List P × List String",
			tracked: map[string]string{"r.waitingQueue": "queue", "eff": stepsInit},
			exprs: merge(regStatusExprs, map[string]string{"r.status": "status",
				"append(r.waitingQueue, players...)": "(v_r_waitingQueue ++ players)"}),
			returns: map[string]string{"nil": "(v_r_waitingQueue, " + step("nil") + ")",
				"r.drainWaitingQueue()": "(v_r_waitingQueue, " + step("drainWaitingQueue") + ")"},
			result: "(v_r_waitingQueue, v_eff)",
		},
		// drainWaitingQueue: the steps taken; `len(candidates)` after the k-th dispatch loop is `lenAfter k`
		&spec{
			file: regFile, recv: "regulator", name: "drainWaitingQueue", leanName: "regDrain",
			params: "(tableCount qlen min : Int) (lenAfter : Int → Int)", resultType: stepsT,
			tracked: map[string]string{"eff": stepsInit, "len(candidates)": zero, "loops": zero},
			exprs:   map[string]string{"r.tableCount": "tableCount", "len(r.waitingQueue)": "qlen", "r.minInitialPlayers": "min"},
			skip:    []string{"var err error"},
			stmts:   stepStmts(map[string]string{"r.updateTableRequirements()": "updateTableRequirements"}),
			multi: map[string][][2]string{
				"candidates := r.waitingQueue": {{"eff", step("candidates := r.waitingQueue")}, {"len(candidates)", "qlen"}},
				regDispatchLoop:                {{"eff", step("dispatchLoop")}, {"loops", "(v_loops + (1 : Int))"}, {"len(candidates)", "(lenAfter v_loops)"}},
				"r.waitingQueue = candidates":  {{"eff", step("r.waitingQueue = candidates")}},
			},
			returns: stepReturns(map[string]string{"r.allocateTables()": "allocateTables", "nil": "nil"}),
			result:  "v_eff",
		},
		&spec{
			file: regFile, recv: "regulator", name: "dispatchPlayer", leanName: "regDispatchPlayer",
			params: "{P : Type} (tNil : Bool) (required count : Int) (players0 : List P)", resultType: "Option (List P × List P × Int × Int)",
			tracked: map[string]string{"players": "players0", "candidates": "([] : List P)", "picked": "([] : List P)", "assigned": "([] : List P)",
				"t.Required": "required", "t.PlayerCount": "count"},
			exprs: map[string]string{"t == nil": "tNil", "len(candidates)": "(v_candidates.length : Int)", "len(picked)": "(v_picked.length : Int)",
				"candidates[:t.Required]": "(v_candidates.take v_t_Required.toNat)", "candidates[t.Required:]": "(v_candidates.drop v_t_Required.toNat)",
				"[]string{}": "([] : List P)"},
			skip: []string{"t, err := r.getAvailableTable()", "var picked []string"},
			multi: map[string][][2]string{
				// `getAvailableTable` returns no error; the callbacks never fail (environment assumption of the model)
				"if err != nil { fmt.Println(\"Failed to get available table:\") fmt.Println(err) return players, err }":     {},
				"if err != nil { fmt.Println(\"Failed to assign players to table:\") fmt.Println(err) return players, nil }": {},
				"err = r.assignPlayersFn(t.ID, picked)": {{"assigned", "v_picked"}},
			},
			returns: map[string]string{"players, ErrNoAvailableTable": "none",
				"candidates, nil": "(some (v_candidates, v_assigned, v_t_Required, v_t_PlayerCount))"},
			result: "none",
		},
		&spec{
			file: regFile, recv: "regulator", name: "getAvailableTable", leanName: "regAvailableStep",
			params: "(required : Int)", resultType: "Bool",
			loop: regTablesLoop, around: []string{"return nil, nil"},
			tracked: map[string]string{},
			exprs:   map[string]string{"t.Required": "required"},
			returns: map[string]string{"t, nil": "true"},
			result:  "false",
		},
		// updateTableRequirements: whether the loop runs and with which water level; then one iteration
		&spec{
			file: regFile, recv: "regulator", name: "updateTableRequirements", leanName: "regUpdateReq",
			params: "(playerCount max tablesLen : Int)", resultType: "Bool × Int × Int × Int",
			tracked: map[string]string{"requiredTables": zero, "remains": zero, "playerRemains": zero, "waterLevel": zero, "ran": "false"},
			exprs:   map[string]string{"r.playerCount": "playerCount", "r.maxPlayersPerTable": "max", "len(r.tables)": "tablesLen"},
			multi:   map[string][][2]string{regTablesLoop + " { … }": {{"ran", "true"}}},
			result:  "(v_ran, v_waterLevel, v_remains, v_playerRemains)",
		},
		&spec{
			file: regFile, recv: "regulator", name: "updateTableRequirements", leanName: "regUpdateReqStep",
			params: "(waterLevel count required remains0 playerRemains0 : Int)", resultType: "Int × Int × Int",
			within: "if requiredTables == len(r.tables)", loop: regTablesLoop,
			around:  []string{"…"}, // the statements before the loop: `regUpdateReq`
			tracked: map[string]string{"t.Required": "required", "remains": "remains0", "playerRemains": "playerRemains0"},
			exprs:   map[string]string{"waterLevel": "waterLevel", "t.PlayerCount": "count"},
			result:  "(v_t_Required, v_remains, v_playerRemains)",
		},
		// allocateTables: the water level and the number of tables the loop starts with; then one iteration
		&spec{
			file: regFile, recv: "regulator", name: "allocateTables", leanName: "regAllocInit",
			params: "(playerCount max min tableCount : Int)", resultType: "Option (Int × Int)",
			tracked: map[string]string{"requiredTables": zero, "waterLevel": zero, "wl": zero},
			exprs: map[string]string{"r.playerCount": "playerCount", "r.maxPlayersPerTable": "max", "r.minInitialPlayers": "min",
				"r.tableCount": "tableCount"},
			stopAt:  regAllocLoop,
			returns: map[string]string{"nil": "none"},
			result:  "(some (v_waterLevel, v_requiredTables))",
		},
		&spec{
			file: regFile, recv: "regulator", name: "allocateTables", leanName: "regAllocStep",
			params: "(waterLevel0 requiredTables tableCount qlen max : Int) (got : Int → Int)", resultType: regAllocStepT,
			loop:   regAllocLoop,
			around: []string{"…", "return nil"}, // the statements before the loop: `regAllocInit`
			tracked: map[string]string{"waterLevel": "waterLevel0", "r.tableCount": "tableCount", "requiredPlayers": zero, "expectedTables": zero,
				"asked": zero, "t.Required": zero, "t.PlayerCount": zero, "len(players)": zero, "len(r.waitingQueue)": "qlen", "eff": stepsInit},
			exprs: map[string]string{"requiredTables": "requiredTables", "r.maxPlayersPerTable": "max"},
			multi: map[string][][2]string{
				"players := r.getPlayersFromWaitingQueue(requiredPlayers)": {{"asked", "v_requiredPlayers"}, {"len(players)", "(got v_requiredPlayers)"},
					{"len(r.waitingQueue)", "(v_lenr_waitingQueue - got v_requiredPlayers)"}},
				"tableID, err := r.requestTableFn(players)":                           {{"eff", step("requestTable")}},
				"if err != nil { return err }":                                        {}, // the callbacks never fail (environment assumption of the model)
				"t := &Table{ ID: tableID, Required: 0, PlayerCount: len(players), }": {{"t.Required", zero}, {"t.PlayerCount", "v_lenplayers"}},
				"r.tables[tableID] = t":                                               {{"eff", step("store")}},
			},
			returns: map[string]string{"nil": regAllocRes("false")},
			result:  regAllocRes("true"),
		},
		// SyncState
		&spec{
			file: regFile, recv: "regulator", name: "SyncState", leanName: "regSyncState",
			params: regStatusParams + " (found : Bool) (status : S) (playerCount tcount treq out max tableCount : Int)" +
				" (lowCount : Int → Int → Int) (got : Int → Int) (released : Int → Int → Int → Int → Int)", resultType: regSyncT,
			tracked: map[string]string{"r.playerCount": "playerCount", "t.PlayerCount": "tcount", "r.tables[tableID].Required": "treq",
				"requiredTables": zero, "wlNum": zero, "wlDen": zero, "count": zero, "stillRequired": zero, "picked": zero, "asked": zero, "relAt": zero,
				"len(players)": zero, "eff": stepsInit},
			exprs: merge(regStatusExprs, map[string]string{"ok": "found", "out": "out", "r.status": "status", "r.maxPlayersPerTable": "max",
				"r.tableCount": "tableCount", "r.getLowWaterLevelTableCount()": "(lowCount v_r_playerCount v_t_PlayerCount)",
				regBelowWL: regBelowWLLean, regAboveWL: regAboveWLLean, regFloorWL: regFloorWLLean}),
			skip: append([]string{"t, ok := r.tables[tableID]"}, regSkip...),
			multi: map[string][][2]string{
				regWaterLevelDecl:                             {{"wlNum", "v_r_playerCount"}, {"wlDen", "v_requiredTables"}},
				"err := r.breakTable(tableID)":                {{"eff", step("breakTable")}},
				"if err != nil { return 0, []string{}, err }": {}, // the table was found above: `breakTable` cannot fail
				"players := r.requestPlayers(count)":          {{"asked", "v_count"}, {"len(players)", "(got v_count)"}},
				"r.tables[tableID].Required = stillRequired":  {{"eff", step("setRequired")}, {"r.tables[tableID].Required", "v_stillRequired"}},
				regCountLoop + " { … }": {{"relAt", "(released v_r_playerCount v_t_PlayerCount v_count " + regFloorWLLean + ")"},
					{"t.PlayerCount", "(v_t_PlayerCount - v_relAt)"}, {"picked", "(v_picked + v_relAt)"}},
			},
			returns: map[string]string{
				"0, []string{}, ErrNotFoundTable": regSyncRes("ErrNotFoundTable", zero),
				"t.PlayerCount, []string{}, nil":  regSyncRes("ok", "v_t_PlayerCount"),
				"0, players, nil":                 regSyncRes("players", zero),
				"picked, []string{}, nil":         regSyncRes("ok", "v_picked"),
				"0, []string{}, nil":              regSyncRes("ok", zero),
			},
			result: regSyncRes("ok", zero),
		},
		&spec{
			file: regFile, recv: "regulator", name: "SyncState", leanName: "regReleaseStep",
			params: "(lwlNum lwlDen floorWl picked0 tcount : Int)", resultType: "Bool × Int × Int × Int",
			within: "if " + regAboveWL, loop: regCountLoop,
			around:  []string{"…", "return picked, []string{}, nil"}, // before the loop: `regSyncState`
			tracked: map[string]string{"picked": "picked0", "t.PlayerCount": "tcount", "tcAtLwl": "tcount"},
			exprs:   map[string]string{regLwlReached: regLwlReachedLean},
			// `calculateLowerWaterLevel` reads the tables: the count of this table at that call is recorded
			multi:   map[string][][2]string{"lwl := r.calculateLowerWaterLevel()": {{"tcAtLwl", "v_t_PlayerCount"}}},
			returns: map[string]string{"break": "(false, v_picked, v_t_PlayerCount, v_tcAtLwl)"},
			result:  "(true, v_picked, v_t_PlayerCount, v_tcAtLwl)",
		},
		// getLowWaterLevelTableCount, calculateLowerWaterLevel: the values the loop starts with; one iteration
		&spec{
			file: regFile, recv: "regulator", name: "getLowWaterLevelTableCount", leanName: "regLowCountInit",
			params: "(playerCount max : Int)", resultType: "Int × Int",
			tracked: map[string]string{"requiredTables": zero, "waterLevel": zero, "tableCount": zero},
			exprs:   map[string]string{"r.playerCount": "playerCount", "r.maxPlayersPerTable": "max"},
			stopAt:  regTablesLoop, result: "(v_waterLevel, v_tableCount)",
		},
		&spec{
			file: regFile, recv: "regulator", name: "getLowWaterLevelTableCount", leanName: "regLowCountStep",
			params: "(waterLevel tableCount0 count : Int)", resultType: "Int",
			loop: regTablesLoop, around: []string{"…", "return tableCount"}, // before the loop: `regLowCountInit`
			tracked: map[string]string{"tableCount": "tableCount0"},
			exprs:   map[string]string{"waterLevel": "waterLevel", "t.PlayerCount": "count"},
			result:  "v_tableCount",
		},
		&spec{
			file: regFile, recv: "regulator", name: "calculateLowerWaterLevel", leanName: "regLowerInit",
			params: "(pc max : Int)", resultType: "Int × Int × Int",
			tracked: map[string]string{"requiredTables": zero, "waterLevel": zero, "tableCount": zero, "playerCount": zero},
			exprs:   map[string]string{"r.playerCount": "pc", "r.maxPlayersPerTable": "max"},
			stopAt:  regTablesLoop, result: "(v_waterLevel, v_tableCount, v_playerCount)",
		},
		&spec{
			file: regFile, recv: "regulator", name: "calculateLowerWaterLevel", leanName: "regLowerStep",
			params: "(waterLevel tableCount0 playerCount0 count : Int)", resultType: "Int × Int",
			loop:    regTablesLoop,
			around:  []string{"…", "return float64(playerCount) / float64(tableCount)"}, // before the loop: `regLowerInit`
			tracked: map[string]string{"tableCount": "tableCount0", "playerCount": "playerCount0"},
			exprs:   map[string]string{"waterLevel": "waterLevel", "t.PlayerCount": "count"},
			result:  "(v_tableCount, v_playerCount)",
		},
		&spec{
			file: regFile, recv: "regulator", name: "breakTable", leanName: "regBreakTable",
			params: "(found : Bool) (tableCount : Int)", resultType: "Int × List String",
			tracked: map[string]string{"r.tableCount": "tableCount", "eff": stepsInit},
			exprs:   map[string]string{"ok": "found"},
			skip:    []string{"_, ok := r.tables[tableID]"},
			stmts:   stepStmts(map[string]string{"delete(r.tables, tableID)": "delete"}),
			returns: map[string]string{"ErrNotFoundTable": "(v_r_tableCount, " + step("ErrNotFoundTable") + ")", "nil": "(v_r_tableCount, " + step("nil") + ")"},
			result:  "(v_r_tableCount, v_eff)",
		},
		regTakeStep("requestPlayers", "regRequestPlayersStep", []string{"players := make([]string, 0)", "return players"}),
		regTakeStep("getPlayersFromWaitingQueue", "regGetPlayersStep",
			[]string{"if len(r.waitingQueue) == 0 { return []string{} }", "players := make([]string, 0)", "return players"}),
	)
}
