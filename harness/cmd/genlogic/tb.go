// Group "Tb": the glue between the seat manager and the hand engine — table/internal.go, table/table.go, table/state.go,
// match/table.go and the playable-seat filter of seat_manager/seat_manager.go — translated into Generated/LogicTb.lean;
// obligations in Proofs/GeneratedLogicTb.lean (`tbSetupPosition_eq` … `tbMatchPlayers_eq`), model Model/Table.lean and, for
// match.Table, the seat-manager model as used by the `mt` lines of Driver/Main.lean.
//
// Readings used by the specs of this group (all in the per-function tables below):
//   - a function is read as (the tracked fields it leaves, the list of steps it took); a call with an effect on the state
//     is one step, pinned by its printed form (`multi`), so that moving a statement across it changes the list; the error
//     such a call returns is a parameter (`nextErr`, `setupFails1`, `startFails`, `joinFails` …) which the theorem
//     instantiates with what the model computes at that point; a value the call changes and the function reads later is
//     a parameter too (`gameCountAfter`), assigned to the tracked variable at the call;
//   - `if err := t.checkEndConditions(); err != nil { return err }` (an `if` with an init statement) is a guard pinned by
//     its printed form; its condition `endReached v_t_gameCount` reads the tracked game count, so the two occurrences are
//     told apart by the state they see;
//   - the pointer comparisons `s == t.sm.Dealer()` … of `setupPosition` are comparisons of `some seat` with the seat ids
//     `dealer sb bb : Option Nat` (a nil pointer is `none`);
//   - loops are translated as a function of one iteration (`loop` / `around`), the statements around them are pinned or, where
//     they are the subject of another spec, stand as `…` / `<header> { … }`; a LAST entry `…` of `around` (after at least one
//     other entry) stands for all the statements after the loop (the one addition to the translator, `loopBody` in main.go);
//   - the callbacks of match.Table are effects with translated arguments (`effcalls`).
package main

const tbInternal = "table/internal.go"
const tbTable = "table/table.go"
const tbState = "table/state.go"
const tbMatch = "match/table.go"

var tbLock = []string{"t.mu.Lock()", "defer t.mu.Unlock()", "t.mu.RLock()", "defer t.mu.RUnlock()", "t.mu.RUnlock()"}

// ---- printed forms of statements of internal.go that are pinned ----

const tbSeatsLoop = "for _, s := range seats"
const tbCheckEndStmt = "if err := t.checkEndConditions(); err != nil { return err }"
const tbDeckSwitch = `switch t.options.GameType { case "short_deck": opts = pokerface.NewStardardGameOptions() opts.Deck = pokerface.NewShortDeckCards() default: opts = pokerface.NewStardardGameOptions() opts.Deck = pokerface.NewStandardDeckCards() }`
const tbClearLoop = "for _, p := range t.ts.Players"
const tbAssignLoop = "for i, s := range seats"
const tbSetGameIdx = "s.Player.(*PlayerInfo).GameIdx = i"
const tbAppendSetting = "opts.Players = append(opts.Players, &pokerface.PlayerSetting{ Bankroll: s.Player.(*PlayerInfo).Bankroll, Positions: s.Player.(*PlayerInfo).Positions, })"
const tbOnStateUpdated = `t.g.OnStateUpdated(func(gs *pokerface.GameState) { t.updateGameState(gs) if gs.Status.CurrentEvent == "GameClosed" { cancel() } })`
const tbResultsLoop = "for _, rs := range ts.GameState.Result.Players"
const tbLeftLoop = "for seatID, state := range sc.Seats"

// (tracked fields …, steps) of a function read as a list of steps
func tbRes(fields string, last string) string {
	if last == "" {
		return "(" + fields + "v_eff)"
	}
	return "(" + fields + step(last) + ")"
}

func init() {
	add("Tb",
		// ---- table/internal.go ----
		// setupPosition: (t.inPosition, steps); `nextErr` is what `t.sm.Next()` returns
		&spec{
			file: tbInternal, recv: "table", name: "setupPosition", leanName: "tbSetupPosition",
			params: "{E : Type} [BEq E] (smInsufficient : E) (inPosition : Bool) (nextErr : Option E)", resultType: "Bool × List String",
			tracked: map[string]string{"t.inPosition": "inPosition", "eff": stepsInit},
			exprs: map[string]string{"err != nil": "nextErr.isSome", "err == nil": "(!nextErr.isSome)",
				"err == seat_manager.ErrInsufficientNumberOfPlayers": "(nextErr == some smInsufficient)",
				"err != seat_manager.ErrInsufficientNumberOfPlayers": "(nextErr != some smInsufficient)"},
			skip: tbLock,
			multi: mergeMulti(steps(map[string]string{"err := t.sm.Next()": "sm.Next()", "t.ts.ResetPositions()": "ResetPositions",
				"seats := t.sm.GetSeats()": "GetSeats", tbSeatsLoop + " { … }": "seatsLoop"})),
			returns: map[string]string{"nil": tbRes("v_t_inPosition, ", "nil"), "err": tbRes("v_t_inPosition, ", "return err"),
				"ErrInsufficientNumberOfPlayers": tbRes("v_t_inPosition, ", "ErrInsufficientNumberOfPlayers")},
			result: tbRes("v_t_inPosition, ", ""),
		},
		// setupPosition, one seat: (the sheet entry written, p.Positions, p.Playable)
		&spec{
			file: tbInternal, recv: "table", name: "setupPosition", leanName: "tbSetupStep",
			params:     "(hasPlayer : Bool) (seat : Nat) (dealer sb bb : Option Nat) (reserved active : Bool) (positions0 : List String) (playable0 : Bool)",
			resultType: "String × List String × Bool",
			loop:       tbSeatsLoop, around: []string{"…", "…"}, // the statements around the loop: `tbSetupPosition`
			tracked: map[string]string{"target": "\"\"", "positions": "positions0", "p.Positions": "positions0", "p.Playable": "playable0"},
			exprs: map[string]string{"s.Player == nil": "(!hasPlayer)", "s.Player != nil": "hasPlayer", "s": "(some seat)", "t.sm.Dealer()": "dealer", "t.sm.SmallBlind()": "sb",
				"t.sm.BigBlind()": "bb", "s.IsReserved": "reserved", "s.IsActive": "active"},
			multi:  map[string][][2]string{"p := t.GetPlayerByID(s.Player.(*PlayerInfo).ID)": {{"target", "\"GetPlayerByID(s.Player.ID)\""}}},
			result: "(v_target, v_p_Positions, v_p_Playable)",
		},
		// state.go ResetPositions, one player
		&spec{
			file: tbState, recv: "State", name: "ResetPositions", leanName: "tbResetPositionsStep",
			params: "(positions0 : List String)", resultType: "List String",
			loop: "for _, p := range s.Players", around: nil,
			tracked: map[string]string{"p.Positions": "positions0"},
			result:  "v_p_Positions",
		},
		// checkEndConditions; the clock test is one condition, pinned
		&spec{
			file: tbInternal, recv: "table", name: "checkEndConditions", leanName: "tbCheckEnd",
			params: "(maxGames gameCount : Int) (timesUp : Bool)", resultType: stepsT,
			tracked: map[string]string{"eff": stepsInit},
			exprs:   map[string]string{"t.options.MaxGames": "maxGames", "t.gameCount": "gameCount", "time.Now().Unix() >= t.ts.EndTime": "timesUp"},
			returns: stepReturns(map[string]string{"ErrMaxGamesExceeded": "ErrMaxGamesExceeded", "ErrTimesUp": "ErrTimesUp", "nil": "nil"}),
			result:  "v_eff",
		},
		// prepareNextGame: the steps taken.  `endReached gc`: `checkEndConditions` returns an error at game count `gc`;
		// `setupFails1/2`, `startFails`: the three calls return an error; `playable`: what `GetPlayableSeatCount` returns;
		// `gameCountAfter`: `t.gameCount` after `startGame`
		&spec{
			file: tbInternal, recv: "table", name: "prepareNextGame", leanName: "tbPrepareNextGame",
			params: "(paused : Bool) (gameCount0 initial min : Int) (endReached : Int → Bool) (setupFails1 : Bool) (playable : Int)" +
				" (startFails : Bool) (gameCountAfter : Int) (setupFails2 : Bool)", resultType: stepsT,
			tracked: map[string]string{"eff": stepsInit, "err": "false", "t.gameCount": "gameCount0", "playableCount": "(0 : Int)"},
			exprs: map[string]string{"t.isPaused": "paused", "t.options.InitialPlayers": "initial", "t.options.MinPlayers": "min",
				"err != nil": "v_err"},
			skip: []string{"t.ts.GameState = nil", `t.ts.Status = "preparing"`},
			guards: map[string][]string{tbCheckEndStmt: {"(endReached v_t_gameCount)", step("checkEndConditions: return err"),
				"eff", step("checkEndConditions")}},
			multi: map[string][][2]string{
				"err := t.setupPosition()":                     {{"eff", step("setupPosition")}, {"err", "setupFails1"}},
				"err = t.setupPosition()":                      {{"eff", step("setupPosition")}, {"err", "setupFails2"}},
				"playableCount := t.sm.GetPlayableSeatCount()": {{"eff", step("GetPlayableSeatCount")}, {"playableCount", "playable"}},
				"err = t.startGame()":                          {{"eff", step("startGame")}, {"t.gameCount", "gameCountAfter"}, {"err", "startFails"}},
			},
			returns: stepReturns(map[string]string{"ErrGameCancelled": "ErrGameCancelled", "ErrInsufficientNumberOfPlayers": "ErrInsufficientNumberOfPlayers",
				"err": "return err", "nil": "nil"}),
			result: "v_eff",
		},
		// startGame: (t.gameCount, t.inPosition, steps); `startFails`: `t.g.Start()` returns an error
		&spec{
			file: tbInternal, recv: "table", name: "startGame", leanName: "tbStartGame",
			params: "(gameCount : Int) (inPosition startFails : Bool)", resultType: "Int × Bool × List String",
			tracked: map[string]string{"eff": stepsInit, "t.gameCount": "gameCount", "t.inPosition": "inPosition"},
			exprs:   map[string]string{"err != nil": "startFails"},
			skip: append([]string{"var opts *pokerface.GameOptions", "ctx, cancel := context.WithCancel(context.Background())",
				`t.ts.Status = "playing"`}, tbLock...),
			multi: mergeMulti(steps(map[string]string{tbDeckSwitch: "deck", "opts.Ante = t.options.Ante": "ante",
				"opts.Blind.Dealer = t.options.Blind.Dealer": "blind.dealer", "opts.Blind.SB = t.options.Blind.SB": "blind.sb",
				"opts.Blind.BB = t.options.Blind.BB": "blind.bb", tbClearLoop + " { … }": "clearLoop",
				"seats := t.sm.GetPlayableSeats()": "GetPlayableSeats", tbAssignLoop + " { … }": "assignLoop",
				"t.g = NewGame(t.b, opts)": "NewGame", tbOnStateUpdated: "OnStateUpdated(updateGameState)", "err := t.g.Start()": "Start",
				"<-ctx.Done()": "wait"})),
			returns: map[string]string{"err": tbRes("v_t_gameCount, v_t_inPosition, ", "return err"), "nil": tbRes("v_t_gameCount, v_t_inPosition, ", "nil")},
			result:  tbRes("v_t_gameCount, v_t_inPosition, ", ""),
		},
		// startGame, the two loops: one iteration each
		&spec{
			file: tbInternal, recv: "table", name: "startGame", leanName: "tbClearIdxStep",
			params: "(gameIdx0 : Int)", resultType: "Int",
			loop: tbClearLoop, around: []string{"…", "…"}, // the statements around the loop: `tbStartGame`
			tracked: map[string]string{"p.GameIdx": "gameIdx0"},
			result:  "v_p_GameIdx",
		},
		&spec{
			file: tbInternal, recv: "table", name: "startGame", leanName: "tbAssignStep",
			params: "{B P : Type} (i gameIdx0 : Int) (bankroll : B) (positions : P) (players0 : List (B × P))", resultType: "Int × List (B × P)",
			loop: tbAssignLoop, around: []string{"…", "…"}, // the statements around the loop: `tbStartGame`
			tracked: map[string]string{"gameIdx": "gameIdx0", "opts.Players": "players0"},
			multi: map[string][][2]string{tbSetGameIdx: {{"gameIdx", "i"}},
				tbAppendSetting: {{"opts.Players", "(v_opts_Players ++ [(bankroll, positions)])"}}},
			result: "(v_gameIdx, v_opts_Players)",
		},
		// updatePlayerStates: whether the loop runs; one entry of `Result.Players`: (p.Bankroll, steps)
		&spec{
			file: tbInternal, recv: "table", name: "updatePlayerStates", leanName: "tbUpdateGuard",
			params: "(noGameState : Bool) (event : String)", resultType: "Bool",
			tracked: map[string]string{},
			exprs:   map[string]string{"ts.GameState == nil": "noGameState", "ts.GameState != nil": "(!noGameState)", "ts.GameState.Status.CurrentEvent": "event"},
			stopAt:  tbResultsLoop, returns: map[string]string{"nil": "false"}, result: "true",
		},
		&spec{
			file: tbInternal, recv: "table", name: "updatePlayerStates", leanName: "tbUpdateStep",
			params: "(found : Bool) (final bankroll0 : Int) (mode : String)", resultType: "Int × List String",
			loop: tbResultsLoop, around: []string{"…", "return nil"}, // before the loop: `tbUpdateGuard`
			tracked: map[string]string{"p.Bankroll": "bankroll0", "eff": stepsInit},
			exprs:   map[string]string{"p == nil": "(!found)", "p != nil": "found", "rs.Final": "final", "t.ts.Options.EliminateMode": "mode"},
			multi: steps(map[string]string{"p := ts.GetPlayerByGameIdx(rs.Idx)": "GetPlayerByGameIdx(rs.Idx)",
				"t.sm.Reserve(p.SeatID)": "sm.Reserve(p.SeatID)", "t.leave(p.SeatID)": "leave(p.SeatID)"}),
			result: "(v_p_Bankroll, v_eff)",
		},
		// state.go GetPlayerByGameIdx, one player: found?
		&spec{
			file: tbState, recv: "State", name: "GetPlayerByGameIdx", leanName: "tbByGameIdxStep",
			params: "(gameIdx idx : Int)", resultType: "Bool",
			loop: "for _, p := range s.Players", around: []string{"return nil"},
			tracked: map[string]string{},
			exprs:   map[string]string{"p.GameIdx": "gameIdx", "idx": "idx"},
			returns: map[string]string{"p": "true"}, result: "false",
		},
		&spec{
			file: tbInternal, recv: "table", name: "updateGameState", leanName: "tbUpdateGameState",
			params: "", resultType: stepsT,
			tracked: map[string]string{"eff": stepsInit}, skip: tbLock,
			multi: steps(map[string]string{"t.ts.GameState = gs": "GameState = gs", "t.updatePlayerStates(t.ts)": "updatePlayerStates(t.ts)",
				"t.emitStateUpdated()": "emitStateUpdated"}),
			returns: stepReturns(map[string]string{"nil": "nil"}), result: "v_eff",
		},
		// ---- seat_manager.go getPlayableSeats (the order and the members of the next game), one seat ----
		&spec{
			file: "seat_manager/seat_manager.go", recv: "SeatManager", name: "getPlayableSeats", leanName: "tbPlayableSeatsStep",
			params: "{S : Type} (s : S) (reserved active hasPlayer : Bool) (seats0 : List S)", resultType: "List S",
			loop: "for _, s := range origSeats", around: []string{"origSeats := sm.getNormalizeSeats(sm.dealer.ID)", "seats := make([]*Seat, 0)", "return seats"},
			tracked: map[string]string{"seats": "seats0"},
			exprs:   map[string]string{"s": "s", "s.IsReserved": "reserved", "s.IsActive": "active", "s.Player != nil": "hasPlayer"},
			result:  "v_seats",
		},
		// ---- table/table.go ----
		// Join: (p.GameIdx, p.SeatID, returned seat, steps); `sid`, `joinFails`: what `t.sm.Join` returns
		&spec{
			file: tbTable, recv: "table", name: "Join", leanName: "tbJoin",
			params: "(seatID gameIdx0 seatID0 : Int) (joinFails : Bool) (sid : Int)", resultType: "Int × Int × Int × List String",
			tracked: map[string]string{"p.GameIdx": "gameIdx0", "p.SeatID": "seatID0", "eff": stepsInit},
			exprs:   map[string]string{"err != nil": "joinFails", "err == nil": "(!joinFails)", "sid": "sid", "seatID": "seatID"},
			skip:    append([]string{"fmt.Println("}, tbLock...),
			multi: steps(map[string]string{"sid, err := t.sm.Join(seatID, p)": "sm.Join(seatID, p)", "t.ts.Players[sid] = p": "Players[sid] = p",
				"t.emitStateUpdated()": "emitStateUpdated"}),
			returns: map[string]string{"-1, err": tbRes("v_p_GameIdx, v_p_SeatID, (-(1 : Int)), ", "return err"),
				"sid, err": tbRes("v_p_GameIdx, v_p_SeatID, sid, ", "return err"), "seatID, err": tbRes("v_p_GameIdx, v_p_SeatID, seatID, ", "return err"),
				"-1, nil": tbRes("v_p_GameIdx, v_p_SeatID, (-(1 : Int)), ", "nil"), "seatID, nil": tbRes("v_p_GameIdx, v_p_SeatID, seatID, ", "nil"),
				"sid, nil": tbRes("v_p_GameIdx, v_p_SeatID, sid, ", "nil")},
			result: tbRes("v_p_GameIdx, v_p_SeatID, (-(1 : Int)), ", ""),
		},
		&spec{
			file: tbTable, recv: "table", name: "leave", leanName: "tbLeave",
			params: "(leaveFails : Bool)", resultType: stepsT,
			tracked: map[string]string{"eff": stepsInit},
			exprs:   map[string]string{"err != nil": "leaveFails"},
			multi:   steps(map[string]string{"err := t.sm.Leave(seatID)": "sm.Leave(seatID)", "delete(t.ts.Players, seatID)": "delete(Players, seatID)"}),
			returns: stepReturns(map[string]string{"err": "return err", "nil": "nil"}), result: "v_eff",
		},
		&spec{
			file: tbTable, recv: "table", name: "Leave", leanName: "tbLeaveOp",
			params: "(leaveFails : Bool)", resultType: stepsT,
			tracked: map[string]string{"eff": stepsInit},
			exprs:   map[string]string{"err != nil": "leaveFails"}, skip: tbLock,
			multi:   steps(map[string]string{"err := t.leave(seatID)": "leave(seatID)", "t.emitStateUpdated()": "emitStateUpdated"}),
			returns: stepReturns(map[string]string{"err": "return err", "nil": "nil"}), result: "v_eff",
		},
		&spec{
			file: tbTable, recv: "table", name: "Activate", leanName: "tbActivate",
			params: "(seatFails running : Bool) (status : String) (playerCount initial : Int)", resultType: stepsT,
			tracked: map[string]string{"eff": stepsInit},
			exprs: map[string]string{"err != nil": "seatFails", "t.isRunning": "running", "t.ts.Status": "status",
				"t.sm.GetPlayerCount()": "playerCount", "t.options.InitialPlayers": "initial"},
			multi:   steps(map[string]string{"err := t.sm.Seat(seatID)": "sm.Seat(seatID)", "t.NewGame(0)": "NewGame(0)"}),
			returns: stepReturns(map[string]string{"err": "return err", "nil": "nil"}), result: "v_eff",
		},
		&spec{
			file: tbTable, recv: "table", name: "Reserve", leanName: "tbReserve",
			params: "", resultType: stepsT,
			tracked: map[string]string{"eff": stepsInit},
			returns: stepReturns(map[string]string{"t.sm.Reserve(seatID)": "sm.Reserve(seatID)"}), result: "v_eff",
		},
		// ---- match/table.go ----
		// Join: (an error is returned, sm.Join was called, callbacks); `sid`, `joinFails`: what `t.sm.Join` returns
		&spec{
			file: tbMatch, recv: "Table", name: "Join", leanName: "tbMatchJoin",
			params: "{P : Type} (playerID : P) (seatID : Int) (joinFails : Bool) (sid : Int)", resultType: "Bool × Bool × List (String × P × Int)",
			tracked:  map[string]string{"eff": "([] : List (String × P × Int))", "joined": "false"},
			exprs:    map[string]string{"err != nil": "joinFails", "sid": "sid", "seatID": "seatID", "playerID": "playerID"},
			skip:     tbLock,
			multi:    map[string][][2]string{"sid, err := t.sm.Join(seatID, playerID)": {{"joined", "true"}}},
			effcalls: map[string]string{"t.onPlayerJoined": "onPlayerJoined"},
			returns:  map[string]string{"err": "(true, v_joined, v_eff)", "nil": "(false, v_joined, v_eff)"},
			result:   "(false, v_joined, v_eff)",
		},
		// ApplySeatChanges, one entry of `sc.Seats`: the effects in order (`sm.Leave`, the callback)
		&spec{
			file: tbMatch, recv: "Table", name: "ApplySeatChanges", leanName: "tbMatchLeftStep",
			params: "{P : Type} (state : String) (occupied : Bool) (player : P) (seatID : Int)", resultType: "List (String × P × Int)",
			loop: tbLeftLoop, around: []string{"…", "return nil"}, // before the loop: the positions (not modelled)
			tracked: map[string]string{"eff": "([] : List (String × P × Int))", "playerID": "player"},
			exprs: map[string]string{"state": "state", "seat.Player == nil": "(!occupied)", "seat.Player != nil": "occupied", "seatID": "seatID",
				"seat.Player.(string)": "player"},
			skip:     []string{"seat := t.sm.GetSeat(seatID)", "fmt.Printf("},
			multi:    map[string][][2]string{"t.sm.Leave(seatID)": {{"eff", "(v_eff ++ [(\"sm.Leave\", v_playerID, seatID)])"}}},
			effcalls: map[string]string{"t.onPlayerLeft": "onPlayerLeft"},
			result:   "v_eff",
		},
		// GetPlayers, one seat
		&spec{
			file: tbMatch, recv: "Table", name: "GetPlayers", leanName: "tbMatchPlayersStep",
			params: "{P : Type} (hasPlayer : Bool) (player : P) (players0 : List P)", resultType: "List P",
			loop: tbSeatsLoop, around: []string{"t.mu.RLock()", "defer t.mu.RUnlock()", "seats := t.sm.GetSeats()", "players := make([]string, 0)", "return players, nil"},
			tracked: map[string]string{"players": "players0"},
			exprs:   map[string]string{"s.Player == nil": "(!hasPlayer)", "s.Player != nil": "hasPlayer", "s.Player.(string)": "player"},
			result:  "v_players",
		},
	)
}
