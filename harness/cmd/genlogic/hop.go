// Group "Hop": how a game object is BUILT and REBUILT — the anchors of C07 — translated into Generated/LogicHop.lean;
// obligations in Proofs/GeneratedLogicHop.lean (`hopNewGame_eq` … `hopBackendRaise_eq`).  Negative test: negtest_hop.py.
//
//   - game.go: `NewGame`, `NewGameFromState`, `ApplyOptions` (which option lands in which field of a FRESH state; the deck
//     copied, the site of D12; the loop over the player settings), `AddPlayer` (the `PlayerState` built from a `PlayerSetting`),
//     `addPlayer` (the player object bound to its `PlayerState`; the cached dealer / small blind / big blind; the map of
//     player objects), `LoadState` (the state pointer swapped first, then every player of THAT state through `addPlayer`),
//     `GetState`, `GetStateJSON`, `Player(idx)`, `Dealer` / `SmallBlind` / `BigBlind`, `GetPlayerCount`, `GetPlayers` up to its
//     loop and one iteration of the loop; player.go: `State`, `SeatIndex`, one iteration of `CheckPosition`;
//   - pokerface.go: `NewPokerFace`, `NewGame`, `NewGameFromState`; game_options.go: `NewStardardGameOptions`,
//     `NewShortDeckGameOptions` (which fields are fresh slices and which point at the package-level ranking tables);
//   - table/native_backend.go: `NewNativeBackend`, `cloneState`, `getState`, `CreateGame` and the twelve operations.
//
// Reading.  Nothing here is arithmetic; what matters is WHICH object an operation is applied to and in which order.  A pure
// model has no pointers, so the functions are translated as programs over UNINTERPRETED primitives: the generated definition
// takes the primitives it uses as parameters (`cloneState`, `newGameFromState`, `call`, `getState`, `applyOptions`, `addPlayer`,
// `appendAll`, `mapSet`, `holds`, …) over type parameters (`S` a state pointer, `G` a game object, `E` an error, …), and the
// theorem states, for ALL types and ALL primitives, that it is the reference program of Proofs/GeneratedLogicHop.lean
// (`Hop.backendCall`: clone in, rebuild, the one operation, clone out, error passed through).  By parametricity the equality
// pins the term: `NewGameFromState(gs)` instead of `NewGameFromState(cloneState(gs))` is another term (take a `cloneState`
// that is not the identity — which is what a pointer model does), although on the pointer-free model the two agree
// (that agreement is theorem C07.json_step).  The same file then instantiates the primitives with the model
// (`Game.json`, `Game.step`, `Config.players`, `Game.dealerIdx?`, `Game.seatsFromDealer`).
//
// The group adds these constructs (all syntactic; the two hooks in main.go are delimited by `[group Hop]`; the options live
// in the side table `hopOpts`, so that `spec` itself is unchanged):
//   - `funcs`: a call `f(a, b)` whose printed callee is listed is `(f' a' b')` with translated arguments; the entry `append…`
//     stands for `append(a, b...)`; `getters`: a call `x.M(a)` whose printed callee is listed is `(m' x' a')`;
//   - `methods`: a call statement `g.M(a, b)` whose printed callee is listed, `g` tracked: `g := (m' a' b' g)`;
//   - `objcall`: any method call on the listed tracked object, `err := g.M(a)` / `g.M(a)`: `r := (call' "M" [a'] g)`, `g := r.1`,
//     `err := r.2` — the NAME of the method is data, so that calling another operation changes the definition;
//   - `x = &T{F: a, G: U{H: b}}` (also `:=`, also without `&`) where leaves `x.F`, `x.G.H` are tracked: the assignments
//     `x.F := a'`, `x.G.H := b'` in order, then every other tracked leaf of `x` := its entry in `zero` (a fresh struct);
//     a literal that reads a leaf of the variable it assigns is a translation failure;
//   - a composite literal as an expression, its type listed in `lits` with its fields and their zero values: the tuple of
//     the fields in the listed order (a field left out of the literal: its zero value; an unknown field: failure);
//   - `m[k] = v` with `m` tracked: `m := (mapSet m k' v')`;
//   - `retExpr`: `return a, b` not listed in `returns`: the tuple of the translated results.
package main

import (
	"go/ast"
	"go/token"
	"sort"
	"strings"
)

type hopOpt struct {
	funcs   map[string]string      // printed callee -> Lean function applied to the translated arguments
	getters map[string]string      // printed callee `x.M` -> Lean function applied to the translated receiver `x`, then to the arguments
	methods map[string][2]string   // printed callee -> (tracked receiver, Lean function: arguments, then the receiver)
	objcall map[string]string      // tracked receiver -> Lean function: method name, list of arguments, receiver
	zero    map[string]string      // tracked leaf -> its value in a fresh struct
	lits    map[string][][2]string // type of a composite literal -> (field, zero value) in the order of the tuple
	retExpr bool
}

var hopOpts = map[*spec]*hopOpt{}

func hop(s *spec, o hopOpt) *spec {
	hopOpts[s] = &o
	return s
}

func (t *tr) hopExpr(e ast.Expr) (string, bool) {
	o := hopOpts[t.s]
	if o == nil {
		return "", false
	}
	switch x := e.(type) {
	case *ast.UnaryExpr:
		if cl, ok := x.X.(*ast.CompositeLit); ok && x.Op == token.AND {
			return t.hopLit(o, cl)
		}
	case *ast.CompositeLit:
		return t.hopLit(o, x)
	case *ast.CallExpr:
		name := pr(x.Fun)
		if x.Ellipsis.IsValid() {
			if name != "append" || len(x.Args) != 2 {
				return "", false
			}
			name = "append…"
		}
		if sel, ok := x.Fun.(*ast.SelectorExpr); ok && !x.Ellipsis.IsValid() {
			if f, ok := o.getters[name]; ok {
				out := "(" + f + " " + t.expr(sel.X)
				for _, a := range x.Args {
					out += " " + t.expr(a)
				}
				return out + ")", true
			}
		}
		if f, ok := o.funcs[name]; ok {
			out := "(" + f
			for _, a := range x.Args {
				out += " " + t.expr(a)
			}
			return out + ")", true
		}
	}
	return "", false
}

// hopLit: a composite literal of a type listed in `lits`, as the tuple of its fields.
func (t *tr) hopLit(o *hopOpt, cl *ast.CompositeLit) (string, bool) {
	fields, ok := o.lits[pr(cl.Type)]
	if !ok {
		return "", false
	}
	given := map[string]string{}
	for _, el := range cl.Elts {
		kv, ok := el.(*ast.KeyValueExpr)
		if !ok {
			return "", false
		}
		key, ok := kv.Key.(*ast.Ident)
		if !ok {
			return "", false
		}
		known := false
		for _, f := range fields {
			known = known || f[0] == key.Name
		}
		if _, dup := given[key.Name]; dup || !known {
			return "", false
		}
		given[key.Name] = t.expr(kv.Value)
	}
	var vals []string
	for _, f := range fields {
		if v, ok := given[f[0]]; ok {
			vals = append(vals, v)
		} else {
			vals = append(vals, f[1])
		}
	}
	return "(" + strings.Join(vals, ", ") + ")", true
}

// hopLeaves: the assignments `x.F := a'` a composite literal stands for (nested literals whose fields are tracked are entered).
func (t *tr) hopLeaves(prefix string, cl *ast.CompositeLit, out *[][2]string) bool {
	for _, el := range cl.Elts {
		kv, ok := el.(*ast.KeyValueExpr)
		if !ok {
			return false
		}
		key, ok := kv.Key.(*ast.Ident)
		if !ok {
			return false
		}
		l := prefix + "." + key.Name
		if _, ok := t.s.tracked[l]; ok {
			*out = append(*out, [2]string{l, t.expr(kv.Value)})
			continue
		}
		v := kv.Value
		if u, ok := v.(*ast.UnaryExpr); ok && u.Op == token.AND {
			v = u.X
		}
		in, ok := v.(*ast.CompositeLit)
		if !ok || !t.hopHasLeaves(l) || !t.hopLeaves(l, in, out) {
			t.fail = append(t.fail, "field of a literal that is not tracked: "+l)
			return false
		}
	}
	return true
}

func (t *tr) hopHasLeaves(prefix string) bool {
	for v := range t.s.tracked {
		if strings.HasPrefix(v, prefix+".") {
			return true
		}
	}
	return false
}

func (t *tr) hopStmt(s ast.Stmt, rest []ast.Stmt, k string, own, outer scope, nested func() scope) (string, bool) {
	o := hopOpts[t.s]
	if o == nil {
		return "", false
	}
	lets := func(as [][2]string) string {
		out := t.block(rest, k, own, outer)
		for i := len(as) - 1; i >= 0; i-- {
			out = "(let " + as[i][0] + " := " + as[i][1] + "\n " + out + ")"
		}
		return out
	}
	// recv.M(args) on an object listed in `objcall`: (the Lean term of the call, the receiver)
	objCall := func(e ast.Expr) (string, string, bool) {
		ce, ok := e.(*ast.CallExpr)
		if !ok || ce.Ellipsis.IsValid() {
			return "", "", false
		}
		sel, ok := ce.Fun.(*ast.SelectorExpr)
		if !ok {
			return "", "", false
		}
		recv := pr(sel.X)
		f, ok := o.objcall[recv]
		if _, tracked := t.s.tracked[recv]; !ok || !tracked {
			return "", "", false
		}
		var args []string
		for _, a := range ce.Args {
			args = append(args, t.expr(a))
		}
		return "(" + f + " \"" + sel.Sel.Name + "\" ([" + strings.Join(args, ", ") + "] : List Int) " + leanVar(recv) + ")", recv, true
	}
	switch x := s.(type) {
	case *ast.ReturnStmt:
		if !o.retExpr || len(x.Results) == 0 {
			return "", false
		}
		var ps, es []string
		for _, r := range x.Results {
			ps = append(ps, pr(r))
		}
		p := strings.Join(ps, ", ")
		if _, ok := t.s.returns[p]; ok {
			return "", false
		}
		if _, ok := t.s.tracked[p]; ok {
			return "", false
		}
		for _, r := range x.Results {
			es = append(es, t.expr(r))
		}
		if len(es) == 1 {
			return es[0], true
		}
		return "(" + strings.Join(es, ", ") + ")", true
	case *ast.ExprStmt:
		if ce, ok := x.X.(*ast.CallExpr); ok && !ce.Ellipsis.IsValid() {
			if m, ok := o.methods[pr(ce.Fun)]; ok {
				if _, tracked := t.s.tracked[m[0]]; tracked {
					term := "(" + m[1]
					for _, a := range ce.Args {
						term += " " + t.expr(a)
					}
					return lets([][2]string{{leanVar(m[0]), term + " " + leanVar(m[0]) + ")"}}), true
				}
			}
		}
		if term, recv, ok := objCall(x.X); ok {
			r := leanVar("call." + recv + "." + x.X.(*ast.CallExpr).Fun.(*ast.SelectorExpr).Sel.Name)
			return lets([][2]string{{r, term}, {leanVar(recv), r + ".1"}}), true
		}
	case *ast.AssignStmt:
		if len(x.Lhs) != 1 || len(x.Rhs) != 1 {
			return "", false
		}
		// m[k] = v on a tracked map
		if ix, ok := x.Lhs[0].(*ast.IndexExpr); ok && x.Tok == token.ASSIGN {
			m := pr(ix.X)
			if _, ok := t.s.tracked[m]; !ok {
				return "", false
			}
			val := "(mapSet " + leanVar(m) + " " + t.expr(ix.Index) + " " + t.expr(x.Rhs[0]) + ")"
			return lets([][2]string{{leanVar(m), val}}), true
		}
		if x.Tok != token.ASSIGN && x.Tok != token.DEFINE {
			return "", false
		}
		l := pr(x.Lhs[0])
		// err := g.M(a) on an object listed in `objcall`
		if term, recv, ok := objCall(x.Rhs[0]); ok {
			if _, tracked := t.s.tracked[l]; !tracked {
				return "", false
			}
			if x.Tok == token.DEFINE {
				if outer[l] {
					t.fail = append(t.fail, "shadowing declaration: "+pr(x))
					return "UNTRANSLATED", true
				}
				own[l] = true
			}
			r := leanVar("call." + recv + "." + x.Rhs[0].(*ast.CallExpr).Fun.(*ast.SelectorExpr).Sel.Name)
			return lets([][2]string{{r, term}, {leanVar(recv), r + ".1"}, {leanVar(l), r + ".2"}}), true
		}
		// x = &T{F: a, G: U{H: b}} with tracked leaves x.F, x.G.H
		rhs := x.Rhs[0]
		if u, ok := rhs.(*ast.UnaryExpr); ok && u.Op == token.AND {
			rhs = u.X
		}
		cl, ok := rhs.(*ast.CompositeLit)
		if _, whole := t.s.tracked[l]; !ok || whole || !t.hopHasLeaves(l) {
			return "", false
		}
		var as [][2]string
		if !t.hopLeaves(l, cl, &as) {
			return "UNTRANSLATED", true
		}
		set := map[string]bool{}
		for _, a := range as {
			set[a[0]] = true
			if strings.Contains(a[1], leanVar(l+".")) {
				t.fail = append(t.fail, "literal reads the variable it assigns: "+l)
				return "UNTRANSLATED", true
			}
		}
		var others []string
		for v := range t.s.tracked {
			if strings.HasPrefix(v, l+".") && !set[v] {
				others = append(others, v)
			}
		}
		sort.Strings(others)
		for _, v := range others {
			z, ok := o.zero[v]
			if !ok {
				t.fail = append(t.fail, "no zero value listed for "+v)
				return "UNTRANSLATED", true
			}
			as = append(as, [2]string{v, z})
		}
		for i := range as {
			if x.Tok == token.DEFINE {
				if outer[as[i][0]] {
					t.fail = append(t.fail, "shadowing declaration: "+pr(x))
					return "UNTRANSLATED", true
				}
				own[as[i][0]] = true
			}
			as[i][0] = leanVar(as[i][0])
		}
		return lets(as), true
	}
	return "", false
}

// ---- game.go, player.go, pokerface.go ----

const hopGame = "game.go"
const hopBackend = "table/native_backend.go"

const hopFreshGame = "&game{ players: make(map[int]Player), }"
const hopLoadLoop = "for _, ps := range g.gs.Players"
const hopSettingsLoop = "for idx, p := range opts.Players"
const hopPlayersLoop = "for i := 0; i < playerCount; i++"

// the leaves of `g.gs` that `ApplyOptions` is read on: the modelled fields of Meta (and BurnCount), and the players
var hopMetaLeaves = []string{"Ante", "Blind", "Limit", "HoleCardsCount", "RequiredHoleCardsCount", "CombinationPowers", "Deck", "BurnCount"}

const hopMetaT = "Int × B × String × Int × Int × T × D × Int"

func hopMetaTuple() string {
	var vs []string
	for _, f := range hopMetaLeaves {
		vs = append(vs, leanVar("g.gs.Meta."+f))
	}
	return strings.Join(vs, ", ")
}

// the fields of PlayerState the model has, with their zero values (`AddPlayer` is read on all of them)
var hopPSFields = [][2]string{{"Idx", "(0 : Int)"}, {"Positions", "nilPos"}, {"Acted", "false"}, {"Fold", "false"}, {"AllowedActions", "nilActs"},
	{"Bankroll", "(0 : Int)"}, {"InitialStackSize", "(0 : Int)"}, {"StackSize", "(0 : Int)"}, {"Pot", "(0 : Int)"}, {"Wager", "(0 : Int)"},
	{"HoleCards", "nilCards"}, {"Combination", "nilComb"}}

const hopPST = "Int × P × Bool × Bool × A × Int × Int × Int × Int × Int × H × C"

func init() {
	psTracked := map[string]string{"g.gs.Players": "players0"}
	psZero := map[string]string{}
	var psTuple []string
	for _, f := range hopPSFields {
		psTracked["ps."+f[0]] = f[1]
		psZero["ps."+f[0]] = f[1]
		psTuple = append(psTuple, leanVar("ps."+f[0]))
	}
	ps := "(" + strings.Join(psTuple, ", ") + ")"

	metaTracked := map[string]string{"eff": stepsInit, "g.gs.Players": "players0"}
	metaZero := map[string]string{"g.gs.Players": "nilPlayers"}
	for _, f := range hopMetaLeaves {
		metaTracked["g.gs.Meta."+f] = "meta0." + map[string]string{"Ante": "1", "Blind": "2.1", "Limit": "2.2.1", "HoleCardsCount": "2.2.2.1",
			"RequiredHoleCardsCount": "2.2.2.2.1", "CombinationPowers": "2.2.2.2.2.1", "Deck": "2.2.2.2.2.2.1", "BurnCount": "2.2.2.2.2.2.2"}[f]
	}
	for f, z := range map[string]string{"Ante": "(0 : Int)", "Blind": "zeroBlind", "Limit": "\"\"", "HoleCardsCount": "(0 : Int)",
		"RequiredHoleCardsCount": "(0 : Int)", "CombinationPowers": "nilPowers", "Deck": "nilDeck", "BurnCount": "(0 : Int)"} {
		metaZero["g.gs.Meta."+f] = z
	}
	applyRes := func(last string) string {
		e := "v_eff"
		if last != "" {
			e = step(last)
		}
		return "((" + hopMetaTuple() + "), v_g_gs_Players, " + e + ")"
	}

	add("Hop",
		// NewGame / NewGameFromState: a fresh object, then ApplyOptions / LoadState ON THAT OBJECT, which is returned
		hop(&spec{
			file: hopGame, recv: "", name: "NewGame", leanName: "hopNewGame",
			params: "{O G : Type} (fresh : G) (applyOptions : O → G → G) (opts : O) (g0 : G)", resultType: "G",
			tracked: map[string]string{"g": "g0"},
			exprs:   map[string]string{hopFreshGame: "fresh", "opts": "opts"},
			result:  "v_g",
		}, hopOpt{methods: map[string][2]string{"g.ApplyOptions": {"g", "applyOptions"}}}),
		hop(&spec{
			file: hopGame, recv: "", name: "NewGameFromState", leanName: "hopNewGameFromState",
			params: "{S G : Type} (fresh : G) (loadState : S → G → G) (gs : S) (g0 : G)", resultType: "G",
			tracked: map[string]string{"g": "g0"},
			exprs:   map[string]string{hopFreshGame: "fresh", "gs": "gs"},
			result:  "v_g",
		}, hopOpt{methods: map[string][2]string{"g.LoadState": {"g", "loadState"}}}),
		// GetState returns the pointer it holds; GetStateJSON marshals it
		hop(&spec{
			file: hopGame, recv: "game", name: "GetState", leanName: "hopGetState",
			params: "{S : Type} (gs : S)", resultType: "S",
			tracked: map[string]string{}, exprs: map[string]string{"g.gs": "gs"}, result: "gs",
		}, hopOpt{retExpr: true}),
		hop(&spec{
			file: hopGame, recv: "game", name: "GetStateJSON", leanName: "hopGetStateJSON",
			params: "{S R : Type} (marshal : S → R) (gs : S)", resultType: "R",
			tracked: map[string]string{}, exprs: map[string]string{"g.gs": "gs"}, result: "(marshal gs)",
		}, hopOpt{retExpr: true, funcs: map[string]string{"json.Marshal": "marshal"}}),
		// LoadState: (g.gs at the end, the state whose players the loop ranges over, steps)
		hop(&spec{
			file: hopGame, recv: "game", name: "LoadState", leanName: "hopLoadState",
			params: "{S : Type} (gs0 gs : S)", resultType: "S × S × List String",
			tracked: map[string]string{"g.gs": "gs0", "ranged": "gs0", "eff": stepsInit},
			exprs:   map[string]string{"gs": "gs"},
			multi:   map[string][][2]string{hopLoadLoop + " { … }": {{"ranged", "v_g_gs"}, {"eff", step("addPlayer loop over g.gs.Players")}}},
			returns: map[string]string{"nil": "(v_g_gs, v_ranged, " + step("return nil") + ")"},
			result:  "(v_g_gs, v_ranged, v_eff)",
		}, hopOpt{}),
		hop(&spec{
			file: hopGame, recv: "game", name: "LoadState", leanName: "hopLoadStateStep",
			params: "{PS G : Type} (addPlayer : PS → G → G) (ps : PS) (g : G)", resultType: "G",
			loop: hopLoadLoop, around: []string{"g.gs = gs", "return nil"},
			tracked: map[string]string{"g": "g"}, exprs: map[string]string{"ps": "ps"},
			result: "v_g",
		}, hopOpt{methods: map[string][2]string{"g.addPlayer": {"g", "addPlayer"}}}),
		// ApplyOptions: ((the Meta leaves), g.gs.Players, steps) of a FRESH state (`meta0`, `players0`: what the object held before)
		hop(&spec{
			file: hopGame, recv: "game", name: "ApplyOptions", leanName: "hopApplyOptions",
			params: "{B T D PL : Type} (meta0 : " + hopMetaT + ") (players0 : PL) (zeroBlind : B) (nilPowers : T) (nilDeck emptySlice : D) (nilPlayers emptyPlayers : PL)" +
				" (appendAll : D → D → D) (addLoop : PL → PL)" +
				" (oAnte : Int) (oBlind : B) (oLimit : String) (oHole oRequired : Int) (oPowers : T) (oDeck : D) (deckNotNil : Bool) (oBurn : Int)",
			resultType: "(" + hopMetaT + ") × PL × List String",
			tracked:    metaTracked,
			exprs: map[string]string{"opts.Ante": "oAnte", "opts.Blind": "oBlind", "opts.Limit": "oLimit", "opts.HoleCardsCount": "oHole",
				"opts.RequiredHoleCardsCount": "oRequired", "opts.CombinationPowers": "oPowers", "opts.BurnCount": "oBurn", "opts.Deck": "oDeck",
				"opts.Deck != nil": "deckNotNil", "opts.Deck == nil": "(!deckNotNil)", "make([]*PlayerState, 0)": "emptyPlayers", "[]*PlayerState{}": "emptyPlayers", "[]string{}": "emptySlice",
				"make([]string, 0)": "emptySlice", "nil": "nilDeck"},
			multi: map[string][][2]string{hopSettingsLoop + " { … }": {{"g.gs.Players", "(addLoop v_g_gs_Players)"},
				{"eff", step("AddPlayer loop over opts.Players")}}},
			returns: map[string]string{"nil": applyRes("return nil")},
			result:  applyRes(""),
		}, hopOpt{zero: metaZero, funcs: map[string]string{"append…": "appendAll"}}),
		hop(&spec{
			file: hopGame, recv: "game", name: "ApplyOptions", leanName: "hopApplyOptionsStep",
			params: "{I PSet G : Type} (addPlayerOp : I → PSet → G → G) (idx : I) (p : PSet) (g : G)", resultType: "G",
			loop: hopSettingsLoop, around: []string{"…", "return nil"},
			tracked: map[string]string{"g": "g"}, exprs: map[string]string{"idx": "idx", "p": "p"},
			result: "v_g",
		}, hopOpt{methods: map[string][2]string{"g.AddPlayer": {"g", "addPlayerOp"}}}),
		// AddPlayer: (g.gs.Players, the PlayerState handed to addPlayer)
		hop(&spec{
			file: hopGame, recv: "game", name: "AddPlayer", leanName: "hopAddPlayerSetting",
			params: "{P A H C : Type} (nilPos : P) (nilActs : A) (nilCards : H) (nilComb emptyComb : C) (players0 : List (" + hopPST + "))" +
				" (idx : Int) (positions : P) (bankroll : Int)",
			resultType: "List (" + hopPST + ") × (" + hopPST + ")",
			tracked:    psTracked,
			exprs: map[string]string{"idx": "idx", "setting.Positions": "positions", "setting.Bankroll": "bankroll", "&CombinationInfo{}": "emptyComb",
				"ps": ps, "nil": "nilComb"},
			returns: map[string]string{"g.addPlayer(ps)": "(v_g_gs_Players, " + ps + ")"},
			result:  "(v_g_gs_Players, " + ps + ")",
		}, hopOpt{zero: psZero}),
		// addPlayer: (g.dealer, g.smallBlind, g.bigBlind, g.players) after the call; a player object is (idx, game, state)
		hop(&spec{
			file: hopGame, recv: "game", name: "addPlayer", leanName: "hopAddPlayer",
			params: "{PS Γ M : Type} (self : Γ) (holds : PS → String → Bool) (mapSet : M → Int → Option (Int × Γ × PS) → M) (idxOf : PS → Int)" +
				" (dealer0 sb0 bb0 : Option (Int × Γ × PS)) (players0 : M) (state : PS)",
			resultType: "Option (Int × Γ × PS) × Option (Int × Γ × PS) × Option (Int × Γ × PS) × M",
			tracked: map[string]string{"p.idx": "(0 : Int)", "p.game": "self", "p.state": "state", "g.dealer": "dealer0", "g.smallBlind": "sb0",
				"g.bigBlind": "bb0", "g.players": "players0"},
			exprs: map[string]string{"state.Idx": "(idxOf state)", "g": "self", "state": "state", "p": "(some (v_p_idx, v_p_game, v_p_state))",
				`p.CheckPosition("dealer")`: `(holds v_p_state "dealer")`, `p.CheckPosition("sb")`: `(holds v_p_state "sb")`,
				`p.CheckPosition("bb")`: `(holds v_p_state "bb")`, "g.dealer == nil": "v_g_dealer.isNone", "g.dealer != nil": "v_g_dealer.isSome"},
			returns: map[string]string{"nil": "(v_g_dealer, v_g_smallBlind, v_g_bigBlind, v_g_players)"},
			result:  "(v_g_dealer, v_g_smallBlind, v_g_bigBlind, v_g_players)",
		}, hopOpt{zero: map[string]string{}}),
		// Player(idx), the cached lookups, the count
		hop(&spec{
			file: hopGame, recv: "game", name: "Player", leanName: "hopPlayer",
			params: "{P : Type} (nilP : P) (lookup : Int → P) (idx count : Int)", resultType: "P",
			tracked: map[string]string{},
			exprs:   map[string]string{"idx": "idx", "g.GetPlayerCount()": "count", "g.players[idx]": "(lookup idx)", "nil": "nilP"},
			result:  "nilP",
		}, hopOpt{retExpr: true}),
		hop(&spec{
			file: hopGame, recv: "game", name: "GetPlayerCount", leanName: "hopGetPlayerCount",
			params: "(playersLen : Int)", resultType: "Int",
			tracked: map[string]string{}, exprs: map[string]string{"len(g.gs.Players)": "playersLen"}, result: "playersLen",
		}, hopOpt{retExpr: true}),
		// GetPlayers up to its loop: (players, cur, playerCount); one iteration: (players, cur); the key looked up stands for the object
		hop(&spec{
			file: hopGame, recv: "game", name: "GetPlayers", leanName: "hopGetPlayersInit",
			params: "(count dealerSeat : Int)", resultType: "List Int × Int × Int",
			tracked: map[string]string{"players": "([] : List Int)", "cur": "(-1 : Int)", "playerCount": "(-1 : Int)"},
			exprs: map[string]string{"make([]Player, 0)": "([] : List Int)", "make([]Player, 0, playerCount)": "([] : List Int)",
				"g.GetPlayerCount()": "count", "g.Dealer().SeatIndex()": "dealerSeat"},
			stopAt: hopPlayersLoop + " {", result: "(v_players, v_cur, v_playerCount)",
		}, hopOpt{}),
		hop(&spec{
			file: hopGame, recv: "game", name: "GetPlayers", leanName: "hopGetPlayersStep",
			params: "(players0 : List Int) (cur0 playerCount : Int)", resultType: "List Int × Int",
			loop: hopPlayersLoop, around: []string{"…", "return players"},
			tracked: map[string]string{"players": "players0", "cur": "cur0"},
			exprs:   map[string]string{"playerCount": "playerCount", "g.players[cur]": "v_cur"},
			result:  "(v_players, v_cur)",
		}, hopOpt{}),
		// player.go: State() looks the state up in the game by the player's index; SeatIndex; one iteration of CheckPosition
		hop(&spec{
			file: "player.go", recv: "player", name: "State", leanName: "hopPlayerState",
			params: "{PS : Type} (nilPS : PS) (playerAt : Int → PS) (playersLen idx : Int)", resultType: "PS",
			tracked: map[string]string{},
			exprs:   map[string]string{"len(state.Players)": "playersLen", "p.idx": "idx", "state.Players[p.idx]": "(playerAt idx)", "nil": "nilPS"},
			skip:    []string{"state := p.game.GetState()"},
			result:  "nilPS",
		}, hopOpt{retExpr: true}),
		hop(&spec{
			file: "player.go", recv: "player", name: "SeatIndex", leanName: "hopSeatIndex",
			params: "(idx : Int)", resultType: "Int",
			tracked: map[string]string{}, exprs: map[string]string{"p.idx": "idx"}, result: "idx",
		}, hopOpt{retExpr: true}),
		hop(&spec{
			file: "player.go", recv: "player", name: "CheckPosition", leanName: "hopCheckPositionStep",
			params: "(p pos : String)", resultType: "Bool",
			loop: "for _, p := range p.state.Positions", around: []string{"return false"},
			tracked: map[string]string{}, exprs: map[string]string{"p": "p", "pos": "pos"},
			returns: map[string]string{"true": "true", "false": "false"},
			result:  "false",
		}, hopOpt{}),
		// pokerface.go
		hop(&spec{
			file: "pokerface.go", recv: "pokerface", name: "NewGame", leanName: "hopPfNewGame",
			params: "{O G : Type} (newGame : O → G) (opts : O) (g0 : G)", resultType: "G",
			tracked: map[string]string{"g": "g0"}, exprs: map[string]string{"opts": "opts"},
			skip:   []string{"s := g.GetState()", "s.GameID = uuid.New().String()", "s.CreatedAt = time.Now().Unix()", "s.UpdatedAt = time.Now().UnixNano()"},
			result: "v_g",
		}, hopOpt{funcs: map[string]string{"NewGame": "newGame"}}),
		hop(&spec{
			file: "pokerface.go", recv: "pokerface", name: "NewGameFromState", leanName: "hopPfNewGameFromState",
			params: "{S G : Type} (newGameFromState : S → G) (gs : S)", resultType: "G",
			tracked: map[string]string{}, exprs: map[string]string{"gs": "gs"}, result: "(newGameFromState gs)",
		}, hopOpt{retExpr: true, funcs: map[string]string{"NewGameFromState": "newGameFromState"}}),
	)
	add("Hop",
		// the engine object has no state; the backend holds nothing but the engine
		hop(&spec{
			file: "pokerface.go", recv: "", name: "NewPokerFace", leanName: "hopNewPokerFace",
			params: "", resultType: "Unit", tracked: map[string]string{}, result: "()",
		}, hopOpt{retExpr: true, lits: map[string][][2]string{"pokerface": {}}}),
		hop(&spec{
			file: hopBackend, recv: "", name: "NewNativeBackend", leanName: "hopNewNativeBackend",
			params: "{PF : Type} (newPokerFace nilPF : PF)", resultType: "PF", tracked: map[string]string{}, result: "nilPF",
		}, hopOpt{retExpr: true, lits: map[string][][2]string{"NativeBackend": {{"engine", "nilPF"}}},
			funcs: map[string]string{"pokerface.NewPokerFace": "newPokerFace"}}),
	)
	for _, c := range [][3]string{{"Dealer", "hopDealer", "g.dealer"}, {"SmallBlind", "hopSmallBlind", "g.smallBlind"}, {"BigBlind", "hopBigBlind", "g.bigBlind"}} {
		add("Hop", hop(&spec{
			file: hopGame, recv: "game", name: c[0], leanName: c[1],
			params: "{P : Type} (dealer sb bb : P)", resultType: "P",
			tracked: map[string]string{}, exprs: map[string]string{"g.dealer": "dealer", "g.smallBlind": "sb", "g.bigBlind": "bb"},
			result: "dealer",
		}, hopOpt{retExpr: true}))
	}

	// ---- game_options.go: which expression each field of the options is initialised with ----
	optLits := map[string][][2]string{
		"GameOptions": {{"Ante", "(0 : Int)"}, {"Blind", "((0 : Int), (0 : Int), (0 : Int))"}, {"Limit", "\"\""}, {"HoleCardsCount", "(0 : Int)"},
			{"RequiredHoleCardsCount", "(0 : Int)"}, {"CombinationPowers", "nilT"}, {"Deck", "nilD"}, {"BurnCount", "(0 : Int)"}, {"Players", "nilPL"}},
		"BlindSetting": {{"Dealer", "(0 : Int)"}, {"SB", "(0 : Int)"}, {"BB", "(0 : Int)"}},
	}
	const optT = "Int × (Int × Int × Int) × String × Int × Int × T × D × Int × PL"
	add("Hop",
		hop(&spec{
			file: "game_options.go", recv: "", name: "NewStardardGameOptions", leanName: "hopStandardOptions",
			params: "{T D PL : Type} (powerStandard powerShortDeck nilT : T) (freshDeck nilD : D) (freshPlayers nilPL : PL)", resultType: optT,
			tracked: map[string]string{},
			exprs: map[string]string{"combination.CombinationPowerStandard": "powerStandard", "combination.CombinationPowerShortDeck": "powerShortDeck",
				"make([]string, 0)": "freshDeck", "make([]*PlayerSetting, 0)": "freshPlayers", "[]string{}": "freshDeck", "[]*PlayerSetting{}": "freshPlayers"},
			result: "((0 : Int), ((0 : Int), (0 : Int), (0 : Int)), \"\", (0 : Int), (0 : Int), nilT, nilD, (0 : Int), nilPL)",
		}, hopOpt{retExpr: true, lits: optLits}),
		// NewShortDeckGameOptions: (the options it starts from, the override of their CombinationPowers field)
		hop(&spec{
			file: "game_options.go", recv: "", name: "NewShortDeckGameOptions", leanName: "hopShortDeckOptions",
			params: "{O T : Type} (standardOptions : O) (powerStandard powerShortDeck : T) (opts0 : O)", resultType: "O × Option T",
			tracked: map[string]string{"opts": "opts0", "opts.CombinationPowers": "(none : Option T)"},
			exprs: map[string]string{"combination.CombinationPowerStandard": "(some powerStandard)",
				"combination.CombinationPowerShortDeck": "(some powerShortDeck)"},
			returns: map[string]string{"opts": "(v_opts, v_opts_CombinationPowers)"},
			result:  "(v_opts, v_opts_CombinationPowers)",
		}, hopOpt{funcs: map[string]string{"NewStardardGameOptions": "standardOptions"}}),
	)

	// ---- table/native_backend.go ----
	add("Hop",
		// cloneState: `marshal` / `unmarshal` answer (the value, whether an error is returned); after a failed `Unmarshal` `&state` is
		// still a non-nil pointer (to a partly filled value), so the second test is not redundant; a nil result is `none`
		hop(&spec{
			file: hopBackend, recv: "", name: "cloneState", leanName: "hopCloneState",
			params: "{S J : Type} (marshal : S → J × Bool) (unmarshal : J → S × Bool) (noData : J) (zeroState : S) (gs : S)", resultType: "Option S",
			tracked: map[string]string{"data": "noData", "state": "zeroState", "err": "false"},
			exprs:   map[string]string{"err != nil": "v_err", "err == nil": "(!v_err)"},
			multi: map[string][][2]string{
				"data, err := json.Marshal(gs)":              {{"data", "(marshal gs).1"}, {"err", "(marshal gs).2"}},
				"var state pokerface.GameState":              {{"state", "zeroState"}},
				"err = json.Unmarshal([]byte(data), &state)": {{"state", "(unmarshal v_data).1"}, {"err", "(unmarshal v_data).2"}}},
			returns: map[string]string{"nil": "none", "&state": "(some v_state)", "gs": "(some gs)"},
			result:  "none",
		}, hopOpt{}),
		hop(&spec{
			file: hopBackend, recv: "NativeBackend", name: "getState", leanName: "hopNbGetState",
			params: "{S G : Type} (cloneState : S → S) (getState : G → S) (g : G)", resultType: "S",
			tracked: map[string]string{}, exprs: map[string]string{"g": "g"}, result: "(cloneState (getState g))",
		}, hopOpt{retExpr: true, funcs: map[string]string{"cloneState": "cloneState"}, getters: map[string]string{"g.GetState": "getState"}}),
	)
	const nbParams = "{S G E : Type} (nilS : S) (cloneState : S → S) (newGameFromState : S → G) (call : String → List Int → G → G × Option E) (nbGetState rawState : G → S) (g0 : G)"
	backendSpec := func(name, extra string, exprs map[string]string, funcs map[string]string) *spec {
		return hop(&spec{
			file: hopBackend, recv: "NativeBackend", name: name, leanName: "hopBackend" + name,
			params: nbParams + extra, resultType: "S × Option E",
			tracked: map[string]string{"g": "g0", "err": "(none : Option E)"},
			exprs:   merge(map[string]string{"err != nil": "v_err.isSome", "err == nil": "v_err.isNone", "nil": "none", "err": "v_err", "g": "v_g"}, exprs),
			returns: map[string]string{"nil, err": "(nilS, v_err)", "nil, nil": "(nilS, none)"},
			result:  "(nilS, none)",
		}, hopOpt{retExpr: true, objcall: map[string]string{"g": "call"},
			funcs:   merge(map[string]string{"cloneState": "cloneState", "nb.getState": "nbGetState"}, funcs),
			getters: map[string]string{"g.GetState": "rawState"}})
	}
	add("Hop", backendSpec("CreateGame", " {O : Type} (newGame : O → G) (opts : O)", map[string]string{"opts": "opts"},
		map[string]string{"nb.engine.NewGame": "newGame"}))
	fromState := map[string]string{"nb.engine.NewGameFromState": "newGameFromState"}
	for _, m := range []string{"Next", "ReadyForAll", "Pass", "PayAnte", "PayBlinds", "Fold", "Check", "Call", "Allin"} {
		add("Hop", backendSpec(m, " (gs : S)", map[string]string{"gs": "gs"}, fromState))
	}
	add("Hop",
		backendSpec("Pay", " (gs : S) (chips : Int)", map[string]string{"gs": "gs", "chips": "chips"}, fromState),
		backendSpec("Bet", " (gs : S) (chips : Int)", map[string]string{"gs": "gs", "chips": "chips"}, fromState),
		backendSpec("Raise", " (gs : S) (chipLevel : Int)", map[string]string{"gs": "gs", "chipLevel": "chipLevel"}, fromState),
	)
}
