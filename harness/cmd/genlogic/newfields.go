// Writes to brand-new struct fields are not decision logic.
//
// A harmless feature typically adds a field to a struct (a counter, a timestamp) and statements that only WRITE it
// (`r.stats.opened++`, `t.ts.LastGameStartedAt = time.Now().Unix()`).  To the translator such a statement is unknown, so the
// function becomes untranslatable and every property tied to it reports a broken tie although nothing it reads has changed.
// A field that did not exist when the model was validated (known_fields.txt, recorded from the tree the model was validated
// against, `genlogic -fields <repo>`) cannot be read by any statement the model was validated against either; a NEW read of it
// is itself a change of the function that reads it (its translation changes or fails).  So statements that only write such a
// field, with a right-hand side free of calls (except len / cap / conversions / time.Now().Unix()), are removed from the AST before
// translation, and listed on stdout (the check records them in the evidence).  Everything else about the function must still
// translate and its theorem must still check.
package main

import (
	_ "embed"
	"fmt"
	"go/ast"
	"go/parser"
	"go/token"
	"os"
	"path/filepath"
	"sort"
	"strings"
)

//go:embed known_fields.txt
var knownFieldsTxt string

var knownFields map[string]bool

var ignoredWrites []string

// structFields: "<dir>:<Struct>.<field>" for every struct field declared in the non-test files of dir.
func structFields(root, dir string) map[string]bool {
	out := map[string]bool{}
	files, _ := filepath.Glob(filepath.Join(root, dir, "*.go"))
	for _, f := range files {
		if strings.HasSuffix(f, "_test.go") {
			continue
		}
		af, err := parser.ParseFile(token.NewFileSet(), f, nil, 0)
		if err != nil {
			continue
		}
		ast.Inspect(af, func(n ast.Node) bool {
			ts, ok := n.(*ast.TypeSpec)
			if !ok {
				return true
			}
			st, ok := ts.Type.(*ast.StructType)
			if !ok {
				return true
			}
			for _, fl := range st.Fields.List {
				for _, nm := range fl.Names {
					out[dir+":"+ts.Name.Name+"."+nm.Name] = true
				}
			}
			return true
		})
	}
	return out
}

var modelledDirs = []string{".", "combination", "pot", "settlement", "seat_manager", "regulator", "table", "match"}

func printFields(root string) {
	var all []string
	for _, d := range modelledDirs {
		for k := range structFields(root, d) {
			all = append(all, k)
		}
	}
	sort.Strings(all)
	fmt.Println(strings.Join(all, "\n"))
}

func loadKnown() {
	if knownFields != nil {
		return
	}
	knownFields = map[string]bool{}
	for _, l := range strings.Split(knownFieldsTxt, "\n") {
		if l = strings.TrimSpace(l); l != "" {
			knownFields[l] = true
		}
	}
}

// newFieldNames: names of the fields declared in dir now that were not declared (under any struct of dir) when the model
// was validated.  Judged by NAME within the package: a selector `x.f` is a write to a new field only if no struct of the
// package had a field named f before.
func newFieldNames(root, dir string) map[string]bool {
	loadKnown()
	oldNames := map[string]bool{}
	for k := range knownFields {
		if strings.HasPrefix(k, dir+":") {
			oldNames[k[strings.LastIndexByte(k, '.')+1:]] = true
		}
	}
	out := map[string]bool{}
	for k := range structFields(root, dir) {
		if !knownFields[k] {
			if n := k[strings.LastIndexByte(k, '.')+1:]; !oldNames[n] {
				out[n] = true
			}
		}
	}
	return out
}

func callFree(e ast.Expr) bool {
	ok := true
	ast.Inspect(e, func(n ast.Node) bool {
		ce, is := n.(*ast.CallExpr)
		if !is {
			return true
		}
		switch pr(ce.Fun) {
		case "len", "cap", "int", "int64", "int32", "uint64", "float64", "time.Now().Unix", "time.Now":
			return true
		}
		ok = false
		return false
	})
	return ok
}

// writesOnlyNew: the statement is an assignment / inc / dec all of whose targets are selectors ending in (or passing through) a new field.
func writesOnlyNew(s ast.Stmt, fresh map[string]bool) bool {
	isNew := func(e ast.Expr) bool {
		found := false
		for {
			switch x := e.(type) {
			case *ast.SelectorExpr:
				if fresh[x.Sel.Name] {
					found = true
				}
				e = x.X
				continue
			case *ast.IndexExpr:
				if !callFree(x.Index) {
					return false
				}
				e = x.X
				continue
			case *ast.ParenExpr:
				e = x.X
				continue
			case *ast.StarExpr:
				e = x.X
				continue
			case *ast.Ident:
				return found
			}
			return false
		}
	}
	switch x := s.(type) {
	case *ast.IncDecStmt:
		return isNew(x.X)
	case *ast.AssignStmt:
		if x.Tok == token.DEFINE {
			return false
		}
		for _, l := range x.Lhs {
			if !isNew(l) {
				return false
			}
		}
		for _, r := range x.Rhs {
			if !callFree(r) {
				return false
			}
		}
		return true
	}
	return false
}

func stripList(list []ast.Stmt, fresh map[string]bool, where string) []ast.Stmt {
	out := list[:0:0]
	for _, s := range list {
		if writesOnlyNew(s, fresh) {
			ignoredWrites = append(ignoredWrites, where+": "+pr(s))
			continue
		}
		out = append(out, s)
	}
	return out
}

// stripNewFieldWrites removes, everywhere in the file, the statements that only write fields new to the package.
func stripNewFieldWrites(af *ast.File, root, file string) {
	dir := filepath.Dir(file)
	fresh := newFieldNames(root, dir)
	if len(fresh) == 0 {
		return
	}
	ast.Inspect(af, func(n ast.Node) bool {
		switch x := n.(type) {
		case *ast.BlockStmt:
			x.List = stripList(x.List, fresh, file)
		case *ast.CaseClause:
			x.Body = stripList(x.Body, fresh, file)
		case *ast.CommClause:
			x.Body = stripList(x.Body, fresh, file)
		}
		return true
	})
}

func reportIgnored(outDir string) {
	seen := map[string]bool{}
	var lines []string
	for _, l := range ignoredWrites {
		if !seen[l] {
			seen[l] = true
			lines = append(lines, l)
		}
	}
	sort.Strings(lines)
	os.WriteFile(filepath.Join(outDir, "IgnoredWrites.txt"), []byte(strings.Join(lines, "\n")+"\n"), 0o644)
	for _, l := range lines {
		fmt.Println("genlogic: write to a field new since the model was validated, not part of the decision logic:", l)
	}
}
