#!/usr/bin/env python3
# negative tests of the K1 translated-logic obligations: apply one edit to a scratch copy of the repo,
# regenerate with genlogic, rebuild the four obligation modules, report which modules / theorems break.
# usage: cp -r /repo $SCR; cp -r <lean project> $LW; GENLOGIC=<binary> negtest.py [name-prefix ...]
import subprocess, shutil, re, sys, os
REPO=os.environ.get('REPO','/repo'); SCR=os.environ.get('SCR','/tmp/repo-gen'); LW=os.environ.get('LW','/tmp/lw-gen-neg')
GENLOGIC=os.environ.get('GENLOGIC','/tmp/genlogic-gen')
MODS=['Pokerface.Proofs.GeneratedLogic','Pokerface.Proofs.GeneratedLogicFlow','Pokerface.Proofs.GeneratedLogicSM','Pokerface.Proofs.GeneratedLogicGlue']
ENV=dict(os.environ, GOFLAGS='-mod=mod', GOPROXY='off', GOSUMDB='off', GOTOOLCHAIN='local')
def run(name, file, old, new, count=1):
    src=open(f'{REPO}/{file}').read()
    if old not in src:
        print(f'{name}: PATTERN NOT FOUND'); return
    mut=src.replace(old,new,count)
    open(f'{SCR}/{file}','w').write(mut)
    pkg = './' + os.path.dirname(file) if os.path.dirname(file) else '.'
    c=subprocess.run(['go','build',pkg],cwd=SCR,env=ENV,capture_output=True,text=True)
    compiles = 'compiles' if c.returncode==0 else 'DOES NOT COMPILE: '+c.stderr.strip().splitlines()[-1]
    subprocess.run([GENLOGIC,SCR,f'{LW}/Pokerface/Generated'],check=True)
    r=subprocess.run(['lake','build']+MODS,cwd=LW,capture_output=True,text=True)
    out=r.stdout+r.stderr
    broken=set()
    for m in re.finditer(r'error: Pokerface/Proofs/(GeneratedLogic\w*).lean:(\d+):',out):
        proof=open(f'{LW}/Pokerface/Proofs/{m.group(1)}.lean').read().splitlines()
        ln=int(m.group(2))
        while ln-1 < len(proof) and (proof[ln-1].startswith('/--') or (not re.match(r'\s*(theorem|def|example)\b',proof[ln-1]) and not proof[ln-1].startswith(' '))): ln+=1   # an error at a doc comment belongs to the declaration below
        for k in range(min(ln,len(proof))-1,-1,-1):
            mm=re.match(r'(theorem|def|example)\s*(\S*)',proof[k])
            if mm: broken.add(mm.group(2) if mm.group(1)!='example' else 'example'); break
    gen=sorted(set(re.findall(r'error: Pokerface/Generated/(Logic\w*).lean',out)))
    gen_err = f'{gen} untranslatable (does not compile)' if gen else ''
    failed=sorted(set(re.findall(r'^- (Pokerface\.\S+)',out,re.M)))
    status='CAUGHT' if r.returncode!=0 else 'NOT CAUGHT'
    print(f'{name}: {status} [{compiles}] modules={[f.replace("Pokerface.","") for f in failed]} {gen_err} broken={sorted(broken)}')
    open(f'{SCR}/{file}','w').write(src)
tests=[
 ('pay-allin-threshold','player.go','if p.state.StackSize <= chips {','if p.state.StackSize < chips {'),
 ('pay-raiser-threshold','player.go','if raised >= minRaise {','if raised > minRaise {'),
 ('pay-cw-update','player.go','if gs.Status.CurrentWager < p.state.Wager {','if gs.Status.CurrentWager <= p.state.Wager {'),
 ('call-bb-completion','player.go','if gs.Status.CurrentWager < gs.Meta.Blind.BB {','if gs.Status.CurrentWager <= gs.Meta.Blind.BB {'),
 ('call-order-acted-pay','player.go','p.state.Acted = true\n\n\tp.pay(delta, true)','p.pay(delta, true)\n\n\tp.state.Acted = true'),
 ('call-shadow','player.go','\t\tdelta = gs.Meta.Blind.BB - p.state.Wager','\t\tdelta := gs.Meta.Blind.BB - p.state.Wager\n\t\t_ = delta'),
 ('allin-prev-rule','player.go','if raised >= gs.Status.PreviousRaiseSize {','if raised > gs.Status.PreviousRaiseSize {'),
 ('raise-zero-guard','player.go','if chipLevel == 0 || chipLevel < gs.Status.CurrentWager {','if chipLevel < gs.Status.CurrentWager {'),
 ('raise-allin-conversion','player.go','raised < gs.Status.PreviousRaiseSize {','raised <= gs.Status.PreviousRaiseSize {'),
 ('raise-potlimit-cap','player.go','if raised > maxRaise {','if raised >= maxRaise+1 {'),
 ('raise-required','player.go','required = maxRaise + gs.Status.CurrentWager - p.state.Wager','required = maxRaise - p.state.Wager'),
 ('raise-call-branch','player.go','\tif chipLevel == gs.Status.CurrentWager {\n\t\treturn p.Call()','\tif chipLevel == gs.Status.CurrentWager {\n\t\treturn p.Allin()'),
 ('bet-negative-guard','player.go','if chips < 0 {','if chips < -1 {'),
 ('bet-zero-guard','player.go','if chips < 0 {','if chips <= 0 {'),
 ('bet-recorded-size','player.go','p.game.GetState().Status.PreviousRaiseSize = p.state.Wager','p.game.GetState().Status.PreviousRaiseSize = chips'),
 ('fold-acted','player.go','p.state.DidAction = "fold"\n\tp.state.Acted = true','p.state.DidAction = "fold"'),
 ('pass-guard','player.go','if !p.CheckAction("pass") {\n\t\treturn ErrInvalidAction\n\t}\n',''),
 ('check-guard-wrong-action','player.go','if !p.CheckAction("check") {','if !p.CheckAction("call") {'),
 ('pay-wager-flag','player.go','err := p.pay(chips, true)\n\tif err != nil {\n\t\treturn err\n\t}\n\n\t// Update last action','err := p.pay(chips, false)\n\tif err != nil {\n\t\treturn err\n\t}\n\n\t// Update last action'),
 ('rpa-alive','game.go','if g.GetAlivePlayerCount() == 1 {\n\t\treturn g.EmitEvent(GameEvent_RoundClosed)','if g.GetAlivePlayerCount() == 2 {\n\t\treturn g.EmitEvent(GameEvent_RoundClosed)'),
 ('rpa-acted','game.go','if p.State().Acted {','if !p.State().Acted {'),
 ('rpa-next','game.go','\t// next player\n\tp := g.NextPlayer()','\t// next player\n\tp := g.GetCurrentPlayer()'),
 ('prepareRound-movable','game.go','if g.GetMovablePlayerCount() <= 1 {','if g.GetMovablePlayerCount() == 0 {'),
 ('nextRound-street','game.go','case "turn":\n\t\treturn g.EnterRiverRound()','case "turn":\n\t\treturn g.EnterTurnRound()'),
 ('nextRound-reset-order','game.go','g.ResetRoundStatus()\n\tg.ResetAllPlayerStatus()\n\n\tif','g.ResetAllPlayerStatus()\n\tg.ResetRoundStatus()\n\n\tif'),
 ('next-guard','game.go','if g.gs.Status.CurrentEvent != "RoundClosed" {','if g.gs.Status.CurrentEvent == "RoundStarted" {'),
 ('next-fallthrough','game.go','case "turn":\n\t\tfallthrough\n\tcase "river":\n\t\treturn g.nextRound()','case "turn":\n\t\treturn nil\n\tcase "river":\n\t\treturn g.nextRound()'),
 ('startRound-loop-body','game.go','if p.CheckPosition("bb") {\n\t\t\t\tg.SetCurrentPlayer(g.NextPlayer())','if p.CheckPosition("sb") {\n\t\t\t\tg.SetCurrentPlayer(g.NextPlayer())'),
 ('startRound-movable','game.go','if g.GetMovablePlayerCount() == 0 {\n\t\t\treturn','if g.GetMovablePlayerCount() <= 1 {\n\t\t\treturn'),
 ('initializeRound-flop-count','game.go','g.Deal(3)...)','g.Deal(2)...)'),
 ('initializeRound-no-burn','game.go','case "flop":\n\n\t\tg.Burn(1)\n','case "flop":\n'),
 ('onReadiness','event.go','if len(g.gs.Status.Round) == 0 {','if len(g.gs.Status.Round) != 0 {'),
 ('onPrepared-ante','event.go','if g.gs.Meta.Ante > 0 {','if g.gs.Meta.Ante >= 0 {'),
 ('onRoundInitialized','event.go','if g.gs.Status.Round == "preflop" {\n\t\t// Request blinds','if g.gs.Status.Round == "flop" {\n\t\t// Request blinds'),
 ('onRoundClosed-no-pots','event.go','\tg.ResetAllPlayerAllowedActions()\n\n\t// Update pots\n\terr := g.updatePots()\n\tif err != nil {\n\t\treturn err\n\t}\n\n\treturn nil','\tg.ResetAllPlayerAllowedActions()\n\n\treturn nil'),
 ('onBlindsPaid-chain','event.go','func (g *game) onBlindsPaid() error {\n\treturn g.PrepareRound()','func (g *game) onBlindsPaid() error {\n\treturn g.StartRound()'),
 ('start-guard-order','game.go','\tif g.GetPlayerCount() < 2 {\n\t\treturn ErrInsufficientNumberOfPlayers\n\t}\n\n\t// Require dealer\n\tif g.dealer == nil {\n\t\treturn ErrNoDealer\n\t}','\tif g.dealer == nil {\n\t\treturn ErrNoDealer\n\t}\n\n\tif g.GetPlayerCount() < 2 {\n\t\treturn ErrInsufficientNumberOfPlayers\n\t}'),
 ('start-bankroll-loop','game.go','if p.Bankroll <= 0 {','if p.Bankroll < 0 {'),
 ('start-min-players','game.go','if g.GetPlayerCount() < 2 {','if g.GetPlayerCount() < 3 {'),
 ('initialize-minibet','game.go','if g.gs.Meta.Blind.Dealer > g.gs.Meta.Blind.BB {','if g.gs.Meta.Blind.Dealer < g.gs.Meta.Blind.BB {'),
 ('requestBlinds','game.go','g.gs.Meta.Blind.Dealer == 0 && g.gs.Meta.Blind.SB == 0 && g.gs.Meta.Blind.BB == 0','g.gs.Meta.Blind.Dealer == 0 && g.gs.Meta.Blind.SB == 0'),
 ('availableActions-raise','game.go','if ps.InitialStackSize > g.gs.Status.CurrentWager+g.gs.Status.PreviousRaiseSize {','if ps.InitialStackSize >= g.gs.Status.CurrentWager+g.gs.Status.PreviousRaiseSize {'),
 ('sm-join-range','seat_manager/seat_manager.go','if seatID >= sm.max || seatID < -1 {','if seatID > sm.max || seatID < -1 {'),
 ('sm-join-specific','seat_manager/seat_manager.go','if seatID > -1 {','if seatID > 0 {'),
 ('sm-join-pool','seat_manager/seat_manager.go','if len(s) > 0 {','if len(s) > 1 {'),
 ('sm-join-rand','seat_manager/seat_manager.go','return sm.join(s[rand.Intn(len(s)-1)], p)','return sm.join(s[rand.Intn(len(s))], p)'),
 ('sm-joinAt-occupied','seat_manager/seat_manager.go','\tif s.Player != nil {\n\t\treturn -1, ErrNotAvailable\n\t}\n\n\ts.IsReserved = true','\ts.IsReserved = true'),
 ('sm-joinAt-reserved','seat_manager/seat_manager.go','\ts.IsReserved = true\n\ts.Player = p','\ts.Player = p'),
 ('sm-leave-unreserve','seat_manager/seat_manager.go','\ts.Player = nil\n\ts.IsReserved = false','\ts.Player = nil'),
 ('sm-leave-empty','seat_manager/seat_manager.go','\tif s.Player == nil {\n\t\treturn ErrEmptySeat\n\t}\n',''),
 ('sm-seat','seat_manager/seat_manager.go','seat.IsReserved = false\n','seat.IsReserved = true\n'),
 ('sm-next-playable','seat_manager/seat_manager.go','if sm.getPlayableSeatCount() < 2 {','if sm.getPlayableSeatCount() < 1 {'),
 ('sm-next-order','seat_manager/seat_manager.go','\tif sm.nextDealer() == nil {\n\t\treturn ErrInsufficientNumberOfPlayers\n\t}\n',''),
 ('readyForAll-guard','action.go','if g.gs.Status.CurrentEvent != "ReadyRequested" {','if g.gs.Status.CurrentEvent == "GameClosed" {'),
 ('readyForAll-reset','action.go','\tg.ResetAllPlayerAllowedActions()\n\n\treturn g.EmitEvent(GameEvent_Readiness)','\treturn g.EmitEvent(GameEvent_Readiness)'),
 ('gamePayAnte-guard','action.go','if g.gs.Meta.Ante == 0 {','if g.gs.Meta.Ante < 0 {'),
 ('gamePayAnte-loop','action.go','err := p.PayAnte()\n\t\tif err != nil {\n\t\t\treturn err\n\t\t}','p.PayAnte()'),
 ('gamePayBlinds-prev','action.go','if g.gs.Meta.Blind.BB > 0 {','if g.gs.Meta.Blind.BB > 1 {'),
 ('gamePayBlinds-prev-value','action.go','g.gs.Status.PreviousRaiseSize = g.gs.Meta.Blind.BB','g.gs.Status.PreviousRaiseSize = g.gs.Meta.Blind.SB'),
 ('onAntePaid-order','event.go','\tg.ResetAllPlayerStatus()\n\tg.ResetRoundStatus()\n\n\treturn g.EnterPreflopRound()','\tg.ResetRoundStatus()\n\tg.ResetAllPlayerStatus()\n\n\treturn g.EnterPreflopRound()'),
 ('onSettlementRequested','event.go','\t// Calculate results with ranks\n\terr = g.CalculateGameResults()\n\tif err != nil {\n\t\treturn err\n\t}\n',''),
 ('resetRoundStatus-cw','game.go','g.gs.Status.CurrentWager = 0\n','g.gs.Status.CurrentWager = g.gs.Status.MiniBet\n'),
 ('resetRoundStatus-cur','game.go','g.gs.Status.CurrentPlayer = g.gs.Status.CurrentRaiser','g.gs.Status.CurrentPlayer = 0'),
 ('becomeRaiser-order','game.go','\tg.ResetActedPlayers()\n\tp.State().Acted = true','\tp.State().Acted = true\n\tg.ResetActedPlayers()'),
 ('playerPayAnte-paid','player.go','if p.State().Wager > 0 {','if p.State().Wager >= 0 {'),
 ('playerPayAnte-flag','player.go','err := p.pay(gs.Meta.Ante, false)','err := p.pay(gs.Meta.Ante, true)'),
 ('playerPayBlinds-priority','player.go','if gs.Meta.Blind.BB > 0 && p.CheckPosition("bb") {\n\t\tchips = gs.Meta.Blind.BB','if gs.Meta.Blind.BB > 0 && p.CheckPosition("sb") {\n\t\tchips = gs.Meta.Blind.BB'),
 ('playerPayBlinds-cap','player.go','if p.State().StackSize < chips {\n\t\tchips = p.State().StackSize\n\t}\n\n\terr := p.pay(chips, true)','err := p.pay(chips, true)'),
 ('alive-step','game.go','\t\tif p.Fold {\n\t\t\taliveCount--','\t\tif !p.Fold {\n\t\t\taliveCount--'),
 ('alive-init','game.go','aliveCount := g.GetPlayerCount()','aliveCount := g.GetPlayerCount() - 1'),
 ('movable-step','game.go','if p.Fold || p.StackSize == 0 {','if p.Fold && p.StackSize == 0 {'),
 ('resetActed-step','game.go','\t\tps.Acted = false\n\t}\n\n\treturn nil\n}\n\nfunc (g *game) RequestPlayerAction','\t\tps.Acted = true\n\t}\n\n\treturn nil\n}\n\nfunc (g *game) RequestPlayerAction'),
 ('resetStatus-pot','game.go','ps.Pot += ps.Wager\n\t\tps.Wager = 0','ps.Wager = 0\n\t\tps.Pot += ps.Wager'),
 ('resetStatus-initial','game.go','ps.InitialStackSize = ps.StackSize','ps.InitialStackSize = ps.Bankroll'),
 ('player-reset','player.go','\tp.state.Acted = false\n\treturn p.ResetAllowedActions()','\treturn p.ResetAllowedActions()'),
 ('nextPlayer-wrap','game.go','\t\tif cur == playerCount {\n\t\t\tcur = 0\n\t\t}\n\n\t\tp := g.gs.Players[cur]','\t\tif cur >= playerCount-1 {\n\t\t\tcur = 0\n\t\t}\n\n\t\tp := g.gs.Players[cur]'),
 ('nextPlayer-start','game.go','cur := g.gs.Status.CurrentPlayer\n\tplayerCount','cur := g.gs.Status.CurrentRaiser\n\tplayerCount'),
 ('scp-no-clear','game.go','\tif g.gs.Status.CurrentPlayer != -1 {\n\t\t// Clear allowed actions of current player\n\t\tg.GetCurrentPlayer().ResetAllowedActions()\n\t}\n',''),
 ('scp-order','game.go','\tif g.gs.Status.CurrentPlayer != -1 {\n\t\t// Clear allowed actions of current player\n\t\tg.GetCurrentPlayer().ResetAllowedActions()\n\t}\n\n\terr := g.setCurrentPlayer(p)\n\tif err != nil {\n\t\treturn err\n\t}\n','\terr := g.setCurrentPlayer(p)\n\tif err != nil {\n\t\treturn err\n\t}\n\n\tif g.gs.Status.CurrentPlayer != -1 {\n\t\tg.GetCurrentPlayer().ResetAllowedActions()\n\t}\n'),
 ('scp-field','game.go','g.gs.Status.CurrentPlayer = p.SeatIndex()','g.gs.Status.CurrentPlayer = p.SeatIndex() + 1'),
 ('getAllowed','game.go','if g.gs.Status.CurrentPlayer == p.SeatIndex() {','if g.gs.Status.CurrentPlayer != p.SeatIndex() {'),
 ('trigger-swap','event.go','case GameEvent_RoundStarted:\n\t\treturn g.onRoundStarted()','case GameEvent_RoundStarted:\n\t\treturn g.onRoundPrepared()'),
 ('trigger-missing','event.go','\tcase GameEvent_RoundClosed:\n\t\treturn g.onRoundClosed()\n',''),
 ('emit-no-record','event.go','\tg.gs.Status.CurrentEvent = GameEventSymbols[event]\n',''),
 ('resume-guard','game.go','if len(g.gs.Status.CurrentEvent) > 0 {','if len(g.gs.Status.CurrentEvent) > 20 {'),
 ('onReadyRequested','event.go','func (g *game) onReadyRequested() error {\n\treturn nil','func (g *game) onReadyRequested() error {\n\treturn g.EmitEvent(GameEvent_Readiness)'),
 ('game-call-wrapper','action.go','return g.GetCurrentPlayer().Call()','return g.Dealer().Call()'),
 ('enterFlop','game.go','g.gs.Status.Round = "flop"\n\treturn g.EmitEvent(GameEvent_FlopRoundEntered)','g.gs.Status.Round = "flop"\n\treturn g.EmitEvent(GameEvent_TurnRoundEntered)'),
 # ---- group Glue: settlement.go CalculateGameResults, pot.go updatePots, power.go UpdateCombinationOfAllPlayers ----
 ('cgr-fold-scored-with-power','settlement.go','r.UpdateScore(p.Idx, 0)\n\t\t\tcontinue','r.UpdateScore(p.Idx, p.Combination.Power)\n\t\t\tcontinue'),
 ('cgr-fold-no-continue','settlement.go','r.UpdateScore(p.Idx, 0)\n\t\t\tcontinue','r.UpdateScore(p.Idx, 0)'),
 ('cgr-fold-cond-flipped','settlement.go','\t\tif p.Fold {\n\t\t\tr.UpdateScore','\t\tif !p.Fold {\n\t\t\tr.UpdateScore'),
 ('cgr-fold-not-scored','settlement.go','\t\t\tr.UpdateScore(p.Idx, 0)\n\t\t\tcontinue','\t\t\tcontinue'),
 ('cgr-bankroll-other-field','settlement.go','r.AddPlayer(p.Idx, p.Bankroll)','r.AddPlayer(p.Idx, p.StackSize)'),
 ('cgr-bankroll-initial','settlement.go','r.AddPlayer(p.Idx, p.Bankroll)','r.AddPlayer(p.Idx, p.InitialStackSize)'),
 ('cgr-bankroll-plus-stack','settlement.go','r.AddPlayer(p.Idx, p.Bankroll)','r.AddPlayer(p.Idx, p.Bankroll+p.Pot)'),
 ('cgr-score-wrong-idx','settlement.go','r.UpdateScore(p.Idx, p.Combination.Power)','r.UpdateScore(0, p.Combination.Power)'),
 ('cgr-score-negated','settlement.go','r.UpdateScore(p.Idx, p.Combination.Power)','r.UpdateScore(p.Idx, -p.Combination.Power)'),
 ('cgr-add-after-score','settlement.go','\t\tr.AddPlayer(p.Idx, p.Bankroll)\n\n\t\t// No score if player fold already\n\t\tif p.Fold {\n\t\t\tr.UpdateScore(p.Idx, 0)\n\t\t\tcontinue\n\t\t}\n','\t\tif p.Fold {\n\t\t\tr.UpdateScore(p.Idx, 0)\n\t\t\tcontinue\n\t\t}\n\t\tr.AddPlayer(p.Idx, p.Bankroll)\n'),
 ('cgr-pot-wager-as-total','settlement.go','r.AddPot(pot.Total, pot.Levels)','r.AddPot(pot.Wager, pot.Levels)'),
 ('cgr-pot-no-levels','settlement.go','r.AddPot(pot.Total, pot.Levels)','r.AddPot(pot.Total, nil)'),
 ('cgr-pots-skip-first','settlement.go','for _, pot := range g.gs.Status.Pots {','for _, pot := range g.gs.Status.Pots[1:] {'),
 ('cgr-no-calculate','settlement.go','\tr.Calculate()\n',''),
 ('cgr-result-not-stored','settlement.go','\tg.gs.Result = r\n','\t_ = r\n'),
 ('cgr-players-before-pots','settlement.go','\tfor _, pot := range g.gs.Status.Pots {\n\t\tr.AddPot(pot.Total, pot.Levels)\n\t}\n','',),
 ('up-pot-without-wager','pot.go','ll.AddContributor(p.Pot+p.Wager, p.Idx, p.Fold)','ll.AddContributor(p.Pot, p.Idx, p.Fold)'),
 ('up-wager-without-pot','pot.go','ll.AddContributor(p.Pot+p.Wager, p.Idx, p.Fold)','ll.AddContributor(p.Wager, p.Idx, p.Fold)'),
 ('up-pot-minus-wager','pot.go','ll.AddContributor(p.Pot+p.Wager, p.Idx, p.Fold)','ll.AddContributor(p.Pot-p.Wager, p.Idx, p.Fold)'),
 ('up-fold-flag-dropped','pot.go','ll.AddContributor(p.Pot+p.Wager, p.Idx, p.Fold)','ll.AddContributor(p.Pot+p.Wager, p.Idx, false)'),
 ('up-fold-flag-acted','pot.go','ll.AddContributor(p.Pot+p.Wager, p.Idx, p.Fold)','ll.AddContributor(p.Pot+p.Wager, p.Idx, p.Acted)'),
 ('up-skip-folded','pot.go','\t\tll.AddContributor(p.Pot+p.Wager, p.Idx, p.Fold)','\t\tif p.Fold {\n\t\t\tcontinue\n\t\t}\n\t\tll.AddContributor(p.Pot+p.Wager, p.Idx, p.Fold)'),
 ('up-pots-appended','pot.go','g.gs.Status.Pots = ll.GetPots()','g.gs.Status.Pots = append(g.gs.Status.Pots, ll.GetPots()...)'),
 ('up-players-from-dealer','pot.go','for _, p := range g.gs.Players {\n\t\tll.AddContributor','for _, p := range g.gs.Players[1:] {\n\t\tll.AddContributor'),
 ('uc-cards-not-updated','power.go','\t\tp.Combination.Cards = make([]string, 0)\n\t\tfor _, c := range ps.Cards {\n\t\t\tp.Combination.Cards = append(p.Combination.Cards, c.ToString())\n\t\t}\n',''),
 ('uc-cards-only-cleared','power.go','\t\tfor _, c := range ps.Cards {\n\t\t\tp.Combination.Cards = append(p.Combination.Cards, c.ToString())\n\t\t}\n',''),
 ('uc-cards-not-fresh','power.go','\t\tp.Combination.Cards = make([]string, 0)\n',''),
 ('uc-cards-loop-body','power.go','p.Combination.Cards = append(p.Combination.Cards, c.ToString())','p.Combination.Cards = append(p.Combination.Cards, c.Suit)'),
 ('uc-power-from-category','power.go','p.Combination.Power = int(ps.Score)','p.Combination.Power = int(ps.Combination)'),
 ('uc-type-from-score','power.go','combination.CombinationSymbol[ps.Combination]','combination.CombinationSymbol[combination.Combination(ps.Score)]'),
 ('uc-power-not-updated','power.go','\t\tp.Combination.Power = int(ps.Score)\n',''),
 ('uc-type-not-updated','power.go','\t\tp.Combination.Type = combination.CombinationSymbol[ps.Combination]\n',''),
 ('uc-power-before-guard','power.go','\t\tif p.Combination == nil {\n\t\t\tcontinue\n\t\t}\n','\t\tif p.Combination == nil {\n\t\t\tp.Combination = &CombinationInfo{}\n\t\t}\n'),
 ('uc-guard-flipped','power.go','if p.Combination == nil {\n\t\t\tcontinue','if p.Combination != nil {\n\t\t\tcontinue'),
 ('uc-power-source','power.go','ps := g.CalculatePlayerPower(p)\n','ps := g.CalculateCombinationPower(p.HoleCards)\n'),
 ('uc-power-source-other-player','power.go','ps := g.CalculatePlayerPower(p)\n','ps := g.CalculatePlayerPower(g.gs.Players[0])\n'),
 ('CONTROL-glue-comments','settlement.go','\t\tr.AddPlayer(p.Idx, p.Bankroll)\n','\t\t// the stack the player brought\n\t\tr.AddPlayer(p.Idx,\n\t\t\tp.Bankroll)\n\n\n'),
 ('CONTROL-loop-comments','game.go','\t\t\tp := g.NextPlayer()\n\n\t\t\tif p.CheckPosition("bb") {','\t\t\t// walk\n\n\n\t\t\tp := g.NextPlayer()\n\t\t\tif p.CheckPosition("bb") { // found'),
 ('CONTROL-harmless-format','player.go','\tdelta := gs.Status.CurrentWager - p.state.Wager\n','\t// the amount to add\n\tdelta := gs.Status.CurrentWager -\n\t\tp.state.Wager\n\n'),
]
sel=sys.argv[1:]
for t in tests:
    if not sel or t[0] in sel or any(t[0].startswith(x) for x in sel): run(*t)
subprocess.run([GENLOGIC,REPO,f'{LW}/Pokerface/Generated'],check=True)
