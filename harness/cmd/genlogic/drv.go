// Group "Drv": the table's DRIVER of a hand — table/game.go — translated into Generated/LogicDrv.lean; obligations in
// Proofs/GeneratedLogicDrv.lean (`drvHandleState_eq`, `drvBlindsParticipant_eq`, `drvUpdateState_eq`, `drvWrapper<Name>_eq`,
// `drvPay_eq`, `drv<Shortcut>_eq`, `drvFire_eq`, …), model Model/TableDriver.lean.  Negative test: negtest_drv.py.
//
// Readings (all in the per-function tables below):
//   - `handleState` is read as the list of steps it takes under (event, ante, does `backend.Next` fail): every call with an
//     effect is one step pinned by its printed form (so `g.backend.Next(g.gs)` instead of `g.backend.Next(gs)` is unknown), the
//     three `OnCompleted` callbacks are pinned with their bodies; the loops over the players stand as the step `playersLoop`
//     and are translated, clause by clause, as a function of one iteration (`drvReadyStep`, `drvAnteStep`, `drvBlindsStep`:
//     what is added to the ready group, which mark the player gets); `drvFire` reads the same switch for the callback alone;
//   - `updateState` is read as (g.gs, what was sent on g.incomingStates) over an uninterpreted `cloneState`;
//   - the wrappers, the shortcuts and `Start` are about WHICH state an operation is applied to and WHICH operation it is, so
//     they are programs over uninterpreted primitives as in group Hop (`isNilS`, `getPlayer`, `hasAction`, `eventOf`,
//     `rgReady`, `backendCall "<Name>" state args`, `updateState`): the NAME of the backend method and of the tested action
//     are data.  The theorems state the equality with a reference program for ALL primitives and then with
//     `Drv.call` / `Drv.callBackend` on the model.
//
// The group adds these constructs (hooks in main.go delimited by `[group Drv]`; options in the side table `drvOpts`):
//   - `clause`: the statements translated are the body of the clause `case <clause>:` of the function's one top-level
//     `switch` (then `loop` / `around` select the loop of that clause);
//   - a `break` inside a `switch` (at any depth of `if`) continues after the switch;
//   - `backend`: `gs, err := g.backend.M(a, b…)` is `call := (backendCall "M" a' [b'…])`; `gs` / `err` are then read through the
//     expression table as `v_call.1` / `v_call.2` (a use before the call does not type-check);
//   - `ch <- x` with `ch` tracked: `ch := ch ++ [x']`;
//   - the constructs of group Hop that are driven by `hopOpts` (`methods`, `getters`, `funcs`) are available.
package main

import (
	"go/ast"
	"go/token"
	"strings"
)

type drvOpt struct {
	clause  string // printed case expression of the clause of the top-level switch whose body is translated
	backend bool   // read `gs, err := g.backend.M(…)`
}

var drvOpts = map[*spec]*drvOpt{}

// the continuations of the enclosing `switch` statements of the block being translated (innermost last)
var drvBreak = map[*tr][]string{}

func drv(s *spec, o drvOpt, h hopOpt) *spec {
	drvOpts[s] = &o
	hopOpts[s] = &h
	return s
}

func (t *tr) drvExpr(e ast.Expr) (string, bool) {
	return t.hopExpr(e)
}

// drvSelect: the body of the clause `case <clause>:` of the one top-level switch.
func (t *tr) drvSelect(stmts []ast.Stmt) []ast.Stmt {
	o := drvOpts[t.s]
	if o == nil || o.clause == "" {
		return stmts
	}
	var found [][]ast.Stmt
	switches := 0
	for _, st := range stmts {
		sw, ok := st.(*ast.SwitchStmt)
		if !ok {
			continue
		}
		switches++
		for _, c := range sw.Body.List {
			cc := c.(*ast.CaseClause)
			if len(cc.List) == 1 && pr(cc.List[0]) == o.clause {
				found = append(found, cc.Body)
			}
		}
	}
	if switches != 1 || len(found) != 1 {
		t.fail = append(t.fail, "clause not found (or not unique): "+o.clause)
		return []ast.Stmt{&ast.BadStmt{}}
	}
	return found[0]
}

func (t *tr) drvStmt(s ast.Stmt, rest []ast.Stmt, k string, own, outer scope, nested func() scope) (string, bool) {
	o := drvOpts[t.s]
	if o == nil {
		return "", false
	}
	switch x := s.(type) {
	case *ast.SendStmt:
		ch := pr(x.Chan)
		if _, ok := t.s.tracked[ch]; !ok {
			return "", false
		}
		return "(let " + leanVar(ch) + " := (" + leanVar(ch) + " ++ [" + t.expr(x.Value) + "])\n " + t.block(rest, k, own, outer) + ")", true
	case *ast.BranchStmt:
		if st := drvBreak[t]; x.Tok == token.BREAK && x.Label == nil && len(st) > 0 {
			return st[len(st)-1], true
		}
	case *ast.AssignStmt:
		if !o.backend || x.Tok != token.DEFINE || len(x.Lhs) != 2 || len(x.Rhs) != 1 || pr(x.Lhs[0]) != "gs" || pr(x.Lhs[1]) != "err" {
			break
		}
		ce, ok := x.Rhs[0].(*ast.CallExpr)
		if !ok || ce.Ellipsis.IsValid() || len(ce.Args) < 1 {
			break
		}
		sel, ok := ce.Fun.(*ast.SelectorExpr)
		if !ok || pr(sel.X) != "g.backend" {
			break
		}
		var args []string
		for _, a := range ce.Args[1:] {
			args = append(args, t.expr(a))
		}
		term := "(backendCall \"" + sel.Sel.Name + "\" " + t.expr(ce.Args[0]) + " ([" + strings.Join(args, ", ") + "] : List Int))"
		return "(let v_call := " + term + "\n " + t.block(rest, k, own, outer) + ")", true
	case *ast.SwitchStmt:
		// as in main.go, with the continuation remembered for `break`
		if x.Init != nil {
			return "", false
		}
		tag := ""
		if x.Tag != nil {
			tag = t.expr(x.Tag)
		}
		in := nested()
		cont := t.block(rest, k, own, outer)
		drvBreak[t] = append(drvBreak[t], cont)
		defer func() { drvBreak[t] = drvBreak[t][:len(drvBreak[t])-1] }()
		clauses := x.Body.List
		bodyOf := func(i int) ([]ast.Stmt, bool) {
			var body []ast.Stmt
			for ; i < len(clauses); i++ {
				b := clauses[i].(*ast.CaseClause).Body
				if n := len(b); n > 0 {
					if br, ok := b[n-1].(*ast.BranchStmt); ok && br.Tok == token.FALLTHROUGH {
						body = append(body, b[:n-1]...)
						continue
					}
				}
				return append(body, b...), true
			}
			return nil, false
		}
		out, closing := "", ""
		deflt := cont
		for i, c := range clauses {
			cc := c.(*ast.CaseClause)
			body, ok := bodyOf(i)
			if !ok {
				t.fail = append(t.fail, "fallthrough out of the switch: "+tag)
				return "UNTRANSLATED", true
			}
			b := t.block(body, cont, scope{}, in.inner())
			if cc.List == nil {
				deflt = b
				continue
			}
			var alts []string
			for _, e := range cc.List {
				if x.Tag == nil {
					alts = append(alts, "("+t.expr(e)+")")
				} else {
					alts = append(alts, "("+tag+" == "+t.expr(e)+")")
				}
			}
			out += "(if " + strings.Join(alts, " || ") + " then\n " + b + "\n else\n "
			closing += ")"
		}
		return out + deflt + closing, true
	}
	return t.hopStmt(s, rest, k, own, outer, nested)
}

const drvFile = "table/game.go"

const drvPlayersLoop = "for _, p := range gs.Players"

func drvOnCompleted(name string) string {
	return "g.rg.OnCompleted(func(rg *syncsaga.ReadyGroup) { g." + name + "() })"
}

// the primitives the wrappers, the shortcuts and Start are programs over
const drvPrims = "{S P G E : Type} (errNoRunningGame errPlayerNotInGame errInvalidAction : E) (isNilS : S → Bool) (getPlayer : S → Int → P) (nilP : P) (isNilP : P → Bool)" +
	" (hasAction : S → Int → String → Bool) (eventOf : S → String) (rgIsNil : G → Bool) (rgReady : Int → G → G)" +
	" (backendCall : String → S → List Int → S × Option E) (updateState : S → G → G) (held : S) (g0 : G)"

func init() {
	steps1 := func(m map[string]string) map[string][][2]string {
		out := map[string][][2]string{}
		for k, v := range m {
			out[k] = [][2]string{{"eff", step(v)}}
		}
		return out
	}
	add("Drv",
		// handleState: the steps taken
		drv(&spec{
			file: drvFile, recv: "game", name: "handleState", leanName: "drvHandleState",
			params: "(event : String) (ante : Int) (nextFails : Bool)", resultType: stepsT,
			tracked: map[string]string{"eff": stepsInit},
			exprs:   map[string]string{"gs.Status.CurrentEvent": "event", "gs.Meta.Ante": "ante", "err != nil": "nextFails", "err == nil": "(!nextFails)"},
			skip:    []string{"fmt.Println("}, // debug output
			multi: steps1(map[string]string{
				"g.Close()":                     "Close",
				"gs, err := g.backend.Next(gs)": "backend.Next(gs)",
				"g.updateState(gs)":             "updateState(gs)",
				"g.rg.Stop()":                   "rg.Stop",
				drvOnCompleted("ReadyForAll"):   "rg.OnCompleted(ReadyForAll)",
				drvOnCompleted("PayAnte"):       "rg.OnCompleted(PayAnte)",
				drvOnCompleted("PayBlinds"):     "rg.OnCompleted(PayBlinds)",
				"g.rg.ResetParticipants()":      "rg.ResetParticipants",
				drvPlayersLoop + " { … }":       "playersLoop",
				"g.rg.Start()":                  "rg.Start",
				"g.onStateUpdated(gs)":          "onStateUpdated(gs)",
			}),
			returns: map[string]string{"": step("return")},
			result:  "v_eff",
		}, drvOpt{}, hopOpt{}),
		// handleState: the callback each event's ready group is given
		drv(&spec{
			file: drvFile, recv: "game", name: "handleState", leanName: "drvFire",
			params: "(event : String) (ante : Int)", resultType: "Option String",
			tracked: map[string]string{"fire": "(none : Option String)"},
			exprs:   map[string]string{"gs.Status.CurrentEvent": "event", "gs.Meta.Ante": "ante"},
			skip: []string{"g.Close()", "gs, err := g.backend.Next(gs)", "if err != nil {", "g.updateState(gs)", "g.rg.Stop()", "g.rg.ResetParticipants()",
				drvPlayersLoop + " {", "g.rg.Start()", "g.onStateUpdated(gs)"},
			multi: map[string][][2]string{
				drvOnCompleted("ReadyForAll"): {{"fire", "(some \"ReadyForAll\")"}},
				drvOnCompleted("PayAnte"):     {{"fire", "(some \"PayAnte\")"}},
				drvOnCompleted("PayBlinds"):   {{"fire", "(some \"PayBlinds\")"}},
			},
			result: "v_fire",
		}, drvOpt{}, hopOpt{}),
	)
	// handleState: one iteration of the loop over the players of each request event: (what is added to the group, the mark)
	for _, c := range [][2]string{{"ReadyRequested", "drvReadyStep"}, {"AnteRequested", "drvAnteStep"}, {"BlindsRequested", "drvBlindsStep"}} {
		add("Drv", drv(&spec{
			file: drvFile, recv: "game", name: "handleState", leanName: c[1],
			params: "(idx bb sb dealer : Int) (posBB posSB posDealer : Bool)", resultType: "Option (Int × Bool) × Option String",
			loop: drvPlayersLoop, around: []string{"…", "…"},
			tracked: map[string]string{"added": "(none : Option (Int × Bool))", "mark": "(none : Option String)"},
			exprs: map[string]string{"gs.Meta.Blind.BB": "bb", "gs.Meta.Blind.SB": "sb", "gs.Meta.Blind.Dealer": "dealer",
				`gs.HasPosition(p.Idx, "bb")`: "posBB", `gs.HasPosition(p.Idx, "sb")`: "posSB", `gs.HasPosition(p.Idx, "dealer")`: "posDealer"},
			multi: map[string][][2]string{
				"g.rg.Add(int64(p.Idx), false)": {{"added", "(some (idx, false))"}},
				`p.AllowAction("pay")`:          {{"mark", `(some "pay")`}},
				`p.AllowAction("ready")`:        {{"mark", `(some "ready")`}},
			},
			result: "(v_added, v_mark)",
		}, drvOpt{clause: `"` + c[0] + `"`}, hopOpt{}))
	}
	add("Drv",
		// updateState: (g.gs, the states sent on g.incomingStates)
		drv(&spec{
			file: drvFile, recv: "game", name: "updateState", leanName: "drvUpdateState",
			params: "{S : Type} (cloneState : S → S) (closed : Bool) (gs0 : S) (queue0 : List S) (gs : S)", resultType: "S × List S",
			tracked: map[string]string{"state": "gs0", "g.gs": "gs0", "g.incomingStates": "queue0"},
			exprs:   map[string]string{"gs": "gs", "g.isClosed": "closed"},
			skip:    []string{"g.mu.RLock()", "defer g.mu.RUnlock()", "g.mu.Lock()", "defer g.mu.Unlock()"},
			returns: map[string]string{"": "(v_g_gs, v_g_incomingStates)"},
			result:  "(v_g_gs, v_g_incomingStates)",
		}, drvOpt{}, hopOpt{funcs: map[string]string{"g.cloneState": "cloneState"}}),
		// Close: (g.isClosed, steps)
		drv(&spec{
			file: drvFile, recv: "game", name: "Close", leanName: "drvClose",
			params: "(closed : Bool)", resultType: "Bool × List String",
			tracked: map[string]string{"g.isClosed": "closed", "eff": stepsInit},
			multi:   steps1(map[string]string{"close(g.incomingStates)": "close(incomingStates)"}),
			returns: map[string]string{"": "(v_g_isClosed, v_eff)"},
			result:  "(v_g_isClosed, v_eff)",
		}, drvOpt{}, hopOpt{}),
		// Start
		drv(&spec{
			file: drvFile, recv: "game", name: "Start", leanName: "drvStart",
			params: "{S O G E : Type} (runStateUpdater : G → G) (createGame : O → G → S × Option E) (updateState : S → G → G) (opts : O) (g0 : G)", resultType: "G × Option E",
			tracked: map[string]string{"g": "g0"},
			exprs:   map[string]string{"err != nil": "v_call.2.isSome", "err == nil": "v_call.2.isNone", "gs": "v_call.1"},
			multi:   map[string][][2]string{"gs, err := g.backend.CreateGame(g.opts)": {{"call", "(createGame opts v_g)"}}},
			returns: map[string]string{"err": "(v_g, v_call.2)", "nil": "(v_g, none)"},
			result:  "(v_g, none)",
		}, drvOpt{}, hopOpt{methods: map[string][2]string{"g.runStateUpdater": {"g", "runStateUpdater"}, "g.updateState": {"g", "updateState"}}}),
	)
	// the wrappers and the shortcuts
	wrapper := func(name, lean, extra string, exprs map[string]string) *spec {
		return drv(&spec{
			file: drvFile, recv: "game", name: name, leanName: lean,
			params: drvPrims + extra, resultType: "G × Option E",
			tracked: map[string]string{"g": "g0", "p": "nilP"},
			exprs: merge(map[string]string{"g.gs": "held", "g.gs == nil": "(isNilS held)", "g.gs != nil": "(!(isNilS held))", "p == nil": "(isNilP v_p)", "p != nil": "(!(isNilP v_p))",
				"g.rg == nil": "(rgIsNil v_g)", "g.rg != nil": "(!(rgIsNil v_g))", "playerIdx": "playerIdx",
				"g.gs.Status.CurrentEvent": "(eventOf held)",
				"err != nil":               "v_call.2.isSome", "err == nil": "v_call.2.isNone", "gs": "v_call.1"}, exprs),
			returns: map[string]string{"ErrNoRunningGame": "(v_g, some errNoRunningGame)", "ErrPlayerNotInGame": "(v_g, some errPlayerNotInGame)",
				"ErrInvalidAction": "(v_g, some errInvalidAction)", "err": "(v_g, v_call.2)", "nil": "(v_g, none)"},
			result: "(v_g, none)",
		}, drvOpt{backend: true}, hopOpt{
			methods: map[string][2]string{"g.updateState": {"g", "updateState"}, "g.rg.Ready": {"g", "rgReady"}},
			getters: map[string]string{"g.gs.GetPlayer": "getPlayer", "g.gs.HasAction": "hasAction"}})
	}
	add("Drv",
		wrapper("Ready", "drvWrapperReady", " (playerIdx : Int)", nil),
		wrapper("ReadyForAll", "drvReadyForAll", "", nil),
		wrapper("PayAnte", "drvPayAnte", "", nil),
		wrapper("PayBlinds", "drvPayBlinds", "", nil),
		wrapper("Pass", "drvWrapperPass", " (playerIdx : Int)", nil),
		wrapper("Pay", "drvWrapperPay", " (playerIdx : Int) (chips : Int)", map[string]string{"chips": "chips"}),
		wrapper("Fold", "drvWrapperFold", " (playerIdx : Int)", nil),
		wrapper("Check", "drvWrapperCheck", " (playerIdx : Int)", nil),
		wrapper("Call", "drvWrapperCall", " (playerIdx : Int)", nil),
		wrapper("Allin", "drvWrapperAllin", " (playerIdx : Int)", nil),
		wrapper("Bet", "drvWrapperBet", " (playerIdx : Int) (chips : Int)", map[string]string{"chips": "chips"}),
		wrapper("Raise", "drvWrapperRaise", " (playerIdx : Int) (chipLevel : Int)", map[string]string{"chipLevel": "chipLevel"}),
	)
}
