// Group "Pots": pot/level_list.go, settlement/{settlement,rank,level,pot}.go, game_state.go (`AsPlayer`, `AsObserver`),
// combination/combination.go and power.go (the selection of the candidate hands and of the best one), translated into
// Generated/LogicPots.lean; obligations in Proofs/GeneratedLogicPots.lean (`potsAssertLevel_eq` … `viewAsObserver_eq`).
// Negative test: negtest_pots.py.
//
// The group adds these constructs (all syntactic; the four hooks in main.go are delimited by `[group Pots]`; the
// options live in the side table `potsOpts`, so that `spec` itself is unchanged):
//   - `at(spec, path…)`: before `loop`/`around`/`within` are applied, the translator descends through the listed
//     enclosing statements, each of which must occur exactly once in the statement list at hand: a loop header
//     (`for _, pot := range ll.levels`: its body), `if <cond>` (the body of that `if`), `if` (the body of the only
//     `if` of the list, whatever its condition), `else of if <cond>` (its `else` block), `func@<prefix>` (the body of
//     the first function literal in the statement whose printed form starts with <prefix>: the `less` function of a
//     `sort.Slice`).  The statements passed over are the subject of another spec, which lists the enclosing
//     statement by its header;
//   - `alone(spec)`: the loop of the spec is read without pinning the statements around it: they are translated by
//     another spec, which lists the loop as `<header> { … }` (position pinned there);
//   - `retExpr(spec)`: `return E` (one result, not listed in `returns`) is the translation of E;
//   - `funcs(spec, table)`: a call `f(a, b)` whose printed callee is listed is `(f' a' b')` with translated arguments
//     (`f'` is a parameter of the generated definition);
//   - `x := &T{F: a, G: b}` / `x := T{…}` with every `x.F` tracked: the assignments `x.F := a'`, `x.G := b'`, in order;
//   - `m[k] = v` and `m[k] += v` with `m` tracked: `m := mapSet m k' v'`, `m := mapAdd m k' v'` (`mapSet`, `mapAdd` are
//     parameters of the generated definition: the theorem instantiates them with the model's `assocSet`, `assocAdd`);
//   - `if init; cond { … }`: the pair `init; cond` is looked up in the expression table as one condition
//     (`_, ok := ll.foldedPlayers[cIdx]; ok`);
//   - an entry `<prefix>…` of `stmts` pins the beginning of a statement only (`sort.Slice(ll.levels, …`: the function
//     literal is the subject of another spec); an entry `<loop header> { … }` of `guards` stands for a loop that may
//     return from the function (its body is the subject of another spec);
//   - expressions: `a * b`, `a / b` → `Int.tdiv a' b'`, `a % b` → `Int.tmod a' b'` (Go's truncated division),
//     `append(a, b...)` → `(a' ++ b')`.
//
// As in group "Glue", the fields an iteration may read are parameters of the generated definition even where the Go
// code does not read them (`pot.Wager`, `l.Total`, …): reading another field changes the definition (and breaks the
// theorem) rather than making it unknown.
//
// Go map iteration (`ll.contributors`, `p.Contributors`, `ll.foldedPlayers`): the BODY of the loop is translated; the
// model iterates over the association list sorted by key (DESIGN §4).  The updates of one such loop write distinct
// keys, and a key-sorted association list is determined by its bindings (`KeysSorted.eq_of_mem_iff`, Proofs/Assoc.lean;
// on the level of whole pots: `llOf_perm`, `C16.order_independent`), so the iteration order does not show in the
// maps; where it does show (`Level.Contributors`, read for membership and length only) `potsContrib_perm`
// (Proofs/GeneratedLogicPots.lean) states what is independent of it.
package main

import (
	"go/ast"
	"go/token"
	"strings"
)

type potsOpt struct {
	path    []string
	retExpr bool
	alone   bool              // the siblings of the translated loop are the subject of another spec: nothing is pinned around it
	funcs   map[string]string // printed callee -> Lean function applied to the translated arguments
}

var potsOpts = map[*spec]*potsOpt{}

// at registers the enclosing statements the translator descends through before it reads `s`.
func at(s *spec, path ...string) *spec {
	opt(s).path = path
	return s
}

func opt(s *spec) *potsOpt {
	o := potsOpts[s]
	if o == nil {
		o = &potsOpt{}
		potsOpts[s] = o
	}
	return o
}

func retExpr(s *spec) *spec {
	opt(s).retExpr = true
	return s
}

// alone: the loop of the spec is read without pinning the statements around it (they are translated by another spec,
// which lists the loop by its header)
func alone(s *spec) *spec {
	opt(s).alone = true
	return s
}

func funcs(s *spec, m map[string]string) *spec {
	opt(s).funcs = m
	return s
}

func (t *tr) potsExpr(e ast.Expr) (string, bool) {
	switch x := e.(type) {
	case *ast.BinaryExpr:
		switch x.Op {
		case token.MUL:
			return "(" + t.expr(x.X) + " * " + t.expr(x.Y) + ")", true
		case token.QUO:
			return "(Int.tdiv " + t.expr(x.X) + " " + t.expr(x.Y) + ")", true
		case token.REM:
			return "(Int.tmod " + t.expr(x.X) + " " + t.expr(x.Y) + ")", true
		}
	case *ast.CallExpr:
		if id, ok := x.Fun.(*ast.Ident); ok && id.Name == "append" && len(x.Args) == 2 && x.Ellipsis.IsValid() {
			return "(" + t.expr(x.Args[0]) + " ++ " + t.expr(x.Args[1]) + ")", true
		}
		if o := potsOpts[t.s]; o != nil && !x.Ellipsis.IsValid() {
			if f, ok := o.funcs[pr(x.Fun)]; ok {
				out := "(" + f
				for _, a := range x.Args {
					out += " " + t.expr(a)
				}
				return out + ")", true
			}
		}
	}
	return "", false
}

func (t *tr) potsStmt(s ast.Stmt, rest []ast.Stmt, k string, own, outer scope, nested func() scope) (string, bool) {
	// an entry `<prefix>…` of `stmts` pins the beginning of a statement only (a call whose function literal is the
	// subject of another spec: `sort.Slice(ll.levels, …`)
	for key, c := range t.s.stmts {
		if strings.HasSuffix(key, "…") && strings.HasPrefix(pr(s), strings.TrimSuffix(key, "…")) {
			return "(let " + leanVar(c[0]) + " := " + c[1] + "\n " + t.block(rest, k, own, outer) + ")", true
		}
	}
	// an entry `<loop header> { … }` of `guards`: the loop may return from the function (its body is the subject of another spec)
	for _, f := range pinnedForms(s)[1:] {
		if c, ok := t.s.guards[f]; ok {
			return "(if " + c[0] + " then\n " + c[1] + "\n else\n " + t.block(rest, k, own, outer) + ")", true
		}
	}
	switch x := s.(type) {
	case *ast.ReturnStmt:
		if o := potsOpts[t.s]; o != nil && o.retExpr && len(x.Results) == 1 {
			p := pr(x.Results[0])
			if _, ok := t.s.returns[p]; ok {
				return "", false
			}
			if _, ok := t.s.tracked[p]; ok {
				return "", false
			}
			return t.expr(x.Results[0]), true
		}
	case *ast.IfStmt:
		if x.Init == nil {
			return "", false
		}
		cond, ok := t.s.exprs[pr(x.Init)+"; "+pr(x.Cond)]
		if !ok {
			return "", false
		}
		in := nested()
		cont := t.block(rest, k, own, outer)
		thenB := t.block(x.Body.List, cont, scope{}, in)
		elseB := cont
		switch e := x.Else.(type) {
		case nil:
		case *ast.BlockStmt:
			elseB = t.block(e.List, cont, scope{}, in)
		case *ast.IfStmt:
			elseB = t.block([]ast.Stmt{e}, cont, scope{}, in)
		}
		return "(if " + cond + " then\n " + thenB + "\n else\n " + elseB + ")", true
	case *ast.AssignStmt:
		if len(x.Lhs) != 1 || len(x.Rhs) != 1 {
			return "", false
		}
		// m[k] = v, m[k] += v on a tracked map
		if ix, ok := x.Lhs[0].(*ast.IndexExpr); ok {
			m := pr(ix.X)
			if _, ok := t.s.tracked[m]; !ok {
				return "", false
			}
			fn := ""
			switch x.Tok {
			case token.ASSIGN:
				fn = "mapSet"
			case token.ADD_ASSIGN:
				fn = "mapAdd"
			default:
				return "", false
			}
			val := "(" + fn + " " + leanVar(m) + " " + t.expr(ix.Index) + " " + t.expr(x.Rhs[0]) + ")"
			return "(let " + leanVar(m) + " := " + val + "\n " + t.block(rest, k, own, outer) + ")", true
		}
		// x := &T{F: a, G: b}
		id, ok := x.Lhs[0].(*ast.Ident)
		if !ok || x.Tok != token.DEFINE {
			return "", false
		}
		rhs := x.Rhs[0]
		if u, ok := rhs.(*ast.UnaryExpr); ok && u.Op == token.AND {
			rhs = u.X
		}
		cl, ok := rhs.(*ast.CompositeLit)
		if !ok || len(cl.Elts) == 0 {
			return "", false
		}
		type fv struct{ f, v string }
		var fs []fv
		for _, el := range cl.Elts {
			kv, ok := el.(*ast.KeyValueExpr)
			if !ok {
				return "", false
			}
			key, ok := kv.Key.(*ast.Ident)
			if !ok {
				return "", false
			}
			l := id.Name + "." + key.Name
			if _, ok := t.s.tracked[l]; !ok {
				return "", false
			}
			if outer[l] {
				t.fail = append(t.fail, "shadowing declaration: "+pr(x))
				return "UNTRANSLATED", true
			}
			own[l] = true
			fs = append(fs, fv{l, t.expr(kv.Value)})
		}
		out := t.block(rest, k, own, outer)
		for i := len(fs) - 1; i >= 0; i-- {
			out = "(let " + leanVar(fs[i].f) + " := " + fs[i].v + "\n " + out + ")"
		}
		return out, true
	}
	return "", false
}

// potsDescend walks down the `path` of the spec (see the head of this file) and returns the statement list found there.
func (t *tr) potsDescend(stmts []ast.Stmt) []ast.Stmt {
	o := potsOpts[t.s]
	if o == nil {
		return stmts
	}
	for _, h := range o.path {
		var found [][]ast.Stmt
		for _, st := range stmts {
			switch {
			case strings.HasPrefix(h, "func@"):
				if strings.HasPrefix(pr(st), strings.TrimPrefix(h, "func@")) {
					var fl *ast.FuncLit
					ast.Inspect(st, func(n ast.Node) bool {
						if f, ok := n.(*ast.FuncLit); ok && fl == nil {
							fl = f
						}
						return fl == nil
					})
					if fl != nil {
						found = append(found, fl.Body.List)
					}
				}
			case strings.HasPrefix(h, "else of if "):
				if x, ok := st.(*ast.IfStmt); ok && x.Init == nil && "else of if "+pr(x.Cond) == h {
					if b, ok := x.Else.(*ast.BlockStmt); ok {
						found = append(found, b.List)
					}
				}
			case h == "if": // the only `if` of the statement list, whatever its condition (translated by another spec)
				if x, ok := st.(*ast.IfStmt); ok && x.Init == nil {
					found = append(found, x.Body.List)
				}
			case strings.HasPrefix(h, "if "):
				if x, ok := st.(*ast.IfStmt); ok && x.Init == nil && "if "+pr(x.Cond) == h {
					found = append(found, x.Body.List)
				}
			default:
				var b *ast.BlockStmt
				switch x := st.(type) {
				case *ast.RangeStmt:
					b = x.Body
				case *ast.ForStmt:
					b = x.Body
				}
				if b != nil && strings.TrimSuffix(pr(st), pr(b)) == h+" " {
					found = append(found, b.List)
				}
			}
		}
		if len(found) != 1 {
			t.fail = append(t.fail, "enclosing statement not found (or not unique): "+h)
			return []ast.Stmt{&ast.BadStmt{}}
		}
		stmts = found[0]
	}
	if o.alone {
		var only []ast.Stmt
		for _, st := range stmts {
			for _, f := range pinnedForms(st)[1:] {
				if f == t.s.loop+" { … }" {
					only = append(only, st)
				}
			}
		}
		return only // `loopBody` fails unless exactly one loop with this header was found
	}
	return stmts
}

// ---- pot/level_list.go ----

const llFile = "pot/level_list.go"

const (
	llLevelsLoop   = "for _, pot := range ll.levels"
	llContribLoop  = "for idx, wager := range ll.contributors"
	llRetotalLoop  = "for _, l := range ll.levels"
	llOrigLoop     = "for _, l := range ll.levels"
	llOrigInner    = "for _, cIdx := range l.Contributors"
	llMergeLoop    = "for i, p := range origPots"
	llMergeInner   = "for pIdx, wager := range p.Contributors"
	llFoldedLoop   = "for pIdx, _ := range ll.foldedPlayers"
	llFoldedInner  = "for _, p := range pots"
	llFoldedLookup = "_, ok := ll.foldedPlayers[cIdx]; ok"
)

// a pot under construction, as the tuple (Level, Wager, Total, Contributors, Levels)
const potTuple = "Int × Int × Int × M × List LV"

func init() {
	zero := "(0 : Int)"
	add("Pots",
		// AssertLevel: one iteration of the search; the function around the search
		alone(&spec{
			file: llFile, recv: "LevelList", name: "AssertLevel", leanName: "potsAssertStep",
			params: "(potLevel potWager potTotal level : Int)", resultType: "Bool",
			loop:    llLevelsLoop,
			tracked: map[string]string{},
			exprs:   map[string]string{"pot.Level": "potLevel", "pot.Wager": "potWager", "pot.Total": "potTotal", "level": "level"},
			returns: map[string]string{"pot": "true"},
			result:  "false",
		}),
		&spec{
			file: llFile, recv: "LevelList", name: "AssertLevel", leanName: "potsAssertLevel",
			params: "{L : Type} (found : Bool) (levels0 : List L) (mk : Int → Int → Int → List Nat → L) (level : Int)", resultType: "List L",
			tracked: map[string]string{"ll.levels": "levels0", "l.Level": zero, "l.Wager": zero, "l.Total": zero, "l.Contributors": "([] : List Nat)"},
			exprs: map[string]string{"level": "level", "make([]int, 0)": "([] : List Nat)",
				"l": "(mk v_l_Level v_l_Wager v_l_Total v_l_Contributors)"},
			// the search loop (body: `potsAssertStep`): a level found is returned, the list is left as it is
			guards:  map[string][]string{llLevelsLoop + " { … }": {"found", "v_ll_levels"}},
			returns: map[string]string{"l": "v_ll_levels"},
			result:  "v_ll_levels",
		},
		// AddContributor: the statements in order; the comparison of the sort; the three loop bodies
		&spec{
			file: llFile, recv: "LevelList", name: "AddContributor", leanName: "potsAddContributor",
			params: "(fold : Bool)", resultType: "Int × List String",
			tracked: map[string]string{"eff": stepsInit, "prevLevel": "(-1 : Int)"},
			exprs:   map[string]string{"fold": "fold"},
			stmts: stepStmts(map[string]string{"ll.contributors[contributorIdx] = wager": "contributors[contributorIdx] = wager",
				"ll.foldedPlayers[contributorIdx] = true": "foldedPlayers[contributorIdx] = true",
				"ll.AssertLevel(wager)":                   "AssertLevel(wager)", "sort.Slice(ll.levels, …": "sort levels"}),
			multi:  steps(map[string]string{llLevelsLoop + " { … }": "contributors of each level", llRetotalLoop + " { … }": "totals of each level"}),
			result: "(v_prevLevel, v_eff)",
		},
		at(retExpr(&spec{
			file: llFile, recv: "LevelList", name: "AddContributor", leanName: "potsLevelLess",
			params: "(li wi ti lj wj tj : Int)", resultType: "Bool",
			tracked: map[string]string{},
			exprs: map[string]string{"ll.levels[i].Level": "li", "ll.levels[j].Level": "lj", "ll.levels[i].Wager": "wi", "ll.levels[j].Wager": "wj",
				"ll.levels[i].Total": "ti", "ll.levels[j].Total": "tj"},
			result: "false",
		}), "func@sort.Slice(ll.levels, "),
		alone(&spec{
			file: llFile, recv: "LevelList", name: "AddContributor", leanName: "potsLevelContrib",
			params: "{I : Type} (contributors0 : List I) (inner : List I → List I)", resultType: "List I",
			loop:    llLevelsLoop,
			tracked: map[string]string{"pot.Contributors": "contributors0"},
			exprs:   map[string]string{"make([]int, 0)": "([] : List I)"},
			multi:   map[string][][2]string{llContribLoop + " { … }": {{"pot.Contributors", "(inner v_pot_Contributors)"}}},
			result:  "v_pot_Contributors",
		}),
		// iteration over the Go map `ll.contributors`; the model filters the key-sorted association list: the order
		// only decides the order of `Level.Contributors`, which is read for membership and length only
		// (`potsContrib_perm` in the proof file: any iteration order yields a permutation of the model's list;
		// C16.eligible_exact / C02.level_winners speak about membership)
		alone(at(&spec{
			file: llFile, recv: "LevelList", name: "AddContributor", leanName: "potsContribStep",
			params: "{I : Type} (potLevel potWager potTotal wager : Int) (idx : I) (contributors0 : List I)", resultType: "List I",
			loop:    llContribLoop,
			tracked: map[string]string{"pot.Contributors": "contributors0"},
			exprs:   map[string]string{"pot.Level": "potLevel", "pot.Wager": "potWager", "pot.Total": "potTotal", "wager": "wager", "idx": "idx"},
			result:  "v_pot_Contributors",
		}, llLevelsLoop)),
		alone(&spec{
			file: llFile, recv: "LevelList", name: "AddContributor", leanName: "potsRetotalStep",
			params: "(level prevLevel0 nContrib nAll wager0 total0 : Int)", resultType: "Int × Int × Int",
			loop:    llRetotalLoop,
			tracked: map[string]string{"l.Wager": "wager0", "l.Total": "total0", "prevLevel": "prevLevel0"},
			exprs:   map[string]string{"l.Level": "level", "int64(len(l.Contributors))": "nContrib", "int64(len(ll.contributors))": "nAll"},
			result:  "(v_l_Wager, v_l_Total, v_prevLevel)",
		}),
		// GetPots: the statements in order; the three loops, one iteration each, with their inner loops
		&spec{
			file: llFile, recv: "LevelList", name: "GetPots", leanName: "potsGetPots",
			params: "", resultType: stepsT,
			tracked: map[string]string{"eff": stepsInit},
			stmts: stepStmts(map[string]string{"origPots := make([]*Pot, 0)": "origPots := []", "pots := make([]*Pot, 0)": "pots := []",
				"var prev *Pot = nil": "prev := nil"}),
			multi: steps(map[string]string{llOrigLoop + " { … }": "origPots of the levels", llMergeLoop + " { … }": "merge origPots",
				llFoldedLoop + " { … }": "put folded players back"}),
			returns: stepReturns(map[string]string{"pots": "return pots"}),
			result:  "v_eff",
		},
		alone(&spec{
			file: llFile, recv: "LevelList", name: "GetPots", leanName: "potsOrigPot",
			params:     "{M LV : Type} (level wager total : Int) (l : LV) (emptyM : M) (inner : M → M) (origPots0 : List (" + potTuple + "))",
			resultType: "List (" + potTuple + ")",
			loop:       llOrigLoop,
			tracked: map[string]string{"origPots": "origPots0", "p.Level": zero, "p.Wager": zero, "p.Total": zero, "p.Contributors": "emptyM",
				"p.Levels": "([] : List LV)"},
			exprs: map[string]string{"l.Level": "level", "l.Wager": "wager", "l.Total": "total", "l": "l", "make(map[int]int64)": "emptyM",
				"make([]*Level, 0)": "([] : List LV)", "p": "(v_p_Level, v_p_Wager, v_p_Total, v_p_Contributors, v_p_Levels)"},
			multi:  map[string][][2]string{llOrigInner + " { … }": {{"p.Contributors", "(inner v_p_Contributors)"}}},
			result: "v_origPots",
		}),
		alone(at(&spec{
			file: llFile, recv: "LevelList", name: "GetPots", leanName: "potsOrigContribStep",
			params: "{M : Type} (mapSet mapAdd : M → Nat → Int → M) (isFolded isContributor : Bool) (cIdx : Nat) (level wager total : Int) (contributors0 : M)", resultType: "M",
			loop:    llOrigInner,
			tracked: map[string]string{"p.Contributors": "contributors0"},
			exprs: map[string]string{llFoldedLookup: "isFolded", "_, ok := ll.foldedPlayers[cIdx]; !ok": "(!isFolded)", "_, ok := ll.contributors[cIdx]; ok": "isContributor",
				"cIdx": "cIdx", "l.Level": "level", "l.Wager": "wager", "l.Total": "total"},
			result: "v_p_Contributors",
		}, llOrigLoop)),
		// `pots = append(pots, p); prev = p`: the pot `p` is pushed and becomes the open pot `prev` (a pointer into `pots`);
		// the translated iteration returns whether a pot was pushed and the fields of the open pot
		alone(&spec{
			file: llFile, recv: "LevelList", name: "GetPots", leanName: "potsMergeStep",
			params: "{M LV : Type} (len : M → Int) (inner : M → M) (i prevLevel prevWager prevTotal : Int) (prevContributors : M) (prevLevels : List LV)" +
				" (pLevel pWager pTotal : Int) (pContributors : M) (pLevels : List LV)",
			resultType: "Bool × " + potTuple,
			loop:       llMergeLoop,
			tracked: map[string]string{"pushed": "false", "prev.Level": "prevLevel", "prev.Wager": "prevWager", "prev.Total": "prevTotal",
				"prev.Contributors": "prevContributors", "prev.Levels": "prevLevels"},
			exprs: map[string]string{"i": "i", "p.Level": "pLevel", "p.Wager": "pWager", "p.Total": "pTotal", "p.Levels": "pLevels",
				"len(prev.Contributors)": "(len v_prev_Contributors)", "len(p.Contributors)": "(len pContributors)",
				"len(prev.Levels)": "(v_prev_Levels.length : Int)", "len(p.Levels)": "(pLevels.length : Int)"},
			stmts: map[string][2]string{"pots = append(pots, p)": {"pushed", "true"}},
			multi: map[string][][2]string{
				"prev = p": {{"prev.Level", "pLevel"}, {"prev.Wager", "pWager"}, {"prev.Total", "pTotal"}, {"prev.Contributors", "pContributors"},
					{"prev.Levels", "pLevels"}},
				llMergeInner + " { … }": {{"prev.Contributors", "(inner v_prev_Contributors)"}}},
			result: "(v_pushed, v_prev_Level, v_prev_Wager, v_prev_Total, v_prev_Contributors, v_prev_Levels)",
		}),
		// iteration over the Go map `p.Contributors`: the updates `prev.Contributors[k] += w` write distinct keys k;
		// the model folds over the key-sorted list and the result is key-sorted (`KeysSorted.eq_of_mem_iff`,
		// `foldl_assocAdd_same` of Proofs/PotsMerge.lean; C16.eligible_amount is stated on the resulting bindings)
		alone(at(&spec{
			file: llFile, recv: "LevelList", name: "GetPots", leanName: "potsMergeContribStep",
			params: "{M : Type} (mapSet mapAdd : M → Nat → Int → M) (pIdx : Nat) (wager : Int) (contributors0 : M)", resultType: "M",
			loop:    llMergeInner,
			tracked: map[string]string{"prev.Contributors": "contributors0"},
			exprs:   map[string]string{"pIdx": "pIdx", "wager": "wager"},
			result:  "v_prev_Contributors",
		}, llMergeLoop)),
		// iteration over the Go map `ll.foldedPlayers`: the model folds over the sorted list of folded players; the
		// iterations for distinct players write distinct keys of the pots' maps (`putAll_getElem?`, `putContribs_mem` of
		// Proofs/PotsMerge.lean characterise the result by its bindings; C16.folded_listing)
		alone(&spec{
			file: llFile, recv: "LevelList", name: "GetPots", leanName: "potsFoldedStep",
			params: "(contribWager : Int)", resultType: "Bool × Int",
			loop:    llFoldedLoop,
			tracked: map[string]string{"wager": zero, "ran": "false"},
			exprs:   map[string]string{"ll.contributors[pIdx]": "contribWager"},
			multi:   map[string][][2]string{llFoldedInner + " { … }": {{"ran", "true"}}},
			result:  "(v_ran, v_wager)",
		}),
		alone(at(&spec{
			file: llFile, recv: "LevelList", name: "GetPots", leanName: "potsPutFoldedStep",
			params: "{M : Type} (mapSet mapAdd : M → Nat → Int → M) (pIdx : Nat) (wager level potWager total : Int) (contributors0 : M)", resultType: "Bool × M",
			loop:    llFoldedInner,
			tracked: map[string]string{"p.Contributors": "contributors0"},
			exprs:   map[string]string{"pIdx": "pIdx", "wager": "wager", "p.Level": "level", "p.Wager": "potWager", "p.Total": "total"},
			returns: map[string]string{"break": "(false, v_p_Contributors)"},
			result:  "(true, v_p_Contributors)",
		}, llFoldedLoop)),
	)
}

// ---- game_state.go: the views ----

const gsFile = "game_state.go"
const gsPlayersLoop = "for _, p := range gs.Players"

// the result of a translated view function: (Meta.Deck, Status.Burned, steps)
const viewT = "List C × List C × List String"

func viewSpec(name, lean string) *spec {
	return &spec{
		file: gsFile, recv: "GameState", name: name, leanName: lean,
		params: "{C : Type} (deck0 burned0 : List C) (event : String)", resultType: viewT,
		tracked: map[string]string{"gs.Meta.Deck": "deck0", "gs.Status.Burned": "burned0", "eff": stepsInit},
		exprs:   map[string]string{"gs.Status.CurrentEvent": "event", "[]string{}": "([] : List C)"},
		multi:   steps(map[string]string{gsPlayersLoop + " { … }": "players loop"}),
		returns: map[string]string{"": "(v_gs_Meta_Deck, v_gs_Status_Burned, " + step("return") + ")"},
		result:  "(v_gs_Meta_Deck, v_gs_Status_Burned, v_eff)",
	}
}

// one iteration of a loop over the players of a view: (HoleCards, Combination) of `p` afterwards
func viewStepSpec(name, lean string, closed bool) *spec {
	s := alone(&spec{
		file: gsFile, recv: "GameState", name: name, leanName: lean,
		params: "{H K : Type} (pIdx idx : Nat) (fold : Bool) (hole0 : List H) (comb0 : Option K)", resultType: "List H × Option K",
		loop:    gsPlayersLoop,
		tracked: map[string]string{"p.HoleCards": "hole0", "p.Combination": "comb0"},
		exprs:   map[string]string{"p.Idx": "pIdx", "idx": "idx", "p.Fold": "fold", "[]string{}": "([] : List H)", "nil": "(none : Option K)"},
		result:  "(v_p_HoleCards, v_p_Combination)",
	})
	if closed { // the loop in the body of the only `if` of the function (condition and `return`: `viewAsPlayer` / `viewAsObserver`)
		at(s, "if")
	}
	return s
}

func init() {
	add("Pots",
		viewSpec("AsPlayer", "viewAsPlayer"),
		viewStepSpec("AsPlayer", "viewAsPlayerClosedStep", true),
		viewStepSpec("AsPlayer", "viewAsPlayerStep", false),
		viewSpec("AsObserver", "viewAsObserver"),
		viewStepSpec("AsObserver", "viewAsObserverClosedStep", true),
		viewStepSpec("AsObserver", "viewAsObserverStep", false),
	)
}

// ---- settlement/rank.go, level.go, pot.go, settlement.go ----

const (
	rankFile   = "settlement/rank.go"
	levelFile  = "settlement/level.go"
	spotFile   = "settlement/pot.go"
	settleFile = "settlement/settlement.go"

	rankGroupsLoop  = "for _, g := range r.groups"
	rankLoserLoop   = "for i, g := range r.groups"
	levelScoreLoop  = "for _, c := range li.Contributors"
	winnersLoop     = "for _, winner := range pr.Winners"
	settlePlayers   = "for _, p := range r.Players"
	settlePots      = "for _, p := range r.Pots"
	settleLevels    = "for _, l := range p.level.levels"
	settleAddLevels = "for _, l := range levels"
	rewardLoop      = "for i, wIdx := range winners"
	loserLoop       = "for _, lIdx := range losers"
	calcPotLoop     = "for _, l := range p.level.levels"
	calculateLoop   = "for potIdx, pot := range r.Pots"
)

// the recorded calls of `Update`: ("Update", potIdx, playerIdx, wager, withdraw)
const updateCallT = "List (String × P × Nat × Int × Int)"

func init() {
	zero := "(0 : Int)"
	add("Pots",
		// rank.go `AddContributor`: one iteration of the search; the function around the search (no group found)
		alone(&spec{
			file: rankFile, recv: "Rank", name: "AddContributor", leanName: "rankAddStep",
			params: "{I : Type} (gScore score : Int) (contributerIdx : I) (contributors0 : List I)", resultType: "Bool × List I",
			loop:    rankGroupsLoop,
			tracked: map[string]string{"g.Contributors": "contributors0"},
			exprs:   map[string]string{"g.Score": "gScore", "score": "score", "contributerIdx": "contributerIdx"},
			returns: map[string]string{"": "(true, v_g_Contributors)"},
			result:  "(false, v_g_Contributors)",
		}),
		&spec{
			file: rankFile, recv: "Rank", name: "AddContributor", leanName: "rankAddNew",
			params: "{I G : Type} (mk : Int → List I → G) (count0 score : Int) (contributerIdx : I) (groups0 : List G)", resultType: "Int × List G",
			tracked: map[string]string{"r.contributerCount": "count0", "r.groups": "groups0", "g.Score": zero, "g.Contributors": "([] : List I)"},
			exprs: map[string]string{"score": "score", "contributerIdx": "contributerIdx", "make([]int, 0)": "([] : List I)",
				"g": "(mk v_g_Score v_g_Contributors)"},
			// the search loop (body: `rankAddStep`) returns when a group with that score exists; what follows is the other case
			multi:  map[string][][2]string{rankGroupsLoop + " { … }": {}},
			result: "(v_r_contributerCount, v_r_groups)",
		},
		// rank.go `Calculate`: the comparison of the sort
		at(retExpr(&spec{
			file: rankFile, recv: "Rank", name: "Calculate", leanName: "rankGreater",
			params: "(si sj : Int)", resultType: "Bool",
			tracked: map[string]string{},
			exprs:   map[string]string{"r.groups[i].Score": "si", "r.groups[j].Score": "sj"},
			result:  "false",
		}), "func@sort.Slice(r.groups, "),
		&spec{
			file: rankFile, recv: "Rank", name: "Calculate", leanName: "rankCalculate",
			params: "", resultType: stepsT,
			tracked: map[string]string{"eff": stepsInit},
			stmts:   stepStmts(map[string]string{"sort.Slice(r.groups, …": "sort groups"}),
			result:  "v_eff",
		},
		retExpr(&spec{
			file: rankFile, recv: "Rank", name: "GetWinners", leanName: "rankWinners",
			params: "{I : Type} (nGroups : Int) (first : List I)", resultType: "List I",
			tracked: map[string]string{},
			exprs:   map[string]string{"len(r.groups)": "nGroups", "[]int{}": "([] : List I)", "r.groups[0].Contributors": "first"},
			result:  "([] : List I)",
		}),
		&spec{
			file: rankFile, recv: "Rank", name: "GetLoser", leanName: "rankLosers",
			params: "{I : Type} (nGroups : Int) (inner : List I → List I)", resultType: "List I",
			tracked: map[string]string{"contributers": "([] : List I)"},
			exprs:   map[string]string{"len(r.groups)": "nGroups", "make([]int, 0)": "([] : List I)"},
			multi:   map[string][][2]string{rankLoserLoop + " { … }": {{"contributers", "(inner v_contributers)"}}},
			returns: map[string]string{"[]int{}": "([] : List I)"},
			result:  "v_contributers",
		},
		alone(&spec{
			file: rankFile, recv: "Rank", name: "GetLoser", leanName: "rankLoserStep",
			params: "{I : Type} (i : Int) (gContributors contributers0 : List I)", resultType: "List I",
			loop:    rankLoserLoop,
			tracked: map[string]string{"contributers": "contributers0"},
			exprs:   map[string]string{"i": "i", "g.Contributors": "gContributors"},
			result:  "v_contributers",
		}),
		// level.go `UpdateScore`: one iteration of the search for the player among the contributors of the level
		&spec{
			file: levelFile, recv: "LevelInfo", name: "UpdateScore", leanName: "levelScoreStep",
			params: "(c playerIdx : Nat)", resultType: "Bool × List String",
			loop: levelScoreLoop, around: nil,
			tracked: map[string]string{"eff": stepsInit},
			exprs:   map[string]string{"c": "c", "playerIdx": "playerIdx"},
			stmts:   stepStmts(map[string]string{"li.rank.AddContributor(score, playerIdx)": "rank.AddContributor(score, playerIdx)"}),
			returns: map[string]string{"break": "(false, v_eff)"},
			result:  "(true, v_eff)",
		},
		&spec{
			file: levelFile, recv: "PotLevel", name: "AddLevel", leanName: "levelAddLevel",
			params: "{LI : Type} (mk : Int → Int → Int → List Nat → LI) (level wager total : Int) (contributors : List Nat) (levels0 : List LI)", resultType: "List LI",
			tracked: map[string]string{"pl.levels": "levels0"},
			exprs:   map[string]string{"&LevelInfo{ Level: level, Wager: wager, Total: total, Contributors: contributors, }": "(mk level wager total contributors)"},
			result:  "v_pl_levels",
		},
		// pot.go `UpdateWinner`: one iteration of the search; the function around the search (no entry found)
		alone(&spec{
			file: spotFile, recv: "PotResult", name: "UpdateWinner", leanName: "winnerStep",
			params: "(wIdx playerIdx : Nat) (wWithdraw withdraw : Int)", resultType: "Bool × Int",
			loop:    winnersLoop,
			tracked: map[string]string{"winner.Withdraw": "wWithdraw"},
			exprs:   map[string]string{"winner.Idx": "wIdx", "playerIdx": "playerIdx", "withdraw": "withdraw"},
			returns: map[string]string{"": "(true, v_winner_Withdraw)"},
			result:  "(false, v_winner_Withdraw)",
		}),
		&spec{
			file: spotFile, recv: "PotResult", name: "UpdateWinner", leanName: "winnerNew",
			params: "{W : Type} (mk : Nat → Int → W) (playerIdx : Nat) (withdraw : Int) (winners0 : List W)", resultType: "List W",
			tracked: map[string]string{"pr.Winners": "winners0", "w.Idx": "(0 : Nat)", "w.Withdraw": zero},
			exprs:   map[string]string{"playerIdx": "playerIdx", "withdraw": "withdraw", "w": "(mk v_w_Idx v_w_Withdraw)"},
			multi:   map[string][][2]string{winnersLoop + " { … }": {}},
			returns: map[string]string{"": "v_pr_Winners"},
			result:  "v_pr_Winners",
		},
		// settlement.go
		&spec{
			file: settleFile, recv: "Result", name: "AddPlayer", leanName: "settleAddPlayer",
			params: "{PR : Type} (mk : Nat → Int → Int → PR) (playerIdx : Nat) (bankroll : Int) (players0 : List PR)", resultType: "List PR",
			tracked: map[string]string{"r.Players": "players0", "pr.Idx": "(0 : Nat)", "pr.Final": zero, "pr.Changed": zero},
			exprs:   map[string]string{"playerIdx": "playerIdx", "bankroll": "bankroll", "pr": "(mk v_pr_Idx v_pr_Final v_pr_Changed)"},
			result:  "v_r_Players",
		},
		&spec{
			file: settleFile, recv: "Result", name: "AddPot", leanName: "settleAddPot",
			params:     "{LI W : Type} (total : Int) (inner : List LI → List LI) (pots0 : List (Int × List LI × List W))",
			resultType: "List (Int × List LI × List W)",
			tracked:    map[string]string{"r.Pots": "pots0", "pr.level": "([] : List LI)", "pr.Total": "(0 : Int)", "pr.Winners": "([] : List W)"},
			exprs: map[string]string{"total": "total", "NewPotLevel()": "([] : List LI)", "make([]*Winner, 0)": "([] : List W)",
				"pr": "(v_pr_Total, v_pr_level, v_pr_Winners)"},
			multi:  map[string][][2]string{settleAddLevels + " { … }": {{"pr.level", "(inner v_pr_level)"}}},
			result: "v_r_Pots",
		},
		alone(&spec{
			file: settleFile, recv: "Result", name: "AddPot", leanName: "settleAddPotStep",
			params: "{C : Type} (level wager total : Int) (contributors : C)", resultType: "List (String × Int × Int × Int × C)",
			loop:     settleAddLevels,
			tracked:  map[string]string{"eff": "[]"},
			exprs:    map[string]string{"l.Level": "level", "l.Wager": "wager", "l.Total": "total", "l.Contributors": "contributors"},
			effcalls: map[string]string{"pr.level.AddLevel": "AddLevel"},
			result:   "v_eff",
		}),
		at(&spec{
			file: settleFile, recv: "Result", name: "UpdateScore", leanName: "settleUpdateScoreStep",
			params: "(playerIdx : Nat) (score : Int)", resultType: "List (String × Nat × Int)",
			loop: settleLevels, around: nil,
			tracked:  map[string]string{"eff": "[]"},
			exprs:    map[string]string{"playerIdx": "playerIdx", "score": "score"},
			effcalls: map[string]string{"l.UpdateScore": "LevelInfo.UpdateScore"},
			result:   "v_eff",
		}, settlePots),
		&spec{
			file: settleFile, recv: "Result", name: "UpdateScore", leanName: "settleUpdateScore",
			params: "", resultType: stepsT,
			tracked: map[string]string{"eff": stepsInit},
			multi:   steps(map[string]string{settlePots + " { … }": "every pot"}),
			result:  "v_eff",
		},
		// `Update`: the winner entry, then the search for the player
		&spec{
			file: settleFile, recv: "Result", name: "Update", leanName: "settleUpdate",
			params: "(playerIdx : Nat) (wager withdraw : Int)", resultType: "List (String × Nat × Int)",
			tracked:  map[string]string{"eff": "[]"},
			exprs:    map[string]string{"playerIdx": "playerIdx", "wager": "wager", "withdraw": "withdraw"},
			skip:     []string{"pot := r.Pots[potIdx]"},
			effcalls: map[string]string{"pot.UpdateWinner": "UpdateWinner"},
			multi:    map[string][][2]string{settlePlayers + " { … }": {{"eff", "(v_eff ++ [(\"players loop\", playerIdx, withdraw)])"}}},
			result:   "v_eff",
		},
		alone(&spec{
			file: settleFile, recv: "Result", name: "Update", leanName: "settleUpdateStep",
			params: "(pIdx playerIdx : Nat) (final0 changed0 wager withdraw : Int)", resultType: "Bool × Int × Int",
			loop:    settlePlayers,
			tracked: map[string]string{"p.Final": "final0", "p.Changed": "changed0"},
			exprs:   map[string]string{"p.Idx": "pIdx", "playerIdx": "playerIdx", "wager": "wager", "withdraw": "withdraw"},
			returns: map[string]string{"": "(true, v_p_Final, v_p_Changed)"},
			result:  "(false, v_p_Final, v_p_Changed)",
		}),
		// `CalculateWinnerRewards`: ranking, winners, the quantities of the division, the loop, the offset left for
		// the next level of the pot; then one iteration of the loop
		&spec{
			file: settleFile, recv: "Result", name: "CalculateWinnerRewards", leanName: "settleRewards",
			params: "(total wager nWinners offset0 : Int)", resultType: "Int × Int × Int × Int × Int × List String",
			tracked: map[string]string{"eff": stepsInit, "count": zero, "based": zero, "remainder": zero, "offset": zero, "pot.oddChipOffset": "offset0"},
			exprs:   map[string]string{"int64(len(winners))": "nWinners", "l.Total": "total", "l.Wager": "wager"},
			skip:    []string{"pot := r.Pots[potIdx]"},
			stmts:   stepStmts(map[string]string{"l.rank.Calculate()": "rank.Calculate", "winners := l.rank.GetWinners()": "winners := rank.GetWinners"}),
			multi:   steps(map[string]string{rewardLoop + " { … }": "reward loop"}),
			result:  "(v_count, v_based, v_remainder, v_offset, v_pot_oddChipOffset, v_eff)",
		},
		alone(&spec{
			file: settleFile, recv: "Result", name: "CalculateWinnerRewards", leanName: "settleRewardStep",
			params: "{P : Type} (potIdx : P) (i offset count remainder based wager total : Int) (wIdx : Nat)", resultType: updateCallT,
			loop:    rewardLoop,
			tracked: map[string]string{"eff": "[]", "reward": zero},
			exprs: map[string]string{"potIdx": "potIdx", "int64(i)": "i", "offset": "offset", "count": "count", "remainder": "remainder",
				"based": "based", "l.Wager": "wager", "l.Total": "total", "wIdx": "wIdx"},
			effcalls: map[string]string{"r.Update": "Update"},
			result:   "v_eff",
		}),
		&spec{
			file: settleFile, recv: "Result", name: "CalculateLoserResults", leanName: "settleLoserStep",
			params: "{P : Type} (potIdx : P) (wager total : Int) (lIdx : Nat)", resultType: updateCallT,
			loop: loserLoop, around: []string{"losers := l.rank.GetLoser()"},
			tracked:  map[string]string{"eff": "[]"},
			exprs:    map[string]string{"potIdx": "potIdx", "l.Wager": "wager", "l.Total": "total", "lIdx": "lIdx"},
			effcalls: map[string]string{"r.Update": "Update"},
			result:   "v_eff",
		},
		&spec{
			file: settleFile, recv: "Result", name: "CalculatePot", leanName: "settleCalcPotStep",
			params: "", resultType: stepsT,
			loop: calcPotLoop, around: nil,
			tracked: map[string]string{"eff": stepsInit},
			stmts: stepStmts(map[string]string{"r.CalculateWinnerRewards(potIdx, l)": "CalculateWinnerRewards(potIdx, l)",
				"r.CalculateLoserResults(potIdx, l)": "CalculateLoserResults(potIdx, l)"}),
			result: "v_eff",
		},
		&spec{
			file: settleFile, recv: "Result", name: "Calculate", leanName: "settleCalculateStep",
			params: "", resultType: stepsT,
			loop: calculateLoop, around: nil,
			tracked: map[string]string{"eff": stepsInit},
			stmts:   stepStmts(map[string]string{"r.CalculatePot(potIdx, pot)": "CalculatePot(potIdx, pot)"}),
			result:  "v_eff",
		},
	)
}

// ---- combination/combination.go (the selection of five cards), power.go (the best hand of a player) ----

const (
	cbFile = "combination/combination.go"
	pwFile = "power.go"

	gosperLoop   = "for cur < limit"
	bitsLoop     = "for i := 0; i < n; i++"
	posBinsLoop  = "for _, v := range posBins"
	pickLoop     = "for _, p := range positions"
	holeCombLoop = "for _, cards := range holeCardCombinations"
	boardLoop    = "for _, bCards := range boardCardCombinations"
	powersLoop   = "for _, c := range combinations"
)

func init() {
	zero := "(0 : Int)"
	nat0 := "(0 : Nat)"
	add("Pots",
		// gospersHack: the start values; one iteration (the bit arithmetic is read by the expression table:
		// `cur & -cur` ↦ `lowbit cur` (the lowest set bit, a parameter), `(((r ^ cur) >> 2) / lb) | r` on natural numbers)
		&spec{
			file: cbFile, recv: "", name: "gospersHack", leanName: "combosGosperInit",
			params: "(k n : Nat)", resultType: "Nat × Nat",
			tracked: map[string]string{"cur": nat0, "limit": nat0},
			exprs:   map[string]string{"(1 << k) - 1": "((1 <<< k) - 1)", "1 << n": "(1 <<< n)"},
			skip:    []string{"result := make([]int, 0)"},
			stopAt:  gosperLoop, result: "(v_cur, v_limit)",
		},
		&spec{
			file: cbFile, recv: "", name: "gospersHack", leanName: "combosGosperStep",
			params: "(lowbit : Nat → Nat) (cur0 : Nat) (result0 : List Nat)", resultType: "List Nat × Nat",
			loop: gosperLoop, around: []string{"…", "return result"},
			tracked: map[string]string{"result": "result0", "cur": "cur0", "lb": nat0, "r": nat0},
			exprs:   map[string]string{"cur & -cur": "(lowbit v_cur)", "(((r ^ cur) >> 2) / lb) | r": "((((v_r ^^^ v_cur) >>> 2) / v_lb) ||| v_r)"},
			result:  "(v_result, v_cur)",
		},
		&spec{
			file: cbFile, recv: "", name: "binaryOnesPositions", leanName: "combosBitStep",
			params: "(bit : Bool) (i : Nat) (positions0 : List Nat)", resultType: "List Nat",
			loop: bitsLoop, around: []string{"var positions []int", "return positions"},
			tracked: map[string]string{"positions": "positions0"},
			exprs:   map[string]string{"(value>>i)&1 == 1": "bit", "i": "i"},
			result:  "v_positions",
		},
		// GetPossibleCombinations: few cards ⇒ the cards themselves; else one selection per bit pattern of gospersHack(n, total)
		&spec{
			file: cbFile, recv: "", name: "GetPossibleCombinations", leanName: "combosPossible",
			params: "{A : Type} (cards : List A) (n : Int) (inner : Int → Int → List (List A) → List (List A))", resultType: "List (List A)",
			tracked: map[string]string{"combinations": "([] : List (List A))", "total": zero, "hackK": zero, "hackN": zero},
			exprs:   map[string]string{"make([][]string, 0)": "([] : List (List A))", "len(cards)": "(cards.length : Int)", "n": "n", "cards": "cards"},
			multi: map[string][][2]string{"posBins := gospersHack(n, total)": {{"hackK", "n"}, {"hackN", "v_total"}},
				posBinsLoop + " { … }": {{"combinations", "(inner v_hackK v_hackN v_combinations)"}}},
			result: "v_combinations",
		},
		alone(&spec{
			file: cbFile, recv: "", name: "GetPossibleCombinations", leanName: "combosPossibleStep",
			params: "{A : Type} (inner : List A → List A) (combination0 : List A) (combinations0 : List (List A))", resultType: "List (List A)",
			loop:    posBinsLoop,
			tracked: map[string]string{"combinations": "combinations0", "combination": "combination0"},
			exprs:   map[string]string{"make([]string, 0)": "([] : List A)"},
			multi: map[string][][2]string{"positions := binaryOnesPositions(v, total)": {},
				pickLoop + " { … }": {{"combination", "(inner v_combination)"}}},
			result: "v_combinations",
		}),
		alone(at(&spec{
			file: cbFile, recv: "", name: "GetPossibleCombinations", leanName: "combosPickStep",
			params: "{A : Type} (card : A) (combination0 : List A)", resultType: "List A",
			loop:    pickLoop,
			tracked: map[string]string{"combination": "combination0"},
			exprs:   map[string]string{"cards[p]": "card"},
			result:  "v_combination",
		}, posBinsLoop)),
		// GetAllPossibleCombinations: no required hole cards ⇒ any five of hole ++ board; else exactly `holeCardsCount`
		// of the hole cards and `5 - holeCardsCount` of the board
		funcs(retExpr(&spec{
			file: cbFile, recv: "", name: "GetAllPossibleCombinations", leanName: "combosAll",
			params: "{A : Type} (possible : List A → Int → List (List A)) (boardCards holeCards : List A) (holeCardsCount : Int)" +
				" (inner : List (List A) → List (List A) → List (List A) → List (List A))",
			resultType: "List (List A)",
			tracked: map[string]string{"combinations": "([] : List (List A))", "allCards": "([] : List A)",
				"holeCardCombinations": "([] : List (List A))", "boardCardCombinations": "([] : List (List A))"},
			exprs: map[string]string{"make([][]string, 0)": "([] : List (List A))", "make([]string, 0)": "([] : List A)",
				"holeCardsCount": "holeCardsCount", "holeCards": "holeCards", "boardCards": "boardCards"},
			multi: map[string][][2]string{holeCombLoop + " { … }": {{"combinations",
				"(inner v_holeCardCombinations v_boardCardCombinations v_combinations)"}}},
			result: "v_combinations",
		}), map[string]string{"GetPossibleCombinations": "possible"}),
		alone(at(&spec{
			file: cbFile, recv: "", name: "GetAllPossibleCombinations", leanName: "combosAllStep",
			params: "{A : Type} (cards bCards allCards0 : List A) (combinations0 : List (List A))", resultType: "List (List A)",
			loop:    boardLoop,
			tracked: map[string]string{"combinations": "combinations0", "allCards": "allCards0"},
			exprs:   map[string]string{"make([]string, 0)": "([] : List A)", "cards": "cards", "bCards": "bCards"},
			result:  "v_combinations",
		}, holeCombLoop)),
		// power.go
		&spec{
			file: pwFile, recv: "game", name: "CalculatePlayerPower", leanName: "powerBest",
			params: "", resultType: stepsT,
			tracked: map[string]string{"eff": stepsInit},
			stmts:   stepStmts(map[string]string{"powers := g.GetAllPowersByPlayer(p)": "powers := GetAllPowersByPlayer(p)"}),
			returns: stepReturns(map[string]string{"powers[0]": "return powers[0]"}),
			result:  "v_eff",
		},
		&spec{
			file: pwFile, recv: "game", name: "GetAllPowersByPlayer", leanName: "powerAll",
			params: "", resultType: stepsT,
			tracked: map[string]string{"eff": stepsInit},
			stmts: stepStmts(map[string]string{"powers := make([]*combination.PowerState, 0)": "powers := []",
				"combinations := g.GetAllPossibileCombinations(p, g.gs.Meta.RequiredHoleCardsCount)": "combinations := GetAllPossibileCombinations(p, RequiredHoleCardsCount)",
				"sort.Slice(powers, …": "sort powers"}),
			multi:   steps(map[string]string{powersLoop + " { … }": "power of every combination"}),
			returns: stepReturns(map[string]string{"powers": "return powers"}),
			result:  "v_eff",
		},
		funcs(alone(&spec{
			file: pwFile, recv: "game", name: "GetAllPowersByPlayer", leanName: "powerAllStep",
			params: "{C P : Type} (power : C → P) (c : C) (ps0 : P) (powers0 : List P)", resultType: "List P",
			loop:    powersLoop,
			tracked: map[string]string{"powers": "powers0", "ps": "ps0"},
			exprs:   map[string]string{"c": "c"},
			result:  "v_powers",
		}), map[string]string{"g.CalculateCombinationPower": "power"}),
		at(retExpr(&spec{
			file: pwFile, recv: "game", name: "GetAllPowersByPlayer", leanName: "powerGreater",
			params: "(si sj : Nat)", resultType: "Bool",
			tracked: map[string]string{},
			exprs:   map[string]string{"powers[i].Score": "si", "powers[j].Score": "sj"},
			result:  "false",
		}), "func@sort.Slice(powers, "),
		funcs(retExpr(&spec{
			file: pwFile, recv: "game", name: "GetAllPossibileCombinations", leanName: "powerCombos",
			params: "{B H R : Type} (all : B → H → Int → R) (board : B) (hole : H) (holeCardsCount : Int) (dflt : R)", resultType: "R",
			tracked: map[string]string{},
			exprs:   map[string]string{"g.gs.Status.Board": "board", "p.HoleCards": "hole", "holeCardsCount": "holeCardsCount"},
			result:  "dflt",
		}), map[string]string{"combination.GetAllPossibleCombinations": "all"}),
		funcs(retExpr(&spec{
			file: pwFile, recv: "game", name: "CalculateCombinationPower", leanName: "powerCalc",
			params: "{T C R : Type} (power : T → C → R) (table : T) (cards : C) (dflt : R)", resultType: "R",
			tracked: map[string]string{},
			exprs:   map[string]string{"g.gs.Meta.CombinationPowers": "table", "cards": "cards"},
			result:  "dflt",
		}), map[string]string{"combination.CalculatePower": "power"}),
	)
}
