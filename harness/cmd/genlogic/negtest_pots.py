#!/usr/bin/env python3
# negative tests of the K1 translated-logic obligations of group "Pots" (pot/level_list.go, settlement/*.go,
# game_state.go AsPlayer / AsObserver, combination/combination.go, power.go): apply one edit to a scratch copy of
# the repo, regenerate with genlogic, rebuild Proofs/GeneratedLogicPots, report which theorems break
# (same mechanism as negtest.py / negtest_reg.py).
# usage: cp -r /repo $SCR; cp -r <lean project> $LW; GENLOGIC=<binary> negtest_pots.py [name-prefix ...]
import subprocess, re, sys, os
REPO=os.environ.get('REPO','/repo'); SCR=os.environ.get('SCR','/tmp/gpotsneg'); LW=os.environ.get('LW','/tmp/lw-gpots-neg')
GENLOGIC=os.environ.get("GENLOGIC","/tmp/hw-gpots/genlogic")
MODS=['Pokerface.Proofs.GeneratedLogicPots']
ENV=dict(os.environ, GOFLAGS='-mod=mod', GOPROXY='off', GOSUMDB='off', GOTOOLCHAIN='local')
LL='pot/level_list.go'; RK='settlement/rank.go'; LV='settlement/level.go'; SP='settlement/pot.go'; ST='settlement/settlement.go'
GS='game_state.go'; CB='combination/combination.go'; PW='power.go'
results=[]
def run(name, F, old, new):
    src=open(f'{REPO}/{F}').read()
    if src.count(old)!=1:
        print(f'{name}: PATTERN NOT FOUND OR NOT UNIQUE ({src.count(old)})'); results.append((name,'PATTERN',[],'')); return
    open(f'{SCR}/{F}','w').write(src.replace(old,new))
    c=subprocess.run(['go','build','.','./pot','./settlement','./combination'],cwd=SCR,env=ENV,capture_output=True,text=True)
    compiles = 'compiles' if c.returncode==0 else 'DOES NOT COMPILE: '+c.stderr.strip().splitlines()[-1]
    subprocess.run([GENLOGIC,SCR,f'{LW}/Pokerface/Generated'],check=True)
    untr=sorted(set(re.findall(r'^-- UNTRANSLATED (.*)$',open(f'{LW}/Pokerface/Generated/LogicPots.lean').read(),re.M)))
    r=subprocess.run(['lake','build']+MODS,cwd=LW,capture_output=True,text=True)
    out=r.stdout+r.stderr
    broken=set()
    for m in re.finditer(r'error: Pokerface/Proofs/(GeneratedLogic\w*).lean:(\d+):',out):
        proof=open(f'{LW}/Pokerface/Proofs/{m.group(1)}.lean').read().splitlines()
        ln=int(m.group(2))
        while ln-1 < len(proof) and (proof[ln-1].startswith('/--') or (not re.match(r'\s*(theorem|def|example)\b',proof[ln-1]) and not proof[ln-1].startswith(' '))): ln+=1   # an error at a doc comment belongs to the declaration below
        for k in range(min(ln,len(proof))-1,-1,-1):
            mm=re.match(r'(theorem|def|example)\s*(\S*)',proof[k])
            if mm: broken.add(mm.group(2) if mm.group(1)!='example' else 'example'); break
    gen=sorted(set(re.findall(r'error: Pokerface/Generated/(Logic\w*).lean',out)))
    gen_err = 'LogicPots.lean untranslatable (does not compile): '+'; '.join(u[:90] for u in untr) if gen else ''
    status='CAUGHT' if r.returncode!=0 else 'NOT CAUGHT'
    print(f'{name}: {status} [{compiles}] {gen_err} broken={sorted(broken)}', flush=True)
    results.append((name,status,sorted(broken),gen_err))
    open(f'{SCR}/{F}','w').write(src)
SORTLL='\tsort.Slice(ll.levels, func(i, j int) bool {\n\t\treturn ll.levels[i].Level < ll.levels[j].Level\n\t})\n'
FOLDEDTEST='\t\t\tif _, ok := ll.foldedPlayers[cIdx]; ok {\n\t\t\t\tcontinue\n\t\t\t}\n'
ASP='func (gs *GameState) AsPlayer(idx int) {\n\n'
ASO='func (gs *GameState) AsObserver() {\n\n'
BLANK='\tgs.Meta.Deck = []string{}\n\tgs.Status.Burned = []string{}\n'
ASP_CLOSED='\t// Do nothing if game has been closed already\n\tif gs.Status.CurrentEvent == "GameClosed" {'
ASO_CLOSED='\tgs.Status.Burned = []string{}\n\n\tif gs.Status.CurrentEvent == "GameClosed" {\n\n\t\tfor _, p := range gs.Players {\n\n\t\t\t// Hide'
ASP_FOLD='\t\t\t\tcontinue\n\t\t\t}\n\n\t\t\t// Hide private information if player do fold\n\t\t\tif p.Fold {'
ASO_FOLD='\t\tfor _, p := range gs.Players {\n\n\t\t\t// Hide private information if player do fold\n\t\t\tif p.Fold {'
tests=[
 # ---- pot/level_list.go: AssertLevel, AddContributor ----
 ('assert-eq-flipped',LL,'if pot.Level == level {','if pot.Level != level {'),
 ('assert-new-level-step',LL,'\t\tLevel:        level,\n\t\tWager:        0,','\t\tLevel:        level,\n\t\tWager:        level,'),
 ('assert-new-level-value',LL,'\t\tLevel:        level,\n\t\tWager:        0,','\t\tLevel:        0,\n\t\tWager:        0,'),
 ('assert-no-append',LL,'\tll.levels = append(ll.levels, l)\n',''),
 ('assert-prepend',LL,'ll.levels = append(ll.levels, l)','ll.levels = append([]*Level{l}, ll.levels...)'),
 ('add-fold-dropped',LL,'\tif fold {\n\t\tll.foldedPlayers[contributorIdx] = true\n\t}\n',''),
 ('add-fold-negated',LL,'\tif fold {\n\t\tll.foldedPlayers','\tif !fold {\n\t\tll.foldedPlayers'),
 ('add-fold-unconditional',LL,'\tif fold {\n\t\tll.foldedPlayers[contributorIdx] = true\n\t}\n','\tll.foldedPlayers[contributorIdx] = true\n'),
 ('add-sort-descending',LL,'return ll.levels[i].Level < ll.levels[j].Level','return ll.levels[i].Level > ll.levels[j].Level'),
 ('add-sort-le',LL,'return ll.levels[i].Level < ll.levels[j].Level','return ll.levels[i].Level <= ll.levels[j].Level'),
 ('add-sort-by-step',LL,'return ll.levels[i].Level < ll.levels[j].Level','return ll.levels[i].Wager < ll.levels[j].Wager'),
 ('add-sort-removed',LL,SORTLL,''),
 ('add-assert-after-sort',LL,'\tll.AssertLevel(wager)\n\n'+SORTLL,SORTLL+'\n\tll.AssertLevel(wager)\n'),
 ('add-record-after-levels',LL,'\tll.contributors[contributorIdx] = wager\n\tif fold {\n\t\tll.foldedPlayers[contributorIdx] = true\n\t}\n\n\tll.AssertLevel(wager)\n\n'+SORTLL,
    '\tif fold {\n\t\tll.foldedPlayers[contributorIdx] = true\n\t}\n\n\tll.AssertLevel(wager)\n\n'+SORTLL+'\tdefer func() { ll.contributors[contributorIdx] = wager }()\n'),
 ('add-contrib-le-lt',LL,'if pot.Level <= wager {','if pot.Level < wager {'),
 ('add-contrib-flipped',LL,'if pot.Level <= wager {','if pot.Level >= wager {'),
 ('add-contrib-wrong-levels',LL,'if pot.Level <= wager {','if wager <= pot.Level {'),
 ('add-contrib-no-reset',LL,'\t\t// Reset contributor list\n\t\tpot.Contributors = make([]int, 0)\n',''),
 ('add-contrib-reset-after',LL,'\t\t// Reset contributor list\n\t\tpot.Contributors = make([]int, 0)\n\t\tfor idx, wager := range ll.contributors {\n\t\t\tif pot.Level <= wager {\n\t\t\t\tpot.Contributors = append(pot.Contributors, idx)\n\t\t\t}\n\t\t}\n',
    '\t\tfor idx, wager := range ll.contributors {\n\t\t\tif pot.Level <= wager {\n\t\t\t\tpot.Contributors = append(pot.Contributors, idx)\n\t\t\t}\n\t\t}\n\t\tpot.Contributors = make([]int, 0)\n'),
 ('add-contrib-break',LL,'\t\t\t\tpot.Contributors = append(pot.Contributors, idx)\n\t\t\t}\n','\t\t\t\tpot.Contributors = append(pot.Contributors, idx)\n\t\t\t\tbreak\n\t\t\t}\n'),
 ('add-step-not-shrunk',LL,'l.Wager = l.Level - prevLevel','l.Wager = l.Level'),
 ('add-step-swapped',LL,'l.Wager = l.Level - prevLevel','l.Wager = prevLevel - l.Level'),
 ('add-total-wrong-count',LL,'l.Total = int64(len(l.Contributors)) * l.Wager','l.Total = int64(len(ll.contributors)) * l.Wager'),
 ('add-total-times-level',LL,'l.Total = int64(len(l.Contributors)) * l.Wager','l.Total = int64(len(l.Contributors)) * l.Level'),
 ('add-total-plus',LL,'l.Total = int64(len(l.Contributors)) * l.Wager','l.Total = int64(len(l.Contributors)) + l.Wager'),
 ('add-total-before-step',LL,'\t\tl.Wager = l.Level - prevLevel\n\t\tl.Total = int64(len(l.Contributors)) * l.Wager\n','\t\tl.Total = int64(len(l.Contributors)) * l.Wager\n\t\tl.Wager = l.Level - prevLevel\n'),
 ('add-prev-not-advanced',LL,'\t\tprevLevel = l.Level\n',''),
 ('add-prev-advanced-first',LL,'\t\tl.Wager = l.Level - prevLevel\n\t\tl.Total = int64(len(l.Contributors)) * l.Wager\n\t\tprevLevel = l.Level\n','\t\tprevLevel = l.Level\n\t\tl.Wager = l.Level - prevLevel\n\t\tl.Total = int64(len(l.Contributors)) * l.Wager\n'),
 ('add-prev-init-one',LL,'prevLevel := int64(0)','prevLevel := int64(1)'),
 # ---- pot/level_list.go: GetPots ----
 ('getpots-folded-test-dropped',LL,FOLDEDTEST,''),
 ('getpots-folded-test-negated',LL,'if _, ok := ll.foldedPlayers[cIdx]; ok {','if _, ok := ll.foldedPlayers[cIdx]; !ok {'),
 ('getpots-folded-continue-break',LL,'\t\t\tif _, ok := ll.foldedPlayers[cIdx]; ok {\n\t\t\t\tcontinue','\t\t\tif _, ok := ll.foldedPlayers[cIdx]; ok {\n\t\t\t\tbreak'),
 ('getpots-folded-test-on-contributors',LL,'if _, ok := ll.foldedPlayers[cIdx]; ok {','if _, ok := ll.contributors[cIdx]; ok {'),
 ('getpots-orig-enters-total',LL,'p.Contributors[cIdx] = l.Wager','p.Contributors[cIdx] = l.Total'),
 ('getpots-orig-enters-level',LL,'p.Contributors[cIdx] = l.Wager','p.Contributors[cIdx] = l.Level'),
 ('getpots-orig-enters-accumulated',LL,'p.Contributors[cIdx] = l.Wager','p.Contributors[cIdx] += l.Wager'),
 ('getpots-orig-total-field',LL,'\t\t\tTotal:        l.Total,','\t\t\tTotal:        l.Wager,'),
 ('getpots-orig-step-field',LL,'\t\t\tWager:        l.Wager,','\t\t\tWager:        l.Level,'),
 ('getpots-orig-level-not-listed',LL,'\t\tp.Levels = append(p.Levels, l)\n',''),
 ('getpots-orig-not-appended',LL,'\t\torigPots = append(origPots, p)\n',''),
 ('getpots-merge-cond-weakened',LL,'if len(prev.Contributors) != len(p.Contributors) {','if len(prev.Contributors) < len(p.Contributors) {'),
 ('getpots-merge-cond-eq',LL,'if len(prev.Contributors) != len(p.Contributors) {','if len(prev.Contributors) == len(p.Contributors) {'),
 ('getpots-merge-cond-levels',LL,'if len(prev.Contributors) != len(p.Contributors) {','if len(prev.Levels) != len(p.Levels) {'),
 ('getpots-merge-first-test',LL,'\t\tif i == 0 {\n\t\t\tpots','\t\tif i == 1 {\n\t\t\tpots'),
 ('getpots-merge-first-test-dropped',LL,'\t\tif i == 0 {\n\t\t\tpots = append(pots, p)\n\t\t\tprev = p\n\t\t\tcontinue\n\t\t}\n\n',''),
 ('getpots-merge-open-pot-not-moved',LL,'\t\t\tpots = append(pots, p)\n\t\t\tprev = p\n\t\t\tcontinue\n\t\t}\n\n\t\tprev.Level','\t\t\tpots = append(pots, p)\n\t\t\tcontinue\n\t\t}\n\n\t\tprev.Level'),
 ('getpots-merge-not-pushed',LL,'\t\t\tpots = append(pots, p)\n\t\t\tprev = p\n\t\t\tcontinue\n\t\t}\n\n\t\tprev.Level','\t\t\tprev = p\n\t\t\tcontinue\n\t\t}\n\n\t\tprev.Level'),
 ('getpots-merge-continue-break',LL,'\t\t\tprev = p\n\t\t\tcontinue\n\t\t}\n\n\t\tprev.Level','\t\t\tprev = p\n\t\t\tbreak\n\t\t}\n\n\t\tprev.Level'),
 ('getpots-merge-no-continue',LL,'\t\t\tprev = p\n\t\t\tcontinue\n\t\t}\n\n\t\tprev.Level','\t\t\tprev = p\n\t\t}\n\n\t\tprev.Level'),
 ('getpots-merge-level-kept',LL,'\t\tprev.Level = p.Level\n',''),
 ('getpots-merge-step-assigned',LL,'prev.Wager += p.Wager','prev.Wager = p.Wager'),
 ('getpots-merge-total-adds-step',LL,'prev.Total += p.Total','prev.Total += p.Wager'),
 ('getpots-merge-total-minus',LL,'prev.Total += p.Total','prev.Total -= p.Total'),
 ('getpots-merge-levels-dropped',LL,'\t\tprev.Levels = append(prev.Levels, p.Levels...)\n',''),
 ('getpots-merge-levels-prepended',LL,'prev.Levels = append(prev.Levels, p.Levels...)','prev.Levels = append(p.Levels, prev.Levels...)'),
 ('getpots-merge-contrib-assigned',LL,'prev.Contributors[pIdx] += wager','prev.Contributors[pIdx] = wager'),
 ('getpots-merge-contrib-dropped',LL,'\t\tfor pIdx, wager := range p.Contributors {\n\t\t\tprev.Contributors[pIdx] += wager\n\t\t}\n',''),
 ('getpots-folded-zero-le',LL,'\t\tif wager == 0 {\n\t\t\tcontinue','\t\tif wager <= 0 {\n\t\t\tcontinue'),
 ('getpots-folded-zero-dropped',LL,'\t\tif wager == 0 {\n\t\t\tcontinue\n\t\t}\n',''),
 ('getpots-folded-zero-break',LL,'\t\tif wager == 0 {\n\t\t\tcontinue','\t\tif wager == 0 {\n\t\t\tbreak'),
 ('getpots-folded-break-le',LL,'if wager < p.Level {','if wager <= p.Level {'),
 ('getpots-folded-break-flipped',LL,'if wager < p.Level {','if wager > p.Level {'),
 ('getpots-folded-break-dropped',LL,'\n\t\t\tif wager < p.Level {\n\t\t\t\tbreak\n\t\t\t}\n',''),
 ('getpots-folded-break-continue',LL,'\t\t\tif wager < p.Level {\n\t\t\t\tbreak','\t\t\tif wager < p.Level {\n\t\t\t\tcontinue'),
 ('getpots-folded-break-before-entry',LL,'\t\t\tp.Contributors[pIdx] = wager\n\n\t\t\tif wager < p.Level {\n\t\t\t\tbreak\n\t\t\t}\n','\t\t\tif wager < p.Level {\n\t\t\t\tbreak\n\t\t\t}\n\t\t\tp.Contributors[pIdx] = wager\n'),
 ('getpots-folded-entry-adds',LL,'\t\t\tp.Contributors[pIdx] = wager\n','\t\t\tp.Contributors[pIdx] += wager\n'),
 ('getpots-folded-loop-dropped',LL,'\t\tfor _, p := range pots {\n\t\t\tp.Contributors[pIdx] = wager\n\n\t\t\tif wager < p.Level {\n\t\t\t\tbreak\n\t\t\t}\n\t\t}\n',''),
 ('getpots-returns-orig',LL,'\treturn pots\n}','\treturn origPots\n}'),
 # ---- settlement/rank.go ----
 ('rank-add-eq-flipped',RK,'if g.Score == score {','if g.Score != score {'),
 ('rank-add-ge',RK,'if g.Score == score {','if g.Score >= score {'),
 ('rank-add-no-return',RK,'\t\t\tg.Contributors = append(g.Contributors, contributerIdx)\n\t\t\treturn\n','\t\t\tg.Contributors = append(g.Contributors, contributerIdx)\n'),
 ('rank-add-new-group-empty',RK,'\tg.Contributors = append(g.Contributors, contributerIdx)\n\n\tr.groups','\tr.groups'),
 ('rank-add-new-group-score',RK,'\t\tScore:        score,','\t\tScore:        0,'),
 ('rank-add-new-group-prepended',RK,'r.groups = append(r.groups, g)','r.groups = append([]*RankGroup{g}, r.groups...)'),
 ('rank-sort-ascending',RK,'return r.groups[i].Score > r.groups[j].Score','return r.groups[i].Score < r.groups[j].Score'),
 ('rank-sort-ge',RK,'return r.groups[i].Score > r.groups[j].Score','return r.groups[i].Score >= r.groups[j].Score'),
 ('rank-sort-removed',RK,'\tsort.Slice(r.groups, func(i, j int) bool {\n\t\treturn r.groups[i].Score > r.groups[j].Score\n\t})\n','\t_ = sort.Slice\n'),
 ('rank-winners-last-group',RK,'return r.groups[0].Contributors','return r.groups[len(r.groups)-1].Contributors'),
 ('rank-winners-empty-test',RK,'func (r *Rank) GetWinners() []int {\n\n\tif len(r.groups) == 0 {','func (r *Rank) GetWinners() []int {\n\n\tif len(r.groups) != 0 {'),
 ('rank-loser-skip-dropped',RK,'\t\tif i == 0 {\n\t\t\tcontinue\n\t\t}\n\n',''),
 ('rank-loser-skip-second',RK,'\t\tif i == 0 {\n\t\t\tcontinue','\t\tif i == 1 {\n\t\t\tcontinue'),
 ('rank-loser-continue-break',RK,'\t\tif i == 0 {\n\t\t\tcontinue','\t\tif i == 0 {\n\t\t\tbreak'),
 ('rank-loser-ne',RK,'\t\tif i == 0 {\n\t\t\tcontinue','\t\tif i != 0 {\n\t\t\tcontinue'),
 # ---- settlement/level.go, pot.go ----
 ('level-score-ne',LV,'if c == playerIdx {','if c != playerIdx {'),
 ('level-score-break-continue',LV,'\t\t\tli.rank.AddContributor(score, playerIdx)\n\t\t\tbreak','\t\t\tli.rank.AddContributor(score, playerIdx)\n\t\t\tcontinue'),
 ('level-score-break-first',LV,'\t\t\tli.rank.AddContributor(score, playerIdx)\n\t\t\tbreak\n\t\t}\n','\t\t\tli.rank.AddContributor(score, playerIdx)\n\t\t}\n\t\tbreak\n'),
 ('level-addlevel-step-total',LV,'\t\tWager:        wager,','\t\tWager:        total,'),
 ('level-addlevel-prepend',LV,'pl.levels = append(pl.levels, &LevelInfo{','pl.levels = append([]*LevelInfo{}, &LevelInfo{'),
 ('winner-eq-flipped',SP,'if winner.Idx == playerIdx {','if winner.Idx != playerIdx {'),
 ('winner-assigned',SP,'winner.Withdraw += withdraw','winner.Withdraw = withdraw'),
 ('winner-no-return',SP,'\t\t\twinner.Withdraw += withdraw\n\t\t\treturn\n','\t\t\twinner.Withdraw += withdraw\n'),
 ('winner-new-zero',SP,'\t\tWithdraw: withdraw,','\t\tWithdraw: 0,'),
 ('winner-new-not-appended',SP,'\tpr.Winners = append(pr.Winners, w)\n','\t_ = w\n'),
 # ---- settlement/settlement.go ----
 ('update-winner-test-ge',ST,'if withdraw > 0 {','if withdraw >= 0 {'),
 ('update-winner-test-dropped',ST,'\tif withdraw > 0 {\n\t\tpot.UpdateWinner(playerIdx, withdraw+wager)\n\t}\n','\tpot.UpdateWinner(playerIdx, withdraw+wager)\n'),
 ('update-winner-net',ST,'pot.UpdateWinner(playerIdx, withdraw+wager)','pot.UpdateWinner(playerIdx, withdraw)'),
 ('update-winner-after-players',ST,'\tif withdraw > 0 {\n\t\tpot.UpdateWinner(playerIdx, withdraw+wager)\n\t}\n\n\t// Update player results\n','\tdefer func() {\n\t\tif withdraw > 0 {\n\t\t\tpot.UpdateWinner(playerIdx, withdraw+wager)\n\t\t}\n\t}()\n\n'),
 ('update-changed-dropped',ST,'\t\t\tp.Changed += withdraw\n',''),
 ('update-final-minus',ST,'p.Final += withdraw','p.Final -= withdraw'),
 ('update-final-adds-wager',ST,'p.Final += withdraw','p.Final += withdraw + wager'),
 ('update-no-return',ST,'\t\t\tp.Changed += withdraw\n\t\t\treturn\n','\t\t\tp.Changed += withdraw\n'),
 ('update-idx-ne',ST,'if p.Idx == playerIdx {','if p.Idx != playerIdx {'),
 ('rewards-based-mod',ST,'based := l.Total / count','based := l.Total % count'),
 ('rewards-remainder-div',ST,'remainder := l.Total % count','remainder := l.Total / count'),
 ('rewards-based-of-step',ST,'based := l.Total / count','based := l.Wager / count'),
 ('rewards-offset-div',ST,'offset := pot.oddChipOffset % count','offset := pot.oddChipOffset / count'),
 ('rewards-offset-ignored',ST,'offset := pot.oddChipOffset % count','offset := int64(0) % count'),
 ('rewards-offset-direction',ST,'(int64(i)-offset+count)%count < remainder','(int64(i)+offset+count)%count < remainder'),
 ('rewards-odd-no-count',ST,'(int64(i)-offset+count)%count < remainder','(int64(i)-offset)%count < remainder'),
 ('rewards-odd-div',ST,'(int64(i)-offset+count)%count < remainder','(int64(i)-offset+count)/count < remainder'),
 ('rewards-odd-le',ST,'(int64(i)-offset+count)%count < remainder','(int64(i)-offset+count)%count <= remainder'),
 ('rewards-odd-flipped',ST,'(int64(i)-offset+count)%count < remainder','(int64(i)-offset+count)%count > remainder'),
 ('rewards-odd-two-chips',ST,'reward += 1','reward += 2'),
 ('rewards-odd-dropped',ST,'\t\tif (int64(i)-offset+count)%count < remainder {\n\t\t\treward += 1\n\t\t}\n',''),
 ('rewards-offset-not-stored',ST,'\tpot.oddChipOffset = (offset + remainder) % count\n',''),
 ('rewards-offset-minus',ST,'pot.oddChipOffset = (offset + remainder) % count','pot.oddChipOffset = (offset - remainder) % count'),
 ('rewards-offset-no-mod',ST,'pot.oddChipOffset = (offset + remainder) % count','pot.oddChipOffset = offset + remainder'),
 ('rewards-offset-stored-div',ST,'pot.oddChipOffset = (offset + remainder) % count','pot.oddChipOffset = (offset + remainder) / count'),
 ('rewards-withdraw-gross',ST,'r.Update(potIdx, wIdx, l.Wager, reward-l.Wager)','r.Update(potIdx, wIdx, l.Wager, reward)'),
 ('rewards-update-step-zero',ST,'r.Update(potIdx, wIdx, l.Wager, reward-l.Wager)','r.Update(potIdx, wIdx, 0, reward-l.Wager)'),
 ('rewards-winners-before-calc',ST,'\tl.rank.Calculate()\n\n\t// Calculate chips for multiple winners of this pot\n\twinners := l.rank.GetWinners()\n','\twinners := l.rank.GetWinners()\n\tl.rank.Calculate()\n'),
 ('rewards-no-calc',ST,'\t// Calculate contributer ranks of this pot by score\n\tl.rank.Calculate()\n',''),
 ('loser-withdraw-positive',ST,'r.Update(potIdx, lIdx, l.Wager, -l.Wager)','r.Update(potIdx, lIdx, l.Wager, l.Wager)'),
 ('loser-withdraw-total',ST,'r.Update(potIdx, lIdx, l.Wager, -l.Wager)','r.Update(potIdx, lIdx, l.Wager, -l.Total)'),
 ('calcpot-losers-first',ST,'\t\tr.CalculateWinnerRewards(potIdx, l)\n\n\t\t// Update loser results\n\t\tr.CalculateLoserResults(potIdx, l)\n','\t\tr.CalculateLoserResults(potIdx, l)\n\t\tr.CalculateWinnerRewards(potIdx, l)\n'),
 ('calcpot-losers-dropped',ST,'\t\t// Update loser results\n\t\tr.CalculateLoserResults(potIdx, l)\n',''),
 ('calcpot-first-level-only',ST,'\t\tr.CalculateLoserResults(potIdx, l)\n','\t\tr.CalculateLoserResults(potIdx, l)\n\t\tbreak\n'),
 ('calculate-first-pot-only',ST,'\t\tr.CalculatePot(potIdx, pot)\n','\t\tr.CalculatePot(potIdx, pot)\n\t\tbreak\n'),
 ('addplayer-final-zero',ST,'\t\tFinal:   bankroll,','\t\tFinal:   0,'),
 ('addplayer-changed-bankroll',ST,'\t\tChanged: 0,','\t\tChanged: bankroll,'),
 ('addplayer-prepended',ST,'r.Players = append(r.Players, pr)','r.Players = append([]*PlayerResult{pr}, r.Players...)'),
 ('addpot-total-zero',ST,'\t\tTotal:   total,','\t\tTotal:   0,'),
 ('addpot-level-args-swapped',ST,'pr.level.AddLevel(l.Level, l.Wager, l.Total, l.Contributors)','pr.level.AddLevel(l.Level, l.Total, l.Wager, l.Contributors)'),
 ('addpot-first-level-only',ST,'\t\tpr.level.AddLevel(l.Level, l.Wager, l.Total, l.Contributors)\n','\t\tpr.level.AddLevel(l.Level, l.Wager, l.Total, l.Contributors)\n\t\tbreak\n'),
 ('updatescore-first-level-only',ST,'\t\t\tl.UpdateScore(playerIdx, score)\n','\t\t\tl.UpdateScore(playerIdx, score)\n\t\t\tbreak\n'),
 ('updatescore-score-zero',ST,'\t\t\tl.UpdateScore(playerIdx, score)\n','\t\t\tl.UpdateScore(playerIdx, 0)\n'),
 # ---- game_state.go: AsPlayer, AsObserver ----
 ('asplayer-deck-kept',GS,ASP+BLANK,ASP+'\tgs.Status.Burned = []string{}\n'),
 ('asplayer-burned-kept',GS,ASP+BLANK,ASP+'\tgs.Meta.Deck = []string{}\n'),
 ('asplayer-blanking-behind-return',GS,ASP+BLANK+'\n'+ASP_CLOSED+'\n\n\t\tfor _, p := range gs.Players {\n\t\t\tif p.Idx == idx {\n\t\t\t\tcontinue\n\t\t\t}\n\n\t\t\t// Hide private information if player do fold\n\t\t\tif p.Fold {\n\t\t\t\tp.HoleCards = []string{}\n\t\t\t\tp.Combination = nil\n\t\t\t}\n\t\t}\n\n\t\treturn\n\t}\n',
    ASP+ASP_CLOSED+'\n\n\t\tfor _, p := range gs.Players {\n\t\t\tif p.Idx == idx {\n\t\t\t\tcontinue\n\t\t\t}\n\n\t\t\t// Hide private information if player do fold\n\t\t\tif p.Fold {\n\t\t\t\tp.HoleCards = []string{}\n\t\t\t\tp.Combination = nil\n\t\t\t}\n\t\t}\n\n\t\treturn\n\t}\n\n'+BLANK),
 ('asplayer-burned-behind-return',GS,ASP+BLANK+'\n'+ASP_CLOSED+'\n\n\t\tfor _, p := range gs.Players {\n\t\t\tif p.Idx == idx {\n\t\t\t\tcontinue\n\t\t\t}\n\n\t\t\t// Hide private information if player do fold\n\t\t\tif p.Fold {\n\t\t\t\tp.HoleCards = []string{}\n\t\t\t\tp.Combination = nil\n\t\t\t}\n\t\t}\n\n\t\treturn\n\t}\n',
    ASP+'\tgs.Meta.Deck = []string{}\n\n'+ASP_CLOSED+'\n\n\t\tfor _, p := range gs.Players {\n\t\t\tif p.Idx == idx {\n\t\t\t\tcontinue\n\t\t\t}\n\n\t\t\t// Hide private information if player do fold\n\t\t\tif p.Fold {\n\t\t\t\tp.HoleCards = []string{}\n\t\t\t\tp.Combination = nil\n\t\t\t}\n\t\t}\n\n\t\treturn\n\t}\n\n\tgs.Status.Burned = []string{}\n'),
 ('asplayer-closed-cond-ne',GS,ASP_CLOSED,ASP_CLOSED.replace('==','!=')),
 ('asplayer-closed-cond-roundclosed',GS,ASP_CLOSED,ASP_CLOSED.replace('"GameClosed"','"RoundClosed"')),
 ('asplayer-closed-cond-or-roundclosed',GS,ASP_CLOSED,ASP_CLOSED.replace('gs.Status.CurrentEvent == "GameClosed"','gs.Status.CurrentEvent == "GameClosed" || gs.Status.CurrentEvent == "RoundClosed"')),
 ('asplayer-closed-viewer-flipped',GS,'\t\t\tif p.Idx == idx {','\t\t\tif p.Idx != idx {'),
 ('asplayer-closed-viewer-dropped',GS,'\t\t\tif p.Idx == idx {\n\t\t\t\tcontinue\n\t\t\t}\n\n',''),
 ('asplayer-closed-continue-break',GS,'\t\t\tif p.Idx == idx {\n\t\t\t\tcontinue','\t\t\tif p.Idx == idx {\n\t\t\t\tbreak'),
 ('asplayer-closed-fold-dropped',GS,ASP_FOLD,ASP_FOLD.replace('if p.Fold {','if true {')),
 ('asplayer-closed-fold-negated',GS,ASP_FOLD,ASP_FOLD.replace('if p.Fold {','if !p.Fold {')),
 ('asplayer-closed-comb-kept',GS,ASP_FOLD+'\n\t\t\t\tp.HoleCards = []string{}\n\t\t\t\tp.Combination = nil\n',ASP_FOLD+'\n\t\t\t\tp.HoleCards = []string{}\n'),
 ('asplayer-closed-hole-kept',GS,ASP_FOLD+'\n\t\t\t\tp.HoleCards = []string{}\n\t\t\t\tp.Combination = nil\n',ASP_FOLD+'\n\t\t\t\tp.Combination = nil\n'),
 ('asplayer-closed-no-return',GS,'\t\treturn\n\t}\n\n\tfor _, p := range gs.Players {\n\t\tif p.Idx == idx {','\t}\n\n\tfor _, p := range gs.Players {\n\t\tif p.Idx == idx {'),
 ('asplayer-open-viewer-flipped',GS,'\n\t\tif p.Idx == idx {','\n\t\tif p.Idx != idx {'),
 ('asplayer-open-viewer-dropped',GS,'\n\t\tif p.Idx == idx {\n\t\t\tcontinue\n\t\t}\n',''),
 ('asplayer-open-continue-break',GS,'\n\t\tif p.Idx == idx {\n\t\t\tcontinue','\n\t\tif p.Idx == idx {\n\t\t\tbreak'),
 ('asplayer-open-hole-kept',GS,'\t\t// Hide private information\n\t\tp.HoleCards = []string{}\n','\t\t// Hide private information\n'),
 ('asplayer-open-comb-kept',GS,'\t\t// Hide private information\n\t\tp.HoleCards = []string{}\n\t\tp.Combination = nil\n','\t\t// Hide private information\n\t\tp.HoleCards = []string{}\n'),
 ('asplayer-open-only-folded',GS,'\t\t// Hide private information\n\t\tp.HoleCards = []string{}\n\t\tp.Combination = nil\n','\t\tif p.Fold {\n\t\t\tp.HoleCards = []string{}\n\t\t\tp.Combination = nil\n\t\t}\n'),
 ('asobserver-deck-kept',GS,ASO+BLANK,ASO+'\tgs.Status.Burned = []string{}\n'),
 ('asobserver-burned-kept',GS,ASO+BLANK,ASO+'\tgs.Meta.Deck = []string{}\n'),
 ('asobserver-closed-cond-ne',GS,ASO_CLOSED,ASO_CLOSED.replace('==','!=')),
 ('asobserver-closed-cond-roundclosed',GS,ASO_CLOSED,ASO_CLOSED.replace('"GameClosed"','"RoundClosed"')),
 ('asobserver-closed-fold-negated',GS,ASO_FOLD,ASO_FOLD.replace('if p.Fold {','if !p.Fold {')),
 ('asobserver-closed-fold-dropped',GS,ASO_FOLD,ASO_FOLD.replace('if p.Fold {','if true {')),
 ('asobserver-closed-comb-kept',GS,ASO_FOLD+'\n\t\t\t\tp.HoleCards = []string{}\n\t\t\t\tp.Combination = nil\n',ASO_FOLD+'\n\t\t\t\tp.HoleCards = []string{}\n'),
 ('asobserver-closed-no-return',GS,'\t\treturn\n\t}\n\n\t// Hide all private information\n','\t}\n\n\t// Hide all private information\n'),
 ('asobserver-open-hole-kept',GS,'\t// Hide all private information\n\tfor _, p := range gs.Players {\n\t\tp.HoleCards = []string{}\n','\t// Hide all private information\n\tfor _, p := range gs.Players {\n'),
 ('asobserver-open-comb-kept',GS,'\t// Hide all private information\n\tfor _, p := range gs.Players {\n\t\tp.HoleCards = []string{}\n\t\tp.Combination = nil\n','\t// Hide all private information\n\tfor _, p := range gs.Players {\n\t\tp.HoleCards = []string{}\n'),
 ('asobserver-open-loop-first-only',GS,'\t// Hide all private information\n\tfor _, p := range gs.Players {\n\t\tp.HoleCards = []string{}\n\t\tp.Combination = nil\n','\t// Hide all private information\n\tfor _, p := range gs.Players {\n\t\tp.HoleCards = []string{}\n\t\tp.Combination = nil\n\t\tbreak\n'),
 # ---- combination/combination.go, power.go ----
 ('combos-few-cards-lt',CB,'if total <= n {','if total < n {'),
 ('combos-few-cards-flipped',CB,'if total <= n {','if total >= n {'),
 ('combos-pick-mirrored',CB,'combination = append(combination, cards[p])','combination = append(combination, cards[len(cards)-1-p])'),
 ('combos-selection-not-appended',CB,'\t\tcombinations = append(combinations, combination)\n','\t\t_ = combination\n'),
 ('combos-selection-not-reset',CB,'\tfor _, v := range posBins {\n\t\tpositions := binaryOnesPositions(v, total)\n\t\tcombination := make([]string, 0)\n','\tcombination := make([]string, 0)\n\tfor _, v := range posBins {\n\t\tpositions := binaryOnesPositions(v, total)\n'),
 ('combos-hack-args-swapped',CB,'posBins := gospersHack(n, total)','posBins := gospersHack(total, n)'),
 ('all-zero-test-flipped',CB,'if holeCardsCount == 0 {','if holeCardsCount != 0 {'),
 ('all-any-four',CB,'return GetPossibleCombinations(allCards, 5)','return GetPossibleCombinations(allCards, 4)'),
 ('all-board-count-five',CB,'GetPossibleCombinations(boardCards, 5-holeCardsCount)','GetPossibleCombinations(boardCards, 5)'),
 ('all-board-count-plus',CB,'GetPossibleCombinations(boardCards, 5-holeCardsCount)','GetPossibleCombinations(boardCards, 5+holeCardsCount)'),
 ('all-hole-count-plus-one',CB,'GetPossibleCombinations(holeCards, holeCardsCount)','GetPossibleCombinations(holeCards, holeCardsCount+1)'),
 ('all-hole-from-board',CB,'GetPossibleCombinations(holeCards, holeCardsCount)','GetPossibleCombinations(boardCards, holeCardsCount)'),
 ('all-zero-branch-no-hole-cards',CB,'\t\tallCards = append(allCards, holeCards...)\n',''),
 ('all-board-cards-first',CB,'\t\t\tallCards = append(allCards, cards...)\n\t\t\tallCards = append(allCards, bCards...)\n','\t\t\tallCards = append(allCards, bCards...)\n\t\t\tallCards = append(allCards, cards...)\n'),
 ('all-board-cards-omitted',CB,'\t\t\tallCards = append(allCards, bCards...)\n',''),
 ('all-candidate-not-reset',CB,'\tfor _, cards := range holeCardCombinations {\n\n\t\tfor _, bCards := range boardCardCombinations {\n\t\t\tallCards := make([]string, 0)\n','\tallCards := make([]string, 0)\n\tfor _, cards := range holeCardCombinations {\n\n\t\tfor _, bCards := range boardCardCombinations {\n'),
 ('all-candidate-not-appended',CB,'\t\t\tcombinations = append(combinations, allCards)\n','\t\t\t_ = allCards\n'),
 ('all-first-board-selection-only',CB,'\t\t\tcombinations = append(combinations, allCards)\n','\t\t\tcombinations = append(combinations, allCards)\n\t\t\tbreak\n'),
 ('gosper-limit-k',CB,'limit := 1 << n','limit := 1 << k'),
 ('gosper-start',CB,'cur := (1 << k) - 1','cur := (1 << k)'),
 ('gosper-next-shift',CB,'cur = (((r ^ cur) >> 2) / lb) | r','cur = (((r ^ cur) >> 1) / lb) | r'),
 ('gosper-header-le',CB,'for cur < limit {','for cur <= limit {'),
 ('gosper-record-after-advance',CB,'\t\tresult = append(result, cur)\n\n\t\tlb := cur & -cur\n\t\tr := cur + lb\n\t\tcur = (((r ^ cur) >> 2) / lb) | r\n','\t\tlb := cur & -cur\n\t\tr := cur + lb\n\t\tcur = (((r ^ cur) >> 2) / lb) | r\n\t\tresult = append(result, cur)\n'),
 ('bits-test-zero',CB,'if (value>>i)&1 == 1 {','if (value>>i)&1 == 0 {'),
 ('bits-bound-le',CB,'for i := 0; i < n; i++ {','for i := 0; i <= n; i++ {'),
 ('power-sort-ascending',PW,'return powers[i].Score > powers[j].Score','return powers[i].Score < powers[j].Score'),
 ('power-sort-ge',PW,'return powers[i].Score > powers[j].Score','return powers[i].Score >= powers[j].Score'),
 ('power-sort-removed',PW,'\tsort.Slice(powers, func(i, j int) bool {\n\t\treturn powers[i].Score > powers[j].Score\n\t})\n','\t_ = sort.Slice\n'),
 ('power-last-candidate',PW,'return powers[0]','return powers[len(powers)-1]'),
 ('power-args-swapped',PW,'combination.GetAllPossibleCombinations(g.gs.Status.Board, p.HoleCards, holeCardsCount)','combination.GetAllPossibleCombinations(p.HoleCards, g.gs.Status.Board, holeCardsCount)'),
 ('power-required-ignored',PW,'g.GetAllPossibileCombinations(p, g.gs.Meta.RequiredHoleCardsCount)','g.GetAllPossibileCombinations(p, 0)'),
 ('power-last-candidate-not-scored',PW,'for _, c := range combinations {','for _, c := range combinations[:len(combinations)-1] {'),
 ('power-candidates-prepended',PW,'powers = append(powers, ps)','powers = append([]*combination.PowerState{ps}, powers...)'),
 ('power-candidate-not-kept',PW,'\t\tpowers = append(powers, ps)\n','\t\t_ = ps\n'),
 # ---- controls: behaviour-preserving edits (formatting, comments, `x += 1` as `x++`); must NOT break anything ----
 ('CONTROL-pots-comments',LL,'\t\tl.Wager = l.Level - prevLevel\n','\t\t// the step of this level: what it adds to the level below\n\n\t\tl.Wager = l.Level -\n\t\t\tprevLevel // 0 for the lowest level\n'),
 ('CONTROL-rewards-increment',ST,'reward += 1','reward++'),
 ('CONTROL-views-format',GS,ASP+BLANK,ASP+'\t// nothing of the deck is ever shown\n\tgs.Meta.Deck = []string{}\n\n\n\tgs.Status.Burned = []string{} // nor the burned cards\n'),
]
if __name__=='__main__':
    sel=sys.argv[1:]
    for t in tests:
        if not sel or t[0] in sel or any(t[0].startswith(x) for x in sel): run(*t)
    subprocess.run([GENLOGIC,REPO,f'{LW}/Pokerface/Generated'],check=True)
    r=subprocess.run(['lake','build']+MODS,cwd=LW,capture_output=True,text=True)
    print('unchanged tree rebuilt:', 'ok' if r.returncode==0 else 'FAILED')
    bad=[n for (n,s,_,_) in results if (s!='CAUGHT') != n.startswith('CONTROL')]
    print(f'{len(results)} edits; unexpected outcomes: {bad}')
