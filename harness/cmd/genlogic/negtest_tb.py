#!/usr/bin/env python3
# negative tests of the K1 translated-logic obligations of group "Tb" (table/internal.go, table/table.go, table/state.go,
# match/table.go, seat_manager getPlayableSeats): apply one edit to a scratch copy of the repo, regenerate with genlogic,
# rebuild Proofs/GeneratedLogicTb, report which theorems break (same mechanism as negtest.py / negtest_reg.py).
# usage: (copy /repo without .git to $SCR); cp -r <lean project> $LW; GENLOGIC=<binary> negtest_tb.py [name-prefix ...]
# An edit is a list of (old, new) replacements in one file (a moved statement is one deletion and one insertion).
import subprocess, re, sys, os
REPO=os.environ.get('REPO','/repo'); SCR=os.environ.get('SCR','/tmp/gtbneg'); LW=os.environ.get('LW','/tmp/lw-gtb-neg')
GENLOGIC=os.environ.get('GENLOGIC','/tmp/hw-gtb/genlogic')
MODS=['Pokerface.Proofs.GeneratedLogicTb']
ENV=dict(os.environ, GOFLAGS='-mod=mod', GOPROXY='off', GOSUMDB='off', GOTOOLCHAIN='local')
I='table/internal.go'; T='table/table.go'; S='table/state.go'; M='match/table.go'; SM='seat_manager/seat_manager.go'
results=[]
def run(name, f, *reps):
    src=open(f'{REPO}/{f}').read()
    new=src
    for (old,rep) in reps:
        if new.count(old)!=1:
            print(f'{name}: PATTERN NOT FOUND OR NOT UNIQUE ({new.count(old)}): {old[:50]!r}'); results.append((name,'PATTERN',[],'')); return
        new=new.replace(old,rep)
    open(f'{SCR}/{f}','w').write(new)
    c=subprocess.run(['go','build','./table','./match','./seat_manager'],cwd=SCR,env=ENV,capture_output=True,text=True)
    compiles = 'compiles' if c.returncode==0 else 'DOES NOT COMPILE: '+c.stderr.strip().splitlines()[-1]
    subprocess.run([GENLOGIC,SCR,f'{LW}/Pokerface/Generated'],check=True)
    untr=sorted(set(re.findall(r'^-- UNTRANSLATED (.*)$',open(f'{LW}/Pokerface/Generated/LogicTb.lean').read(),re.M)))
    r=subprocess.run(['lake','build']+MODS,cwd=LW,capture_output=True,text=True)
    out=r.stdout+r.stderr
    broken=set()
    for m in re.finditer(r'error: Pokerface/Proofs/(GeneratedLogic\w*).lean:(\d+):',out):
        proof=open(f'{LW}/Pokerface/Proofs/{m.group(1)}.lean').read().splitlines()
        ln=int(m.group(2))
        while ln-1 < len(proof) and (proof[ln-1].startswith('/--') or (not re.match(r'\s*(theorem|def|example)\b',proof[ln-1]) and not proof[ln-1].startswith(' '))): ln+=1   # an error at a doc comment belongs to the declaration below
        for k in range(min(ln,len(proof))-1,-1,-1):
            mm=re.match(r'(theorem|def|example)\s*(\S*)',proof[k])
            if mm: broken.add(mm.group(2) if mm.group(1)!='example' else 'example'); break
    gen=sorted(set(re.findall(r'error: Pokerface/Generated/(Logic\w*).lean',out)))
    gen_err = 'LogicTb.lean untranslatable (does not compile): '+'; '.join(u[:100] for u in untr) if gen else ''
    status='CAUGHT' if r.returncode!=0 else 'NOT CAUGHT'
    print(f'{name}: {status} [{compiles}] {gen_err} broken={sorted(broken)}', flush=True)
    results.append((name,status,sorted(broken),gen_err))
    open(f'{SCR}/{f}','w').write(src)

ERRRET='\tif err != nil {\n\t\treturn err\n\t}\n'
SB_BB='\t\tif s == t.sm.SmallBlind() {\n\t\t\tpositions = append(positions, "sb")\n\t\t} else if s == t.sm.BigBlind() {\n\t\t\tpositions = append(positions, "bb")\n\t\t}\n'
DEALER='\t\tif s == t.sm.Dealer() {\n\t\t\tpositions = append(positions, "dealer")\n\t\t}\n\n'
PAUSE='\tif t.isPaused {\n\t\treturn ErrGameCancelled\n\t}\n\n'
END1='\tif err := t.checkEndConditions(); err != nil {\n\t\treturn err\n\t}\n\n\terr := t.setupPosition()\n'
END2='\t// Check conditions again\n\tif err := t.checkEndConditions(); err != nil {\n\t\treturn err\n\t}\n\n'
COUNT='\tplayableCount := t.sm.GetPlayableSeatCount()\n'
CLEAR='\tfor _, p := range t.ts.Players {\n\t\tp.GameIdx = -1\n\t}\n'
MAXG='\tif t.options.MaxGames > 0 && t.options.MaxGames == t.gameCount {\n\t\treturn ErrMaxGamesExceeded\n\t}\n\n'
CLOCK='\t// Check remaining time\n\tif time.Now().Unix() >= t.ts.EndTime {\n\t\t// Times up!\n\t\treturn ErrTimesUp\n\t}\n\n'
RESERVE='\t\t\tt.sm.Reserve(p.SeatID)\n\n'
LEAVEIF='\t\t\tif t.ts.Options.EliminateMode == "leave" {\n\t\t\t\t//fmt.Println("updatePlayerStates", ts.ID, "LEAVE", p.SeatID, p.ID)\n\t\t\t\tt.leave(p.SeatID)\n\t\t\t}\n'
JOINERR='\tif err != nil {\n\t\tfmt.Println("=====", err, t.ts.ID, p.ID, sid)\n\t\treturn -1, err\n\t}\n\n'
tests=[
 # ---- internal.go setupPosition ----
 ('setup-inposition-guard-flipped',I,('\tif t.inPosition {\n\t\treturn nil','\tif !t.inPosition {\n\t\treturn nil')),
 ('setup-inposition-guard-removed',I,('\tif t.inPosition {\n\t\treturn nil\n\t}\n','')),
 ('setup-err-mapping-dropped',I,('\t\tif err == seat_manager.ErrInsufficientNumberOfPlayers {\n\t\t\treturn ErrInsufficientNumberOfPlayers\n\t\t}\n\n','')),
 ('setup-err-mapping-inverted',I,('if err == seat_manager.ErrInsufficientNumberOfPlayers {','if err != seat_manager.ErrInsufficientNumberOfPlayers {')),
 ('setup-err-swallowed',I,('\t\treturn err\n\t}\n\n\t// Updating seat','\t\treturn nil\n\t}\n\n\t// Updating seat')),
 ('setup-inposition-set-before-next',I,('\t// Calculating positions for players\n','\tt.inPosition = true\n'),('\tt.inPosition = true\n\n\treturn nil','\treturn nil')),
 ('setup-inposition-not-set',I,('\tt.inPosition = true\n\n\treturn nil','\treturn nil')),
 ('setup-reset-after-loop',I,('\tt.mu.RLock()\n\tt.ts.ResetPositions()\n\tt.mu.RUnlock()\n\n\tseats := t.sm.GetSeats()\n','\tseats := t.sm.GetSeats()\n'),('\tt.inPosition = true\n\n\treturn nil','\tt.ts.ResetPositions()\n\tt.inPosition = true\n\n\treturn nil')),
 ('setup-skip-guard-flipped',I,('\t\tif s.Player == nil {\n\t\t\tcontinue','\t\tif s.Player != nil {\n\t\t\tcontinue')),
 ('setup-skip-guard-removed',I,('\t\tif s.Player == nil {\n\t\t\tcontinue\n\t\t}\n','')),
 ('setup-sb-bb-swapped',I,(SB_BB,SB_BB.replace('"sb"','"XX"').replace('"bb"','"sb"').replace('"XX"','"bb"'))),
 ('setup-elseif-to-if',I,('\t\t} else if s == t.sm.BigBlind() {','\t\t}\n\t\tif s == t.sm.BigBlind() {')),
 ('setup-dealer-compared-with-sb',I,('if s == t.sm.Dealer() {','if s == t.sm.SmallBlind() {')),
 ('setup-sb-compared-with-bb',I,('\t\tif s == t.sm.SmallBlind() {','\t\tif s == t.sm.BigBlind() {')),
 ('setup-bb-compared-with-dealer',I,('} else if s == t.sm.BigBlind() {','} else if s == t.sm.Dealer() {')),
 ('setup-bb-first',I,('\t\tif s == t.sm.SmallBlind() {\n\t\t\tpositions = append(positions, "sb")\n\t\t} else if s == t.sm.BigBlind() {\n\t\t\tpositions = append(positions, "bb")\n\t\t}\n',
     '\t\tif s == t.sm.BigBlind() {\n\t\t\tpositions = append(positions, "bb")\n\t\t} else if s == t.sm.SmallBlind() {\n\t\t\tpositions = append(positions, "sb")\n\t\t}\n')),
 ('setup-dealer-after-blinds',I,(DEALER,''),(SB_BB,SB_BB+'\n'+DEALER)),
 ('setup-dealer-not-written',I,(DEALER,'')),
 ('setup-playable-reserved-dropped',I,('if !s.IsReserved && s.IsActive {','if s.IsActive {')),
 ('setup-playable-active-dropped',I,('if !s.IsReserved && s.IsActive {','if !s.IsReserved {')),
 ('setup-playable-or',I,('if !s.IsReserved && s.IsActive {','if !s.IsReserved || s.IsActive {')),
 ('setup-playable-reserved-not-negated',I,('if !s.IsReserved && s.IsActive {','if s.IsReserved && s.IsActive {')),
 ('setup-playable-not-reset',I,('\t\tp.Playable = false\n','')),
 ('setup-positions-not-stored',I,('\t\tp.Positions = positions\n','')),
 ('setup-positions-accumulate',I,('positions := make([]string, 0)','positions := p.Positions')),
 # ---- internal.go checkEndConditions ----
 ('end-maxgames-positive-dropped',I,('t.options.MaxGames > 0 && t.options.MaxGames == t.gameCount','t.options.MaxGames == t.gameCount')),
 ('end-maxgames-eq-lt',I,('t.options.MaxGames == t.gameCount','t.options.MaxGames < t.gameCount')),
 ('end-maxgames-ge-zero',I,('t.options.MaxGames > 0 &&','t.options.MaxGames >= 0 &&')),
 ('end-maxgames-or',I,('t.options.MaxGames > 0 && t.options.MaxGames == t.gameCount','t.options.MaxGames > 0 || t.options.MaxGames == t.gameCount')),
 ('end-clock-before-maxgames',I,(MAXG,''),(CLOCK,CLOCK+MAXG)),
 ('end-clock-flipped',I,('time.Now().Unix() >= t.ts.EndTime','time.Now().Unix() < t.ts.EndTime')),
 # ---- internal.go prepareNextGame ----
 ('png-pause-after-end-check',I,(PAUSE,''),(END1,END1.replace('\terr := t.setupPosition()\n',PAUSE+'\terr := t.setupPosition()\n'))),
 ('png-pause-flipped',I,('\tif t.isPaused {','\tif !t.isPaused {')),
 ('png-first-end-check-removed',I,(END1,'\terr := t.setupPosition()\n')),
 ('png-end-check-after-setup',I,(END1,'\terr := t.setupPosition()\n'),('\terr := t.setupPosition()\n'+ERRRET,'\terr := t.setupPosition()\n'+ERRRET+'\tif err := t.checkEndConditions(); err != nil {\n\t\treturn err\n\t}\n')),
 ('png-setup-error-ignored',I,('\terr := t.setupPosition()\n'+ERRRET,'\terr := t.setupPosition()\n\t_ = err\n')),
 ('png-gamecount-dropped',I,('if t.gameCount == 0 && playableCount < t.options.InitialPlayers {','if playableCount < t.options.InitialPlayers {')),
 ('png-gamecount-ne',I,('if t.gameCount == 0 && playableCount','if t.gameCount != 0 && playableCount')),
 ('png-gamecount-or',I,('if t.gameCount == 0 && playableCount','if t.gameCount == 0 || playableCount')),
 ('png-initial-lt-le',I,('playableCount < t.options.InitialPlayers','playableCount <= t.options.InitialPlayers')),
 ('png-min-lt-le',I,('playableCount < t.options.MinPlayers','playableCount <= t.options.MinPlayers')),
 ('png-min-initial-swapped',I,('playableCount < t.options.InitialPlayers','playableCount < t.options.XX'),('playableCount < t.options.MinPlayers','playableCount < t.options.InitialPlayers'),('t.options.XX','t.options.MinPlayers')),
 ('png-min-test-removed',I,('\t} else if playableCount < t.options.MinPlayers {\n\t\treturn ErrInsufficientNumberOfPlayers\n\t}','\t}')),
 ('png-count-before-setup',I,(COUNT,''),('\terr := t.setupPosition()\n',COUNT+'\terr := t.setupPosition()\n')),
 ('png-start-before-count-test',I,('\terr = t.startGame()\n'+ERRRET+'\n',''),('\t// Check the number of player\n','\terr = t.startGame()\n'+ERRRET+'\n')),
 ('png-start-error-ignored',I,('\terr = t.startGame()\n'+ERRRET,'\terr = t.startGame()\n')),
 ('png-second-end-check-removed',I,(END2,'')),
 ('png-second-setup-removed',I,('\t// Preparing new positions\n\terr = t.setupPosition()\n'+ERRRET+'\n','')),
 ('png-second-setup-before-end-check',I,(END2,''),('\t// Preparing new positions\n\terr = t.setupPosition()\n'+ERRRET+'\n','\terr = t.setupPosition()\n'+ERRRET+'\n'+END2)),
 ('png-second-setup-error-ignored',I,('\terr = t.setupPosition()\n'+ERRRET,'\terr = t.setupPosition()\n')),
 # ---- internal.go startGame ----
 ('start-inposition-reset-before-error-return',I,('\tt.inPosition = false\n\n\treturn nil','\treturn nil'),('\terr := t.g.Start()\n','\tt.inPosition = false\n\terr := t.g.Start()\n')),
 ('start-inposition-not-reset',I,('\tt.inPosition = false\n\n\treturn nil','\treturn nil')),
 ('start-inposition-set-true',I,('\tt.inPosition = false\n\n\treturn nil','\tt.inPosition = true\n\n\treturn nil')),
 ('start-gamecount-before-error-return',I,('\tt.gameCount++\n',''),('\terr := t.g.Start()\n','\tt.gameCount++\n\terr := t.g.Start()\n')),
 ('start-gamecount-not-incremented',I,('\tt.gameCount++\n','')),
 ('start-gamecount-plus-two',I,('\tt.gameCount++\n','\tt.gameCount += 2\n')),
 ('start-error-swallowed',I,('\terr := t.g.Start()\n\tif err != nil {\n\t\treturn err\n\t}','\terr := t.g.Start()\n\tif err != nil {\n\t\treturn nil\n\t}')),
 ('start-no-wait',I,('\t<-ctx.Done()\n','')),
 ('start-clear-after-assign',I,('\tt.mu.RLock()\n'+CLEAR+'\tt.mu.RUnlock()\n',''),('\t// Create a new game with backend\n',CLEAR+'\n')),
 ('start-clear-removed',I,(CLEAR,'')),
 ('start-clear-value-zero',I,('\t\tp.GameIdx = -1\n','\t\tp.GameIdx = 0\n')),
 ('start-gameidx-plus-one',I,('.GameIdx = i\n','.GameIdx = i + 1\n')),
 ('start-gameidx-reversed',I,('.GameIdx = i\n','.GameIdx = len(seats) - 1 - i\n')),
 ('start-bankroll-zero',I,('\t\t\tBankroll:  s.Player.(*PlayerInfo).Bankroll,\n','\t\t\tBankroll:  0,\n')),
 ('start-positions-dropped',I,('\t\t\tPositions: s.Player.(*PlayerInfo).Positions,\n','')),
 ('start-seats-all-seats',I,('seats := t.sm.GetPlayableSeats()','seats := t.sm.GetSeats()')),
 ('start-callback-without-writeback',I,('\t\tt.updateGameState(gs)\n','')),
 # ---- internal.go updatePlayerStates / updateGameState; state.go ----
 ('upd-closed-guard-removed',I,('\tif ts.GameState.Status.CurrentEvent != "GameClosed" {\n\t\treturn nil\n\t}\n','')),
 ('upd-closed-guard-flipped',I,('if ts.GameState.Status.CurrentEvent != "GameClosed" {','if ts.GameState.Status.CurrentEvent == "GameClosed" {')),
 ('upd-closed-other-event',I,('if ts.GameState.Status.CurrentEvent != "GameClosed" {','if ts.GameState.Status.CurrentEvent != "SettlementCompleted" {')),
 ('upd-nil-state-guard-flipped',I,('\tif ts.GameState == nil {','\tif ts.GameState != nil {')),
 ('upd-reserve-le-zero',I,('if p.Bankroll == 0 {','if p.Bankroll <= 0 {')),
 ('upd-reserve-lt-zero',I,('if p.Bankroll == 0 {','if p.Bankroll < 0 {')),
 ('upd-reserve-always',I,('if p.Bankroll == 0 {','if true {')),
 ('upd-reserve-ne-zero',I,('if p.Bankroll == 0 {','if p.Bankroll != 0 {')),
 ('upd-leave-mode-flipped',I,('if t.ts.Options.EliminateMode == "leave" {','if t.ts.Options.EliminateMode != "leave" {')),
 ('upd-leave-mode-other',I,('if t.ts.Options.EliminateMode == "leave" {','if t.ts.Options.EliminateMode == "none" {')),
 ('upd-leave-always',I,(LEAVEIF,'\t\t\tt.leave(p.SeatID)\n')),
 ('upd-leave-before-reserve',I,(RESERVE,''),(LEAVEIF,LEAVEIF+RESERVE)),
 ('upd-leave-outside-zero-test',I,(LEAVEIF+'\t\t}\n','\t\t}\n'+LEAVEIF)),
 ('upd-no-reserve',I,(RESERVE,'')),
 ('upd-bankroll-not-written',I,('\t\tp.Bankroll = rs.Final\n','')),
 ('upd-bankroll-accumulates',I,('p.Bankroll = rs.Final','p.Bankroll += rs.Final')),
 ('upd-zero-test-before-writeback',I,('\t\tp.Bankroll = rs.Final\n\n',''),('\t\tif p.Bankroll == 0 {','\t\tif p.Bankroll == 0 {\n\t\t\tp.Bankroll = rs.Final')),
 ('upd-nil-player-guard-removed',I,('\t\tif p == nil {\n\t\t\tcontinue\n\t\t}\n','')),
 ('upd-state-stored-after-writeback',I,('\tt.ts.GameState = gs\n\tt.updatePlayerStates(t.ts)\n','\tt.updatePlayerStates(t.ts)\n\tt.ts.GameState = gs\n')),
 ('upd-no-writeback-call',I,('\tt.updatePlayerStates(t.ts)\n','')),
 ('byidx-ne',S,('if p.GameIdx == idx {','if p.GameIdx != idx {')),
 ('byidx-seat-id',S,('if p.GameIdx == idx {','if p.SeatID == idx {')),
 ('reset-positions-nil',S,('p.Positions = make([]string, 0)','p.Positions = nil')),
 # ---- seat_manager.go getPlayableSeats ----
 ('playable-seats-reserved-dropped',SM,('\t\tif !s.IsReserved && s.IsActive && s.Player != nil {\n\t\t\tseats = append(seats, s)','\t\tif s.IsActive && s.Player != nil {\n\t\t\tseats = append(seats, s)')),
 ('playable-seats-active-dropped',SM,('\t\tif !s.IsReserved && s.IsActive && s.Player != nil {\n\t\t\tseats = append(seats, s)','\t\tif !s.IsReserved && s.Player != nil {\n\t\t\tseats = append(seats, s)')),
 ('playable-seats-player-dropped',SM,('\t\tif !s.IsReserved && s.IsActive && s.Player != nil {\n\t\t\tseats = append(seats, s)','\t\tif !s.IsReserved && s.IsActive {\n\t\t\tseats = append(seats, s)')),
 ('playable-seats-from-seat-zero',SM,('origSeats := sm.getNormalizeSeats(sm.dealer.ID)\n\n\tseats := make([]*Seat, 0)','origSeats := sm.getNormalizeSeats(0)\n\n\tseats := make([]*Seat, 0)')),
 # ---- table.go ----
 ('join-gameidx-zero',T,('\tp.GameIdx = -1\n','\tp.GameIdx = 0\n')),
 ('join-gameidx-not-set',T,('\tp.GameIdx = -1\n','')),
 ('join-store-before-error-check',T,('\tt.ts.Players[sid] = p\n',''),(JOINERR,'\tt.ts.Players[sid] = p\n'+JOINERR)),
 ('join-not-stored',T,('\tt.ts.Players[sid] = p\n','')),
 ('join-error-returns-seat',T,('\t\treturn -1, err\n','\t\treturn sid, err\n')),
 ('join-error-swallowed',T,('\t\treturn -1, err\n','\t\treturn -1, nil\n')),
 ('join-returns-requested-seat',T,('\treturn sid, nil\n','\treturn seatID, nil\n')),
 ('join-seatid-requested',T,('\tp.SeatID = sid\n','\tp.SeatID = seatID\n')),
 ('join-seatid-before-error-check',T,('\tp.SeatID = sid\n',''),(JOINERR,'\tp.SeatID = sid\n'+JOINERR)),
 ('leave-delete-before-error-check',T,('\tdelete(t.ts.Players, seatID)\n\n',''),('\terr := t.sm.Leave(seatID)\n','\terr := t.sm.Leave(seatID)\n\tdelete(t.ts.Players, seatID)\n')),
 ('leave-no-delete',T,('\tdelete(t.ts.Players, seatID)\n\n','')),
 ('leave-error-swallowed',T,('\terr := t.sm.Leave(seatID)\n\tif err != nil {\n\t\treturn err\n\t}','\terr := t.sm.Leave(seatID)\n\tif err != nil {\n\t\treturn nil\n\t}')),
 ('leaveop-error-swallowed',T,('\terr := t.leave(seatID)\n\tif err != nil {\n\t\treturn err\n\t}','\terr := t.leave(seatID)\n\tif err != nil {\n\t\treturn nil\n\t}')),
 ('activate-error-propagated',T,('\terr := t.sm.Seat(seatID)\n\tif err != nil {\n\t\treturn nil\n\t}','\terr := t.sm.Seat(seatID)\n\tif err != nil {\n\t\treturn err\n\t}')),
 ('activate-newgame-gt',T,('if t.sm.GetPlayerCount() >= t.options.InitialPlayers {','if t.sm.GetPlayerCount() > t.options.InitialPlayers {')),
 ('activate-newgame-when-not-idle',T,('if !t.isRunning || t.ts.Status != "idle" {','if !t.isRunning {')),
 ('activate-reserves',T,('\terr := t.sm.Seat(seatID)\n','\terr := t.sm.Reserve(seatID)\n')),
 ('reserve-calls-seat',T,('\treturn t.sm.Reserve(seatID)\n','\treturn t.sm.Seat(seatID)\n')),
 # ---- match/table.go ----
 ('mjoin-callback-requested-seat',M,('t.onPlayerJoined(playerID, sid)','t.onPlayerJoined(playerID, seatID)')),
 ('mjoin-callback-before-error-check',M,('\tt.onPlayerJoined(playerID, sid)\n\n',''),('\tsid, err := t.sm.Join(seatID, playerID)\n','\tsid, err := t.sm.Join(seatID, playerID)\n\tt.onPlayerJoined(playerID, sid)\n')),
 ('mjoin-error-swallowed',M,('\t\t//fmt.Println("[match/table] Failed to Join()", t.id, seatID, playerID, t.sm.GetPlayerCount())\n\t\treturn err\n','\t\treturn nil\n')),
 ('mjoin-no-callback',M,('\tt.onPlayerJoined(playerID, sid)\n\n','')),
 ('mleft-state-test-flipped',M,('if state != "left" {','if state == "left" {')),
 ('mleft-other-state',M,('if state != "left" {','if state != "leave" {')),
 ('mleft-nil-guard-flipped',M,('\t\tif seat.Player == nil {','\t\tif seat.Player != nil {')),
 ('mleft-callback-before-leave',M,('\t\tt.sm.Leave(seatID)\n\t\tt.onPlayerLeft(playerID, seatID)\n','\t\tt.onPlayerLeft(playerID, seatID)\n\t\tt.sm.Leave(seatID)\n')),
 ('mleft-no-leave',M,('\t\tt.sm.Leave(seatID)\n','')),
 ('mleft-no-callback',M,('\t\tt.onPlayerLeft(playerID, seatID)\n','')),
 ('mleft-drained-callback',M,('\t\tt.onPlayerLeft(playerID, seatID)\n','\t\tt.onPlayerDrained(playerID, seatID)\n')),
 ('mplayers-guard-flipped',M,('\t\tif s.Player == nil {\n\t\t\tcontinue','\t\tif s.Player != nil {\n\t\t\tcontinue')),
 ('mplayers-guard-removed',M,('\t\tif s.Player == nil {\n\t\t\tcontinue\n\t\t}\n\n','')),
 ('mplayers-prepend',M,('players = append(players, s.Player.(string))','players = append([]string{s.Player.(string)}, players...)')),
 # ---- controls: behaviour-preserving edits (formatting, comments, statements the model does not read); must NOT break anything ----
 ('CONTROL-setup-format-comments',I,('\t\tif !s.IsReserved && s.IsActive {\n\t\t\tp.Playable = true\n\t\t}\n','\t\t// seated and not sitting out\n\t\tif !s.IsReserved &&\n\t\t\ts.IsActive {\n\n\t\t\tp.Playable = true // plays the next hand\n\t\t}\n')),
 ('CONTROL-png-status-before-gamestate',I,('\tt.ts.GameState = nil\n\tt.ts.Status = "preparing"\n','\tt.ts.Status = "preparing"\n\tt.ts.GameState = nil\n')),
 ('CONTROL-join-debug-print',T,('fmt.Println("=====", err, t.ts.ID, p.ID, sid)','fmt.Println("join refused:", err)')),
 ('CONTROL-mleft-warning-removed',M,('\t\t\tfmt.Printf("WARNING player left but seat.Player = nil, seat=%d, table=%s\\n", seatID, t.ID())\n','')),
]
sel=sys.argv[1:]
for t in tests:
    if not sel or t[0] in sel or any(t[0].startswith(x) for x in sel): run(*t)
subprocess.run([GENLOGIC,REPO,f'{LW}/Pokerface/Generated'],check=True)
r=subprocess.run(['lake','build']+MODS,cwd=LW,capture_output=True,text=True)
print('unchanged tree rebuilt:', 'ok' if r.returncode==0 else 'FAILED')
bad=[n for (n,s,_,_) in results if (s!='CAUGHT') != n.startswith('CONTROL')]
print(f'{len(results)} edits; unexpected outcomes: {bad}')
