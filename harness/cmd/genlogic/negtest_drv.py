#!/usr/bin/env python3
# negative tests of the K1 translated-logic obligations of group "Drv" (table/game.go: handleState, updateState, Close, Start,
# the shortcuts and the nine wrappers): apply one edit to a scratch copy of the repo, regenerate with genlogic, rebuild
# Proofs/GeneratedLogicDrv, report which theorems break (same mechanism as negtest_tb.py).
# usage: (copy /repo without .git to $SCR); cp -r <lean project> $LW; GENLOGIC=<binary> negtest_drv.py [name-prefix ...]
# An edit is a list of (old, new) replacements in one file (a moved statement is one deletion and one insertion).
import subprocess, re, sys, os
REPO=os.environ.get('REPO','/repo'); SCR=os.environ.get('SCR','/tmp/gl-drv-repo'); LW=os.environ.get('LW','/tmp/gl-drv-lw')
GENLOGIC=os.environ.get('GENLOGIC','/tmp/gl-drv/bin/genlogic')
MODS=['Pokerface.Proofs.GeneratedLogicDrv']
ENV=dict(os.environ, GOFLAGS='-mod=mod', GOPROXY='off', GOSUMDB='off', GOTOOLCHAIN='local')
G='table/game.go'
results=[]
def run(name, f, *reps):
    src=open(f'{REPO}/{f}').read()
    new=src
    for (old,rep) in reps:
        if new.count(old)!=1:
            print(f'{name}: PATTERN NOT FOUND OR NOT UNIQUE ({new.count(old)}): {old[:50]!r}'); results.append((name,'PATTERN',[],'')); return
        new=new.replace(old,rep)
    open(f'{SCR}/{f}','w').write(new)
    c=subprocess.run(['go','build','./table'],cwd=SCR,env=ENV,capture_output=True,text=True)
    compiles = 'compiles' if c.returncode==0 else 'DOES NOT COMPILE: '+c.stderr.strip().splitlines()[-1]
    subprocess.run([GENLOGIC,SCR,f'{LW}/Pokerface/Generated'],check=True)
    untr=sorted(set(re.findall(r'^-- UNTRANSLATED (.*)$',open(f'{LW}/Pokerface/Generated/LogicDrv.lean').read(),re.M)))
    r=subprocess.run(['lake','build']+MODS,cwd=LW,capture_output=True,text=True)
    out=r.stdout+r.stderr
    broken=set()
    for m in re.finditer(r'error: Pokerface/Proofs/(GeneratedLogic\w*).lean:(\d+):',out):
        proof=open(f'{LW}/Pokerface/Proofs/{m.group(1)}.lean').read().splitlines()
        ln=int(m.group(2))
        while ln-1 < len(proof) and (proof[ln-1].startswith('/--') or (not re.match(r'\s*(theorem|def|example)\b',proof[ln-1]) and not proof[ln-1].startswith(' '))): ln+=1   # an error at a doc comment belongs to the declaration below
        for k in range(min(ln,len(proof))-1,-1,-1):
            mm=re.match(r'(theorem|def|example)\s*(\S*)',proof[k])
            if mm: broken.add(mm.group(2) if mm.group(1)!='example' else 'example'); break
    gen=sorted(set(re.findall(r'error: Pokerface/Generated/(Logic\w*).lean',out)))
    gen_err = 'LogicDrv.lean untranslatable (does not compile): '+'; '.join(u[:100] for u in untr) if gen else ''
    status='CAUGHT' if r.returncode!=0 else 'NOT CAUGHT'
    print(f'{name}: {status} [{compiles}] {gen_err} broken={sorted(broken)}', flush=True)
    results.append((name,status,sorted(broken),gen_err))
    open(f'{SCR}/{f}','w').write(src)

def fn(name):   # the text of one method of `game`, for edits of statements that occur in every wrapper
    src=open(f'{REPO}/{G}').read()
    i=src.index(f'func (g *game) {name}(')
    j=src.index('\n}\n',i)+3
    return src[i:j]
def infn(name, old, new):
    f=fn(name)
    assert f.count(old)==1, (name, old, f.count(old))
    return (f, f.replace(old,new))

ERRRET='\tif err != nil {\n\t\treturn err\n\t}\n\n'
NEXTERR='\t\tif err != nil {\n\t\t\tfmt.Println(err)\n\t\t\treturn\n\t\t}\n\n'
READY_LOOP='\t\tfor _, p := range gs.Players {\n\t\t\tg.rg.Add(int64(p.Idx), false)\n\n\t\t\t// Allow "ready" action\n\t\t\tp.AllowAction("ready")\n\t\t}\n'
ANTE_LOOP='\t\tfor _, p := range gs.Players {\n\t\t\tg.rg.Add(int64(p.Idx), false)\n\n\t\t\t// Allow "pay" action\n\t\t\tp.AllowAction("pay")\n\t\t}\n'
BB='gs.Meta.Blind.BB > 0 && gs.HasPosition(p.Idx, "bb")'
SB='gs.Meta.Blind.SB > 0 && gs.HasPosition(p.Idx, "sb")'
DL='gs.Meta.Blind.Dealer > 0 && gs.HasPosition(p.Idx, "dealer")'
NILCHK='\tif g.gs == nil {\n\t\treturn ErrNoRunningGame\n\t}\n\n'
PCHK='\tp := g.gs.GetPlayer(playerIdx)\n\tif p == nil {\n\t\treturn ErrPlayerNotInGame\n\t}\n\n'
tests=[
 # ---- handleState: the switch ----
 ('hs-gameclosed-other-event',G,('\tcase "GameClosed":\n\t\tg.Close()','\tcase "SettlementCompleted":\n\t\tg.Close()')),
 ('hs-gameclosed-no-close',G,('\tcase "GameClosed":\n\t\tg.Close()\n','\tcase "GameClosed":\n')),
 ('hs-roundclosed-without-updatestate',G,('\t\tg.updateState(gs)\n\n\tcase "ReadyRequested":','\n\tcase "ReadyRequested":')),
 ('hs-roundclosed-next-on-held-state',G,('gs, err := g.backend.Next(gs)','gs, err := g.backend.Next(g.gs)')),
 ('hs-roundclosed-other-operation',G,('gs, err := g.backend.Next(gs)','gs, err := g.backend.ReadyForAll(gs)')),
 ('hs-roundclosed-return-removed',G,(NEXTERR,'\t\tif err != nil {\n\t\t\tfmt.Println(err)\n\t\t}\n\n')),
 ('hs-roundclosed-error-test-flipped',G,('\t\tif err != nil {\n\t\t\tfmt.Println(err)','\t\tif err == nil {\n\t\t\tfmt.Println(err)')),
 ('hs-roundclosed-updatestate-before-error-check',G,('\t\tg.updateState(gs)\n\n\tcase "ReadyRequested":','\n\tcase "ReadyRequested":'),(NEXTERR,'\t\tg.updateState(gs)\n'+NEXTERR)),
 ('hs-roundclosed-error-break-instead-of-return',G,('\t\t\tfmt.Println(err)\n\t\t\treturn\n','\t\t\tfmt.Println(err)\n\t\t\tbreak\n')),
 ('hs-roundclosed-other-event',G,('\tcase "RoundClosed":','\tcase "RoundStarted":')),
 ('hs-callback-removed',G,('\tg.onStateUpdated(gs)\n','')),
 ('hs-callback-before-switch',G,('\tg.onStateUpdated(gs)\n',''),('\tswitch gs.Status.CurrentEvent {\n\tcase "GameClosed":','\tg.onStateUpdated(gs)\n\tswitch gs.Status.CurrentEvent {\n\tcase "GameClosed":')),
 ('hs-ante-zero-gt',G,('if gs.Meta.Ante == 0 {','if gs.Meta.Ante > 0 {')),
 ('hs-ante-zero-ne',G,('if gs.Meta.Ante == 0 {','if gs.Meta.Ante != 0 {')),
 ('hs-ante-zero-test-removed',G,('\t\tif gs.Meta.Ante == 0 {\n\t\t\tbreak\n\t\t}\n\n','')),
 ('hs-ante-zero-return',G,('\t\tif gs.Meta.Ante == 0 {\n\t\t\tbreak\n','\t\tif gs.Meta.Ante == 0 {\n\t\t\treturn\n')),
 ('hs-ante-test-on-bb',G,('if gs.Meta.Ante == 0 {','if gs.Meta.Blind.BB == 0 {')),
 # ---- handleState: the ready group ----
 ('hs-ready-callback-payante',G,('\t\t\tg.ReadyForAll()\n','\t\t\tg.PayAnte()\n')),
 ('hs-ante-callback-payblinds',G,('\t\t\tg.PayAnte()\n','\t\t\tg.PayBlinds()\n')),
 ('hs-blinds-callback-payante',G,('\t\t\tg.PayBlinds()\n','\t\t\tg.PayAnte()\n')),
 ('hs-blinds-callback-readyforall',G,('\t\t\tg.PayBlinds()\n','\t\t\tg.ReadyForAll()\n')),
 ('hs-ready-no-stop',G,('\t\t// Preparing ready group to wait for all player ready\n\t\tg.rg.Stop()\n','')),
 ('hs-ante-no-reset',G,('\t\tg.rg.ResetParticipants()\n'+ANTE_LOOP,ANTE_LOOP)),
 ('hs-ready-reset-after-loop',G,('\t\tg.rg.ResetParticipants()\n'+READY_LOOP,READY_LOOP+'\t\tg.rg.ResetParticipants()\n')),
 ('hs-ready-start-before-loop',G,(READY_LOOP+'\n\t\tg.rg.Start()\n','\t\tg.rg.Start()\n'+READY_LOOP)),
 ('hs-blinds-no-start',G,('\t\t\tp.AllowAction("pay")\n\t\t}\n\n\t\tg.rg.Start()\n\t}','\t\t\tp.AllowAction("pay")\n\t\t}\n\t}')),
 ('hs-ready-mark-pay',G,('p.AllowAction("ready")','p.AllowAction("pay")')),
 ('hs-ante-mark-ready',G,(ANTE_LOOP,ANTE_LOOP.replace('p.AllowAction("pay")','p.AllowAction("ready")'))),
 ('hs-blinds-mark-ready',G,('\t\t\t// Allow "pay" action\n\t\t\tp.AllowAction("pay")\n\t\t}\n\n\t\tg.rg.Start()\n\t}','\t\t\tp.AllowAction("ready")\n\t\t}\n\n\t\tg.rg.Start()\n\t}')),
 ('hs-ready-no-mark',G,('\n\t\t\t// Allow "ready" action\n\t\t\tp.AllowAction("ready")\n','')),
 ('hs-ready-added-as-ready',G,(READY_LOOP,READY_LOOP.replace('g.rg.Add(int64(p.Idx), false)','g.rg.Add(int64(p.Idx), true)'))),
 ('hs-ante-not-added',G,(ANTE_LOOP,ANTE_LOOP.replace('\t\t\tg.rg.Add(int64(p.Idx), false)\n\n',''))),
 ('hs-blinds-bb-sb-positions-swapped',G,(BB,'gs.Meta.Blind.BB > 0 && gs.HasPosition(p.Idx, "sb")'),(SB,'gs.Meta.Blind.SB > 0 && gs.HasPosition(p.Idx, "bb")')),
 ('hs-blinds-bb-amount-of-sb',G,(BB,'gs.Meta.Blind.SB > 0 && gs.HasPosition(p.Idx, "bb")')),
 ('hs-blinds-bb-ge-zero',G,('gs.Meta.Blind.BB > 0','gs.Meta.Blind.BB >= 0')),
 ('hs-blinds-sb-or',G,(SB,'gs.Meta.Blind.SB > 0 || gs.HasPosition(p.Idx, "sb")')),
 ('hs-blinds-dealer-amount-dropped',G,(DL,'gs.HasPosition(p.Idx, "dealer")')),
 ('hs-blinds-dealer-branch-removed',G,('\t\t\t} else if '+DL+' {\n\t\t\t\tg.rg.Add(int64(p.Idx), false)\n','')),
 ('hs-blinds-dealer-position-of-bb',G,(DL,'gs.Meta.Blind.Dealer > 0 && gs.HasPosition(p.Idx, "bb")')),
 ('hs-blinds-continue-removed',G,('\t\t\t} else {\n\t\t\t\tcontinue\n\t\t\t}\n','\t\t\t}\n')),
 ('hs-blinds-sb-not-added',G,('if '+SB+' {\n\t\t\t\tg.rg.Add(int64(p.Idx), false)\n','if '+SB+' {\n')),
 ('hs-blinds-everybody',G,('if '+BB+' {','if true {')),
 # ---- updateState, Close, Start ----
 ('us-no-clone',G,('\tg.gs = state\n','\tg.gs = gs\n')),
 ('us-enqueue-argument',G,('\tg.incomingStates <- state\n','\tg.incomingStates <- gs\n')),
 ('us-closed-test-flipped',G,('\tif g.isClosed {\n\t\treturn\n\t}\n\n\tg.incomingStates','\tif !g.isClosed {\n\t\treturn\n\t}\n\n\tg.incomingStates')),
 ('us-closed-test-removed',G,('\tif g.isClosed {\n\t\treturn\n\t}\n\n\tg.incomingStates','\tg.incomingStates')),
 ('us-closed-test-before-store',G,('\tstate := g.cloneState(gs)\n\tg.gs = state\n\n\tif g.isClosed {\n\t\treturn\n\t}\n','\tstate := g.cloneState(gs)\n\tif g.isClosed {\n\t\treturn\n\t}\n\tg.gs = state\n')),
 ('us-no-enqueue',G,('\tg.incomingStates <- state\n','')),
 ('us-state-not-stored',G,('\tg.gs = state\n','')),
 ('close-not-setting-isclosed',G,('\tg.isClosed = true\n','')),
 ('close-guard-flipped',G,('func (g *game) Close() {\n\tif g.isClosed {','func (g *game) Close() {\n\tif !g.isClosed {')),
 ('close-channel-not-closed',G,('\tclose(g.incomingStates)\n','')),
 ('start-error-swallowed',G,infn('Start','\t\treturn err\n','\t\treturn nil\n')),
 ('start-no-updatestate',G,infn('Start','\tg.updateState(gs)\n\n','')),
 ('start-updater-after-create',G,infn('Start','\tg.runStateUpdater()\n\n',''),('\tgs, err := g.backend.CreateGame(g.opts)\n','\tgs, err := g.backend.CreateGame(g.opts)\n\tg.runStateUpdater()\n')),
 # ---- shortcuts ----
 ('readyforall-calls-payante',G,('g.backend.ReadyForAll(g.gs)','g.backend.PayAnte(g.gs)')),
 ('payante-calls-payblinds',G,('g.backend.PayAnte(g.gs)','g.backend.PayBlinds(g.gs)')),
 ('payblinds-calls-payante',G,('g.backend.PayBlinds(g.gs)','g.backend.PayAnte(g.gs)')),
 ('payante-error-swallowed',G,infn('PayAnte','\t\treturn err\n','\t\treturn nil\n')),
 ('payblinds-no-updatestate',G,infn('PayBlinds','\tg.updateState(gs)\n\n','')),
 ('readyforall-nil-test-flipped',G,infn('ReadyForAll','if g.gs == nil {','if g.gs != nil {')),
 ('readyforall-updatestate-before-error-check',G,infn('ReadyForAll',ERRRET+'\tg.updateState(gs)\n','\tg.updateState(gs)\n'+ERRRET)),
 # ---- wrappers ----
 ('pass-tests-check',G,('g.gs.HasAction(playerIdx, "pass")','g.gs.HasAction(playerIdx, "check")')),
 ('fold-tests-pass',G,('g.gs.HasAction(playerIdx, "fold")','g.gs.HasAction(playerIdx, "pass")')),
 ('check-calls-pass',G,('g.backend.Check(g.gs)','g.backend.Pass(g.gs)')),
 ('call-calls-allin',G,('g.backend.Call(g.gs)','g.backend.Allin(g.gs)')),
 ('allin-calls-call',G,('g.backend.Allin(g.gs)','g.backend.Call(g.gs)')),
 ('bet-calls-raise',G,('g.backend.Bet(g.gs, chips)','g.backend.Raise(g.gs, chips)')),
 ('raise-calls-bet',G,('g.backend.Raise(g.gs, chipLevel)','g.backend.Bet(g.gs, chipLevel)')),
 ('raise-tests-bet',G,('g.gs.HasAction(playerIdx, "raise")','g.gs.HasAction(playerIdx, "bet")')),
 ('bet-amount-doubled',G,('g.backend.Bet(g.gs, chips)','g.backend.Bet(g.gs, chips+chips)')),
 ('fold-action-test-not-negated',G,('if !g.gs.HasAction(playerIdx, "fold") {','if g.gs.HasAction(playerIdx, "fold") {')),
 ('call-action-test-removed',G,infn('Call','\tif !g.gs.HasAction(playerIdx, "call") {\n\t\treturn ErrInvalidAction\n\t}\n\n','')),
 ('check-tests-other-player',G,('g.gs.HasAction(playerIdx, "check")','g.gs.HasAction(playerIdx+1, "check")')),
 ('allin-player-test-flipped',G,infn('Allin','\tif p == nil {','\tif p != nil {')),
 ('pass-player-test-removed',G,infn('Pass',PCHK,'')),
 ('fold-nil-test-removed',G,infn('Fold',NILCHK,'')),
 ('bet-nil-test-flipped',G,infn('Bet','if g.gs == nil {','if g.gs != nil {')),
 ('call-return-after-error-removed',G,infn('Call',ERRRET,'\tif err != nil {\n\t}\n\n')),
 ('raise-error-swallowed',G,infn('Raise','\t\treturn err\n','\t\treturn nil\n')),
 ('fold-updatestate-before-error-check',G,infn('Fold',ERRRET+'\tg.updateState(gs)\n','\tg.updateState(gs)\n'+ERRRET)),
 ('check-no-updatestate',G,infn('Check','\tg.updateState(gs)\n\n','')),
 ('pass-wrong-error',G,infn('Pass','\t\treturn ErrInvalidAction\n','\t\treturn ErrPlayerNotInGame\n')),
 ('allin-invalid-action-returns-nil',G,infn('Allin','\t\treturn ErrInvalidAction\n','\t\treturn nil\n')),
 ('call-action-test-before-player-test',G,infn('Call',PCHK+'\tif !g.gs.HasAction(playerIdx, "call") {\n\t\treturn ErrInvalidAction\n\t}\n\n','\tif !g.gs.HasAction(playerIdx, "call") {\n\t\treturn ErrInvalidAction\n\t}\n\n'+PCHK)),
 # ---- Pay, Ready ----
 ('pay-fallthrough-removed',G,('\tcase "AnteRequested":\n\t\tfallthrough\n','\tcase "AnteRequested":\n')),
 ('pay-blinds-case-other-event',G,('\tcase "BlindsRequested":\n\t\tg.rg.Ready(','\tcase "BlindsPaid":\n\t\tg.rg.Ready(')),
 ('pay-ante-case-other-event',G,('\tcase "AnteRequested":\n\t\tfallthrough','\tcase "ReadyRequested":\n\t\tfallthrough')),
 ('pay-switch-removed',G,('\tswitch g.gs.Status.CurrentEvent {\n\tcase "AnteRequested":\n\t\tfallthrough\n\tcase "BlindsRequested":\n\t\tg.rg.Ready(int64(playerIdx))\n\t\treturn nil\n\t}\n\n','')),
 ('pay-group-branch-falls-into-backend',G,('\t\tg.rg.Ready(int64(playerIdx))\n\t\treturn nil\n\t}\n\n\tgs, err := g.backend.Pay','\t\tg.rg.Ready(int64(playerIdx))\n\t}\n\n\tgs, err := g.backend.Pay')),
 ('pay-group-branch-no-ready',G,('\tcase "BlindsRequested":\n\t\tg.rg.Ready(int64(playerIdx))\n','\tcase "BlindsRequested":\n')),
 ('pay-tests-bet',G,('g.gs.HasAction(playerIdx, "pay")','g.gs.HasAction(playerIdx, "bet")')),
 ('pay-calls-bet',G,('g.backend.Pay(g.gs, chips)','g.backend.Bet(g.gs, chips)')),
 ('pay-switch-before-action-test',G,infn('Pay','\tif !g.gs.HasAction(playerIdx, "pay") {\n\t\treturn ErrInvalidAction\n\t}\n\n',''),('\tgs, err := g.backend.Pay(g.gs, chips)\n','\tif !g.gs.HasAction(playerIdx, "pay") {\n\t\treturn ErrInvalidAction\n\t}\n\n\tgs, err := g.backend.Pay(g.gs, chips)\n')),
 ('pay-ready-of-other-player',G,('\tcase "BlindsRequested":\n\t\tg.rg.Ready(int64(playerIdx))','\tcase "BlindsRequested":\n\t\tg.rg.Ready(int64(playerIdx + 1))')),
 ('ready-tests-pay',G,('g.gs.HasAction(playerIdx, "ready")','g.gs.HasAction(playerIdx, "pay")')),
 ('ready-group-test-dropped',G,('!g.gs.HasAction(playerIdx, "ready") || g.rg == nil','!g.gs.HasAction(playerIdx, "ready")')),
 ('ready-or-to-and',G,('!g.gs.HasAction(playerIdx, "ready") || g.rg == nil','!g.gs.HasAction(playerIdx, "ready") && g.rg == nil')),
 ('ready-group-test-flipped',G,('|| g.rg == nil','|| g.rg != nil')),
 ('ready-no-group-ready',G,('\t//\tfmt.Println("RRR", playerIdx)\n\n\tg.rg.Ready(int64(playerIdx))\n','')),
 ('ready-calls-backend',G,('\t//\tfmt.Println("RRR", playerIdx)\n\n\tg.rg.Ready(int64(playerIdx))\n','\tg.ReadyForAll()\n')),
 # ---- controls: behaviour-preserving edits (formatting, comments, debug output, the kind of lock); must NOT break anything ----
 ('CONTROL-hs-comments-format',G,('\t\tif gs.Meta.Ante == 0 {\n\t\t\tbreak\n\t\t}\n','\t\t// no ante in this game: nothing to wait for\n\t\tif gs.Meta.Ante ==\n\t\t\t0 {\n\n\t\t\tbreak // straight to the callback\n\t\t}\n')),
 ('CONTROL-hs-next-error-message',G,('\t\t\tfmt.Println(err)\n\t\t\treturn\n','\t\t\tfmt.Println("table: next round failed:", err)\n\t\t\treturn\n')),
 ('CONTROL-us-write-lock',G,('\tg.mu.RLock()\n\tdefer g.mu.RUnlock()\n\n\tstate := g.cloneState(gs)','\tg.mu.Lock()\n\tdefer g.mu.Unlock()\n\n\tstate := g.cloneState(gs)')),
]
sel=sys.argv[1:]
for t in tests:
    if not sel or t[0] in sel or any(t[0].startswith(x) for x in sel): run(*t)
subprocess.run([GENLOGIC,REPO,f'{LW}/Pokerface/Generated'],check=True)
r=subprocess.run(['lake','build']+MODS,cwd=LW,capture_output=True,text=True)
print('unchanged tree rebuilt:', 'ok' if r.returncode==0 else 'FAILED')
bad=[n for (n,s,_,_) in results if (s!='CAUGHT') != n.startswith('CONTROL')]
print(f'{len(results)} edits; unexpected outcomes: {bad}')
