#!/usr/bin/env python3
# negative tests of the K1 translated-logic obligations of group "Hop" (game.go: how a game object is built and rebuilt;
# player.go State / SeatIndex / CheckPosition; pokerface.go; game_options.go; table/native_backend.go): apply one edit to a
# scratch copy of the repo, regenerate with genlogic, rebuild Proofs/GeneratedLogicHop, report which theorems break
# (same mechanism as negtest_tb.py / negtest_pots.py).
# usage: (copy /repo without .git to $SCR); cp -r <lean project> $LW; GENLOGIC=<binary> negtest_hop.py [name-prefix ...]
# An edit is a list of (old, new) replacements in one file (a moved statement is one deletion and one insertion).
import subprocess, re, sys, os
REPO=os.environ.get('REPO','/repo'); SCR=os.environ.get('SCR','/tmp/ghopneg'); LW=os.environ.get('LW','/tmp/lw-ghop-neg')
GENLOGIC=os.environ.get('GENLOGIC','/tmp/hw-ghop/genlogic')
MODS=['Pokerface.Proofs.GeneratedLogicHop']
ENV=dict(os.environ, GOFLAGS='-mod=mod', GOPROXY='off', GOSUMDB='off', GOTOOLCHAIN='local')
G='game.go'; P='player.go'; PF='pokerface.go'; O='game_options.go'; NB='table/native_backend.go'
results=[]
def run(name, f, *reps):
    src=open(f'{REPO}/{f}').read()
    new=src
    for (old,rep) in reps:
        if new.count(old)!=1:
            print(f'{name}: PATTERN NOT FOUND OR NOT UNIQUE ({new.count(old)}): {old[:50]!r}'); results.append((name,'PATTERN',[],'')); return
        new=new.replace(old,rep)
    open(f'{SCR}/{f}','w').write(new)
    c=subprocess.run(['go','build','.','./table'],cwd=SCR,env=ENV,capture_output=True,text=True)
    compiles = 'compiles' if c.returncode==0 else 'DOES NOT COMPILE: '+c.stderr.strip().splitlines()[-1]
    subprocess.run([GENLOGIC,SCR,f'{LW}/Pokerface/Generated'],check=True)
    untr=sorted(set(re.findall(r'^-- UNTRANSLATED (.*)$',open(f'{LW}/Pokerface/Generated/LogicHop.lean').read(),re.M)))
    r=subprocess.run(['lake','build']+MODS,cwd=LW,capture_output=True,text=True)
    out=r.stdout+r.stderr
    broken=set()
    for m in re.finditer(r'error: Pokerface/Proofs/(GeneratedLogic\w*).lean:(\d+):',out):
        proof=open(f'{LW}/Pokerface/Proofs/{m.group(1)}.lean').read().splitlines()
        ln=int(m.group(2))
        if ln-1 < len(proof) and proof[ln-1].startswith('/--'):   # an error at a (possibly multi-line) doc comment belongs to the declaration below
            while ln-1 < len(proof) and '-/' not in proof[ln-1]: ln+=1
            ln+=1
        for k in range(min(ln,len(proof))-1,-1,-1):
            mm=re.match(r'(theorem|def|example)\s*(\S*)',proof[k])
            if mm: broken.add(mm.group(2) if mm.group(1)!='example' else 'example'); break
    gen=sorted(set(re.findall(r'error: Pokerface/Generated/(Logic\w*).lean',out)))
    gen_err = ('LogicHop.lean does not type-check' + (' (untranslatable: '+'; '.join(u[:100] for u in untr)+')' if untr else ' (translated, ill-typed)')) if gen else ''
    status='CAUGHT' if r.returncode!=0 else 'NOT CAUGHT'
    print(f'{name}: {status} [{compiles}] {gen_err} broken={sorted(broken)}', flush=True)
    results.append((name,status,sorted(broken),gen_err))
    open(f'{SCR}/{f}','w').write(src)

# ---- game.go ----
FRESH='\tg := &game{\n\t\tplayers: make(map[int]Player),\n\t}\n'
LOAD='\tg.gs = gs\n\n\t// Initializing players\n\tfor _, ps := range g.gs.Players {\n\t\tg.addPlayer(ps)\n\t}\n'
LOADLOOP='\t// Initializing players\n\tfor _, ps := range g.gs.Players {\n\t\tg.addPlayer(ps)\n\t}\n'
DECKIF='\tif opts.Deck != nil {\n\t\tg.gs.Meta.Deck = append([]string{}, opts.Deck...)\n\t}\n'
SETLOOP='\t// Loading players\n\tfor idx, p := range opts.Players {\n\t\tg.AddPlayer(idx, p)\n\t}\n'
DEALERIF='\tif p.CheckPosition("dealer") {\n\t\tg.dealer = p\n\t}\n\n'
BLINDIF='\tif p.CheckPosition("sb") {\n\t\tg.smallBlind = p\n\t} else if p.CheckPosition("bb") {\n\t\tg.bigBlind = p\n\t}\n'
GPBODY='\t\tplayers = append(players, g.players[cur])\n\n\t\t// Find the next player\n\t\tcur++\n\n\t\t// The end of player list\n\t\tif cur == playerCount {\n\t\t\tcur = 0\n\t\t}\n'
tests=[
 # NewGame / NewGameFromState
 ('newgame-options-not-applied',G,('\tg.ApplyOptions(opts)\n','')),
 ('newgame-options-applied-to-another-object',G,('\tg.ApplyOptions(opts)\n\treturn g','\tg.ApplyOptions(opts)\n\treturn &game{players: make(map[int]Player)}')),
 ('newgame-not-fresh-dealer-preset',G,(FRESH+'\tg.ApplyOptions(opts)',FRESH.replace('\t}\n','\t}\n\tg.dealer = lastDealer\n')+'\tg.ApplyOptions(opts)'),('func NewGame(','var lastDealer Player\n\nfunc NewGame(')),
 ('newfromstate-state-not-loaded',G,('\tg.LoadState(gs)\n','')),
 ('newfromstate-loads-a-copy',G,('\tg.LoadState(gs)\n','\tcp := *gs\n\tg.LoadState(&cp)\n')),
 ('newfromstate-applies-options-instead',G,('\tg.LoadState(gs)\n','\tg.ApplyOptions(&GameOptions{})\n\tg.gs = gs\n')),
 ('newfromstate-object-reused',G,(FRESH+'\tg.LoadState(gs)',FRESH.replace('g := &game{','g := sharedGame\n\t_ = &game{')+'\tg.LoadState(gs)'),('func NewGame(','var sharedGame = &game{players: make(map[int]Player)}\n\nfunc NewGame(')),
 ('getstate-returns-a-copy',G,('func (g *game) GetState() *GameState {\n\treturn g.gs\n','func (g *game) GetState() *GameState {\n\tcp := *g.gs\n\treturn &cp\n')),
 ('getstatejson-marshals-players-only',G,('\treturn json.Marshal(g.gs)\n','\treturn json.Marshal(g.gs.Players)\n')),
 # LoadState
 ('load-pointer-swapped-after-the-loop',G,(LOAD,LOADLOOP+'\tg.gs = gs\n')),
 ('load-pointer-not-swapped',G,('\tg.gs = gs\n\n\t// Initializing players','\t// Initializing players')),
 ('load-early-return-before-players-rebuilt',G,(LOADLOOP,'')),
 ('load-keeps-old-players-when-count-matches',G,(LOADLOOP,'\tif len(g.players) == len(gs.Players) {\n\t\treturn nil\n\t}\n'+LOADLOOP)),
 ('load-keeps-old-players-when-dealer-cached',G,(LOADLOOP,'\tif g.dealer != nil {\n\t\treturn nil\n\t}\n'+LOADLOOP)),
 ('load-players-in-reverse',G,('\tfor _, ps := range g.gs.Players {\n\t\tg.addPlayer(ps)\n\t}','\tfor i := len(g.gs.Players) - 1; i >= 0; i-- {\n\t\tg.addPlayer(g.gs.Players[i])\n\t}')),
 ('load-skips-folded-players',G,('\tfor _, ps := range g.gs.Players {\n\t\tg.addPlayer(ps)\n','\tfor _, ps := range g.gs.Players {\n\t\tif ps.Fold {\n\t\t\tcontinue\n\t\t}\n\t\tg.addPlayer(ps)\n')),
 ('load-all-players-bound-to-first-state',G,('\tfor _, ps := range g.gs.Players {\n\t\tg.addPlayer(ps)\n','\tfor range g.gs.Players {\n\t\tg.addPlayer(g.gs.Players[0])\n')),
 ('load-first-player-only',G,('\tfor _, ps := range g.gs.Players {\n\t\tg.addPlayer(ps)\n','\tfor _, ps := range g.gs.Players[:1] {\n\t\tg.addPlayer(ps)\n')),
 ('load-player-added-twice',G,('\tfor _, ps := range g.gs.Players {\n\t\tg.addPlayer(ps)\n','\tfor _, ps := range g.gs.Players {\n\t\tg.addPlayer(ps)\n\t\tg.addPlayer(ps)\n')),
 # ApplyOptions
 ('apply-deck-stored-without-copying',G,('g.gs.Meta.Deck = append([]string{}, opts.Deck...)','g.gs.Meta.Deck = opts.Deck')),
 ('apply-deck-in-literal-uncopied (D12)',G,(DECKIF,''),('\t\t\tBurnCount:              opts.BurnCount,\n','\t\t\tBurnCount:              opts.BurnCount,\n\t\t\tDeck:                   opts.Deck,\n')),
 ('apply-deck-reslice-of-options',G,('append([]string{}, opts.Deck...)','append(opts.Deck[:0], opts.Deck...)')),
 ('apply-deck-copy-then-overwritten',G,(DECKIF,DECKIF+'\tg.gs.Meta.Deck = opts.Deck\n')),
 ('apply-deck-condition-flipped',G,('\tif opts.Deck != nil {','\tif opts.Deck == nil {')),
 ('apply-deck-not-set',G,(DECKIF,'')),
 ('apply-ante-not-copied',G,('\t\t\tAnte:                   opts.Ante,\n','')),
 ('apply-blind-not-copied',G,('\t\t\tBlind:                  opts.Blind,\n','')),
 ('apply-limit-constant',G,('Limit:                  opts.Limit,','Limit:                  "no",')),
 ('apply-hole-from-required',G,('HoleCardsCount:         opts.HoleCardsCount,','HoleCardsCount:         opts.RequiredHoleCardsCount,')),
 ('apply-required-from-hole',G,('RequiredHoleCardsCount: opts.RequiredHoleCardsCount,','RequiredHoleCardsCount: opts.HoleCardsCount,')),
 ('apply-powers-not-copied',G,('\t\t\tCombinationPowers:      opts.CombinationPowers,\n','')),
 ('apply-burn-from-hole',G,('BurnCount:              opts.BurnCount,','BurnCount:              opts.HoleCardsCount,')),
 ('apply-burn-plus-one',G,('BurnCount:              opts.BurnCount,','BurnCount:              opts.BurnCount + 1,')),
 ('apply-ante-from-burn',G,('Ante:                   opts.Ante,','Ante:                   int64(opts.BurnCount),')),
 ('apply-players-not-reset',G,('\t\tPlayers: make([]*PlayerState, 0),\n','')),
 ('apply-old-state-kept-when-present',G,('\tg.gs = &GameState{','\told := g.gs\n\tg.gs = &GameState{'),('\t// Every game owns its deck','\tif old != nil {\n\t\tg.gs = old\n\t}\n\n\t// Every game owns its deck')),
 ('apply-players-loop-before-fresh-state',G,(SETLOOP,''),('\tg.gs = &GameState{',SETLOOP+'\n\tg.gs = &GameState{')),
 ('apply-players-loop-removed',G,(SETLOOP,'')),
 ('apply-players-in-reverse',G,('\tfor idx, p := range opts.Players {\n\t\tg.AddPlayer(idx, p)\n\t}','\tfor idx := len(opts.Players) - 1; idx >= 0; idx-- {\n\t\tg.AddPlayer(idx, opts.Players[idx])\n\t}')),
 ('apply-player-index-plus-one',G,('\t\tg.AddPlayer(idx, p)\n','\t\tg.AddPlayer(idx+1, p)\n')),
 ('apply-player-index-reversed',G,('\t\tg.AddPlayer(idx, p)\n','\t\tg.AddPlayer(len(opts.Players)-1-idx, p)\n')),
 ('apply-all-players-from-first-setting',G,('\t\tg.AddPlayer(idx, p)\n','\t\tg.AddPlayer(idx, opts.Players[0])\n\t\t_ = p\n')),
 # AddPlayer
 ('add-stack-not-initialised',G,('\t\tStackSize:        setting.Bankroll,\n','')),
 ('add-stack-bankroll-minus-one',G,('StackSize:        setting.Bankroll,','StackSize:        setting.Bankroll - 1,')),
 ('add-initial-stack-zero',G,('InitialStackSize: setting.Bankroll,','InitialStackSize: 0,')),
 ('add-bankroll-zero',G,('\t\tBankroll:         setting.Bankroll,\n','')),
 ('add-idx-constant',G,('\t\tIdx:              idx,\n','\t\tIdx:              0,\n')),
 ('add-idx-plus-one',G,('\t\tIdx:              idx,\n','\t\tIdx:              idx + 1,\n')),
 ('add-positions-dropped',G,('\t\tPositions:        setting.Positions,\n','')),
 ('add-combination-nil',G,('\t\tCombination:      &CombinationInfo{},\n','')),
 ('add-player-starts-folded',G,('\t\tCombination:      &CombinationInfo{},\n','\t\tCombination:      &CombinationInfo{},\n\t\tFold:             true,\n')),
 ('add-player-starts-with-wager',G,('\t\tCombination:      &CombinationInfo{},\n','\t\tCombination:      &CombinationInfo{},\n\t\tWager:            setting.Bankroll,\n')),
 ('add-state-prepended',G,('g.gs.Players = append(g.gs.Players, ps)','g.gs.Players = append([]*PlayerState{ps}, g.gs.Players...)')),
 ('add-state-not-appended',G,('\tg.gs.Players = append(g.gs.Players, ps)\n\n','')),
 ('add-object-bound-to-first-state',G,('\treturn g.addPlayer(ps)','\treturn g.addPlayer(g.gs.Players[0])')),
 ('add-object-bound-to-a-copy',G,('\treturn g.addPlayer(ps)','\tcp := *ps\n\treturn g.addPlayer(&cp)')),
 ('add-object-not-created',G,('\treturn g.addPlayer(ps)','\treturn nil')),
 # addPlayer
 ('cache-dealer-first-holder',G,('\tif p.CheckPosition("dealer") {\n\t\tg.dealer = p','\tif g.dealer == nil && p.CheckPosition("dealer") {\n\t\tg.dealer = p')),
 ('cache-dealer-never-refreshed',G,(DEALERIF,'\tif g.dealer == nil {\n\t\tif p.CheckPosition("dealer") {\n\t\t\tg.dealer = p\n\t\t}\n\t}\n\n')),
 ('cache-dealer-not-cached',G,(DEALERIF,'')),
 ('cache-dealer-is-small-blind-holder',G,('\tif p.CheckPosition("dealer") {\n\t\tg.dealer = p','\tif p.CheckPosition("sb") {\n\t\tg.dealer = p')),
 ('cache-dealer-unconditional',G,(DEALERIF,'\tg.dealer = p\n\n')),
 ('cache-dealer-after-blinds-else',G,(DEALERIF,''),(BLINDIF,'\tif p.CheckPosition("sb") {\n\t\tg.smallBlind = p\n\t} else if p.CheckPosition("bb") {\n\t\tg.bigBlind = p\n\t} else if p.CheckPosition("dealer") {\n\t\tg.dealer = p\n\t}\n')),
 ('cache-bb-independent-of-sb',G,('\t} else if p.CheckPosition("bb") {\n\t\tg.bigBlind = p','\t}\n\tif p.CheckPosition("bb") {\n\t\tg.bigBlind = p')),
 ('cache-bb-tested-first',G,(BLINDIF,'\tif p.CheckPosition("bb") {\n\t\tg.bigBlind = p\n\t} else if p.CheckPosition("sb") {\n\t\tg.smallBlind = p\n\t}\n')),
 ('cache-sb-stored-as-bb',G,('\t\tg.smallBlind = p\n','\t\tg.bigBlind = p\n')),
 ('cache-sb-bb-swapped',G,(BLINDIF,BLINDIF.replace('"sb"','"XX"').replace('"bb"','"sb"').replace('"XX"','"bb"'))),
 ('object-map-key-is-map-size',G,('\tg.players[state.Idx] = p\n','\tg.players[len(g.players)] = p\n')),
 ('object-map-key-plus-one',G,('\tg.players[state.Idx] = p\n','\tg.players[state.Idx+1] = p\n')),
 ('object-not-stored',G,('\tg.players[state.Idx] = p\n\n','')),
 ('object-stored-before-caches',G,('\tg.players[state.Idx] = p\n\n',''),('\tif p.CheckPosition("dealer") {\n\t\tg.dealer = p','\tg.players[state.Idx] = nil\n\tif p.CheckPosition("dealer") {\n\t\tg.dealer = p')),
 ('object-idx-zero',G,('\t\tidx:   state.Idx,\n','\t\tidx:   0,\n')),
 ('object-state-not-bound',G,('\t\tstate: state,\n','')),
 ('object-bound-to-a-copy-of-the-state',G,('\t\tstate: state,\n','\t\tstate: &PlayerState{Idx: state.Idx, Positions: state.Positions},\n')),
 ('object-game-not-bound',G,('\t\tgame:  g,\n','')),
 # lookups
 ('player-upper-bound-off-by-one',G,('if idx < 0 || idx >= g.GetPlayerCount() {','if idx < 0 || idx > g.GetPlayerCount() {')),
 ('player-lower-bound-dropped',G,('if idx < 0 || idx >= g.GetPlayerCount() {','if idx >= g.GetPlayerCount() {')),
 ('player-bounds-and',G,('if idx < 0 || idx >= g.GetPlayerCount() {','if idx < 0 && idx >= g.GetPlayerCount() {')),
 ('player-lookup-next-seat',G,('\treturn g.players[idx]\n','\treturn g.players[idx+1]\n')),
 ('player-lookup-new-object',G,('\treturn g.players[idx]\n','\treturn &player{idx: idx, game: g, state: g.gs.Players[idx]}\n')),
 ('dealer-returns-small-blind',G,('func (g *game) Dealer() Player {\n\treturn g.dealer','func (g *game) Dealer() Player {\n\treturn g.smallBlind')),
 ('dealer-recomputed-first-holder',G,('func (g *game) Dealer() Player {\n\treturn g.dealer','func (g *game) Dealer() Player {\n\tfor _, ps := range g.gs.Players {\n\t\tif g.players[ps.Idx].CheckPosition("dealer") {\n\t\t\treturn g.players[ps.Idx]\n\t\t}\n\t}\n\treturn g.dealer')),
 ('smallblind-returns-big-blind',G,('func (g *game) SmallBlind() Player {\n\treturn g.smallBlind','func (g *game) SmallBlind() Player {\n\treturn g.bigBlind')),
 ('bigblind-returns-dealer',G,('func (g *game) BigBlind() Player {\n\treturn g.bigBlind','func (g *game) BigBlind() Player {\n\treturn g.dealer')),
 ('playercount-from-object-map',G,('\treturn len(g.gs.Players)\n','\treturn len(g.players)\n')),
 ('playercount-minus-one',G,('\treturn len(g.gs.Players)\n','\treturn len(g.gs.Players) - 1\n')),
 # GetPlayers
 ('getplayers-loop-bound-le',G,('\tfor i := 0; i < playerCount; i++ {\n','\tfor i := 0; i <= playerCount; i++ {\n')),
 ('getplayers-loop-from-one',G,('\tfor i := 0; i < playerCount; i++ {\n','\tfor i := 1; i < playerCount; i++ {\n')),
 ('getplayers-start-at-seat-zero',G,('\tcur := g.Dealer().SeatIndex()\n','\tcur := 0\n')),
 ('getplayers-start-after-dealer',G,('\tcur := g.Dealer().SeatIndex()\n','\tcur := g.Dealer().SeatIndex() + 1\n')),
 ('getplayers-count-from-object-map',G,('\tplayers := make([]Player, 0)\n\tplayerCount := g.GetPlayerCount()\n','\tplayers := make([]Player, 0)\n\tplayerCount := len(g.players)\n')),
 ('getplayers-no-wrap',G,(GPBODY,GPBODY.replace('\n\t\t// The end of player list\n\t\tif cur == playerCount {\n\t\t\tcur = 0\n\t\t}\n',''))),
 ('getplayers-wrap-to-one',G,(GPBODY,GPBODY.replace('\t\t\tcur = 0\n','\t\t\tcur = 1\n'))),
 ('getplayers-wrap-one-late',G,(GPBODY,GPBODY.replace('if cur == playerCount {','if cur > playerCount {'))),
 ('getplayers-append-after-increment',G,(GPBODY,'\t\tcur++\n\n\t\tif cur == playerCount {\n\t\t\tcur = 0\n\t\t}\n\t\tplayers = append(players, g.players[cur])\n')),
 ('getplayers-counts-down',G,(GPBODY,GPBODY.replace('\t\tcur++\n','\t\tcur--\n'))),
 ('getplayers-prepends',G,(GPBODY,GPBODY.replace('players = append(players, g.players[cur])','players = append([]Player{g.players[cur]}, players...)'))),
 ('getplayers-returns-empty',G,('\t\t}\n\t}\n\n\treturn players\n}','\t\t}\n\t}\n\n\treturn players[:0]\n}')),
 # ---- player.go ----
 ('state-guard-lt',P,('\tif len(state.Players) <= p.idx {','\tif len(state.Players) < p.idx {')),
 ('state-returns-bound-pointer',P,('\treturn state.Players[p.idx]\n','\treturn p.state\n')),
 ('state-guard-removed',P,('\tif len(state.Players) <= p.idx {\n\t\treturn nil\n\t}\n\n','')),
 ('seatindex-from-state',P,('func (p *player) SeatIndex() int {\n\treturn p.idx','func (p *player) SeatIndex() int {\n\treturn p.state.Idx')),
 ('seatindex-plus-one',P,('func (p *player) SeatIndex() int {\n\treturn p.idx','func (p *player) SeatIndex() int {\n\treturn p.idx + 1')),
 ('checkposition-ne',P,('\t\tif p == pos {','\t\tif p != pos {')),
 ('checkposition-default-true',P,('\t\tif p == pos {\n\t\t\treturn true\n\t\t}\n\t}\n\n\treturn false','\t\tif p == pos {\n\t\t\treturn true\n\t\t}\n\t}\n\n\treturn true')),
 ('checkposition-first-entry-only',P,('\tfor _, p := range p.state.Positions {\n','\tfor _, p := range p.state.Positions[:1] {\n')),
 ('checkposition-prefix-match',P,('\t\tif p == pos {','\t\tif len(p) > 0 && p[0] == pos[0] {')),
 # ---- pokerface.go ----
 ('pf-newfromstate-new-game-instead',PF,('\treturn NewGameFromState(gs)','\treturn NewGame(NewStardardGameOptions())')),
 ('pf-newfromstate-copy',PF,('\treturn NewGameFromState(gs)','\tcp := *gs\n\treturn NewGameFromState(&cp)')),
 ('pf-newgame-default-options',PF,('\tg := NewGame(opts)\n','\tg := NewGame(NewStardardGameOptions())\n')),
 ('pf-newgame-writes-meta',PF,('\ts.CreatedAt = time.Now().Unix()\n','\ts.CreatedAt = time.Now().Unix()\n\ts.Meta.Ante = 0\n')),
 ('pf-newgame-returns-second-game',PF,('\treturn g\n}','\treturn NewGame(opts)\n}')),
 ('pf-engine-shared-instance',PF,('\treturn &pokerface{}\n','\treturn sharedEngine\n'),('func NewPokerFace()','var sharedEngine = &pokerface{}\n\nfunc NewPokerFace()')),
 # ---- game_options.go ----
 ('options-sb-six',O,('SB:     5,','SB:     6,')),
 ('options-bb-in-dealer-slot',O,('\t\t\tDealer: 0,\n\t\t\tSB:     5,\n\t\t\tBB:     10,\n','\t\t\tDealer: 10,\n\t\t\tSB:     5,\n\t\t\tBB:     0,\n')),
 ('options-ante-one',O,('\t\tAnte: 0,\n','\t\tAnte: 1,\n')),
 ('options-limit-pot',O,('Limit:                  "no",','Limit:                  "pot",')),
 ('options-hole-three',O,('HoleCardsCount:         2,','HoleCardsCount:         3,')),
 ('options-required-two',O,('RequiredHoleCardsCount: 0,','RequiredHoleCardsCount: 2,')),
 ('options-burn-zero',O,('BurnCount:              1,','BurnCount:              0,')),
 ('options-burn-dropped',O,('\t\tBurnCount:              1,\n','')),
 ('options-standard-gets-short-deck-table',O,('CombinationPowers:      combination.CombinationPowerStandard,','CombinationPowers:      combination.CombinationPowerShortDeck,')),
 ('options-deck-shared-package-slice',O,('Deck:                   make([]string, 0),','Deck:                   sharedDeck,'),('func NewStardardGameOptions()','var sharedDeck = make([]string, 0)\n\nfunc NewStardardGameOptions()')),
 ('options-players-shared-package-slice',O,('Players:                make([]*PlayerSetting, 0),','Players:                sharedPlayers,'),('func NewStardardGameOptions()','var sharedPlayers = make([]*PlayerSetting, 0)\n\nfunc NewStardardGameOptions()')),
 ('options-deck-nil',O,('\t\tDeck:                   make([]string, 0),\n','')),
 ('options-value-shared',O,('\treturn &GameOptions{','\tif cachedOptions != nil {\n\t\treturn cachedOptions\n\t}\n\treturn &GameOptions{'),('func NewStardardGameOptions()','var cachedOptions *GameOptions\n\nfunc NewStardardGameOptions()')),
 ('shortdeck-swaps-shared-table-in-place (C07e)',O,('\topts.CombinationPowers = combination.CombinationPowerShortDeck\n','\topts.CombinationPowers[5], opts.CombinationPowers[6] = opts.CombinationPowers[6], opts.CombinationPowers[5]\n')),
 ('shortdeck-table-not-installed',O,('\topts.CombinationPowers = combination.CombinationPowerShortDeck\n','')),
 ('shortdeck-installs-standard-table',O,('\topts.CombinationPowers = combination.CombinationPowerShortDeck\n','\topts.CombinationPowers = combination.CombinationPowerStandard\n')),
 ('shortdeck-writes-into-shared-table',O,('\topts.CombinationPowers = combination.CombinationPowerShortDeck\n','\tcopy(opts.CombinationPowers, combination.CombinationPowerShortDeck)\n')),
 ('shortdeck-from-empty-options',O,('\topts := NewStardardGameOptions()\n','\topts := &GameOptions{}\n')),
 # ---- table/native_backend.go: cloneState, getState, CreateGame ----
 ('clone-returns-argument-on-marshal-error',NB,('\tdata, err := json.Marshal(gs)\n\tif err != nil {\n\t\treturn nil','\tdata, err := json.Marshal(gs)\n\tif err != nil {\n\t\treturn gs')),
 ('clone-returns-argument-on-unmarshal-error',NB,('\terr = json.Unmarshal([]byte(data), &state)\n\tif err != nil {\n\t\treturn nil','\terr = json.Unmarshal([]byte(data), &state)\n\tif err != nil {\n\t\treturn gs')),
 ('clone-returns-argument',NB,('\treturn &state\n','\treturn gs\n')),
 ('clone-returns-copy-made-by-assignment',NB,('\treturn &state\n','\tstate = *gs\n\treturn &state\n')),
 ('clone-unmarshal-error-ignored',NB,('\terr = json.Unmarshal([]byte(data), &state)\n\tif err != nil {\n\t\treturn nil\n\t}\n','\terr = json.Unmarshal([]byte(data), &state)\n')),
 ('clone-marshal-error-ignored',NB,('\tdata, err := json.Marshal(gs)\n\tif err != nil {\n\t\treturn nil\n\t}\n','\tdata, err := json.Marshal(gs)\n')),
 ('clone-error-test-flipped',NB,('\tdata, err := json.Marshal(gs)\n\tif err != nil {','\tdata, err := json.Marshal(gs)\n\tif err == nil {')),
 ('clone-shallow-copy',NB,('\tvar state pokerface.GameState\n\terr = json.Unmarshal([]byte(data), &state)\n','\tstate := *gs\n\terr = json.Unmarshal([]byte(data), &state)\n')),
 ('clone-unmarshals-into-argument',NB,('\terr = json.Unmarshal([]byte(data), &state)\n','\terr = json.Unmarshal([]byte(data), gs)\n')),
 ('clone-marshals-players-only',NB,('\tdata, err := json.Marshal(gs)\n','\tdata, err := json.Marshal(gs.Players)\n')),
 ('getstate-without-clone',NB,('\treturn cloneState(g.GetState())\n','\treturn g.GetState()\n')),
 ('getstate-clone-of-clone-argument-swapped',NB,('\treturn cloneState(g.GetState())\n','\ts := g.GetState()\n\tcloneState(s)\n\treturn s\n')),
 ('nb-new-backend-without-engine',NB,('\t\tengine: pokerface.NewPokerFace(),\n','')),
 ('create-without-start',NB,('\tg := nb.engine.NewGame(opts)\n\terr := g.Start()\n\tif err != nil {\n\t\treturn nil, err\n\t}\n','\tg := nb.engine.NewGame(opts)\n')),
 ('create-start-error-swallowed',NB,('\terr := g.Start()\n\tif err != nil {\n\t\treturn nil, err\n\t}','\terr := g.Start()\n\tif err != nil {\n\t\treturn nil, nil\n\t}')),
 ('create-start-error-ignored',NB,('\terr := g.Start()\n\tif err != nil {\n\t\treturn nil, err\n\t}\n','\tg.Start()\n')),
 ('create-returns-live-state',NB,('\terr := g.Start()\n\tif err != nil {\n\t\treturn nil, err\n\t}\n\n\treturn nb.getState(g), nil','\terr := g.Start()\n\tif err != nil {\n\t\treturn nil, err\n\t}\n\n\treturn g.GetState(), nil')),
 ('create-state-returned-with-error',NB,('\terr := g.Start()\n\tif err != nil {\n\t\treturn nil, err\n\t}','\terr := g.Start()\n\tif err != nil {\n\t\treturn nb.getState(g), err\n\t}')),
 ('create-ready-for-all-too',NB,('\terr := g.Start()\n\tif err != nil {\n\t\treturn nil, err\n\t}\n','\terr := g.Start()\n\tif err != nil {\n\t\treturn nil, err\n\t}\n\tg.ReadyForAll()\n')),
]
# ---- the twelve operations of the backend: the same edits for every method ----
OPS=[('Next','g.Next()',''),('ReadyForAll','g.ReadyForAll()',''),('Pass','g.Pass()','\n'),('PayAnte','g.PayAnte()','\n'),('PayBlinds','g.PayBlinds()','\n'),
     ('Pay','g.Pay(chips)','\n'),('Fold','g.Fold()','\n'),('Check','g.Check()','\n'),('Call','g.Call()','\n'),('Allin','g.Allin()','\n'),
     ('Bet','g.Bet(chips)','\n'),('Raise','g.Raise(chipLevel)','\n')]
OTHER={'Next':'g.ReadyForAll()','ReadyForAll':'g.Next()','Pass':'g.Check()','PayAnte':'g.PayBlinds()','PayBlinds':'g.PayAnte()','Pay':'g.Bet(chips)',
       'Fold':'g.Pass()','Check':'g.Call()','Call':'g.Check()','Allin':'g.Call()','Bet':'g.Raise(chips)','Raise':'g.Bet(chipLevel)'}
def body(call,gap,new='nb.engine.NewGameFromState(cloneState(gs))',errret='return nil, err',ret='return nb.getState(g), nil',pre=''):
    return f'\tg := {new}\n{gap}{pre}\terr := {call}\n\tif err != nil {{\n\t\t{errret}\n\t}}\n\n\t{ret}\n'
for (m,call,gap) in OPS:
    b=body(call,gap)
    tests += [
     (f'nb-{m}-without-clone-in',NB,(b,body(call,gap,new='nb.engine.NewGameFromState(gs)'))),
     (f'nb-{m}-without-clone-out',NB,(b,body(call,gap,ret='return g.GetState(), nil'))),
     (f'nb-{m}-returns-the-argument',NB,(b,body(call,gap,ret='return gs, nil'))),
     (f'nb-{m}-calls-another-operation',NB,(b,body(OTHER[m],gap))),
     (f'nb-{m}-swallows-the-error',NB,(b,body(call,gap,errret='return nil, nil'))),
    ]
b=lambda m: body(dict((x,y) for x,y,_ in OPS)[m], dict((x,z) for x,_,z in OPS)[m])
tests += [
 ('nb-Fold-operates-on-the-argument-and-clones-it-out',NB,(b('Fold'),body('g.Fold()','\n',new='nb.engine.NewGameFromState(gs)',ret='return cloneState(gs), nil'))),
 ('nb-Check-error-returned-with-the-state',NB,(b('Check'),body('g.Check()','\n',errret='return nb.getState(g), err'))),
 ('nb-Call-error-returned-with-the-argument',NB,(b('Call'),body('g.Call()','\n',errret='return gs, err'))),
 ('nb-Allin-operation-twice',NB,(b('Allin'),body('g.Allin()','\n',pre='\tg.Allin()\n'))),
 ('nb-Pass-without-the-operation',NB,(b('Pass'),'\tg := nb.engine.NewGameFromState(cloneState(gs))\n\n\treturn nb.getState(g), nil\n')),
 ('nb-Next-resumes-first',NB,(b('Next'),body('g.Next()','',pre='\tg.Resume()\n'))),
 ('nb-Bet-amount-plus-one',NB,(b('Bet'),body('g.Bet(chips + 1)','\n'))),
 ('nb-Raise-amount-negated',NB,(b('Raise'),body('g.Raise(-chipLevel)','\n'))),
 ('nb-Pay-amount-zero',NB,(b('Pay'),body('g.Pay(0)','\n'))),
 ('nb-PayAnte-error-test-flipped',NB,(b('PayAnte'),b('PayAnte').replace('if err != nil','if err == nil'))),
 ('nb-PayBlinds-clone-of-clone-but-game-from-argument',NB,(b('PayBlinds'),body('g.PayBlinds()','\n',new='nb.engine.NewGameFromState(gs)',pre='\tcloneState(cloneState(gs))\n'))),
 ('nb-ReadyForAll-new-game-instead-of-rebuild',NB,(b('ReadyForAll'),body('g.ReadyForAll()','',new='nb.engine.NewGame(pokerface.NewStardardGameOptions())'))),
 ('nb-Raise-bypasses-the-engine-interface',NB,(b('Raise'),body('g.Raise(chipLevel)','\n',new='pokerface.NewGameFromState(gs)'))),
 # ---- controls: behaviour-preserving edits (formatting, comments, statements the model does not read); must NOT break anything ----
 ('CONTROL-apply-format-comments',G,(DECKIF,'\t// a game never shares its deck with the options it was built from\n\tif opts.Deck !=\n\t\tnil {\n\n\t\tg.gs.Meta.Deck = append([]string{}, opts.Deck...) // copy\n\t}\n')),
 ('CONTROL-add-literal-field-order',G,('\t\tPositions:        setting.Positions,\n\t\tBankroll:         setting.Bankroll,\n','\t\tBankroll:         setting.Bankroll,\n\t\tPositions:        setting.Positions,\n')),
 ('CONTROL-getplayers-preallocated (B2_05)',G,('\tplayers := make([]Player, 0)\n\tplayerCount := g.GetPlayerCount()\n','\tplayerCount := g.GetPlayerCount()\n\tplayers := make([]Player, 0, playerCount)\n')),
 ('CONTROL-options-empty-slice-literal',O,('Deck:                   make([]string, 0),','Deck:                   []string{},')),
 ('CONTROL-pf-timestamps-reordered',PF,('\ts.GameID = uuid.New().String()\n\ts.CreatedAt = time.Now().Unix()\n','\ts.CreatedAt = time.Now().Unix()\n\ts.GameID = uuid.New().String()\n')),
 ('CONTROL-nb-comments-blank-lines',NB,('\t//Note: we must clone a new structure for preventing original data of game engine is modified outside.\n',''),('\tg := nb.engine.NewGameFromState(cloneState(gs))\n\terr := g.Next()\n','\t// rebuilt from a copy: the caller keeps its state\n\tg := nb.engine.NewGameFromState(cloneState(gs))\n\n\terr := g.Next()\n')),
]
sel=sys.argv[1:]
for t in tests:
    if not sel or t[0] in sel or any(t[0].startswith(x) for x in sel): run(*t)
subprocess.run([GENLOGIC,REPO,f'{LW}/Pokerface/Generated'],check=True)
r=subprocess.run(['lake','build']+MODS,cwd=LW,capture_output=True,text=True)
print('unchanged tree rebuilt:', 'ok' if r.returncode==0 else 'FAILED')
bad=[n for (n,s,_,_) in results if (s!='CAUGHT') != n.startswith('CONTROL')]
print(f'{len(results)} edits; unexpected outcomes: {bad}')
