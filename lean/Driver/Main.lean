import Pokerface.Model.Cards
import Pokerface.Model.Eval
import Pokerface.Model.Combos
import Pokerface.Model.Pots
import Pokerface.Model.Settlement
import Pokerface.Model.Game
import Pokerface.Model.View
import Pokerface.Model.SeatManager
import Pokerface.Model.Regulator
import Pokerface.Model.Table
import Pokerface.Model.TableDriver
import Pokerface.Generated.Tables
/-
  Line-protocol driver: replays the harness's input lines on the model and prints
  one observation line per input line (DESIGN Appendix A).  Core-only, compiled
  to a native executable (`lake build pfdriver`).
-/
open Pokerface

def splitList (s : String) (sep : String := ",") : List String :=
  if s == "-" || s == "" then [] else s.splitOn sep

def joinList (l : List String) (sep : String := ",") : String :=
  if l.isEmpty then "-" else sep.intercalate l

def natList (s : String) : List Nat := (splitList s).filterMap String.toNat?

def b01 (b : Bool) : String := if b then "1" else "0"

def tableOf (s : String) : List Cat :=
  if s == "short" then Generated.powerShortDeck else Generated.powerStandard

def cards (s : String) : List Card := (splitList s).map Card.ofString

def cardsStr (cs : List Card) : String := joinList (cs.map Card.toString)

def catSymbol (c : Cat) : String := Generated.combinationSymbol.getD c.toNat "?"

/-- key=value arguments of a line -/
def kvs (toks : List String) : List (String × String) :=
  toks.filterMap fun t =>
    match t.splitOn "=" with
    | [k, v] => some (k, v)
    | _ => none

def getKV (m : List (String × String)) (k : String) : String :=
  ((m.find? (·.1 == k)).map (·.2)).getD ""

def getInt (m : List (String × String)) (k : String) : Int := (getKV m k).toInt?.getD 0
def getNat (m : List (String × String)) (k : String) : Nat := (getKV m k).toNat?.getD 0

/-! ### evaluator -/

def doEv (toks : List String) : String :=
  match toks with
  | t :: cs =>
    let p := calculatePower Generated.combinationLevel (tableOf t) (cs.map Card.ofString)
    s!"ev cat={p.cat.toNat} score={p.score}"
  | _ => "bad"

/-- `best <table> <required> <hole> <board> <reported>`: category and score of the best
    admissible selection, and whether the reported cards are an admissible selection
    with that score. -/
def doBest (toks : List String) : String :=
  match toks with
  | [t, req, hole, board, rep] =>
    let tbl := tableOf t
    let sels := allPossibleCombinations (cards board) (cards hole) (req.toNat?.getD 0)
    match bestPower (sels.map (calculatePower Generated.combinationLevel tbl)) with
    | none => "best none"
    | some p =>
      let repCards := cards rep
      let sameSet (a b : List Card) : Bool := a.length == b.length && a.all b.contains && b.all a.contains
      let admissible := sels.any (sameSet repCards)
      let repScore := (calculatePower Generated.combinationLevel tbl repCards).score
      s!"best type={catSymbol p.cat} power={p.score} ok={b01 (admissible && repScore == p.score)}"
  | _ => "bad"

/-! ### pots and settlement -/

def potStr (p : Pot) : String :=
  let cs := p.contributors.map fun (i, a) => s!"{i}/{a}"
  s!"{p.level}:{p.wager}:{p.total}:{joinList cs "+"}"

def potsStr (ps : List Pot) : String := joinList (ps.map potStr) ";"

def resultStr (r : Result) : String :=
  joinList (r.players.map fun p => s!"{p.idx}/{p.finalStack}/{p.changed}") ";"

def winnersStr (r : Result) : String :=
  joinList (r.pots.map fun p => joinList (p.winners.map fun w => s!"{w.idx}/{w.withdraw}") "+") ";"

/-- `pots idx:contrib:fold:score,...` -/
def doPots (toks : List String) : String :=
  match toks with
  | [es] =>
    let rows := (splitList es).filterMap fun e =>
      match e.splitOn ":" with
      | [i, c, f, s] => some (i.toNat?.getD 0, c.toInt?.getD 0, f == "1", s.toInt?.getD 0)
      | _ => none
    let pots := potsOf (rows.map fun (i, c, f, _) => (i, c, f))
    let res := gameResults pots (rows.map fun (i, c, f, s) => (i, c, f, s))
    s!"pots pots={potsStr pots} res={resultStr res} winners={winnersStr res}"
  | _ => "bad"

/-! ### engine -/

def evName (e : Ev) : String :=
  match e with
  | .none => "-"
  | .started => "Started" | .initialized => "Initialized" | .prepared => "Prepared"
  | .anteRequested => "AnteRequested" | .antePaid => "AntePaid"
  | .blindsRequested => "BlindsRequested" | .blindsPaid => "BlindsPaid"
  | .readyRequested => "ReadyRequested" | .readiness => "Readiness"
  | .preflopRoundEntered => "PreflopRoundEntered" | .flopRoundEntered => "FlopRoundEntered"
  | .turnRoundEntered => "TurnRoundEntered" | .riverRoundEntered => "RiverRoundEntered"
  | .roundInitialized => "RoundInitialized" | .roundPrepared => "RoundPrepared"
  | .roundStarted => "RoundStarted" | .roundClosed => "RoundClosed"
  | .gameCompleted => "GameCompleted" | .settlementRequested => "SettlementRequested"
  | .settlementCompleted => "SettlementCompleted" | .gameClosed => "GameClosed"

def roundName : Round → String
  | .none => "-" | .preflop => "preflop" | .flop => "flop" | .turn => "turn" | .river => "river"

def actName : Act → String
  | .pass => "pass" | .fold => "fold" | .check => "check" | .call => "call" | .allin => "allin"
  | .bet => "bet" | .raise => "raise" | .pay => "pay"

def actOf : String → Option Act
  | "pass" => some .pass | "fold" => some .fold | "check" => some .check | "call" => some .call
  | "allin" => some .allin | "bet" => some .bet | "raise" => some .raise | "pay" => some .pay
  | _ => none

def errName : Option Err → String
  | none => "none"
  | some .invalidAction => "invalid" | some .illegalRaise => "illegalraise"
  | some .notClosedRound => "notclosed" | some .insufficientPlayers => "insufficient"
  | some .noDealer => "nodealer" | some .notEnoughBankroll => "bankroll" | some .noDeck => "nodeck"
  | some .notFoundDealer => "notfounddealer" | some .unknownRound => "unknownround"

def playerStr (p : Player) : String :=
  let k := s!"p{p.idx}"
  let pos := (if p.posDealer then "d" else "") ++ (if p.posSB then "s" else "") ++ (if p.posBB then "b" else "")
  let comb := match p.comb with
    | none => s!"{k}.comb.type=nil {k}.comb.power=nil {k}.comb.cards=nil"
    | some c => s!"{k}.comb.type={(c.cat.map catSymbol).getD "-"} {k}.comb.power={c.power} {k}.comb.cards={cardsStr c.cards}"
  s!"{k}.pos={if pos == "" then "-" else pos} {k}.acted={b01 p.acted} {k}.fold={b01 p.fold} {k}.allowed={joinList (p.allowed.map actName) "|"} {k}.bank={p.bankroll} {k}.init={p.initial} {k}.stack={p.stack} {k}.pot={p.pot} {k}.wager={p.wager} {k}.hole={cardsStr p.hole} {comb}"

def gameBody (g : Game) : String :=
  let ps := " ".intercalate (g.players.map playerStr)
  let res := match g.result with
    | none => "res=- winners=-"
    | some r => s!"res={resultStr r} winners={winnersStr r}"
  s!"ev={evName g.event} round={roundName g.round} n={g.n} minibet={g.miniBet} cw={g.cw} prev={g.prev} roundpot={g.roundPot} raiser={g.raiser} cur={g.cur} pos={g.deckPos} board={cardsStr g.board} burned={cardsStr g.burned} decklen={g.opts.deck.length} pots={potsStr g.pots} {ps} {res}"

def gameStr (tag : String) (g : Game) (e : String) : String := s!"{tag} err={e} {gameBody g}"

def parseSeat (s : String) : SeatCfg :=
  match s.splitOn ":" with
  | [b, pos] => { bankroll := b.toInt?.getD 0, dealer := pos.contains 'd', sb := pos.contains 's', bb := pos.contains 'b' }
  | _ => { bankroll := 0, dealer := false, sb := false, bb := false }

def parseCfg (toks : List String) : Config :=
  let m := kvs toks
  { opts := { ante := getInt m "ante", blindDealer := getInt m "bd", blindSB := getInt m "sb", blindBB := getInt m "bb",
              potLimit := getKV m "limit" == "pot", holeCount := getNat m "hole", required := getNat m "req",
              lvl := Generated.combinationLevel, table := tableOf (getKV m "table"), deck := cards (getKV m "deck") },
    seats := (splitList (getKV m "seats")).map parseSeat }

def parseOp (toks : List String) : Option Op :=
  match toks with
  | ["ready"] => some .ready
  | ["ante"] => some .payAnte
  | ["blinds"] => some .payBlinds
  | ["next"] => some .next
  | ["act", seat, a, x] =>
    match actOf a with
    | some a => some (.act (if seat == "-" then none else seat.toNat?) a (x.toInt?.getD 0))
    | none => none
  | _ => none

/-! ### seat manager -/

def smErrName : Option SMErr → String
  | none => "none"
  | some .notFoundSeat => "notfoundseat" | some .noAvailableSeat => "noavailableseat"
  | some .notAvailable => "notavailable" | some .invalidSeat => "invalidseat"
  | some .insufficientPlayers => "insufficient" | some .emptySeat => "emptyseat"
  | some .panic => "panic" | some .badChoice => "badchoice"

def optNat : Option Nat → String
  | none => "-"
  | some n => toString n

def smStr (sm : SM) (e : Option SMErr) (ret : Option Nat) : String :=
  let seats := sm.seats.map fun s => s!"{optNat s.player}/{b01 s.active}/{b01 s.reserved}"
  s!"sm err={smErrName e} ret={optNat ret} dealer={optNat sm.dealer} sb={optNat sm.sb} bb={optNat sm.bb} count={sm.playerCount} playable={sm.playableCount} seats={joinList seats}"

def parseSMOp (toks : List String) : Option SMOp :=
  match toks with
  | ["join", seat, pid, chose] => some (.join (seat.toInt?.getD 0) (pid.toNat?.getD 0) chose.toNat?)
  | ["seat", id] => some (.seat (id.toInt?.getD 0))
  | ["reserve", id] => some (.reserve (id.toInt?.getD 0))
  | ["leave", id] => some (.leave (id.toInt?.getD 0))
  | ["next"] => some .next
  | _ => none

/-! ### regulator -/

def idsStr (l : List Nat) : String := joinList (l.map toString)

def rgStr (r : Reg) (o : Reg.ROut) : String :=
  let e := match o.err with
    | none => if r.badChoice then "badchoice" else "none"
    | some .notFoundTable => "notfoundtable"
    | some .afterRegDeadline => "afterregdeadline"
    | some .badChoice => "badchoice"
  let tbls := (r.tables.map fun t => s!"{t.id}/{t.count}/{t.required}")
  let calls := r.calls.map fun c =>
    match c with
    | .requestTable id ps => s!"R:{id}:{idsStr ps}"
    | .assign id ps => s!"A:{id}:{idsStr ps}"
  s!"rg err={e} players={r.playerCount} tables={r.tableCount} queue={idsStr r.queue} tbl={joinList tbls ";"} calls={joinList calls ";"} rel={o.release} new={idsStr o.newPlayers}"

def parseStatus : String → RStatus
  | "normal" => .normal | "after" => .afterRegDeadline | _ => .pending

def parseROp (toks : List String) : Option Reg.ROp :=
  match toks with
  | ["add", ids, ch] => some (.add (natList ids) (natList ch))
  | ["status", s, ch] => some (.status (parseStatus s) (natList ch))
  | ["sync", t, out] => some (.sync (t.toNat?.getD 0) (out.toInt?.getD 0))
  | ["sync", t, out, _elim] => some (.sync (t.toNat?.getD 0) (out.toInt?.getD 0))
  | ["release", t, ids, ch] => some (.release (t.toNat?.getD 0) (natList ids) (natList ch))
  | _ => none

/-! ### table glue (seat manager -> engine) -/

def intList (s : String) : List Int := (splitList s).filterMap String.toInt?

def tErrName : Option TErr → String
  | none => "none"
  | some .insufficient => "insufficient" | some .maxGames => "maxgames"
  | some (.sm e) => "sm:" ++ smErrName (some e)
  | some (.game .insufficientPlayers) => "game:insufficient" | some (.game .noDealer) => "game:nodealer"
  | some (.game .notEnoughBankroll) => "game:bankroll" | some (.game _) => "game:other"
  | some .panic => "panic" | some .badInput => "badinput"

def posLetters (d s b : Bool) : String :=
  let x := (if d then "d" else "") ++ (if s then "s" else "") ++ (if b then "b" else "")
  if x.isEmpty then "." else x

def tbStr (t : Table) (o : TOut) : String :=
  let seats := t.sm.seats.map fun s => s!"{optNat s.player}/{b01 s.active}/{b01 s.reserved}"
  let per (f : TPlayer → String) := joinList (t.players.map fun p => match p with | some p => f p | none => "-")
  let cfg := match o.cfg with
    | none => "-"
    | some c => joinList (c.map fun (s : SeatCfg) => posLetters s.dealer s.sb s.bb)
  let cfgbank := match o.cfg with
    | none => "-"
    | some c => joinList (c.map fun (s : SeatCfg) => toString s.bankroll)
  s!"tb err={tErrName o.err} ret={optNat o.ret} inpos={b01 t.inPosition} games={t.gameCount} dealer={optNat t.sm.dealer} sb={optNat t.sm.sb} bb={optNat t.sm.bb} seats={joinList seats} pid={per (fun p => toString p.pid)} pos={per (fun p => posLetters p.dealer p.sb p.bb)} playable={per (fun p => b01 p.playable)} gidx={per (fun p => toString p.gameIdx)} bank={per (fun p => toString p.bankroll)} cfg={cfg} cfgbank={cfgbank}"

def parseTOp (toks : List String) : Option TOp :=
  match toks with
  | ["join", seat, pid, bank, chose] => some (.join (seat.toInt?.getD 0) (pid.toNat?.getD 0) (bank.toInt?.getD 0) chose.toNat?)
  | ["leave", id] => some (.leave (id.toInt?.getD 0))
  | ["activate", id] => some (.activate (id.toInt?.getD 0))
  | ["reserve", id] => some (.reserve (id.toInt?.getD 0))
  | ["setup"] => some .setup
  | ["hand", finals] => some (.hand (intList finals))
  | ["hand", finals, _policy] => some (.hand (intList finals))   -- how the harness played the hand: not the model's business
  | _ => none

/-- match.Table (match/table.go): `Join`, `ApplySeatChanges` with one seat reported "left", `GetPlayers`. -/
def mtStr (sm : SM) (e : Option SMErr) : String :=
  let seats := sm.seats.map fun s => s!"{optNat s.player}/{b01 s.active}/{b01 s.reserved}"
  s!"mt err={smErrName e} seats={joinList seats} count={sm.playerCount} players={joinList (sm.seats.filterMap fun s => s.player.map toString)}"

/-! ### the table's driver of a hand (table/game.go; Model/TableDriver.lean)  [hv-drv] -/

def fireName : Drv.Fire → String
  | .readyForAll => "readyForAll" | .payAnte => "payAnte" | .payBlinds => "payBlinds"

def dErrName : Option Drv.DErr → String
  | none => "ok"
  | some .noRunningGame => "noRunningGame" | some .playerNotInGame => "playerNotInGame"
  | some .invalidAction => "invalidAction"
  | some (.engine e) => "engine:" ++ errName (some e)

def sortNat (l : List Nat) : List Nat := (l.toArray.qsort (· < ·)).toList

def groupStr : Option Drv.Group → String
  | none => "none"
  | some g =>
    let ps := (g.parts.toArray.qsort (fun a b => a.1 < b.1)).toList
    s!"{fireName g.fire}/{b01 g.completed}/{joinList (ps.map fun (i, f) => s!"{i}:{b01 f}") "+"}"

/-- ONE canonical observation of the driver: error class of the call, closed, updates, group, ready marks, then the held
    engine state `d.gs` in the engine's observation format (same field names, so that the masks of `check` apply). -/
def drvStr (d : Drv.D) (e : Option Drv.DErr) : String :=
  s!"drv err={dErrName e} closed={b01 d.closed} updates={d.updates} group={groupStr d.group} readyMarks={joinList ((sortNat d.readyMarks).map toString)} {gameBody d.gs}"

structure DState where
  game : Option Game := none
  sm : SM := SM.new 0
  rg : Reg := { max := 9, min := 6 }
  tb : Table := Table.new 0 {}
  mt : SM := SM.new 0
  drv : Option Drv.D := none   -- [hv-drv] the driver of a hand
  saved : Option Game := none   -- `hop save`: the checkpoint a later `hop rollback` returns to

def stepLine (s : DState) (line : String) : DState × String :=
  match (line.trimAscii.toString.splitOn " ").filter (· != "") with
  | "ev" :: rest => (s, doEv rest)
  | "best" :: rest => (s, doBest rest)
  | "pots" :: rest => (s, doPots rest)
  | "cfg" :: rest =>
    let (g, e) := start (parseCfg rest)
    ({ s with game := some g }, gameStr "st" g (errName e))
  | ["op", "seatante", _] =>   -- Player(i).PayAnte() outside the ante phase (the harness sends it only then): refused, nothing changes
    match s.game with
    | some g => if g.opts.ante = 0 || g.event != .anteRequested then (s, gameStr "st" g (errName (some .invalidAction))) else (s, "bad")
    | none => (s, "bad")
  | ["op", "seatblinds", _] =>   -- Player(i).PayBlinds() outside the blinds phase: refused, nothing changes
    match s.game with
    | some g => if g.event != .blindsRequested then (s, gameStr "st" g (errName (some .invalidAction))) else (s, "bad")
    | none => (s, "bad")
  | "query" :: _ =>   -- read-only queries of the game (GetStateJSON, Dealer, PrintState, …): the state is what it was
    match s.game with
    | some g => (s, gameStr "st" g "none")
    | none => (s, "bad")
  | "noise" :: _ => (s, "ok")   -- a call of an options / deck constructor of the package while the hand runs: no effect on the hand
  | "op" :: rest =>
    match s.game, parseOp rest with
    | some g, some op =>
      let oob := match op with
        | .act (some i) _ _ => decide (i ≥ g.n)
        | _ => false
      if oob then (s, "st err=panic")
      else
        let (g', e) := g.step op
        ({ s with game := some g' }, gameStr "st" g' (errName e))
    | _, _ => (s, "bad")
  | ["view", who] =>
    match s.game with
    | some g =>
      let v := if who == "obs" then g.asObserver else g.asPlayer (who.toNat?.getD 0)
      (s, gameStr "view" v "none")
    | none => (s, "bad")
  | ["hop", "save"] => ({ s with saved := s.game }, "ok")
  | ["hop", "rollback"] =>   -- LoadState of the checkpoint into the live game: the hand is the checkpoint again (as rebuilt from its JSON)
    match s.saved with
    | some g => ({ s with game := some g.hop }, gameStr "st" g.hop "none")
    | none => (s, "bad")
  | "hop" :: _ =>   -- "hop", "hop json", "hop load": the model's save / restore is the same function for all three
    match s.game with
    | some g => ({ s with game := some g.hop }, "ok")
    | none => (s, "bad")
  | "drv" :: "new" :: rest =>   -- [hv-drv] table.NewGame(backend, opts).Start() on the configuration (post-shuffle deck on the line)
    let d := Drv.startD (start (parseCfg rest)).1
    ({ s with drv := some d }, drvStr d none)
  | ["drv", "call", a, i, x] =>   -- a wrapper of table.game: Pass/Pay/Fold/Check/Call/Allin/Bet/Raise(playerIdx[, chips])
    match s.drv, actOf a, i.toInt? with
    | some d, some act, some ii =>
      -- `GameState.GetPlayer(idx)` answers nil for a negative index as for one beyond the players: ErrPlayerNotInGame
      let (d', e) := if ii < 0 then (d, some Drv.DErr.playerNotInGame) else Drv.call d (.act ii.toNat act (x.toInt?.getD 0))
      ({ s with drv := some d' }, drvStr d' e)
    | _, _, _ => (s, "bad")
  | ["drv", "call", "ready", i] =>
    match s.drv, i.toInt? with
    | some d, some ii =>
      let (d', e) := if ii < 0 then (d, some Drv.DErr.playerNotInGame) else Drv.call d (.ready ii.toNat)
      ({ s with drv := some d' }, drvStr d' e)
    | _, _ => (s, "bad")
  | "sm" :: "new" :: [m] => let sm := SM.new (m.toNat?.getD 0); ({ s with sm := sm }, smStr sm none none)
  | ["sm", "query"] => (s, smStr s.sm none none)   -- read-only queries of the seat manager: nothing changes
  | ["sm", "hop"] => (s, smStr s.sm none none)   -- a save / restore of the seat manager (`ApplyStates` of its own state): nothing changes
  | "sm" :: rest =>
    match parseSMOp rest with
    | some op => let (sm, e, ret) := s.sm.step op; ({ s with sm := sm }, smStr sm e ret)
    | none => (s, "bad")
  | "rg" :: "new" :: [mx, mn] =>
    let r : Reg := { max := mx.toNat?.getD 0, min := mn.toNat?.getD 0 }
    ({ s with rg := r }, rgStr r {})
  | "rg" :: rest =>
    match parseROp rest with
    | some op => let (r, o) := s.rg.step op; ({ s with rg := r }, rgStr r o)
    | none => (s, "bad")
  | ["mt", "new", m] => let sm := SM.new (m.toNat?.getD 0); ({ s with mt := sm }, mtStr sm none)
  | ["mt", "join", seat, pid, chose] =>
    let (sm, e, _) := s.mt.step (.join (seat.toInt?.getD 0) (pid.toNat?.getD 0) chose.toNat?)
    ({ s with mt := sm }, mtStr sm e)
  | ["mt", "left", seat] =>
    -- `ApplySeatChanges`: a seat reported as left that holds nobody is skipped with a warning; otherwise `sm.Leave` (error ignored)
    let i := seat.toNat?.getD 0
    match s.mt.seats[i]? with
    | none => (s, "mt err=panic")
    | some st =>
      if st.player.isNone then (s, mtStr s.mt none)
      else let sm := (s.mt.step (.leave (i : Int))).1; ({ s with mt := sm }, mtStr sm none)
  | "tb" :: "new" :: rest =>
    let m := kvs rest
    let t := Table.new (getNat m "max") { initialPlayers := getNat m "init", minPlayers := getNat m "min", maxGames := getNat m "maxgames", leaveMode := getNat m "leave" == 1 }
    ({ s with tb := t }, tbStr t {})
  | "tb" :: rest =>
    match parseTOp rest with
    | some op => let (t, o) := s.tb.step op; ({ s with tb := t }, tbStr t o)
    | none => (s, "bad")
  | [] => (s, "")
  | _ => (s, "bad")

partial def loop (hin hout : IO.FS.Stream) (s : DState) : IO Unit := do
  let line ← hin.getLine
  if line.isEmpty then return ()
  let (s', out) := stepLine s line
  hout.putStrLn out
  loop hin hout s'

def main : IO Unit := do
  let hin ← IO.getStdin
  let hout ← IO.getStdout
  loop hin hout {}
  hout.flush
