import Pokerface.Proofs.EngineInv
/-
  Configurations the engine accepts, reachable states, and the invariant on all of them.
-/
namespace Pokerface
open Game

/-- The part of the domain of DESIGN §5 that `Start()` does not check itself: the forced
    bets are not negative.  (Two seats, a dealer, positive bankrolls and a deck are checked
    by `start`, see `start_ok_iff`.) -/
structure WFConfig (c : Config) : Prop where
  opts : OptsOK c.opts

/-- every state the engine can be in: a run of operations (accepted or refused) from a
    successfully started hand of an accepted configuration -/
def Reachable (g : Game) : Prop :=
  ∃ (c : Config) (ops : List Op), WFConfig c ∧ (start c).2 = none ∧ g = (start c).1.run ops

theorem config_players_getElem (c : Config) (i : Nat) (p : Player) (h : c.players[i]? = some p) :
    p.idx = i ∧ p.stack = p.bankroll ∧ p.initial = p.bankroll ∧ p.wager = 0 ∧ p.pot = 0 ∧ p.allowed = [] := by
  unfold Config.players at h
  simp only [List.getElem?_map, List.getElem?_zipIdx] at h
  cases hs : c.seats[i]? with
  | none => simp [hs] at h
  | some s =>
    simp [hs] at h
    subst h
    exact ⟨rfl, rfl, rfl, rfl, rfl, rfl⟩

def Config.miniBet0 (c : Config) : Int :=
  if c.opts.blindDealer > c.opts.blindBB then c.opts.blindDealer else c.opts.blindBB

/-- the state built by `NewGame` + the first lines of `Initialize` -/
def Config.game0 (c : Config) : Game := { opts := c.opts, players := c.players, miniBet := c.miniBet0 }

theorem start_ok (c : Config) (h : (start c).2 = none) :
    2 ≤ c.players.length ∧ (∀ p ∈ c.players, 0 < p.bankroll) ∧
    (start c).1 = c.game0.resetRoundStatus.requestReady := by
  unfold start at h ⊢
  simp only at h ⊢
  split at h
  · cases h
  · rename_i h1
    split at h
    · cases h
    · split at h
      · cases h
      · rename_i h3
        split at h
        · cases h
        · rename_i h4
          simp only [h1, h3, h4, if_false]
          refine ⟨by simp [Game.n] at h1; omega, ?_, ?_⟩
          · intro p hp
            simp only [List.any_eq_true, decide_eq_true_eq, not_exists, not_and] at h3
            have := h3 p hp
            omega
          · split
            · rename_i h2; simp at *
              rename_i h2'
              simp [h2'] at h2
            · rfl

theorem inv_start (c : Config) (wf : WFConfig c) (h : (start c).2 = none) : Inv (start c).1 := by
  obtain ⟨hn, hb, he⟩ := start_ok c h
  rw [he]
  let g0 : Game := c.game0
  have s0 : Struct g0 := ⟨fun i p hp => (config_players_getElem c i p hp).1, by simp [Game.n, g0, Config.game0]; omega,
    by simp [Game.n, g0, Config.game0]; omega⟩
  have s1 : Struct g0.resetRoundStatus := struct_of_static (static_resetRoundStatus g0) (dealerIdx_lt s0) s0
  have ok1 : ChipsOK g0.resetRoundStatus := by
    have hall : ∀ p ∈ c.players, p.stack = p.bankroll ∧ p.initial = p.bankroll ∧ p.wager = 0 ∧ p.pot = 0 := by
      intro p hp
      obtain ⟨i, hi, hpi⟩ := List.getElem_of_mem hp
      have := config_players_getElem c i p (by simp [List.getElem?_eq_getElem hi, hpi])
      exact ⟨this.2.1, this.2.2.1, this.2.2.2.1, this.2.2.2.2.1⟩
    refine ⟨?_, ?_, Int.le_refl 0, Int.le_refl 0, ?_⟩
    · intro p hp
      obtain ⟨h1, h2, h3, h4⟩ := hall p hp
      have := hb p hp
      constructor <;> omega
    · show (0 : Int) = (c.players.map (·.wager)).sum
      have : c.players.map (·.wager) = c.players.map (fun _ => (0 : Int)) :=
        List.map_congr_left (fun p hp => (hall p hp).2.2.1)
      rw [this, sum_map_zero]
    · intro p hp
      have := (hall p hp).2.2.1
      show p.wager ≤ 0
      omega
  have nc := noChip_requestReady g0.resetRoundStatus
  have okf := ChipsOK.of_noChip nc ok1
  exact ⟨by rw [nc.opts]; exact wf.opts, nc.struct s1, okf.zero, fun _ => okf.wle, post_requestReady _⟩

/-- The invariant holds in every reachable state. -/
theorem inv_reachable {g : Game} (h : Reachable g) : Inv g := by
  obtain ⟨c, ops, wf, hs, rfl⟩ := h
  exact inv_run _ (inv_start c wf hs) ops

end Pokerface
