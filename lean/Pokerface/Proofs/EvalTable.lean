import Pokerface.Model.Eval
import Pokerface.Generated.Tables
import Pokerface.Properties.C03Spec
/-!
  C03, step (i): the normal form of the evaluator on every class of hands
  (rank tuple sorted descending + flush flag), to be checked by kernel evaluation
  in `EvalTableG1 … G8` (one group of classes per file so that `lake` checks them
  in parallel).  The check mentions `Generated.combinationLevel`, so it is
  re-evaluated whenever the regenerated constants change.
-/
namespace Pokerface.C03

/-- Base-13 positional value of a list of ranks (digit = rank − 2; every rank that
    occurs is ≥ 2 — `chk` checks it — so the `Nat` subtraction is exact). -/
def enc : List Nat → Nat
  | [] => 0
  | r :: rs => (r - 2) * 13 ^ rs.length + enc rs

/-- Straights are scored `top − 5`, i.e. 3 less than the one-digit value `top − 2`. -/
def shift : Cat → Nat
  | .straight | .straightFlush => 3
  | _ => 0

/-- Number of tiebreak entries of a category. -/
def tbLen : Cat → Nat
  | .highCard | .flush => 5
  | .pair => 4
  | .twoPair | .trips => 3
  | .fullHouse | .quads => 2
  | .straight | .straightFlush => 1

/-- What is checked for one class: the evaluator's category is the specified one;
    its raw score (before the category offset) is the base-13 value of the
    specified tiebreak (minus 3 for straights); the tiebreak has the length that
    belongs to the category and entries in 2..14; the raw score is below the size
    `CombinationLevel` reserves for the category. -/
def chk (rs : List Nat) (fl : Bool) : Bool :=
  let c := category rs fl
  let tb := specTiebreak rs
  let raw := powerScore c (elements rs)
  c == specCat rs fl && raw + shift c == enc tb && tb.length == tbLen c
    && tb.all (fun r => decide (2 ≤ r) && decide (r ≤ 14))
    && decide (raw < Generated.combinationLevel c)

/-- One sorted rank tuple: nothing to check for five of a kind (not a hand); the
    non-flush class always; the flush class when the ranks are distinct. -/
def okClass (a b c d e : Nat) : Bool :=
  a == e || (chk [a, b, c, d, e] false &&
    (!(decide (a > b) && decide (b > c) && decide (c > d) && decide (d > e)) || chk [a, b, c, d, e] true))

/-- All classes whose two highest ranks are `a ≥ b`. -/
def nfAB (ab : Nat × Nat) : Bool :=
  (List.range' 2 (ab.2 - 1)).all fun c => (List.range' 2 (c - 1)).all fun d =>
  (List.range' 2 (d - 1)).all fun e => okClass ab.1 ab.2 c d e

/-- A partition of all pairs `14 ≥ a ≥ b ≥ 2` into eight groups of about equal
    work (1023–1024 classes each).  That it covers all pairs is `group_cover`. -/
def group : Nat → List (Nat × Nat)
  | 1 => [(14, 13), (13, 5), (12, 8), (12, 6), (11, 9), (11, 3), (10, 4), (10, 2), (7, 7), (6, 3)]
  | 2 => [(14, 14), (14, 3), (13, 7), (11, 8), (11, 4), (10, 9), (9, 9), (8, 5), (7, 3), (6, 5), (5, 4)]
  | 3 => [(14, 10), (14, 5), (14, 4), (13, 12), (13, 6), (11, 2), (10, 8), (10, 7), (9, 6), (6, 2), (3, 2), (2, 2)]
  | 4 => [(14, 12), (14, 6), (12, 4), (12, 2), (11, 11), (11, 7), (10, 3), (9, 8), (8, 7), (7, 2), (5, 5)]
  | 5 => [(14, 9), (14, 7), (13, 13), (13, 10), (13, 4), (13, 2), (12, 3), (9, 5), (8, 8), (7, 5), (6, 4)]
  | 6 => [(14, 2), (12, 12), (12, 11), (12, 7), (12, 5), (10, 10), (9, 7), (9, 4), (8, 3), (8, 2), (6, 6), (4, 3), (4, 2)]
  | 7 => [(13, 11), (13, 8), (13, 3), (12, 9), (11, 10), (10, 6), (10, 5), (7, 6), (7, 4), (4, 4)]
  | 8 => [(14, 11), (14, 8), (13, 9), (12, 10), (11, 6), (11, 5), (9, 3), (9, 2), (8, 6), (8, 4), (5, 3), (5, 2), (3, 3)]
  | _ => []

def nfGroup (k : Nat) : Bool := (group k).all nfAB

theorem group_cover :
    ∀ a ∈ List.range' 2 13, ∀ b ∈ List.range' 2 (a - 1),
      (a, b) ∈ group 1 ++ group 2 ++ group 3 ++ group 4 ++ group 5 ++ group 6 ++ group 7 ++ group 8 := by
  decide

end Pokerface.C03
