import Pokerface.Proofs.BetsActs
import Pokerface.Proofs.BetsExamples
/-
  Pot-limit companion of `doRaise_effect` (C12, audit item 10): what `Game.doRaise` does for EVERY value of the
  option `potLimit`, below and above the cap `cw + prev`.
-/
namespace Pokerface
open Game

/-- The common shape of `doRaise`: the seat to act is marked as having acted, `r` is recorded as the minimum raise,
    and the seat pays up to the level `lvl` (`g.cw < lvl < p.initial`): the level becomes the seat's wager and the wager
    to match, the seat the last raiser, `r` the recorded minimum raise; only the seat's stack pays. -/
theorem raiseTo_effect {g : Game} {p : Player} (h : AtTurn g p) (r : Int) {lvl : Int}
    (hx1 : g.cw < lvl) (hx2 : lvl < p.initial) :
    ∃ q, ((((g.setActed g.cur).setPrev r).pay g.cur (lvl - p.wager) true)).resume.players[g.cur]? = some q ∧
      q.wager = lvl ∧
      ((((g.setActed g.cur).setPrev r).pay g.cur (lvl - p.wager) true)).resume.cw = lvl ∧
      ((((g.setActed g.cur).setPrev r).pay g.cur (lvl - p.wager) true)).resume.prev = r ∧
      ((((g.setActed g.cur).setPrev r).pay g.cur (lvl - p.wager) true)).resume.raiser = g.cur ∧
      q.stack = p.initial - lvl ∧ q.pot = p.pot ∧ q.bankroll = p.bankroll := by
  have hreb := h.pinv.rebase
  have hw0 := h.pinv.wager0
  have hwle := h.chips.wle p h.mem
  have hp1 : ((g.setActed g.cur).setPrev r).players[g.cur]? = some { p with acted := true } :=
    setActed_self h.seat
  obtain ⟨q2, hq2, hf2⟩ := pay_self hp1 (lvl - p.wager) true
  have hcw2 := pay_cw hp1 (lvl - p.wager)
  have hr2 := pay_raiser hp1 (lvl - p.wager)
  have hpv2 := pay_prev ((g.setActed g.cur).setPrev r) g.cur (lvl - p.wager) true
  obtain ⟨⟨q, hq, hfq⟩, hcw, hprev, hrs⟩ := resume_at hq2
  have e1 : ((g.setActed g.cur).setPrev r).cw = g.cw := rfl
  have e2 : ((g.setActed g.cur).setPrev r).prev = r := rfl
  rw [e1] at hcw2 hr2
  rw [e2] at hpv2
  refine ⟨q, hq, ?_⟩
  rw [hcw, hprev, hrs, hcw2, hr2, hpv2]
  obtain ⟨c1, c2, c3, c4, c5, _⟩ := frame_chips (hfq.trans hf2)
  rw [c5, c3, c4, c1]
  have hns : ¬ p.initial - p.wager ≤ lvl - p.wager := by omega
  simp [payF, putWager, hns, hreb]
  omega

/-- `doRaise` when the request does not exceed the pot-limit cap, or the table is no-limit: the request itself. -/
theorem doRaise_uncapped (g : Game) (i : Nat) (p : Player) (x : Int)
    (h : g.opts.potLimit = false ∨ x - g.cw ≤ g.cw + g.prev) :
    g.doRaise i p x = ((((g.setActed i).setPrev (x - g.cw)).pay i (x - p.wager) true)).resume := by
  unfold Game.doRaise
  have : (g.opts.potLimit && decide (x - g.cw > g.cw + g.prev)) = false := by
    rcases h with h | h
    · simp [h]
    · have : ¬ (x - g.cw > g.cw + g.prev) := by omega
      simp [this]
  simp only [this, Bool.false_eq_true, if_false]

/-- `doRaise` on a pot-limit table above the cap: a raise BY `cw + prev`, to the level `2·cw + prev`. -/
theorem doRaise_capped (g : Game) (i : Nat) (p : Player) (x : Int)
    (hpl : g.opts.potLimit = true) (h : x - g.cw > g.cw + g.prev) :
    g.doRaise i p x =
      ((((g.setActed i).setPrev (g.cw + g.prev)).pay i ((2 * g.cw + g.prev) - p.wager) true)).resume := by
  unfold Game.doRaise
  have : (g.opts.potLimit && decide (x - g.cw > g.cw + g.prev)) = true := by simp [hpl, h]
  simp only [this, if_true]
  have e : g.cw + g.prev + g.cw - p.wager = (2 * g.cw + g.prev) - p.wager := by omega
  rw [e]

/-- `Raise(x)` carried out as a proper raise at or below the cap (any `potLimit`): exactly level `x`. -/
theorem doRaise_effect_uncapped {g : Game} {p : Player} (h : AtTurn g p)
    {x : Int} (hc : g.opts.potLimit = false ∨ x - g.cw ≤ g.cw + g.prev) (hx1 : g.cw < x) (hx2 : x < p.initial) :
    ∃ q, (g.doRaise g.cur p x).players[g.cur]? = some q ∧ q.wager = x ∧ (g.doRaise g.cur p x).cw = x ∧
      (g.doRaise g.cur p x).prev = x - g.cw ∧ (g.doRaise g.cur p x).raiser = g.cur ∧
      q.stack = p.initial - x ∧ q.pot = p.pot ∧ q.bankroll = p.bankroll := by
  rw [doRaise_uncapped g g.cur p x hc]
  exact raiseTo_effect h (x - g.cw) hx1 hx2

/-- `Raise(x)` on a pot-limit table above the cap: carried out as a raise by `cw + prev` to `2·cw + prev`. -/
theorem doRaise_effect_capped {g : Game} {p : Player} (h : AtTurn g p) (hpl : g.opts.potLimit = true)
    {x : Int} (hcap : x - g.cw > g.cw + g.prev) (hpos : 0 < g.cw + g.prev) (hx2 : x < p.initial) :
    ∃ q, (g.doRaise g.cur p x).players[g.cur]? = some q ∧ q.wager = 2 * g.cw + g.prev ∧
      (g.doRaise g.cur p x).cw = 2 * g.cw + g.prev ∧
      (g.doRaise g.cur p x).prev = g.cw + g.prev ∧ (g.doRaise g.cur p x).raiser = g.cur ∧
      q.stack = p.initial - (2 * g.cw + g.prev) ∧ q.pot = p.pot ∧ q.bankroll = p.bankroll := by
  rw [doRaise_capped g g.cur p x hpl hcap]
  exact raiseTo_effect h (g.cw + g.prev) (by omega) (by omega)

/-- whenever raise is offered something stands to be matched -/
theorem raise_offered_cw_pos {g : Game} {p : Player} (h : AtTurn g p) (hr : Act.raise ∈ g.availableActions p) :
    0 < g.cw := by
  obtain ⟨hf, hs⟩ := avail_movable_of_mem hr (by simp)
  obtain ⟨_, _, _, _, _, _, _, m7⟩ := avail_mem (g := g) hf hs
  have hcw0 := h.chips.cw0
  have hw0 := h.pinv.wager0
  rcases m7.mp hr with ⟨a, _, _⟩ | ⟨_, _, c⟩ <;> omega

namespace Ex

/-- pot-limit hold'em options -/
def plOpts (ante bd sb bb : Int) : Meta := { opts ante bd sb bb with potLimit := true }

theorem plOptsOK (a d s b : Int) (h : 0 ≤ a ∧ 0 ≤ d ∧ 0 ≤ s ∧ 0 ≤ b) : OptsOK (plOpts a d s b) :=
  ⟨h.1, h.2.1, h.2.2.1, h.2.2.2⟩

/-- pot-limit, blinds 5/10, deep stacks -/
def cpl : Config := cfg (plOpts 0 0 5 10) 1000 1000 1000

/-- pot-limit flop after a bet of 30 by seat 1: seat 2 faces 30, minimum raise 30, cap: a raise by 60 (to 90) -/
def gpl : Game :=
  (start cpl).1.run [.ready, .payBlinds, .ready, .act none .call 0, .act none .call 0, .act none .check 0, .next, .ready,
    .act none .bet 30]

theorem reach_gpl : Reachable gpl := reachable_run ⟨plOptsOK _ _ _ _ (by decide)⟩ (by decide) _

end Ex
end Pokerface
