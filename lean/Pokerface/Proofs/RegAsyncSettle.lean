/-
  C20 on the ASYNCHRONOUS system (Model/RegulatorAsync.lean), part 1: notions and the fixed point.

  * `ASys.quietOp`, `ASys.asks`, `ASys.askCount` : the operations of a rebalancing phase with late
    reports (elimination-free syncs and reports), whether a sync asks its table for anything, and
    the number of asking syncs of a script;
  * with nobody on the way the asynchronous invariant `AInvF` is the synchronous invariant `SInv`
    of the forgotten state `toRSys` (`AInvF.toSInv`);
  * a sync that asks for nothing is the synchronous sync (`step_noask`), so the frame lemmas of
    Proofs/RegFrame.lean apply;
  * a `ReleasePlayers` call for nobody with an empty queue changes only the scratch fields;
  * table ids are never reused (`AInvN`): a table that was broken stays unknown for ever.
-/
import Pokerface.Proofs.RegAsyncCapEnv
import Pokerface.Proofs.RegFrame

namespace Pokerface
open Reg

namespace ASys
open RSys (membersOf_some)

/-! ### notions -/

/-- the operations of a rebalancing phase: a sync without eliminations, or a release report -/
def quietOp : AOp → Bool
  | .sync _ elim _ _ _ => elim.isEmpty
  | .report _ _ _ _ => true
  | _ => false

/-- the sync asks its table to release, receive or break (as `RSys.asks`) -/
def asks (s : ASys) : AOp → Bool
  | .sync t elim _ _ _ =>
      (s.env.membersOf t).isSome &&
        (decide ((s.syncAnswer t elim).2.2.1 ≠ 0) || !(s.syncAnswer t elim).2.2.2.isEmpty || s.broken t elim)
  | _ => false

/-- number of operations of a script that ask for something -/
def askCount : ASys → List AOp → Nat
  | _, [] => 0
  | s, op :: ops => (if s.asks op then 1 else 0) + askCount (s.step op) ops

theorem run_append (s : ASys) (a b : List AOp) : s.run (a ++ b) = (s.run a).run b := by
  simp [run, List.foldl_append]

theorem askCount_append (s : ASys) (a b : List AOp) :
    s.askCount (a ++ b) = s.askCount a + (s.run a).askCount b := by
  induction a generalizing s with
  | nil => simp [askCount, run]
  | cons op a ih =>
    simp only [List.cons_append, askCount, run, List.foldl_cons]
    rw [ih (s.step op)]
    simp only [run]
    omega

theorem allOkFwd_append (s : ASys) (a b : List AOp) :
    s.allOkFwd (a ++ b) ↔ s.allOkFwd a ∧ (s.run a).allOkFwd b := by
  induction a generalizing s with
  | nil => simp [allOkFwd, run]
  | cons op a ih =>
    simp only [List.cons_append, allOkFwd, run, List.foldl_cons]
    rw [ih (s.step op)]
    simp only [run, and_assoc]

/-! ### nobody on the way: the synchronous invariant -/

theorem flying_nil_of_inflight_nil {s : ASys} (h : s.inflight = []) : s.flying = [] := by
  simp [flying, h]

/-- with nobody on the way the asynchronous invariant is the synchronous one -/
theorem AInvF.toSInv {s : ASys} (h : AInvF s) (hf : s.inflight = []) : RSys.SInv s.toRSys := by
  have hfl := flying_nil_of_inflight_nil hf
  refine ⟨⟨h.f.wf, h.f.q, ?_, h.f.pend⟩, h.a.sim, ?_, h.a.nodup, h.a.sub, h.a.lenle, h.regmin⟩
  · have := h.a.cnt
    rw [hfl] at this
    show s.r.playerCount = s.r.queue.length + sumCount s.r.tables
    simpa using this
  · have := h.a.cons
    rw [hfl] at this
    show s.env.alive.Perm (s.r.queue ++ seatedOf s.env.members)
    simpa using this

/-! ### a sync that asks for nothing -/

/-- what a valid elimination-free sync that asks for nothing is, from any state: nobody leaves,
    nobody is on the way afterwards who was not before, and regulator and tables move exactly as
    in the synchronous step (which makes no `ReleasePlayers` call either) -/
theorem step_noask (s : ASys) (t : Nat) (stay rel keep ch : List Nat)
    (hok : s.ok (.sync t [] stay rel keep)) (hna : s.asks (.sync t [] stay rel keep) = false) :
    s.toRSys.ok (.sync t [] stay rel keep ch) ∧
    s.toRSys.asks (.sync t [] stay rel keep ch) = false ∧
    (s.step (.sync t [] stay rel keep)).toRSys = s.toRSys.step (.sync t [] stay rel keep ch) ∧
    (s.step (.sync t [] stay rel keep)).inflight = s.inflight := by
  have hsa : s.toRSys.syncAnswer t [] = s.syncAnswer t [] := rfl
  have hbr : s.toRSys.broken t [] = s.broken t [] := rfl
  have henv : s.toRSys.env = s.env := rfl
  cases hm : s.env.membersOf t with
  | none =>
    refine ⟨?_, ?_, ?_, ?_⟩
    · simp only [RSys.ok, henv, hm]
    · simp only [RSys.asks, henv, hm]; rfl
    · simp only [step, RSys.step, hm, toRSys]; rfl
    · simp only [step, hm]
  | some ms =>
    simp only [ok, hm] at hok
    simp only [asks, hm, Option.isSome_some, Bool.true_and, Bool.or_eq_false_iff,
      decide_eq_false_iff_not, Bool.not_eq_false', List.isEmpty_iff, Decidable.not_not] at hna
    obtain ⟨⟨hr0, hnw⟩, hb⟩ := hna
    rw [show s.syncAnswer t [] = ((s.syncAnswer t []).1, (s.syncAnswer t []).2.1,
      (s.syncAnswer t []).2.2.1, (s.syncAnswer t []).2.2.2) from rfl] at hok
    simp only [] at hok
    obtain ⟨hp1, hp2, hrl, hkeep⟩ := hok
    have hrel : rel = [] := List.length_eq_zero_iff.1 (by omega)
    subst hrel
    refine ⟨?_, ?_, ?_, ?_⟩
    · simp only [RSys.ok, henv, hm, hsa, hbr]
      rw [show s.syncAnswer t [] = ((s.syncAnswer t []).1, (s.syncAnswer t []).2.1,
        (s.syncAnswer t []).2.2.1, (s.syncAnswer t []).2.2.2) from rfl]
      exact ⟨hp1, hp2, hrl, hkeep, Or.inl ⟨rfl, hb⟩⟩
    · simp only [RSys.asks, henv, hm, hsa, hbr, hr0, hnw, hb]; rfl
    · have hb' : (RSys.mk s.r s.env).broken t [] = false := hb
      simp only [step, RSys.step, hm, hb, hb', toRSys, List.isEmpty_nil, and_self, if_true,
        Bool.false_eq_true, if_false]
      rfl
    · simp only [step, hm, List.isEmpty_nil, if_true]

/-! ### a report of nobody with nothing queued -/

theorem dispatchLoop_nil (fuel : Nat) (r : Reg) : dispatchLoop fuel [] r = ([], r) := by
  cases fuel with
  | zero => rfl
  | succ n => simp [dispatchLoop]

theorem allocateLoop_nil (fuel : Nat) (wl reqT : Int) (r : Reg) (hq : r.queue = []) :
    allocateLoop fuel wl reqT r = r := by
  cases fuel with
  | zero => rfl
  | succ n =>
    rw [allocateLoop]
    split
    · simp only [takeQueue, hq, List.take_nil, List.drop_nil, List.isEmpty_nil, if_true]
      cases r; simp_all
    · rfl

theorem allocateTables_nil (r : Reg) (hq : r.queue = []) : r.allocateTables = r := by
  unfold allocateTables
  simp only
  repeat' split
  all_goals first | rfl | exact allocateLoop_nil _ _ _ r hq

/-- with an empty queue `drainWaitingQueue` does nothing -/
theorem drainWaitingQueue_nil (r : Reg) (hq : r.queue = []) : r.drainWaitingQueue = r := by
  unfold drainWaitingQueue
  split
  · exact allocateTables_nil r hq
  · split
    · simp only [hq, List.length_nil, dispatchLoop_nil, List.isEmpty_nil, Bool.not_true,
        Bool.false_eq_true, if_false]
      cases r; simp_all
    · rfl

/-- `ReleasePlayers(t, [])` with an empty queue only resets the scratch fields of the model -/
theorem releasePlayers_nil (r : Reg) (ch : List Nat) (hq : r.queue = []) :
    r.releasePlayers [] ch = r.beginOp ch := by
  unfold releasePlayers enterWaitingQueue
  have hq' : (r.beginOp ch).queue = [] := hq
  have e : ({ r.beginOp ch with queue := (r.beginOp ch).queue ++ [] } : Reg) = r.beginOp ch := by
    rw [List.append_nil]
  simp only [e]
  split
  · rfl
  · exact drainWaitingQueue_nil _ hq'

/-! ### a round in which nobody is asked anything -/

/-- in a valid script of elimination-free syncs and reports from a state with nobody on the way,
    in which no sync asks for anything and no report is spurious (each names somebody - or nothing
    is queued, so that a report of nobody is a no-op): every table that is synced at some point
    would also have been asked nothing at the start -/
theorem noask_script_answers_async : ∀ (ops : List AOp) (s : ASys), AInvF s → s.inflight = [] →
    (∀ op ∈ ops, quietOp op = true) → s.allOkFwd ops → s.askCount ops = 0 →
    (s.r.queue = [] ∨ ∀ t ps rest ch, AOp.report t ps rest ch ∈ ops → ps ≠ []) →
    ∀ t, (∃ stay rel keep, AOp.sync t [] stay rel keep ∈ ops) → (s.env.membersOf t).isSome = true →
    answer0 s.r t = (0, [], false) := by
  intro ops
  induction ops with
  | nil => intro s _ _ _ _ _ _ t ⟨_, _, _, hm⟩ _; cases hm
  | cons op ops ih =>
    intro s h hfl hq hok h0 hH t ⟨stay, rel, keep, hmem⟩ hs
    have hqo := hq op (List.mem_cons_self ..)
    obtain ⟨hS', _⟩ := h.step_full op hok.1
    cases op with
    | add ps ch => simp [quietOp] at hqo
    | status st ch => simp [quietOp] at hqo
    | report t' ps rest ch =>
      have hok1 : s.ok (.report t' ps rest ch) := hok.1
      have hnil : ps = [] ∧ rest = [] := by
        have := hok1.1.length_eq
        rw [flyingOf_nil_of_inflight_nil hfl] at this
        exact List.append_eq_nil_iff.1 (List.length_eq_zero_iff.1 this.symm)
      obtain ⟨hp0, hr0⟩ := hnil
      subst hp0 hr0
      have hq0 : s.r.queue = [] := by
        rcases hH with h1 | h1
        · exact h1
        · exact absurd rfl (h1 t' [] [] ch (List.mem_cons_self ..))
      have hrr : s.r.releasePlayers [] ch = s.r.beginOp ch := releasePlayers_nil s.r ch hq0
      have hstep : s.step (.report t' [] [] ch) =
          { r := s.r.beginOp ch, env := s.env, inflight := [] } := by
        simp only [step, hrr, hfl]
        rfl
      have hin : AOp.sync t [] stay rel keep ∈ ops := by
        rcases List.mem_cons.1 hmem with heq | hin
        · cases heq
        · exact hin
      have h0' : (s.step (.report t' [] [] ch)).askCount ops = 0 := by
        simp only [askCount] at h0; simpa [asks] using h0
      have := ih (s.step (.report t' [] [] ch)) hS' (by rw [hstep]) (fun o ho => hq o (List.mem_cons_of_mem _ ho))
        hok.2 h0' (Or.inl (by rw [hstep]; exact hq0)) t ⟨stay, rel, keep, hin⟩ (by rw [hstep]; exact hs)
      rw [hstep] at this
      have hfr : Frame s.r (s.r.beginOp ch) := ⟨rfl, rfl, rfl, rfl, rfl, rfl⟩
      rw [← frame_answer hfr t]; exact this
    | sync t' elim stay' rel' keep' =>
      have he : elim = [] := by simpa [quietOp] using hqo
      subst he
      simp only [askCount] at h0
      have hna : s.asks (.sync t' [] stay' rel' keep') = false := by
        cases ha : s.asks (.sync t' [] stay' rel' keep') with
        | false => rfl
        | true => rw [ha] at h0; simp at h0
      have hrest : (s.step (.sync t' [] stay' rel' keep')).askCount ops = 0 := by
        rw [hna] at h0; simpa using h0
      obtain ⟨a, b, c, d⟩ := step_noask s t' stay' rel' keep' [] (ok_of_okFwd hok.1) hna
      have hSI := h.toSInv hfl
      obtain ⟨hfr, hids⟩ := RSys.noask_frame hSI t' stay' rel' keep' [] a b
      rw [← c] at hfr hids
      rcases List.mem_cons.1 hmem with heq | hin
      · injection heq with e1 e2 e3 e4 e5
        subst e1
        exact RSys.noask_answer (s := s.toRSys) t stay' rel' keep' [] hs b
      · have hs' : ((s.step (.sync t' [] stay' rel' keep')).env.membersOf t).isSome = true := by
          rw [RSys.membersOf_isSome_iff]
          have : (s.step (.sync t' [] stay' rel' keep')).env.members.map (·.1) = s.env.members.map (·.1) := hids
          rw [this, ← RSys.membersOf_isSome_iff]; exact hs
        have hH' : (s.step (.sync t' [] stay' rel' keep')).r.queue = [] ∨
            ∀ t ps rest ch, AOp.report t ps rest ch ∈ ops → ps ≠ [] := by
          rcases hH with h1 | h1
          · left
            have : (s.step (.sync t' [] stay' rel' keep')).r.queue = s.r.queue := hfr.queue
            rw [this]; exact h1
          · exact Or.inr (fun t ps rest ch hm => h1 t ps rest ch (List.mem_cons_of_mem _ hm))
        have := ih _ hS' (by rw [d]; exact hfl) (fun o ho => hq o (List.mem_cons_of_mem _ ho)) hok.2 hrest hH' t
          ⟨stay, rel, keep, hin⟩ hs'
        have hfr' : Frame s.r (s.step (.sync t' [] stay' rel' keep')).r := hfr
        rw [← frame_answer hfr' t]; exact this

/-- if every round of a sequence asks for something, the script asks at least as often as there
    are rounds -/
theorem askCount_rounds (rounds : List (List AOp)) : ∀ (s : ASys),
    (∀ pre sw post, rounds = pre ++ sw :: post → 1 ≤ (s.run pre.flatten).askCount sw) →
    rounds.length ≤ s.askCount rounds.flatten := by
  induction rounds with
  | nil => intro _ _; exact Nat.zero_le _
  | cons sw rest ih =>
    intro s hall
    have h1 := hall [] sw rest rfl
    have h2 := ih (s.run sw) (fun pre x post he => by
      have := hall (sw :: pre) x post (by rw [he]; rfl)
      simpa [run_append] using this)
    simp only [List.flatten_cons, askCount_append, List.length_cons]
    simp only [List.flatten_nil, run, List.foldl_nil] at h1
    omega

/-! ### table ids are never reused -/

/-- the ids of the tables after a queue-feeding operation: old ids, or fresh ones -/
theorem opExt_ids {r r' : Reg} {inc : List Nat} (hx : OpExt r r' inc) {t : Nat}
    (h : t ∈ r'.tables.map (·.id)) : t ∈ r.tables.map (·.id) ∨ r.nextId ≤ t := by
  rw [← tview_fst, hx.tv] at h
  -- replay the callbacks on a membership sheet with the same view
  let m : List (Nat × List Nat) := r.tables.map fun tb => (tb.id, List.replicate tb.count.toNat 0)
  have hm1 : m.map (·.1) = r.tables.map (·.id) := by
    simp only [m, List.map_map]; rfl
  have hids : ∀ (tv : List (Nat × Int)) (mm : List (Nat × List Nat)) (cs : List RCall),
      tv.map (·.1) = mm.map (·.1) → (applyTVs tv cs).map (·.1) = (Env.applyCalls mm cs).map (·.1) := by
    intro tv mm cs
    induction cs generalizing tv mm with
    | nil => intro h; exact h
    | cons c cs ih =>
      intro h
      apply ih
      cases c with
      | requestTable id ps =>
        simp only [applyTV, Env.applyCall, List.map_append, h, List.map_cons, List.map_nil]
      | assign tt ps =>
        rw [applyTV_assign, bump_fst, h]
        simp only [Env.applyCall, List.map_map]
        apply List.map_congr_left
        intro e _
        simp only [Function.comp]
        split <;> rfl
  rw [hids (tview r.tables) m r'.calls (by rw [tview_fst, hm1])] at h
  rcases applyCalls_ids m r'.calls t h with h1 | ⟨ps, h1⟩
  · exact Or.inl (hm1 ▸ h1)
  · exact Or.inr (hx.newids t ps h1)

/-- every batch on the way back comes from a table id that has been handed out already -/
def AInvN (s : ASys) : Prop := ∀ e ∈ s.inflight, e.1 < s.r.nextId

/-- one valid operation: the id counter does not go back, an id below it that names no table
    still names none afterwards, and `AInvN` is preserved -/
theorem AInv.step_ids {s : ASys} (h : AInv s) (op : AOp) (hok : s.ok op) :
    s.r.nextId ≤ (s.step op).r.nextId ∧
    (∀ t, t < s.r.nextId → s.r.findTable t = none → (s.step op).r.findTable t = none) ∧
    (AInvN s → AInvN (s.step op)) := by
  have hgone : ∀ {r' : Reg} {inc : List Nat}, OpExt s.r r' inc →
      ∀ t, t < s.r.nextId → s.r.findTable t = none → r'.findTable t = none := by
    intro r' inc hx t hlt hun
    cases hf : r'.findTable t with
    | none => rfl
    | some tb =>
      exfalso
      obtain ⟨htb, hid⟩ := findTable_some hf
      rcases opExt_ids hx (List.mem_map.2 ⟨tb, htb, hid⟩) with h1 | h1
      · exact findTable_ne_none h1 hun
      · omega
  cases op with
  | add ps ch =>
    obtain ⟨hnd, hfresh, hbad⟩ := hok
    have hinf : (s.step (.add ps ch)).inflight = s.inflight := by
      simp only [step]
      generalize s.r.addPlayers ps ch = p
      obtain ⟨r', e⟩ := p
      cases e <;> rfl
    rw [step_add_r]
    by_cases hs : s.r.status = .afterRegDeadline
    · have heq : (s.r.addPlayers ps ch).1 = s.r.beginOp ch := by
        unfold Reg.addPlayers
        have : (s.r.beginOp ch).status = .afterRegDeadline := hs
        simp only [this, if_true]
      rw [heq]
      refine ⟨Nat.le_refl _, fun t _ hun => hun, fun hn e he => ?_⟩
      show e.1 < (s.step (.add ps ch)).r.nextId
      rw [step_add_r, heq]
      exact hn e (hinf ▸ he)
    · obtain ⟨_, hwf', hx, _, _⟩ := addPlayers_specA s.r ps ch h.wf hs hbad
      have hnext : s.r.nextId ≤ (s.r.addPlayers ps ch).1.nextId := by
        unfold Reg.addPlayers at hbad ⊢
        have hs' : ¬ (s.r.beginOp ch).status = .afterRegDeadline := hs
        simp only [if_neg hs'] at hbad ⊢
        obtain ⟨hwfu, hextu, _⟩ := updateTableRequirements_spec0
          ({ s.r.beginOp ch with playerCount := (s.r.beginOp ch).playerCount + ps.length } : Reg)
          ⟨h.wf.tc, h.wf.nodup, h.wf.idlt, h.wf.nn⟩ []
        have := (enterWaitingQueue_spec0 _ ps hwfu hbad).2.next_le
        exact Nat.le_trans hextu.next_le this
      refine ⟨hnext, hgone hx, fun hn e he => ?_⟩
      have := hn e (hinf ▸ he)
      show e.1 < (s.step (.add ps ch)).r.nextId
      rw [step_add_r]
      omega
  | status st ch =>
    have hbad : (s.r.setStatus st ch).badChoice = false := hok
    obtain ⟨_, hx, _, _⟩ := setStatus_specA s.r st ch h.wf hbad
    have hnext : s.r.nextId ≤ (s.r.setStatus st ch).nextId := by
      unfold Reg.setStatus at hbad ⊢
      simp only at hbad ⊢
      split
      · exact Nat.le_refl _
      · rename_i hne
        rw [if_neg hne] at hbad
        split
        · rename_i hc
          rw [if_pos hc] at hbad
          have hwf2 : WF0 ({ s.r.beginOp ch with status := st } : Reg) :=
            ⟨h.wf.tc, h.wf.nodup, h.wf.idlt, h.wf.nn⟩
          exact (drainWaitingQueue_spec0 _ hwf2 hbad).2.1.next_le
        · exact Nat.le_refl _
    refine ⟨hnext, hgone hx, fun hn e he => ?_⟩
    have := hn e he
    show e.1 < (s.r.setStatus st ch).nextId
    omega
  | report t ps rest ch =>
    obtain ⟨hperm, hbad⟩ := hok
    obtain ⟨_, hx, _, _⟩ := releasePlayers_specA s.r ps ch h.wf hbad
    have hnext : s.r.nextId ≤ (s.r.releasePlayers ps ch).nextId := by
      unfold Reg.releasePlayers at hbad ⊢
      exact (enterWaitingQueue_spec0 (s.r.beginOp ch) ps (h.wf.beginOp ch) hbad).2.next_le
    refine ⟨hnext, hgone hx, fun hn e he => ?_⟩
    show e.1 < (s.r.releasePlayers ps ch).nextId
    have he' : e ∈ s.inflight.filter (fun e => e.1 != t) ++ (if rest.isEmpty then [] else [(t, rest)]) := he
    rcases List.mem_append.1 he' with h1 | h1
    · have := hn e (List.mem_filter.1 h1).1
      omega
    · split at h1
      · cases h1
      · rename_i hre
        simp only [List.mem_singleton] at h1
        subst h1
        -- somebody is on the way back from `t`, so a batch of `t` exists
        have hne : s.flyingOf t ≠ [] := by
          intro hnil
          rw [hnil] at hperm
          have := hperm.length_eq
          simp only [List.length_nil, List.length_append] at this
          have : rest = [] := List.length_eq_zero_iff.1 (by omega)
          exact hre (by simp [this])
        obtain ⟨p, hp⟩ := List.exists_mem_of_ne_nil _ hne
        obtain ⟨e0, he0, het, _⟩ := mem_flyingOf hp
        have := hn e0 he0
        show t < _
        omega
  | sync t elim stay rel keep =>
    rw [step_sync_r]
    cases hm : s.env.membersOf t with
    | none =>
      have hft : s.r.findTable t = none := (h.unknown_iff t).1 hm
      have hans : (s.syncAnswer t elim).1 = s.r.beginOp [] := syncState_unknown s.r t elim.length hft
      rw [hans]
      refine ⟨Nat.le_refl _, fun t' _ hun => hun, fun hn e he => ?_⟩
      have : (s.step (.sync t elim stay rel keep)).inflight = s.inflight := by simp only [step, hm]
      show e.1 < (s.step (.sync t elim stay rel keep)).r.nextId
      rw [step_sync_r, hans]
      exact hn e (this ▸ he)
    | some ms =>
      have hok' := hok
      simp only [ok, hm] at hok'
      rw [show s.syncAnswer t elim = ((s.syncAnswer t elim).1, (s.syncAnswer t elim).2.1,
        (s.syncAnswer t elim).2.2.1, (s.syncAnswer t elim).2.2.2) from rfl] at hok'
      simp only [] at hok'
      obtain ⟨r1, relc, nw, t0, hft, hc0, hans, post⟩ := h.sync_facts t elim stay ms hm hok'.1
      rw [hans]
      simp only
      have hnx : r1.nextId = s.r.nextId := post.next_eq
      obtain ⟨ht0, hid0⟩ := findTable_some hft
      refine ⟨by omega, ?_, fun hn e he => ?_⟩
      · intro t' _ hun
        cases hf : r1.findTable t' with
        | none => rfl
        | some tb =>
          exfalso
          obtain ⟨htb, hid⟩ := findTable_some hf
          have hin : t' ∈ s.r.tables.map (·.id) := by
            rcases post.cases with ⟨_, htab, _, _⟩ | ⟨a, rq, htab, _, _⟩
            · rw [htab] at htb
              have := (List.mem_filter.1 htb).1
              rw [syncBase_tables] at this
              have h2 : t' ∈ (upd t (adj (-(elim.length : Int)) none) s.r.tables).map (·.id) :=
                List.mem_map.2 ⟨tb, this, hid⟩
              rwa [upd_ids _ _ _ (adj_id _ _)] at h2
            · have h2 : t' ∈ r1.tables.map (·.id) := List.mem_map.2 ⟨tb, htb, hid⟩
              rwa [htab, upd_ids _ _ _ (adj_id a rq), syncBase_tables, upd_ids _ _ _ (adj_id _ _)] at h2
          exact findTable_ne_none hin hun
      · have he' : e ∈ (if rel.isEmpty then s.inflight else s.inflight ++ [(t, rel)]) := by
          have : (s.step (.sync t elim stay rel keep)).inflight =
              (if rel.isEmpty then s.inflight else s.inflight ++ [(t, rel)]) := by simp only [step, hm]
          exact this ▸ he
        show e.1 < (s.step (.sync t elim stay rel keep)).r.nextId
        rw [step_sync_r, hans]
        simp only
        rw [hnx]
        split at he'
        · exact hn e he'
        · rcases List.mem_append.1 he' with h1 | h1
          · exact hn e h1
          · simp only [List.mem_singleton] at h1
            subst h1
            have := h.wf.idlt t0 ht0
            show t < _
            omega

theorem AInvN.of_reachable {s : ASys} (h : AReachable s) : AInvN s := by
  induction h with
  | init max min _ => intro e he; cases he
  | step op hr hok ih => exact ((AInv.of_reachable hr).step_ids op hok).2.2 ih

/-- a table id that has been handed out and names no table now names no table after any valid
    script: broken tables do not come back -/
theorem gone_stays_gone : ∀ (ops : List AOp) (s : ASys), AInv s → s.allOk ops → ∀ t, t < s.r.nextId →
    s.env.membersOf t = none → (s.run ops).env.membersOf t = none ∧ t < (s.run ops).r.nextId := by
  intro ops
  induction ops with
  | nil => intro s _ _ t hlt hun; exact ⟨hun, hlt⟩
  | cons op ops ih =>
    intro s h hok t hlt hun
    obtain ⟨h1, h2, _⟩ := h.step_ids op hok.1
    have hS' := (h.step_full op hok.1).1
    have hun' : (s.step op).env.membersOf t = none :=
      (hS'.unknown_iff t).2 (h2 t hlt ((h.unknown_iff t).1 hun))
    exact ih (s.step op) hS' hok.2 t (by omega) hun'

end ASys
end Pokerface
