import Pokerface.Proofs.EvalTable
/-! C03, step (i), group 7 of 8: kernel evaluation of the class check. -/
namespace Pokerface.C03

theorem nfGroup_7 : nfGroup 7 = true := by decide +kernel

end Pokerface.C03
