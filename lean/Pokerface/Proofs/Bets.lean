import Pokerface.Proofs.EngineReach
/-
  Lemmas for C11 / C12: the situation "seat `cur` is asked to act", the table of
  offered actions, and the exact effect of `pay` on the paying seat and on the
  scalars of the round.
-/
namespace Pokerface
open Game

/-- The situation C11 and C12 speak about: a reachable state that waits for the action of
    the player `p` sitting at seat `g.cur`. -/
structure AtTurn (g : Game) (p : Player) : Prop where
  reach : Reachable g
  ev : g.event = .roundStarted
  seat : g.players[g.cur]? = some p

theorem AtTurn.inv {g : Game} {p : Player} (h : AtTurn g p) : Inv g := inv_reachable h.reach

theorem AtTurn.chips {g : Game} {p : Player} (h : AtTurn g p) : ChipsOK g :=
  h.inv.chips (by rw [h.ev]; simp)

theorem AtTurn.mem {g : Game} {p : Player} (h : AtTurn g p) : p ∈ g.players :=
  List.mem_of_getElem? h.seat

theorem AtTurn.pinv {g : Game} {p : Player} (h : AtTurn g p) : PInv p := h.chips.pinv p h.mem

/-- what the seat to act is offered is exactly the situation table of `GetAvailableActions` -/
theorem AtTurn.allowed_eq {g : Game} {p : Player} (h : AtTurn g p) : p.allowed = g.availableActions p := by
  have := h.inv.post.allowed
  simp only [h.ev, if_true] at this
  simpa using this g.cur p h.seat

/-- every reachable state has a player at seat `cur` -/
theorem exists_cur {g : Game} (h : Reachable g) : ∃ p, g.players[g.cur]? = some p := by
  have hs := (inv_reachable h).struct
  have : g.cur < g.players.length := hs.cur
  exact ⟨g.players[g.cur], by simp [List.getElem?_eq_getElem this]⟩

theorem AtTurn.allows {g : Game} {p : Player} (h : AtTurn g p) (a : Act) :
    g.allows g.cur a = decide (a ∈ g.availableActions p) := by
  unfold Game.allows
  rw [h.seat]
  simp only [List.contains_eq_mem, h.allowed_eq]

/-! ### the situation table, clause by clause (no reachability needed beyond the sign facts) -/

section table
variable (g : Game) (p : Player)

theorem avail_pass_only (h : p.fold = true ∨ p.stack = 0) : g.availableActions p = [.pass] := by
  unfold Game.availableActions
  rcases h with h | h
  · simp [h]
  · simp [h]

/-- the list for a seat that can move, with the two sub-lists kept symbolic -/
theorem avail_movable (h1 : p.fold = false) (h2 : p.stack ≠ 0) :
    g.availableActions p =
      .allin :: (if p.wager < g.cw then
          .fold :: (if p.initial > g.cw then .call :: (if p.initial > g.cw + g.prev then [.raise] else []) else [])
        else .check :: (if p.initial ≥ g.miniBet then (if g.cw = 0 then [.bet] else [.raise]) else [])) := by
  unfold Game.availableActions
  simp only [h1, h2, if_false, Bool.false_eq_true]
  split <;> rfl

end table

end Pokerface

namespace Pokerface
open Game

section table2
variable {g : Game} {p : Player}

/-- exact membership conditions of the situation table for a seat that can move -/
theorem avail_mem (h1 : p.fold = false) (h2 : p.stack ≠ 0) :
    (Act.allin ∈ g.availableActions p) ∧ (Act.pass ∉ g.availableActions p) ∧ (Act.pay ∉ g.availableActions p) ∧
    (Act.fold ∈ g.availableActions p ↔ p.wager < g.cw) ∧
    (Act.check ∈ g.availableActions p ↔ ¬ p.wager < g.cw) ∧
    (Act.call ∈ g.availableActions p ↔ p.wager < g.cw ∧ p.initial > g.cw) ∧
    (Act.bet ∈ g.availableActions p ↔ ¬ p.wager < g.cw ∧ p.initial ≥ g.miniBet ∧ g.cw = 0) ∧
    (Act.raise ∈ g.availableActions p ↔
      (p.wager < g.cw ∧ p.initial > g.cw + g.prev ∧ p.initial > g.cw) ∨
      (¬ p.wager < g.cw ∧ p.initial ≥ g.miniBet ∧ g.cw ≠ 0)) := by
  rw [avail_movable g p h1 h2]
  by_cases c1 : p.wager < g.cw
  · rw [if_pos c1]
    by_cases c2 : p.initial > g.cw
    · rw [if_pos c2]
      by_cases c3 : p.initial > g.cw + g.prev
      · rw [if_pos c3]; simp [c1, c2, c3]
      · rw [if_neg c3]; simp [c1, c2, c3]
    · rw [if_neg c2]; simp [c1, c2]
  · rw [if_neg c1]
    by_cases c4 : p.initial ≥ g.miniBet
    · rw [if_pos c4]
      by_cases c5 : g.cw = 0
      · rw [if_pos c5]; simp [c4, c5]; rw [c5] at c1; omega
      · rw [if_neg c5]; simp [c1, c4, c5]
    · rw [if_neg c4]; simp [c1, c4]

end table2
end Pokerface

/-! ### exact effect of `pay` -/
namespace Pokerface
open Game

/-- what `pay` does to the paying player: all-in when the stack does not exceed the amount -/
def payF (c : Int) (p : Player) : Player :=
  if p.stack ≤ c then goAllin p else putWager (p.wager + c) p

theorem frame_at {l l' : List Player} (h : l'.map Player.frame = l.map Player.frame) {i : Nat} {p : Player}
    (hp : l[i]? = some p) : ∃ q, l'[i]? = some q ∧ q.frame = p.frame := by
  have h1 : (l'.map Player.frame)[i]? = some p.frame := by rw [h]; simp [hp]
  simp only [List.getElem?_map, Option.map_eq_some_iff] at h1
  exact h1

theorem frame_at' {l l' : List Player} (h : l'.map Player.frame = l.map Player.frame) {i : Nat} {q : Player}
    (hq : l'[i]? = some q) : ∃ p, l[i]? = some p ∧ q.frame = p.frame := by
  obtain ⟨p, hp, hpe⟩ := frame_at h.symm hq
  exact ⟨p, hp, hpe.symm⟩

theorem NoChip.at {g g' : Game} (h : NoChip g g') {i : Nat} {p : Player} (hp : g.players[i]? = some p) :
    ∃ q, g'.players[i]? = some q ∧ q.frame = p.frame := frame_at h.frame hp

theorem payAllin_frame (g : Game) (i : Nat) (p : Player) (w : Bool) :
    (g.payAllin i p w).players.map Player.frame = (g.players.modify i goAllin).map Player.frame := by
  unfold Game.payAllin
  simp only
  split
  · have h2 : (if p.initial > g.cw then ((g.addRoundPot (p.initial - p.wager)).modP i goAllin).setCw p.initial
        else (g.addRoundPot (p.initial - p.wager)).modP i goAllin).players = g.players.modify i goAllin := by
      split <;> rfl
    split
    · rw [(noChip_becomeRaiser _ i).frame, h2]
    · rw [(noChip_resetActed _).frame, h2]
  · rfl

theorem payPart_frame (g : Game) (i : Nat) (p : Player) (c : Int) (w : Bool) :
    (g.payPart i p c w).players.map Player.frame = (g.players.modify i (putWager (p.wager + c))).map Player.frame := by
  unfold Game.payPart
  simp only
  split
  · rw [(noChip_becomeRaiser _ i).frame]; rfl
  · rfl

/-- `pay` touches the chips of the paying seat only, and does to it what `payF` says -/
theorem pay_frame {g : Game} {i : Nat} {p : Player} (hp : g.players[i]? = some p) (c : Int) (w : Bool) :
    (g.pay i c w).players.map Player.frame = (g.players.modify i (payF c)).map Player.frame := by
  unfold Game.pay
  rw [hp]
  simp only
  have hm : ∀ f f' : Player → Player, f p = f' p → g.players.modify i f = g.players.modify i f' := by
    intro f f' hff
    apply List.ext_getElem?
    intro j
    rw [List.getElem?_modify, List.getElem?_modify]
    by_cases hij : i = j
    · subst hij; simp [hp, hff]
    · simp [hij]
  split
  · rename_i hle
    rw [payAllin_frame, hm goAllin (payF c) (by simp [payF, hle])]
  · rename_i hle
    rw [payPart_frame, hm (putWager (p.wager + c)) (payF c) (by simp [payF, hle])]

theorem pay_self {g : Game} {i : Nat} {p : Player} (hp : g.players[i]? = some p) (c : Int) (w : Bool) :
    ∃ q, (g.pay i c w).players[i]? = some q ∧ q.frame = (payF c p).frame := by
  have h := pay_frame hp c w
  have : (g.players.modify i (payF c))[i]? = some (payF c p) := by simp [hp]
  exact frame_at h this

theorem pay_prev (g : Game) (i : Nat) (c : Int) (w : Bool) : (g.pay i c w).prev = g.prev := by
  unfold Game.pay
  split
  · rfl
  · split
    · unfold Game.payAllin
      simp only
      split
      · split
        · split <;> rfl
        · split <;> rfl
      · rfl
    · unfold Game.payPart
      simp only
      split <;> rfl

/-- the wager to match after a payment made as a wager -/
theorem pay_cw {g : Game} {i : Nat} {p : Player} (hp : g.players[i]? = some p) (c : Int) :
    (g.pay i c true).cw =
      if p.stack ≤ c then (if p.initial > g.cw then p.initial else g.cw)
      else (if g.cw < p.wager + c then p.wager + c else g.cw) := by
  unfold Game.pay
  rw [hp]
  simp only
  split
  · unfold Game.payAllin
    simp only [if_true]
    split
    · split <;> rfl
    · split <;> rfl
  · unfold Game.payPart
    simp only [Bool.true_and, decide_eq_true_eq]
    split <;> rfl

/-- the last raiser after a payment made as a wager -/
theorem pay_raiser {g : Game} {i : Nat} {p : Player} (hp : g.players[i]? = some p) (c : Int) :
    (g.pay i c true).raiser =
      if p.stack ≤ c then (if p.initial - g.cw ≥ g.cw + g.prev then i else g.raiser)
      else (if g.cw < p.wager + c then i else g.raiser) := by
  unfold Game.pay
  rw [hp]
  simp only
  split
  · unfold Game.payAllin
    simp only [if_true]
    split
    · split <;> rfl
    · split <;> rfl
  · unfold Game.payPart
    simp only [Bool.true_and, decide_eq_true_eq]
    split <;> rfl

/-- a payment never lowers the wager to match (no hypothesis on state or amount) -/
theorem pay_cw_mono (g : Game) (i : Nat) (c : Int) (w : Bool) : g.cw ≤ (g.pay i c w).cw := by
  unfold Game.pay
  split
  · exact Int.le_refl _
  · split
    · unfold Game.payAllin
      simp only
      split
      · split
        · split
          · rename_i h; exact Int.le_of_lt h
          · exact Int.le_refl _
        · split
          · rename_i h; exact Int.le_of_lt h
          · exact Int.le_refl _
      · exact Int.le_refl _
    · unfold Game.payPart
      simp only
      split
      · rename_i h
        simp only [Bool.and_eq_true, decide_eq_true_eq] at h
        exact Int.le_of_lt h.2
      · exact Int.le_refl _

theorem requestPlayerAction_raiser (g : Game) : g.requestPlayerAction.raiser = g.raiser := by
  unfold Game.requestPlayerAction
  split
  · rfl
  · split
    · rfl
    · split
      · rfl
      · split <;> rfl

theorem resume_raiser (g : Game) : g.resume.raiser = g.raiser := by
  unfold Game.resume
  split
  · exact requestPlayerAction_raiser g
  · rfl
  · rfl

theorem setActed_self {g : Game} {i : Nat} {p : Player} (hp : g.players[i]? = some p) :
    (g.setActed i).players[i]? = some { p with acted := true } := by
  simp [Game.setActed, Game.modP, hp]

/-- an action addressed to the seat to act, either implicitly (`Game.X()`) or by naming it -/
def ByCur (g : Game) (seat : Option Nat) : Prop := seat = none ∨ seat = some g.cur

theorem step_byCur {g : Game} {seat : Option Nat} (h : ByCur g seat) (a : Act) (x : Int) :
    g.step (.act seat a x) = g.act g.cur a x := by
  rcases h with rfl | rfl <;> rfl

end Pokerface

namespace Pokerface
open Game

theorem reachable_run {c : Config} (wf : WFConfig c) (hs : (start c).2 = none) (ops : List Op) :
    Reachable ((start c).1.run ops) := ⟨c, ops, wf, hs, rfl⟩

theorem run_append (g : Game) (a b : List Op) : g.run (a ++ b) = (g.run a).run b := by
  simp [Game.run, List.foldl_append]

theorem Reachable.run {g : Game} (h : Reachable g) (ops : List Op) : Reachable (g.run ops) := by
  obtain ⟨c, ops0, wf, hs, rfl⟩ := h
  exact ⟨c, ops0 ++ ops, wf, hs, (run_append _ _ _).symm⟩

theorem Reachable.step {g : Game} (h : Reachable g) (op : Op) : Reachable (g.step op).1 :=
  h.run [op]

end Pokerface

namespace Pokerface

theorem sum_nonneg : ∀ (l : List Int), (∀ x ∈ l, 0 ≤ x) → 0 ≤ l.sum
  | [], _ => by simp
  | a :: l, h => by
    have := sum_nonneg l (fun x hx => h x (by simp [hx]))
    have := h a (by simp)
    simp; omega

end Pokerface
