/-
  The answers of `SyncState(t, 0)` do not depend on the `Required` fields (C20):
  two regulator states that agree on everything but `Required` ask every table
  for the same thing.
-/
import Pokerface.Proofs.RegSettleSys

namespace Pokerface
namespace Reg

/-- agreement on everything `SyncState` looks at -/
structure Frame (r r' : Reg) : Prop where
  max : r'.max = r.max
  pc : r'.playerCount = r.playerCount
  tc : r'.tableCount = r.tableCount
  status : r'.status = r.status
  queue : r'.queue = r.queue
  tv : tview r'.tables = tview r.tables

theorem Frame.refl (r : Reg) : Frame r r := ⟨rfl, rfl, rfl, rfl, rfl, rfl⟩
theorem Frame.symm {r r' : Reg} (h : Frame r r') : Frame r' r :=
  ⟨h.max.symm, h.pc.symm, h.tc.symm, h.status.symm, h.queue.symm, h.tv.symm⟩
theorem Frame.trans {a b c : Reg} (h1 : Frame a b) (h2 : Frame b c) : Frame a c :=
  ⟨h2.max.trans h1.max, h2.pc.trans h1.pc, h2.tc.trans h1.tc, h2.status.trans h1.status,
   h2.queue.trans h1.queue, h2.tv.trans h1.tv⟩

theorem Frame.req {r r' : Reg} (h : Frame r r') : r'.requiredTables = r.requiredTables := by
  unfold requiredTables; rw [h.pc, h.max]

theorem tview_find (ts ts' : List RTable) (t : Nat) (h : tview ts' = tview ts) :
    (ts'.find? (fun x => x.id == t)).map (fun x => x.count) =
    (ts.find? (fun x => x.id == t)).map (fun x => x.count) := by
  induction ts generalizing ts' with
  | nil =>
    cases ts' with
    | nil => rfl
    | cons e m => simp [tview] at h
  | cons x ts ih =>
    cases ts' with
    | nil => simp [tview] at h
    | cons e m =>
      simp only [tview, List.map_cons, List.cons.injEq, Prod.mk.injEq] at h
      obtain ⟨⟨h1, h2⟩, h3⟩ := h
      simp only [List.find?_cons, h1]
      cases hb : (x.id == t)
      · exact ih m h3
      · simp [h2]

theorem filter_count_len (ts : List RTable) (p : Int → Bool) :
    (ts.filter fun t => p t.count).length = ((tview ts).filter fun e => p e.2).length := by
  induction ts with
  | nil => rfl
  | cons t ts ih =>
    simp only [tview, List.map_cons, List.filter_cons] at ih ⊢
    split <;> simp [ih]

theorem filter_count_sum (ts : List RTable) (p : Int → Bool) :
    ((ts.filter fun t => p t.count).map (·.count)).sum = (((tview ts).filter fun e => p e.2).map (·.2)).sum := by
  induction ts with
  | nil => rfl
  | cons t ts ih =>
    simp only [tview, List.map_cons, List.filter_cons] at ih ⊢
    split <;> simp [ih]

theorem frame_lowCount {r r' : Reg} (h : Frame r r') :
    r'.lowWaterLevelTableCount = r.lowWaterLevelTableCount := by
  unfold lowWaterLevelTableCount
  simp only
  rw [h.pc, h.req]
  rw [filter_count_len r'.tables (fun c => decide (c < r.playerCount / r.requiredTables)),
      filter_count_len r.tables (fun c => decide (c < r.playerCount / r.requiredTables)), h.tv]

theorem frame_reached {r r' : Reg} (h : Frame r r') (fl : Int) :
    r'.lowerWaterLevelReached fl = r.lowerWaterLevelReached fl := by
  unfold lowerWaterLevelReached
  simp only
  rw [h.pc, h.req]
  rw [filter_count_len r'.tables (fun c => decide (c ≤ r.playerCount / r.requiredTables)),
      filter_count_len r.tables (fun c => decide (c ≤ r.playerCount / r.requiredTables)),
      filter_count_sum r'.tables (fun c => !decide (c ≤ r.playerCount / r.requiredTables)),
      filter_count_sum r.tables (fun c => !decide (c ≤ r.playerCount / r.requiredTables)), h.tv]

theorem frame_releaseLoop (k : Nat) : ∀ (id : Nat) (fl : Int) (r r' : Reg) (p : Nat), Frame r r' →
    (releaseLoop k id fl r' p).1 = (releaseLoop k id fl r p).1 := by
  induction k with
  | zero => intro _ _ _ _ _ _; rfl
  | succ n ih =>
    intro id fl r r' p h
    rw [releaseLoop, releaseLoop, frame_reached h fl]
    split
    · rfl
    · apply ih
      refine ⟨h.max, h.pc, h.tc, h.status, h.queue, ?_⟩
      simp only [setTable_eq, fun_sub]
      rw [tview_upd id _ _ (-1) (adj_id _ _) (adj_count _ _), tview_upd id _ _ (-1) (adj_id _ _) (adj_count _ _), h.tv]

theorem frame_ids {r r' : Reg} (h : Frame r r') : r'.tables.map (·.id) = r.tables.map (·.id) := by
  rw [← tview_fst, ← tview_fst, h.tv]

theorem findTable_isNone_iff (r : Reg) (t : Nat) : (r.findTable t).isNone = true ↔ t ∉ r.tables.map (·.id) := by
  constructor
  · intro h
    cases hf : r.findTable t with
    | none => exact findTable_none hf
    | some x => rw [hf] at h; cases h
  · intro h
    cases hf : r.findTable t with
    | none => rfl
    | some x => exact absurd (List.mem_map.2 ⟨x, (findTable_some hf).1, (findTable_some hf).2⟩) h

/-- the three things a table is told by `SyncState(t, 0)` -/
def answer0 (r : Reg) (t : Nat) : Int × List Nat × Bool :=
  ((r.syncState t 0).2.2.1, (r.syncState t 0).2.2.2, ((r.syncState t 0).1.findTable t).isNone)

theorem findTable_isNone_eq (x : Reg) (t : Nat) :
    (x.findTable t).isNone = decide (t ∉ x.tables.map (·.id)) := by
  have := findTable_isNone_iff x t
  cases h : (x.findTable t).isNone <;> simp_all

theorem frame_answer {r r' : Reg} (h : Frame r r') (t : Nat) : answer0 r' t = answer0 r t := by
  have hfind := tview_find r.tables r'.tables t h.tv
  unfold answer0
  rw [syncState_eq, syncState_eq]
  cases hf : r.findTable t with
  | none =>
    have hf' : r'.findTable t = none := by
      unfold findTable at hf ⊢
      rw [hf] at hfind
      cases hx : r'.tables.find? (fun x => x.id == t) with
      | none => rfl
      | some x => rw [hx] at hfind; cases hfind
    rw [hf']
    simp only
    have e1 : (r.beginOp []).findTable t = none := hf
    have e2 : (r'.beginOp []).findTable t = none := hf'
    rw [e1, e2]
  | some t0 =>
    have hf' : ∃ t0', r'.findTable t = some t0' ∧ t0'.count = t0.count := by
      unfold findTable at hf ⊢
      rw [hf] at hfind
      cases hx : r'.tables.find? (fun x => x.id == t) with
      | none => rw [hx] at hfind; cases hfind
      | some x =>
        rw [hx] at hfind
        simp only [Option.map_some, Option.some.injEq] at hfind
        exact ⟨x, rfl, hfind⟩
    obtain ⟨t0', hf', hc⟩ := hf'
    rw [hf']
    simp only
    rw [syncBase_zero, syncBase_zero, hc]
    have hb : Frame (r.beginOp []) (r'.beginOp []) := ⟨h.max, h.pc, h.tc, h.status, h.queue, h.tv⟩
    have e1 : (r'.beginOp []).requiredTables = (r.beginOp []).requiredTables := hb.req
    have hsome : ((r.beginOp []).findTable t).isNone = false := by
      have : (r.beginOp []).findTable t = some t0 := hf
      rw [this]; rfl
    have hsome' : ((r'.beginOp []).findTable t).isNone = false := by
      have : (r'.beginOp []).findTable t = some t0' := hf'
      rw [this]; rfl
    generalize r.beginOp [] = b at *
    generalize r'.beginOp [] = b' at *
    have hids : b'.tables.map (·.id) = b.tables.map (·.id) := frame_ids hb
    rw [e1, hb.status, hb.pc, hb.max, hb.tc, frame_lowCount hb, hb.queue]
    split
    · simp only [breakTable_find]
    · split
      · simp only [hsome, hsome']
      · split
        · split
          · simp only [breakTable_find]
          · rw [take_norm, take_norm]
            simp only [findTable_isNone_eq, upd_ids _ _ _ (adj_id _ _), hids]
        · split
          · simp only
            obtain ⟨j, _, he⟩ := releaseLoop_spec (t0.count - 0 - b.playerCount / b.requiredTables).toNat t
              (b.playerCount / b.requiredTables) b 0
            obtain ⟨j', _, he'⟩ := releaseLoop_spec (t0.count - 0 - b.playerCount / b.requiredTables).toNat t
              (b.playerCount / b.requiredTables) b' 0
            have hj := frame_releaseLoop (t0.count - 0 - b.playerCount / b.requiredTables).toNat t
              (b.playerCount / b.requiredTables) b b' 0 hb
            rw [he, he'] at hj ⊢
            simp only at hj ⊢
            have : j' = j := by omega
            subst this
            simp only [findTable_isNone_eq, upd_ids _ _ _ (adj_id _ _), hids]
          · simp only [hsome, hsome']

theorem bump_zero (id : Nat) (tv : List (Nat × Int)) : bump id 0 tv = tv := by
  simp only [bump]
  conv => rhs; rw [← List.map_id tv]
  apply List.map_congr_left
  intro e _
  split
  · simp
  · rfl

end Reg

namespace RSys
open Reg

/-- a quiet sync that asks for nothing changes nothing `SyncState` looks at, and no table appears
    or disappears -/
theorem noask_frame {s : RSys} (h : SInv s) (t : Nat) (stay rel keep ch : List Nat)
    (hok : s.ok (.sync t [] stay rel keep ch)) (hna : s.asks (.sync t [] stay rel keep ch) = false) :
    Frame s.r (s.step (.sync t [] stay rel keep ch)).r ∧
    (s.step (.sync t [] stay rel keep ch)).env.members.map (·.1) = s.env.members.map (·.1) := by
  cases hm : s.env.membersOf t with
  | none =>
    have hft := (h.unknown_iff t).1 hm
    have h1 : (s.syncAnswer t []).1 = s.r.beginOp [] := by
      simp only [syncAnswer, syncState_eq, hft]
    have hstep : s.step (.sync t [] stay rel keep ch) = { r := s.r.beginOp [], env := s.env } := by
      simp only [step, hm, h1]
    rw [hstep]
    exact ⟨⟨rfl, rfl, rfl, rfl, rfl, rfl⟩, rfl⟩
  | some ms =>
    have hok' := hok
    simp only [ok, hm] at hok'
    rw [show s.syncAnswer t [] = ((s.syncAnswer t []).1, (s.syncAnswer t []).2.1,
      (s.syncAnswer t []).2.2.1, (s.syncAnswer t []).2.2.2) from rfl] at hok'
    simp only [] at hok'
    obtain ⟨hp1, hp2, hrl, hkeep, hrelbad⟩ := hok'
    obtain ⟨r1, relc, nw, t0, hft, hc0, hans, post⟩ := sync_facts h t [] stay ms hm hp1
    have hbrk : s.broken t [] = (r1.findTable t).isNone := by simp only [broken, hans]
    simp only [asks, hm, hans, Option.isSome_some, Bool.true_and, Bool.or_eq_false_iff,
      decide_eq_false_iff_not, Bool.not_eq_false', List.isEmpty_iff, Decidable.not_not] at hna
    obtain ⟨⟨hr0, hnw⟩, hb⟩ := hna
    rw [hans] at hrl
    simp only at hrl
    have hrel : rel = [] := List.length_eq_zero_iff.1 (by omega)
    have hstep : s.step (.sync t [] stay rel keep ch) =
        { r := r1, env := { s.env with members := setMembers t keep s.env.members,
                                       alive := s.env.alive.filter (fun p => !([] : List Nat).contains p) } } := by
      simp only [step, hm, hans, hb, hrel, List.isEmpty_nil, and_self, if_true, Bool.false_eq_true, if_false]
      rfl
    rw [hstep]
    refine ⟨?_, setMembers_fst t keep s.env.members⟩
    have hq : s.r.queue = r1.queue := by
      have := post.queue
      rw [hnw] at this
      exact this
    have htv : tview r1.tables = tview s.r.tables := by
      rcases post.cases with ⟨hnone, _, _, _⟩ | ⟨a, rq, htab, ha, _, _⟩
      · rw [hbrk, hnone] at hb; cases hb
      · rw [htab, tview_upd t _ _ a (adj_id _ _) (adj_count _ _), syncBase_tables,
          tview_upd t _ _ _ (adj_id _ _) (adj_count _ _), bump_bump]
        have : -(([] : List Nat).length : Int) + a = 0 := by
          rw [ha, hnw, hr0]; simp
        rw [this, bump_zero]
    refine ⟨post.max_eq, ?_, ?_, post.status_eq, hq.symm, htv⟩
    · rw [post.pc_eq]
      show s.r.playerCount - (([] : List Nat).length : Int) = s.r.playerCount
      simp
    · have h1 := post.wf.tc
      have h2 := h.rinv.wf.tc
      have := congrArg List.length htv
      simp only [tview, List.length_map] at this
      show r1.tableCount = s.r.tableCount
      omega

theorem membersOf_isSome_iff (e : Env) (t : Nat) : (e.membersOf t).isSome = true ↔ t ∈ e.members.map (·.1) := by
  unfold Env.membersOf
  constructor
  · intro h
    cases hf : e.members.find? (fun x => x.1 == t) with
    | none => rw [hf] at h; cases h
    | some x =>
      have h1 := List.mem_of_find?_eq_some hf
      have h2 := List.find?_some hf
      exact List.mem_map.2 ⟨x, h1, by simpa using h2⟩
  · intro h
    obtain ⟨x, hx, hxt⟩ := List.mem_map.1 h
    cases hf : e.members.find? (fun x => x.1 == t) with
    | none =>
      rw [List.find?_eq_none] at hf
      exact absurd (by simpa using hxt) (hf x hx)
    | some y => rfl

/-- what the asking test says about a known table -/
theorem noask_answer {s : RSys} (t : Nat) (stay rel keep ch : List Nat)
    (hs : (s.env.membersOf t).isSome = true) (hna : s.asks (.sync t [] stay rel keep ch) = false) :
    answer0 s.r t = (0, [], false) := by
  have hsa : s.syncAnswer t [] = s.r.syncState t 0 := rfl
  simp only [asks, hs, Bool.true_and, Bool.or_eq_false_iff, decide_eq_false_iff_not,
    Bool.not_eq_false', List.isEmpty_iff, Decidable.not_not, broken, hsa] at hna
  unfold answer0
  rw [hna.1.1, hna.1.2, hna.2]

/-- in a valid elimination-free script in which nobody is asked anything, every table that is
    synced at some point would also have been asked nothing at the start -/
theorem noask_script_answers : ∀ (ops : List EOp) (s : RSys), SInv s →
    (∀ op ∈ ops, quietOp op = true) → s.allOk ops → s.askCount ops = 0 →
    ∀ t, (∃ stay rel keep ch, EOp.sync t [] stay rel keep ch ∈ ops) → (s.env.membersOf t).isSome = true →
    answer0 s.r t = (0, [], false) := by
  intro ops
  induction ops with
  | nil => intro s _ _ _ _ t ⟨_, _, _, _, hm⟩ _; cases hm
  | cons op ops ih =>
    intro s h hq hok h0 t ⟨stay, rel, keep, ch, hmem⟩ hs
    have hqo := hq op (List.mem_cons_self ..)
    cases op with
    | add ps ch => simp [quietOp] at hqo
    | status st ch => simp [quietOp] at hqo
    | sync t' elim stay' rel' keep' ch' =>
      have he : elim = [] := by simpa [quietOp] using hqo
      subst he
      simp only [askCount] at h0
      have hna : s.asks (.sync t' [] stay' rel' keep' ch') = false := by
        cases ha : s.asks (.sync t' [] stay' rel' keep' ch') with
        | false => rfl
        | true => rw [ha] at h0; simp at h0
      have hrest : (s.step (.sync t' [] stay' rel' keep' ch')).askCount ops = 0 := by
        rw [hna] at h0; simpa using h0
      obtain ⟨hfr, hids⟩ := noask_frame h t' stay' rel' keep' ch' hok.1 hna
      rcases List.mem_cons.1 hmem with heq | hin
      · -- this very op syncs `t`
        injection heq with e1 e2 e3 e4 e5 e6
        subst e1
        exact noask_answer t stay' rel' keep' ch' hs hna
      · have hS' := (h.step_full _ hok.1).1
        have hs' : ((s.step (.sync t' [] stay' rel' keep' ch')).env.membersOf t).isSome = true := by
          rw [membersOf_isSome_iff, hids, ← membersOf_isSome_iff]; exact hs
        have := ih _ hS' (fun op hop => hq op (List.mem_cons_of_mem _ hop)) hok.2 hrest t
          ⟨stay, rel, keep, ch, hin⟩ hs'
        rw [← frame_answer hfr t]; exact this

theorem askCount_append (s : RSys) (a b : List EOp) :
    s.askCount (a ++ b) = s.askCount a + (s.run a).askCount b := by
  induction a generalizing s with
  | nil => simp [askCount, run]
  | cons op a ih =>
    simp only [List.cons_append, askCount, run, List.foldl_cons]
    rw [ih (s.step op)]
    simp only [run]
    omega

theorem allOk_append (s : RSys) (a b : List EOp) : s.allOk (a ++ b) ↔ s.allOk a ∧ (s.run a).allOk b := by
  induction a generalizing s with
  | nil => simp [allOk, run]
  | cons op a ih =>
    simp only [List.cons_append, allOk, run, List.foldl_cons]
    rw [ih (s.step op)]
    simp only [run, and_assoc]

end RSys
end Pokerface
