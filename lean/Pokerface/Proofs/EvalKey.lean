import Pokerface.Proofs.EvalSort
/-!
  C03: the specified order on `PokerKey` is a strict total order, and the key does
  not depend on the order of the cards.
-/
namespace Pokerface.C03

theorem list_trichotomy (l₁ l₂ : List Nat) : l₁ < l₂ ∨ l₁ = l₂ ∨ l₂ < l₁ := by
  by_cases h : l₂ < l₁
  · exact Or.inr (Or.inr h)
  · rcases List.le_iff_lt_or_eq.1 (List.not_lt.1 h) with h | h
    · exact Or.inl h
    · exact Or.inr (Or.inl h)

theorem key_trichotomy (k₁ k₂ : PokerKey) : k₁ < k₂ ∨ k₁ = k₂ ∨ k₂ < k₁ := by
  obtain ⟨i₁, t₁⟩ := k₁
  obtain ⟨i₂, t₂⟩ := k₂
  simp only [PokerKey.lt_def, PokerKey.mk.injEq]
  rcases Nat.lt_trichotomy i₁ i₂ with h | h | h
  · exact Or.inl (Or.inl h)
  · rcases list_trichotomy t₁ t₂ with h' | h' | h'
    · exact Or.inl (Or.inr ⟨h, h'⟩)
    · exact Or.inr (Or.inl ⟨h, h'⟩)
    · exact Or.inr (Or.inr (Or.inr ⟨h.symm, h'⟩))
  · exact Or.inr (Or.inr (Or.inl h))

theorem key_lt_asymm (k₁ k₂ : PokerKey) (h : k₁ < k₂) : ¬ k₂ < k₁ := by
  obtain ⟨i₁, t₁⟩ := k₁
  obtain ⟨i₂, t₂⟩ := k₂
  simp only [PokerKey.lt_def] at h ⊢
  rintro (h' | ⟨h', h''⟩)
  · omega
  · rcases h with h | ⟨_, h⟩
    · omega
    · exact List.lt_asymm h h''

theorem key_lt_irrefl (k : PokerKey) : ¬ k < k := fun h => key_lt_asymm k k h h

theorem pokerKey_perm (T : List Cat) {h h' : List Card} (p : h.Perm h') :
    pokerKey T h = pokerKey T h' := by
  have pr : (ranks h).Perm (ranks h') := p.map _
  simp only [pokerKey, specCat_perm pr, specTiebreak_perm pr, sameSuit_perm p]

theorem valid_perm {h h' : List Card} (p : h.Perm h') (hv : Valid h) : Valid h' := by
  have pr : (ranks h).Perm (ranks h') := p.map _
  exact
    { five := by rw [← p.length_eq]; exact hv.five
      inRange := fun c hc => hv.inRange c (p.mem_iff.2 hc)
      atMostFour := fun r => by rw [← pr.count_eq]; exact hv.atMostFour r
      flushDistinct := fun hf => pr.nodup_iff.1 (hv.flushDistinct (by rw [sameSuit_perm p]; exact hf)) }

end Pokerface.C03
