import Pokerface.Proofs.PotsSpec
/-
  The published pots, one position at a time (helper lemmas for C16 / C02).
-/
namespace Pokerface

theorem le_lastD_of_sorted {X : List Int} (hs : X.Pairwise (· < ·)) (p : Int) :
    ∀ x ∈ X, x ≤ lastD p X := by
  induction X generalizing p with
  | nil => simp
  | cons y ys ih =>
    simp only [List.pairwise_cons] at hs
    intro x hx
    simp only [List.mem_cons] at hx
    simp only [lastD_cons]
    rcases hx with rfl | hx
    · cases ys with
      | nil => simp
      | cons z zs =>
        have h1 := ih hs.2 x z (by simp)
        have h2 := hs.1 z (by simp)
        have h3 := ih hs.2 z z (by simp)
        simp only [lastD_cons] at h1 h3 ⊢
        omega
    · exact ih hs.2 y x hx

/-- The last level value of a run of good pots is the level of the last pot. -/
theorem lastD_flatMap_levels {F : List Nat} (pre : List Pot) (h : ∀ q ∈ pre, GoodPot F q) (p : Int) :
    lastD p ((pre.flatMap (·.levels)).map (·.level)) = lastD p (pre.map (·.level)) := by
  rcases List.eq_nil_or_concat pre with rfl | ⟨init, q, rfl⟩
  · rfl
  · simp only [List.concat_eq_append] at h ⊢
    obtain ⟨l0, hl0, hlev, _, _⟩ := (h q (by simp)).last
    obtain ⟨ys, hys⟩ := List.getLast?_eq_some_iff.1 hl0
    simp only [List.flatMap_append, List.flatMap_cons, List.flatMap_nil, List.append_nil, List.map_append,
      List.map_cons, List.map_nil, hys, lastD_append, lastD_cons, lastD_nil, hlev]

theorem mergedPots_levels_sorted {ll : LevelList} (h : LLInv ll) :
    ((mergedPots ll).map (·.level)).Pairwise (· < ·) := by
  obtain ⟨hg, hflat, _⟩ := mergedPots_spec h
  have hs := h.sorted
  rw [← hflat] at hs
  generalize mergedPots ll = M at hg hs
  induction M with
  | nil => simp
  | cons q M ih =>
    simp only [List.flatMap_cons, List.map_append, List.pairwise_append] at hs
    simp only [List.map_cons, List.pairwise_cons]
    refine ⟨?_, ih (fun x hx => hg x (by simp [hx])) hs.2.1⟩
    intro L hL
    simp only [List.mem_map] at hL
    obtain ⟨q', hq', rfl⟩ := hL
    obtain ⟨l0, hl0, hlev, _, _⟩ := (hg q (by simp)).last
    obtain ⟨l1, hl1, hlev1, _, _⟩ := (hg q' (by simp [hq'])).last
    rw [hlev, hlev1]
    apply hs.2.2
    · exact List.mem_map_of_mem (List.mem_of_getLast? hl0)
    · apply List.mem_map_of_mem
      simp only [List.mem_flatMap]
      exact ⟨q', hq', List.mem_of_getLast? hl1⟩

theorem getPots_levels {ll : LevelList} : ll.getPots.map (·.level) = (mergedPots ll).map (·.level) := by
  rw [getPots_eq]
  have := congrArg (List.map (fun x : Int × Int × Int × List Level => x.1)) (putAll_fields (foldedStakes ll) (mergedPots ll))
  simpa [List.map_map, Function.comp_def] using this

theorem getPots_totals {ll : LevelList} : ll.getPots.map (·.total) = (mergedPots ll).map (·.total) := by
  rw [getPots_eq]
  have := congrArg (List.map (fun x : Int × Int × Int × List Level => x.2.2.1)) (putAll_fields (foldedStakes ll) (mergedPots ll))
  simpa [List.map_map, Function.comp_def] using this

theorem getPots_flatMap_levels {ll : LevelList} (h : LLInv ll) :
    ll.getPots.flatMap (·.levels) = ll.levels := by
  rw [← (mergedPots_spec h).2.1, getPots_eq]
  have := congrArg (List.map (fun x : Int × Int × Int × List Level => x.2.2.2)) (putAll_fields (foldedStakes ll) (mergedPots ll))
  simp only [List.map_map, Function.comp_def] at this
  rw [List.flatMap_def, List.flatMap_def, this]

/-- Everything about the pot at one position of the published list. -/
theorem getPots_at {ll : LevelList} (h : LLInv ll)
    (hc : ∀ kv ∈ ll.contribs, kv.2 ∈ ll.levels.map (·.level))
    (hL : ∀ L ∈ ll.levels.map (·.level), 0 ≤ L)
    {pre post : List Pot} {p : Pot} (hp : ll.getPots = pre ++ p :: post) :
    lastD 0 (pre.map (·.level)) ≤ p.level ∧
    p.wager = p.level - lastD 0 (pre.map (·.level)) ∧
    p.total = (ll.contribs.map (fun kv => min kv.2 p.level - min kv.2 (lastD 0 (pre.map (·.level))))).sum ∧
    p.contributors = putContribs (foldedStakes ll) (pre.map (·.level))
      (((contribsAt ll.contribs p.level).filter (fun i => !ll.folded.contains i)).map (fun i => (i, p.wager))) ∧
    p.levels = mkLevelsFrom ll.contribs (lastD 0 (pre.map (·.level))) (p.levels.map (·.level)) ∧
    (∀ l ∈ p.levels, nf ll.folded l = (contribsAt ll.contribs p.level).filter (fun i => !ll.folded.contains i)) ∧
    (∃ l ∈ p.levels, l.level = p.level) := by
  obtain ⟨preM, q, postM, hM, hlen, hfields, hpq⟩ := getPots_split hp
  obtain ⟨hg, hflat, _⟩ := mergedPots_spec h
  have hprelev : preM.map (·.level) = pre.map (·.level) := by
    have := congrArg (List.map (fun x : Int × Int × Int × List Level => x.1)) hfields
    simpa [List.map_map, Function.comp_def] using this
  -- the level list splits
  have hsplit : mkLevelsFrom ll.contribs 0 (ll.levels.map (·.level))
      = preM.flatMap (·.levels) ++ q.levels ++ postM.flatMap (·.levels) := by
    rw [← h.levels, ← hflat, hM]; simp
  obtain ⟨hLs, hS⟩ := mkLevelsFrom_segment _ _ _ _ _ hsplit
  have hP : lastD 0 ((preM.flatMap (·.levels)).map (·.level)) = lastD 0 (pre.map (·.level)) := by
    rw [lastD_flatMap_levels preM (fun x hx => hg x (by rw [hM]; simp [hx])), hprelev]
  rw [hP] at hS
  have hgq := hg q (by rw [hM]; simp)
  obtain ⟨l0, hl0, hlev, hcon, hall⟩ := hgq.last
  have hlast : lastD (lastD 0 (pre.map (·.level))) (q.levels.map (·.level)) = q.level := by
    apply lastD_of_getLast?
    rw [List.getLast?_map, hl0, hlev]; rfl
  have hsorted := h.sorted
  rw [hLs, List.pairwise_append, List.pairwise_append] at hsorted
  -- every level value of the pot is above the previous pot level
  have hPle : ∀ x ∈ q.levels.map (·.level), lastD 0 (pre.map (·.level)) ≤ x := by
    intro x hx
    rw [← hP]
    rcases List.eq_nil_or_concat ((preM.flatMap (·.levels)).map (·.level)) with hnil | ⟨init, y, hy⟩
    · rw [hnil]; simp only [lastD_nil]
      have hxm : x ∈ ll.levels.map (·.level) := by rw [hLs]; simp [hx]
      exact hL x hxm
    · rw [hy]
      simp only [List.concat_eq_append, lastD_append, lastD_cons, lastD_nil]
      have := hsorted.1.2.2 y (by rw [hy]; simp) x hx
      omega
  have hl0mem : l0 ∈ q.levels := List.mem_of_getLast? hl0
  have hl0c : l0.contributors = contribsAt ll.contribs q.level := by
    have := mkLevelsFrom_contributors ll.contribs _ _ l0 (by rw [← hS]; exact hl0mem)
    rw [this, hlev]
  have hwager : q.wager = q.level - lastD 0 (pre.map (·.level)) := by
    have := mkLevelsFrom_wager_sum ll.contribs (lastD 0 (pre.map (·.level))) (q.levels.map (·.level))
    rw [← hS, hlast] at this
    rw [hgq.wager, this]
  have htotal : q.total = (ll.contribs.map (fun kv => min kv.2 q.level - min kv.2 (lastD 0 (pre.map (·.level))))).sum := by
    have := mkLevelsFrom_total_sum ll.contribs (lastD 0 (pre.map (·.level))) (q.levels.map (·.level))
      hPle hsorted.1.2.1
    rw [← hS, hlast] at this
    rw [hgq.total]
    apply this
    intro kv hkv
    have hkm := hc kv hkv
    rw [hLs] at hkm
    simp only [List.mem_append] at hkm
    rcases hkm with (hkm | hkm) | hkm
    · left
      rw [← hP]
      exact le_lastD_of_sorted hsorted.1.1 0 _ hkm
    · right; left; exact hkm
    · right; right
      intro x hx
      have := hsorted.2.2 x (by simp [hx]) kv.2 hkm
      omega
  have hnfl0 : nf ll.folded l0 = (contribsAt ll.contribs q.level).filter (fun i => !ll.folded.contains i) := by
    simp only [nf, hl0c]
  subst hpq
  refine ⟨?_, hwager, htotal, ?_, hS, ?_, ⟨l0, hl0mem, hlev.symm⟩⟩
  · exact hlev ▸ hPle l0.level (List.mem_map_of_mem hl0mem)
  · show putContribs _ _ q.contributors = _
    rw [hcon, hnfl0]
  · intro l hl
    rw [hall l hl, hnfl0]

/-- Who is listed in the pot at one position, and with what amount. -/
theorem getPots_contributors_mem {ll : LevelList} (h : LLInv ll)
    (hc : ∀ kv ∈ ll.contribs, kv.2 ∈ ll.levels.map (·.level))
    (hL : ∀ L ∈ ll.levels.map (·.level), 0 ≤ L)
    {pre post : List Pot} {p : Pot} (hp : ll.getPots = pre ++ p :: post) (i : Nat) (a : Int) :
    (i, a) ∈ p.contributors ↔
      (i ∈ ll.folded ∧ a = (assocGet? ll.contribs i).getD 0 ∧ a ≠ 0 ∧ ∀ L ∈ pre.map (·.level), L ≤ a) ∨
      (i ∉ ll.folded ∧ a = p.wager ∧ ∃ v, (i, v) ∈ ll.contribs ∧ p.level ≤ v) := by
  obtain ⟨_, _, _, hcon, _, _, _⟩ := getPots_at h hc hL hp
  have hbase : KeysSorted (((contribsAt ll.contribs p.level).filter (fun i => !ll.folded.contains i)).map
      (fun i => (i, p.wager))) := by
    unfold KeysSorted
    rw [List.pairwise_map]
    exact (contribsAt_sorted h.contribs _).sublist List.filter_sublist
  have hfs : ((foldedStakes ll).map (·.1)).Nodup := by
    have : (foldedStakes ll).map (·.1) = ll.folded := by
      simp [foldedStakes, List.map_map, Function.comp_def]
    rw [this]
    exact h.folded.imp (fun {a b} hab => by omega)
  rw [hcon, putContribs_mem _ _ _ hbase hfs]
  have hmemfs : ∀ x : Nat × Int, x ∈ foldedStakes ll ↔ x.1 ∈ ll.folded ∧ x.2 = (assocGet? ll.contribs x.1).getD 0 := by
    intro x
    simp only [foldedStakes, List.mem_map]
    constructor
    · rintro ⟨j, hj, rfl⟩; exact ⟨hj, rfl⟩
    · rintro ⟨h1, h2⟩; exact ⟨x.1, h1, by rw [← h2]⟩
  have hmembase : (i, a) ∈ ((contribsAt ll.contribs p.level).filter (fun i => !ll.folded.contains i)).map
      (fun i => (i, p.wager)) ↔ i ∉ ll.folded ∧ a = p.wager ∧ ∃ v, (i, v) ∈ ll.contribs ∧ p.level ≤ v := by
    simp only [List.mem_map, List.mem_filter, mem_contribsAt, Prod.mk.injEq, List.contains_eq_mem,
      Bool.not_eq_eq_eq_not, Bool.not_true, decide_eq_false_iff_not]
    constructor
    · rintro ⟨j, ⟨h1, h2⟩, rfl, rfl⟩; exact ⟨h2, rfl, h1⟩
    · rintro ⟨h1, h2, h3⟩; exact ⟨i, ⟨h3, h1⟩, rfl, h2.symm⟩
  rw [hmemfs, hmembase]
  constructor
  · rintro (⟨⟨h1, h2⟩, h3, h4⟩ | ⟨h1, _⟩)
    · exact Or.inl ⟨h1, h2, h3, h4⟩
    · exact Or.inr h1
  · rintro (⟨h1, h2, h3, h4⟩ | h1)
    · exact Or.inl ⟨⟨h1, h2⟩, h3, h4⟩
    · refine Or.inr ⟨h1, ?_⟩
      intro f hf he
      rw [hmemfs] at hf
      have he' : f.1 = i := he
      rw [he'] at hf
      exact absurd hf.1 h1.1

/-- Number of non-folded listed players, pot by pot: unchanged by the put-back loop. -/
theorem getPots_nonfolded_counts {ll : LevelList} (h : LLInv ll) :
    ll.getPots.map (fun p => (p.contributors.filter (fun kv => !ll.folded.contains kv.1)).length)
      = (mergedPots ll).map (fun q => q.contributors.length) := by
  rw [getPots_eq]
  apply List.ext_getElem?
  intro k
  simp only [List.getElem?_map, putAll_getElem?]
  cases hq : (mergedPots ll)[k]? with
  | none => simp
  | some q =>
    simp only [Option.map_some, Option.some.injEq]
    rw [putContribs_filter (fun j => !ll.folded.contains j)]
    · obtain ⟨l0, _, _, hcon, _⟩ := ((mergedPots_spec h).1 q (List.mem_of_getElem? hq)).last
      rw [hcon, List.filter_map, List.length_map, List.length_map]
      congr 1
      apply List.filter_eq_self.2
      intro j hj
      simp only [nf, List.mem_filter] at hj
      simpa using hj.2
    · intro f hf
      simp only [foldedStakes, List.mem_map] at hf
      obtain ⟨j, hj, rfl⟩ := hf
      simp [hj]

theorem sum_flatMap_levels (M : List Pot) (hM : ∀ q ∈ M, q.total = (q.levels.map (·.total)).sum) :
    (M.map (·.total)).sum = ((M.flatMap (·.levels)).map (·.total)).sum := by
  induction M with
  | nil => rfl
  | cons q M ih =>
    simp only [List.map_cons, List.sum_cons, List.flatMap_cons, List.map_append, List.sum_append]
    rw [ih (fun x hx => hM x (by simp [hx])), hM q (by simp)]

theorem getPots_totals_sum {ll : LevelList} (h : LLInv ll)
    (hc : ∀ kv ∈ ll.contribs, 0 ≤ kv.2 ∧ kv.2 ∈ ll.levels.map (·.level))
    (hL : ∀ L ∈ ll.levels.map (·.level), 0 ≤ L) :
    (ll.getPots.map (·.total)).sum = (ll.contribs.map (·.2)).sum := by
  obtain ⟨hg, hflat, _⟩ := mergedPots_spec h
  rw [getPots_totals, sum_flatMap_levels _ (fun q hq => (hg q hq).total), hflat, h.levels,
    mkLevelsFrom_total_sum _ _ _ hL h.sorted (fun kv hkv => Or.inr (Or.inl (hc kv hkv).2))]
  congr 1
  apply List.map_congr_left
  intro kv hkv
  have h1 := (hc kv hkv).1
  have h2 := le_lastD_of_sorted h.sorted 0 _ (hc kv hkv).2
  omega

end Pokerface
