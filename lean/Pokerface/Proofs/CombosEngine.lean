import Pokerface.Model.Game
import Pokerface.Proofs.ListLemmas
/-
  C10, part 5: engine lemmas.  The published combination is recomputed whenever a
  street is dealt (and is never touched by anything else), and the showdown
  compares exactly the published strength.
-/
namespace Pokerface

/-- What `UpdateCombinationOfAllPlayers` publishes for the best hand `pw`. -/
def combOfPower (pw : Power) : Comb := { cat := some pw.cat, cards := pw.cards, power := pw.score }

/-- The part of a player that C10 talks about. -/
def handOf (p : Player) : List Card × Option Comb := (p.hole, p.comb)

namespace Game

/-- Specification-level: every published combination is the one `CalculatePlayerPower`
    gives for the *current* board and the player's own hole cards.
    (`comb = none` renders Go's `p.Combination == nil`, which the engine skips.) -/
def CombFresh (g : Game) : Prop :=
  ∀ p ∈ g.players, ∀ pw,
    playerPower g.opts.lvl g.opts.table g.board p.hole g.opts.required = some pw →
    p.comb = none ∨ p.comb = some (combOfPower pw)

/-- Everything `CombFresh` depends on (plus the street). -/
def key (g : Game) : Meta × List Card × Round × List (List Card × Option Comb) :=
  (g.opts, g.board, g.round, g.players.map handOf)

theorem key_eq_iff {g g' : Game} : g'.key = g.key ↔
    g'.opts = g.opts ∧ g'.board = g.board ∧ g'.round = g.round ∧ g'.players.map handOf = g.players.map handOf := by
  simp [key, Prod.ext_iff]

theorem combFresh_of_key {g g' : Game} (h : g'.key = g.key) (hf : g.CombFresh) : g'.CombFresh := by
  obtain ⟨ho, hb, _, hp⟩ := key_eq_iff.mp h
  intro p hp' pw hpw
  have hm : handOf p ∈ g.players.map handOf := hp ▸ List.mem_map_of_mem hp'
  obtain ⟨q, hq, hqp⟩ := List.mem_map.mp hm
  simp only [handOf, Prod.mk.injEq] at hqp
  rw [ho, hb, ← hqp.1] at hpw
  rw [← hqp.2]
  exact hf q hq pw hpw

theorem key_modP (g : Game) (i : Nat) (f : Player → Player) (hf : ∀ p, handOf (f p) = handOf p) :
    (g.modP i f).key = g.key := by
  simp [key, modP, map_modify_of_proj handOf f hf]

theorem key_mapP (g : Game) (f : Player → Player) (hf : ∀ p, handOf (f p) = handOf p) :
    (g.mapP f).key = g.key := by
  simp only [key, mapP, List.map_map]
  congr 3
  apply List.map_congr_left
  intro a _
  exact hf a

@[simp] theorem key_setEvent (g : Game) (e : Ev) : (g.setEvent e).key = g.key := rfl
@[simp] theorem key_setCur (g : Game) (i : Nat) : (g.setCur i).key = g.key := rfl
@[simp] theorem key_setRaiser (g : Game) (i : Nat) : (g.setRaiser i).key = g.key := rfl
@[simp] theorem key_setCw (g : Game) (x : Int) : (g.setCw x).key = g.key := rfl
@[simp] theorem key_setPrev (g : Game) (x : Int) : (g.setPrev x).key = g.key := rfl
@[simp] theorem key_recordBet (g : Game) (i : Nat) : (g.recordBet i).key = g.key := rfl
@[simp] theorem key_addRoundPot (g : Game) (x : Int) : (g.addRoundPot x).key = g.key := rfl
@[simp] theorem key_offer (g : Game) (i : Nat) : (g.offer i).key = g.key :=
  key_modP _ _ _ (by intro p; rfl)

@[simp] theorem key_setCurrentPlayer (g : Game) (i : Nat) : (g.setCurrentPlayer i).key = g.key := by
  simp [setCurrentPlayer, key_modP _ _ clearAllowed (by intro p; rfl)]

@[simp] theorem key_resetAllAllowed (g : Game) : g.resetAllAllowed.key = g.key :=
  key_mapP _ _ (by intro p; rfl)
@[simp] theorem key_resetAllPlayerStatus (g : Game) : g.resetAllPlayerStatus.key = g.key :=
  key_mapP _ _ (by intro p; rfl)
@[simp] theorem key_resetRoundStatus (g : Game) : g.resetRoundStatus.key = g.key := rfl
@[simp] theorem key_resetActed (g : Game) : g.resetActed.key = g.key :=
  key_mapP _ _ (by intro p; rfl)
@[simp] theorem key_setActed (g : Game) (i : Nat) : (g.setActed i).key = g.key :=
  key_modP _ _ _ (by intro p; rfl)
@[simp] theorem key_updatePots (g : Game) : g.updatePots.key = g.key := rfl
@[simp] theorem key_calculateGameResults (g : Game) : g.calculateGameResults.key = g.key := rfl

@[simp] theorem key_becomeRaiser (g : Game) (i : Nat) : (g.becomeRaiser i).key = g.key := by
  simp [becomeRaiser]

@[simp] theorem key_payAllin (g : Game) (i : Nat) (p : Player) (w : Bool) : (g.payAllin i p w).key = g.key := by
  have h : ∀ g : Game, (g.modP i goAllin).key = g.key := fun g => key_modP _ _ _ (by intro p; rfl)
  unfold payAllin
  dsimp only
  repeat' split
  all_goals simp [h]

@[simp] theorem key_payPart (g : Game) (i : Nat) (p : Player) (c : Int) (w : Bool) :
    (g.payPart i p c w).key = g.key := by
  have h : ∀ (g : Game) x, (g.modP i (putWager x)).key = g.key := fun g x => key_modP _ _ _ (by intro p; rfl)
  unfold payPart
  dsimp only
  split <;> simp [h]

@[simp] theorem key_pay (g : Game) (i : Nat) (chips : Int) (w : Bool) : (g.pay i chips w).key = g.key := by
  unfold pay
  split
  · rfl
  · split <;> simp

@[simp] theorem key_roundClosed (g : Game) : g.roundClosed.key = g.key := by simp [roundClosed]

@[simp] theorem key_requestPlayerAction (g : Game) : g.requestPlayerAction.key = g.key := by
  unfold requestPlayerAction
  repeat' split
  all_goals simp

@[simp] theorem key_requestReady (g : Game) : g.requestReady.key = g.key := by simp [requestReady]

@[simp] theorem key_prepareRound (g : Game) : g.prepareRound.key = g.key := by
  unfold prepareRound
  repeat' split
  all_goals simp

@[simp] theorem key_requestBlinds (g : Game) : g.requestBlinds.key = g.key := by
  unfold requestBlinds
  split <;> simp

@[simp] theorem key_afterRoundInitialized (g : Game) : g.afterRoundInitialized.key = g.key := by
  unfold afterRoundInitialized
  split <;> simp

@[simp] theorem key_seekBB : ∀ (k : Nat) (g : Game), (seekBB k g).key = g.key
  | 0, g => rfl
  | k + 1, g => by
    unfold seekBB
    split
    · split
      · simp
      · rw [key_seekBB k]; simp
    · simp

@[simp] theorem key_openRound (g : Game) : g.openRound.key = g.key := by simp [openRound]

@[simp] theorem key_startRound' (g : Game) : g.startRound'.key = g.key := by
  unfold startRound'
  repeat' split
  all_goals simp

@[simp] theorem key_startRound (g : Game) : g.startRound.key = g.key := by simp [startRound]

@[simp] theorem key_gameCompleted (g : Game) : g.gameCompleted.key = g.key := by simp [gameCompleted]

@[simp] theorem key_resume (g : Game) : g.resume.key = g.key := by
  unfold resume
  split <;> simp

@[simp] theorem key_payAnteLoop : ∀ (is : List Nat) (g : Game), (payAnteLoop is g).1.key = g.key
  | [], g => rfl
  | i :: is, g => by
    unfold payAnteLoop
    split
    · rfl
    · split
      · rfl
      · rw [key_payAnteLoop is]; simp

@[simp] theorem key_payBlind (g : Game) (i : Nat) : (g.payBlind i).key = g.key := by
  unfold payBlind
  split <;> simp

@[simp] theorem key_foldl_payBlind : ∀ (is : List Nat) (g : Game), (is.foldl payBlind g).key = g.key
  | [], g => rfl
  | i :: is, g => by simp [List.foldl_cons, key_foldl_payBlind is]

@[simp] theorem key_blindsPaid (g : Game) : g.blindsPaid.key = g.key := by simp [blindsPaid]
@[simp] theorem key_doCall (g : Game) (i : Nat) : (g.doCall i).key = g.key := by
  unfold doCall; split <;> simp
@[simp] theorem key_doAllin (g : Game) (i : Nat) : (g.doAllin i).key = g.key := by
  unfold doAllin; split
  · rfl
  · simp only [key_resume, key_pay]; split <;> simp
@[simp] theorem key_doFold (g : Game) (i : Nat) : (g.doFold i).key = g.key := by
  simp [doFold, key_modP _ _ _ (fun p => (rfl : handOf { p with fold := true, acted := true } = handOf p))]
@[simp] theorem key_doBet (g : Game) (i : Nat) (x : Int) : (g.doBet i x).key = g.key := by simp [doBet]
@[simp] theorem key_doRaise (g : Game) (i : Nat) (p : Player) (x : Int) : (g.doRaise i p x).key = g.key := by
  simp [doRaise]


/-! ### The recomputation -/

theorem combFresh_updateCombinations (g : Game) : g.updateCombinations.CombFresh := by
  intro p' hp' pw hpw
  simp only [updateCombinations, mapP, List.mem_map] at hp'
  obtain ⟨p, _, rfl⟩ := hp'
  have hh : ∀ o, (newComb p o).hole = p.hole := by
    intro o; unfold newComb; split <;> rfl
  change playerPower g.opts.lvl g.opts.table g.board (newComb p _).hole g.opts.required = some pw at hpw
  rw [hh] at hpw
  rw [hpw]
  unfold newComb
  split
  · next c pw' hc ho =>
    right
    simp only [Option.some.injEq] at ho
    subst ho
    rfl
  · next hno =>
    left
    cases hc : p.comb with
    | none => rfl
    | some c => exact absurd rfl (hno c pw hc)

theorem combFresh_initializeRound (g : Game) : g.initializeRound.CombFresh := by
  apply combFresh_of_key (g := g.dealStreet.updateCombinations)
  · simp [initializeRound]
  · exact combFresh_updateCombinations _

theorem combFresh_enterRound (g : Game) (r : Round) : (g.enterRound r).CombFresh :=
  combFresh_initializeRound _

/-- Every operation either leaves opts, board, street, hole cards and published combinations
    exactly as they were, or ends by entering a street (`enterRound`). -/
theorem step_key_or_enter (g : Game) (op : Op) :
    (g.step op).1.key = g.key ∨ ∃ (g0 : Game) (r : Round), g0.key = g.key ∧ (g.step op).1 = g0.enterRound r := by
  have hact : ∀ i a x, (g.act i a x).1.key = g.key := by
    intro i a x
    unfold act
    repeat' split
    all_goals simp
  cases op with
  | ready =>
    simp only [step, readyForAll]
    split
    · left; rfl
    · simp only [readiness]
      split
      · split
        · left; simp
        · right; exact ⟨_, _, by simp, rfl⟩
      · left; simp
  | payAnte =>
    simp only [step, payAnte]
    split
    · left; rfl
    · split
      · left; rfl
      · split
        · next g' e h =>
          left
          have := key_payAnteLoop g.seatsFromDealer g
          rw [h] at this
          exact this
        · next g' h =>
          right
          have := key_payAnteLoop g.seatsFromDealer g
          rw [h] at this
          exact ⟨_, _, by simpa using this, rfl⟩
  | payBlinds =>
    simp only [step, payBlinds]
    split
    · left; rfl
    · left; simp
  | next =>
    simp only [step, next]
    split
    · left; rfl
    · split
      · left; rfl
      · simp only [nextRound, nextRound']
        split
        · left; simp
        · split
          · right; exact ⟨_, _, by simp, rfl⟩
          · right; exact ⟨_, _, by simp, rfl⟩
          · right; exact ⟨_, _, by simp, rfl⟩
          · left; simp
          · left; simp
  | act seat a x =>
    cases seat with
    | none => left; exact hact _ _ _
    | some i => left; exact hact _ _ _

theorem combFresh_step (g : Game) (op : Op) (h : g.CombFresh) : (g.step op).1.CombFresh := by
  rcases step_key_or_enter g op with hk | ⟨g0, r, _, he⟩
  · exact combFresh_of_key hk h
  · rw [he]; exact combFresh_enterRound _ _

theorem combFresh_of_board_changed (g : Game) (op : Op) (h : (g.step op).1.board ≠ g.board) :
    (g.step op).1.CombFresh := by
  rcases step_key_or_enter g op with hk | ⟨g0, r, _, he⟩
  · exact absurd (key_eq_iff.mp hk).2.1 h
  · rw [he]; exact combFresh_enterRound _ _

theorem combFresh_of_round_changed (g : Game) (op : Op) (h : (g.step op).1.round ≠ g.round) :
    (g.step op).1.CombFresh := by
  rcases step_key_or_enter g op with hk | ⟨g0, r, _, he⟩
  · exact absurd (key_eq_iff.mp hk).2.2.1 h
  · rw [he]; exact combFresh_enterRound _ _

/-- Invariant of all histories: before the first street nothing is on the board;
    from then on the published combinations are fresh. -/
def CombInv (g : Game) : Prop := (g.round = .none ∧ g.board = []) ∨ g.CombFresh

theorem combInv_step (g : Game) (op : Op) (h : CombInv g) : CombInv (g.step op).1 := by
  rcases step_key_or_enter g op with hk | ⟨g0, r, _, he⟩
  · rcases h with ⟨h1, h2⟩ | h
    · left
      obtain ⟨_, hb, hr, _⟩ := key_eq_iff.mp hk
      exact ⟨hr.trans h1, hb.trans h2⟩
    · right; exact combFresh_of_key hk h
  · right; rw [he]; exact combFresh_enterRound _ _

theorem combInv_run (g : Game) (ops : List Op) (h : CombInv g) : CombInv (g.run ops) := by
  induction ops generalizing g with
  | nil => exact h
  | cons op ops ih => exact ih _ (combInv_step g op h)

/-! ### The showdown -/

end Game

/-- Specification-level: the strength the showdown compares for a player: the published
    `Combination.Power`, or 0 once the player has folded. -/
def showdownStrength (p : Player) : Int :=
  if p.fold then 0 else ((p.comb.map (·.power)).getD 0 : Nat)

/-- Specification-level: the settlement `Result` right before `Calculate()`: one `AddPot` per pot,
    then `AddPlayer` + `UpdateScore(idx, strength)` per player in seat order. -/
def showdownInput (pots : List Pot) (players : List Player) : Result :=
  players.foldl (fun r p => (r.addPlayer p.idx p.bankroll).updateScore p.idx (showdownStrength p))
    (pots.foldl (fun r p => r.addPot p.total p.levels) {})

namespace Game

theorem result_calculateGameResults (g : Game) :
    g.calculateGameResults.result = some (showdownInput g.pots g.players).calculate := by
  simp only [calculateGameResults, gameResults, showdownInput, List.foldl_map, showdownStrength]

theorem players_calculateGameResults (g : Game) : g.calculateGameResults.players = g.players := rfl
theorem pots_calculateGameResults (g : Game) : g.calculateGameResults.pots = g.pots := rfl

theorem result_gameCompleted (g : Game) :
    g.gameCompleted.result = some (showdownInput g.gameCompleted.pots g.gameCompleted.players).calculate := by
  simp only [gameCompleted, setEvent]
  exact result_calculateGameResults _

theorem combInv_start (c : Config) : CombInv (start c).1 := by
  left
  unfold start
  dsimp only
  split
  · exact ⟨rfl, rfl⟩
  · split
    · exact ⟨rfl, rfl⟩
    · split
      · exact ⟨rfl, rfl⟩
      · split
        · exact ⟨rfl, rfl⟩
        · exact ⟨rfl, rfl⟩

end Game
end Pokerface
