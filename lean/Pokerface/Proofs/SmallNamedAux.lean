import Pokerface.Proofs.SMJoin
import Pokerface.Proofs.EvalSort
import Batteries.Data.List.Perm
/-!
  Helper lemmas for `Properties/SmallNamed.lean` (C18 `join_success_seat_was_empty`,
  C03 `ace_low_only_wheel`).
-/
namespace Pokerface

namespace SM

/-- A successful `join(i, p)` (the unexported one) lands on `i`, and seat `i` existed and held nobody. -/
theorem joinAt_ok {sm : SM} {pid i j : Nat} (he : (sm.joinAt pid i).2.1 = none)
    (hl : (sm.joinAt pid i).2.2 = some j) :
    j = i ∧ ∃ s, sm.seats[i]? = some s ∧ s.player = none := by
  rcases joinAt_cases sm pid i with ⟨_, h⟩ | ⟨s, _, _, h⟩ | ⟨s, h1, h2, h⟩
  · rw [h] at he; simp at he
  · rw [h] at he; simp at he
  · rw [h] at hl
    simp at hl
    exact ⟨hl.symm, s, h1, h2⟩

/-- The seats `Join(-1, …)` draws from exist, hold nobody and are not reserved (no well-formedness needed). -/
theorem mem_joinPool_free {sm : SM} {c : Nat} (h : c ∈ sm.joinPool) : Free sm c := by
  unfold joinPool availableSeats at h
  unfold Free
  cases hs : sm.seats[c]? with
  | none => split at h <;> simp [hs] at h
  | some s =>
    refine ⟨s, rfl, ?_⟩
    split at h <;> simp [hs] at h <;> exact ⟨h.2.2.2, h.2.2.1⟩

/-- A successful `Join(seat, p)` is a successful `join(k, p)` where `k` is the seat asked for, or (for
`seat = -1`) the recorded choice, which belongs to the pool `Join(-1)` draws from. -/
theorem step_join_ok {sm : SM} {seat : Int} {pid : Nat} {c : Option Nat}
    (herr : (sm.step (.join seat pid c)).2.1 = none) :
    ∃ k, sm.step (.join seat pid c) = sm.joinAt pid k ∧
      ((0 ≤ seat ∧ k = seat.toNat) ∨ (seat = -1 ∧ k ∈ sm.joinPool)) := by
  rw [step_join_eq] at herr ⊢
  by_cases h1 : seat ≥ (sm.max : Int) ∨ seat < -1
  · rw [if_pos h1] at herr; simp at herr
  · rw [if_neg h1] at herr ⊢
    by_cases h2 : seat > -1
    · rw [if_pos h2]
      exact ⟨_, rfl, Or.inl ⟨by omega, rfl⟩⟩
    · rw [if_neg h2] at herr ⊢
      by_cases h3 : (sm.availableSeats.1.isEmpty && sm.availableSeats.2.isEmpty) = true
      · rw [if_pos h3] at herr; simp at herr
      · rw [if_neg h3] at herr ⊢
        cases c with
        | none => simp at herr
        | some c =>
          simp only at herr ⊢
          by_cases h4 : sm.joinPool.contains c = true
          · rw [if_pos h4]
            exact ⟨c, rfl, Or.inr ⟨by omega, by simpa using h4⟩⟩
          · rw [if_neg h4] at herr; simp at herr

end SM

namespace C03

theorem run_nodup {t : Nat} (h5 : 5 ≤ t) (h14 : t ≤ 14) : (run t).Nodup := by
  have : t = 5 ∨ t = 6 ∨ t = 7 ∨ t = 8 ∨ t = 9 ∨ t = 10 ∨ t = 11 ∨ t = 12 ∨ t = 13 ∨ t = 14 := by omega
  rcases this with rfl | rfl | rfl | rfl | rfl | rfl | rfl | rfl | rfl | rfl <;> decide

theorem run_length (t : Nat) : (run t).length = 5 := by
  unfold run; split <;> rfl

/-- A five-element list in which every rank of `run t` occurs once is a rearrangement of `run t`. -/
theorem perm_run_of_all {rs : List Nat} {t : Nat} (h5 : 5 ≤ t) (h14 : t ≤ 14) (hl : rs.length = 5)
    (ha : (run t).all (fun r => rs.count r == 1) = true) : rs.Perm (run t) := by
  have hsub : run t ⊆ rs := by
    intro r hr
    have := List.all_eq_true.mp ha r hr
    have h1 : rs.count r = 1 := by simpa using this
    exact List.count_pos_iff.mp (by omega)
  have sp := List.subperm_of_subset (run_nodup h5 h14) hsub
  exact (sp.perm_of_length_le (by rw [hl, run_length])).symm

theorem straightTop_some {rs : List Nat} {t : Nat} (h : straightTop rs = some t) :
    (5 ≤ t ∧ t ≤ 14) ∧ (run t).all (fun r => rs.count r == 1) = true := by
  unfold straightTop at h
  have hm := List.mem_of_find?_eq_some h
  have hp := List.find?_some h
  refine ⟨?_, hp⟩
  simp at hm
  omega

/-- The straight with top card `t` is a straight of the specification, with top card `t`. -/
theorem straightTop_run {t : Nat} (h5 : 5 ≤ t) (h14 : t ≤ 14) : straightTop (run t) = some t := by
  have : t = 5 ∨ t = 6 ∨ t = 7 ∨ t = 8 ∨ t = 9 ∨ t = 10 ∨ t = 11 ∨ t = 12 ∨ t = 13 ∨ t = 14 := by omega
  rcases this with rfl | rfl | rfl | rfl | rfl | rfl | rfl | rfl | rfl | rfl <;> decide

theorem specCat_run {t : Nat} (h5 : 5 ≤ t) (h14 : t ≤ 14) (fl : Bool) :
    specCat (run t) fl = if fl then .straightFlush else .straight := by
  have : t = 5 ∨ t = 6 ∨ t = 7 ∨ t = 8 ∨ t = 9 ∨ t = 10 ∨ t = 11 ∨ t = 12 ∨ t = 13 ∨ t = 14 := by omega
  rcases this with rfl | rfl | rfl | rfl | rfl | rfl | rfl | rfl | rfl | rfl <;> cases fl <;> decide

/-- The specified category is a straight only when `straightTop` finds a top card. -/
theorem straightTop_of_specCat {rs : List Nat} {fl : Bool}
    (h : specCat rs fl = .straight ∨ specCat rs fl = .straightFlush) : ∃ t, straightTop rs = some t := by
  unfold specCat at h
  split at h <;> try (rcases h with h | h <;> cases h)
  split at h <;> first | exact ⟨_, ‹straightTop rs = some _›⟩ | (rcases h with h | h <;> cases h)

end C03
end Pokerface
