/-
  RE-ENTRIES: a player who was eliminated registers again under the same name.

  The Go regulator knows names, not identities: `AddPlayers` accepts any list of names.  The
  domains `RSys.ReachableAny` / `ASys.AReachable` demand that a registered name was NEVER
  registered before (`p ∉ env.registered`).  Here the demand is weakened to "the name is not
  that of a player who is in the competition NOW" (`p ∉ env.alive`): `RSys.okRe`, `ASys.okRe`,
  `RSys.ReachableRe`, `ASys.AReachableRe`.

  The invariants `SInv0` / `AInv` of the existing proofs are invariants of the wider domains as
  they stand: their only use of freshness, in the `add` step, is "the new names are not alive"
  (obtained there from `p ∉ registered` and `alive ⊆ registered`); `registered` (a ghost list,
  which now may hold a name several times) still contains `alive` and is still at least as long.
  So only the `add` step is re-proved; `status`, `sync`, `report` steps are the old lemmas.
-/
import Pokerface.Proofs.RegAsyncProps
import Pokerface.Proofs.RegTotal

namespace Pokerface
open Reg

namespace RSys

/-- Validity of an operation, widest domain WITH RE-ENTRIES: exactly `okAny`, except that the names
    of a registration need not be new for ever, only not those of players currently alive
    (registered and not eliminated): an eliminated player's name may be registered again. -/
def okRe (s : RSys) : EOp → Prop
  | .add ps ch =>
      ps.Nodup ∧ (∀ p ∈ ps, p ∉ s.env.alive) ∧ (s.r.addPlayers ps ch).1.badChoice = false
  | .status st ch => s.okAny (.status st ch)
  | .sync t elim stay rel keep ch => s.okAny (.sync t elim stay rel keep ch)

instance (s : RSys) (op : EOp) : Decidable (s.okRe op) := by
  cases op <;> simp only [okRe] <;> infer_instance

/-- States reachable from a fresh regulator with any setting `1 ≤ max` by operations valid in the
    sense `okRe` (any status order, re-entries allowed). -/
inductive ReachableRe : RSys → Prop
  | init (max min : Nat) (h1 : 1 ≤ max) : ReachableRe (init max min)
  | step {s : RSys} (op : EOp) : ReachableRe s → s.okRe op → ReachableRe (s.step op)

/-- every operation of the script is valid in the sense `okRe` when its turn comes -/
def allOkRe : RSys → List EOp → Prop
  | _, [] => True
  | s, op :: ops => s.okRe op ∧ allOkRe (s.step op) ops

instance decAllOkRe : (s : RSys) → (ops : List EOp) → Decidable (allOkRe s ops)
  | _, [] => isTrue trivial
  | s, op :: ops =>
    match (inferInstance : Decidable (s.okRe op)), decAllOkRe (s.step op) ops with
    | isTrue h1, isTrue h2 => isTrue ⟨h1, h2⟩
    | isFalse h1, _ => isFalse fun h => h1 h.1
    | _, isFalse h2 => isFalse fun h => h2 h.2

theorem ReachableRe.run {s : RSys} (h : ReachableRe s) :
    ∀ (ops : List EOp), allOkRe s ops → ReachableRe (s.run ops) := by
  intro ops
  induction ops generalizing s with
  | nil => intro _; exact h
  | cons op ops ih => intro hok; exact ih (ReachableRe.step op h hok.1) hok.2

/-- the `add` step of `SInv0` from "the new names are not alive" alone -/
theorem SInv0.step_add_re {s : RSys} (h : SInv0 s) (ps ch : List Nat) (hok : s.okRe (.add ps ch)) :
    SInv0 (s.step (.add ps ch)) ∧ StepFacts s (.add ps ch) := by
  obtain ⟨hnd, hdisj, hbad⟩ := hok
  by_cases hs : s.r.status = .afterRegDeadline
  · have heq : s.r.addPlayers ps ch = (s.r.beginOp ch, some .afterRegDeadline) := by
      unfold Reg.addPlayers
      have : (s.r.beginOp ch).status = .afterRegDeadline := hs
      simp only [this, if_true]
    refine ⟨?_, ?_⟩
    · simp only [step, heq]
      exact ⟨h.rinv.beginOp ch, h.sim, h.cons, h.nodup, h.sub, h.lenle⟩
    · refine StepFacts.of_eq (r' := s.r.beginOp ch) (e' := s.env) (base := s.env.members) (inc := []) (ret := [])
        (by simp only [step, heq]) rfl (by simp only [incoming, heq]; rfl) rfl
        rfl rfl rfl trivial h.ids_nodup ?_ ?_ rfl ?_
      · intro id qs hm; simp [Reg.beginOp] at hm
      · simp [Reg.beginOp]
      · intro id qs hm; simp [Reg.beginOp] at hm
  · obtain ⟨he, hri, hx, hst, hpc⟩ := addPlayers_spec0 s.r ps ch h.rinv hs hbad
    have heq : s.r.addPlayers ps ch = ((s.r.addPlayers ps ch).1, none) := Prod.ext rfl he
    generalize (s.r.addPlayers ps ch).1 = r' at *
    obtain ⟨hsim', hseat'⟩ := opext_env hx h.sim h.ids_nodup
    refine ⟨?_, ?_⟩
    rotate_left
    · refine StepFacts.of_eq (r' := r') (base := s.env.members) (inc := ps) (ret := [])
        (by simp only [step, heq]; rfl) rfl (by simp only [incoming, heq]; rfl) rfl
        hx.max_eq hx.min_eq rfl (h.sim ▸ hx.valid) h.ids_nodup hx.reqmax ?_ hst hx.newids
      simpa using hx.queue
    simp only [step, heq]
    refine ⟨hri, hsim', ?_, ?_, ?_, ?_⟩
    · rw [List.perm_iff_count]
      intro a
      have c1 := h.cons.count_eq a
      have c2 := hseat'.count_eq a
      have c3 := congrArg (List.count a) hx.queue
      simp only [List.count_append] at c1 c2 c3 ⊢
      omega
    · rw [List.nodup_append]
      refine ⟨h.nodup, hnd, ?_⟩
      intro a ha b hb hab
      subst hab
      exact hdisj a hb ha
    · intro p hp
      rcases List.mem_append.1 hp with h1 | h1
      · exact List.mem_append_left _ (h.sub p h1)
      · exact List.mem_append_right _ h1
    · simp only [List.length_append]; have := h.lenle; omega

theorem SInv0.step_full_re {s : RSys} (h : SInv0 s) (op : EOp) (hok : s.okRe op) :
    SInv0 (s.step op) ∧ StepFacts s op := by
  cases op with
  | add ps ch => exact h.step_add_re ps ch hok
  | status st ch => exact h.step_status st ch hok
  | sync t elim stay rel keep ch => exact h.step_sync t elim stay rel keep ch hok

/-- the invariant of the widest domain holds on the domain with re-entries -/
theorem SInv0.of_reachableRe {s : RSys} (h : ReachableRe s) : SInv0 s := by
  induction h with
  | init max min _ => exact SInv0.init max min
  | step op _ hok ih => exact (ih.step_full_re op hok).1

/-- in a state satisfying the invariant, an operation valid without re-entries is valid with -/
theorem SInv0.okRe_of_okAny {s : RSys} (h : SInv0 s) {op : EOp} (hok : s.okAny op) : s.okRe op := by
  cases op with
  | status st ch => exact hok
  | sync t elim stay rel keep ch => exact hok
  | add ps ch =>
    obtain ⟨hnd, hfresh, hbad⟩ : s.ok (.add ps ch) := hok
    exact ⟨hnd, fun p hp ha => hfresh p hp (h.sub p ha), hbad⟩

/-- the domain with re-entries contains the domain without -/
theorem ReachableAny.re {s : RSys} (h : ReachableAny s) : ReachableRe s := by
  induction h with
  | init max min h1 => exact .init max min h1
  | step op hr hok ih => exact .step op ih ((SInv0.of_reachable hr).okRe_of_okAny hok)

/-- totality: every batch of distinct names of players not currently alive can be registered -/
theorem SInv0.add_total_re {s : RSys} (h : SInv0 s) (ps : List Nat) (hnd : ps.Nodup)
    (hfree : ∀ p ∈ ps, p ∉ s.env.alive) : ∃ ch, s.okRe (.add ps ch) := by
  obtain ⟨ch, hch⟩ := addPlayers_total s.r ps h.rinv.wf
  exact ⟨ch, hnd, hfree, hch⟩

end RSys

namespace ASys

/-- Validity of an asynchronous operation WITH RE-ENTRIES: exactly `ASys.ok`, except that the names
    of a registration need only not be those of players currently alive (at a table, queued, or on
    the way back). -/
def okRe (s : ASys) : AOp → Prop
  | .add ps ch =>
      ps.Nodup ∧ (∀ p ∈ ps, p ∉ s.env.alive) ∧ (s.r.addPlayers ps ch).1.badChoice = false
  | .status st ch => s.ok (.status st ch)
  | .sync t elim stay rel keep => s.ok (.sync t elim stay rel keep)
  | .report t ps rest ch => s.ok (.report t ps rest ch)

instance (s : ASys) (op : AOp) : Decidable (s.okRe op) := by
  cases op <;> simp only [okRe] <;> infer_instance

/-- asynchronous histories with re-entries -/
inductive AReachableRe : ASys → Prop
  | init (max min : Nat) (h1 : 1 ≤ max) : AReachableRe (init max min)
  | step {s : ASys} (op : AOp) : AReachableRe s → s.okRe op → AReachableRe (s.step op)

def allOkRe : ASys → List AOp → Prop
  | _, [] => True
  | s, op :: ops => s.okRe op ∧ allOkRe (s.step op) ops

instance decAllOkRe : (s : ASys) → (ops : List AOp) → Decidable (allOkRe s ops)
  | _, [] => isTrue trivial
  | s, op :: ops =>
    match (inferInstance : Decidable (s.okRe op)), decAllOkRe (s.step op) ops with
    | isTrue h1, isTrue h2 => isTrue ⟨h1, h2⟩
    | isFalse h1, _ => isFalse fun h => h1 h.1
    | _, isFalse h2 => isFalse fun h => h2 h.2

theorem AReachableRe.run {s : ASys} (h : AReachableRe s) :
    ∀ (ops : List AOp), allOkRe s ops → AReachableRe (s.run ops) := by
  intro ops
  induction ops generalizing s with
  | nil => intro _; exact h
  | cons op ops ih => intro hok; exact ih (AReachableRe.step op h hok.1) hok.2

/-- the `add` step of `AInv` from "the new names are not alive" alone -/
theorem AInv.step_add_re {s : ASys} (h : AInv s) (ps ch : List Nat) (hok : s.okRe (.add ps ch)) :
    AInv (s.step (.add ps ch)) ∧ AStepFacts s (.add ps ch) := by
  obtain ⟨hnd, hdisj, hbad⟩ := hok
  by_cases hs : s.r.status = .afterRegDeadline
  · have heq : s.r.addPlayers ps ch = (s.r.beginOp ch, some .afterRegDeadline) := by
      unfold Reg.addPlayers
      have : (s.r.beginOp ch).status = .afterRegDeadline := hs
      simp only [this, if_true]
    have hstep : s.step (.add ps ch) = { r := s.r.beginOp ch, env := s.env, inflight := s.inflight } := by
      simp only [step, heq]
    refine ⟨hstep ▸ h.scratch ch, AStepFacts.of_eq (inc := []) (ret := []) (dep := []) hstep
      (by simp only [incoming, heq]; rfl) rfl rfl rfl rfl ?_ rfl ?_ ?_ ?_⟩
    · simp [Reg.beginOp, handed]
    · simp [reported, flying_eq]
    · intro id qs hm; simp [Reg.beginOp] at hm
    · intro id qs hm; simp [Reg.beginOp] at hm
  · obtain ⟨he, hwf', hx, hst, hpc⟩ := addPlayers_specA s.r ps ch h.wf hs hbad
    have heq : s.r.addPlayers ps ch = ((s.r.addPlayers ps ch).1, none) := Prod.ext rfl he
    have hinc : s.incoming (.add ps ch) = ps := by simp only [incoming, he]; rfl
    have hstep : s.step (.add ps ch) =
        { r := (s.r.addPlayers ps ch).1,
          env := { members := Env.applyCalls s.env.members (s.r.addPlayers ps ch).1.calls,
                   alive := s.env.alive ++ ps, registered := s.env.registered ++ ps },
          inflight := s.inflight } := by
      simp only [step]; rw [heq]
    generalize (s.r.addPlayers ps ch).1 = r' at *
    obtain ⟨hsim', hseat'⟩ := opext_env hx h.sim h.ids_nodup
    have hc := hx.cnt0 h.wf
    refine ⟨hstep ▸ AInv.of_parts hwf' ?_ hsim' ?_ ?_ ?_ ?_,
      AStepFacts.of_eq (ret := []) (dep := []) hstep hinc rfl rfl hx.max_eq hx.min_eq ?_ hst ?_ hx.reqmax hx.newids⟩
    · rw [hpc, h.cnt, flying_eq]; omega
    · rw [List.perm_iff_count]
      intro a
      have c1 := h.cons.count_eq a
      have c2 := hseat'.count_eq a
      have c3 := congrArg (List.count a) hx.queue
      rw [flying_eq] at c1
      simp only [List.count_append] at c1 c2 c3 ⊢
      omega
    · rw [List.nodup_append]
      refine ⟨h.nodup, hnd, ?_⟩
      intro a ha b hb hab
      subst hab
      exact hdisj a hb ha
    · intro p hp
      rcases List.mem_append.1 hp with h1 | h1
      · exact List.mem_append_left _ (h.sub p h1)
      · exact List.mem_append_right _ h1
    · simp only [List.length_append]; have := h.lenle; omega
    · simpa using hx.queue
    · simp [reported, flying_eq]

theorem AInv.step_full_re {s : ASys} (h : AInv s) (op : AOp) (hok : s.okRe op) :
    AInv (s.step op) ∧ AStepFacts s op := by
  cases op with
  | add ps ch => exact h.step_add_re ps ch hok
  | status st ch => exact h.step_status st ch hok
  | sync t elim stay rel keep => exact h.step_sync t elim stay rel keep hok
  | report t ps rest ch => exact h.step_report t ps rest ch hok

theorem AInv.of_reachableRe {s : ASys} (h : AReachableRe s) : AInv s := by
  induction h with
  | init max min _ => exact AInv.init max min
  | step op _ hok ih => exact (ih.step_full_re op hok).1

theorem AInv.okRe_of_ok {s : ASys} (h : AInv s) {op : AOp} (hok : s.ok op) : s.okRe op := by
  cases op with
  | status st ch => exact hok
  | sync t elim stay rel keep => exact hok
  | report t ps rest ch => exact hok
  | add ps ch =>
    obtain ⟨hnd, hfresh, hbad⟩ := hok
    exact ⟨hnd, fun p hp ha => hfresh p hp (h.sub p ha), hbad⟩

/-- the asynchronous domain with re-entries contains the one without -/
theorem AReachable.re {s : ASys} (h : AReachable s) : AReachableRe s := by
  induction h with
  | init max min h1 => exact .init max min h1
  | step op hr hok ih => exact .step op ih ((AInv.of_reachable hr).okRe_of_ok hok)

/-- every synchronous history with re-entries is an asynchronous history with re-entries -/
theorem AReachableRe.ofRSys {s : RSys} (h : RSys.ReachableRe s) : AReachableRe (ASys.ofRSys s) := by
  induction h with
  | init max min h1 => exact .init max min h1
  | @step s op hr hok ih =>
    rw [← run_expand s op]
    refine ih.run _ ?_
    have hS := RSys.SInv0.of_reachableRe hr
    cases op with
    | add ps ch => exact ⟨hok, trivial⟩
    | status st ch =>
      have := allOk_expand s (.status st ch) hok
      exact ⟨this.1, trivial⟩
    | sync t elim stay rel keep ch =>
      have hall := allOk_expand s (.sync t elim stay rel keep ch) hok
      generalize expand s (.sync t elim stay rel keep ch) = l at hall
      have hA : ∀ (l : List AOp) (a : ASys), AInv a → a.allOk l → a.allOkRe l := by
        intro l
        induction l with
        | nil => intro _ _ _; trivial
        | cons op l ihl =>
          intro a ha hk
          exact ⟨ha.okRe_of_ok hk.1, ihl _ (ha.step_full op hk.1).1 hk.2⟩
      exact hA l _ (AInv.ofRSys hS) hall

theorem AInv.add_total_re {s : ASys} (h : AInv s) (ps : List Nat) (hnd : ps.Nodup)
    (hfree : ∀ p ∈ ps, p ∉ s.env.alive) : ∃ ch, s.okRe (.add ps ch) := by
  obtain ⟨ch, hch⟩ := addPlayers_total s.r ps h.wf
  exact ⟨ch, hnd, hfree, hch⟩

end ASys
end Pokerface
