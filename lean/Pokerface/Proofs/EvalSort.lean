import Pokerface.Model.Eval
import Pokerface.Properties.C03Spec
/-!
  C03, step (ii): Go's insertion sort yields a sorted permutation; the flush test
  and the specification do not depend on the order of the cards.
-/
namespace Pokerface.C03
open List

theorem insertBy_perm {α : Type} (lt : α → α → Bool) (x : α) (l : List α) :
    (insertBy lt x l).Perm (x :: l) := by
  induction l with
  | nil => exact .refl _
  | cons y ys ih =>
    unfold insertBy
    split
    · exact .refl _
    · exact (ih.cons y).trans (List.Perm.swap x y ys)

theorem foldl_insertBy_perm {α : Type} (lt : α → α → Bool) (l acc : List α) :
    (l.foldl (fun acc x => insertBy lt x acc) acc).Perm (l ++ acc) := by
  induction l generalizing acc with
  | nil => exact .refl _
  | cons x xs ih =>
    simp only [List.foldl_cons]
    refine (ih _).trans ?_
    refine (List.Perm.append_left xs (insertBy_perm lt x acc)).trans ?_
    exact List.perm_middle

theorem isort_perm {α : Type} (lt : α → α → Bool) (l : List α) : (isort lt l).Perm l := by
  have := foldl_insertBy_perm lt l []
  simpa [isort] using this

/-- Inserting into a list sorted by a key (descending) keeps it sorted. -/
theorem insertBy_sorted {α : Type} (k : α → Nat) (x : α) (l : List α)
    (hl : l.Pairwise (fun a b => k a ≥ k b)) :
    (insertBy (fun a b => decide (k a > k b)) x l).Pairwise (fun a b => k a ≥ k b) := by
  induction l with
  | nil => simp [insertBy]
  | cons y ys ih =>
    rw [List.pairwise_cons] at hl
    unfold insertBy
    split
    · rename_i hxy
      have hxy : k x > k y := by simpa using hxy
      refine List.pairwise_cons.2 ⟨?_, List.pairwise_cons.2 hl⟩
      intro z hz
      rcases List.mem_cons.1 hz with rfl | hz
      · omega
      · have := hl.1 z hz; omega
    · rename_i hxy
      have hxy : ¬ k x > k y := by simpa using hxy
      refine List.pairwise_cons.2 ⟨?_, ih hl.2⟩
      intro z hz
      have hz' := (insertBy_perm _ x ys).mem_iff.1 hz
      rcases List.mem_cons.1 hz' with rfl | hz'
      · omega
      · exact hl.1 z hz'

theorem foldl_insertBy_sorted {α : Type} (k : α → Nat) (l acc : List α)
    (hacc : acc.Pairwise (fun a b => k a ≥ k b)) :
    (l.foldl (fun acc x => insertBy (fun a b => decide (k a > k b)) x acc) acc).Pairwise
      (fun a b => k a ≥ k b) := by
  induction l generalizing acc with
  | nil => exact hacc
  | cons x xs ih => exact ih _ (insertBy_sorted k x acc hacc)

theorem sortCards_perm (h : List Card) : (sortCards h).Perm h := isort_perm _ h

theorem sortCards_sorted (h : List Card) :
    ((sortCards h).map (·.rank)).Pairwise (fun a b => a ≥ b) := by
  rw [List.pairwise_map]
  exact foldl_insertBy_sorted (fun c : Card => c.rank) h [] List.Pairwise.nil

/-! ### the flush flag -/

theorem sameSuit_iff (h : List Card) :
    sameSuit h = true ↔ ∀ c ∈ h, ∀ d ∈ h, c.suit = d.suit := by
  simp [sameSuit, List.all_eq_true]

theorem sameSuit_perm {h h' : List Card} (p : h.Perm h') : sameSuit h = sameSuit h' := by
  rw [Bool.eq_iff_iff, sameSuit_iff, sameSuit_iff]
  constructor
  · intro H c hc d hd; exact H c (p.mem_iff.2 hc) d (p.mem_iff.2 hd)
  · intro H c hc d hd; exact H c (p.mem_iff.1 hc) d (p.mem_iff.1 hd)

theorem isFlush_eq_sameSuit (h : List Card) (hne : h ≠ []) : isFlush h = sameSuit h := by
  cases h with
  | nil => exact absurd rfl hne
  | cons c t =>
    rw [Bool.eq_iff_iff, sameSuit_iff]
    simp only [isFlush, List.all_eq_true, beq_iff_eq]
    constructor
    · intro H x hx y hy; rw [H x hx, H y hy]
    · intro H d hd; exact H d hd c (List.mem_cons_self ..)

/-! ### the specification depends on the multiset of ranks only -/

theorem ranksWith_perm {rs rs' : List Nat} (p : rs.Perm rs') (k : Nat) :
    ranksWith rs k = ranksWith rs' k := by
  simp only [ranksWith, p.count_eq]

theorem straightTop_perm {rs rs' : List Nat} (p : rs.Perm rs') :
    straightTop rs = straightTop rs' := by
  simp only [straightTop, p.count_eq]

theorem specCat_perm {rs rs' : List Nat} (p : rs.Perm rs') (fl : Bool) :
    specCat rs fl = specCat rs' fl := by
  simp only [specCat, ranksWith_perm p, straightTop_perm p]

theorem specTiebreak_perm {rs rs' : List Nat} (p : rs.Perm rs') :
    specTiebreak rs = specTiebreak rs' := by
  simp only [specTiebreak, ranksWith_perm p, straightTop_perm p]

end Pokerface.C03
