import Pokerface.Model.Combos
/-
  C10, part 3: the first element of ANY descending-sorted permutation of the scored
  selections is a maximal one; the model's `bestPower` picks a maximal one.
-/
namespace Pokerface

/-- Specification-level: `l'` is a possible outcome of `sort.Slice(l, Score >)`:
    a permutation of `l` in which scores never increase. -/
def SortedDescPermOf (l l' : List Power) : Prop :=
  l'.Perm l ∧ l'.Pairwise (fun a b => a.score ≥ b.score)

theorem head_of_sortedDescPerm {l l' : List Power} (h : SortedDescPermOf l l') {p : Power}
    (hp : l'.head? = some p) : p ∈ l ∧ ∀ q ∈ l, q.score ≤ p.score := by
  obtain ⟨hperm, hsort⟩ := h
  cases l' with
  | nil => simp at hp
  | cons a t =>
    simp only [List.head?_cons, Option.some.injEq] at hp
    subst hp
    refine ⟨hperm.mem_iff.mp (List.mem_cons_self ..), ?_⟩
    intro q hq
    have hq' : q ∈ a :: t := hperm.mem_iff.mpr hq
    rcases List.mem_cons.mp hq' with rfl | hqt
    · exact Nat.le_refl _
    · exact (List.pairwise_cons.mp hsort).1 q hqt

theorem sortedDescPerm_head_isSome {l l' : List Power} (h : SortedDescPermOf l l') (hne : l ≠ []) :
    l'.head?.isSome := by
  cases l' with
  | nil => exact absurd (h.1.symm.eq_nil) hne
  | cons a t => rfl

theorem bestPower_eq_none {l : List Power} : bestPower l = none ↔ l = [] := by
  induction l with
  | nil => simp [bestPower]
  | cons p ps ih =>
    simp only [bestPower, reduceCtorEq, iff_false]
    split
    · simp
    · split <;> simp

theorem bestPower_spec {l : List Power} {p : Power} (h : bestPower l = some p) :
    p ∈ l ∧ ∀ q ∈ l, q.score ≤ p.score := by
  induction l generalizing p with
  | nil => simp [bestPower] at h
  | cons a t ih =>
    simp only [bestPower] at h
    split at h
    · next hn =>
      have := bestPower_eq_none.mp hn
      subst this
      simp only [Option.some.injEq] at h
      subst h
      simp
    · next q hq =>
      have ⟨hm, hmax⟩ := ih hq
      split at h
      · next hgt =>
        simp only [Option.some.injEq] at h
        subst h
        refine ⟨List.mem_cons_of_mem _ hm, ?_⟩
        intro r hr
        rcases List.mem_cons.mp hr with rfl | hr
        · omega
        · exact hmax r hr
      · next hgt =>
        simp only [Option.some.injEq] at h
        subst h
        refine ⟨List.mem_cons_self .., ?_⟩
        intro r hr
        rcases List.mem_cons.mp hr with rfl | hr
        · exact Nat.le_refl _
        · have := hmax r hr
          omega

/-- The model's choice is the head of one particular sorted permutation — so the model's
    `bestPower` is one of the outcomes `sort.Slice` may produce. -/
theorem bestPower_is_sorted_head {l : List Power} {p : Power} (h : bestPower l = some p) :
    ∃ l', SortedDescPermOf l l' ∧ l'.head? = some p := by
  have ⟨hm, hmax⟩ := bestPower_spec h
  obtain ⟨s, t, rfl⟩ := List.append_of_mem hm
  let le : Power → Power → Bool := fun a b => decide (a.score ≥ b.score)
  refine ⟨p :: (s ++ t).mergeSort le, ⟨?_, ?_⟩, rfl⟩
  · exact ((List.mergeSort_perm _ _).cons p).trans List.perm_middle.symm
  · rw [List.pairwise_cons]
    constructor
    · intro q hq
      rw [List.mem_mergeSort, List.mem_append] at hq
      apply hmax
      rcases hq with hq | hq
      · exact List.mem_append_left _ hq
      · exact List.mem_append_right _ (List.mem_cons_of_mem _ hq)
    · have := List.pairwise_mergeSort (le := le)
        (by intro a b c; simp only [le, decide_eq_true_eq]; omega)
        (by intro a b; simp only [le, Bool.or_eq_true, decide_eq_true_eq]; omega) (s ++ t)
      exact this.imp (by intro a b; simp [le])

end Pokerface
