/-
  C20, the small bound: `SyncState(t, 0)` against the potential.
-/
import Pokerface.Proofs.RegSweepRelease

namespace Pokerface
namespace Reg

theorem SameSheet.phi {r r' : Reg} (h : SameSheet r r') (hq : r'.queue = r.queue) : phi r' = phi r := by
  unfold Reg.phi qind; rw [h.psi, h.Ds, hq]

theorem beginOp_sheet (r : Reg) (ch : List Nat) : SameSheet r (r.beginOp ch) := ⟨rfl, rfl, rfl, rfl⟩

/-- all tables covered: the `Required`s add up to at least the total deficit -/
theorem deficit_le_required (F : Int) (ts : List RTable) (h : tot (uF F) ts = 0) (hr : ∀ t ∈ ts, 0 ≤ t.required) :
    tot (eF F) ts ≤ tot rF ts := by
  apply tot_le_tot
  intro t ht
  have h1 := tot_eq_zero h t ht
  have h2 := hr t ht
  simp only [uF] at h1
  simp only [eF, rF]
  split at h1
  · omega
  · omega

/-- the three ways `SyncState(t, 0)` can go, each with its effect on the potential:
    nothing or a top-up from the queue; a break; a release. -/
theorem syncState_phi (r : Reg) (t : Nat) (t0 : RTable) (h : RInv r) (hf : r.findTable t = some t0) :
    ((r.syncState t 0).2.2.1 = 0 ∧ (r.syncState t 0).1.findTable t ≠ none ∧
        phi (r.syncState t 0).1 ≤ phi r ∧
        ((r.syncState t 0).2.2.2 ≠ [] → phi (r.syncState t 0).1 + 1 ≤ phi r)) ∨
    ((r.syncState t 0).1.findTable t = none ∧ (r.syncState t 0).2.2.2 = [] ∧
        psi1 (r.syncState t 0).1 + 2 ≤ psi r ∧ Ds (r.syncState t 0).1 ≤ Ds r) ∨
    ((r.syncState t 0).2.2.2 = [] ∧ 1 ≤ (r.syncState t 0).2.2.1 ∧ (r.syncState t 0).1.findTable t ≠ none ∧
        psi (r.syncState t 0).1 + (r.syncState t 0).2.2.1.toNat = psi r ∧
        psi1 (r.syncState t 0).1 + (r.syncState t 0).2.2.1.toNat = psi1 r ∧
        Ds (r.syncState t 0).1 = Ds r ∧ (calm (r.syncState t 0).1 ↔ calm r) ∧
        (calm r → (r.syncState t 0).1.queue.length + (r.syncState t 0).2.2.1.toNat ≤
          tot rF (r.syncState t 0).1.tables)) := by
  obtain ⟨ht0, hid0⟩ := findTable_some hf
  have hbt := h.wf.bnd t0 ht0
  have hidm : t ∈ r.tables.map (·.id) := List.mem_map.2 ⟨t0, ht0, hid0⟩
  have hpc0 : 0 ≤ r.playerCount := by
    rw [h.cnt]
    have := sumCount_nonneg r.tables (fun t ht => (h.wf.bnd t ht).1)
    omega
  rw [syncState_eq, hf]
  simp only
  rw [syncBase_zero, Int.sub_zero]
  have e1 : (r.beginOp []).requiredTables = r.requiredTables := rfl
  have e2 : (r.beginOp []).tableCount = r.tableCount := rfl
  have e3 : (r.beginOp []).playerCount = r.playerCount := rfl
  have hfb : (r.beginOp []).findTable t = some t0 := hf
  have hshb := beginOp_sheet r []
  have hsame : (0 : Int) = 0 ∧ (r.beginOp []).findTable t ≠ none ∧ phi (r.beginOp []) ≤ phi r ∧
      (([] : List Nat) ≠ [] → phi (r.beginOp []) + 1 ≤ phi r) := by
    refine ⟨rfl, ?_, ?_, fun hh => absurd rfl hh⟩
    · rw [hfb]; intro hh; cases hh
    · rw [hshb.phi rfl]; exact Nat.le_refl _
  -- a break
  have hbreak : r.requiredTables < r.tableCount →
      ((r.beginOp []).breakTable t).findTable t = none ∧ ([] : List Nat) = [] ∧
      psi1 ((r.beginOp []).breakTable t) + 2 ≤ psi r ∧ Ds ((r.beginOp []).breakTable t) ≤ Ds r := by
    intro hlt
    have hsn : SameNeeds r ((r.beginOp []).breakTable t) := ⟨rfl, rfl⟩
    have hF : flr ((r.beginOp []).breakTable t) = flr r := flr_same hsn
    have htab : ((r.beginOp []).breakTable t).tables = r.tables.filter (fun x => x.id != t) := rfl
    have hg := tot_filter_ne (gF (flr r)) r.tables h.wf.nodup ht0 hid0
    have hd := tot_filter_ne (dF (flr r)) r.tables h.wf.nodup ht0 hid0
    have hl := filter_ne_length r.tables h.wf.nodup ht0 hid0
    have hnc : ¬ calm r := fun c => by have := c.1; omega
    refine ⟨breakTable_find _ t, rfl, ?_, ?_⟩
    · unfold psi1 psi
      rw [TP_not_calm hnc]
      have a1 : Gs ((r.beginOp []).breakTable t) ≤ Gs r := by unfold Gs; rw [hF, htab]; omega
      have a2 : dTR ((r.beginOp []).breakTable t) + 1 = dTR r := by
        unfold dTR
        show ((r.tableCount - 1 - r.requiredTables).toNat + 1 = _)
        omega
      have a3 : dRT ((r.beginOp []).breakTable t) = 0 := by
        unfold dRT
        show (r.requiredTables - (r.tableCount - 1)).toNat = 0
        omega
      have a4 : dRT r = 0 := by unfold dRT; omega
      rw [a3, a4, htab]
      simp only [Nat.mul_zero, Nat.add_zero]
      omega
    · unfold Ds; rw [hF, htab]; omega
  split
  · rename_i hc
    exact Or.inr (Or.inl (hbreak (by omega)))
  · split
    · exact Or.inl hsame
    · rename_i hreq
      have hreq' : 0 < r.requiredTables := by omega
      split
      · rename_i hlow
        split
        · rename_i hc
          exact Or.inr (Or.inl (hbreak (by omega)))
        · -- top-up from the queue
          left
          rw [take_norm]
          have hle : t0.count ≤ flr r := le_floor_of_mul_lt hreq' hlow
          have hflr : (r.beginOp []).playerCount / (r.beginOp []).requiredTables = flr r := rfl
          rw [hflr]
          have hbq : (r.beginOp []).queue = r.queue := rfl
          have hbtab : (r.beginOp []).tables = r.tables := rfl
          rw [hbq, hbtab]
          generalize hk : (r.queue.take (flr r - t0.count).toNat).length = k
          have hk0 : (k : Int) ≤ flr r - t0.count := by
            rw [← hk, List.length_take]; omega
          have hq : 1 ≤ (k : Int) → t0.required = 0 := by
            intro hk1
            have hne : r.queue ≠ [] := by
              intro hnil
              rw [hnil] at hk
              simp at hk
              omega
            have := h.q hne t0 ht0
            omega
          generalize hrq : (if flr r - t0.count - (k : Int) > 0 then some (flr r - t0.count - (k : Int)) else none) = rq
          -- the new entry of the table
          have hcov : flr r ≤ (adj k rq t0).count + (adj k rq t0).required := by
            rw [← hrq]
            simp only [adj]
            split
            · simp only [Option.getD_some]; omega
            · simp only [Option.getD_none]; omega
          have hg : gF (flr r) (adj k rq t0) ≤ gF (flr r) t0 := by
            rw [← hrq]
            simp only [gF, adj]
            split
            · simp only [Option.getD_some]; omega
            · simp only [Option.getD_none]
              by_cases hk1 : 1 ≤ (k : Int)
              · have := hq hk1; omega
              · omega
          have hu : uF (flr r) (adj k rq t0) ≤ uF (flr r) t0 := by
            simp only [uF]
            rw [if_neg (by omega)]
            omega
          have hd : dF (flr r) (adj k rq t0) ≤ dF (flr r) t0 := by
            simp only [dF, adj]; omega
          generalize hr1 : ({ r.beginOp [] with queue := r.queue.drop (flr r - t0.count).toNat, tables := upd t (adj k rq) r.tables } : Reg) = r1
          show (0 : Int) = 0 ∧ r1.findTable t ≠ none ∧ phi r1 ≤ phi r ∧
            (r.queue.take (flr r - t0.count).toNat ≠ [] → phi r1 + 1 ≤ phi r)
          have hsn : SameNeeds r r1 := by rw [← hr1]; exact ⟨rfl, rfl⟩
          have hF : flr r1 = flr r := flr_same hsn
          have htab : r1.tables = upd t (adj k rq) r.tables := by rw [← hr1]
          have htc : r1.tableCount = r.tableCount := by rw [← hr1]; rfl
          have hqq : r1.queue = r.queue.drop (flr r - t0.count).toNat := by rw [← hr1]
          have hmax : r1.max = r.max := hsn.max
          have aG : Gs r1 ≤ Gs r := by
            unfold Gs; rw [hF, htab]; exact tot_upd_le _ _ h.wf.nodup ht0 hid0 _ hg
          have aU : Us r1 ≤ Us r := by
            unfold Us; rw [hF, htab]; exact tot_upd_le _ _ h.wf.nodup ht0 hid0 _ hu
          have aD : Ds r1 ≤ Ds r := by
            unfold Ds; rw [hF, htab]; exact tot_upd_le _ _ h.wf.nodup ht0 hid0 _ hd
          have aL : r1.tables.length = r.tables.length := by rw [htab, upd_length]
          have aTP : TP r1 ≤ TP r := by
            by_cases c : calm r
            · have c1 : calm r1 := ⟨by rw [htc, hsn.req]; exact c.1, by have := c.2; omega⟩
              rw [TP_calm c1]; omega
            · rw [TP_not_calm c]
              have := TP_le r1; omega
          have aT : dTR r1 = dTR r := by unfold dTR; rw [htc, hsn.req]
          have aR : dRT r1 = dRT r := by unfold dRT; rw [htc, hsn.req]
          have apsi : psi r1 ≤ psi r := by
            unfold psi; rw [aT, aR, hmax]; omega
          have aq : qind r1 ≤ qind r := by
            unfold qind
            rw [hqq]
            split
            · omega
            · rename_i hne
              have : r.queue ≠ [] := by intro hnil; rw [hnil] at hne; simp at hne
              rw [if_neg this]; omega
          have hfind : r1.findTable t ≠ none := by
            apply findTable_ne_none
            rw [htab, upd_ids _ _ _ (adj_id _ _)]; exact hidm
          refine ⟨rfl, hfind, by unfold phi; omega, fun hnw => ?_⟩
          have hk1 : 1 ≤ k := by
            have : 0 < (r.queue.take (flr r - t0.count).toNat).length := List.length_pos_iff.2 hnw
            omega
          unfold phi
          by_cases hfull : (k : Int) = flr r - t0.count
          · -- the table is filled up to the level
            have hd' : dF (flr r) (adj k rq t0) + 1 = dF (flr r) t0 := by
              simp only [dF, adj]; omega
            have : Ds r1 + 1 = Ds r := by
              unfold Ds; rw [hF, htab]
              have := tot_upd (dF (flr r)) r.tables h.wf.nodup ht0 hid0 (adj k rq)
              omega
            omega
          · -- the queue is exhausted
            have hlen : r.queue.length < (flr r - t0.count).toNat := by
              rw [List.length_take] at hk; omega
            have hq1 : r1.queue = [] := by
              rw [hqq]; exact List.drop_eq_nil_of_le (by omega)
            have hq0 : r.queue ≠ [] := by
              intro hnil; rw [hnil] at hk; simp at hk; omega
            have : qind r1 + 1 = qind r := by
              unfold qind; rw [if_pos hq1, if_neg hq0]
            omega
      · split
        · rename_i hhigh
          -- release
          have hflr : (r.beginOp []).playerCount / (r.beginOp []).requiredTables = flr r := rfl
          rw [hflr]
          have hlt : flr r < t0.count := floor_lt_of_lt_mul hreq' hhigh
          obtain ⟨j, hj, he⟩ := releaseLoop_spec (t0.count - flr r).toNat t (flr r) (r.beginOp []) 0
          have hlast := releaseLoop_last (t0.count - flr r).toNat t (flr r) (r.beginOp []) 0 j
            (by rw [he])
          rw [he]
          have hbtab : (r.beginOp []).tables = r.tables := rfl
          rw [hbtab] at hlast ⊢
          generalize hr1 : ({ r.beginOp [] with tables := upd t (adj (-(j : Int)) none) r.tables } : Reg) = r1
          have hsn : SameNeeds r r1 := by rw [← hr1]; exact ⟨rfl, rfl⟩
          have hF : flr r1 = flr r := flr_same hsn
          have htab : r1.tables = upd t (adj (-(j : Int)) none) r.tables := by rw [← hr1]
          have htc : r1.tableCount = r.tableCount := by rw [← hr1]; rfl
          have hqq : r1.queue = r.queue := by rw [← hr1]; rfl
          have hmax : r1.max = r.max := hsn.max
          have hfind : r1.findTable t ≠ none := by
            apply findTable_ne_none
            rw [htab, upd_ids _ _ _ (adj_id _ _)]; exact hidm
          by_cases hj0 : j = 0
          · left
            show ((0 + j : Nat) : Int) = 0 ∧ r1.findTable t ≠ none ∧ phi r1 ≤ phi r ∧
              (([] : List Nat) ≠ [] → phi r1 + 1 ≤ phi r)
            subst hj0
            have hsh : SameSheet r r1 := by
              refine ⟨?_, htc, hsn.pc, hsn.max⟩
              rw [htab]; simp only [Int.natCast_zero, Int.neg_zero, upd_adj_zero]
            exact ⟨rfl, hfind, by rw [hsh.phi hqq]; exact Nat.le_refl _, fun hh => absurd rfl hh⟩
          · right; right
            show ([] : List Nat) = [] ∧ 1 ≤ ((0 + j : Nat) : Int) ∧ r1.findTable t ≠ none ∧
              psi r1 + ((0 + j : Nat) : Int).toNat = psi r ∧ psi1 r1 + ((0 + j : Nat) : Int).toNat = psi1 r ∧
              Ds r1 = Ds r ∧ (calm r1 ↔ calm r) ∧
              (calm r → r1.queue.length + ((0 + j : Nat) : Int).toNat ≤ tot rF r1.tables)
            rw [Nat.zero_add]
            have hg : gF (flr r) (adj (-(j : Int)) none t0) + j = gF (flr r) t0 := by
              simp only [gF, adj, Option.getD_none]; omega
            have hu : uF (flr r) (adj (-(j : Int)) none t0) = uF (flr r) t0 := by
              have h1 : uF (flr r) (adj (-(j : Int)) none t0) = 0 := by
                unfold uF; rw [if_neg]; simp only [adj, Option.getD_none]; omega
              have h2 : uF (flr r) t0 = 0 := by
                unfold uF; rw [if_neg]; omega
              rw [h1, h2]
            have hd : dF (flr r) (adj (-(j : Int)) none t0) = dF (flr r) t0 := by
              simp only [dF, adj]; omega
            have hr : rF (adj (-(j : Int)) none t0) = rF t0 := by
              simp only [rF, adj, Option.getD_none]
            have aG : Gs r1 + j = Gs r := by
              unfold Gs; rw [hF, htab]
              have := tot_upd (gF (flr r)) r.tables h.wf.nodup ht0 hid0 (adj (-(j : Int)) none)
              omega
            have aU : Us r1 = Us r := by
              unfold Us; rw [hF, htab]; exact tot_upd_eq _ _ h.wf.nodup ht0 hid0 _ hu
            have aD : Ds r1 = Ds r := by
              unfold Ds; rw [hF, htab]; exact tot_upd_eq _ _ h.wf.nodup ht0 hid0 _ hd
            have aRF : tot rF r1.tables = tot rF r.tables := by
              rw [htab]; exact tot_upd_eq _ _ h.wf.nodup ht0 hid0 _ hr
            have aL : r1.tables.length = r.tables.length := by rw [htab, upd_length]
            have acalm : calm r1 ↔ calm r := by unfold calm; rw [aU, htc, hsn.req]
            have aTP : TP r1 = TP r := by
              unfold TP
              by_cases c : calm r
              · rw [if_pos c, if_pos (acalm.2 c)]
              · rw [if_neg c, if_neg (fun c' => c (acalm.1 c')), aL]
            have aT : dTR r1 = dTR r := by unfold dTR; rw [htc, hsn.req]
            have aR : dRT r1 = dRT r := by unfold dRT; rw [htc, hsn.req]
            have hjn : ((j : Int)).toNat = j := by omega
            refine ⟨rfl, by omega, hfind, ?_, ?_, aD, acalm, fun hc => ?_⟩
            · unfold psi; rw [aTP, aT, aR, hmax, hjn]; omega
            · unfold psi1; rw [aL, aT, aR, hmax, hjn]; omega
            · -- the released players fit into the `Required`s
              rw [hjn, hqq, aRF]
              have hl := hlast (by omega)
              generalize hri : ({ r.beginOp [] with tables := upd t (adj (-((j : Int) - 1)) none) r.tables } : Reg) = ri at hl
              have htabi : ri.tables = upd t (adj (-((j : Int) - 1)) none) r.tables := by rw [← hri]
              have hsc : sumCount ri.tables = sumCount r.tables + -((j : Int) - 1) := by
                rw [htabi]; exact sumCount_upd_adj h.wf.nodup hidm _ _
              have hpci : ri.playerCount = r.playerCount := by rw [← hri]; rfl
              have hreqi : ri.requiredTables = r.requiredTables := by rw [← hri]; rfl
              have hFi : ri.playerCount / ri.requiredTables = flr r := by rw [hpci, hreqi]; rfl
              have hX : ri.playerCount = ((r.queue.length : Int) + ((j : Int) - 1)) + sumCount ri.tables := by
                rw [hpci, hsc, h.cnt]; omega
              have hlowne : lowOf (flr r) ri.tables ≠ [] := by
                have hflri : flr ri = flr r := hFi
                rw [← hflri]
                apply low_nonempty ri (by rw [hreqi]; exact hreq')
                · rw [hreqi, htabi, upd_length, ← h.wf.tc]; exact hc.1.symm
                · rw [hpci, hsc, h.cnt]; omega
              rcases not_reached ri (flr r) _ hFi hX hl with ⟨hnil, _⟩ | ⟨_, hlt2⟩
              · exact absurd hnil hlowne
              · have he0 : eF (flr r) (adj (-((j : Int) - 1)) none t0) = eF (flr r) t0 := by
                  simp only [eF, adj]; omega
                have hE : tot (eF (flr r)) ri.tables = tot (eF (flr r)) r.tables := by
                  rw [htabi]; exact tot_upd_eq _ _ h.wf.nodup ht0 hid0 _ he0
                have hdr := deficit_le_required (flr r) r.tables hc.2 (fun x hx => (h.wf.bnd x hx).2.1)
                rw [hE] at hlt2
                omega
        · exact Or.inl hsame

end Reg
end Pokerface
