/-
  C20, the small bound: how many players the release loop of `SyncState` hands back.
  In a state with exactly the tables needed, a table above the level releases at most
  (total deficit of the tables at or below the level) − (queue length) players.
-/
import Pokerface.Proofs.RegSweepDrain

namespace Pokerface
namespace Reg

/-- the state seen by the last successful test of the release loop -/
theorem releaseLoop_last (k : Nat) : ∀ (id : Nat) (fl : Int) (r : Reg) (p j : Nat),
    (releaseLoop k id fl r p).1 = p + j → 1 ≤ j →
    ({ r with tables := upd id (adj (-((j : Int) - 1)) none) r.tables } : Reg).lowerWaterLevelReached fl = false := by
  induction k with
  | zero =>
    intro id fl r p j h hj
    simp only [releaseLoop] at h
    omega
  | succ n ih =>
    intro id fl r p j h hj
    rw [releaseLoop] at h
    cases hr : r.lowerWaterLevelReached fl with
    | true =>
      rw [hr] at h
      simp only [if_true] at h
      omega
    | false =>
      rw [hr] at h
      simp only [Bool.false_eq_true, if_false] at h
      obtain ⟨j2, _, he⟩ := releaseLoop_spec n id fl (r.setTable id fun t => { t with count := t.count - 1 }) (p + 1)
      rw [he] at h
      simp only at h
      have hjj : j = j2 + 1 := by omega
      by_cases h0 : j2 = 0
      · subst h0
        subst hjj
        have : ((0 + 1 : Nat) : Int) - 1 = 0 := by omega
        rw [this, Int.neg_zero, upd_adj_zero]
        exact hr
      · have h2 := ih id fl (r.setTable id fun t => { t with count := t.count - 1 }) (p + 1) j2
          (by rw [he]) (by omega)
        have hf : (fun t : RTable => { t with count := t.count - 1 }) = adj (-1) none := by
          funext t; simp [adj, Int.sub_eq_add_neg]
        simp only [setTable_eq, hf, upd_upd _ _ _ _ (adj_id (-1) none), adj_adj] at h2
        have e : (-1 : Int) + -((j2 : Int) - 1) = -((j : Int) - 1) := by omega
        simp only [e, Option.orElse] at h2
        exact h2

def lowOf (F : Int) (ts : List RTable) : List RTable := ts.filter fun t => decide (t.count ≤ F)

/-- total deficit of the tables at or below `F` -/
theorem low_deficit (F : Int) (ts : List RTable) :
    F * ((lowOf F ts).length : Int) - sumCount (lowOf F ts) = (tot (eF F) ts : Nat) := by
  induction ts with
  | nil => simp [lowOf, sumCount, tot]
  | cons t ts ih =>
    by_cases h : t.count ≤ F
    · have : lowOf F (t :: ts) = t :: lowOf F ts := by simp [lowOf, h]
      rw [this, List.length_cons, sumCount_cons, tot_cons]
      have e : F * ((lowOf F ts).length + 1 : Nat) = F * ((lowOf F ts).length : Int) + F := by
        rw [Int.natCast_add, Int.mul_add]; simp
      rw [e]
      simp only [eF]
      omega
    · have : lowOf F (t :: ts) = lowOf F ts := by simp [lowOf, h]
      rw [this, tot_cons]
      simp only [eF]
      omega

/-- reading of a failed lower-water-level test: with `X` players on their way or queued, either
    nobody is at or below the level and `X ≤ 0`, or `X` does not yet cover the deficit -/
theorem not_reached (r : Reg) (F X : Int) (hF : r.playerCount / r.requiredTables = F)
    (hX : r.playerCount = X + sumCount r.tables) (h : r.lowerWaterLevelReached F = false) :
    (lowOf F r.tables = [] ∧ X ≤ 0) ∨ (lowOf F r.tables ≠ [] ∧ X < (tot (eF F) r.tables : Nat)) := by
  unfold lowerWaterLevelReached at h
  simp only [hF] at h
  have hpart := sumCount_partition r.tables F
  have hdef := low_deficit F r.tables
  unfold lowOf at hdef ⊢
  generalize (r.tables.filter fun t => decide (t.count ≤ F)) = low at *
  generalize ((r.tables.filter fun t => !decide (t.count ≤ F)).map (·.count)).sum = hs at *
  split at h
  · rename_i h0
    have hl0 : low = [] := List.length_eq_zero_iff.1 (by omega)
    left
    refine ⟨hl0, ?_⟩
    simp only [decide_eq_false_iff_not] at h
    rw [hl0] at hpart
    have e0 : sumCount ([] : List RTable) = 0 := rfl
    rw [e0] at hpart
    omega
  · rename_i h0
    right
    refine ⟨fun hl => h0 (by rw [hl]; rfl), ?_⟩
    simp only [decide_eq_false_iff_not] at h
    omega

/-- with exactly the tables needed, some table is at or below the level -/
theorem low_nonempty (r : Reg) (hR : 0 < r.requiredTables) (hT : r.requiredTables = (r.tables.length : Int))
    (hpc : sumCount r.tables ≤ r.playerCount) : lowOf (flr r) r.tables ≠ [] := by
  intro hl
  have hall : ∀ t ∈ r.tables, flr r + 1 ≤ t.count := by
    intro t ht
    by_cases hle : t.count ≤ flr r
    · have : t ∈ lowOf (flr r) r.tables := List.mem_filter.2 ⟨ht, by simpa using hle⟩
      rw [hl] at this; cases this
    · omega
  have h1 := mul_length_le_sumCount r.tables _ hall
  rw [← hT] at h1
  have h2 : flr r < flr r + 1 := by omega
  unfold flr at h1 h2
  rw [Int.ediv_lt_iff_lt_mul hR] at h2
  omega

end Reg
end Pokerface
