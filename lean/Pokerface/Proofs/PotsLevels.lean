import Pokerface.Proofs.Assoc
/-
  Closed form of the `LevelList` reached by any sequence of `AddContributor` calls
  (helper lemmas for C16 / C02).
-/
namespace Pokerface

/-- Keys of the contributors that put in at least `L`. -/
def contribsAt (contribs : List (Nat × Int)) (L : Int) : List Nat :=
  (contribs.filter (fun kv => decide (L ≤ kv.2))).map (·.1)

/-- The levels with level values `Ls` (ascending), previous level `prev`, as `AddContributor` leaves them. -/
def mkLevelsFrom (contribs : List (Nat × Int)) : Int → List Int → List Level
  | _, [] => []
  | prev, L :: Ls =>
    { level := L, wager := L - prev,
      total := ((contribsAt contribs L).length : Int) * (L - prev),
      contributors := contribsAt contribs L } :: mkLevelsFrom contribs L Ls

theorem mkLevelsFrom_level (contribs : List (Nat × Int)) (prev : Int) (Ls : List Int) :
    (mkLevelsFrom contribs prev Ls).map (·.level) = Ls := by
  induction Ls generalizing prev with
  | nil => rfl
  | cons L Ls ih => simp [mkLevelsFrom, ih]

theorem retotal_map (contribs : List (Nat × Int)) (prev : Int) (lv : List Level) :
    retotal prev (lv.map fun l =>
      { l with contributors := (contribs.filter (fun kv => decide (l.level ≤ kv.2))).map (·.1) })
    = mkLevelsFrom contribs prev (lv.map (·.level)) := by
  induction lv generalizing prev with
  | nil => rfl
  | cons l ls ih => simp [retotal, mkLevelsFrom, contribsAt, ih]

/-- Insert a new level value (Go: `AssertLevel` then `sort.Slice`). -/
def insLevel (w : Int) (Ls : List Int) : List Int :=
  if w ∈ Ls then Ls else insertBy (fun a b => decide (a < b)) w Ls

theorem foldl_insertBy_sorted {α : Type} (lt : α → α → Bool) (l acc : List α)
    (h : (acc ++ l).Pairwise (fun a b => lt b a = false)) :
    l.foldl (fun acc x => insertBy lt x acc) acc = acc ++ l := by
  induction l generalizing acc with
  | nil => simp
  | cons x xs ih =>
    simp only [List.foldl_cons]
    have hx : insertBy lt x acc = acc ++ [x] := by
      apply insertBy_eq_append
      intro y hy
      rw [List.pairwise_append] at h
      exact h.2.2 y hy x (by simp)
    rw [hx, ih]
    · simp
    · simpa using h

theorem isort_sorted {α : Type} (lt : α → α → Bool) (l : List α)
    (h : l.Pairwise (fun a b => lt b a = false)) : isort lt l = l := by
  simpa [isort] using foldl_insertBy_sorted lt l [] (by simpa using h)

theorem insertBy_map_level (x : Level) (l : List Level) :
    (insertBy (fun a b => decide (a.level < b.level)) x l).map (·.level)
      = insertBy (fun a b => decide (a < b)) x.level (l.map (·.level)) := by
  induction l with
  | nil => rfl
  | cons y ys ih =>
    simp only [insertBy, List.map_cons]
    split <;> simp_all

theorem insertBy_int_sorted (w : Int) (Ls : List Int) (h : Ls.Pairwise (· < ·)) (hw : w ∉ Ls) :
    (insertBy (fun a b => decide (a < b)) w Ls).Pairwise (· < ·) := by
  induction Ls with
  | nil => simp [insertBy]
  | cons y ys ih =>
    simp only [List.pairwise_cons] at h
    simp only [List.mem_cons, not_or] at hw
    unfold insertBy
    split
    · rename_i hlt
      simp only [decide_eq_true_eq] at hlt
      simp only [List.pairwise_cons, List.mem_cons]
      refine ⟨?_, h⟩
      rintro a (ha | ha)
      · omega
      · have := h.1 _ ha; omega
    · rename_i hlt
      simp only [decide_eq_true_eq] at hlt
      simp only [List.pairwise_cons]
      refine ⟨?_, ih h.2 hw.2⟩
      intro a ha
      rw [insertBy_mem] at ha
      rcases ha with ha | ha
      · have := hw.1; omega
      · exact h.1 a ha

theorem insLevel_sorted (w : Int) (Ls : List Int) (h : Ls.Pairwise (· < ·)) :
    (insLevel w Ls).Pairwise (· < ·) := by
  unfold insLevel; split
  · exact h
  · exact insertBy_int_sorted w Ls h ‹_›

theorem insLevel_mem (w : Int) (Ls : List Int) (x : Int) : x ∈ insLevel w Ls ↔ x = w ∨ x ∈ Ls := by
  unfold insLevel; split
  · rename_i h; constructor
    · exact Or.inr
    · rintro (h1 | h1)
      · exact h1 ▸ h
      · exact h1
  · exact insertBy_mem _ _ _ _

/-- Invariant of a `LevelList`: canonical association lists, ascending levels, each level
    holding everyone at or above it. -/
structure LLInv (ll : LevelList) : Prop where
  contribs : KeysSorted ll.contribs
  folded : ll.folded.Pairwise (· < ·)
  sorted : (ll.levels.map (·.level)).Pairwise (· < ·)
  levels : ll.levels = mkLevelsFrom ll.contribs 0 (ll.levels.map (·.level))

theorem addContributor_levels (ll : LevelList) (h : (ll.levels.map (·.level)).Pairwise (· < ·))
    (w : Int) (i : Nat) (f : Bool) :
    (ll.addContributor w i f).levels
      = mkLevelsFrom (assocSet ll.contribs i w) 0 (insLevel w (ll.levels.map (·.level))) := by
  have hs : ll.levels.Pairwise (fun a b => decide (b.level < a.level) = false) := by
    rw [List.pairwise_map] at h
    exact h.imp (fun {a b} hab => by simp only [decide_eq_false_iff_not]; omega)
  unfold LevelList.addContributor
  simp only
  rw [retotal_map]
  congr 1
  unfold insLevel
  by_cases hm : w ∈ ll.levels.map (·.level)
  · have : ll.levels.any (fun l => l.level == w) = true := by
      simp only [List.any_eq_true, beq_iff_eq]
      simpa using hm
    simp only [this, if_true, hm]
    rw [isort_sorted _ _ hs]
  · have : ll.levels.any (fun l => l.level == w) = false := by
      simp only [List.any_eq_false, beq_iff_eq]
      simpa using hm
    simp only [this, hm, if_false, Bool.false_eq_true]
    rw [isort_append_singleton, isort_sorted _ _ hs, insertBy_map_level]

theorem LLInv.empty : LLInv {} := ⟨keysSorted_nil, List.Pairwise.nil, List.Pairwise.nil, rfl⟩

theorem LLInv.add {ll : LevelList} (h : LLInv ll) (w : Int) (i : Nat) (f : Bool) :
    LLInv (ll.addContributor w i f) := by
  have hl := addContributor_levels ll h.sorted w i f
  have hc : (ll.addContributor w i f).contribs = assocSet ll.contribs i w := rfl
  refine ⟨?_, ?_, ?_, ?_⟩
  · rw [hc]; exact assocSet_sorted h.contribs _ _
  · show (if f then setInsert ll.folded i else ll.folded).Pairwise (· < ·)
    split
    · exact setInsert_sorted h.folded _
    · exact h.folded
  · rw [hl, mkLevelsFrom_level]; exact insLevel_sorted _ _ h.sorted
  · rw [hl, mkLevelsFrom_level, hc]

/-- The list reached from the empty one. -/
def llOf (entries : List (Nat × Int × Bool)) : LevelList :=
  entries.foldl (fun ll e => ll.addContributor e.2.1 e.1 e.2.2) ({} : LevelList)

theorem foldl_add_inv (entries : List (Nat × Int × Bool)) (ll : LevelList) (h : LLInv ll) :
    LLInv (entries.foldl (fun ll e => ll.addContributor e.2.1 e.1 e.2.2) ll) := by
  induction entries generalizing ll with
  | nil => exact h
  | cons e es ih => exact ih _ (h.add _ _ _)

theorem foldl_add_contribs (entries : List (Nat × Int × Bool)) (ll : LevelList) (h : LLInv ll)
    (hn : (entries.map (·.1)).Nodup) (x : Nat × Int) :
    x ∈ (entries.foldl (fun ll e => ll.addContributor e.2.1 e.1 e.2.2) ll).contribs
      ↔ (∃ f, (x.1, x.2, f) ∈ entries) ∨ (x ∈ ll.contribs ∧ x.1 ∉ entries.map (·.1)) := by
  induction entries generalizing ll with
  | nil => simp
  | cons e es ih =>
    obtain ⟨ei, ec, ef⟩ := e
    simp only [List.map_cons, List.nodup_cons] at hn
    simp only [List.foldl_cons]
    rw [ih _ (h.add _ _ _) hn.2]
    have hc : (ll.addContributor ec ei ef).contribs = assocSet ll.contribs ei ec := rfl
    rw [hc, assocSet_mem h.contribs]
    obtain ⟨xi, xc⟩ := x
    simp only [List.mem_cons, Prod.mk.injEq, List.map_cons, not_or, List.mem_map, not_exists, not_and] at hn ⊢
    constructor
    · rintro (⟨f, hf⟩ | ⟨h1 | ⟨h1, h2⟩, h3⟩)
      · exact Or.inl ⟨f, Or.inr hf⟩
      · exact Or.inl ⟨ef, Or.inl ⟨h1.1, h1.2, rfl⟩⟩
      · exact Or.inr ⟨h2, fun h => h1 h, h3⟩
    · rintro (⟨f, h1 | h1⟩ | ⟨h1, h2, h3⟩)
      · right
        refine ⟨Or.inl ⟨h1.1, h1.2.1⟩, ?_⟩
        intro y hy hyi
        exact hn.1 y hy (hyi.trans h1.1)
      · exact Or.inl ⟨f, h1⟩
      · exact Or.inr ⟨Or.inr ⟨fun h => h2 h, h1⟩, h3⟩

theorem foldl_add_folded (entries : List (Nat × Int × Bool)) (ll : LevelList) (y : Nat) :
    y ∈ (entries.foldl (fun ll e => ll.addContributor e.2.1 e.1 e.2.2) ll).folded
      ↔ (∃ c, (y, c, true) ∈ entries) ∨ y ∈ ll.folded := by
  induction entries generalizing ll with
  | nil => simp
  | cons e es ih =>
    obtain ⟨ei, ec, ef⟩ := e
    simp only [List.foldl_cons]
    rw [ih]
    have hc : (ll.addContributor ec ei ef).folded = if ef then setInsert ll.folded ei else ll.folded := rfl
    rw [hc]
    cases ef
    · simp
    · simp only [if_true, setInsert_mem, List.mem_cons, Prod.mk.injEq, and_true]
      constructor
      · rintro (⟨c, hc⟩ | h1 | h1)
        · exact Or.inl ⟨c, Or.inr hc⟩
        · exact Or.inl ⟨ec, Or.inl ⟨h1, rfl⟩⟩
        · exact Or.inr h1
      · rintro (⟨c, h1 | h1⟩ | h1)
        · exact Or.inr (Or.inl h1.1)
        · exact Or.inl ⟨c, h1⟩
        · exact Or.inr (Or.inr h1)

theorem foldl_add_levels (entries : List (Nat × Int × Bool)) (ll : LevelList) (h : LLInv ll) (L : Int) :
    L ∈ (entries.foldl (fun ll e => ll.addContributor e.2.1 e.1 e.2.2) ll).levels.map (·.level)
      ↔ (∃ e ∈ entries, e.2.1 = L) ∨ L ∈ ll.levels.map (·.level) := by
  induction entries generalizing ll with
  | nil => simp
  | cons e es ih =>
    simp only [List.foldl_cons]
    rw [ih _ (h.add _ _ _), addContributor_levels ll h.sorted, mkLevelsFrom_level, insLevel_mem]
    simp only [List.mem_cons, exists_eq_or_imp]
    constructor
    · rintro (h1 | h1 | h1)
      · exact Or.inl (Or.inr h1)
      · exact Or.inl (Or.inl h1.symm)
      · exact Or.inr h1
    · rintro ((h1 | h1) | h1)
      · exact Or.inr (Or.inl h1.symm)
      · exact Or.inl h1
      · exact Or.inr (Or.inr h1)

theorem llOf_inv (entries : List (Nat × Int × Bool)) : LLInv (llOf entries) :=
  foldl_add_inv entries _ LLInv.empty

theorem llOf_contribs (entries : List (Nat × Int × Bool)) (hn : (entries.map (·.1)).Nodup) (x : Nat × Int) :
    x ∈ (llOf entries).contribs ↔ ∃ f, (x.1, x.2, f) ∈ entries := by
  unfold llOf
  rw [foldl_add_contribs entries _ LLInv.empty hn]
  simp

theorem llOf_folded (entries : List (Nat × Int × Bool)) (y : Nat) :
    y ∈ (llOf entries).folded ↔ ∃ c, (y, c, true) ∈ entries := by
  unfold llOf
  rw [foldl_add_folded]
  simp

theorem llOf_levels (entries : List (Nat × Int × Bool)) (L : Int) :
    L ∈ (llOf entries).levels.map (·.level) ↔ ∃ e ∈ entries, e.2.1 = L := by
  unfold llOf
  rw [foldl_add_levels entries _ LLInv.empty]
  simp

/-- Insertion order does not matter. -/
theorem llOf_perm {e₁ e₂ : List (Nat × Int × Bool)} (hp : e₁.Perm e₂) (hn : (e₁.map (·.1)).Nodup) :
    llOf e₁ = llOf e₂ := by
  have hn2 : (e₂.map (·.1)).Nodup := (hp.map _).nodup_iff.1 hn
  have i1 := llOf_inv e₁
  have i2 := llOf_inv e₂
  have hc : (llOf e₁).contribs = (llOf e₂).contribs := by
    apply KeysSorted.eq_of_mem_iff i1.contribs i2.contribs
    intro x
    rw [llOf_contribs e₁ hn, llOf_contribs e₂ hn2]
    exact exists_congr fun f => hp.mem_iff
  have hf : (llOf e₁).folded = (llOf e₂).folded := by
    apply eq_of_pairwise_of_mem_iff (fun a b hab hba => by omega) i1.folded i2.folded
    intro y
    rw [llOf_folded, llOf_folded]
    exact exists_congr fun c => hp.mem_iff
  have hL : (llOf e₁).levels.map (·.level) = (llOf e₂).levels.map (·.level) := by
    apply eq_of_pairwise_of_mem_iff (fun a b hab hba => by omega) i1.sorted i2.sorted
    intro L
    rw [llOf_levels, llOf_levels]
    exact exists_congr fun e => and_congr_left fun _ => hp.mem_iff
  have hl : (llOf e₁).levels = (llOf e₂).levels := by
    rw [i1.levels, i2.levels, hc, hL]
  cases h1 : llOf e₁; cases h2 : llOf e₂
  simp only [h1, h2] at hc hf hl
  simp [hc, hf, hl]

end Pokerface
