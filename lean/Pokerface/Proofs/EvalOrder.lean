import Pokerface.Proofs.EvalSort
import Pokerface.Proofs.EvalEnc
import Pokerface.Proofs.EvalTableG1
import Pokerface.Proofs.EvalTableG2
import Pokerface.Proofs.EvalTableG3
import Pokerface.Proofs.EvalTableG4
import Pokerface.Proofs.EvalTableG5
import Pokerface.Proofs.EvalTableG6
import Pokerface.Proofs.EvalTableG7
import Pokerface.Proofs.EvalTableG8
/-!
  C03: assembly.  Every valid hand, in any card order, falls into one of the
  checked classes; the category offsets of a ranking table separate the
  categories; hence the score order is the poker order.
-/
namespace Pokerface.C03
open Generated

/-! ### every class is covered by the eight checked groups -/

theorem nfAB_all (a b : Nat) (ha : a ≤ 14) (hb : 2 ≤ b) (hba : b ≤ a) : nfAB (a, b) = true := by
  have hmem := group_cover a (List.mem_range'_1.2 ⟨by omega, by omega⟩)
    b (List.mem_range'_1.2 ⟨hb, by omega⟩)
  have g : ∀ k, nfGroup k = true → (a, b) ∈ group k → nfAB (a, b) = true :=
    fun k hk hm => (List.all_eq_true.1 hk) (a, b) hm
  simp only [List.mem_append] at hmem
  rcases hmem with (((((((h | h) | h) | h) | h) | h) | h) | h)
  · exact g 1 nfGroup_1 h
  · exact g 2 nfGroup_2 h
  · exact g 3 nfGroup_3 h
  · exact g 4 nfGroup_4 h
  · exact g 5 nfGroup_5 h
  · exact g 6 nfGroup_6 h
  · exact g 7 nfGroup_7 h
  · exact g 8 nfGroup_8 h

theorem okClass_all {a b c d e : Nat} (h1 : a ≤ 14) (h2 : b ≤ a) (h3 : c ≤ b) (h4 : d ≤ c)
    (h5 : e ≤ d) (h6 : 2 ≤ e) : okClass a b c d e = true := by
  have h := nfAB_all a b h1 (by omega) h2
  simp only [nfAB, List.all_eq_true, List.mem_range'_1] at h
  exact h c (by omega) d (by omega) e (by omega)

/-- The check holds for every descending list of five ranks in 2..14 with no rank
    five times, with the flush flag allowed only when the ranks are distinct. -/
theorem chk_of_sorted (rs : List Nat) (fl : Bool) (hlen : rs.length = 5)
    (hs : rs.Pairwise (fun a b => a ≥ b)) (hr : ∀ r ∈ rs, 2 ≤ r ∧ r ≤ 14)
    (h4 : ∀ r, rs.count r ≤ 4) (hf : fl = true → rs.Nodup) : chk rs fl = true := by
  match rs, hlen with
  | [a, b, c, d, e], _ =>
    simp only [List.pairwise_cons, List.mem_cons, List.not_mem_nil, or_false, forall_eq_or_imp,
      forall_eq, List.Pairwise.nil, and_true, false_imp_iff, implies_true] at hs
    have ha := hr a (by simp)
    have he := hr e (by simp)
    have hae : a ≠ e := by
      intro hae
      have hb : b = e := by omega
      have hc : c = e := by omega
      have hd : d = e := by omega
      have := h4 e
      rw [hae, hb, hc, hd] at this
      simp at this
    have ok := okClass_all (a := a) (b := b) (c := c) (d := d) (e := e)
      (by omega) (by omega) (by omega) (by omega) (by omega) (by omega)
    simp only [okClass, Bool.or_eq_true, beq_iff_eq, Bool.and_eq_true, Bool.not_eq_true'] at ok
    rcases ok with h | ⟨h1, h2⟩
    · exact absurd h hae
    · cases fl with
      | false => exact h1
      | true =>
        have hn := hf rfl
        simp only [List.nodup_cons, List.mem_cons, List.not_mem_nil, or_false, not_or,
          List.nodup_nil, and_true, not_false_eq_true] at hn
        rcases h2 with h2 | h2
        · have : a > b ∧ b > c ∧ c > d ∧ d > e := by omega
          simp [this] at h2
        · exact h2

/-! ### the evaluator on a valid hand -/

theorem calc_cat (lvl : Cat → Nat) (T : List Cat) (h : List Card) :
    (calculatePower lvl T h).cat
      = category ((sortCards h).map (·.rank)) (isFlush (sortCards h)) := rfl

theorem calc_score (lvl : Cat → Nat) (T : List Cat) (h : List Card) :
    (calculatePower lvl T h).score
      = powerScore ((calculatePower lvl T h).cat) (elements ((sortCards h).map (·.rank)))
        + powerLevels lvl T (calculatePower lvl T h).cat := rfl

theorem chk_valid (h : List Card) (hv : Valid h) :
    chk ((sortCards h).map (·.rank)) (sameSuit h) = true := by
  have p := sortCards_perm h
  have pr : ((sortCards h).map (·.rank)).Perm (ranks h) := p.map _
  apply chk_of_sorted
  · rw [List.length_map, p.length_eq, hv.five]
  · exact sortCards_sorted h
  · intro r hr
    obtain ⟨c, hc, rfl⟩ := List.mem_map.1 hr
    exact hv.inRange c (p.mem_iff.1 hc)
  · intro r; rw [pr.count_eq]; exact hv.atMostFour r
  · intro hf; exact pr.nodup_iff.2 (hv.flushDistinct hf)

theorem isFlush_sortCards (h : List Card) (hv : Valid h) : isFlush (sortCards h) = sameSuit h := by
  have p := sortCards_perm h
  rw [isFlush_eq_sameSuit _ ?_, sameSuit_perm p]
  intro h0
  have := p.length_eq
  rw [h0, hv.five] at this
  simp at this

/-- Normal form of the evaluator's result on a valid hand. -/
structure NormalForm (lvl : Cat → Nat) (T : List Cat) (h : List Card) (raw : Nat) : Prop where
  cat_eq : (calculatePower lvl T h).cat = specCat (ranks h) (sameSuit h)
  score_eq : (calculatePower lvl T h).score = raw + powerLevels lvl T (specCat (ranks h) (sameSuit h))
  raw_eq : raw + shift (specCat (ranks h) (sameSuit h)) = enc (specTiebreak (ranks h))
  len_eq : (specTiebreak (ranks h)).length = tbLen (specCat (ranks h) (sameSuit h))
  inRange : InRange (specTiebreak (ranks h))
  raw_lt : raw < combinationLevel (specCat (ranks h) (sameSuit h))

theorem normalForm (lvl : Cat → Nat) (T : List Cat) (h : List Card) (hv : Valid h) :
    ∃ raw, NormalForm lvl T h raw := by
  have hc := chk_valid h hv
  have pr : ((sortCards h).map (·.rank)).Perm (ranks h) := (sortCards_perm h).map _
  simp only [chk, Bool.and_eq_true, beq_iff_eq, decide_eq_true_eq, List.all_eq_true] at hc
  obtain ⟨⟨⟨⟨h1, h2⟩, h3⟩, h4⟩, h5⟩ := hc
  rw [specCat_perm pr] at h1
  rw [specTiebreak_perm pr] at h2 h3 h4
  have hcat : (calculatePower lvl T h).cat = specCat (ranks h) (sameSuit h) := by
    rw [calc_cat, isFlush_sortCards h hv]; exact h1
  refine ⟨powerScore (specCat (ranks h) (sameSuit h)) (elements ((sortCards h).map (·.rank))), ?_⟩
  rw [h1] at h2 h3 h5
  exact
    { cat_eq := hcat
      score_eq := by rw [calc_score, hcat]
      raw_eq := h2
      len_eq := h3
      inRange := fun r hr => h4 r hr
      raw_lt := h5 }

/-! ### ranking tables: offsets separate the categories -/

theorem Cat.mem_all (c : Cat) : c ∈ Cat.all := by cases c <;> decide

/-- What is needed of a ranking table `T` with category sizes `lvl`: different
    categories sit at different positions, and the offset of a later category is at
    least the offset of an earlier one plus the earlier one's size. -/
def tableOK (lvl : Cat → Nat) (T : List Cat) : Bool :=
  Cat.all.all fun c => Cat.all.all fun c' =>
    (T.idxOf c != T.idxOf c' || c == c') &&
    (!decide (T.idxOf c < T.idxOf c') || decide (powerLevels lvl T c + lvl c ≤ powerLevels lvl T c'))

theorem tableOK_standard : tableOK combinationLevel powerStandard = true := by decide
theorem tableOK_shortDeck : tableOK combinationLevel powerShortDeck = true := by decide

theorem tableOK_inj {lvl : Cat → Nat} {T : List Cat} (hT : tableOK lvl T = true) (c c' : Cat)
    (h : T.idxOf c = T.idxOf c') : c = c' := by
  have := (List.all_eq_true.1 ((List.all_eq_true.1 hT) c (Cat.mem_all c))) c' (Cat.mem_all c')
  simp only [Bool.and_eq_true, Bool.or_eq_true, bne_iff_ne, beq_iff_eq] at this
  rcases this.1 with h' | h'
  · exact absurd h h'
  · exact h'

theorem tableOK_sep {lvl : Cat → Nat} {T : List Cat} (hT : tableOK lvl T = true) (c c' : Cat)
    (h : T.idxOf c < T.idxOf c') : powerLevels lvl T c + lvl c ≤ powerLevels lvl T c' := by
  have := (List.all_eq_true.1 ((List.all_eq_true.1 hT) c (Cat.mem_all c))) c' (Cat.mem_all c')
  simp only [Bool.and_eq_true, Bool.or_eq_true, Bool.not_eq_true', decide_eq_false_iff_not,
    decide_eq_true_eq] at this
  rcases this.2 with h' | h'
  · exact absurd h h'
  · exact h'

/-! ### the order theorems for any table that passes `tableOK` -/

theorem score_lt_iff_of_tableOK (T : List Cat) (hT : tableOK combinationLevel T = true)
    (h₁ h₂ : List Card) (hv₁ : Valid h₁) (hv₂ : Valid h₂) :
    (calculatePower combinationLevel T h₁).score < (calculatePower combinationLevel T h₂).score
      ↔ pokerKey T h₁ < pokerKey T h₂ := by
  obtain ⟨raw₁, n₁⟩ := normalForm combinationLevel T h₁ hv₁
  obtain ⟨raw₂, n₂⟩ := normalForm combinationLevel T h₂ hv₂
  rw [n₁.score_eq, n₂.score_eq, PokerKey.lt_def]
  simp only [pokerKey]
  have e₁ := n₁.raw_eq; have e₂ := n₂.raw_eq
  have l₁ := n₁.raw_lt; have l₂ := n₂.raw_lt
  rcases Nat.lt_trichotomy (T.idxOf (specCat (ranks h₁) (sameSuit h₁)))
      (T.idxOf (specCat (ranks h₂) (sameSuit h₂))) with hlt | heq | hgt
  · have := tableOK_sep hT _ _ hlt
    constructor
    · intro _; exact Or.inl hlt
    · intro _; omega
  · have hc := tableOK_inj hT _ _ heq
    have hlen : (specTiebreak (ranks h₁)).length = (specTiebreak (ranks h₂)).length := by
      rw [n₁.len_eq, n₂.len_eq, hc]
    rw [← enc_lt_iff _ _ hlen n₁.inRange n₂.inRange]
    rw [hc] at e₁ ⊢
    constructor
    · intro h; exact Or.inr ⟨rfl, by omega⟩
    · rintro (h | ⟨_, h⟩) <;> omega
  · have := tableOK_sep hT _ _ hgt
    constructor
    · intro h; omega
    · rintro (h | ⟨h, _⟩) <;> omega

theorem score_eq_iff_of_tableOK (T : List Cat) (hT : tableOK combinationLevel T = true)
    (h₁ h₂ : List Card) (hv₁ : Valid h₁) (hv₂ : Valid h₂) :
    (calculatePower combinationLevel T h₁).score = (calculatePower combinationLevel T h₂).score
      ↔ pokerKey T h₁ = pokerKey T h₂ := by
  obtain ⟨raw₁, n₁⟩ := normalForm combinationLevel T h₁ hv₁
  obtain ⟨raw₂, n₂⟩ := normalForm combinationLevel T h₂ hv₂
  rw [n₁.score_eq, n₂.score_eq]
  simp only [pokerKey, PokerKey.mk.injEq]
  have e₁ := n₁.raw_eq; have e₂ := n₂.raw_eq
  have l₁ := n₁.raw_lt; have l₂ := n₂.raw_lt
  constructor
  · intro hs
    have hidx : T.idxOf (specCat (ranks h₁) (sameSuit h₁))
        = T.idxOf (specCat (ranks h₂) (sameSuit h₂)) := by
      rcases Nat.lt_trichotomy (T.idxOf (specCat (ranks h₁) (sameSuit h₁)))
        (T.idxOf (specCat (ranks h₂) (sameSuit h₂))) with hlt | heq | hgt
      · have := tableOK_sep hT _ _ hlt; omega
      · exact heq
      · have := tableOK_sep hT _ _ hgt; omega
    refine ⟨hidx, ?_⟩
    have hc := tableOK_inj hT _ _ hidx
    have hlen : (specTiebreak (ranks h₁)).length = (specTiebreak (ranks h₂)).length := by
      rw [n₁.len_eq, n₂.len_eq, hc]
    apply enc_inj _ _ hlen n₁.inRange n₂.inRange
    rw [hc] at e₁ hs
    omega
  · rintro ⟨hidx, htb⟩
    have hc := tableOK_inj hT _ _ hidx
    rw [hc] at e₁ ⊢
    rw [htb] at e₁
    omega

end Pokerface.C03
