/-
  C20, the small bound: `allocateTables`, `drainWaitingQueue` and `ReleasePlayers` against the
  potential of `RegSweepDefs`.
-/
import Pokerface.Proofs.RegSweepOps

namespace Pokerface
namespace Reg

/-- the potential only looks at the tables, their number, the player total and `max` -/
structure SameSheet (r r' : Reg) : Prop where
  tables : r'.tables = r.tables
  tc : r'.tableCount = r.tableCount
  pc : r'.playerCount = r.playerCount
  max : r'.max = r.max

theorem SameSheet.needs {r r' : Reg} (h : SameSheet r r') : SameNeeds r r' := ⟨h.pc, h.max⟩

theorem SameSheet.refl (r : Reg) : SameSheet r r := ⟨rfl, rfl, rfl, rfl⟩

section
variable {r r' : Reg} (h : SameSheet r r')
include h

theorem SameSheet.Gs : Gs r' = Gs r := by unfold Reg.Gs; rw [flr_same h.needs, h.tables]
theorem SameSheet.Us : Us r' = Us r := by unfold Reg.Us; rw [flr_same h.needs, h.tables]
theorem SameSheet.Ds : Ds r' = Ds r := by unfold Reg.Ds; rw [flr_same h.needs, h.tables]
theorem SameSheet.calm : calm r' ↔ calm r := by unfold Reg.calm; rw [h.Us, h.tc, h.needs.req]
theorem SameSheet.TP : TP r' = TP r := by
  unfold Reg.TP
  by_cases c : Reg.calm r
  · rw [if_pos c, if_pos (h.calm.2 c)]
  · rw [if_neg c, if_neg (fun c' => c (h.calm.1 c')), h.tables]
theorem SameSheet.dTR : dTR r' = dTR r := by unfold Reg.dTR; rw [h.tc, h.needs.req]
theorem SameSheet.dRT : dRT r' = dRT r := by unfold Reg.dRT; rw [h.tc, h.needs.req]
theorem SameSheet.psi : psi r' = psi r := by unfold Reg.psi; rw [h.Gs, h.TP, h.dTR, h.dRT, h.max]
theorem SameSheet.psi1 : psi1 r' = psi1 r := by unfold Reg.psi1; rw [h.Gs, h.dTR, h.dRT, h.max, h.tables]

end

theorem gF_le_max {r : Reg} (hwf : WF r) (F : Int) (hF : 0 ≤ F) {t : RTable} (ht : t ∈ r.tables) :
    gF F t ≤ r.max := by
  have := hwf.bnd t ht
  simp only [gF]; omega

/-! ### allocation -/

theorem allocateTables_pot (r : Reg) (hwf : WF r) (hmax : 0 < r.max) (hpc : 0 ≤ r.playerCount) :
    2 * psi r.allocateTables + Ds r.allocateTables ≤ 2 * psi1 r + Ds r := by
  obtain ⟨hs, h1, h2⟩ := allocateTables_tc r hmax
  obtain ⟨hwf', _, _, _⟩ := allocateTables_spec r hwf
  obtain ⟨extra, he⟩ := allocateTables_append r
  have hF : flr r.allocateTables = flr r := flr_same hs
  have hF0 : 0 ≤ flr r := (flr_bounds r hwf hpc).1
  have hlen : (r.allocateTables.tableCount : Int) = r.tableCount + extra.length := by
    rw [hwf'.tc, he, List.length_append, hwf.tc]; omega
  have hle := psi_le_psi1 r.allocateTables
  by_cases hk : extra.length = 0
  · have hnil : extra = [] := List.length_eq_zero_iff.1 hk
    rw [hnil, List.append_nil] at he
    have hsh : SameSheet r r.allocateTables := ⟨he, by omega, hs.pc, hs.max⟩
    rw [hsh.psi1] at hle
    rw [hsh.Ds]
    omega
  · have hR : r.allocateTables.tableCount ≤ r.requiredTables := by
      rcases h2 with h2 | h2
      · omega
      · exact h2
    have hG : Gs r.allocateTables ≤ Gs r + extra.length * r.max := by
      unfold Gs
      rw [hF, he, tot_append]
      have := tot_le (gF (flr r)) extra r.max (fun t ht => by
        have hm : t ∈ r.allocateTables.tables := by rw [he]; exact List.mem_append_right _ ht
        have := gF_le_max hwf' (flr r) hF0 hm
        rw [hs.max] at this; exact this)
      omega
    have hD : Ds r.allocateTables ≤ Ds r + extra.length := by
      unfold Ds
      rw [hF, he, tot_append]
      have := tot_len (dF (flr r)) extra (fun t _ => by simp only [dF]; omega)
      omega
    have hT : r.allocateTables.tables.length = r.tables.length + extra.length := by
      rw [he, List.length_append]
    have hd1 : dTR r.allocateTables = 0 := by unfold dTR; rw [hs.req]; omega
    have hd2 : dTR r = 0 := by unfold dTR; omega
    have hd3 : dRT r = dRT r.allocateTables + extra.length := by unfold dRT; rw [hs.req]; omega
    have hm : r.allocateTables.max = r.max := hs.max
    unfold psi1 at hle ⊢
    rw [hd1, hT, hm] at hle
    rw [hd2]
    have e3 : (r.max + 2) * dRT r = (r.max + 2) * dRT r.allocateTables + (r.max + 2) * extra.length := by
      rw [hd3, Nat.mul_add]
    have e2 : (r.max + 2) * extra.length = extra.length * r.max + 2 * extra.length := by
      rw [Nat.add_mul, Nat.mul_comm]
    omega

theorem allocateTables_sheet (r : Reg) (hm : 0 < r.max) (h : r.requiredTables ≤ r.tableCount) :
    SameSheet r r.allocateTables := by
  obtain ⟨h1, h2⟩ := allocateTables_noop r hm h
  obtain ⟨hs, _, _⟩ := allocateTables_tc r hm
  exact ⟨h1, h2, hs.pc, hs.max⟩

/-! ### `dispatchLoop` at the level of the regulator -/

theorem dispatchLoop_pot {fuel : Nat} {cands rest : List Nat} {r r' : Reg} (hwf : WF r)
    (h : dispatchLoop fuel cands r = (rest, r')) (hb : r'.badChoice = false) :
    SameNeeds r r' ∧ r'.tableCount = r.tableCount ∧ Gs r' = Gs r ∧ Us r' = Us r ∧ Ds r' ≤ Ds r ∧
    r'.tables.length = r.tables.length ∧
    tot rF r'.tables + (cands.length - rest.length) = tot rF r.tables ∧ rest.length ≤ cands.length := by
  have h1 := dispatchLoop_tc fuel cands r
  rw [h] at h1
  obtain ⟨d, l⟩ := dispatchLoop_tot fuel hwf h hb (flr r)
  have hF : flr r' = flr r := flr_same h1.1
  refine ⟨h1.1, h1.2, ?_, ?_, ?_, d.len, d.r, l⟩
  · unfold Gs; rw [hF]; exact d.g
  · unfold Us; rw [hF]; exact d.u
  · unfold Ds; rw [hF]; exact d.d

/-- `updateTableRequirements` when it fires (`R = T`): everything is covered afterwards -/
theorem update_pot (r : Reg) (hwf : WF r) :
    SameNeeds r r.updateTableRequirements ∧ r.updateTableRequirements.tableCount = r.tableCount ∧
    r.updateTableRequirements.tables.length = r.tables.length ∧
    Ds r.updateTableRequirements = Ds r ∧
    ((r.requiredTables = (r.tables.length : Int) ∧ Gs r.updateTableRequirements ≤ Gs r + r.tables.length ∧
        Us r.updateTableRequirements = 0) ∨
     (r.requiredTables ≠ (r.tables.length : Int) ∧ r.updateTableRequirements = r)) := by
  by_cases hreq : r.requiredTables = (r.tables.length : Int)
  · have he : r.updateTableRequirements = { r with tables := setReq r.ceilWl r.tables } := by
      rw [updateTableRequirements_eq, if_pos hreq]
    have hs : SameNeeds r r.updateTableRequirements := by rw [he]; exact ⟨rfl, rfl⟩
    have hF : flr r.updateTableRequirements = flr r := flr_same hs
    have hR0 : 0 ≤ r.requiredTables := by omega
    obtain ⟨a, b, c, d⟩ := setReq_tot (flr r) r.ceilWl (flr_le_ceilWl r hR0) (ceilWl_le_flr_succ r hR0) r.tables
      (fun t ht => (hwf.bnd t ht).2.1)
    have ht : r.updateTableRequirements.tables = setReq r.ceilWl r.tables := by rw [he]
    refine ⟨hs, by rw [he], by rw [ht]; exact d, ?_, Or.inl ⟨hreq, ?_, ?_⟩⟩
    · unfold Ds; rw [hF, ht]; exact c
    · unfold Gs; rw [hF, ht]; exact a
    · unfold Us; rw [hF, ht]; exact b
  · have he : r.updateTableRequirements = r := by
      rw [updateTableRequirements_eq, if_neg hreq]
    rw [he]
    exact ⟨SameNeeds.refl r, rfl, rfl, rfl, Or.inr ⟨hreq, rfl⟩⟩

/-! ### draining the queue -/

/-- whatever happens in `drainWaitingQueue`, the potential afterwards is paid for by the potential
    before with the calm-bonus ignored -/
theorem drainWaitingQueue_pot (r : Reg) (hwf : WF r) (hmax : 0 < r.max) (hpc : 0 ≤ r.playerCount)
    (hb : r.drainWaitingQueue.badChoice = false) :
    2 * psi r.drainWaitingQueue + Ds r.drainWaitingQueue ≤ 2 * psi1 r + Ds r := by
  rw [drainWaitingQueue_eq] at hb ⊢
  split
  · exact allocateTables_pot r hwf hmax hpc
  · rename_i hn1
    rw [if_neg hn1] at hb
    split
    · rename_i hpos
      rw [if_pos hpos] at hb
      generalize hp1 : dispatchLoop (r.queue.length + 1) r.queue r = p1 at hb ⊢
      obtain ⟨c1, r1⟩ := p1
      simp only at hb ⊢
      generalize hr2 : (if (!c1.isEmpty) = true then r1.updateTableRequirements else r1) = r2 at hb ⊢
      generalize hp3 : dispatchLoop (c1.length + 1) c1 r2 = p3 at hb ⊢
      obtain ⟨c2, r3⟩ := p3
      simp only at hb ⊢
      have hb3 : r3.badChoice = false := by
        split at hb
        · rw [allocateTables_badChoice] at hb; exact hb
        · exact hb
      have hb2 : r2.badChoice = false := by
        cases hbb : r2.badChoice with
        | false => rfl
        | true =>
          rw [dispatchLoop_bad _ c1 r2 hbb] at hp3
          simp only [Prod.mk.injEq] at hp3
          rw [← hp3.2, hbb] at hb3; cases hb3
      have hb1 : r1.badChoice = false := by
        rw [← hr2] at hb2
        split at hb2
        · rw [(updateTableRequirements_eq r1)] at hb2
          split at hb2 <;> exact hb2
        · exact hb2
      obtain ⟨hwf1, _, _, _, _⟩ := dispatchLoop_spec _ hwf hp1 hb1
      obtain ⟨s1, t1, g1, u1, d1, l1, _, _⟩ := dispatchLoop_pot hwf hp1 hb1
      have hpc1 : 0 ≤ r1.playerCount := by rw [s1.pc]; exact hpc
      -- the middle step
      have hmid : WF r2 ∧ SameNeeds r1 r2 ∧ r2.tableCount = r1.tableCount ∧ r2.tables.length = r1.tables.length ∧
          Ds r2 = Ds r1 ∧
          ((r1.requiredTables = (r1.tables.length : Int) ∧ Gs r2 ≤ Gs r1 + r1.tables.length ∧ Us r2 = 0) ∨
           (Gs r2 = Gs r1 ∧ Us r2 = Us r1)) := by
        rw [← hr2]
        split
        · obtain ⟨a1, a2, a3, a4, a5⟩ := update_pot r1 hwf1
          refine ⟨(updateTableRequirements_spec r1 hwf1 c1).1, a1, a2, a3, a4, ?_⟩
          rcases a5 with a5 | ⟨_, a5⟩
          · exact Or.inl a5
          · rw [a5]; exact Or.inr ⟨rfl, rfl⟩
        · exact ⟨hwf1, SameNeeds.refl _, rfl, rfl, rfl, Or.inr ⟨rfl, rfl⟩⟩
      obtain ⟨hwf2, s2, t2, l2, d2, hcase⟩ := hmid
      obtain ⟨hwf3, _, _, _, _⟩ := dispatchLoop_spec _ hwf2 hp3 hb3
      obtain ⟨s3, t3, g3, u3, d3, l3, _, _⟩ := dispatchLoop_pot hwf2 hp3 hb3
      -- the state before the final allocation
      have hsh4 : SameSheet r3 ({ r3 with queue := c2 } : Reg) := ⟨rfl, rfl, rfl, rfl⟩
      have hs03 : SameNeeds r r3 := (s1.trans s2).trans s3
      have ht03 : r3.tableCount = r.tableCount := by omega
      have hl03 : r3.tables.length = r.tables.length := by omega
      have hd03 : Ds r3 ≤ Ds r := by omega
      have hwf4 : WF ({ r3 with queue := c2 } : Reg) := hwf3.setQueue c2
      have hpc4 : 0 ≤ ({ r3 with queue := c2 } : Reg).playerCount := by
        show 0 ≤ r3.playerCount; rw [hs03.pc]; exact hpc
      have hdTR : dTR r3 = dTR r := by unfold dTR; rw [ht03, hs03.req]
      have hdRT : dRT r3 = dRT r := by unfold dRT; rw [ht03, hs03.req]
      rcases hcase with ⟨hreq, hg2, hu2⟩ | ⟨hg2, hu2⟩
      · -- `updateTableRequirements` fired: calm from now on, nothing to allocate
        have hTR : r3.tableCount = r3.requiredTables := by
          rw [hs03.req, ← s1.req, hreq, ht03, hwf.tc, l1]
        have hcalm : calm r3 := ⟨hTR, by omega⟩
        have hpsi3 : psi r3 ≤ psi1 r := by
          unfold psi psi1
          rw [TP_calm hcalm, hdTR, hdRT, hs03.max]
          omega
        have hfin : ∀ r5 : Reg, SameSheet r3 r5 → 2 * psi r5 + Ds r5 ≤ 2 * psi1 r + Ds r := by
          intro r5 h5
          rw [h5.psi, h5.Ds]; omega
        split
        · apply hfin
          have hm4 : 0 < ({ r3 with queue := c2 } : Reg).max := by
            show 0 < r3.max; rw [hs03.max]; exact hmax
          have := allocateTables_sheet ({ r3 with queue := c2 } : Reg) hm4 (by
            show r3.requiredTables ≤ r3.tableCount; omega)
          exact ⟨this.tables, this.tc, this.pc, this.max⟩
        · exact hfin _ hsh4
      · have hpsi13 : psi1 r3 = psi1 r := by
          unfold psi1
          rw [hdTR, hdRT, hs03.max, hl03]
          omega
        split
        · have := allocateTables_pot _ hwf4 (by show 0 < r3.max; rw [hs03.max]; exact hmax) hpc4
          rw [hsh4.psi1, hsh4.Ds] at this
          omega
        · rw [hsh4.psi, hsh4.Ds]
          have := psi_le_psi1 r3
          omega
    · have := psi_le_psi1 r; omega

theorem tot_rF_zero (ts : List RTable) (h : ∀ t ∈ ts, t.required ≤ 0) : tot rF ts = 0 := by
  apply tot_zero
  intro t ht
  have := h t ht
  simp only [rF]; omega

/-- in a calm state whose `Required`s can absorb the whole queue, draining only dispatches:
    the state stays calm and no component of the potential rises -/
theorem drainWaitingQueue_calm (r : Reg) (hwf : WF r) (hmax : 0 < r.max) (hc : calm r)
    (hq : r.queue.length ≤ tot rF r.tables)
    (hb : r.drainWaitingQueue.badChoice = false) :
    psi r.drainWaitingQueue ≤ psi r ∧ Ds r.drainWaitingQueue ≤ Ds r := by
  rw [drainWaitingQueue_eq] at hb ⊢
  split
  · rename_i h
    -- no table and (as nothing is required) nobody queued: nothing is allocated
    have hnil := tables_nil_of_tc hwf h.1
    rw [hnil] at hq
    have h0 : tot rF [] = 0 := rfl
    have hqn : r.queue = [] := List.length_eq_zero_iff.1 (by omega)
    obtain ⟨a1, a2⟩ := allocateTables_queue_nil r hqn
    obtain ⟨hs, _, _⟩ := allocateTables_tc r hmax
    have hsh : SameSheet r r.allocateTables := ⟨a1, a2, hs.pc, hs.max⟩
    rw [hsh.psi, hsh.Ds]
    exact ⟨Nat.le_refl _, Nat.le_refl _⟩
  · rename_i hn1
    rw [if_neg hn1] at hb
    split
    · rename_i hpos
      rw [if_pos hpos] at hb
      generalize hp1 : dispatchLoop (r.queue.length + 1) r.queue r = p1 at hb ⊢
      obtain ⟨c1, r1⟩ := p1
      simp only at hb ⊢
      generalize hr2 : (if (!c1.isEmpty) = true then r1.updateTableRequirements else r1) = r2 at hb ⊢
      generalize hp3 : dispatchLoop (c1.length + 1) c1 r2 = p3 at hb ⊢
      obtain ⟨c2, r3⟩ := p3
      simp only at hb ⊢
      have hb3 : r3.badChoice = false := by
        split at hb
        · rw [allocateTables_badChoice] at hb; exact hb
        · exact hb
      have hb2 : r2.badChoice = false := by
        cases hbb : r2.badChoice with
        | false => rfl
        | true =>
          rw [dispatchLoop_bad _ c1 r2 hbb] at hp3
          simp only [Prod.mk.injEq] at hp3
          rw [← hp3.2, hbb] at hb3; cases hb3
      have hb1 : r1.badChoice = false := by
        rw [← hr2] at hb2
        split at hb2
        · rw [(updateTableRequirements_eq r1)] at hb2
          split at hb2 <;> exact hb2
        · exact hb2
      -- nothing is left over
      obtain ⟨_, _, _, _, hfuel⟩ := dispatchLoop_spec _ hwf hp1 hb1
      obtain ⟨s1, t1, g1, u1, d1, l1, hr, hl⟩ := dispatchLoop_pot hwf hp1 hb1
      have hc1 : c1 = [] := by
        rcases hfuel (by omega) with h | h
        · exact h
        · have h0 := tot_rF_zero _ h
          have : c1.length = 0 := by omega
          exact List.length_eq_zero_iff.1 this
      subst hc1
      simp only [List.isEmpty_nil, Bool.not_true, Bool.false_eq_true, if_false] at hr2
      subst hr2
      have e3 : dispatchLoop (([] : List Nat).length + 1) [] r1 = ([], r1) := by
        simp [dispatchLoop]
      rw [e3] at hp3
      simp only [Prod.mk.injEq] at hp3
      obtain ⟨rfl, rfl⟩ := hp3
      simp only [List.isEmpty_nil, Bool.not_true, Bool.false_eq_true, if_false]
      have hsh : SameSheet r1 ({ r1 with queue := [] } : Reg) := ⟨rfl, rfl, rfl, rfl⟩
      rw [hsh.psi, hsh.Ds]
      have hcalm1 : calm r1 := ⟨by rw [t1, s1.req]; exact hc.1, by rw [u1]; exact hc.2⟩
      refine ⟨?_, d1⟩
      unfold psi
      rw [TP_calm hcalm1, TP_calm hc, g1, s1.max]
      have e4 : dTR r1 = dTR r := by unfold dTR; rw [t1, s1.req]
      have e5 : dRT r1 = dRT r := by unfold dRT; rw [t1, s1.req]
      rw [e4, e5]
      exact Nat.le_refl _
    · exact ⟨Nat.le_refl _, Nat.le_refl _⟩

/-! ### `ReleasePlayers` -/

theorem releasePlayers_pot (r : Reg) (rel ch : List Nat) (hwf : WF r) (hmax : 0 < r.max) (hpc : 0 ≤ r.playerCount)
    (hb : (r.releasePlayers rel ch).badChoice = false) :
    2 * psi (r.releasePlayers rel ch) + Ds (r.releasePlayers rel ch) ≤ 2 * psi1 r + Ds r := by
  unfold releasePlayers enterWaitingQueue at hb ⊢
  simp only at hb ⊢
  have hsh : SameSheet r ({ r.beginOp ch with queue := (r.beginOp ch).queue ++ rel } : Reg) := ⟨rfl, rfl, rfl, rfl⟩
  split
  · rw [hsh.psi, hsh.Ds]
    have := psi_le_psi1 r; omega
  · rename_i hp
    rw [if_neg hp] at hb
    have hwf' : WF ({ r.beginOp ch with queue := (r.beginOp ch).queue ++ rel } : Reg) :=
      (hwf.beginOp ch).setQueue _
    have := drainWaitingQueue_pot _ hwf' hmax hpc hb
    rw [hsh.psi1, hsh.Ds] at this
    exact this

theorem releasePlayers_calm (r : Reg) (rel ch : List Nat) (hwf : WF r) (hmax : 0 < r.max) (hc : calm r)
    (hq : r.queue.length + rel.length ≤ tot rF r.tables)
    (hb : (r.releasePlayers rel ch).badChoice = false) :
    psi (r.releasePlayers rel ch) ≤ psi r ∧ Ds (r.releasePlayers rel ch) ≤ Ds r := by
  unfold releasePlayers enterWaitingQueue at hb ⊢
  simp only at hb ⊢
  have hsh : SameSheet r ({ r.beginOp ch with queue := (r.beginOp ch).queue ++ rel } : Reg) := ⟨rfl, rfl, rfl, rfl⟩
  split
  · rw [hsh.psi, hsh.Ds]
    exact ⟨Nat.le_refl _, Nat.le_refl _⟩
  · rename_i hp
    rw [if_neg hp] at hb
    have hwf' : WF ({ r.beginOp ch with queue := (r.beginOp ch).queue ++ rel } : Reg) :=
      (hwf.beginOp ch).setQueue _
    have := drainWaitingQueue_calm _ hwf' hmax (hsh.calm.2 hc) (by
      show (r.queue ++ rel).length ≤ tot rF r.tables
      rw [List.length_append]; exact hq) hb
    rw [hsh.psi, hsh.Ds] at this
    exact this

end Reg
end Pokerface
