import Pokerface.Proofs.Bets
import Pokerface.Generated.Tables
/-
  Concrete 3-seat configurations used by the non-vacuity examples of C11, C12, C13.
-/
namespace Pokerface
namespace Ex

def deck : List Card :=
  [⟨83, 2⟩, ⟨83, 3⟩, ⟨72, 4⟩, ⟨72, 9⟩, ⟨68, 11⟩, ⟨68, 14⟩, ⟨67, 7⟩, ⟨67, 8⟩, ⟨83, 10⟩, ⟨72, 12⟩, ⟨68, 5⟩,
   ⟨67, 6⟩, ⟨83, 13⟩, ⟨72, 14⟩, ⟨68, 2⟩, ⟨67, 3⟩]

/-- no-limit hold'em options: ante, dealer blind, small blind, big blind -/
def opts (ante bd sb bb : Int) : Meta :=
  { ante := ante, blindDealer := bd, blindSB := sb, blindBB := bb, potLimit := false, holeCount := 2, required := 0,
    lvl := Generated.combinationLevel, table := Generated.powerStandard, deck := deck }

/-- three seats: dealer, small blind, big blind with the given bankrolls -/
def cfg (m : Meta) (b0 b1 b2 : Int) : Config :=
  { opts := m, seats := [⟨b0, true, false, false⟩, ⟨b1, false, true, false⟩, ⟨b2, false, false, true⟩] }

/-- blinds 5/10, no ante, deep stacks -/
def c1 : Config := cfg (opts 0 0 5 10) 1000 1000 1000

/-- preflop, the dealer (seat 0) is asked to act facing the big blind -/
def g1 : Game := (start c1).1.run [.ready, .payBlinds, .ready]

/-- flop, nobody has bet: after three calls/checks preflop -/
def g2 : Game := g1.run [.act none .call 0, .act none .call 0, .act none .check 0, .next, .ready]

/-- short big blind: seat 2 has only 6 chips, so the wager to match after the blinds is 6 < BB = 10 -/
def c3 : Config := cfg (opts 0 0 5 10) 1000 1000 6

def g3 : Game := (start c3).1.run [.ready, .payBlinds, .ready]

/-- flop after a bet of 30 by seat 1: seat 2 faces 30, minimum raise 30 -/
def g4 : Game := g2.run [.act none .bet 30]

end Ex
end Pokerface

namespace Pokerface
open Game

namespace Ex

theorem optsOK (a d s b : Int) (h : 0 ≤ a ∧ 0 ≤ d ∧ 0 ≤ s ∧ 0 ≤ b) : OptsOK (opts a d s b) :=
  ⟨h.1, h.2.1, h.2.2.1, h.2.2.2⟩

theorem wf1 : WFConfig c1 := ⟨optsOK _ _ _ _ (by decide)⟩
theorem reach_g1 : Reachable g1 := reachable_run wf1 (by decide) _
theorem reach_g2 : Reachable g2 := reach_g1.run _
theorem wf3 : WFConfig c3 := ⟨optsOK _ _ _ _ (by decide)⟩
theorem reach_g3 : Reachable g3 := reachable_run wf3 (by decide) _
theorem reach_g4 : Reachable g4 := reach_g2.run _

end Ex
end Pokerface
