import Pokerface.Proofs.SettleDefs
import Pokerface.Proofs.Assoc
/-
  Helper lemmas for SettleLevel.lean.
-/
namespace Pokerface

theorem bumpAll_nil (ps : List PlayerResult) : bumpAll ps [] = ps := rfl

theorem bumpAll_cons (ps : List PlayerResult) (u) (us : List (Nat × Int)) :
    bumpAll ps (u :: us) = bumpAll (bumpPlayer ps u.1 u.2) us := rfl

theorem bumpAll_append (ps : List PlayerResult) (us vs : List (Nat × Int)) :
    bumpAll ps (us ++ vs) = bumpAll (bumpAll ps us) vs := by
  simp [bumpAll, List.foldl_append]

theorem payWinners_players (wager based rem count offset : Int) (a : Acc) (i : Nat) (ws : List Nat) :
    (payWinners wager based rem count offset a i ws).players
      = bumpAll a.players ((ws.zipIdx i).map fun wp =>
          (wp.1, (if Int.tmod ((wp.2 : Int) - offset + count) count < rem then based + 1 else based) - wager)) := by
  induction ws generalizing a i with
  | nil => rfl
  | cons w ws ih =>
    simp only [payWinners, ih, List.zipIdx_cons, List.map_cons, bumpAll_cons, Acc.update]

theorem payWinners_offset (wager based rem count offset : Int) (a : Acc) (i : Nat) (ws : List Nat) :
    (payWinners wager based rem count offset a i ws).offset = a.offset := by
  induction ws generalizing a i with
  | nil => rfl
  | cons w ws ih => simp only [payWinners, ih, Acc.update]

theorem foldl_losers_players (w : Int) (L : List Nat) (a : Acc) :
    (L.foldl (fun a i => a.update i w (-w)) a).players = bumpAll a.players (L.map fun i => (i, -w)) := by
  induction L generalizing a with
  | nil => rfl
  | cons x L ih => rw [List.foldl_cons, ih]; rfl

theorem foldl_losers_offset (w : Int) (L : List Nat) (a : Acc) :
    (L.foldl (fun a i => a.update i w (-w)) a).offset = a.offset := by
  induction L generalizing a with
  | nil => rfl
  | cons x L ih => rw [List.foldl_cons, ih]; rfl

theorem bumpPlayer_idx (ps : List PlayerResult) (j : Nat) (d : Int) :
    (bumpPlayer ps j d).map (·.idx) = ps.map (·.idx) := by
  induction ps with
  | nil => rfl
  | cons p ps ih =>
    simp only [bumpPlayer]; split <;> simp [ih]

theorem bumpPlayer_base (ps : List PlayerResult) (j : Nat) (d : Int) :
    (bumpPlayer ps j d).map (fun p => (p.idx, p.finalStack - p.changed))
      = ps.map (fun p => (p.idx, p.finalStack - p.changed)) := by
  induction ps with
  | nil => rfl
  | cons p ps ih =>
    simp only [bumpPlayer]; split
    · simp; omega
    · simp [ih]

theorem net_nil (i : Nat) : net [] i = 0 := rfl

theorem net_cons (u : Nat × Int) (us : List (Nat × Int)) (i : Nat) :
    net (u :: us) i = (if u.1 = i then u.2 else 0) + net us i := by
  simp only [net, List.filter_cons]
  by_cases h : u.1 = i <;> simp [h]

theorem chg_cons (p : PlayerResult) (ps : List PlayerResult) (i : Nat) :
    chg (p :: ps) i = if p.idx = i then p.changed else chg ps i := by
  simp only [chg, List.find?_cons]
  by_cases h : p.idx = i
  · simp [h]
  · have : (p.idx == i) = false := by simpa using h
    simp [h, this]

theorem chg_bumpPlayer (ps : List PlayerResult) (j : Nat) (d : Int) (i : Nat)
    (h : i ∈ ps.map (·.idx)) : chg (bumpPlayer ps j d) i = chg ps i + (if j = i then d else 0) := by
  induction ps with
  | nil => simp at h
  | cons p ps ih =>
    simp only [bumpPlayer]
    split
    next hj =>
      rw [chg_cons, chg_cons]
      split
      next hi => simp only [] at hi; rw [if_pos (hj ▸ hi)]
      next hi => simp only [] at hi; rw [if_neg (hj ▸ hi)]; omega
    next hj =>
      rw [chg_cons, chg_cons]
      split
      next hi => rw [if_neg (fun e => hj (by omega))]; omega
      next hi =>
        apply ih
        simp only [List.map_cons, List.mem_cons] at h
        rcases h with h | h
        · exact absurd h.symm hi
        · exact h

theorem sum_changed_bumpPlayer (ps : List PlayerResult) (j : Nat) (d : Int)
    (h : j ∈ ps.map (·.idx)) :
    ((bumpPlayer ps j d).map (·.changed)).sum = (ps.map (·.changed)).sum + d := by
  induction ps with
  | nil => simp at h
  | cons p ps ih =>
    simp only [bumpPlayer]
    by_cases hj : p.idx = j
    · simp [hj]; omega
    · have hmem : j ∈ ps.map (·.idx) := by
        simp only [List.map_cons, List.mem_cons] at h
        rcases h with h | h
        · exact absurd h.symm hj
        · exact h
      simp [hj, ih hmem]; omega

theorem addScores_nil (gs : List RankGroup) : addScores gs [] = gs := rfl

theorem addScores_cons (gs : List RankGroup) (x) (xs : List (Nat × Int)) :
    addScores gs (x :: xs) = addScores (rankAdd gs x.2 x.1) xs := rfl

theorem addScores_append (gs : List RankGroup) (xs ys : List (Nat × Int)) :
    addScores gs (xs ++ ys) = addScores (addScores gs xs) ys := by
  simp [addScores, List.foldl_append]

theorem scoredRows_nil (C : List Nat) : scoredRows [] C = [] := rfl

theorem scoredRows_cons (row : Nat × Int × Bool × Int) (rows) (C : List Nat) :
    scoredRows (row :: rows) C =
      if C.contains row.1 then (row.1, if row.2.2.1 then (0 : Int) else row.2.2.2) :: scoredRows rows C
      else scoredRows rows C := by
  simp only [scoredRows, List.filter_cons]
  split <;> simp

/-! ### `insertBy` / `sortGroups` -/

theorem sortGroups_perm (gs : List RankGroup) : (sortGroups gs).Perm gs := isort_perm _ _

theorem insertBy_score_sorted (x : RankGroup) (l : List RankGroup)
    (h : l.Pairwise (fun a b => b.score ≤ a.score)) :
    (insertBy (fun a b => decide (a.score > b.score)) x l).Pairwise (fun a b => b.score ≤ a.score) := by
  induction l with
  | nil => simp [insertBy]
  | cons y ys ih =>
    simp only [insertBy]
    rw [List.pairwise_cons] at h
    split
    next hlt =>
      simp only [gt_iff_lt, decide_eq_true_eq] at hlt
      rw [List.pairwise_cons]
      refine ⟨?_, List.pairwise_cons.2 h⟩
      intro z hz
      rcases List.mem_cons.1 hz with rfl | hz
      · omega
      · have := h.1 z hz; omega
    next hlt =>
      simp only [gt_iff_lt, decide_eq_true_eq] at hlt
      rw [List.pairwise_cons]
      refine ⟨?_, ih h.2⟩
      intro z hz
      rcases List.mem_cons.1 ((insertBy_perm _ x ys).mem_iff.1 hz) with rfl | hz
      · omega
      · exact h.1 z hz

theorem sortGroups_sorted (gs : List RankGroup) :
    (sortGroups gs).Pairwise (fun a b => b.score ≤ a.score) := by
  unfold sortGroups isort
  suffices h : ∀ acc : List RankGroup, acc.Pairwise (fun a b => b.score ≤ a.score) →
      (gs.foldl (fun acc x => insertBy (fun a b => decide (a.score > b.score)) x acc) acc).Pairwise
        (fun a b => b.score ≤ a.score) from h [] List.Pairwise.nil
  induction gs with
  | nil => intro acc h; exact h
  | cons x xs ih => intro acc h; exact ih _ (insertBy_score_sorted x acc h)

/-! ### `rankAdd` / `addScores` -/

theorem rankAdd_scores (gs : List RankGroup) (s : Int) (i : Nat) :
    (rankAdd gs s i).map (·.score) = if s ∈ gs.map (·.score) then gs.map (·.score) else gs.map (·.score) ++ [s] := by
  induction gs with
  | nil => simp [rankAdd]
  | cons g gs ih =>
    simp only [rankAdd]
    split
    next h => simp [h]
    next h =>
      have h' : ¬ s = g.score := fun e => h e.symm
      simp only [List.map_cons, ih, List.mem_cons, h', false_or]
      split <;> simp

theorem rankAdd_flatMap (gs : List RankGroup) (s : Int) (i : Nat) :
    ((rankAdd gs s i).flatMap (·.contributors)).Perm (gs.flatMap (·.contributors) ++ [i]) := by
  induction gs with
  | nil => simp [rankAdd]
  | cons g gs ih =>
    simp only [rankAdd]
    split
    · simp only [List.flatMap_cons, List.append_assoc]
      refine List.Perm.append_left _ ?_
      exact List.perm_append_comm
    · simp only [List.flatMap_cons, List.append_assoc]
      exact List.Perm.append_left _ ih

theorem rankAdd_mem (gs : List RankGroup) (s : Int) (i : Nat) (hnd : (gs.map (·.score)).Nodup)
    (g' : RankGroup) (hg' : g' ∈ rankAdd gs s i) :
    (g' ∈ gs ∧ g'.score ≠ s) ∨
    (∃ g ∈ gs, g.score = s ∧ g' = { g with contributors := g.contributors ++ [i] }) ∨
    (s ∉ gs.map (·.score) ∧ g' = ⟨s, [i]⟩) := by
  induction gs with
  | nil =>
    simp only [rankAdd, List.mem_singleton] at hg'
    right; right; simp [hg']
  | cons g gs ih =>
    simp only [List.map_cons, List.nodup_cons] at hnd
    simp only [rankAdd] at hg'
    split at hg'
    next h =>
      rcases List.mem_cons.1 hg' with rfl | hm
      · right; left; exact ⟨g, by simp, h, rfl⟩
      · left
        refine ⟨by simp [hm], ?_⟩
        intro e
        apply hnd.1
        rw [h, ← e]
        exact List.mem_map.2 ⟨g', hm, rfl⟩
    next h =>
      rcases List.mem_cons.1 hg' with rfl | hm
      · left; exact ⟨by simp, h⟩
      · rcases ih hnd.2 hm with ⟨h1, h2⟩ | ⟨g0, h1, h2, h3⟩ | ⟨h1, h2⟩
        · left; exact ⟨by simp [h1], h2⟩
        · right; left; exact ⟨g0, by simp [h1], h2, h3⟩
        · right; right
          refine ⟨?_, h2⟩
          simp only [List.map_cons, List.mem_cons, not_or]
          exact ⟨fun e => h e.symm, h1⟩

/-- Invariant of `addScores [] xs`. -/
structure GroupsInv (gs : List RankGroup) (xs : List (Nat × Int)) : Prop where
  nodup : (gs.map (·.score)).Nodup
  scores : ∀ s, s ∈ gs.map (·.score) ↔ s ∈ xs.map (·.2)
  contrib : ∀ g ∈ gs, g.contributors = (xs.filter (fun x => x.2 = g.score)).map (·.1)
  perm : (gs.flatMap (·.contributors)).Perm (xs.map (·.1))

theorem GroupsInv.step {gs : List RankGroup} {xs : List (Nat × Int)} (h : GroupsInv gs xs) (x : Nat × Int) :
    GroupsInv (rankAdd gs x.2 x.1) (xs ++ [x]) := by
  obtain ⟨i, s⟩ := x
  refine ⟨?_, ?_, ?_, ?_⟩
  · rw [rankAdd_scores]
    split
    · exact h.nodup
    next hs =>
      rw [List.nodup_append]
      refine ⟨h.nodup, by simp, ?_⟩
      intro a ha b hb
      simp only [List.mem_singleton] at hb
      subst hb
      exact fun e => hs (e ▸ ha)
  · intro t
    rw [rankAdd_scores]
    simp only [List.map_append, List.mem_append, List.map_cons, List.map_nil, List.mem_singleton]
    split
    next hs =>
      rw [h.scores t]
      constructor
      · exact Or.inl
      · rintro (h1 | rfl)
        · exact h1
        · exact (h.scores _).1 hs
    next hs =>
      simp only [List.mem_append, List.mem_singleton, h.scores t]
  · intro g' hg'
    simp only [List.filter_append, List.map_append]
    rcases rankAdd_mem gs s i h.nodup g' hg' with ⟨h1, h2⟩ | ⟨g0, h1, h2, rfl⟩ | ⟨h1, rfl⟩
    · rw [h.contrib g' h1]
      have : ¬ s = g'.score := fun e => h2 e.symm
      simp [this]
    · simp only
      rw [h.contrib g0 h1]
      simp [h2]
    · simp only
      have : xs.filter (fun x => x.2 = s) = [] := by
        rw [List.filter_eq_nil_iff]
        intro a ha
        simp only [decide_eq_true_eq]
        intro e
        apply h1
        rw [h.scores]
        exact List.mem_map.2 ⟨a, ha, e⟩
      simp [this]
  · refine (rankAdd_flatMap gs s i).trans ?_
    simp only [List.map_append, List.map_cons, List.map_nil]
    exact List.Perm.append_right _ h.perm

theorem groupsInv_addScores (xs : List (Nat × Int)) : GroupsInv (addScores [] xs) xs := by
  suffices h : ∀ ys gs, GroupsInv gs ys → GroupsInv (addScores gs xs) (ys ++ xs) by
    simpa using h [] [] ⟨by simp, by simp, by simp, by simp⟩
  induction xs with
  | nil => intro ys gs h; simpa [addScores_nil] using h
  | cons x xs ih =>
    intro ys gs h
    rw [addScores_cons]
    have := ih (ys ++ [x]) _ (h.step x)
    simpa using this

/-! ### arithmetic of `reward` -/

theorem tmod_rot (p n o : Int) (hp : 0 ≤ p) (hpn : p < n) (ho : 0 ≤ o) (hon : o < n) :
    Int.tmod (p - o + n) n = if o ≤ p then p - o else p - o + n := by
  rw [Int.tmod_eq_emod_of_nonneg (by omega)]
  split
  · rw [Int.add_emod_right, Int.emod_eq_of_lt (by omega) (by omega)]
  · rw [Int.emod_eq_of_lt (by omega) (by omega)]

/-- `reward` in terms of Euclidean division and an explicit window. -/
theorem reward_eq (T : Int) (n : Nat) (o : Int) (p : Nat) (hT : 0 ≤ T) (hp : p < n)
    (ho : 0 ≤ o) (hon : o < n) :
    reward T n o p = T / n +
      (if (o ≤ (p : Int) ∧ (p : Int) < o + T % n) ∨ (p : Int) < o + T % n - n then 1 else 0) := by
  unfold reward
  rw [tmod_rot p n o (by omega) (by omega) ho hon, Int.tmod_eq_emod_of_nonneg hT,
    Int.tdiv_eq_ediv_of_nonneg hT]
  have h1 : 0 ≤ T % (n : Int) := Int.emod_nonneg _ (by omega)
  have h2 : T % (n : Int) < n := Int.emod_lt_of_pos _ (by omega)
  generalize T % (n : Int) = r at *
  generalize T / (n : Int) = b at *
  split <;> split <;> split <;> omega

theorem sum_window (b o r n : Int) (ho : 0 ≤ o) (hr : 0 ≤ r) (hrn : r ≤ n) (m : Nat) :
    ((List.range m).map (fun p : Nat =>
      b + (if (o ≤ (p : Int) ∧ (p : Int) < o + r) ∨ (p : Int) < o + r - n then (1 : Int) else 0))).sum
    = m * b + (max 0 (min (m : Int) (o + r)) - max 0 (min (m : Int) o)) + max 0 (min (m : Int) (o + r - n)) := by
  induction m with
  | zero => simp; omega
  | succ m ih =>
    rw [List.range_succ, List.map_append, List.sum_append_int, ih]
    simp only [List.map_cons, List.map_nil, List.sum_cons, List.sum_nil]
    have : ((m + 1 : Nat) : Int) * b = m * b + b := by
      rw [Int.natCast_succ, Int.add_mul, Int.one_mul]
    rw [this]
    generalize (m : Int) * b = mb
    split <;> omega

theorem sum_reward (T : Int) (n : Nat) (o : Int) (hT : 0 ≤ T) (hn : 0 < n) (ho : 0 ≤ o) (hon : o < n) :
    ((List.range n).map (fun p => reward T n o p)).sum = T := by
  have h1 : 0 ≤ T % (n : Int) := Int.emod_nonneg _ (by omega)
  have h2 : T % (n : Int) < n := Int.emod_lt_of_pos _ (by omega)
  have h3 := Int.mul_ediv_add_emod T n
  have : (List.range n).map (fun p => reward T n o p) = (List.range n).map (fun p : Nat =>
      T / n + (if (o ≤ (p : Int) ∧ (p : Int) < o + T % n) ∨ (p : Int) < o + T % n - n then (1 : Int) else 0)) := by
    apply List.map_congr_left
    intro p hp
    exact reward_eq T n o p hT (List.mem_range.1 hp) ho hon
  rw [this, sum_window (T / n) o (T % n) n ho h1 (by omega) n]
  generalize T % (n : Int) = r at *
  generalize T / (n : Int) = b at *
  generalize (n : Int) * b = nb at *
  omega

theorem reward_bounds (T : Int) (n : Nat) (o : Int) (p : Nat) (hT : 0 ≤ T) (hn : 0 < n) (hon : o ≤ n) :
    0 ≤ reward T n o p ∧ reward T n o p ≤ T := by
  unfold reward
  rw [Int.tmod_eq_emod_of_nonneg hT, Int.tdiv_eq_ediv_of_nonneg hT]
  have h1 : 0 ≤ T % (n : Int) := Int.emod_nonneg _ (by omega)
  have h3 := Int.mul_ediv_add_emod T n
  have h4 : 0 ≤ T / (n : Int) := Int.ediv_nonneg hT (by omega)
  have h5 : T / (n : Int) ≤ (n : Int) * (T / n) := by
    have : 1 * (T / (n : Int)) ≤ (n : Int) * (T / n) := Int.mul_le_mul_of_nonneg_right (by omega) h4
    omega
  have h6 : 0 ≤ Int.tmod ((p : Int) - o + n) n := Int.tmod_nonneg _ (by omega)
  generalize T % (n : Int) = r at *
  generalize T / (n : Int) = b at *
  generalize (n : Int) * b = nb at *
  generalize Int.tmod ((p : Int) - o + n) n = v at *
  split <;> omega

theorem reward_dvd (w : Int) (n : Nat) (o : Int) (p : Nat) (hw : 0 ≤ w) (hn : 0 < n) (hon : o ≤ n) :
    reward (n * w) n o p = w := by
  have hT : 0 ≤ (n : Int) * w := Int.mul_nonneg (by omega) hw
  unfold reward
  rw [Int.tmod_eq_emod_of_nonneg hT, Int.tdiv_eq_ediv_of_nonneg hT,
    Int.mul_emod_right, Int.mul_ediv_cancel_left _ (by omega)]
  have h6 : 0 ≤ Int.tmod ((p : Int) - o + n) n := Int.tmod_nonneg _ (by omega)
  split
  next h => omega
  next => rfl

end Pokerface
